import MgpuModel.C01
/-! Helper lemmas for the C01 property theorems (kernel-argument marshalling). -/
namespace C01


theorem le_length' (n k : Nat) : (le n k).length = k := by
  induction k generalizing n with
  | zero => rfl
  | succ k ih => simp [le, ih]

theorem take_len_append {α} (a b : List α) : (a ++ b).take a.length = a := by
  induction a with
  | nil => simp
  | cons x xs ih => simp [ih]

theorem drop_len_append {α} (a b : List α) : (a ++ b).drop a.length = b := by
  induction a with
  | nil => simp
  | cons x xs ih => simp [ih]

theorem width_eq (v w : Nat) : (encodeField (.localPtr v)).length = (encodeField (.localPtr w)).length := by
  simp [encodeField, le_length']

/-- the i-th patched field: plain fields untouched, a LocalPtr field holds the running offset -/
def expectedField (l : Nat) (fs : List Field) (i : Nat) : Field → Field
  | .plain bs => .plain bs
  | .localPtr _ => .localPtr ((l + dynSum (fs.take i)) % W)

theorem patch_get' (l : Nat) (hl : l < W) (fs : List Field) (i : Nat) :
    (patch l fs).1[i]? = (fs[i]?).map (expectedField l fs i) := by
  induction fs generalizing l i with
  | nil => simp [patch]
  | cons f fs ih =>
    cases f with
    | localPtr sz =>
      cases i with
      | zero => simp [patch, expectedField, dynSum, Nat.mod_eq_of_lt hl]
      | succ i =>
        have h := ih ((l + sz) % W) (Nat.mod_lt _ (by decide)) i
        simp only [patch, List.getElem?_cons_succ, h]
        cases hfi : fs[i]? with
        | none => simp
        | some g =>
          cases g with
          | plain bs => simp [expectedField]
          | localPtr v =>
            simp only [Option.map_some, expectedField, List.take_succ_cons, dynSum]
            congr 2
            simp only [W]
            omega
    | plain bs =>
      cases i with
      | zero => simp [patch, expectedField]
      | succ i =>
        have h := ih l hl i
        simp only [patch, List.getElem?_cons_succ, h]
        cases hfi : fs[i]? with
        | none => simp
        | some g =>
          cases g with
          | plain bs' => simp [expectedField]
          | localPtr v => simp [expectedField, dynSum]

theorem patch_total' (l : Nat) (hl : l < W) (fs : List Field) :
    (patch l fs).2 = (l + dynSum fs) % W := by
  induction fs generalizing l with
  | nil => simp [patch, dynSum, Nat.mod_eq_of_lt hl]
  | cons f fs ih =>
    cases f with
    | localPtr sz =>
      simp only [patch, dynSum]
      rw [ih _ (Nat.mod_lt _ (by decide))]
      simp only [W]
      omega
    | plain bs =>
      simp only [patch, dynSum]
      exact ih l hl

theorem patch_length' (l : Nat) (fs : List Field) : (patch l fs).1.length = fs.length := by
  induction fs generalizing l with
  | nil => rfl
  | cons f fs ih => cases f <;> simp [patch, ih]

theorem patch_widths' (l : Nat) (fs : List Field) :
    (patch l fs).1.map (fun f => (encodeField f).length) = fs.map (fun f => (encodeField f).length) := by
  induction fs generalizing l with
  | nil => rfl
  | cons f fs ih =>
    cases f with
    | localPtr sz =>
      simp only [patch, List.map_cons]
      rw [ih]
      simp [encodeField, le_length']
    | plain bs =>
      simp only [patch, List.map_cons]
      rw [ih]

theorem encode_slice' (fs : List Field) (i : Nat) (f : Field) (h : fs[i]? = some f) :
    ((encode fs).drop (encode (fs.take i)).length).take (encodeField f).length = encodeField f := by
  induction fs generalizing i with
  | nil => simp at h
  | cons g gs ih =>
    cases i with
    | zero =>
      simp at h
      subst h
      simp [encode]
    | succ i =>
      simp at h
      have := ih i h
      simp only [List.take_succ_cons, encode, List.length_append]
      rw [← List.drop_drop, drop_len_append]
      exact this

theorem dynSum_take_le (fs : List Field) (i : Nat) : dynSum (fs.take i) ≤ dynSum fs := by
  induction fs generalizing i with
  | nil => simp [dynSum]
  | cons f fs ih =>
    cases i with
    | zero => simp [dynSum]
    | succ i =>
      cases f with
      | localPtr v => simp only [List.take_succ_cons, dynSum]; have := ih i; omega
      | plain bs => simp only [List.take_succ_cons, dynSum]; exact ih i

theorem dynSum_take_succ (fs : List Field) (i v : Nat) (h : fs[i]? = some (.localPtr v)) :
    dynSum (fs.take (i + 1)) = dynSum (fs.take i) + v := by
  induction fs generalizing i with
  | nil => simp at h
  | cons f fs ih =>
    cases i with
    | zero => simp at h; subst h; simp [dynSum]
    | succ i =>
      simp at h
      have := ih i h
      cases f with
      | localPtr w => simp only [List.take_succ_cons, dynSum, this]; omega
      | plain bs => simp only [List.take_succ_cons, dynSum, this]

theorem dynSum_take_mono (fs : List Field) (i j : Nat) (h : i ≤ j) :
    dynSum (fs.take i) ≤ dynSum (fs.take j) := by
  have : fs.take i = (fs.take j).take i := by rw [List.take_take, Nat.min_eq_left h]
  rw [this]
  exact dynSum_take_le _ _


end C01
