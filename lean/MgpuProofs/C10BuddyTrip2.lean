import MgpuProofs.C10BuddyTrip1
/-!
Buddy allocator, round trips — part 2: the extra invariants on a `State` and the walk through the allocator.

* `NInv`: under a split block the two halves are never both free;
* `EAll`: every allocated block (exists, not split, not free) holds at least one tracked page
  (`EXc … l k`: … except the block `(l, k)` that is being allocated / freed right now);
* `Keys`: `blockTracking` has one entry per page; `CntEq`: the page count of a tracker is EXACTLY the number of
  pages mapped to it.
-/
namespace C10.Buddy

def NInv (F : Nat) (s : State) : Prop := NSib F (FreeN F s) (SplitN F s)

/-- some tracked page lies inside the node -/
def HasTrk (F : Nat) (s : State) (l k : Nat) : Prop :=
  ∃ p id, (p, id) ∈ s.track ∧ addr s.base F l k ≤ p ∧ p < addr s.base F l k + szl (4096 * 2 ^ F) l

def EAll (F : Nat) (s : State) : Prop :=
  ∀ l k, l ≤ F → k < 2 ^ l → UsedN F s l k → HasTrk F s l k

def EXc (F : Nat) (s : State) (l k : Nat) : Prop :=
  ∀ l' k', l' ≤ F → k' < 2 ^ l' → UsedN F s l' k' → (l' = l ∧ k' = k) ∨ HasTrk F s l' k'

def Keys (s : State) : Prop := (s.track.map Prod.fst).Nodup

def CntEq (s : State) : Prop :=
  ∀ id ia num, s.trk[id]? = some (ia, num) → (s.track.filter (fun e => e.2 == id)).length = num

theorem HasTrk.transfer {F : Nat} {s s' : State} {l k : Nat} (h : HasTrk F s l k) (hb : s'.base = s.base)
    (ht : s'.track = s.track) : HasTrk F s' l k := by
  unfold HasTrk at h ⊢
  rw [hb, ht]
  exact h

/-! ## the elementary steps -/

theorem trip_take {F : Nat} {s s' : State} (h : FInv F s) (hN : NInv F s) (hE : EAll F s) {l k : Nat} (hl : l ≤ F)
    (hb : s'.base = s.base) (ht : s'.track = s.track) (hsp : s'.split = s.split)
    (hfr : s'.free = setLvl s.free l ((lvl s.free l).erase (addr s.base F l k))) :
    NInv F s' ∧ EXc F s' l k := by
  have hlen1 : l < s.free.length := by rw [h.hlen]; omega
  obtain ⟨n, bk⟩ := h.tree.take_trip (Fr' := FreeN F s') (Sp' := SplitN F s') hN (l := l) (k := k)
    (fun l' k' _ _ => freeN_erase hb hfr hlen1 hl (h.fnodup l) l' k')
    (fun l' k' _ _ => by unfold SplitN; rw [hsp])
  refine ⟨n, ?_⟩
  intro l' k' hl' hk' hu
  rcases bk l' k' hl' hk' hu with hu0 | e
  · exact Or.inr ((hE l' k' hl' hk' hu0).transfer hb ht)
  · exact Or.inl e

theorem trip_split {F : Nat} {s s' : State} (h : FInv F s) (hN : NInv F s) {l k : Nat} (hE : EXc F s l k)
    (hl : l < F) (hk : k < 2 ^ l) (hu : UsedN F s l k) (hb : s'.base = s.base)
    (ht : s'.track = s.track) (hsp : s'.split = toggle s.split (ix l k))
    (hfr : s'.free = setLvl s.free (l + 1) (lvl s.free (l + 1) ++ [addr s.base F (l + 1) (2 * k + 1)])) :
    NInv F s' ∧ EXc F s' (l + 1) (2 * k) := by
  have hlen1 : l + 1 < s.free.length := by rw [h.hlen]; omega
  obtain ⟨n, bk⟩ := h.tree.split_trip (Fr' := FreeN F s') (Sp' := SplitN F s') hN hl hk hu
    (fun l' k' _ _ => freeN_push hb hfr hlen1 (by omega) l' k')
    (fun l' k' _ hk' => by
      rw [splitN_toggle hsp h.snodup hl hk hk']
      by_cases hc : l' = l ∧ k' = k
      · obtain ⟨rfl, rfl⟩ := hc
        simp [hu.2.1]
      · simp [hc])
  refine ⟨n, ?_⟩
  intro l' k' hl' hk' hu'
  rcases bk l' k' hl' hk' hu' with ⟨hu0, hne⟩ | e
  · rcases hE l' k' hl' hk' hu0 with e | ht'
    · exact absurd e hne
    · exact Or.inr (ht'.transfer hb ht)
  · exact Or.inl e

theorem trip_free_stop {F : Nat} {s s' : State} (h : FInv F s) (hN : NInv F s) {l k : Nat}
    (hE : EXc F s (l + 1) k) (hl : l + 1 ≤ F) (hk : k < 2 ^ (l + 1))
    (hu : UsedN F s (l + 1) k) (hm : ¬ MergeN s l (k / 2))
    (hb : s'.base = s.base) (ht : s'.track = s.track) (hsp : s'.split = s.split)
    (hfr : s'.free = setLvl s.free (l + 1) (lvl s.free (l + 1) ++ [addr s.base F (l + 1) k])) :
    NInv F s' ∧ EAll F s' := by
  have hlen1 : l + 1 < s.free.length := by rw [h.hlen]; omega
  obtain ⟨n, bk⟩ := h.tree.free_stop_trip (Fr' := FreeN F s') (Sp' := SplitN F s') hN hl hk hu hm
    (fun l' k' _ _ => freeN_push hb hfr hlen1 (by omega) l' k')
    (fun l' k' _ _ => by unfold SplitN; rw [hsp])
  refine ⟨n, ?_⟩
  intro l' k' hl' hk' hu'
  obtain ⟨hu0, hne⟩ := bk l' k' hl' hk' hu'
  rcases hE l' k' hl' hk' hu0 with e | ht'
  · exact absurd e hne
  · exact ht'.transfer hb ht

theorem trip_free_merge {F : Nat} {s s' : State} (h : FInv F s) (hN : NInv F s) {l k : Nat}
    (hE : EXc F s (l + 1) k) (hl : l + 1 ≤ F) (hk : k < 2 ^ (l + 1))
    (hu : UsedN F s (l + 1) k)
    (hb : s'.base = s.base) (ht : s'.track = s.track) (hsp : s'.split = toggle s.split (ix l (k / 2)))
    (hfr : s'.free = setLvl s.free (l + 1) ((lvl s.free (l + 1)).erase (addr s.base F (l + 1) (bud k)))) :
    NInv F s' ∧ EXc F s' l (k / 2) := by
  have hlen1 : l + 1 < s.free.length := by rw [h.hlen]; omega
  have pl := pow_succ2 l
  have usp : SplitN F s l (k / 2) := hu.1 l rfl
  obtain ⟨n, bk⟩ := h.tree.free_merge_trip (Fr' := FreeN F s') (Sp' := SplitN F s') hN hl hk
    (fun l' k' _ _ => freeN_erase hb hfr hlen1 (by omega) (h.fnodup _) l' k')
    (fun l' k' _ hk' => by
      rw [splitN_toggle hsp h.snodup (by omega) (by omega) hk']
      by_cases hc : l' = l ∧ k' = k / 2
      · obtain ⟨rfl, rfl⟩ := hc
        simp [usp]
      · simp [hc])
  refine ⟨n, ?_⟩
  intro l' k' hl' hk' hu'
  rcases bk l' k' hl' hk' hu' with ⟨hu0, hne⟩ | e
  · rcases hE l' k' hl' hk' hu0 with e | ht'
    · exact absurd e hne
    · exact Or.inr (ht'.transfer hb ht)
  · exact Or.inl e

theorem trip_free_root {F : Nat} {s s' : State} (h : FInv F s) (hN : NInv F s) (hE : EXc F s 0 0)
    (hb : s'.base = s.base) (ht : s'.track = s.track) (hsp : s'.split = s.split)
    (hfr : s'.free = setLvl s.free 0 (lvl s.free 0 ++ [addr s.base F 0 0])) :
    NInv F s' ∧ EAll F s' := by
  have hlen1 : 0 < s.free.length := by rw [h.hlen]; omega
  obtain ⟨n, bk⟩ := h.tree.free_root_trip (Fr' := FreeN F s') (Sp' := SplitN F s') hN
    (fun l' k' _ _ => freeN_push hb hfr hlen1 (by omega) l' k')
    (fun l' k' _ _ => by unfold SplitN; rw [hsp])
  refine ⟨n, ?_⟩
  intro l' k' hl' hk' hu'
  obtain ⟨hu0, hne⟩ := bk l' k' hl' hk' hu'
  rcases hE l' k' hl' hk' hu0 with e | ht'
  · exact absurd e hne
  · exact ht'.transfer hb ht

/-! ## the split loop -/

theorem trip_splitLoop {F : Nat} : ∀ (cnt l k : Nat) (s s' : State), FInv F s → NInv F s → EXc F s l k →
    l + cnt ≤ F → k < 2 ^ l → UsedN F s l k → NoTrk F s l k → splitLoop (addr s.base F l k) cnt l s = .ok s' →
    NInv F s' ∧ EXc F s' (l + cnt) (k * 2 ^ cnt) := by
  intro cnt
  induction cnt with
  | zero =>
    intro l k s s' _ hN hE _ _ _ _ hs
    simp only [splitLoop] at hs
    injection hs with hs
    subst hs
    simpa using ⟨hN, hE⟩
  | succ cnt ih =>
    intro l k s s' h hN hE hl hk hu hnt hs
    have hs := splitLoop_succ hs
    have hsz := h.hsize
    have e1 : addr s.base F l k = addr s.base F (l + 1) (2 * k) := (addr_child (by omega)).symm
    have ei : indexOfBlock s.base s.size (addr s.base F l k) l = ix l k := by
      rw [hsz]; exact index_self (by omega)
    have eb : buddyOf s.base s.size (addr s.base F l k) (l + 1) = addr s.base F (l + 1) (2 * k + 1) := by
      rw [hsz, e1, buddy_addr (by omega), bud_even]
    rw [ei, eb, e1] at hs
    obtain ⟨h1, u1, n1⟩ := finv_split
      (s' := push { s with split := toggle s.split (ix l k), merge := toggle s.merge (ix l k) } (l + 1)
        (addr s.base F (l + 1) (2 * k + 1)))
      h (by omega) hk hu hnt rfl rfl rfl rfl rfl rfl rfl
    obtain ⟨N1, E1⟩ := trip_split
      (s' := push { s with split := toggle s.split (ix l k), merge := toggle s.merge (ix l k) } (l + 1)
        (addr s.base F (l + 1) (2 * k + 1)))
      h hN hE (by omega) hk hu rfl rfl rfl rfl
    have pl := pow_succ2 l
    obtain ⟨N2, E2⟩ := ih (l + 1) (2 * k) _ s' h1 N1 E1 (by omega) (by omega) u1 n1 hs
    have e2 : l + 1 + cnt = l + (cnt + 1) := by omega
    have e3 : 2 * k * 2 ^ cnt = k * 2 ^ (cnt + 1) := by
      rw [Nat.pow_succ, Nat.mul_comm 2 k, Nat.mul_assoc, Nat.mul_comm 2]
    rw [e2, e3] at E2
    exact ⟨N2, E2⟩

/-! ## the new tracker -/

/-- the end of `allocateMultiplePages`: a new tracker `(a, n)` and the pages `a, a+4096, …` mapped to it -/
def withTracker (s : State) (a n : Nat) : State :=
  { s with trk := s.trk ++ [(a, n)],
           track := (pagesFrom a n).foldl (fun t p => setTrack t p s.trk.length) s.track }

/-- a used block without tracked pages gets a fresh tracker and its first `n ≥ 1` pages -/
theorem trip_track {F : Nat} {s : State} (h : FInv F s) (hK : Keys s) (hC : CntEq s) {l k n : Nat}
    (hE : EXc F s l k) (hl : l ≤ F) (hnt : NoTrk F s l k)
    (hn : n * 4096 ≤ szl (4096 * 2 ^ F) l) :
    Keys (withTracker s (addr s.base F l k) n) ∧ CntEq (withTracker s (addr s.base F l k) n) ∧
    (1 ≤ n → EAll F (withTracker s (addr s.base F l k) n)) ∧
    (∀ q, Tracked (withTracker s (addr s.base F l k) n) q ↔ (q ∈ pagesFrom (addr s.base F l k) n ∨ Tracked s q)) ∧
    (∀ q ∈ pagesFrom (addr s.base F l k) n, ¬ Tracked s q) := by
  generalize hs' : withTracker s (addr s.base F l k) n = s'
  have hs'trk : s'.trk = s.trk ++ [(addr s.base F l k, n)] := by rw [← hs']; rfl
  have hs'track : s'.track =
      (pagesFrom (addr s.base F l k) n).foldl (fun t p => setTrack t p s.trk.length) s.track := by rw [← hs']; rfl
  have hs'base : s'.base = s.base := by rw [← hs']; rfl
  have hs'free : s'.free = s.free := by rw [← hs']; rfl
  have hs'split : s'.split = s.split := by rw [← hs']; rfl
  have hpg : ∀ p ∈ pagesFrom (addr s.base F l k) n,
      addr s.base F l k ≤ p ∧ p < addr s.base F l k + szl (4096 * 2 ^ F) l := by
    intro p hp
    obtain ⟨t, ht, rfl⟩ := (pagesFrom_mem _ _ _).mp hp
    exact ⟨by omega, by omega⟩
  have hnot : ∀ q ∈ pagesFrom (addr s.base F l k) n, ¬ Tracked s q := by
    intro q hq ⟨id, hid⟩
    exact hnt q id hid (hpg q hq)
  have hfold := foldl_setTrack s.trk.length (pagesFrom (addr s.base F l k) n) s.track (pagesFrom_nodup _ _) (by
    intro p hp e he e1
    obtain ⟨q, id⟩ := e
    simp only at e1
    subst e1
    exact hnt q id he (hpg q hp))
  have htr : s'.track = (pagesFrom (addr s.base F l k) n).reverse.map (fun p => (p, s.trk.length)) ++ s.track := by
    rw [hs'track]; exact hfold
  have hold : ∀ p id, (p, id) ∈ s.track → id < s.trk.length := by
    intro p id hp
    obtain ⟨_, _, _, _, _, e, _⟩ := h.D p id hp
    rcases Nat.lt_or_ge id s.trk.length with hh | hh
    · exact hh
    · rw [List.getElem?_eq_none hh] at e
      cases e
  have hmem : ∀ p id, (p, id) ∈ s'.track ↔
      (p ∈ pagesFrom (addr s.base F l k) n ∧ id = s.trk.length) ∨ (p, id) ∈ s.track := by
    intro p id
    rw [htr, List.mem_append, List.mem_map]
    constructor
    · rintro (⟨q, hq, e⟩ | hh)
      · injection e with e1 e2
        subst e1
        exact Or.inl ⟨List.mem_reverse.mp hq, e2.symm⟩
      · exact Or.inr hh
    · rintro (⟨hq, e⟩ | hh)
      · exact Or.inl ⟨p, List.mem_reverse.mpr hq, by rw [e]⟩
      · exact Or.inr hh
  have hget_old : ∀ id, id < s.trk.length → (s.trk ++ [(addr s.base F l k, n)])[id]? = s.trk[id]? := by
    intro id hid
    rw [List.getElem?_append, if_pos hid]
  have hget_new : (s.trk ++ [(addr s.base F l k, n)])[s.trk.length]? = some (addr s.base F l k, n) := by
    rw [List.getElem?_append, if_neg (Nat.lt_irrefl _)]
    simp
  refine ⟨?_, ?_, ?_, ?_, hnot⟩
  · -- keys
    unfold Keys
    rw [htr, List.map_append, List.map_map]
    have e : (Prod.fst ∘ fun p => (p, s.trk.length)) = (id : Nat → Nat) := rfl
    rw [e, List.map_id]
    refine List.nodup_append.mpr ⟨(List.reverse_perm _).nodup_iff.mpr (pagesFrom_nodup _ _), hK, ?_⟩
    intro a ha b hb' e'
    subst e'
    obtain ⟨⟨q, j⟩, hqj, rfl⟩ := List.mem_map.mp hb'
    exact hnot q (List.mem_reverse.mp ha) ⟨j, hqj⟩
  · -- counts
    intro id ia num e
    have e' : (s.trk ++ [(addr s.base F l k, n)])[id]? = some (ia, num) := by rw [← hs'trk]; exact e
    rw [htr, List.filter_append, List.length_append]
    rcases Nat.lt_or_ge id s.trk.length with hid | hid
    · rw [hget_old id hid] at e'
      have := hC id ia num e'
      have z : (List.filter (fun e => e.2 == id)
          ((pagesFrom (addr s.base F l k) n).reverse.map (fun p => (p, s.trk.length)))) = [] := by
        rw [List.filter_eq_nil_iff]
        intro e'' he'
        obtain ⟨q, _, rfl⟩ := List.mem_map.mp he'
        simp
        omega
      rw [z]
      simpa using this
    · have z : (List.filter (fun e => e.2 == id) s.track) = [] := by
        rw [List.filter_eq_nil_iff]
        intro e'' he'
        obtain ⟨q, j⟩ := e''
        have := hold q j he'
        simp
        omega
      rw [z]
      have e3 : id = s.trk.length := by
        rcases Nat.lt_or_ge s.trk.length id with hh | hh
        · rw [List.getElem?_eq_none (by simp; omega)] at e'
          cases e'
        · omega
      subst e3
      rw [hget_new] at e'
      injection e' with e'
      injection e' with _ e'
      subst e'
      have z2 : List.filter (fun e => e.2 == s.trk.length)
          ((pagesFrom (addr s.base F l k) n).reverse.map (fun p => (p, s.trk.length))) =
          (pagesFrom (addr s.base F l k) n).reverse.map (fun p => (p, s.trk.length)) := by
        rw [List.filter_eq_self]
        intro e'' he'
        obtain ⟨q, _, rfl⟩ := List.mem_map.mp he'
        simp
      rw [z2]
      simp [pagesFrom_length]
  · -- every used block holds a tracked page
    intro hn1 l' k' hl' hk' hu'
    have hu0 : UsedN F s l' k' := by
      unfold UsedN Used Ex SplitN FreeN at hu' ⊢
      rw [hs'base, hs'free, hs'split] at hu'
      exact hu'
    unfold HasTrk
    rw [hs'base]
    rcases hE l' k' hl' hk' hu0 with ⟨rfl, rfl⟩ | ⟨p, id, hp, g1, g2⟩
    · have hm : addr s.base F l' k' ∈ pagesFrom (addr s.base F l' k') n :=
        (pagesFrom_mem _ _ _).mpr ⟨0, by omega, by omega⟩
      refine ⟨addr s.base F l' k', s.trk.length, (hmem _ _).mpr (Or.inl ⟨hm, rfl⟩), ?_, ?_⟩
      · exact Nat.le_refl _
      · exact (hpg _ hm).2
    · exact ⟨p, id, (hmem _ _).mpr (Or.inr hp), g1, g2⟩
  · intro q
    constructor
    · rintro ⟨id, hid⟩
      rcases (hmem q id).mp hid with ⟨hq, -⟩ | hh
      · exact Or.inl hq
      · exact Or.inr ⟨id, hh⟩
    · rintro (hq | ⟨id, hid⟩)
      · exact ⟨s.trk.length, (hmem _ _).mpr (Or.inl ⟨hq, rfl⟩)⟩
      · exact ⟨id, (hmem _ _).mpr (Or.inr hid)⟩

/-! ## transfer along changes that do not touch the relevant fields -/

theorem NInv.congr {F : Nat} {s s' : State} (h : NInv F s) (hb : s'.base = s.base) (hf : s'.free = s.free)
    (hsp : s'.split = s.split) : NInv F s' := by
  unfold NInv NSib FreeN SplitN at h ⊢
  rw [hb, hf, hsp]
  exact h

theorem UsedN.congr {F : Nat} {s s' : State} {l k : Nat} (hb : s'.base = s.base) (hf : s'.free = s.free)
    (hsp : s'.split = s.split) : UsedN F s' l k ↔ UsedN F s l k := by
  unfold UsedN Used Ex FreeN SplitN
  rw [hb, hf, hsp]

theorem Keys.congr {s s' : State} (h : Keys s) (ht : s'.track = s.track) : Keys s' := by
  unfold Keys at h ⊢
  rw [ht]
  exact h

theorem CntEq.congr {s s' : State} (h : CntEq s) (ht : s'.track = s.track) (hk : s'.trk = s.trk) : CntEq s' := by
  unfold CntEq at h ⊢
  rw [ht, hk]
  exact h

theorem Tracked.congr {s s' : State} (ht : s'.track = s.track) (q : Nat) : Tracked s' q ↔ Tracked s q := by
  unfold Tracked
  rw [ht]

/-! ## allocateMultiplePages -/

theorem trip_allocMulti {F : Nat} {s s' : State} {n : Nat} {pages : List Nat} (h : FInv F s) (hN : NInv F s)
    (hE : EAll F s) (hK : Keys s) (hC : CntEq s) (ha : allocMultiPos s n = .ok (pages, s')) :
    NInv F s' ∧ (1 ≤ n → EAll F s') ∧ Keys s' ∧ CntEq s' ∧ (∀ q, Tracked s' q ↔ (q ∈ pages ∨ Tracked s q)) ∧
      pages.Nodup ∧ ∀ q ∈ pages, ¬ Tracked s q := by
  have hlen := h.hlen
  have hsz := h.hsize
  unfold allocMultiPos at ha
  simp only at ha
  split at ha
  · cases ha
  · rename_i hord
    split at ha
    · cases ha
    · rename_i i hfind
      obtain ⟨hile, hne⟩ := findLevel_some hfind
      split at ha
      · cases ha
      · rename_i s1 h1
        split at ha
        · cases ha
        · rename_i s2 h2
          injection ha with ha
          injection ha with hp hs
          obtain ⟨blk, rest, hbr⟩ := List.exists_cons_of_ne_nil hne
          have hmem : blk ∈ lvl s.free i := by rw [hbr]; exact List.mem_cons_self
          obtain ⟨k, hk, hblk⟩ := h.fnode i blk hmem
          have hiF : i ≤ F := by omega
          have hlevF : s.free.length - 1 - ordOf (n * 4096) ≤ F := by omega
          have hfree : FreeN F s i k := by unfold FreeN; rw [← hblk]; exact hmem
          rw [hbr] at h1 h2 hp hs
          simp only [List.headD_cons, List.tail_cons] at h1 h2 hp hs
          have herase : rest = (lvl s.free i).erase (addr s.base F i k) := by
            rw [hbr, ← hblk, List.erase_cons_head]
          -- the state after the block left its free list
          have hs1 : FInv F s1 ∧ UsedN F s1 i k ∧ NoTrk F s1 i k ∧ s1.base = s.base ∧ s1.track = s.track ∧
              s1.trk = s.trk ∧ NInv F s1 ∧ EXc F s1 i k := by
            cases i with
            | zero =>
              simp only [Nat.lt_irrefl, if_false] at h1
              injection h1 with h1
              subst h1
              obtain ⟨a, b, c⟩ := finv_take (s' := { s with free := setLvl s.free 0 rest }) h hiF hk hfree rfl rfl rfl rfl rfl
                (by rw [herase]) h.mnodup (fun l' k' _ _ => by rw [if_neg (by omega)]; rfl)
              obtain ⟨d, e⟩ := trip_take (s' := { s with free := setLvl s.free 0 rest }) (l := 0) (k := k)
                h hN hE hiF rfl rfl rfl (by rw [herase])
              exact ⟨a, b, c, rfl, rfl, rfl, d, e⟩
            | succ i0 =>
              simp only [Nat.zero_lt_succ, if_true, Nat.add_sub_cancel] at h1
              have ei : indexOfBlock s.base s.size blk i0 = ix i0 (k / 2) := by
                rw [hblk, hsz]; exact index_parent (by omega)
              rw [ei] at h1
              unfold flipMerge at h1
              split at h1
              · injection h1 with h1
                subst h1
                have pl := pow_succ2 i0
                obtain ⟨a, b, c⟩ := finv_take
                  (s' := { s with free := setLvl s.free (i0 + 1) rest, merge := toggle s.merge (ix i0 (k / 2)) })
                  h hiF hk hfree rfl rfl rfl rfl rfl
                  (by rw [herase]) (toggle_nodup h.mnodup _) (fun l' k' _ hk' => by
                    rw [mergeN_toggle (s := s) rfl h.mnodup (show k / 2 < 2 ^ i0 by omega) hk']
                    by_cases hc : l' = i0 ∧ k' = k / 2
                    · rw [if_pos hc, if_pos ⟨by omega, by omega⟩]
                    · rw [if_neg hc, if_neg (by omega)])
                obtain ⟨d, e⟩ := trip_take
                  (s' := { s with free := setLvl s.free (i0 + 1) rest, merge := toggle s.merge (ix i0 (k / 2)) })
                  (l := i0 + 1) (k := k) h hN hE hiF rfl rfl rfl (by rw [herase])
                exact ⟨a, b, c, rfl, rfl, rfl, d, e⟩
              · cases h1
          obtain ⟨f1, u1, n1, b1, t1, k1, N1, E1⟩ := hs1
          rw [hblk, ← b1] at h2
          have hcnt : i + (s.free.length - 1 - ordOf (n * 4096) - i) = s.free.length - 1 - ordOf (n * 4096) := by omega
          obtain ⟨f2, b2, t2, k2, u2, n2⟩ := finv_splitLoop _ i k s1 s2 f1 (by omega) hk u1 n1 h2
          obtain ⟨N2, E2⟩ := trip_splitLoop _ i k s1 s2 f1 N1 E1 (by omega) hk u1 n1 h2
          rw [hcnt] at u2 n2 E2
          have hadd := addr_desc (base := s2.base) (F := F) (l := i) (k := k)
            (s.free.length - 1 - ordOf (n * 4096) - i) (by omega)
          rw [hcnt] at hadd
          have hnsz : n * 4096 ≤ szl (4096 * 2 ^ F) (s.free.length - 1 - ordOf (n * 4096)) := by
            rw [szl_eq hlevF]
            have : F - (s.free.length - 1 - ordOf (n * 4096)) = ordOf (n * 4096) := by omega
            rw [this]
            exact ordOf_ge _
          have K2 : Keys s2 := hK.congr (t2.trans t1)
          have C2 : CntEq s2 := hC.congr (t2.trans t1) (k2.trans k1)
          obtain ⟨K3, C3, E3, T3, P3⟩ := trip_track f2 K2 C2 E2 hlevF n2 hnsz
          have eblk : addr s2.base F i k = blk := by rw [b2, b1, hblk]
          rw [hadd, eblk] at K3 C3 E3 T3 P3
          have hs' : s' = withTracker s2 blk n := hs.symm
          rw [hs', ← hp]
          refine ⟨N2.congr rfl rfl rfl, E3, K3, C3, ?_, pagesFrom_nodup _ _, ?_⟩
          · intro q
            rw [T3 q, Tracked.congr (t2.trans t1)]
          · intro q hq
            rw [← Tracked.congr (t2.trans t1)]
            exact P3 q hq

/-! ## freeBlock -/

theorem trip_freeLoop {F : Nat} : ∀ (L k : Nat) (s s' : State), FInv F s → NInv F s → EXc F s L k → L ≤ F →
    k < 2 ^ L → UsedN F s L k → NoTrk F s L k → freeLoop L (addr s.base F L k) s = .ok s' →
    NInv F s' ∧ EAll F s' := by
  intro L
  induction L with
  | zero =>
    intro k s s' h hN hE _ hk hu hnt hs
    have e : k = 0 := by simpa using hk
    subst e
    simp only [freeLoop] at hs
    injection hs with hs
    subst hs
    exact trip_free_root (s' := push s 0 (addr s.base F 0 0)) h hN hE rfl rfl rfl rfl
  | succ lv ih =>
    intro k s s' h hN hE hl hk hu hnt hs
    have pl := pow_succ2 lv
    have ei : indexOfBlock s.base s.size (addr s.base F (lv + 1) k) lv = ix lv (k / 2) := by
      rw [h.hsize]; exact index_parent hl
    have eb : buddyOf s.base s.size (addr s.base F (lv + 1) k) (lv + 1) = addr s.base F (lv + 1) (bud k) := by
      rw [h.hsize]; exact buddy_addr hl
    have hmt : ix lv (k / 2) ∈ toggle s.merge (ix lv (k / 2)) ↔ ¬ MergeN s lv (k / 2) := by
      rw [mem_toggle h.mnodup, if_pos rfl]
      rfl
    rcases freeLoop_succ hs with ⟨hm, rfl⟩ | ⟨hm, hs⟩
    · rw [ei] at hm ⊢
      exact trip_free_stop h hN hE hl hk hu (hmt.mp hm) rfl rfl rfl rfl
    · rw [ei, eb, min_buddy_addr hl] at hs
      rw [ei] at hm
      have hmg : MergeN s lv (k / 2) := Classical.not_not.mp (fun hn => hm (hmt.mpr hn))
      obtain ⟨h1, u1, n1⟩ := finv_free_merge
        (s' := { s with merge := toggle s.merge (ix lv (k / 2)), split := toggle s.split (ix lv (k / 2)),
                        free := setLvl s.free (lv + 1) ((lvl s.free (lv + 1)).erase (addr s.base F (lv + 1) (bud k))) })
        h hl hk hu hnt hmg rfl rfl rfl rfl rfl rfl rfl
      obtain ⟨N1, E1⟩ := trip_free_merge
        (s' := { s with merge := toggle s.merge (ix lv (k / 2)), split := toggle s.split (ix lv (k / 2)),
                        free := setLvl s.free (lv + 1) ((lvl s.free (lv + 1)).erase (addr s.base F (lv + 1) (bud k))) })
        h hN hE hl hk hu rfl rfl rfl rfl
      exact ih (k / 2) _ s' h1 N1 E1 (by omega) (by omega) u1 n1 hs

theorem trip_freeBlock {F : Nat} {s s' : State} {l k : Nat} (h : FInv F s) (hN : NInv F s) (hE : EXc F s l k)
    (hl : l ≤ F) (hk : k < 2 ^ l) (hu : UsedN F s l k) (hnt : NoTrk F s l k)
    (hs : freeBlock s (addr s.base F l k) = .ok s') : NInv F s' ∧ EAll F s' := by
  unfold freeBlock at hs
  split at hs
  · cases hs
  · rename_i level hlev
    have := levelOf_eq h hl hk hu.1 hu.2.1 (s.free.length - 1) level (by rw [h.hlen]; omega) (by rw [h.hlen]; omega) hlev
    subst this
    exact trip_freeLoop _ k s s' h hN hE hl hk hu hnt hs

/-! ## addSinglePAddr -/

theorem count_remove (p id : Nat) : ∀ (t : List (Nat × Nat)), (t.map Prod.fst).Nodup → (p, id) ∈ t → ∀ j,
    ((t.filter (fun e => e.1 != p)).filter (fun e => e.2 == j)).length + (if j = id then 1 else 0) =
      (t.filter (fun e => e.2 == j)).length := by
  intro t
  induction t with
  | nil => intro _ h; cases h
  | cons e t ih =>
    intro hn h j
    rw [List.map_cons, List.nodup_cons] at hn
    obtain ⟨q, i⟩ := e
    rcases List.mem_cons.mp h with h | h
    · injection h with h1 h2
      subst h1; subst h2
      have hself : t.filter (fun e => e.1 != p) = t := by
        rw [List.filter_eq_self]
        intro x hx
        have : x.1 ≠ p := by
          intro e
          apply hn.1
          exact List.mem_map.mpr ⟨x, hx, e⟩
        simpa using this
      simp only [List.filter_cons, bne_self_eq_false, Bool.false_eq_true, if_false, hself]
      by_cases c : j = id
      · subst c; simp
      · have c' : (id == j) = false := by simpa using fun e => c e.symm
        simp [c, c']
    · have hne : q ≠ p := by
        intro e; subst e
        exact hn.1 (List.mem_map.mpr ⟨(q, id), h, rfl⟩)
      have := ih hn.2 h j
      have c1 : (q != p) = true := by simpa using hne
      simp only [List.filter_cons, c1, if_true]
      by_cases c2 : (i == j) = true
      · simp only [c2, if_true, List.length_cons]; omega
      · simp only [c2, Bool.false_eq_true, if_false]; exact this

/-- the state after `delete(blockTracking, p)` and `numOfPages--` -/
def untracked (s : State) (p id ia num : Nat) : State :=
  { s with track := s.track.filter (fun e => e.1 != p),
           trk := s.trk.set id (ia, num - 1) }

theorem trip_untrack {F : Nat} {s : State} (h : FInv F s) (hK : Keys s) (hC : CntEq s) (hE : EAll F s)
    {p id num l k : Nat} (hp : (p, id) ∈ s.track) (he : s.trk[id]? = some (addr s.base F l k, num))
    (hl : l ≤ F) (hk : k < 2 ^ l) (hu : UsedN F s l k) (g1 : addr s.base F l k ≤ p)
    (g2 : p < addr s.base F l k + szl (4096 * 2 ^ F) l) :
    Keys (untracked s p id (addr s.base F l k) num) ∧ CntEq (untracked s p id (addr s.base F l k) num) ∧
    (num = 1 → EXc F (untracked s p id (addr s.base F l k) num) l k) ∧
    (num ≠ 1 → EAll F (untracked s p id (addr s.base F l k) num)) := by
  generalize hs' : untracked s p id (addr s.base F l k) num = s'
  have hs'trk : s'.trk = s.trk.set id (addr s.base F l k, num - 1) := by rw [← hs']; rfl
  have hs'track : s'.track = s.track.filter (fun e => e.1 != p) := by rw [← hs']; rfl
  have hs'base : s'.base = s.base := by rw [← hs']; rfl
  have hs'free : s'.free = s.free := by rw [← hs']; rfl
  have hs'split : s'.split = s.split := by rw [← hs']; rfl
  have hid : id < s.trk.length := by
    rcases Nat.lt_or_ge id s.trk.length with hh | hh
    · exact hh
    · rw [List.getElem?_eq_none hh] at he
      cases he
  have hcnt0 := hC id _ _ he
  have hcr := count_remove p id s.track hK hp
  have hcnt' : ∀ j a n, s'.trk[j]? = some (a, n) → (s'.track.filter (fun e => e.2 == j)).length = n := by
    intro j a n e
    rw [hs'trk, List.getElem?_set] at e
    rw [hs'track]
    have c := hcr j
    by_cases cj : id = j
    · subst cj
      rw [if_pos rfl, if_pos hid] at e
      injection e with e
      injection e with e1 e2
      rw [if_pos rfl] at c
      omega
    · rw [if_neg cj] at e
      have := hC j a n e
      rw [if_neg (fun e => cj e.symm)] at c
      omega
  have hnum : 1 ≤ num := by
    have : 0 < (s.track.filter (fun e => e.2 == id)).length :=
      List.length_pos_of_mem (List.mem_filter.mpr ⟨hp, by simp⟩)
    omega
  have hcase : ∀ l' k', l' ≤ F → k' < 2 ^ l' → UsedN F s l' k' → (l' = l ∧ k' = k) ∨ HasTrk F s' l' k' := by
    intro l' k' hl' hk' hu'
    obtain ⟨q, j, hq, q1, q2⟩ := hE l' k' hl' hk' hu'
    by_cases hqp : q = p
    · subst hqp
      left
      exact leaf_overlap h.tree hl' hk' hl hk hu'.1 hu'.2.1 hu.1 hu.2.1 q1 q2 g1 g2
    · right
      refine ⟨q, j, ?_, by rw [hs'base]; exact q1, by rw [hs'base]; exact q2⟩
      rw [hs'track]
      exact List.mem_filter.mpr ⟨hq, by simpa using hqp⟩
  refine ⟨?_, hcnt', ?_, ?_⟩
  · unfold Keys at hK ⊢
    rw [hs'track]
    exact (List.filter_sublist.map _).nodup hK
  · intro _ l' k' hl' hk' hu'
    exact hcase l' k' hl' hk' ((UsedN.congr hs'base hs'free hs'split).mp hu')
  · intro hne l' k' hl' hk' hu'
    rcases hcase l' k' hl' hk' ((UsedN.congr hs'base hs'free hs'split).mp hu') with ⟨rfl, rfl⟩ | ht
    · -- another page of the same tracker is still mapped
      have e : s'.trk[id]? = some (addr s.base F l' k', num - 1) := by
        rw [hs'trk, List.getElem?_set, if_pos rfl, if_pos hid]
      have c := hcnt' id _ _ e
      have hpos : 0 < (s'.track.filter (fun e => e.2 == id)).length := by omega
      obtain ⟨⟨q, j⟩, hqj⟩ := List.exists_mem_of_length_pos hpos
      obtain ⟨hq1, hq2⟩ := List.mem_filter.mp hqj
      have hj : j = id := by simpa using hq2
      subst hj
      rw [hs'track] at hq1
      have hq0 : (q, j) ∈ s.track := (List.mem_filter.mp hq1).1
      obtain ⟨l2, k2, num2, hl2, hk2, e2, hu2, r1, r2⟩ := h.D q j hq0
      rw [he] at e2
      injection e2 with e2
      injection e2 with e2 _
      have hp2 := szl_pos hl2
      have hp1 := szl_pos hl'
      obtain ⟨q1, q2⟩ := leaf_overlap h.tree hl' hk' hl2 hk2 hu.1 hu.2.1 hu2.1 hu2.2.1 (Nat.le_refl _) (by omega)
        (by omega : addr s.base F l2 k2 ≤ addr s.base F l' k') (by omega)
      subst q1; subst q2
      refine ⟨q, j, ?_, by rw [hs'base]; exact r1, by rw [hs'base]; exact r2⟩
      rw [hs'track]
      exact hq1
    · exact ht

theorem trip_addSingle {F : Nat} {s s' : State} {p : Nat} (h : FInv F s) (hN : NInv F s) (hE : EAll F s)
    (hK : Keys s) (hC : CntEq s) (ha : addSingle s p = .ok s') :
    NInv F s' ∧ EAll F s' ∧ Keys s' ∧ CntEq s' ∧ ∀ q, Tracked s' q ↔ (Tracked s q ∧ q ≠ p) := by
  unfold addSingle at ha
  split at ha
  · rename_i hfind
    injection ha with ha
    subst ha
    refine ⟨hN, hE, hK, hC, ?_⟩
    intro q
    constructor
    · intro hq
      refine ⟨hq, ?_⟩
      rintro rfl
      obtain ⟨id, hid⟩ := hq
      have := List.find?_eq_none.mp hfind _ hid
      simp at this
    · exact fun hq => hq.1
  · rename_i p0 id hfind
    have hp0 : p0 = p := by simpa using List.find?_some hfind
    subst hp0
    have hp : (p0, id) ∈ s.track := List.mem_of_find?_eq_some hfind
    obtain ⟨l, k, num, hl, hk, e, hu, g1, g2⟩ := h.D p0 id hp
    simp only [e] at ha
    obtain ⟨f2, hzero⟩ := finv_untrack h hp e
    obtain ⟨K2, C2, E2a, E2b⟩ := trip_untrack h hK hC hE hp e hl hk hu g1 g2
    have N2 : NInv F (untracked s p0 id (addr s.base F l k) num) := hN.congr rfl rfl rfl
    have hT2 : ∀ q, Tracked (untracked s p0 id (addr s.base F l k) num) q ↔ (Tracked s q ∧ q ≠ p0) := by
      intro q
      constructor
      · rintro ⟨j, hj⟩
        obtain ⟨hj1, hj2⟩ := List.mem_filter.mp hj
        exact ⟨⟨j, hj1⟩, by simpa using hj2⟩
      · rintro ⟨⟨j, hj⟩, hq⟩
        exact ⟨j, List.mem_filter.mpr ⟨hj, by simpa using hq⟩⟩
    split at ha
    · rename_i hnum
      have hnt : NoTrk F
          { s with track := s.track.filter (fun e => e.1 != p0), trk := s.trk.set id (addr s.base F l k, num - 1) }
          l k := by
        intro q j hq hin
        have hq' : (q, j) ∈ s.track := (List.mem_filter.mp hq).1
        obtain ⟨l', k', num', hl', hk', e', hu', g1', g2'⟩ := h.D q j hq'
        obtain ⟨q1, q2⟩ := leaf_overlap h.tree hl hk hl' hk' hu.1 hu.2.1 hu'.1 hu'.2.1 hin.1 hin.2 g1' g2'
        subst q1; subst q2
        have := h.Dinj p0 id q j _ _ _ hp hq' e e'
        subst this
        exact hzero hnum q hq
      obtain ⟨f3, b3, t3, k3⟩ := finv_freeBlock (l := l) (k := k) f2 hl hk hu hnt ha
      obtain ⟨N3, E3⟩ := trip_freeBlock (s := untracked s p0 id (addr s.base F l k) num) (l := l) (k := k)
        f2 N2 (E2a hnum) hl hk hu hnt ha
      refine ⟨N3, E3, K2.congr t3, C2.congr t3 k3, ?_⟩
      intro q
      rw [Tracked.congr t3]
      exact hT2 q
    · rename_i hnum
      injection ha with ha
      subst ha
      exact ⟨N2, E2b hnum, K2, C2, hT2⟩

end C10.Buddy
