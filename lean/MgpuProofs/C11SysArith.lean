import MgpuProofs.C11Copy
import MgpuProofs.C11MqSpec
/-! # C11 — arithmetic facts about splitting, page pieces, request lists and byte extraction

Small lemmas used when relating the system-level copy (driver pieces → DMA sub-requests → bytes in
memory) to the flat specification: every piece of `splitBy` / `pieces` lies inside the copied range,
the pieces cover the range, they do not overlap, and each byte of a piece translates through the page
table to the piece's physical address plus its index. -/
namespace C11

/-! ## `splitBy` -/

theorem splitBy_mem_range (u : Nat) (hu : 0 < u) (a l : Nat) :
    ∀ p ∈ splitBy u hu a l, a ≤ p.1 ∧ p.1 + p.2 ≤ a + l ∧ 0 < p.2 := by
  induction l using Nat.strongRecOn generalizing a with
  | _ l ih =>
    unfold splitBy
    split
    · simp
    · rename_i h
      intro p hp
      simp only [List.mem_cons] at hp
      have hlt : a % u < u := Nat.mod_lt _ hu
      have hn : 0 < min l (u - a % u) := by omega
      have hle : min l (u - a % u) ≤ l := Nat.min_le_left _ _
      rcases hp with rfl | hp
      · simp only; omega
      · have := ih _ (by omega) _ p hp
        omega

theorem splitBy_cover (u : Nat) (hu : 0 < u) (a l x : Nat) (h1 : a ≤ x) (h2 : x < a + l) :
    ∃ p ∈ splitBy u hu a l, p.1 ≤ x ∧ x < p.1 + p.2 := by
  induction l using Nat.strongRecOn generalizing a with
  | _ l ih =>
    unfold splitBy
    split
    · omega
    · rename_i h
      have hlt : a % u < u := Nat.mod_lt _ hu
      have hn : 0 < min l (u - a % u) := by omega
      have hle : min l (u - a % u) ≤ l := Nat.min_le_left _ _
      by_cases hx : x < a + min l (u - a % u)
      · exact ⟨_, List.mem_cons_self, h1, hx⟩
      · obtain ⟨p, hp, hp'⟩ := ih (l - min l (u - a % u)) (by omega) (a + min l (u - a % u))
          (by omega) (by omega)
        exact ⟨p, List.mem_cons_of_mem _ hp, hp'⟩

theorem splitBy_disjoint (u : Nat) (hu : 0 < u) (a l : Nat) :
    (splitBy u hu a l).Pairwise (fun p q => p.1 + p.2 ≤ q.1) := by
  induction l using Nat.strongRecOn generalizing a with
  | _ l ih =>
    unfold splitBy
    split
    · exact List.Pairwise.nil
    · rename_i h
      have hlt : a % u < u := Nat.mod_lt _ hu
      have hn : 0 < min l (u - a % u) := by omega
      refine List.Pairwise.cons ?_ (ih _ (by omega) _)
      intro q hq
      exact (splitBy_mem_range u hu _ _ q hq).1

/-! ## `Tiles` / `pieces` -/

theorem tiles_piece (pt : List Page) (hinj : PtInj pt) :
    ∀ (ps : List (Nat × Nat × Nat)) (addr off : Nat), Tiles pt addr off ps →
    ∀ p ∈ ps, off ≤ p.2.1 ∧ p.2.1 + p.2.2 ≤ off + (ps.map (·.2.2)).sum ∧ 0 < p.2.2 ∧
      ∀ j, j < p.2.2 → translate pt (addr + (p.2.1 - off) + j) = some (p.1 + j) := by
  intro ps
  induction ps with
  | nil => intro _ _ _ p hp; cases hp
  | cons hd r ih =>
    obtain ⟨pa, o, n⟩ := hd
    intro addr off ht p hp
    obtain ⟨rfl, hn, ⟨pg, hpg, _, _, hin, rfl⟩, hr⟩ := ht
    simp only [List.map_cons, List.sum_cons]
    rcases List.mem_cons.1 hp with rfl | hp
    · refine ⟨Nat.le_refl _, by simp only; omega, hn, ?_⟩
      intro j hj
      simp only at hj ⊢
      rw [Nat.sub_self, Nat.add_zero]
      exact translate_in_piece hinj hpg hin hj
    · have ⟨a1, a2, a3, a4⟩ := ih _ _ hr p hp
      refine ⟨by omega, by omega, a3, ?_⟩
      intro j hj
      have := a4 j hj
      rw [show addr + n + (p.2.1 - (o + n)) + j = addr + (p.2.1 - o) + j by omega] at this
      exact this

theorem tiles_cover (pt : List Page) :
    ∀ (ps : List (Nat × Nat × Nat)) (addr off : Nat), Tiles pt addr off ps →
    ∀ i, off ≤ i → i < off + (ps.map (·.2.2)).sum →
      ∃ (k : Nat) (p : Nat × Nat × Nat), ps[k]? = some p ∧ p.2.1 ≤ i ∧ i < p.2.1 + p.2.2 := by
  intro ps
  induction ps with
  | nil => intro _ _ _ i h1 h2; simp at h2; omega
  | cons hd r ih =>
    obtain ⟨pa, o, n⟩ := hd
    intro addr off ht i h1 h2
    obtain ⟨rfl, hn, _, hr⟩ := ht
    simp only [List.map_cons, List.sum_cons] at h2
    by_cases hi : i < o + n
    · exact ⟨0, (pa, o, n), rfl, h1, hi⟩
    · obtain ⟨k, p, hk, hp⟩ := ih _ _ hr i (by omega) (by omega)
      exact ⟨k + 1, p, by simpa using hk, hp⟩

theorem tiles_offsets_ge (pt : List Page) :
    ∀ (ps : List (Nat × Nat × Nat)) (addr off : Nat), Tiles pt addr off ps →
    ∀ p ∈ ps, off ≤ p.2.1 := by
  intro ps
  induction ps with
  | nil => intro _ _ _ p hp; cases hp
  | cons hd r ih =>
    obtain ⟨pa, o, n⟩ := hd
    intro addr off ht p hp
    obtain ⟨rfl, hn, _, hr⟩ := ht
    rcases List.mem_cons.1 hp with rfl | hp
    · exact Nat.le_refl _
    · have := ih _ _ hr p hp; omega

theorem tiles_offsets_disjoint (pt : List Page) :
    ∀ (ps : List (Nat × Nat × Nat)) (addr off : Nat), Tiles pt addr off ps →
    ps.Pairwise (fun p q => p.2.1 + p.2.2 ≤ q.2.1) := by
  intro ps
  induction ps with
  | nil => intro _ _ _; exact List.Pairwise.nil
  | cons hd r ih =>
    obtain ⟨pa, o, n⟩ := hd
    intro addr off ht
    obtain ⟨rfl, hn, _, hr⟩ := ht
    exact List.Pairwise.cons (fun q hq => tiles_offsets_ge pt _ _ _ hr q hq) (ih _ _ hr)

theorem pieces_piece (pt : List Page) (hinj : PtInj pt) (addr len : Nat)
    (ps : List (Nat × Nat × Nat)) (h : pieces pt len addr 0 len = some ps) :
    ∀ p ∈ ps, p.2.1 + p.2.2 ≤ len ∧ 0 < p.2.2 ∧
      ∀ j, j < p.2.2 → translate pt (addr + p.2.1 + j) = some (p.1 + j) := by
  intro p hp
  have ⟨ht, hs⟩ := pieces_tiles len addr 0 len ps (Nat.le_refl _) h
  have ⟨_, a2, a3, a4⟩ := tiles_piece pt hinj ps addr 0 ht p hp
  rw [hs] at a2
  exact ⟨by omega, a3, fun j hj => by simpa using a4 j hj⟩

theorem pieces_cover (pt : List Page) (addr len : Nat)
    (ps : List (Nat × Nat × Nat)) (h : pieces pt len addr 0 len = some ps) :
    ∀ i, i < len → ∃ (k : Nat) (p : Nat × Nat × Nat), ps[k]? = some p ∧ p.2.1 ≤ i ∧ i < p.2.1 + p.2.2 := by
  intro i hi
  have ⟨ht, hs⟩ := pieces_tiles len addr 0 len ps (Nat.le_refl _) h
  exact tiles_cover pt ps addr 0 ht i (Nat.zero_le _) (by rw [hs]; omega)

/-! ## `mqWantReqs` -/

theorem mqWantReqs_piece (g : Nat) (c : MqCmd) (k : Nat) (hk : k < c.pieces) :
    (c.kind, k) ∈ mqWantReqs g c := by
  unfold mqWantReqs
  exact List.mem_append_right _ (List.mem_map.2 ⟨k, List.mem_range.2 hk, rfl⟩)

theorem mqWantReqs_mem (g : Nat) (c : MqCmd) (x : MqKind × Nat) (hx : x ∈ mqWantReqs g c) :
    (x.1 = .flush ∧ c.flush = true ∧ x.2 < g) ∨ (x.1 = c.kind ∧ x.2 < c.pieces) := by
  unfold mqWantReqs at hx
  rcases List.mem_append.1 hx with hx | hx
  · left
    cases hf : c.flush with
    | false => simp [hf] at hx
    | true =>
      simp only [hf, ↓reduceIte] at hx
      obtain ⟨i, hi, rfl⟩ := List.mem_map.1 hx
      exact ⟨rfl, rfl, List.mem_range.1 hi⟩
  · right
    obtain ⟨i, hi, rfl⟩ := List.mem_map.1 hx
    exact ⟨rfl, List.mem_range.1 hi⟩

/-! ## byte extraction -/

set_option linter.unusedVariables false in
/-- (`h` is not needed for the equation; kept so that callers state the in-range fact once) -/
theorem take_drop_getElem? (data : List Nat) (off n j : Nat) (hj : j < n)
    (h : off + n ≤ data.length) : ((data.drop off).take n)[j]? = data[off + j]? := by
  rw [List.getElem?_take_of_lt hj, List.getElem?_drop]

theorem take_drop_len (data : List Nat) (off n : Nat) (h : off + n ≤ data.length) :
    ((data.drop off).take n).length = n := by
  rw [List.length_take, List.length_drop]; omega

end C11
