import MgpuProofs.C14Inv
/-! # C14 — `EvaluateInternalInst` preserves the invariant (repaired code) -/
namespace C14

theorem updWf_id (wfs : List Wf) (i : Nat) : updWf wfs i (fun v => v) = wfs := by
  unfold updWf; simp

theorem passF_false (g i : Nat) : passF false g i = release g := by
  funext v; unfold passF; simp

theorem passF_true_map (wfs : List Wf) (g i : Nat) :
    updWf (wfs.map (release g)) i complete = wfs.map (passF true g i) := by
  unfold updWf passF
  rw [List.map_map]
  apply List.map_congr_left
  intro v _
  simp [release_id]

/-- a map that changes neither identity nor scheduling state (e.g. `clearWGResource`) -/
theorem LInv_same {s : State} {rem : List Nat} (F : Wf → Wf) (h : LInv s rem)
    (hid : ∀ v, (F v).id = v.id) (hwg : ∀ v, (F v).wg = v.wg) (hst : ∀ v, (F v).state = v.state)
    (hop : ∀ v, (F v).op = v.op) (harr : ∀ v, (F v).arr = v.arr) (hbar : ∀ v, (F v).bar = v.bar)
    (s' : State) (h1 : s'.wfs = s.wfs.map F) (h2 : s'.exec = s.exec) (h3 : s'.fault = s.fault) :
    LInv s' rem := by
  constructor
  · rw [h1]; exact ids_map h.ids F hid
  · rw [h3]; exact h.nofault
  · intro v' hv' hin
    rw [h1] at hv'; obtain ⟨v, hv, rfl⟩ := List.mem_map.mp hv'
    rw [hid, h2] at hin
    have := h.execSt v hv hin
    unfold Good at this ⊢; rw [hst, hop]; exact this
  · intro v' hv' hin
    rw [h1] at hv'; obtain ⟨v, hv, rfl⟩ := List.mem_map.mp hv'
    rw [hid] at hin
    have := h.remSt v hv hin
    unfold Good at this ⊢; rw [hst, hop]; exact this
  · rw [h2]; exact h.nodup
  · intro v' hv'
    rw [h1] at hv'; obtain ⟨v, hv, rfl⟩ := List.mem_map.mp hv'
    have := h.ghost v hv
    unfold W at this ⊢; rw [hst, hop, harr, hbar]; exact this
  · intro u' hu' v' hv' hg hc
    rw [h1] at hu' hv'
    obtain ⟨u, hu, rfl⟩ := List.mem_map.mp hu'
    obtain ⟨v, hv, rfl⟩ := List.mem_map.mp hv'
    rw [hwg, hwg] at hg; rw [hst] at hc; rw [hbar, hbar]
    exact h.bars u hu v hv hg hc

theorem W_of_completed {w : Wf} (h : w.state = .completed) : W w := by
  refine ⟨?_, ?_, ?_⟩ <;> (intro hh; rw [h] at hh; cases hh)

theorem good_not_completed {w : Wf} (h : Good w) : w.state ≠ .completed := by
  intro hc
  rcases h with h | h
  · rw [hc] at h; cases h
  · rw [hc] at h; cases h.1

section leaves
variable {c : Cfg} {s : State} {i : Nat} {rem : List Nat} {w : Wf}

theorem endpgm_LInv (_hA : c.fixA = true) (hB : c.fixB = true) (h : LInv s (i :: rem)) (hw : w ∈ s.wfs)
    (hi : w.id = i) (hop : w.op = 1) (hg : Good w) : LInv (finishOne i w.wg (evalSEndPgm c s w)) rem := by
  have hrun : w.state = .running := by
    rcases hg with hg | hg
    · exact hg
    · rw [hop] at hg; exact absurd hg.2 (by decide)
  have hnd := nodup_head_not_mem h.nodup
  have wait : LInv ({ s with exec := s.exec ++ [i] } : State) rem :=
    LInv_upd (fun v => v) true h hw hi (fun _ => rfl) (fun _ => rfl) (fun _ => rfl) (h.ghost w hw)
      (fun _ => hg) (good_not_completed hg) _ (updWf_id _ _).symm rfl rfl
  have fin : LInv ({ s with wfs := updWf s.wfs i complete } : State) rem :=
    LInv_upd complete false h hw hi (fun _ => rfl) (fun _ => rfl) (fun _ => rfl) (W_of_completed rfl)
      (fun hh => by cases hh) (good_not_completed hg) _ rfl rfl rfl
  unfold evalSEndPgm
  split
  · exact wait.congr rfl rfl rfl
  · split
    · split
      · refine LInv_same (fun v => if v.wg = w.wg then { v with inPool := false } else v) fin
          ?_ ?_ ?_ ?_ ?_ ?_ _ ?_ rfl rfl
        all_goals first
          | (intro v; split <;> rfl)
          | (rw [← hi]; rfl)
      · exact wait.congr rfl rfl rfl
    · split
      · rename_i hoth
        simp only [othersAtBarrier, List.all_eq_true] at hoth
        rw [hB]
        show LInv ({ s with
            wfs := updWf (s.wfs.map (release w.wg)) w.id complete
            exec := s.exec.filter (fun j => wgOf (updWf (s.wfs.map (release w.wg)) w.id complete) j != some w.wg)
            buf := s.buf.filter (fun j => wgOf s.wfs j != some w.wg) } : State) rem
        refine LInv_pass true w.wg i h.drop ?_ (fun _ => hnd) _ ?_ ?_ rfl
        · intro v hv hvg
          have := hoth v hv
          simp only [Bool.or_eq_true, beq_iff_eq, bne_iff_ne] at this
          rcases this with ((hh | hh) | hh) | hh
          · exact Or.inl ⟨rfl, hh.trans hi⟩
          · exact absurd hvg hh
          · exact Or.inr (Or.inl hh)
          · exact Or.inr (Or.inr hh)
        · show updWf (s.wfs.map (release w.wg)) w.id complete = _
          rw [hi]; exact passF_true_map _ _ _
        · rfl
      · split
        · exact fin.congr (by rw [← hi]; rfl) rfl rfl
        · rename_i hne
          exfalso; apply hne
          simp only [someExecuting, List.any_eq_true]
          exact ⟨w, hw, by simp [hrun]⟩

theorem barrier_LInv (hA : c.fixA = true) (h : LInv s (i :: rem)) (hw : w ∈ s.wfs)
    (hi : w.id = i) (hop : w.op = 10) (hg : Good w) : LInv (finishOne i w.wg (evalSBarrier c s w)) rem := by
  have hWp : W (park w) := by
    have hw' := h.ghost w hw
    have harr : w.arr = w.bar + 1 := by
      rcases hg with hg | hg
      · exact (hw'.1 hg).1 hop
      · exact hw'.2.2 hg.1
    refine ⟨?_, ?_, ?_⟩
    · intro hh; cases hh
    · intro hh; cases hh
    · intro _; exact harr
  have hGp : Good (park w) := Or.inr ⟨rfl, hop⟩
  have keepI : LInv ({ s with wfs := updWf s.wfs i park, exec := s.exec ++ [i] } : State) rem :=
    LInv_upd park true h hw hi (fun _ => rfl) (fun _ => rfl) (fun _ => rfl) hWp (fun _ => hGp)
      (good_not_completed hg) _ rfl rfl rfl
  have dropI : LInv ({ s with wfs := updWf s.wfs i park } : State) rem :=
    LInv_upd park false h hw hi (fun _ => rfl) (fun _ => rfl) (fun _ => rfl) hWp (fun hh => by cases hh)
      (good_not_completed hg) _ rfl rfl rfl
  unfold evalSBarrier
  simp only
  split
  · rename_i hall
    simp only [allAtBarrier, List.all_eq_true, hA] at hall
    show LInv ({ s with
        wfs := (updWf s.wfs w.id park).map (release w.wg)
        exec := s.exec.filter (fun j => wgOf ((updWf s.wfs w.id park).map (release w.wg)) j != some w.wg)
        buf := s.buf.filter (fun j => wgOf (updWf s.wfs w.id park) j != some w.wg) } : State) rem
    refine LInv_pass false w.wg i keepI ?_ (fun hh => by cases hh) _ ?_ ?_ rfl
    · intro v hv hvg
      have := hall v (by rw [hi]; exact hv)
      simp only [Bool.or_eq_true, beq_iff_eq, bne_iff_ne, Bool.true_and] at this
      rcases this with (hh | hh) | hh
      · exact absurd hvg hh
      · exact Or.inr (Or.inl hh)
      · exact Or.inr (Or.inr hh)
    · rw [passF_false, hi]
    · -- the entry `i` itself is filtered out as well
      have hmem : park w ∈ updWf s.wfs i park := mem_updWf.mpr ⟨w, hw, by rw [if_pos hi]⟩
      have hF : ∀ v : Wf, (if v.id = i then park v else v).id = v.id := by intro v; split <;> rfl
      have hids1 : (updWf s.wfs i park).Pairwise (fun a b => a.id ≠ b.id) := ids_map h.ids _ hF
      have hwg : wgOf ((updWf s.wfs w.id park).map (release w.wg)) i = some w.wg := by
        rw [wgOf_map _ _ (release_id _) (release_wg _), hi]
        have := wgOf_of_mem hids1 hmem
        simpa [hi] using this
      show List.filter _ s.exec = List.filter _ (s.exec ++ [i])
      rw [List.filter_append]
      have : List.filter (fun j => wgOf ((updWf s.wfs w.id park).map (release w.wg)) j != some w.wg) [i] = [] := by
        simp [hwg]
      rw [this, List.append_nil]
  · split
    · exact dropI.congr (by rw [← hi]; rfl) rfl rfl
    · exact keepI.congr (by rw [← hi]; rfl) rfl rfl

theorem waitcnt_LInv (h : LInv s (i :: rem)) (hw : w ∈ s.wfs)
    (hi : w.id = i) (hop : w.op ≠ 10) (_hop1 : w.op ≠ 1) (hg : Good w) :
    LInv (finishOne i w.wg (evalSWaitCnt s w)) rem ∧
    LInv (finishOne i w.wg ⟨{ s with wfs := updWf s.wfs w.id setReady }, true, true, false⟩) rem := by
  have hrun : w.state = .running := by
    rcases hg with hg | hg
    · exact hg
    · exact absurd hg.2 hop
  have wait : LInv ({ s with exec := s.exec ++ [i] } : State) rem :=
    LInv_upd (fun v => v) true h hw hi (fun _ => rfl) (fun _ => rfl) (fun _ => rfl) (h.ghost w hw)
      (fun _ => hg) (good_not_completed hg) _ (updWf_id _ _).symm rfl rfl
  have hWr : W (setReady w) := by
    have := ((h.ghost w hw).1 hrun).2 hop
    refine ⟨?_, ?_, ?_⟩
    · intro hh; cases hh
    · intro _; exact this
    · intro hh; cases hh
  have done : LInv ({ s with wfs := updWf s.wfs i setReady } : State) rem :=
    LInv_upd setReady false h hw hi (fun _ => rfl) (fun _ => rfl) (fun _ => rfl) hWr
      (fun hh => by cases hh) (good_not_completed hg) _ rfl rfl rfl
  constructor
  · unfold evalSWaitCnt
    split
    · exact wait.congr rfl rfl rfl
    · exact done.congr (by rw [← hi]; rfl) rfl rfl
  · exact done.congr (by rw [← hi]; rfl) rfl rfl

end leaves

theorem evalOne_LInv {c : Cfg} (hA : c.fixA = true) (hB : c.fixB = true) {sp : State × Bool} {i : Nat}
    {rem : List Nat} (h : LInv sp.1 (i :: rem)) : LInv (evalOne c sp i).1 rem := by
  unfold evalOne
  split
  · exact h.drop
  · split
    · exact h.drop
    · rename_i w hget
      obtain ⟨hw, hi⟩ := getWf_some hget
      split
      · exact h.drop
      · rename_i hnr
        have hnready : w.state ≠ .ready := by
          intro hr; apply hnr; simp [hB, hr]
        have hg : Good w := by
          rcases h.remSt w hw (by rw [hi]; exact List.mem_cons_self) with hg | hr
          · exact hg
          · exact absurd hr hnready
        show LInv (finishOne i w.wg (evalInst c sp.1 w)) rem
        unfold evalInst
        split
        · rename_i hop; exact endpgm_LInv hA hB h hw hi hop hg
        · split
          · rename_i hop; exact barrier_LInv hA h hw hi hop hg
          · rename_i hop1 hop10
            split
            · exact (waitcnt_LInv h hw hi hop10 hop1 hg).1
            · exact (waitcnt_LInv h hw hi hop10 hop1 hg).2

theorem foldl_LInv {c : Cfg} (hA : c.fixA = true) (hB : c.fixB = true) (l : List Nat) (sp : State × Bool)
    (h : LInv sp.1 l) : Inv (l.foldl (evalOne c) sp).1 := by
  induction l generalizing sp with
  | nil => exact h
  | cons i l ih => exact ih _ (evalOne_LInv hA hB h)

theorem evalInternal_Inv {c : Cfg} (hA : c.fixA = true) (hB : c.fixB = true) {s : State} (h : Inv s) :
    Inv (evalInternal c s).1 := by
  unfold evalInternal
  apply foldl_LInv hA hB
  constructor
  · exact h.ids
  · exact h.nofault
  · intro w _ hin; cases hin
  · intro w hw hin; exact Or.inl (h.execSt w hw hin)
  · have := h.nodup; simpa using this
  · exact h.ghost
  · exact h.bars

end C14
