import MgpuProofs.C17Live2
/-! C17 liveness, part 3: the decreasing measure `remaining` along arbitrary op sequences. -/
namespace C17

/-- ticks request `r` still needs at most: the weights of everything in its bank's chain up to and including `r`
(0 once `r` has left the chain, i.e. has been answered) -/
def remaining (c : Cfg) (s : State) (r : Req) : Nat := (costTo r (wChain c s (bankOf c r.addr))).getD 0

theorem costTo_pos (r : Req) : ∀ (l : WL) (m : Nat), (∀ a ∈ l, 1 ≤ a.2) → costTo r l = some m → 1 ≤ m := by
  intro l
  induction l with
  | nil => intro m _ h; simp [costTo] at h
  | cons a l ih =>
    intro m hpos h
    obtain ⟨q, w⟩ := a
    have hw : 1 ≤ w := hpos (q, w) (by simp)
    simp only [costTo] at h
    split at h
    · cases h; exact hw
    · rw [Option.map_eq_some_iff] at h
      obtain ⟨m0, _, rfl⟩ := h
      omega

theorem costTo_append_other (r q : Req) (w : Nat) (hq : q ≠ r) : ∀ l : WL, costTo r (l ++ [(q, w)]) = costTo r l := by
  intro l
  induction l with
  | nil => simp [costTo, hq]
  | cons a l ih =>
    obtain ⟨q', w'⟩ := a
    simp only [List.cons_append, costTo, ih]

/-- what one tick does to the cost of `r` in bank `k` -/
theorem tick_cost (c : Cfg) (hd0 : 0 < c.depth) (hp : 0 < c.post) (s : State) (h : Inv c s) (hl : LI c s)
    (k : Nat) (hk : k < c.banks) (r : Req) :
    (costTo r (wChain c s k) = none → costTo r (wChain c (tick c s) k) = none) ∧
    (∀ m, costTo r (wChain c s k) = some m → costTo r (wChain c (tick c s) k) = none ∨
      ∃ m', costTo r (wChain c (tick c s) k) = some m' ∧ m' ≤ m ∧ (accepts c s k = true → m' < m)) := by
  obtain ⟨i, hdom, hstrict⟩ := tick_w c hd0 hp s h hl k hk
  obtain ⟨d1, d2⟩ := costTo_drop r i (wChain c s k) (wChain_nodup c s h k) (wChain_pos c s k)
  obtain ⟨e1, e2⟩ := hdom.cost_le r
  refine ⟨fun hn => e1 (d1 hn), ?_⟩
  intro m hm
  rcases d2 m hm with hn | ⟨m1, hm1, hle, _⟩
  · exact Or.inl (e1 hn)
  · obtain ⟨m2, hm2, hle2⟩ := e2 m1 hm1
    refine Or.inr ⟨m2, hm2, by omega, ?_⟩
    intro hacc
    obtain ⟨m3, hm3, hlt⟩ := hdom.cost_lt (hstrict hacc) r m1 hm1
    rw [hm2] at hm3; cases hm3
    omega

theorem remaining_tick (c : Cfg) (hd0 : 0 < c.depth) (hp : 0 < c.post) (hb : 0 < c.banks) (s : State) (h : Inv c s)
    (hl : LI c s) (r : Req) :
    remaining c (tick c s) r ≤ remaining c s r - (if accepts c s (bankOf c r.addr) = true then 1 else 0) := by
  have hk : bankOf c r.addr < c.banks := Nat.mod_lt _ hb
  obtain ⟨t1, t2⟩ := tick_cost c hd0 hp s h hl _ hk r
  unfold remaining
  cases ho : costTo r (wChain c s (bankOf c r.addr)) with
  | none => rw [t1 ho]; simp
  | some m =>
    rcases t2 m ho with hn | ⟨m', hm', hle, hlt⟩
    · rw [hn]; simp
    · rw [hm']
      simp only [Option.getD_some]
      split
      · rename_i hacc; have := hlt hacc; omega
      · omega

/-! ### the other ops -/

/-- the request does not make the component panic: its mask is at least as long as its data (index error in
`finalizeWrite` otherwise), the bank address converter, if installed, accepts its address, and the storage accepts its
footprint (capacity) -/
def opOk (c : Cfg) : Op → Prop
  | .deliver k a l d m => maskOk ⟨0, k, a, l, d, m⟩ = true ∧ belongs c ⟨0, k, a, l, d, m⟩ = true ∧
      capErr c.cap a (Req.size ⟨0, k, a, l, d, m⟩) = false
  | _ => True

instance (c : Cfg) (op : Op) : Decidable (opOk c op) := by
  cases op <;> unfold opOk <;> infer_instance

theorem deliver_LI (c : Cfg) (s : State) (kind : Kind) (addr len : Nat) (data : List Nat) (mask : Option (List Bool))
    (hok : opOk c (.deliver kind addr len data mask)) (hl : LI c s) : LI c (deliver c s kind addr len data mask) := by
  unfold deliver
  split
  · refine ⟨hl.nb, hl.len, ?_, ?_, ?_⟩
    · intro r hr
      simp only [List.mem_append, List.mem_singleton] at hr
      rcases hr with hr | rfl
      · exact hl.ok r hr
      · simpa [maskOk] using hok.1
    · intro r hr
      simp only [List.mem_append, List.mem_singleton] at hr
      rcases hr with hr | rfl
      · exact hl.bel r hr
      · simpa [belongs] using hok.2.1
    · intro r hr
      simp only [List.mem_append, List.mem_singleton] at hr
      rcases hr with hr | rfl
      · exact hl.cap r hr
      · simpa [Req.size] using hok.2.2
  · exact hl

theorem step_LI (c : Cfg) (s : State) (op : Op) (hok : opOk c op) (h : Inv c s) (hl : LI c s) : LI c (step c s op) := by
  cases op with
  | deliver k a l d m => exact deliver_LI c s k a l d m hok hl
  | tick => exact tick_LI c s h hl
  | out k => exact ⟨hl.nb, hl.len, hl.ok, hl.bel, hl.cap⟩

theorem init_LI (c : Cfg) : LI c (init c) := by
  refine ⟨by simp [init], ?_, by simp [init], by simp [init], by simp [init]⟩
  intro b hb l hl
  simp only [init] at hb
  have := (List.mem_replicate.1 hb).2
  subst this
  simp only [emptyBank] at hl
  rw [(List.mem_replicate.1 hl).2]
  simp

theorem arrived_id_lt (c : Cfg) (s : State) (h : Inv c s) (r : Req) (hr : r ∈ s.arrived) : r.id < s.arrived.length := by
  have : r.id ∈ s.arrived.map (·.id) := List.mem_map.2 ⟨r, hr, rfl⟩
  rw [h.ids] at this
  exact List.mem_range.1 this

theorem remaining_deliver (c : Cfg) (s : State) (h : Inv c s) (kind : Kind) (addr len : Nat) (data : List Nat)
    (mask : Option (List Bool)) (r : Req) (hr : r ∈ s.arrived) :
    remaining c (deliver c s kind addr len data mask) r = remaining c s r := by
  unfold deliver
  split
  · have hne : (⟨s.arrived.length, kind, addr, len, data, mask⟩ : Req) ≠ r := by
      intro e
      have := arrived_id_lt c s h r hr
      rw [← e] at this
      simp at this
    unfold remaining
    simp only [wChain, wTopL, List.filter_append, List.map_append]
    by_cases hin : inB c (bankOf c r.addr) ⟨s.arrived.length, kind, addr, len, data, mask⟩ = true
    · simp only [List.filter_cons, hin, if_true, List.filter_nil, List.map_cons, List.map_nil]
      rw [← List.append_assoc, costTo_append_other r _ _ hne]
    · have hin' : inB c (bankOf c r.addr) ⟨s.arrived.length, kind, addr, len, data, mask⟩ = false := by
        simpa using hin
      simp [List.filter_cons, hin']
  · rfl

theorem remaining_out (c : Cfg) (s : State) (j : Nat) (r : Req) :
    remaining c (step c s (.out j)) r = remaining c s r := rfl

/-- ticks of `ops` (run from `s`) in which the top port took every response bank `k` offered -/
def acceptingTicks (c : Cfg) (k : Nat) : State → List Op → Nat
  | _, [] => 0
  | s, .tick :: ops => (if accepts c s k = true then 1 else 0) + acceptingTicks c k (tick c s) ops
  | s, op :: ops => acceptingTicks c k (step c s op) ops

theorem step_arrived_mono (c : Cfg) (s : State) (op : Op) (r : Req) (hr : r ∈ s.arrived) : r ∈ (step c s op).arrived := by
  cases op with
  | deliver k a l d m =>
    simp only [step, deliver]
    split
    · simp [hr]
    · exact hr
  | tick => simp only [step, tick_arrived]; exact hr
  | out k => exact hr

/-- **the measure decreases**: along any op sequence (new arrivals, blocked ticks, partial drains in any order)
`remaining` never grows and drops by at least one in every accepting tick -/
theorem remaining_fold (c : Cfg) (hd0 : 0 < c.depth) (hp : 0 < c.post) (hb : 0 < c.banks) (r : Req) :
    ∀ (ops : List Op) (s : State), Inv c s → LI c s → (∀ op ∈ ops, opOk c op) → r ∈ s.arrived →
      remaining c (ops.foldl (step c) s) r ≤ remaining c s r - acceptingTicks c (bankOf c r.addr) s ops := by
  intro ops
  induction ops with
  | nil => intro s _ _ _ _; simp [acceptingTicks]
  | cons op ops ih =>
    intro s h hl hok hr
    have hok' : ∀ op ∈ ops, opOk c op := fun o ho => hok o (by simp [ho])
    have h' := step_inv c s op h
    have hl' := step_LI c s op (hok op (by simp)) h hl
    have hr' := step_arrived_mono c s op r hr
    have := ih (step c s op) h' hl' hok' hr'
    simp only [List.foldl_cons]
    cases op with
    | tick =>
      have ht := remaining_tick c hd0 hp hb s h hl r
      simp only [acceptingTicks, step] at this ⊢
      omega
    | deliver k a l d m =>
      have hd := remaining_deliver c s h k a l d m r hr
      simp only [acceptingTicks]
      simp only [step] at this hd
      rw [hd] at this
      exact this
    | out j =>
      simp only [acceptingTicks]
      rw [remaining_out] at this
      exact this

/-- a delivered request whose `remaining` is 0 has been answered -/
theorem answered_of_remaining_zero (c : Cfg) (s : State) (h : Inv c s) (r : Req) (hr : r ∈ s.arrived)
    (h0 : remaining c s r = 0) : r ∈ s.resp.map (·.req) := by
  unfold remaining at h0
  cases ho : costTo r (wChain c s (bankOf c r.addr)) with
  | some m =>
    have := costTo_pos r _ m (wChain_pos c s _) ho
    rw [ho] at h0; simp at h0; omega
  | none =>
    have hn := (costTo_none_iff r _).1 ho
    rw [wChain_reqs] at hn
    have hm : r ∈ s.arrived.filter (inB c (bankOf c r.addr)) := List.mem_filter.2 ⟨hr, by simp [inB]⟩
    rw [← h.r (bankOf c r.addr), List.mem_append] at hm
    rcases hm with hm | hm
    · exact (List.mem_filter.1 hm).1
    · exact absurd hm hn

theorem run_LI (c : Cfg) (ops : List Op) (hok : ∀ op ∈ ops, opOk c op) (hw : c.width = 1) : LI c (run c ops) := by
  unfold run
  have : ∀ (ops : List Op) (s : State), Inv c s → LI c s → (∀ op ∈ ops, opOk c op) →
      LI c (ops.foldl (step c) s) := by
    intro ops
    induction ops with
    | nil => intro s _ h _; exact h
    | cons o os ih =>
      intro s h hl hok
      exact ih _ (step_inv c s o h) (step_LI c s o (hok o (by simp)) h hl) (fun op hop => hok op (by simp [hop]))
  exact this ops _ (init_inv c hw) (init_LI c) hok

end C17
