import MgpuModel.C08
import MgpuProofs.C08Lanes
/-! Helper lemmas for C08: the `NextWG` cursor enumerates the work-groups in x-fastest order. -/
namespace C08

/-- dimensions ≥ 1 (the property's quantifier) -/
structure Geo.Valid (g : Geo) : Prop where
  gx : 0 < g.gx
  gy : 0 < g.gy
  gz : 0 < g.gz
  wx : 0 < g.wx
  wy : 0 < g.wy
  wz : 0 < g.wz

/-- the n-th work-group coordinate in x-fastest order -/
def coordOf (g : Geo) (n : Nat) : Coord := (n % g.nx, n / g.nx % g.ny, n / g.nx / g.ny)
def curOf (g : Geo) (n : Nat) : Cur := ⟨n % g.nx, n / g.nx % g.ny, n / g.nx / g.ny⟩
/-- clipped size of the work-group with coordinate `c` -/
def sizesOf (g : Geo) (c : Coord) : Coord :=
  (min (g.gx - c.1 * g.wx) g.wx, min (g.gy - c.2.1 * g.wy) g.wy, min (g.gz - c.2.2 * g.wz) g.wz)
def wgAt (g : Geo) (n : Nat) : WG := ⟨coordOf g n, sizesOf g (coordOf g n)⟩
/-- specification: all work-groups, x fastest, then y, then z -/
def allWGs (g : Geo) : List WG := (List.range g.total).map (wgAt g)
/-- linear index of a coordinate -/
def lin (g : Geo) (c : Coord) : Nat := (c.2.2 * g.ny + c.2.1) * g.nx + c.1

theorem nwg_pos (a b : Nat) : 0 < nwg a b := Nat.succ_pos _
theorem Geo.nx_pos (g : Geo) : 0 < g.nx := nwg_pos _ _
theorem Geo.ny_pos (g : Geo) : 0 < g.ny := nwg_pos _ _
theorem Geo.nz_pos (g : Geo) : 0 < g.nz := nwg_pos _ _

/-- key arithmetic fact: `i < nwg g w ↔ i*w < g` -/
theorem lt_nwg (g w i : Nat) (hg : 0 < g) (hw : 0 < w) : i < nwg g w ↔ i * w < g := by
  unfold nwg
  rw [Nat.lt_succ_iff, Nat.le_div_iff_mul_le hw]
  omega

theorem succ_divmod (n d : Nat) (hd : 0 < d) :
    (n % d + 1 < d → (n + 1) % d = n % d + 1 ∧ (n + 1) / d = n / d) ∧
    (¬ n % d + 1 < d → (n + 1) % d = 0 ∧ (n + 1) / d = n / d + 1) := by
  have h := Nat.div_add_mod n d
  have hm := Nat.mod_lt n hd
  constructor
  · intro hlt
    have e : n + 1 = d * (n / d) + (n % d + 1) := by omega
    constructor
    · conv => lhs; rw [e]
      rw [Nat.mul_add_mod, Nat.mod_eq_of_lt hlt]
    · conv => lhs; rw [e]
      rw [Nat.mul_add_div hd, Nat.div_eq_of_lt hlt, Nat.add_zero]
  · intro hge
    have e : n + 1 = d * (n / d + 1) := by rw [Nat.mul_add, Nat.mul_one]; omega
    constructor
    · conv => lhs; rw [e]
      exact Nat.mul_mod_right _ _
    · conv => lhs; rw [e]
      exact Nat.mul_div_right _ hd

/-- mixed-radix successor -/
def succCur (nx ny : Nat) (c : Cur) : Cur :=
  if c.x + 1 < nx then ⟨c.x + 1, c.y, c.z⟩
  else if c.y + 1 < ny then ⟨0, c.y + 1, c.z⟩ else ⟨0, 0, c.z + 1⟩

theorem curOf_succ (g : Geo) (n : Nat) : curOf g (n + 1) = succCur g.nx g.ny (curOf g n) := by
  have hx := succ_divmod n g.nx g.nx_pos
  have hy := succ_divmod (n / g.nx) g.ny g.ny_pos
  unfold succCur curOf
  by_cases h1 : n % g.nx + 1 < g.nx
  · obtain ⟨a, b⟩ := hx.1 h1
    simp only [h1, if_true, a, b]
  · obtain ⟨a, b⟩ := hx.2 h1
    simp only [h1, if_false, a, b]
    by_cases h2 : n / g.nx % g.ny + 1 < g.ny
    · obtain ⟨c, d⟩ := hy.1 h2
      simp only [h2, if_true, c, d]
    · obtain ⟨c, d⟩ := hy.2 h2
      simp only [h2, if_false, c, d]

theorem coordOf_z_lt (g : Geo) (n : Nat) (h : n < g.total) : n / g.nx / g.ny < g.nz := by
  rw [Nat.div_div_eq_div_mul, Nat.div_lt_iff_lt_mul (Nat.mul_pos g.nx_pos g.ny_pos)]
  unfold Geo.total at h
  rw [Nat.mul_comm g.nz]; exact h

/-- inside the grid `NextWG` returns the group at the cursor and advances the cursor by one -/
theorem nextWG_inside (g : Geo) (hv : g.Valid) (c : Cur)
    (hx : c.x < g.nx) (hy : c.y < g.ny) (hz : c.z < g.nz) :
    nextWG g c = some (⟨(c.x, c.y, c.z), sizesOf g (c.x, c.y, c.z)⟩, succCur g.nx g.ny c) := by
  have hx' := (lt_nwg g.gx g.wx c.x hv.gx hv.wx).mp hx
  have hy' := (lt_nwg g.gy g.wy c.y hv.gy hv.wy).mp hy
  have hz' := (lt_nwg g.gz g.wz c.z hv.gz hv.wz).mp hz
  have ex : (g.gx ≤ c.x * g.wx + min (g.gx - c.x * g.wx) g.wx) ↔ ¬ (c.x + 1 < g.nx) := by
    unfold Geo.nx
    rw [lt_nwg _ _ _ hv.gx hv.wx, Nat.add_mul, Nat.one_mul]; omega
  have ey : (g.gy ≤ c.y * g.wy + min (g.gy - c.y * g.wy) g.wy) ↔ ¬ (c.y + 1 < g.ny) := by
    unfold Geo.ny
    rw [lt_nwg _ _ _ hv.gy hv.wy, Nat.add_mul, Nat.one_mul]; omega
  unfold nextWG succCur sizesOf
  have hc : ¬ (g.gx ≤ c.x * g.wx ∨ g.gy ≤ c.y * g.wy ∨ g.gz ≤ c.z * g.wz) := by omega
  simp only [hc, if_false]
  by_cases h1 : c.x + 1 < g.nx
  · have := (not_congr ex).mpr (by simpa using h1)
    simp [h1, this]
  · have h1' := ex.mpr h1
    by_cases h2 : c.y + 1 < g.ny
    · have := (not_congr ey).mpr (by simpa using h2)
      simp [h1, h1', h2, this]
    · have h2' := ey.mpr h2
      simp [h1, h1', h2, h2']

theorem nextWG_at (g : Geo) (hv : g.Valid) (n : Nat) (h : n < g.total) :
    nextWG g (curOf g n) = some (wgAt g n, curOf g (n + 1)) := by
  have := nextWG_inside g hv (curOf g n) (Nat.mod_lt _ g.nx_pos) (Nat.mod_lt _ g.ny_pos) (coordOf_z_lt g n h)
  rw [this, curOf_succ]
  rfl

theorem total_div (g : Geo) : g.total / g.nx / g.ny = g.nz := by
  unfold Geo.total
  rw [Nat.div_div_eq_div_mul, Nat.mul_comm _ g.nz, Nat.mul_div_cancel _ (Nat.mul_pos g.nx_pos g.ny_pos)]

/-- after the last group `NextWG` returns nil (and leaves the cursor alone) -/
theorem nextWG_end (g : Geo) (hv : g.Valid) : nextWG g (curOf g g.total) = none := by
  have hz : ¬ (g.nz < nwg g.gz g.wz) := by unfold Geo.nz; omega
  have : g.gz ≤ g.nz * g.wz := by
    have := (not_congr (lt_nwg g.gz g.wz g.nz hv.gz hv.wz)).mp hz; omega
  unfold nextWG curOf
  simp only [total_div]
  simp [this]

/-- indices ≥ n accepted by the filter -/
def idxFrom (g : Geo) (p : Coord → Bool) (n : Nat) : List Nat :=
  (List.range' n (g.total - n)).filter fun m => p (coordOf g m)

theorem idxFrom_end (g : Geo) (p : Coord → Bool) : idxFrom g p g.total = [] := by
  simp [idxFrom]

theorem idxFrom_step (g : Geo) (p : Coord → Bool) (n : Nat) (h : n < g.total) :
    idxFrom g p n = if p (coordOf g n) then n :: idxFrom g p (n + 1) else idxFrom g p (n + 1) := by
  unfold idxFrom
  have e : g.total - n = (g.total - (n + 1)) + 1 := by omega
  rw [e, List.range'_succ, List.filter_cons]

theorem idxFrom_tail (g : Geo) (p : Coord → Bool) (d : Nat) : ∀ n, g.total - n = d → n ≤ g.total →
    ∀ m rest, idxFrom g p n = m :: rest → rest = idxFrom g p (m + 1) ∧ n ≤ m ∧ m < g.total := by
  induction d with
  | zero =>
    intro n hd hn m rest h
    have : n = g.total := by omega
    subst this
    rw [idxFrom_end] at h; cases h
  | succ d ih =>
    intro n hd hn m rest h
    have hlt : n < g.total := by omega
    rw [idxFrom_step g p n hlt] at h
    by_cases hp : p (coordOf g n) = true
    · simp only [hp, if_true, List.cons.injEq] at h
      obtain ⟨rfl, rfl⟩ := h
      exact ⟨rfl, Nat.le_refl _, hlt⟩
    · simp only [hp] at h
      have := ih (n + 1) (by omega) (by omega) m rest (by simpa using h)
      exact ⟨this.1, by omega, this.2.2⟩

/-- filtered `NextWG`: the first accepted group at or after the cursor, or nil -/
theorem nextWGf_spec (g : Geo) (hv : g.Valid) (p : Coord → Bool) (d : Nat) : ∀ n fuel,
    g.total - n = d → n ≤ g.total → d < fuel →
    nextWGf g p fuel (curOf g n) =
      match idxFrom g p n with
      | [] => none
      | m :: _ => some (wgAt g m, curOf g (m + 1)) := by
  induction d with
  | zero =>
    intro n fuel hd hn hf
    have : n = g.total := by omega
    subst this
    obtain ⟨f, rfl⟩ : ∃ f, fuel = f + 1 := ⟨fuel - 1, by omega⟩
    simp only [nextWGf, nextWG_end g hv, idxFrom_end]
  | succ d ih =>
    intro n fuel hd hn hf
    have hlt : n < g.total := by omega
    obtain ⟨f, rfl⟩ : ∃ f, fuel = f + 1 := ⟨fuel - 1, by omega⟩
    rw [idxFrom_step g p n hlt]
    simp only [nextWGf, nextWG_at g hv n hlt]
    have hid : (wgAt g n).id = coordOf g n := rfl
    rw [hid]
    by_cases hp : p (coordOf g n) = true
    · simp [hp]
    · simp only [hp]
      have := ih (n + 1) f (by omega) (by omega) (by omega)
      simpa using this

/-- `k` calls of `NextWG` from index `n`: the first `k` accepted groups; the cursor then stands
    at an index from which the remaining accepted groups follow -/
theorem enumFrom_spec (g : Geo) (hv : g.Valid) (p : Coord → Bool) (k : Nat) : ∀ n, n ≤ g.total →
    ∃ n', n' ≤ g.total ∧ (enumFrom g p k (curOf g n)).2 = curOf g n' ∧
      (enumFrom g p k (curOf g n)).1 = ((idxFrom g p n).take k).map (wgAt g) ∧
      idxFrom g p n' = (idxFrom g p n).drop k := by
  induction k with
  | zero => intro n hn; exact ⟨n, hn, rfl, by simp [enumFrom], by simp⟩
  | succ k ih =>
    intro n hn
    have hs := nextWGf_spec g hv p (g.total - n) n (g.total + 1) rfl hn (by omega)
    cases hl : idxFrom g p n with
    | nil =>
      rw [hl] at hs
      refine ⟨n, hn, ?_, ?_, ?_⟩
      · simp only [enumFrom, hs]
      · simp only [enumFrom, hs, List.take_nil, List.map_nil]
      · simp [hl]
    | cons m rest =>
      rw [hl] at hs
      obtain ⟨hrest, _, hm⟩ := idxFrom_tail g p (g.total - n) n rfl hn m rest hl
      obtain ⟨n', hn', h1, h2, h3⟩ := ih (m + 1) (by omega)
      refine ⟨n', hn', ?_, ?_, ?_⟩
      · simp only [enumFrom, hs]; exact h1
      · simp only [enumFrom, hs, List.take_succ_cons, List.map_cons, h2, hrest]
      · simp only [List.drop_succ_cons, h3, hrest]

theorem idxFrom_zero_map (g : Geo) (p : Coord → Bool) :
    (idxFrom g p 0).map (wgAt g) = (allWGs g).filter fun w => p w.id := by
  unfold idxFrom allWGs
  rw [Nat.sub_zero, ← List.range_eq_range', List.filter_map]
  rfl

theorem curOf_zero (g : Geo) : curOf g 0 = ⟨0, 0, 0⟩ := by
  simp [curOf]

/-! ### the index ↔ coordinate bijection -/

theorem lin_coordOf (g : Geo) (n : Nat) : lin g (coordOf g n) = n := by
  have h1 := Nat.div_add_mod n g.nx
  have h2 := Nat.div_add_mod (n / g.nx) g.ny
  unfold lin coordOf
  simp only
  have e : n / g.nx / g.ny * g.ny + n / g.nx % g.ny = n / g.nx := by
    rw [Nat.mul_comm]; exact h2
  rw [e, Nat.mul_comm]; exact h1

theorem coordOf_lin (g : Geo) (c : Coord) (hx : c.1 < g.nx) (hy : c.2.1 < g.ny) :
    coordOf g (lin g c) = c := by
  obtain ⟨x, y, z⟩ := c
  simp only at hx hy
  unfold coordOf lin
  simp only
  have h1 : ((z * g.ny + y) * g.nx + x) % g.nx = x := by
    rw [Nat.add_comm, Nat.add_mul_mod_self_right, Nat.mod_eq_of_lt hx]
  have h2 : ((z * g.ny + y) * g.nx + x) / g.nx = z * g.ny + y := by
    rw [Nat.add_comm, Nat.add_mul_div_right _ _ g.nx_pos, Nat.div_eq_of_lt hx, Nat.zero_add]
  have h3 : (z * g.ny + y) % g.ny = y := by
    rw [Nat.add_comm, Nat.add_mul_mod_self_right, Nat.mod_eq_of_lt hy]
  have h4 : (z * g.ny + y) / g.ny = z := by
    rw [Nat.add_comm, Nat.add_mul_div_right _ _ g.ny_pos, Nat.div_eq_of_lt hy, Nat.zero_add]
  rw [h1, h2, h3, h4]

theorem lin_lt (g : Geo) (c : Coord) (hx : c.1 < g.nx) (hy : c.2.1 < g.ny) (hz : c.2.2 < g.nz) :
    lin g c < g.total := by
  obtain ⟨x, y, z⟩ := c
  simp only at hx hy hz
  unfold lin Geo.total
  simp only
  have h1 : z * g.ny + y + 1 ≤ g.nz * g.ny := by
    calc z * g.ny + y + 1 ≤ z * g.ny + g.ny := by omega
      _ = (z + 1) * g.ny := (Nat.succ_mul _ _).symm
      _ ≤ g.nz * g.ny := Nat.mul_le_mul_right _ hz
  calc (z * g.ny + y) * g.nx + x < (z * g.ny + y) * g.nx + g.nx := by omega
    _ = (z * g.ny + y + 1) * g.nx := (Nat.succ_mul _ _).symm
    _ ≤ (g.nz * g.ny) * g.nx := Nat.mul_le_mul_right _ h1
    _ = g.nx * g.ny * g.nz := by rw [Nat.mul_comm, Nat.mul_comm g.nz, Nat.mul_assoc]

theorem coordOf_bounds (g : Geo) (n : Nat) (h : n < g.total) :
    (coordOf g n).1 < g.nx ∧ (coordOf g n).2.1 < g.ny ∧ (coordOf g n).2.2 < g.nz :=
  ⟨Nat.mod_lt _ g.nx_pos, Nat.mod_lt _ g.ny_pos, coordOf_z_lt g n h⟩

theorem mem_countLoop (g : Geo) (c : Coord) : c ∈ countLoop g ↔ c.1 < g.nx ∧ c.2.1 < g.ny ∧ c.2.2 < g.nz := by
  obtain ⟨x, y, z⟩ := c
  simp only [countLoop, List.mem_flatMap, List.mem_map, List.mem_range, Prod.mk.injEq]
  constructor
  · rintro ⟨i, hi, j, hj, k, hk, rfl, rfl, rfl⟩
    exact ⟨hi, hj, hk⟩
  · rintro ⟨hx, hy, hz⟩
    exact ⟨x, hx, y, hy, z, hz, rfl, rfl, rfl⟩

theorem countLoop_nodup (g : Geo) : (countLoop g).Nodup := by
  unfold countLoop
  apply nodup_flatMap_key _ _ (fun c : Coord => c.1) List.nodup_range
  · intro i _
    apply nodup_flatMap_key _ _ (fun c : Coord => c.2.1) List.nodup_range
    · intro j _
      exact nodup_map_key _ _ (fun c : Coord => c.2.2) List.nodup_range (fun _ _ => rfl)
    · intro j _ b hb
      rcases List.mem_map.mp hb with ⟨k, _, rfl⟩; rfl
  · intro i _ b hb
    rcases List.mem_flatMap.mp hb with ⟨j, _, hb⟩
    rcases List.mem_map.mp hb with ⟨k, _, rfl⟩; rfl

theorem coords_nodup (g : Geo) : ((List.range g.total).map (coordOf g)).Nodup :=
  nodup_map_key _ _ (lin g) List.nodup_range (fun n _ => lin_coordOf g n)

theorem mem_coords (g : Geo) (c : Coord) :
    c ∈ (List.range g.total).map (coordOf g) ↔ c.1 < g.nx ∧ c.2.1 < g.ny ∧ c.2.2 < g.nz := by
  simp only [List.mem_map, List.mem_range]
  constructor
  · rintro ⟨n, hn, rfl⟩; exact coordOf_bounds g n hn
  · rintro ⟨hx, hy, hz⟩
    exact ⟨lin g c, lin_lt g c hx hy hz, coordOf_lin g c hx hy⟩

/-- the counting loops of `countWG` visit the same coordinates as the enumeration -/
theorem countLoop_perm (g : Geo) : (countLoop g).Perm ((List.range g.total).map (coordOf g)) := by
  rw [List.perm_ext_iff_of_nodup (countLoop_nodup g) (coords_nodup g)]
  intro c
  rw [mem_countLoop, mem_coords]

end C08
