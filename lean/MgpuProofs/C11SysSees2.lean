import MgpuProofs.C11SysSees
import MgpuProofs.C11CpClean
import MgpuProofs.C11MqOrder
/-! # C11 helper: once the command processor forwards a copy that follows a flush, every cache is clean -/
namespace C11

theorem Sys.AllInv.step {c : SysCfg} {s : Sys} (h : s.AllInv c) (op : SysOp) : (s.step op).1.AllInv c :=
  ⟨h.comp.step op, h.mem.step op, h.link.step op, h.data.step op, h.cmd.step op, h.wf.step op, h.hist.step op,
   h.host.step op, (s.step_pt op).trans h.pt⟩

/-- the command processor and the caches that hold dirty data move like `cpDirtyStep` -/
theorem Sys.step_cpDirty (s : Sys) (op : SysOp) (hk : op.isKwrite = false) :
    ∃ l, cpDirtyRun (s.cp, s.dirty.map (·.1)) l = ((s.step op).1.cp, (s.step op).1.dirty.map (·.1)) := by
  cases op with
  | kwrite i a v => cases hk
  | cacheAck j =>
    simp only [Sys.step]
    split
    · exact ⟨[], rfl⟩
    · rename_i hne
      split
      · exact ⟨[], rfl⟩
      · rename_i hfull
        refine ⟨[.ack j], ?_⟩
        show cpDirtyStep (s.cp, s.dirty.map (·.1)) (.ack j) = _
        unfold cpDirtyStep
        simp only
        repeat' (first
          | exact absurd ‹s.cp.atCaches = []› hne
          | exact absurd ‹s.cp.s.cacheIn.length ≥ s.cp.s.capIn› hfull
          | (simp only [Sys.writeBack]; rw [List.filter_map]; rfl)
          | split)
  | _ =>
    simp only [Sys.step]
    repeat' (first
      | exact ⟨[], rfl⟩
      | exact ⟨[.req _], rfl⟩
      | exact ⟨[.tick], rfl⟩
      | exact ⟨[.takeCache _], rfl⟩
      | exact ⟨[.takeDma 1], rfl⟩
      | exact ⟨[.rsp _], rfl⟩
      | exact ⟨[.takeDrv 1], rfl⟩
      | split)

/-- the context of a run from `s0` without kernel writes -/
structure Sys.SeesCtx (c : SysCfg) (s0 s : Sys) : Prop where
  all : s.AllInv c
  cpd : ∃ l, cpDirtyRun (s0.cp, s0.dirty.map (·.1)) l = (s.cp, s.dirty.map (·.1))

theorem Sys.SeesCtx.step {c : SysCfg} {s0 s : Sys} (h : Sys.SeesCtx c s0 s) (op : SysOp) (hk : op.isKwrite = false) :
    Sys.SeesCtx c s0 (s.step op).1 := by
  obtain ⟨l, hl⟩ := h.cpd
  obtain ⟨l', hl'⟩ := s.step_cpDirty op hk
  exact ⟨h.all.step op, l ++ l', by rw [cpDirtyRun_append, hl, hl']⟩

/-- **when a copy that follows a flush has reached the DMA engine, no cache holds dirty data**
    (requests leave the driver in order, the command processor takes them in order, forwards a copy
    only with no acknowledgement outstanding, and every cache was written back when it acknowledged) -/
theorem Sys.SeesCtx.clean {c : SysCfg} {s0 s : Sys} {A : Nat → Prop} (hcap : c.nCaches ≤ c.ccache)
    (h0 : s0.AllInv c) (hsmall : ∀ e ∈ s0.dirty, e.1 < c.nCaches)
    (h : Sys.SeesCtx c s0 s) (hs : s0.Sees s A) (d : Nat) (rq : MqReq) (p : Piece)
    (hr : s.reqOfDma d = some rq) (hp : s.pieceOf rq = some p) (hpf : PostFlush s0 p) : s.dirty = [] := by
  obtain ⟨mo, co, _, hmq, hcp, _, _⟩ := h.all.comp
  obtain ⟨mo0, co0, _, hmq0, hcp0, _, _⟩ := h0.comp
  -- the clone and the request it was made from
  unfold Sys.reqOfDma Sys.reqOfCp at hr
  cases hcl : s.cp.dmaSeen[d]? with
  | none => rw [hcl] at hr; cases hr
  | some cl =>
    rw [hcl] at hr
    simp only at hr
    obtain ⟨c1, c2, c3, c4, _, c6⟩ := Sys.pieceOf_spec hp
    -- the flush request of the same command left the driver earlier
    have hrqc : rq ∈ s.mq.s.created := by
      have := mq_seen_created 1 c.cycH2D c.cycD2H c.nQueues c.warm mo
      rw [← hmq] at this
      exact this rq (List.mem_of_getElem? hr)
    have henq := h.all.enqOf c2
    have hfl := mq_piece_has_flush 1 c.cycH2D c.cycD2H c.nQueues c.warm mo rq p.cmd.toMq.2
    rw [← hmq] at hfl
    obtain ⟨rf, hrfc, hrfq, hrfs, hrfk⟩ := hfl hrqc c6 henq hpf.1 (Nat.le_refl 1)
    have hord := mq_flush_seen_before_piece 1 c.cycH2D c.cycD2H c.nQueues c.warm mo rf rq
    rw [← hmq] at hord
    obtain ⟨i, hi, hseen⟩ := hord hrfc hrqc hrfq hrfs hrfk c6 cl.orig hr
    -- it arrived at the command processor after `s0`
    have hi0 : s0.mq.seen.length ≤ i := by
      apply Decidable.byContradiction; intro hn
      obtain ⟨l, hl⟩ := hs.grows.seen
      have hlt : i < s0.mq.seen.length := by omega
      have h0seen : s0.mq.seen[i]? = some rf := by
        rw [hl, List.getElem?_append_left hlt] at hseen; exact hseen
      have hc0 := mq_seen_created 1 c.cycH2D c.cycD2H c.nQueues c.warm mo0
      have he0 := mq_created_seq_enqueued 1 c.cycH2D c.cycD2H c.nQueues c.warm mo0
      rw [← hmq0] at hc0 he0
      have hlt2 := he0 rf (hc0 rf (List.mem_of_getElem? h0seen))
      have hnone := hpf.2
      rw [c4, c3, ← hrfq, ← hrfs] at hnone
      have hlen : (s0.mq.enqOf rf.q).length = (s0.cmds.filter (·.q == rf.q)).length := by
        unfold MqEnv.enqOf
        rw [h0.wf.enq, List.filter_map, List.length_map, List.length_map]
        have : s0.cmds.filter ((fun x : Nat × MqCmd => decide (x.1 = rf.q)) ∘ SysCmd.toMq) =
            s0.cmds.filter (·.q == rf.q) := by
          apply List.filter_congr; intro x _
          simp only [SysCmd.toMq, Function.comp]
          by_cases hx : x.q = rf.q <;> simp [hx]
        rw [this]
      unfold Sys.cmdOf at hnone
      rw [List.getElem?_eq_none_iff] at hnone
      omega
    -- so no real cache is dirty any more
    obtain ⟨l, hl⟩ := h.cpd
    have hclean := cp_forwarded_after_flush_clean c.nCaches c.cin c.cdrv c.cdma c.ccache co0 hcap
      (s0.dirty.map (·.1)) l
    rw [← hcp0] at hclean
    simp only at hclean
    rw [hl] at hclean
    have hsent := h.all.cmd.sent i rf hseen
    rw [hrfk] at hsent
    have := hclean cl (List.mem_append_left _ (List.mem_of_getElem? hcl))
      ⟨i, by rw [h0.cmd.len]; exact hi0, hi, hsent⟩
    cases hd : s.dirty with
    | nil => rfl
    | cons e rest =>
      exfalso
      have he : e ∈ s.dirty := by rw [hd]; exact List.mem_cons_self ..
      have h1 := this e.1 (List.mem_map_of_mem he)
      have h2 := hsmall e (hs.sub e he)
      omega

end C11
