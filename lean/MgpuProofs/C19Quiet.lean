import MgpuProofs.C19Tok
/-! Helper lemmas for C19 (progress): a tick that reports no progress and does not panic changed
    nothing, so every stage reported "no progress" on the state the tick started from. -/
namespace C19

theorem id_sendPull (q : Pmc) (h2 : (sendPull q).2 = false) (hf : (sendPull q).1.fault = none) (hq : q.fault = none) :
    (sendPull q).1 = q := by
  unfold sendPull at *
  by_cases h0 : q.toPull.isEmpty = true
  · simp [h0]
  · by_cases hany : (q.toPull.any fun r => r.dst == q.self) = true
    · simp [h0, hany] at hf
    · obtain ⟨sent, kept, h1, e, _⟩ := sendLoop_spec RMsg.req 1 q.toPull q.remOut
      simp only [h0, hany, e, Bool.false_eq_true, if_false] at h2 ⊢
      have hs : sent = [] := by
        cases sent with
        | nil => rfl
        | cons x xs => exfalso; simp [h1] at h2; omega
      subst hs
      simp only [List.nil_append] at h1
      cases q; simp_all

theorem id_sendRsp (q : Pmc) (h2 : (sendRsp q).2 = false) (hf : (sendRsp q).1.fault = none) (hq : q.fault = none) :
    (sendRsp q).1 = q := by
  unfold sendRsp at *
  by_cases h0 : q.toRsp.isEmpty = true
  · simp [h0]
  · by_cases hany : (q.toRsp.any fun r => r.dst.isNone) = true
    · simp [h0, hany] at hf
    · obtain ⟨sent, kept, h1, e, _⟩ := sendLoop_spec RMsg.rsp 1 q.toRsp q.remOut
      simp only [h0, hany, e, Bool.false_eq_true, if_false] at h2 ⊢
      have hs : sent = [] := by
        cases sent with
        | nil => rfl
        | cons x xs => exfalso; simp [h1] at h2; omega
      subst hs
      simp only [List.nil_append] at h1
      cases q; simp_all

theorem id_sendRead (q : Pmc) (h2 : (sendRead q).2 = false) : (sendRead q).1 = q := by
  unfold sendRead at *
  by_cases h0 : q.toRead.isEmpty = true
  · simp [h0]
  · obtain ⟨sent, kept, h1, e, _⟩ := sendLoop_spec (id : MReq → MReq) 1 q.toRead q.memOut
    simp only [h0, e, Bool.false_eq_true, if_false] at h2 ⊢
    have hs : sent = [] := by
      cases sent with
      | nil => rfl
      | cons x xs => exfalso; simp [h1] at h2; omega
    subst hs
    simp only [List.nil_append] at h1
    cases q; simp_all

theorem id_sendWrite (q : Pmc) (h2 : (sendWrite q).2 = false) : (sendWrite q).1 = q := by
  unfold sendWrite at *
  by_cases h0 : q.writeReqs.isEmpty = true
  · simp [h0]
  · obtain ⟨sent, kept, h1, e, _⟩ := sendLoop_spec (id : MReq → MReq) 1 q.writeReqs q.memOut
    simp only [h0, e, Bool.false_eq_true, if_false] at h2 ⊢
    have hs : sent = [] := by
      cases sent with
      | nil => rfl
      | cons x xs => exfalso; simp [h1] at h2; omega
    subst hs
    simp only [List.nil_append] at h1
    cases q; simp_all

theorem id_sendComplete (q : Pmc) (h2 : (sendComplete q).2 = false) : (sendComplete q).1 = q := by
  unfold sendComplete at *
  cases hc : q.toCtrl with
  | none => rfl
  | some c =>
    simp only [hc] at h2 ⊢
    split
    · rename_i hr; simp [hr] at h2
    · rfl

theorem id_fromOutside (q : Pmc) (h2 : (fromOutside q).2 = false) (hf : (fromOutside q).1.fault = none) :
    (fromOutside q).1 = q := by
  unfold fromOutside at *
  split at h2 <;> simp_all

theorem id_fromCtrl (q : Pmc) (h2 : (fromCtrl q).2 = false) (hf : (fromCtrl q).1.fault = none) :
    (fromCtrl q).1 = q := by
  unfold fromCtrl at *
  split
  · rfl
  · rename_i hh
    simp only [hh] at h2 hf
    split <;> simp_all

theorem id_fromMem (q : Pmc) (h2 : (fromMem q).2 = false) (hf : (fromMem q).1.fault = none) :
    (fromMem q).1 = q := by
  unfold fromMem at *
  split at h2 <;> simp_all

theorem id_startMigration (q : Pmc) (h2 : (startMigration q).2 = false) : (startMigration q).1 = q := by
  cases hc : q.cur with
  | none => rw [startMigration_idle (Or.inl hc)]
  | some r =>
    cases hh : q.handling with
    | true => rw [startMigration_idle (Or.inr hh)]
    | false => rw [startMigration_spec hc hh] at h2; cases h2

theorem id_readPage (q : Pmc) (h2 : (readPage q).2 = false) : (readPage q).1 = q := by
  unfold readPage at *
  split at h2 <;> simp_all

theorem id_dataReadyRsp (q : Pmc) (h2 : (dataReadyRsp q).2 = false) : (dataReadyRsp q).1 = q := by
  unfold dataReadyRsp at *
  split at h2 <;> simp_all

theorem id_pullRsp (q : Pmc) (h2 : (pullRsp q).2 = false) (hf : (pullRsp q).1.fault = none) :
    (pullRsp q).1 = q := by
  unfold pullRsp at *
  split
  · rfl
  · rename_i hne
    simp only [hne] at h2 hf
    simp only [Bool.false_eq_true, if_false] at h2 hf
    rw [hf] at h2; cases h2

theorem id_writeDone (q : Pmc) (h2 : (writeDone q).2 = false) (hf : (writeDone q).1.fault = none) :
    (writeDone q).1 = q := by
  unfold writeDone at *
  cases hw : q.wdone with
  | none => rfl
  | some w =>
    simp only [hw] at h2 hf ⊢
    split at h2
    · simp_all
    · split at h2
      · split at h2 <;> simp_all
      · simp_all

theorem stage_back (f : Pmc → Pmc × Bool) (x : Pmc × Bool) (hf : (stage f x).1.fault = none)
    (h2 : (stage f x).2 = false) :
    x.1.fault = none ∧ x.2 = false ∧ (f x.1).2 = false ∧ (f x.1).1.fault = none ∧ (stage f x).1 = (f x.1).1 := by
  unfold stage at *
  by_cases hs : x.1.fault.isSome = true
  · simp only [hs, if_true] at hf
    rw [hf] at hs; cases hs
  · simp only [hs] at hf h2 ⊢
    have hn : x.1.fault = none := by
      cases hx : x.1.fault with
      | none => rfl
      | some s => rw [hx] at hs; simp at hs
    simp only [Bool.false_eq_true, if_false, Bool.or_eq_false_iff] at hf h2 ⊢
    exact ⟨hn, h2.2, h2.1, hf, trivial⟩

/-- what a quiet tick tells about the state it started from -/
structure Quiet (q : Pmc) : Prop where
  pull : (sendPull q).2 = false ∧ (sendPull q).1.fault = none
  read : (sendRead q).2 = false
  complete : (sendComplete q).2 = false
  rsp : (sendRsp q).2 = false ∧ (sendRsp q).1.fault = none
  write : (sendWrite q).2 = false
  outside : (fromOutside q).2 = false ∧ (fromOutside q).1.fault = none
  mem : (fromMem q).2 = false ∧ (fromMem q).1.fault = none
  page : (readPage q).2 = false
  data : (dataReadyRsp q).2 = false
  pullRsp : (pullRsp q).2 = false ∧ (pullRsp q).1.fault = none
  done : (writeDone q).2 = false ∧ (writeDone q).1.fault = none

theorem tick_quiet (q : Pmc) (hf : (tick q).1.fault = none) (h2 : (tick q).2 = false) : Quiet q := by
  unfold tick at hf h2
  obtain ⟨a13, b13, c13, d13, e13⟩ := stage_back writeDone _ hf h2
  obtain ⟨a12, b12, c12, d12, e12⟩ := stage_back pullRsp _ a13 b13
  obtain ⟨a11, b11, c11, d11, e11⟩ := stage_back dataReadyRsp _ a12 b12
  obtain ⟨a10, b10, c10, d10, e10⟩ := stage_back readPage _ a11 b11
  obtain ⟨a9, b9, c9, d9, e9⟩ := stage_back startMigration _ a10 b10
  obtain ⟨a8, b8, c8, d8, e8⟩ := stage_back fromMem _ a9 b9
  obtain ⟨a7, b7, c7, d7, e7⟩ := stage_back fromCtrl _ a8 b8
  obtain ⟨a6, b6, c6, d6, e6⟩ := stage_back fromOutside _ a7 b7
  obtain ⟨a5, b5, c5, d5, e5⟩ := stage_back sendWrite _ a6 b6
  obtain ⟨a4, b4, c4, d4, e4⟩ := stage_back sendRsp _ a5 b5
  obtain ⟨a3, b3, c3, d3, e3⟩ := stage_back sendComplete _ a4 b4
  obtain ⟨a2, b2, c2, d2, e2⟩ := stage_back sendRead _ a3 b3
  obtain ⟨a1, b1, c1, d1, e1⟩ := stage_back sendPull _ a2 b2
  simp only at a1 c1 d1 e1
  -- every stage was the identity
  have i1 := (e1.trans (id_sendPull q c1 d1 a1))
  rw [i1] at c2 d2 e2
  have i2 := e2.trans (id_sendRead q c2)
  rw [i2] at c3 d3 e3
  have i3 := e3.trans (id_sendComplete q c3)
  rw [i3] at c4 d4 e4
  have i4 := e4.trans (id_sendRsp q c4 d4 a1)
  rw [i4] at c5 d5 e5
  have i5 := e5.trans (id_sendWrite q c5)
  rw [i5] at c6 d6 e6
  have i6 := e6.trans (id_fromOutside q c6 d6)
  rw [i6] at c7 d7 e7
  have i7 := e7.trans (id_fromCtrl q c7 d7)
  rw [i7] at c8 d8 e8
  have i8 := e8.trans (id_fromMem q c8 d8)
  rw [i8] at c9 d9 e9
  have i9 := e9.trans (id_startMigration q c9)
  rw [i9] at c10 d10 e10
  have i10 := e10.trans (id_readPage q c10)
  rw [i10] at c11 d11 e11
  have i11 := e11.trans (id_dataReadyRsp q c11)
  rw [i11] at c12 d12 e12
  have i12 := e12.trans (id_pullRsp q c12 d12)
  rw [i12] at c13 d13
  exact ⟨⟨c1, d1⟩, c2, c3, ⟨c4, d4⟩, c5, ⟨c6, d6⟩, ⟨c8, d8⟩, c10, c11, ⟨c12, d12⟩, ⟨c13, d13⟩⟩

/-- a controller that can do something by itself -/
def CanTick (q : Pmc) : Prop :=
  (q.remOut = [] ∧ q.toPull ≠ []) ∨ (q.memOut = [] ∧ q.toRead ≠ []) ∨
  (q.toCtrl.isSome = true ∧ q.ctlOut.length < 1) ∨ (q.remOut = [] ∧ q.toRsp ≠ []) ∨
  (q.memOut = [] ∧ q.writeReqs ≠ []) ∨ q.remIn ≠ [] ∨ q.memIn ≠ [] ∨ q.curPull ≠ [] ∨
  q.dataReady ≠ [] ∨ q.recvData ≠ [] ∨ q.wdone.isSome = true

theorem not_isEmpty_of_ne {α : Type} {l : List α} (h : l ≠ []) : ¬ l.isEmpty = true := by
  cases l <;> simp_all

/-- such a controller's tick reports progress (unless it panics) -/
theorem tick_productive (q : Pmc) (hf : (tick q).1.fault = none) (hc : CanTick q) : (tick q).2 = true := by
  cases h2 : (tick q).2 with
  | true => rfl
  | false =>
    exfalso
    have Q := tick_quiet q hf h2
    rcases hc with ⟨h1, h3⟩ | ⟨h1, h3⟩ | ⟨h1, h3⟩ | ⟨h1, h3⟩ | ⟨h1, h3⟩ | h1 | h1 | h1 | h1 | h1 | h1
    · obtain ⟨p1, p2⟩ := Q.pull
      unfold sendPull at p1 p2
      have h0 := not_isEmpty_of_ne h3
      by_cases hany : (q.toPull.any fun r => r.dst == q.self) = true
      · simp [h0, hany] at p2
      · obtain ⟨sent, kept, e1, e2, e3⟩ := sendLoop_spec RMsg.req 1 q.toPull q.remOut
        have := e3 (by simp [h1]) h3
        simp only [h0, hany, e2, Bool.false_eq_true, if_false] at p1
        cases sent with
        | nil => exact this rfl
        | cons x xs => simp [e1] at p1; omega
    · have p1 := Q.read
      unfold sendRead at p1
      have h0 := not_isEmpty_of_ne h3
      obtain ⟨sent, kept, e1, e2, e3⟩ := sendLoop_spec (id : MReq → MReq) 1 q.toRead q.memOut
      have := e3 (by simp [h1]) h3
      simp only [h0, e2, Bool.false_eq_true, if_false] at p1
      cases sent with
      | nil => exact this rfl
      | cons x xs => simp [e1] at p1; omega
    · have p1 := Q.complete
      unfold sendComplete at p1
      obtain ⟨c, hc⟩ := Option.isSome_iff_exists.mp h1
      simp [hc, h3] at p1
    · obtain ⟨p1, p2⟩ := Q.rsp
      unfold sendRsp at p1 p2
      have h0 := not_isEmpty_of_ne h3
      by_cases hany : (q.toRsp.any fun r => r.dst.isNone) = true
      · simp [h0, hany] at p2
      · obtain ⟨sent, kept, e1, e2, e3⟩ := sendLoop_spec RMsg.rsp 1 q.toRsp q.remOut
        have := e3 (by simp [h1]) h3
        simp only [h0, hany, e2, Bool.false_eq_true, if_false] at p1
        cases sent with
        | nil => exact this rfl
        | cons x xs => simp [e1] at p1; omega
    · have p1 := Q.write
      unfold sendWrite at p1
      have h0 := not_isEmpty_of_ne h3
      obtain ⟨sent, kept, e1, e2, e3⟩ := sendLoop_spec (id : MReq → MReq) 1 q.writeReqs q.memOut
      have := e3 (by simp [h1]) h3
      simp only [h0, e2, Bool.false_eq_true, if_false] at p1
      cases sent with
      | nil => exact this rfl
      | cons x xs => simp [e1] at p1; omega
    · obtain ⟨p1, p2⟩ := Q.outside
      unfold fromOutside at p1 p2
      split at p1 <;> simp_all
    · obtain ⟨p1, p2⟩ := Q.mem
      unfold fromMem at p1 p2
      split at p1 <;> simp_all
    · have p1 := Q.page
      unfold readPage at p1
      simp [not_isEmpty_of_ne h1] at p1
    · have p1 := Q.data
      unfold dataReadyRsp at p1
      simp [not_isEmpty_of_ne h1] at p1
    · obtain ⟨p1, p2⟩ := Q.pullRsp
      unfold pullRsp at p1 p2
      simp only [not_isEmpty_of_ne h1, Bool.false_eq_true, if_false] at p1 p2
      rw [p2] at p1; cases p1
    · obtain ⟨p1, p2⟩ := Q.done
      unfold writeDone at p1 p2
      obtain ⟨c, hc⟩ := Option.isSome_iff_exists.mp h1
      simp only [hc] at p1 p2
      split at p1
      · simp_all
      · split at p1
        · split at p1 <;> simp_all
        · simp_all

end C19
