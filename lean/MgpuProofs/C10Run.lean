import MgpuProofs.C10Ops
/-!
Driver-level lemmas for C10: what every allocator operation leaves unchanged (`Frame`), the weak
mirror invariant that holds for **any** number of processes (`MirrorWeak`: the mirror's head entry
for a virtual address carries the physical page of the page-table entry with the same key, if that
entry exists) — enough for `Free`/`RemovePage` to keep the physical invariant — and the
page-table keys each operation produces.
-/
namespace C10

/-! ### weak mirror invariant (any number of processes) -/

-- `MirrorWeak` itself is defined in `C10Lemmas.lean` (the repaired Remap needs it to keep the physical invariant)

theorem MirrorWeak.of_ok {s : State} (h : MirrorOK s) : MirrorWeak s.mirror s.pt := by
  refine ⟨h.2, ?_⟩
  intro v pg hl e he _ hv
  have := h.1 e he
  rw [hv, hl] at this
  simp [agreesB] at this
  exact this.2.symm

theorem MirrorWeak.push_insert {m : List (Nat × Page)} {pt : List Page} {pg : Page} {v : Nat}
    (h : MirrorWeak m pt) (hv : pg.vaddr = v) (hf : ∀ q ∈ pt, ¬ (q.pid = pg.pid ∧ q.vaddr = pg.vaddr)) :
    MirrorWeak ((v, pg) :: m) (pt ++ [pg]) := by
  refine ⟨?_, ?_⟩
  · intro x hx
    rcases List.mem_cons.mp hx with rfl | hx
    · exact hv
    · exact h.1 x hx
  · intro v' pg' hl e he hp hv'
    by_cases hvv : v = v'
    · subst hvv
      rw [lookup_cons_eq] at hl
      injection hl with hl; subst hl
      rcases List.mem_append.mp he with he | he
      · exact absurd ⟨hp, hv'.trans hv.symm⟩ (hf e he)
      · simp at he; rw [he]
    · rw [lookup_cons_ne _ _ _ _ hvv] at hl
      rcases List.mem_append.mp he with he | he
      · exact h.2 v' pg' hl e he hp hv'
      · simp at he; subst he; exact absurd (hv.symm.trans hv') hvv

/-- an entry is rewritten keeping its physical page -/
theorem MirrorWeak.rewrite {m : List (Nat × Page)} {pt : List Page} {pg : Page}
    (h : MirrorWeak m pt) (hp : ∀ e ∈ pt, e.pid = pg.pid → e.vaddr = pg.vaddr → e.paddr = pg.paddr) :
    MirrorWeak m (pt.map (upd pg)) := by
  refine ⟨h.1, ?_⟩
  intro v pg' hl e he hpid hv
  obtain ⟨q, hq, rfl⟩ := List.mem_map.mp he
  rcases upd_cases pg q with ⟨h1, h2, h3⟩ | ⟨h1, _⟩
  · rw [h1] at hpid hv ⊢
    rw [← hp q hq h2 h3]
    exact h.2 v pg' hl q hq (h2.trans hpid) (h3.trans hv)
  · rw [h1] at hpid hv ⊢
    exact h.2 v pg' hl q hq hpid hv

theorem MirrorWeak.filter {m : List (Nat × Page)} {pt : List Page} (f : Page → Bool)
    (h : MirrorWeak m pt) : MirrorWeak m (pt.filter f) :=
  ⟨h.1, fun v pg hl e he => h.2 v pg hl e (List.mem_filter.mp he).1⟩

/-! ### what an allocator operation leaves unchanged -/

structure Frame (s s' : State) : Prop where
  ps : s'.ps = s.ps
  total : s'.total = s.total
  devs : s'.devs = s.devs
  ctxs : s'.ctxs = s.ctxs
  npid : s'.npid = s.npid
  cursors : s'.cursors = s.cursors
  npages : s'.npages = s.npages
  nexts : s'.pool.nexts.length = s.pool.nexts.length

theorem Frame.refl (s : State) : Frame s s := ⟨rfl, rfl, rfl, rfl, rfl, rfl, rfl, rfl⟩

theorem Frame.trans {a b c : State} (h1 : Frame a b) (h2 : Frame b c) : Frame a c :=
  ⟨h2.ps.trans h1.ps, h2.total.trans h1.total, h2.devs.trans h1.devs, h2.ctxs.trans h1.ctxs,
   h2.npid.trans h1.npid, h2.cursors.trans h1.cursors, h2.npages.trans h1.npages, h2.nexts.trans h1.nexts⟩

theorem allocPage_nexts {devs : List Dev} {pool pool' : Pool} {d p : Nat}
    (h : allocPage devs pool d = .ok (p, pool')) : pool'.nexts.length = pool.nexts.length := by
  unfold allocPage at h
  split at h
  · simp at h
  · split at h
    · dsimp only at h
      split at h
      · simp at h
      · split at h
        · simp at h
        · injection h with h
          obtain ⟨_, rfl⟩ := Prod.mk.inj h
          simp
    · split at h
      · simp at h
      · injection h with h
        obtain ⟨_, rfl⟩ := Prod.mk.inj h
        rfl

theorem allocMulti_nexts {devs : List Dev} {pool pool' : Pool} {d n : Nat} {ps : List Nat}
    (h : allocMulti devs pool d n = .ok (ps, pool')) : pool'.nexts.length = pool.nexts.length := by
  unfold allocMulti at h
  split at h
  · simp at h
  · split at h
    · dsimp only at h
      split at h
      · simp at h
      · split at h
        · simp at h
        · split at h
          · simp at h
          · injection h with h
            obtain ⟨_, rfl⟩ := Prod.mk.inj h
            simp
    · split at h
      · simp at h
      · split at h
        · simp at h
        · injection h with h
          obtain ⟨_, rfl⟩ := Prod.mk.inj h
          rfl

/-! ### allocatePages: frame, weak mirror, keys -/

/-- the keys `allocatePages` inserts: `k` consecutive pages of process `π` from `v` -/
def newKeys (π v ps k : Nat) : List (Nat × Nat) := (List.range k).map fun i => (π, v + i * ps)

theorem newKeys_succ (π v ps k : Nat) : newKeys π v ps (k + 1) = (π, v) :: newKeys π (v + ps) ps k := by
  unfold newKeys
  rw [List.range_succ_eq_map, List.map_cons, List.map_map]
  simp only [Nat.zero_mul, Nat.add_zero, List.cons.injEq, true_and]
  apply List.map_congr_left
  intro i _
  simp only [Function.comp, Nat.succ_eq_add_one, Nat.add_mul, Nat.one_mul]
  congr 1
  omega

theorem allocLoop_ext (π d : Nat) (u : Bool) : ∀ (k v : Nat) (s s' : State),
    MirrorWeak s.mirror s.pt → allocLoop π d u k v s = .ok s' →
    MirrorWeak s'.mirror s'.pt ∧ Frame s s' ∧ s'.pt.map key = s.pt.map key ++ newKeys π v s.ps k := by
  intro k
  induction k with
  | zero =>
    intro v s s' hM h
    simp [allocLoop] at h; subst h
    exact ⟨hM, Frame.refl _, by simp [newKeys]⟩
  | succ k ih =>
    intro v s s' hM h
    simp only [allocLoop] at h
    split at h
    · simp at h
    · rename_i p pool' hp
      split at h
      · simp at h
      · rename_i dev hd
        split at h
        · simp at h
        · rename_i pt' hi
          obtain ⟨hfresh, rfl⟩ := ptInsert_ok hi
          have hM1 : MirrorWeak ((v, mkPg π v p dev u) :: s.mirror) (s.pt ++ [mkPg π v p dev u]) :=
            hM.push_insert rfl (fun q hq => ptFind_none hfresh q hq)
          obtain ⟨a, b, c⟩ := ih (v + s.ps) _ s' hM1 h
          refine ⟨a, ?_, ?_⟩
          · exact ⟨b.ps, b.total, b.devs, b.ctxs, b.npid, b.cursors, b.npages,
              b.nexts.trans (allocPage_nexts hp)⟩
          · rw [c, newKeys_succ]
            simp [key]

theorem allocatePages_ext {s s' : State} {n π d v : Nat} {u : Bool}
    (hM : MirrorWeak s.mirror s.pt) (h : allocatePages s n π d u = .ok (v, s')) :
    MirrorWeak s'.mirror s'.pt ∧ s'.ps = s.ps ∧ s'.total = s.total ∧ s'.devs = s.devs ∧ s'.ctxs = s.ctxs ∧
    s'.npid = s.npid ∧ s'.pool.nexts.length = s.pool.nexts.length ∧
    s'.cursors = (π, v + s.ps * n) :: s.cursors ∧ s'.npages = (v, n) :: s.npages ∧
    s'.pt.map key = s.pt.map key ++ newKeys π v s.ps n := by
  unfold allocatePages at h
  dsimp only at h
  split at h
  · simp at h
  · rename_i s1 hl
    injection h with h
    obtain ⟨rfl, rfl⟩ := Prod.mk.inj h
    obtain ⟨a, b, c⟩ := allocLoop_ext π d u _ _ _ _ hM hl
    exact ⟨a, b.ps, b.total, b.devs, b.ctxs, b.npid, b.nexts, by simp [b.cursors], by simp [b.npages], c⟩

/-! ### Remap / AllocatePageWithGivenVAddr / Distribute -/

theorem remapLoop_ext (π : Nat) (u : Bool) : ∀ (vs ps : List Nat) (s s' : State),
    MirrorWeak s.mirror s.pt → remapLoop π u vs ps s = .ok s' →
    MirrorWeak s'.mirror s'.pt ∧ Frame s s' ∧ s'.pt.map key = s.pt.map key ∧ s'.pool.nexts = s.pool.nexts := by
  intro vs
  induction vs with
  | nil => intro ps s s' hM h; simp [remapLoop] at h; subst h; exact ⟨hM, Frame.refl _, rfl, rfl⟩
  | cons v vs ih =>
    intro ps s s' hM h
    cases ps with
    | nil => simp [remapLoop] at h; subst h; exact ⟨hM, Frame.refl _, rfl, rfl⟩
    | cons p ps =>
      simp only [remapLoop] at h
      split at h
      · simp at h
      · rename_i dev hd
        split at h
        · simp at h
        · rename_i pt' hu
          split at h
          · simp at h
          · rename_i s1 hr
            obtain ⟨_, rfl⟩ := ptUpdate_ok hu
            have hM0 : MirrorWeak ((v, mkPg π v p dev u) :: s.mirror) (s.pt.map (upd (mkPg π v p dev u))) :=
              hM.push_update rfl
            rcases releaseReplaced_ok hr with ⟨_, _, _, _, _, rfl⟩ | ⟨_, rfl⟩
            · obtain ⟨a, b, c, e⟩ := ih ps _ s' hM0 h
              exact ⟨a, ⟨b.ps, b.total, b.devs, b.ctxs, b.npid, b.cursors, b.npages, b.nexts⟩,
                by rw [c]; exact map_upd_keys _ _, e⟩
            · obtain ⟨a, b, c, e⟩ := ih ps _ s' hM0 h
              exact ⟨a, ⟨b.ps, b.total, b.devs, b.ctxs, b.npid, b.cursors, b.npages, b.nexts⟩,
                by rw [c]; exact map_upd_keys _ _, e⟩

theorem remap_ext {s s' : State} {π addr bytes d : Nat}
    (hM : MirrorWeak s.mirror s.pt) (h : remap s π addr bytes d = .ok s') :
    MirrorWeak s'.mirror s'.pt ∧ Frame s s' ∧ s'.pt.map key = s.pt.map key := by
  unfold remap at h
  dsimp only at h
  split at h
  · simp at h
  · rename_i ps pool' hm
    obtain ⟨a, b, c, e⟩ := remapLoop_ext π false _ ps { s with pool := pool' } s' hM h
    refine ⟨a, ⟨b.ps, b.total, b.devs, b.ctxs, b.npid, b.cursors, b.npages, ?_⟩, c⟩
    rw [e]; exact allocMulti_nexts hm

theorem remapAll_ext (π : Nat) (ids : List Nat) : ∀ (plan : List (Nat × Nat × Nat)) (s s' : State),
    MirrorWeak s.mirror s.pt → remapAll π ids plan s = .ok s' →
    MirrorWeak s'.mirror s'.pt ∧ Frame s s' ∧ s'.pt.map key = s.pt.map key := by
  intro plan
  induction plan with
  | nil => intro s s' hM h; simp [remapAll] at h; subst h; exact ⟨hM, Frame.refl _, rfl⟩
  | cons r rest ih =>
    intro s s' hM h
    obtain ⟨a, b, i⟩ := r
    simp only [remapAll] at h
    split at h
    · simp at h
    · rename_i s1 h1
      obtain ⟨x, y, z⟩ := remap_ext hM h1
      obtain ⟨x', y', z'⟩ := ih s1 s' x h
      exact ⟨x', y.trans y', z'.trans z⟩

theorem distribute_ext {s s' : State} {π addr bytes : Nat} {ids bs : List Nat}
    (hM : MirrorWeak s.mirror s.pt) (h : distribute s π addr bytes ids = .ok (bs, s')) :
    MirrorWeak s'.mirror s'.pt ∧ Frame s s' ∧ s'.pt.map key = s.pt.map key := by
  unfold distribute at h
  split at h
  · injection h with h; obtain ⟨_, rfl⟩ := Prod.mk.inj h; exact ⟨hM, Frame.refl _, rfl⟩
  · split at h
    · simp at h
    · split at h
      · simp at h
      · split at h
        · simp at h
        · rename_i s1 h1
          injection h with h; obtain ⟨_, rfl⟩ := Prod.mk.inj h
          exact remapAll_ext π ids _ s _ hM h1

theorem allocGiven_ext {s s' : State} {π d v : Nat} {u : Bool} {pg : Page}
    (hM : MirrorWeak s.mirror s.pt) (h : allocGiven s π d v u = .ok (pg, s')) :
    MirrorWeak s'.mirror s'.pt ∧ Frame s s' ∧ s'.pt.map key = s.pt.map key := by
  unfold allocGiven at h
  split at h
  · simp at h
  · rename_i p pool' hp
    split at h
    · simp at h
    · rename_i dev hd
      dsimp only at h
      split at h
      · simp at h
      · rename_i pt' hu
        injection h with h
        obtain ⟨rfl, rfl⟩ := Prod.mk.inj h
        obtain ⟨_, rfl⟩ := ptUpdate_ok hu
        exact ⟨hM.push_update rfl, ⟨rfl, rfl, rfl, rfl, rfl, rfl, rfl, allocPage_nexts hp⟩, map_upd_keys _ _⟩

end C10
