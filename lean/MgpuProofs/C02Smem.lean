import MgpuProofs.C02Lemmas
/-! C02: the SMEM chunk loop covers the loaded range dword by dword; counter invariant. -/
namespace C02

def smemW (reg start : Nat) (m : Nat → Nat) (p : Nat) (i : Nat) : Wr :=
  ⟨0, (0, reg + p + i), le32 m (start + 4 * (p + i))⟩

theorem chunkW_eq (reg start : Nat) (m : Nat → Nat) (p r : Nat) :
    chunkW reg start m (start + 4 * p, 4 * r) = (List.range r).map (smemW reg start m p) := by
  unfold chunkW smemW
  have h1 : 4 * r / 4 = r := by omega
  have h2 : (start + 4 * p - start) / 4 = p := by omega
  simp only [h1, h2]
  apply List.map_congr_left
  intro i _
  have : start + 4 * p + 4 * i = start + 4 * (p + i) := by omega
  rw [this]

theorem range_split (q r : Nat) (h : r ≤ q) (f : Nat → Wr) :
    (List.range q).map f = (List.range r).map f ++ (List.range (q - r)).map (fun i => f (r + i)) := by
  have hq : q = r + (q - r) := by omega
  conv => lhs; rw [hq, List.range_add, List.map_append, List.map_map]
  rfl

theorem chunks_writes (ls reg start : Nat) (m : Nat → Nat) (hls : 0 < ls) (h4 : ls % 4 = 0)
    (hs : start % 4 = 0) : ∀ (fuel p q : Nat), q ≤ fuel →
      (chunks ls fuel (start + 4 * p) (4 * q)).flatMap (chunkW reg start m) =
        (List.range q).map (smemW reg start m p) := by
  intro fuel
  induction fuel with
  | zero =>
    intro p q hq
    have : q = 0 := by omega
    subst this
    simp [chunks]
  | succ fuel ih =>
    intro p q hq
    by_cases hq0 : q = 0
    · subst hq0; simp [chunks]
    · have hne : ¬ (4 * q = 0) := by omega
      rw [chunks, if_neg hne]
      have hx4 : (start + 4 * p) % ls % 4 = 0 := by
        rw [Nat.mod_mod_of_dvd _ (Nat.dvd_of_mod_eq_zero h4)]; omega
      have hxl : (start + 4 * p) % ls < ls := Nat.mod_lt _ hls
      generalize hx : (start + 4 * p) % ls = x at hx4 hxl
      have hc : ∃ r, min (4 * q) (ls - x) = 4 * r ∧ 1 ≤ r ∧ r ≤ q := by
        refine ⟨min (4 * q) (ls - x) / 4, ?_, ?_, ?_⟩ <;> omega
      obtain ⟨r, hr, hr1, hrq⟩ := hc
      simp only [hr, List.flatMap_cons]
      have e1 : start + 4 * p + 4 * r = start + 4 * (p + r) := by omega
      have e2 : 4 * q - 4 * r = 4 * (q - r) := by omega
      rw [e1, e2, ih (p + r) (q - r) (by omega), chunkW_eq, range_split q r hrq]
      congr 1
      apply List.map_congr_left
      intro i _
      unfold smemW
      have a1 : reg + (p + r) + i = reg + p + (r + i) := by omega
      have a2 : p + r + i = p + (r + i) := by omega
      rw [a1, a2]

theorem smemEmuW_eq (reg start n : Nat) (m : Nat → Nat) :
    smemEmuW reg start n m = (List.range (n / 4)).map (smemW reg start m 0) := by
  unfold smemEmuW smemW
  apply List.map_congr_left
  intro i _
  simp

theorem smem_cells_nodup (reg start q : Nat) (m : Nat → Nat) :
    (((List.range q).map (smemW reg start m 0)).map (·.cell)).Nodup := by
  rw [List.map_map]
  have : ((fun x : Wr => x.cell) ∘ smemW reg start m 0) = fun i => (0, reg + 0 + i) := rfl
  rw [this]
  apply List.Pairwise.map _ _ (List.nodup_range (n := q))
  intro a b hab h
  simp only [Prod.mk.injEq, true_and] at h
  omega

/-! counter -/

def lastCount (l : List Txn) : Nat := (l.filter (·.last)).length

def LastOK (l : List Txn) : Prop := l = [] ∨ ∃ pre t, l = pre ++ [t] ∧ t.last = true

def CInv (s : CSt) : Prop := LastOK s.inflight ∧ s.counter = (lastCount s.inflight : Int)

theorem mkTxns_succ (base n : Nat) :
    mkTxns base (n + 1) =
      (List.range n).map (fun i => (⟨base + i, i + 1 == n + 1⟩ : Txn)) ++ [⟨base + n, true⟩] := by
  simp [mkTxns, List.range_succ]

theorem lastCount_mkTxns (base n : Nat) (h : n ≠ 0) : lastCount (mkTxns base n) = 1 := by
  obtain ⟨k, rfl⟩ : ∃ k, n = k + 1 := ⟨n - 1, by omega⟩
  rw [mkTxns_succ, lastCount, List.filter_append]
  have : ((List.range k).map (fun i => (⟨base + i, i + 1 == k + 1⟩ : Txn))).filter (·.last) = [] := by
    rw [List.filter_eq_nil_iff]
    intro t ht
    simp only [List.mem_map, List.mem_range] at ht
    obtain ⟨i, hi, rfl⟩ := ht
    simp
    omega
  rw [this]
  simp

theorem cinv_issue (s : CSt) (n : Nat) (h : CInv s) : CInv (cstep s (.issue n)) := by
  unfold cstep
  by_cases hn : n = 0
  · simp [hn, h]
  · simp only [hn, if_false]
    obtain ⟨k, rfl⟩ : ∃ k, n = k + 1 := ⟨n - 1, by omega⟩
    constructor
    · right
      refine ⟨s.inflight ++ (List.range k).map (fun i => (⟨s.next + i, i + 1 == k + 1⟩ : Txn)),
        ⟨s.next + k, true⟩, ?_, rfl⟩
      simp only [mkTxns_succ, List.append_assoc]
    · have hc := h.2
      have h1 := lastCount_mkTxns s.next (k + 1) (by omega)
      simp only [lastCount, List.filter_append, List.length_append] at *
      omega

theorem cinv_ret_head (s : CSt) (t : Txn) (rest : List Txn) (hi : s.inflight = t :: rest) (h : CInv s) :
    CInv (cstep s (.ret t.id)) := by
  have hrm : removeFirst t.id s.inflight = some (t, rest) := by simp [hi, removeFirst]
  simp only [cstep, hrm]
  obtain ⟨hl, hc⟩ := h
  constructor
  · show LastOK rest
    rcases hl with hl | ⟨pre, u, hpre, hu⟩
    · rw [hi] at hl; cases hl
    · rw [hi] at hpre
      cases pre with
      | nil =>
        simp only [List.nil_append, List.cons.injEq] at hpre
        left; exact hpre.2
      | cons p pre =>
        simp only [List.cons_append, List.cons.injEq] at hpre
        right; exact ⟨pre, u, hpre.2, hu⟩
  · show (if t.last then s.counter - 1 else s.counter) = (lastCount rest : Int)
    rw [hi] at hc
    simp only [lastCount, List.filter_cons] at hc ⊢
    by_cases ht : t.last = true
    · simp only [ht, if_true, List.length_cons] at hc ⊢; omega
    · simp only [ht] at hc ⊢; simpa using hc

theorem cinv_zero (s : CSt) (h : CInv s) (h0 : s.counter = 0) : s.inflight = [] := by
  obtain ⟨hl, hc⟩ := h
  rcases hl with hl | ⟨pre, u, hpre, hu⟩
  · exact hl
  · exfalso
    rw [hpre] at hc
    simp only [lastCount, List.filter_append, List.length_append, List.filter_cons, hu, if_true,
      List.filter_nil, List.length_cons, List.length_nil] at hc
    omega

theorem cinv_run : ∀ (ops : List COp) (s : CSt), CInv s → inOrder ops s → CInv (crun ops s) := by
  intro ops
  induction ops with
  | nil => intro s h _; exact h
  | cons op ops ih =>
    intro s h hio
    cases op with
    | issue n =>
      simp only [inOrder] at hio
      exact ih _ (cinv_issue s n h) hio
    | ret id =>
      simp only [inOrder] at hio
      obtain ⟨⟨t, rest, hi, hid⟩, hrest⟩ := hio
      subst hid
      exact ih _ (cinv_ret_head s t rest hi h) hrest

end C02
