import MgpuProofs.C09Fit1
/-! # C09 — completeness of `withinSGPRLimitation` and `matchWfWithSIMDs` on an empty CU

The fit predicate (`fitsUnits`, `slotsOn`, `slotSum`) is what the Go code computes on a CU without
resident work-groups: regions are laid out first-fit one after the other (`Stair`), SIMDs are tried
round-robin from `nextSIMD`, every SIMD is tried once per wavefront. -/
namespace C09

/-- staircase form of a mask (nothing to say about an unlimited one) -/
def MStair (M : Mask) (a : Nat) : Prop :=
  match M with
  | .unl _ => True
  | .lim m => Stair m a ∧ a ≤ m.length

theorem shape_nextRegion (M : Mask) (len st : Nat) : (M.nextRegion len st).2.shape = M.shape := by
  cases M <;> rfl

theorem shape_setStatus (M : Mask) (off n s : Nat) : (M.setStatus off n s).shape = M.shape := by
  cases M with
  | unl _ => rfl
  | lim m => simp [Mask.setStatus, Mask.shape, length_setStatusL]

theorem shape_convert (M : Mask) (a b : Nat) : (M.convert a b).shape = M.shape := by
  cases M with
  | unl _ => rfl
  | lim m => simp [Mask.convert, Mask.shape, length_convertL]

/-- one search-and-mark step on a staircase mask -/
theorem mstair_step (M : Mask) (a req : Nat) (h : MStair M a) :
    (fitsUnits M.shape (a + req) → ∃ off, M.nextRegion req stFree = (some off, (M.nextRegion req stFree).2) ∧
        MStair ((M.nextRegion req stFree).2.setStatus off req stToRes) (a + req)) ∧
    (¬ fitsUnits M.shape (a + req) → (M.nextRegion req stFree).1 = none) := by
  cases M with
  | unl k =>
    exact ⟨fun _ => ⟨k, rfl, trivial⟩, fun hn => absurd trivial hn⟩
  | lim m =>
    obtain ⟨hs, ha⟩ := h
    obtain ⟨h1, h2⟩ := stair_step m a req hs ha
    constructor
    · intro hf
      have hf' : a + req ≤ m.length := hf
      obtain ⟨off, e, st⟩ := h1 hf'
      refine ⟨off, ?_, ?_⟩
      · show (nextRegionL m req 0, Mask.lim m) = _
        rw [e]; rfl
      · show MStair (Mask.lim (setStatusL m off req 1)) (a + req)
        exact ⟨st, by rw [length_setStatusL]; exact hf'⟩
    · intro hf
      have hf' : m.length < a + req := by
        have : ¬ (a + req ≤ m.length) := hf
        omega
      exact h2 hf'

/-- **`withinSGPRLimitation` on a staircase mask**: `n` regions of `req` units are found iff
    `a + n·req` units fit -/
theorem sgprLoop_stair (req : Nat) : ∀ (n : Nat) (M : Mask) (a : Nat), MStair M a →
    (fitsUnits M.shape (a + n * req) → ∃ offs, (sgprLoop req n M).1 = some offs) ∧
    (¬ fitsUnits M.shape (a + n * req) → (sgprLoop req n M).1 = none) := by
  intro n
  induction n with
  | zero =>
    intro M a h
    refine ⟨fun _ => ⟨[], rfl⟩, fun hn => ?_⟩
    exfalso; apply hn
    cases M with
    | unl _ => trivial
    | lim m => simpa [fitsUnits, Mask.shape] using h.2
  | succ n ih =>
    intro M a h
    obtain ⟨s1, s2⟩ := mstair_step M a req h
    have harith : a + (n + 1) * req = a + req + n * req := by
      rw [Nat.succ_mul]; omega
    constructor
    · intro hf
      have hf1 : fitsUnits M.shape (a + req) := by
        cases M with
        | unl _ => trivial
        | lim m =>
          have : a + (n + 1) * req ≤ m.length := hf
          show a + req ≤ m.length
          rw [harith] at this; omega
      obtain ⟨off, e, st⟩ := s1 hf1
      have hsh : ((M.nextRegion req stFree).2.setStatus off req stToRes).shape = M.shape := by
        rw [shape_setStatus, shape_nextRegion]
      obtain ⟨offs, ho⟩ := (ih _ (a + req) st).1 (by rw [hsh, ← harith]; exact hf)
      refine ⟨off :: offs, ?_⟩
      simp only [sgprLoop]
      rw [e]
      simp only [ho, Option.map_some]
    · intro hf
      by_cases hf1 : fitsUnits M.shape (a + req)
      · obtain ⟨off, e, st⟩ := s1 hf1
        have hsh : ((M.nextRegion req stFree).2.setStatus off req stToRes).shape = M.shape := by
          rw [shape_setStatus, shape_nextRegion]
        have ho := (ih _ (a + req) st).2 (by rw [hsh, ← harith]; exact hf)
        simp only [sgprLoop]
        rw [e]
        simp only [ho, Option.map_none]
      · have e := s2 hf1
        simp only [sgprLoop]
        rcases hx : M.nextRegion req stFree with ⟨r, M'⟩
        rw [hx] at e
        simp only at e
        subst e
        rfl

/-! ## the SIMD matching -/

theorem slotSum_pos (f : Nat → Nat) : ∀ n, 0 < slotSum f n → ∃ k, k < n ∧ 0 < f k := by
  intro n
  induction n with
  | zero => intro h; simp [slotSum] at h
  | succ n ih =>
    intro h
    simp only [slotSum] at h
    by_cases hf : 0 < f n
    · exact ⟨n, by omega, hf⟩
    · obtain ⟨k, hk, hfk⟩ := ih (by omega)
      exact ⟨k, by omega, hfk⟩

theorem slotSum_congr (f g : Nat → Nat) : ∀ n, (∀ i, i < n → g i = f i) → slotSum g n = slotSum f n := by
  intro n
  induction n with
  | zero => intro _; rfl
  | succ n ih =>
    intro h
    simp only [slotSum]
    rw [ih (fun i hi => h i (by omega)), h n (by omega)]

theorem slotSum_dec (f g : Nat → Nat) (k : Nat) : ∀ n, k < n → 0 < f k →
    (∀ i, g i = if i = k then f k - 1 else f i) → slotSum g n + 1 = slotSum f n := by
  intro n
  induction n with
  | zero => intro h; omega
  | succ n ih =>
    intro hk hf hg
    simp only [slotSum]
    by_cases hkn : k = n
    · subst hkn
      have e : slotSum g k = slotSum f k := slotSum_congr f g k (by
        intro i hi; rw [hg i]; have : ¬ i = k := by omega
        simp [this])
      rw [e, hg k]; simp only [if_true]; omega
    · have := ih (by omega) hf hg
      have e : g n = f n := by
        rw [hg n]; have : ¬ n = k := by omega
        simp [this]
      rw [e]; omega

/-- the round-robin successor applied `j` times -/
def orbit (N : Nat) : Nat → Nat → Nat
  | 0, x => x
  | j+1, x => orbit N j (nextSimd N x)

theorem orbit_add (N : Nat) : ∀ a b x, orbit N (a + b) x = orbit N b (orbit N a x) := by
  intro a
  induction a with
  | zero => intro b x; simp [orbit]
  | succ a ih =>
    intro b x
    have : a + 1 + b = (a + b) + 1 := by omega
    rw [this]
    simp only [orbit]
    exact ih b _

theorem orbit_lin (N : Nat) : ∀ j x, x + j < N → orbit N j x = x + j := by
  intro j
  induction j with
  | zero => intro x _; rfl
  | succ j ih =>
    intro x h
    simp only [orbit]
    have : nextSimd N x = x + 1 := by
      unfold nextSimd
      have : ¬ (x + 1 ≥ N) := by omega
      simp [this]
    rw [this, ih (x + 1) (by omega)]; omega

/-- every SIMD is reached from every SIMD within `N` tries -/
theorem orbit_reaches (N x k : Nat) (hx : x < N) (hk : k < N) : ∃ j, j < N ∧ orbit N j x = k := by
  by_cases h : x ≤ k
  · exact ⟨k - x, by omega, by rw [orbit_lin N _ x (by omega)]; omega⟩
  · refine ⟨(N - 1 - x) + (1 + k), by omega, ?_⟩
    rw [orbit_add, orbit_lin N _ x (by omega), orbit_add]
    have e : x + (N - 1 - x) = N - 1 := by omega
    rw [e]
    have w : orbit N 1 (N - 1) = 0 := by
      simp only [orbit]
      unfold nextSimd
      have : N - 1 + 1 ≥ N := by omega
      simp [this]
    rw [w, orbit_lin N k 0 (by omega)]; omega

/-- the state threaded through the matching on a CU whose VGPR masks were all free:
    `w` = free slots per SIMD, `shs` = mask shapes -/
structure ES (w : List Nat) (shs : List (Option Nat)) (req : Nat) (st : MatchSt) : Prop where
  vlen : st.vmasks.length = w.length
  ulen : st.used.length = w.length
  slen : shs.length = w.length
  next : st.next < w.length
  shape : ∀ k (h : k < st.vmasks.length), st.vmasks[k].shape = shs.getD k none
  stair : ∀ k (h : k < st.vmasks.length), MStair st.vmasks[k] (st.used.getD k 0 * req)
  le : ∀ k, k < w.length → st.used.getD k 0 ≤ slotsOn (w.getD k 0) (shs.getD k none) req

/-- SIMD `k` can take one more wavefront -/
def Room (w : List Nat) (shs : List (Option Nat)) (req : Nat) (used : List Nat) (k : Nat) : Prop :=
  used.getD k 0 < slotsOn (w.getD k 0) (shs.getD k none) req

/-- wavefronts that can still be placed -/
def Rem (w : List Nat) (shs : List (Option Nat)) (req : Nat) (used : List Nat) : Nat :=
  slotSum (fun k => slotsOn (w.getD k 0) (shs.getD k none) req - used.getD k 0) w.length

theorem room_iff (cap : Nat) (sh : Option Nat) (req u : Nat) :
    u < slotsOn cap sh req ↔ u < cap ∧ fitsUnits sh (u * req + req) := by
  unfold slotsOn fitsUnits
  cases sh with
  | none => simp
  | some n =>
    simp only
    by_cases hr : req = 0
    · subst hr; simp
    · simp only [hr, if_false]
      have hpos : 0 < req := by omega
      have : u + 1 ≤ n / req ↔ (u + 1) * req ≤ n := Nat.le_div_iff_mul_le hpos
      rw [Nat.succ_mul] at this
      constructor
      · intro h
        have h1 : u < cap := by omega
        have h2 : u + 1 ≤ n / req := by omega
        exact ⟨h1, this.1 h2⟩
      · intro ⟨h1, h2⟩
        have := this.2 h2
        omega

end C09
