import MgpuProofs.C06Mem
import MgpuModel.Gen.LaneBodies
/-! # C06 — helper lemmas for the translated DS / FLAT bodies -/
namespace C06

theorem add_sub_self32 (x y : BitVec 32) : x + y - x = y := by
  rw [BitVec.add_comm, BitVec.add_sub_cancel]

theorem mro_dst_ite (c : Prop) [Decidable c] (a b : MemRawOut) : (if c then a else b).dst = if c then a.dst else b.dst := by split <;> rfl
theorem mro_loads_ite (c : Prop) [Decidable c] (a b : MemRawOut) : (if c then a else b).loads = if c then a.loads else b.loads := by split <;> rfl
theorem mro_stores_ite (c : Prop) [Decidable c] (a b : MemRawOut) : (if c then a else b).stores = if c then a.stores else b.stores := by split <;> rfl
theorem mro_fault_ite (c : Prop) [Decidable c] (a b : MemRawOut) : (if c then a else b).fault = if c then a.fault else b.fault := by split <;> rfl
theorem mro_stage_ite (c : Prop) [Decidable c] (a b : MemRawOut) : (if c then a else b).stage = if c then a.stage else b.stage := by split <;> rfl
theorem length_ite {α} (c : Prop) [Decidable c] (a b : List α) : (if c then a else b).length = if c then a.length else b.length := by split <;> rfl

/-- a load-only / store-only memory body gives a `LoadOrStore` instance of the skeleton -/
theorem loadOrStore_of_mem (h : MemHandler) (hm : MemLoadOrStore h) : LoadOrStore h.toHandler := by
  rcases hm with hl | hs
  · left
    intro ops a
    simp [MemHandler.toHandler, hl]
  · right
    intro ops a m
    simp only [MemHandler.toHandler]
    have e1 := (hs ops.uni
      { i := 0
        addr := (if ops.addrN ≤ 1 then BitVec.ofNat 64 (a.regs ops.addrReg % 4294967296)
                 else BitVec.ofNat 64 (a.regs ops.addrReg % 4294967296 + 4294967296 * (a.regs (ops.addrReg + 1) % 4294967296)))
        data := regBytes a.regs ops.dataReg 4, data1 := regBytes a.regs ops.data1Reg 4
        mem := fun k => BitVec.ofNat 8 (a.mem k)
        stage := List.replicate h.stageLen 0#8 } (fun k => BitVec.ofNat 8 (m k))).2
    simp only at e1
    rw [e1]

end C06
