import MgpuModel.C18_Emu
import MgpuProofs.C18Mem
import MgpuProofs.C01Emu
/-! Helper lemmas for C18 (workload part): the emulator only prepends to its memory, committing the
prepended bytes through `locate` keeps the DRAMs in agreement with the emulator's view, and every loop
of the placed machine (`stepP` … `runEP`) simulates the corresponding loop of `C01.Emu`. -/
namespace C18
open C01.Emu (Mem Program Dispatch Wave)

/-! ## the emulator only prepends to `mem` -/

theorem applyWr_mem (st : C03V.St) (w : C03V.Wr) : ∃ W, (C01.Emu.applyWr st w).mem = W ++ st.mem := by
  unfold C01.Emu.applyWr
  split
  all_goals first | exact ⟨[], rfl⟩ | exact ⟨[(_, _)], rfl⟩

theorem applyWrs_mem (ws : List C03V.Wr) : ∀ st : C03V.St, ∃ W, (C01.Emu.applyWrs st ws).mem = W ++ st.mem := by
  induction ws with
  | nil => intro st; exact ⟨[], rfl⟩
  | cons w ws ih =>
    intro st
    obtain ⟨W1, h1⟩ := applyWr_mem st w
    obtain ⟨W2, h2⟩ := ih (C01.Emu.applyWr st w)
    refine ⟨W2 ++ W1, ?_⟩
    show (C01.Emu.applyWrs (C01.Emu.applyWr st w) ws).mem = _
    rw [h2, h1, List.append_assoc]

theorem execScalar_mem (st st2 : C03V.St) (i : C04.Inst) (h : C01.Emu.execScalar st i = some st2) :
    st2.mem = st.mem := by
  unfold C01.Emu.execScalar at h
  dsimp only at h
  split at h
  · cases h
  · rw [Option.map_eq_some_iff] at h
    obtain ⟨a, _, rfl⟩ := h
    rfl

/-- one instruction changes the memory only by prepending bindings -/
theorem step_mem_grows (P : Program) (base : Nat) (st st' : WSt) (ctl : ECtl)
    (h : C01.Emu.step P base st = .ok (st', ctl)) : ∃ W, st'.mem = W ++ st.mem := by
  unfold C01.Emu.step at h
  split at h
  · cases h
  · dsimp only at h
    split at h
    · cases h
    · cases h
    · split at h
      · cases h; exact ⟨[], rfl⟩
      · split at h
        · cases h; exact ⟨[], rfl⟩
        · split at h
          · split at h
            · cases h
            · rename_i st2 hex
              cases h
              have hm := execScalar_mem _ _ _ hex
              exact ⟨[], hm⟩
          · split at h
            · cases h
            · cases h
              exact applyWrs_mem _ _

/-! ## `newWrites` -/

theorem newWrites_append (W m : Mem) : newWrites m (W ++ m) = W := by
  unfold newWrites
  rw [List.length_append, Nat.add_sub_cancel]
  exact List.take_left' rfl

theorem newWrites_self (m : Mem) : newWrites m m = [] := newWrites_append [] m

/-! ## committing keeps the agreement -/

theorem lookup_cons (a b : Nat) (m : Mem) (x : Nat) :
    C03V.lookup ((a, b) :: m) x = if x = a then b else C03V.lookup m x :=
  C01.Emu.get_cons a b m x

theorem locate_ok_good (c : MemCfg) (pt : PageTable) (hP : 0 < c.P) (hS : 0 < c.S) (hg : GoodPlacement c pt)
    (g v t pa : Nat) (h : locate c pt g v = .ok (t, pa)) : translate c pt v = some pa ∧ t = bank c.S pa := by
  cases hl : pt.lookup (v / c.P) with
  | none =>
    simp only [locate, translate, hl] at h
    cases h
  | some pp =>
    obtain ⟨pa', hpa', hloc⟩ := locate_good c pt hP hS hg g v (by rw [hl]; rfl)
    rw [hloc] at h
    cases h
    exact ⟨hpa', rfl⟩

theorem locate_error_page (c : MemCfg) (pt : PageTable) (hP : 0 < c.P) (hS : 0 < c.S) (hg : GoodPlacement c pt)
    (g v : Nat) (f : MFault) (h : locate c pt g v = .error f) : f = .page := by
  cases hl : pt.lookup (v / c.P) with
  | none =>
    simp only [locate, translate, hl] at h
    cases h
    rfl
  | some pp =>
    obtain ⟨pa', _, hloc⟩ := locate_good c pt hP hS hg g v (by rw [hl]; rfl)
    rw [hloc] at h
    cases h

theorem commit_agree (c : MemCfg) (pt : PageTable) (g : Nat) (hP : 0 < c.P) (hS : 0 < c.S)
    (hg : GoodPlacement c pt) : ∀ (W m : Mem) (d d' : DRAM), Agree c pt m d →
    commit c pt g W d = .ok d' → Agree c pt (W ++ m) d' := by
  intro W
  induction W with
  | nil =>
    intro m d d' ha h
    simp only [commit] at h
    cases h
    exact ha
  | cons w ws ih =>
    intro m d d' ha h
    simp only [commit] at h
    cases hc : commit c pt g ws d with
    | error e => rw [hc] at h; cases h
    | ok d1 =>
      rw [hc] at h
      dsimp only at h
      cases hl : locate c pt g w.1 with
      | error e => rw [hl] at h; cases h
      | ok r =>
        obtain ⟨t, pa⟩ := r
        rw [hl] at h
        cases h
        obtain ⟨htr, rfl⟩ := locate_ok_good c pt hP hS hg g w.1 t pa hl
        have ih' : Sim c pt d1 (C03V.lookup (ws ++ m)) := ih m d d1 ha hc
        have hw := sim_write c pt hP hg d1 (C03V.lookup (ws ++ m)) ih' w.1 pa w.2 htr
        intro v pa' hv
        rw [hw v pa' hv]
        obtain ⟨a, b⟩ := w
        exact (lookup_cons a b (ws ++ m) v).symm

/-- under a good placement routing can only fail on an unmapped page -/
theorem commit_error_page (c : MemCfg) (pt : PageTable) (g : Nat) (hP : 0 < c.P) (hS : 0 < c.S)
    (hg : GoodPlacement c pt) : ∀ (W : Mem) (d : DRAM) (f : MFault),
    commit c pt g W d = .error f → f = .page := by
  intro W
  induction W with
  | nil => intro d f h; simp only [commit] at h; cases h
  | cons w ws ih =>
    intro d f h
    simp only [commit] at h
    cases hc : commit c pt g ws d with
    | error e =>
      rw [hc] at h
      cases h
      exact ih d _ hc
    | ok d1 =>
      rw [hc] at h
      dsimp only at h
      cases hl : locate c pt g w.1 with
      | error e =>
        rw [hl] at h
        cases h
        exact locate_error_page c pt hP hS hg g w.1 _ hl
      | ok r =>
        obtain ⟨t, pa⟩ := r
        rw [hl] at h
        cases h

theorem commit_ok_of_mapped (c : MemCfg) (pt : PageTable) (g : Nat) (hP : 0 < c.P) (hS : 0 < c.S)
    (hg : GoodPlacement c pt) : ∀ (W : Mem) (d : DRAM),
    (∀ w ∈ W, (pt.lookup (w.1 / c.P)).isSome = true) → ∃ d', commit c pt g W d = .ok d' := by
  intro W
  induction W with
  | nil => intro d _; exact ⟨d, rfl⟩
  | cons w ws ih =>
    intro d hm
    obtain ⟨d1, hd1⟩ := ih d (fun w' hw' => hm w' (List.mem_cons_of_mem _ hw'))
    obtain ⟨pa, _, hloc⟩ := locate_good c pt hP hS hg g w.1 (hm w List.mem_cons_self)
    refine ⟨d1.write (bank c.S pa) pa w.2, ?_⟩
    simp only [commit, hd1, hloc]

/-! ## loads -/

theorem flatLoad_eq_map (f : Nat → Nat) (n : Nat) : ∀ v, flatLoad f v n = (List.range n).map fun i => f (v + i) := by
  induction n with
  | zero => intro v; rfl
  | succ n ih =>
    intro v
    rw [flatLoad, ih, List.range_succ_eq_map, List.map_cons, List.map_map]
    congr 1
    apply List.map_congr_left
    intro i _
    show f (v + 1 + i) = f (v + (i + 1))
    rw [Nat.add_assoc, Nat.add_comm 1 i]

/-- every load, from any GPU, returns what the emulator's view holds -/
theorem agree_loads (c : MemCfg) (pt : PageTable) (hP : 0 < c.P) (hS : 0 < c.S) (hg : GoodPlacement c pt)
    (m : Mem) (d : DRAM) (ha : Agree c pt m d) (g v n : Nat)
    (hm : ∀ i, i < n → (pt.lookup ((v + i) / c.P)).isSome = true) :
    loadBytes c pt g d v n = .ok ((List.range n).map fun i => C03V.lookup m (v + i)) := by
  rw [loadBytes_sim c pt hP hS hg g d (C03V.lookup m) ha n v hm, flatLoad_eq_map]

/-! ## simulation: the placed loops against the emulator's loops -/

theorem stepP_sim (c : MemCfg) (pt : PageTable) (g : Nat) (hP : 0 < c.P) (hS : 0 < c.S) (hg : GoodPlacement c pt)
    (P : Program) (base : Nat) (st : WSt) (d : DRAM) (ha : Agree c pt st.mem d) :
    match stepP c pt g P base st d with
    | .ok (st', ctl, d') => C01.Emu.step P base st = .ok (st', ctl) ∧ Agree c pt st'.mem d'
    | .error (.emu e) => C01.Emu.step P base st = .error e
    | .error (.mem f) => f = .page := by
  unfold stepP
  cases hs : C01.Emu.step P base st with
  | error e => exact rfl
  | ok r =>
    obtain ⟨st', ctl⟩ := r
    obtain ⟨W, hW⟩ := step_mem_grows P base st st' ctl hs
    dsimp only
    rw [hW, newWrites_append]
    cases hc : commit c pt g W d with
    | error f => exact commit_error_page c pt g hP hS hg W d f hc
    | ok d' =>
      dsimp only
      refine ⟨rfl, ?_⟩
      rw [hW]
      exact commit_agree c pt g hP hS hg W st.mem d d' ha hc

theorem runWfP_sim (c : MemCfg) (pt : PageTable) (g : Nat) (hP : 0 < c.P) (hS : 0 < c.S) (hg : GoodPlacement c pt)
    (P : Program) (base : Nat) : ∀ (fuel : Nat) (st : WSt) (d : DRAM), Agree c pt st.mem d →
    match runWfP c pt g P base fuel st d with
    | .ok (st', ctl, d') => C01.Emu.runWf P base fuel st = .ok (st', ctl) ∧ Agree c pt st'.mem d'
    | .error (.emu e) => C01.Emu.runWf P base fuel st = .error e
    | .error (.mem f) => f = .page := by
  intro fuel
  induction fuel with
  | zero => intro st d _; exact rfl
  | succ fuel ih =>
    intro st d ha
    have hstep := stepP_sim c pt g hP hS hg P base st d ha
    rw [runWfP, C01.Emu.runWf]
    cases hsp : stepP c pt g P base st d with
    | error e =>
      rw [hsp] at hstep
      cases e with
      | emu e => dsimp only at hstep ⊢; rw [hstep]
      | mem f => exact hstep
    | ok r =>
      obtain ⟨st', ctl, d'⟩ := r
      rw [hsp] at hstep
      dsimp only at hstep
      obtain ⟨h1, h2⟩ := hstep
      rw [h1]
      cases ctl with
      | next => exact ih st' d' h2
      | barrier => exact ⟨rfl, h2⟩
      | endpgm => exact ⟨rfl, h2⟩

theorem runWaveP_sim (c : MemCfg) (pt : PageTable) (g : Nat) (hP : 0 < c.P) (hS : 0 < c.S) (hg : GoodPlacement c pt)
    (P : Program) (base fuel : Nat) (w : Wave) (m l : Mem) (d : DRAM) (ha : Agree c pt m d) :
    match runWaveP c pt g P base fuel w m l d with
    | .ok (w', m', l', d') => C01.Emu.runWave P base fuel w m l = .ok (w', m', l') ∧ Agree c pt m' d'
    | .error (.emu e) => C01.Emu.runWave P base fuel w m l = .error e
    | .error (.mem f) => f = .page := by
  unfold runWaveP C01.Emu.runWave
  cases hc : w.completed with
  | true =>
    simp only [if_true]
    exact ⟨trivial, ha⟩
  | false =>
    simp only [Bool.false_eq_true, if_false]
    have h := runWfP_sim c pt g hP hS hg P base fuel { w.st with mem := m, lds := l } d ha
    cases hr : runWfP c pt g P base fuel { w.st with mem := m, lds := l } d with
    | error e =>
      rw [hr] at h
      cases e with
      | emu e => dsimp only at h ⊢; rw [h]
      | mem f => exact h
    | ok r =>
      obtain ⟨st', ctl, d'⟩ := r
      rw [hr] at h
      dsimp only at h ⊢
      rw [h.1]
      exact ⟨rfl, h.2⟩

theorem passP_sim (c : MemCfg) (pt : PageTable) (g : Nat) (hP : 0 < c.P) (hS : 0 < c.S) (hg : GoodPlacement c pt)
    (P : Program) (base fuel : Nat) : ∀ (ws : List Wave) (m l : Mem) (d : DRAM), Agree c pt m d →
    match passP c pt g P base fuel ws m l d with
    | .ok (ws', m', l', d') => C01.Emu.pass P base fuel ws m l = .ok (ws', m', l') ∧ Agree c pt m' d'
    | .error (.emu e) => C01.Emu.pass P base fuel ws m l = .error e
    | .error (.mem f) => f = .page := by
  intro ws
  induction ws with
  | nil => intro m l d ha; exact ⟨rfl, ha⟩
  | cons w ws ih =>
    intro m l d ha
    have h := runWaveP_sim c pt g hP hS hg P base fuel w m l d ha
    rw [passP, C01.Emu.pass]
    cases hr : runWaveP c pt g P base fuel w m l d with
    | error e =>
      rw [hr] at h
      cases e with
      | emu e => dsimp only at h ⊢; rw [h]
      | mem f => exact h
    | ok r =>
      obtain ⟨w', m', l', d'⟩ := r
      rw [hr] at h
      dsimp only at h ⊢
      rw [h.1]
      dsimp only
      have h2 := ih m' l' d' h.2
      cases hr2 : passP c pt g P base fuel ws m' l' d' with
      | error e =>
        rw [hr2] at h2
        cases e with
        | emu e => dsimp only at h2 ⊢; rw [h2]
        | mem f => exact h2
      | ok r2 =>
        obtain ⟨ws', m'', l'', d''⟩ := r2
        rw [hr2] at h2
        dsimp only at h2 ⊢
        rw [h2.1]
        exact ⟨rfl, h2.2⟩

theorem runWGP_sim (c : MemCfg) (pt : PageTable) (g : Nat) (hP : 0 < c.P) (hS : 0 < c.S) (hg : GoodPlacement c pt)
    (P : Program) (base fuel : Nat) : ∀ (rounds : Nat) (ws : List Wave) (m l : Mem) (d : DRAM), Agree c pt m d →
    match runWGP c pt g P base fuel rounds ws m l d with
    | .ok (m', d') => C01.Emu.runWG P base fuel rounds ws m l = .ok m' ∧ Agree c pt m' d'
    | .error (.emu e) => C01.Emu.runWG P base fuel rounds ws m l = .error e
    | .error (.mem f) => f = .page := by
  intro rounds
  induction rounds with
  | zero => intro ws m l d _; exact rfl
  | succ rounds ih =>
    intro ws m l d ha
    rw [runWGP, C01.Emu.runWG]
    cases h0 : C01.Emu.allDone ws with
    | true =>
      simp only [if_true]
      exact ⟨trivial, ha⟩
    | false =>
      simp only [Bool.false_eq_true, if_false]
      have h := passP_sim c pt g hP hS hg P base fuel ws m l d ha
      cases hr : passP c pt g P base fuel ws m l d with
      | error e =>
        rw [hr] at h
        cases e with
        | emu e => dsimp only at h ⊢; rw [h]
        | mem f => exact h
      | ok r =>
        obtain ⟨ws', m', l', d'⟩ := r
        rw [hr] at h
        dsimp only at h ⊢
        rw [h.1]
        dsimp only
        cases h1 : C01.Emu.allDone ws' with
        | true =>
          simp only [if_true]
          exact ⟨trivial, h.2⟩
        | false =>
          simp only [Bool.false_eq_true, if_false]
          cases h2 : (ws'.any fun w => !w.completed && !w.atBarrier) with
          | true => simp only [if_true]
          | false =>
            simp only [Bool.false_eq_true, if_false]
            exact ih _ m' l' d' h.2

/-- the emulator's loop over the work-groups, as a function of the list -/
def flatWGs (P : Program) (D : Dispatch) (fuel : Nat) (wgs : List C08.WG) (m : Mem) : Except String Mem :=
  wgs.foldlM (fun m wg => C01.Emu.runWG P D.kernelObject fuel fuel (C01.Emu.wavesOf D wg) m []) m

theorem flatWGs_nil (P : Program) (D : Dispatch) (fuel : Nat) (m : Mem) : flatWGs P D fuel [] m = .ok m := rfl

theorem flatWGs_cons (P : Program) (D : Dispatch) (fuel : Nat) (wg : C08.WG) (rest : List C08.WG) (m : Mem) :
    flatWGs P D fuel (wg :: rest) m =
      match C01.Emu.runWG P D.kernelObject fuel fuel (C01.Emu.wavesOf D wg) m [] with
      | .error e => .error e
      | .ok m' => flatWGs P D fuel rest m' := by
  unfold flatWGs
  rw [List.foldlM_cons]
  cases C01.Emu.runWG P D.kernelObject fuel fuel (C01.Emu.wavesOf D wg) m [] <;> rfl

theorem runE_eq_flatWGs (P : Program) (D : Dispatch) (fuel : Nat) (m : Mem) :
    C01.Emu.runE P D fuel m = flatWGs P D fuel (C01.Emu.wgList D.geo) (launchMem D m) := rfl

theorem runWGsP_sim (c : MemCfg) (pt : PageTable) (gOf : Nat → Nat) (hP : 0 < c.P) (hS : 0 < c.S)
    (hg : GoodPlacement c pt) (P : Program) (D : Dispatch) (fuel : Nat) :
    ∀ (wgs : List C08.WG) (i : Nat) (m : Mem) (d : DRAM), Agree c pt m d →
    match runWGsP c pt gOf P D fuel wgs i m d with
    | .ok (m', d') => flatWGs P D fuel wgs m = .ok m' ∧ Agree c pt m' d'
    | .error (.emu e) => flatWGs P D fuel wgs m = .error e
    | .error (.mem f) => f = .page := by
  intro wgs
  induction wgs with
  | nil => intro i m d ha; exact ⟨rfl, ha⟩
  | cons wg rest ih =>
    intro i m d ha
    rw [runWGsP, flatWGs_cons]
    have h := runWGP_sim c pt (gOf i) hP hS hg P D.kernelObject fuel fuel (C01.Emu.wavesOf D wg) m [] d ha
    cases hr : runWGP c pt (gOf i) P D.kernelObject fuel fuel (C01.Emu.wavesOf D wg) m [] d with
    | error e =>
      rw [hr] at h
      cases e with
      | emu e => dsimp only at h ⊢; rw [h]
      | mem f => exact h
    | ok r =>
      obtain ⟨m', d'⟩ := r
      rw [hr] at h
      dsimp only at h ⊢
      rw [h.1]
      exact ih (i + 1) m' d' h.2

theorem install_eq (a : Nat) (bs : List Nat) (m : Mem) :
    C01.Emu.install a bs m = (bs.zipIdx.map fun p => (a + p.2, p.1)) ++ m := rfl

/-- the bindings of the driver's two launch copies (newest first) -/
def launchWrites (D : Dispatch) : Mem :=
  (D.packet.zipIdx.map fun p => (D.packetAddr + p.2, p.1)) ++ (D.kernarg.zipIdx.map fun p => (D.kernargAddr + p.2, p.1))

theorem launchMem_eq (D : Dispatch) (m : Mem) : launchMem D m = launchWrites D ++ m := by
  unfold launchMem launchWrites
  rw [install_eq, install_eq, List.append_assoc]

theorem runEP_sim (c : MemCfg) (pt : PageTable) (g0 : Nat) (gOf : Nat → Nat) (hP : 0 < c.P) (hS : 0 < c.S)
    (hg : GoodPlacement c pt) (P : Program) (D : Dispatch) (fuel : Nat) (m : Mem) (d : DRAM)
    (ha : Agree c pt m d) :
    match runEP c pt g0 gOf P D fuel m d with
    | .ok (m', d') => C01.Emu.runE P D fuel m = .ok m' ∧ Agree c pt m' d'
    | .error (.emu e) => C01.Emu.runE P D fuel m = .error e
    | .error (.mem f) => f = .page := by
  unfold runEP
  rw [runE_eq_flatWGs]
  rw [show newWrites m (launchMem D m) = launchWrites D by rw [launchMem_eq]; exact newWrites_append _ _]
  cases hc : commit c pt g0 (launchWrites D) d with
  | error f => exact commit_error_page c pt g0 hP hS hg _ d f hc
  | ok d0 =>
    dsimp only
    have ha0 : Agree c pt (launchMem D m) d0 := by
      rw [launchMem_eq]
      exact commit_agree c pt g0 hP hS hg _ m d d0 ha hc
    exact runWGsP_sim c pt gOf hP hS hg P D fuel (C01.Emu.wgList D.geo) 0 (launchMem D m) d0 ha0

/-! ## every flat loop only prepends -/

/-- `m'` is `m` with bindings prepended -/
def Ext (m m' : Mem) : Prop := ∃ W, m' = W ++ m

theorem Ext.refl (m : Mem) : Ext m m := ⟨[], rfl⟩

theorem Ext.trans {m m1 m2 : Mem} (h1 : Ext m m1) (h2 : Ext m1 m2) : Ext m m2 := by
  obtain ⟨W1, rfl⟩ := h1
  obtain ⟨W2, rfl⟩ := h2
  exact ⟨W2 ++ W1, (List.append_assoc _ _ _).symm⟩

theorem step_ext (P : Program) (base : Nat) (st st' : WSt) (ctl : ECtl)
    (h : C01.Emu.step P base st = .ok (st', ctl)) : Ext st.mem st'.mem := step_mem_grows P base st st' ctl h

theorem runWf_grows (P : Program) (base : Nat) : ∀ (fuel : Nat) (st st' : WSt) (ctl : ECtl),
    C01.Emu.runWf P base fuel st = .ok (st', ctl) → Ext st.mem st'.mem := by
  intro fuel
  induction fuel with
  | zero => intro st st' ctl h; cases h
  | succ fuel ih =>
    intro st st' ctl h
    rw [C01.Emu.runWf] at h
    cases hs : C01.Emu.step P base st with
    | error e => rw [hs] at h; cases h
    | ok r =>
      obtain ⟨st1, c1⟩ := r
      rw [hs] at h
      have e1 := step_ext P base st st1 c1 hs
      cases c1 with
      | next => exact e1.trans (ih st1 st' ctl h)
      | barrier => cases h; exact e1
      | endpgm => cases h; exact e1

theorem runWave_grows (P : Program) (base fuel : Nat) (w w' : Wave) (m l m' l' : Mem)
    (h : C01.Emu.runWave P base fuel w m l = .ok (w', m', l')) : Ext m m' := by
  unfold C01.Emu.runWave at h
  cases hc : w.completed with
  | true =>
    rw [hc] at h
    simp only [if_true] at h
    cases h
    exact Ext.refl m
  | false =>
    rw [hc] at h
    simp only [Bool.false_eq_true, if_false] at h
    cases hr : C01.Emu.runWf P base fuel { w.st with mem := m, lds := l } with
    | error e => rw [hr] at h; cases h
    | ok r =>
      obtain ⟨st', ctl⟩ := r
      rw [hr] at h
      cases h
      exact runWf_grows P base fuel _ st' ctl hr

theorem pass_grows (P : Program) (base fuel : Nat) : ∀ (ws ws' : List Wave) (m l m' l' : Mem),
    C01.Emu.pass P base fuel ws m l = .ok (ws', m', l') → Ext m m' := by
  intro ws
  induction ws with
  | nil => intro ws' m l m' l' h; cases h; exact Ext.refl m
  | cons w ws ih =>
    intro ws' m l m' l' h
    rw [C01.Emu.pass] at h
    cases hr : C01.Emu.runWave P base fuel w m l with
    | error e => rw [hr] at h; cases h
    | ok r =>
      obtain ⟨w1, m1, l1⟩ := r
      rw [hr] at h
      dsimp only at h
      cases hr2 : C01.Emu.pass P base fuel ws m1 l1 with
      | error e => rw [hr2] at h; cases h
      | ok r2 =>
        obtain ⟨ws2, m2, l2⟩ := r2
        rw [hr2] at h
        cases h
        exact (runWave_grows P base fuel w w1 m l m1 l1 hr).trans (ih ws2 m1 l1 m' l' hr2)

theorem runWG_grows (P : Program) (base fuel : Nat) : ∀ (rounds : Nat) (ws : List Wave) (m l m' : Mem),
    C01.Emu.runWG P base fuel rounds ws m l = .ok m' → Ext m m' := by
  intro rounds
  induction rounds with
  | zero => intro ws m l m' h; cases h
  | succ rounds ih =>
    intro ws m l m' h
    rw [C01.Emu.runWG] at h
    cases h0 : C01.Emu.allDone ws with
    | true =>
      rw [h0] at h
      simp only [if_true] at h
      cases h
      exact Ext.refl m
    | false =>
      rw [h0] at h
      simp only [Bool.false_eq_true, if_false] at h
      cases hr : C01.Emu.pass P base fuel ws m l with
      | error e => rw [hr] at h; cases h
      | ok r =>
        obtain ⟨ws1, m1, l1⟩ := r
        rw [hr] at h
        dsimp only at h
        have e1 := pass_grows P base fuel ws ws1 m l m1 l1 hr
        cases h1 : C01.Emu.allDone ws1 with
        | true =>
          rw [h1] at h
          simp only [if_true] at h
          cases h
          exact e1
        | false =>
          rw [h1] at h
          simp only [Bool.false_eq_true, if_false] at h
          cases h2 : (ws1.any fun w => !w.completed && !w.atBarrier) with
          | true => rw [h2] at h; simp only [if_true] at h; cases h
          | false =>
            rw [h2] at h
            simp only [Bool.false_eq_true, if_false] at h
            exact e1.trans (ih _ m1 l1 m' h)

theorem flatWGs_grows (P : Program) (D : Dispatch) (fuel : Nat) : ∀ (wgs : List C08.WG) (m m' : Mem),
    flatWGs P D fuel wgs m = .ok m' → Ext m m' := by
  intro wgs
  induction wgs with
  | nil => intro m m' h; cases h; exact Ext.refl m
  | cons wg rest ih =>
    intro m m' h
    rw [flatWGs_cons] at h
    cases hr : C01.Emu.runWG P D.kernelObject fuel fuel (C01.Emu.wavesOf D wg) m [] with
    | error e => rw [hr] at h; cases h
    | ok m1 =>
      rw [hr] at h
      exact (runWG_grows P D.kernelObject fuel fuel _ m [] m1 hr).trans (ih m1 m' h)

theorem launchMem_ext (D : Dispatch) (m : Mem) : Ext m (launchMem D m) := ⟨_, launchMem_eq D m⟩

/-- a flat run returns its initial memory with bindings prepended -/
theorem runE_grows (P : Program) (D : Dispatch) (fuel : Nat) (m m' : Mem)
    (h : C01.Emu.runE P D fuel m = .ok m') : Ext m m' :=
  (launchMem_ext D m).trans (flatWGs_grows P D fuel _ _ m' (by rw [← runE_eq_flatWGs]; exact h))

/-! ## the converse: a flat run that writes mapped addresses only runs on placed memory -/

/-- every binding prepended between `m` and `m'` is to an address of a mapped page -/
def WritesMapped (c : MemCfg) (pt : PageTable) (m m' : Mem) : Prop :=
  ∀ w ∈ newWrites m m', (pt.lookup (w.1 / c.P)).isSome = true

theorem writesMapped_self (c : MemCfg) (pt : PageTable) (m : Mem) : WritesMapped c pt m m := by
  intro w hw
  rw [newWrites_self] at hw
  cases hw

/-- the writes of a part of a run are a contiguous part of the writes of the whole -/
theorem writesMapped_split (c : MemCfg) (pt : PageTable) {m m1 m2 : Mem} (h1 : Ext m m1) (h2 : Ext m1 m2)
    (h : WritesMapped c pt m m2) : WritesMapped c pt m m1 ∧ WritesMapped c pt m1 m2 := by
  obtain ⟨W1, rfl⟩ := h1
  obtain ⟨W2, rfl⟩ := h2
  unfold WritesMapped at *
  have e : newWrites m (W2 ++ (W1 ++ m)) = W2 ++ W1 := by
    rw [← List.append_assoc]; exact newWrites_append _ _
  rw [e] at h
  rw [newWrites_append, newWrites_append]
  exact ⟨fun w hw => h w (List.mem_append_right _ hw), fun w hw => h w (List.mem_append_left _ hw)⟩

theorem stepP_total (c : MemCfg) (pt : PageTable) (g : Nat) (hP : 0 < c.P) (hS : 0 < c.S) (hg : GoodPlacement c pt)
    (P : Program) (base : Nat) (st st' : WSt) (ctl : ECtl) (h : C01.Emu.step P base st = .ok (st', ctl))
    (hm : WritesMapped c pt st.mem st'.mem) (d : DRAM) :
    ∃ d', stepP c pt g P base st d = .ok (st', ctl, d') := by
  obtain ⟨d', hd'⟩ := commit_ok_of_mapped c pt g hP hS hg (newWrites st.mem st'.mem) d hm
  exact ⟨d', by unfold stepP; rw [h]; dsimp only; rw [hd']⟩

theorem runWfP_total (c : MemCfg) (pt : PageTable) (g : Nat) (hP : 0 < c.P) (hS : 0 < c.S) (hg : GoodPlacement c pt)
    (P : Program) (base : Nat) : ∀ (fuel : Nat) (st st' : WSt) (ctl : ECtl) (d : DRAM),
    C01.Emu.runWf P base fuel st = .ok (st', ctl) → WritesMapped c pt st.mem st'.mem →
    ∃ d', runWfP c pt g P base fuel st d = .ok (st', ctl, d') := by
  intro fuel
  induction fuel with
  | zero => intro st st' ctl d h; cases h
  | succ fuel ih =>
    intro st st' ctl d h hm
    rw [C01.Emu.runWf] at h
    cases hs : C01.Emu.step P base st with
    | error e => rw [hs] at h; cases h
    | ok r =>
      obtain ⟨st1, c1⟩ := r
      rw [hs] at h
      have e1 := step_ext P base st st1 c1 hs
      cases c1 with
      | next =>
        dsimp only at h
        obtain ⟨hm1, hm2⟩ := writesMapped_split c pt e1 (runWf_grows P base fuel st1 st' ctl h) hm
        obtain ⟨d1, hd1⟩ := stepP_total c pt g hP hS hg P base st st1 .next hs hm1 d
        obtain ⟨d', hd'⟩ := ih st1 st' ctl d1 h hm2
        exact ⟨d', by rw [runWfP, hd1]; exact hd'⟩
      | barrier =>
        cases h
        obtain ⟨d1, hd1⟩ := stepP_total c pt g hP hS hg P base st st' .barrier hs hm d
        exact ⟨d1, by rw [runWfP, hd1]⟩
      | endpgm =>
        cases h
        obtain ⟨d1, hd1⟩ := stepP_total c pt g hP hS hg P base st st' .endpgm hs hm d
        exact ⟨d1, by rw [runWfP, hd1]⟩

theorem runWaveP_total (c : MemCfg) (pt : PageTable) (g : Nat) (hP : 0 < c.P) (hS : 0 < c.S) (hg : GoodPlacement c pt)
    (P : Program) (base fuel : Nat) (w w' : Wave) (m l m' l' : Mem) (d : DRAM)
    (h : C01.Emu.runWave P base fuel w m l = .ok (w', m', l')) (hm : WritesMapped c pt m m') :
    ∃ d', runWaveP c pt g P base fuel w m l d = .ok (w', m', l', d') := by
  unfold C01.Emu.runWave at h
  unfold runWaveP
  cases hc : w.completed with
  | true =>
    rw [hc] at h
    simp only [if_true] at h ⊢
    cases h
    exact ⟨d, rfl⟩
  | false =>
    rw [hc] at h
    simp only [Bool.false_eq_true, if_false] at h ⊢
    cases hr : C01.Emu.runWf P base fuel { w.st with mem := m, lds := l } with
    | error e => rw [hr] at h; cases h
    | ok r =>
      obtain ⟨st', ctl⟩ := r
      rw [hr] at h
      cases h
      obtain ⟨d', hd'⟩ := runWfP_total c pt g hP hS hg P base fuel _ st' ctl d hr hm
      exact ⟨d', by rw [hd']⟩

theorem passP_total (c : MemCfg) (pt : PageTable) (g : Nat) (hP : 0 < c.P) (hS : 0 < c.S) (hg : GoodPlacement c pt)
    (P : Program) (base fuel : Nat) : ∀ (ws ws' : List Wave) (m l m' l' : Mem) (d : DRAM),
    C01.Emu.pass P base fuel ws m l = .ok (ws', m', l') → WritesMapped c pt m m' →
    ∃ d', passP c pt g P base fuel ws m l d = .ok (ws', m', l', d') := by
  intro ws
  induction ws with
  | nil => intro ws' m l m' l' d h _; cases h; exact ⟨d, rfl⟩
  | cons w ws ih =>
    intro ws' m l m' l' d h hm
    rw [C01.Emu.pass] at h
    cases hr : C01.Emu.runWave P base fuel w m l with
    | error e => rw [hr] at h; cases h
    | ok r =>
      obtain ⟨w1, m1, l1⟩ := r
      rw [hr] at h
      dsimp only at h
      cases hr2 : C01.Emu.pass P base fuel ws m1 l1 with
      | error e => rw [hr2] at h; cases h
      | ok r2 =>
        obtain ⟨ws2, m2, l2⟩ := r2
        rw [hr2] at h
        cases h
        obtain ⟨hm1, hm2⟩ := writesMapped_split c pt (runWave_grows P base fuel w w1 m l m1 l1 hr)
          (pass_grows P base fuel ws ws2 m1 l1 m' l' hr2) hm
        obtain ⟨d1, hd1⟩ := runWaveP_total c pt g hP hS hg P base fuel w w1 m l m1 l1 d hr hm1
        obtain ⟨d2, hd2⟩ := ih ws2 m1 l1 m' l' d1 hr2 hm2
        exact ⟨d2, by rw [passP, hd1]; dsimp only; rw [hd2]⟩

theorem runWGP_total (c : MemCfg) (pt : PageTable) (g : Nat) (hP : 0 < c.P) (hS : 0 < c.S) (hg : GoodPlacement c pt)
    (P : Program) (base fuel : Nat) : ∀ (rounds : Nat) (ws : List Wave) (m l m' : Mem) (d : DRAM),
    C01.Emu.runWG P base fuel rounds ws m l = .ok m' → WritesMapped c pt m m' →
    ∃ d', runWGP c pt g P base fuel rounds ws m l d = .ok (m', d') := by
  intro rounds
  induction rounds with
  | zero => intro ws m l m' d h; cases h
  | succ rounds ih =>
    intro ws m l m' d h hm
    rw [C01.Emu.runWG] at h
    rw [runWGP]
    cases h0 : C01.Emu.allDone ws with
    | true =>
      rw [h0] at h
      simp only [if_true] at h ⊢
      cases h
      exact ⟨d, rfl⟩
    | false =>
      rw [h0] at h
      simp only [Bool.false_eq_true, if_false] at h ⊢
      cases hr : C01.Emu.pass P base fuel ws m l with
      | error e => rw [hr] at h; cases h
      | ok r =>
        obtain ⟨ws1, m1, l1⟩ := r
        rw [hr] at h
        dsimp only at h
        have e1 := pass_grows P base fuel ws ws1 m l m1 l1 hr
        cases h1 : C01.Emu.allDone ws1 with
        | true =>
          rw [h1] at h
          simp only [if_true] at h
          cases h
          obtain ⟨d1, hd1⟩ := passP_total c pt g hP hS hg P base fuel ws ws1 m l m' l1 d hr hm
          refine ⟨d1, ?_⟩
          rw [hd1]
          dsimp only
          rw [h1]
          rfl
        | false =>
          rw [h1] at h
          simp only [Bool.false_eq_true, if_false] at h
          cases h2 : (ws1.any fun w => !w.completed && !w.atBarrier) with
          | true => rw [h2] at h; simp only [if_true] at h; cases h
          | false =>
            rw [h2] at h
            simp only [Bool.false_eq_true, if_false] at h
            obtain ⟨hm1, hm2⟩ := writesMapped_split c pt e1 (runWG_grows P base fuel rounds _ m1 l1 m' h) hm
            obtain ⟨d1, hd1⟩ := passP_total c pt g hP hS hg P base fuel ws ws1 m l m1 l1 d hr hm1
            obtain ⟨d2, hd2⟩ := ih _ m1 l1 m' d1 h hm2
            refine ⟨d2, ?_⟩
            rw [hd1]
            dsimp only
            rw [h1, h2]
            simp only [Bool.false_eq_true, if_false]
            exact hd2

theorem runWGsP_total (c : MemCfg) (pt : PageTable) (gOf : Nat → Nat) (hP : 0 < c.P) (hS : 0 < c.S)
    (hg : GoodPlacement c pt) (P : Program) (D : Dispatch) (fuel : Nat) :
    ∀ (wgs : List C08.WG) (i : Nat) (m m' : Mem) (d : DRAM),
    flatWGs P D fuel wgs m = .ok m' → WritesMapped c pt m m' →
    ∃ d', runWGsP c pt gOf P D fuel wgs i m d = .ok (m', d') := by
  intro wgs
  induction wgs with
  | nil => intro i m m' d h _; cases h; exact ⟨d, rfl⟩
  | cons wg rest ih =>
    intro i m m' d h hm
    rw [flatWGs_cons] at h
    cases hr : C01.Emu.runWG P D.kernelObject fuel fuel (C01.Emu.wavesOf D wg) m [] with
    | error e => rw [hr] at h; cases h
    | ok m1 =>
      rw [hr] at h
      dsimp only at h
      obtain ⟨hm1, hm2⟩ := writesMapped_split c pt (runWG_grows P D.kernelObject fuel fuel _ m [] m1 hr)
        (flatWGs_grows P D fuel rest m1 m' h) hm
      obtain ⟨d1, hd1⟩ := runWGP_total c pt (gOf i) hP hS hg P D.kernelObject fuel fuel _ m [] m1 d hr hm1
      obtain ⟨d2, hd2⟩ := ih (i + 1) m1 m' d1 h hm2
      exact ⟨d2, by rw [runWGsP, hd1]; exact hd2⟩

/-- a flat run that ends well and writes mapped addresses only also ends well on placed memory, with
    the same view -/
theorem runEP_total (c : MemCfg) (pt : PageTable) (g0 : Nat) (gOf : Nat → Nat) (hP : 0 < c.P) (hS : 0 < c.S)
    (hg : GoodPlacement c pt) (P : Program) (D : Dispatch) (fuel : Nat) (m m' : Mem) (d : DRAM)
    (h : C01.Emu.runE P D fuel m = .ok m') (hm : WritesMapped c pt m m') :
    ∃ d', runEP c pt g0 gOf P D fuel m d = .ok (m', d') := by
  rw [runE_eq_flatWGs] at h
  obtain ⟨hm1, hm2⟩ := writesMapped_split c pt (launchMem_ext D m) (flatWGs_grows P D fuel _ _ m' h) hm
  obtain ⟨d0, hd0⟩ := commit_ok_of_mapped c pt g0 hP hS hg (newWrites m (launchMem D m)) d hm1
  obtain ⟨d', hd'⟩ := runWGsP_total c pt gOf hP hS hg P D fuel (C01.Emu.wgList D.geo) 0 (launchMem D m) m' d0 h hm2
  exact ⟨d', by unfold runEP; rw [hd0]; exact hd'⟩

end C18
