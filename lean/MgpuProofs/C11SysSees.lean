import MgpuProofs.C11SysRound
/-! # C11 helper: what the application sees through the caches is preserved by write-backs -/
namespace C11

/-- the newest dirty byte for `a`, else memory -/
def viewOf (dirty : List (Nat × Nat × Nat)) (mem : SMem) (a : Nat) : Nat :=
  match dirty.find? (fun e => e.2.1 == a) with
  | some e => e.2.2
  | none => mem.get a

theorem Sys.view_eq (s : Sys) (a : Nat) : s.view a = viewOf s.dirty s.mem a := rfl

theorem foldl_prepend_reverse {α β} (f : α → β) : ∀ (l : List α) (m0 : List β),
    l.reverse.foldl (fun m e => f e :: m) m0 = l.map f ++ m0
  | [], _ => rfl
  | x :: xs, m0 => by
    rw [List.reverse_cons, List.foldl_append]
    simp [foldl_prepend_reverse f xs m0]

/-- all dirty bytes for address `a` sit in one cache -/
def Coherent (dirty : List (Nat × Nat × Nat)) (a : Nat) : Prop :=
  ∀ e1 ∈ dirty, ∀ e2 ∈ dirty, e1.2.1 = a → e2.2.1 = a → e1.1 = e2.1

theorem viewOf_cons_hit {e : Nat × Nat × Nat} {rest : List (Nat × Nat × Nat)} {mem : SMem} {a : Nat}
    (ha : e.2.1 = a) : viewOf (e :: rest) mem a = e.2.2 := by
  unfold viewOf
  rw [List.find?_cons_of_pos (by simp [ha])]

theorem viewOf_cons_miss {e : Nat × Nat × Nat} {rest : List (Nat × Nat × Nat)} {mem : SMem} {a : Nat}
    (ha : ¬ e.2.1 = a) : viewOf (e :: rest) mem a = viewOf rest mem a := by
  unfold viewOf
  rw [List.find?_cons_of_neg (by simp [ha])]

theorem viewOf_writeBack_aux (i a : Nat) (mem : SMem) : ∀ (dirty : List (Nat × Nat × Nat)), Coherent dirty a →
    viewOf (dirty.filter (·.1 != i)) ((dirty.filter (·.1 == i)).map (fun e => (e.2.1, e.2.2)) ++ mem) a =
      viewOf dirty mem a
  | [], _ => rfl
  | e :: rest, hco => by
    have hco' : Coherent rest a := fun e1 h1 e2 h2 => hco e1 (List.mem_cons_of_mem _ h1) e2 (List.mem_cons_of_mem _ h2)
    have ih := viewOf_writeBack_aux i a mem rest hco'
    by_cases hi : e.1 = i
    · have hf1 : (e :: rest).filter (·.1 != i) = rest.filter (·.1 != i) :=
        List.filter_cons_of_neg (by simp [hi])
      have hf2 : (e :: rest).filter (·.1 == i) = e :: rest.filter (·.1 == i) :=
        List.filter_cons_of_pos (by simp [hi])
      rw [hf1, hf2, List.map_cons, List.cons_append]
      by_cases ha : e.2.1 = a
      · rw [viewOf_cons_hit ha]
        have hnone : (rest.filter (·.1 != i)).find? (fun x => x.2.1 == a) = none := by
          rw [List.find?_eq_none]
          intro x hx
          obtain ⟨hxr, hxi⟩ := List.mem_filter.1 hx
          intro hxa
          have := hco e (List.mem_cons_self ..) x (List.mem_cons_of_mem _ hxr) ha (by simpa using hxa)
          rw [← this, hi] at hxi; simp at hxi
        unfold viewOf
        rw [hnone]
        simp only [SMem.get_cons, ha, if_true]
      · rw [viewOf_cons_miss ha, ← ih]
        unfold viewOf
        simp only [SMem.get_cons, ha, if_false]
    · have hf1 : (e :: rest).filter (·.1 != i) = e :: rest.filter (·.1 != i) :=
        List.filter_cons_of_pos (by simp [hi])
      have hf2 : (e :: rest).filter (·.1 == i) = rest.filter (·.1 == i) :=
        List.filter_cons_of_neg (by simp [hi])
      rw [hf1, hf2]
      by_cases ha : e.2.1 = a
      · rw [viewOf_cons_hit ha, viewOf_cons_hit ha]
      · rw [viewOf_cons_miss ha, viewOf_cons_miss ha, ih]

/-- **a write-back does not change what the application sees** at an address whose dirty bytes sit in
    one cache -/
theorem Sys.writeBack_view (s : Sys) (i a : Nat) (hco : Coherent s.dirty a) : (s.writeBack i).view a = s.view a := by
  rw [Sys.view_eq, Sys.view_eq]
  simp only [Sys.writeBack]
  rw [foldl_prepend_reverse]
  exact viewOf_writeBack_aux i a s.mem s.dirty hco

/-- moves other than the memory's, a cache acknowledgement and a kernel write leave memory and dirty data alone -/
theorem Sys.step_mem_dirty_frame (s : Sys) (op : SysOp) (h1 : ∀ j, op ≠ .memDo j) (h2 : ∀ j, op ≠ .cacheAck j)
    (h3 : ∀ i a v, op ≠ .kwrite i a v) : (s.step op).1.mem = s.mem ∧ (s.step op).1.dirty = s.dirty := by
  cases op with
  | memDo j => exact absurd rfl (h1 j)
  | cacheAck j => exact absurd rfl (h2 j)
  | kwrite i a v => exact absurd rfl (h3 i a v)
  | _ =>
    simp only [Sys.step]
    repeat' (first
      | exact trivial
      | rfl
      | constructor
      | split)

def SysOp.isKwrite : SysOp → Bool
  | .kwrite .. => true
  | _ => false

/-- without kernel writes the dirty data only shrinks -/
theorem Sys.step_dirty_sub (s : Sys) (op : SysOp) (hk : op.isKwrite = false) :
    ∀ e ∈ (s.step op).1.dirty, e ∈ s.dirty := by
  cases op with
  | kwrite i a v => cases hk
  | cacheAck j =>
    simp only [Sys.step]
    repeat' (first
      | exact fun e he => he
      | exact fun e he => (List.mem_filter.1 he).1
      | split)
  | _ =>
    simp only [Sys.step]
    repeat' (first
      | exact fun e he => he
      | split)

/-- one move (not a kernel write) whose write, if any, does not touch `a` preserves the view at `a` -/
theorem Sys.step_view (s : Sys) (op : SysOp) (a : Nat) (hk : op.isKwrite = false) (hco : Coherent s.dirty a)
    (hnw : ∀ t, MemEv.tx t ∈ (s.step op).1.hist.drop s.hist.length → t.write = true →
      ¬ (t.addr ≤ a ∧ a < t.addr + t.bytes.length)) :
    (s.step op).1.view a = s.view a := by
  by_cases hdo : ∃ j, op = .memDo j
  · obtain ⟨j, rfl⟩ := hdo
    revert hnw
    simp only [Sys.step]
    split
    · intro _; rfl
    · split
      · intro _; rfl
      · split
        · intro _; rfl
        · rename_i r hr
          split
          · intro _; rfl
          · rename_i p hp
            split
            · intro hnw
              have := hnw ⟨r.id, true, r.addr, r.len, (p.cmd.data.drop (p.off + (r.addr - p.pa))).take r.len, r.owner⟩
                (by simp) rfl
              simp only at this
              rw [Sys.view_eq, Sys.view_eq]
              simp only [viewOf]
              rw [SMem.write_get, if_neg this]
            · intro _; rfl
  by_cases hack : ∃ j, op = .cacheAck j
  · obtain ⟨j, rfl⟩ := hack
    simp only [Sys.step]
    split
    · rfl
    · split
      · rfl
      · exact s.writeBack_view _ a hco
  · have hkw : ∀ i a v, op ≠ .kwrite i a v := by
      intro i a v h; rw [h] at hk; cases hk
    obtain ⟨e1, e2⟩ := s.step_mem_dirty_frame op (fun j hj => hdo ⟨j, hj⟩) (fun j hj => hack ⟨j, hj⟩) hkw
    rw [Sys.view_eq, Sys.view_eq, e1, e2]

/-! ## a copy that follows a flush sees what was dirty -/

/-- the page piece belongs to a command that was enqueued after `s0` and is preceded by a flush -/
def PostFlush (s0 : Sys) (p : Piece) : Prop := p.cmd.flush = true ∧ s0.cmdOf p.cmd.q p.seq = none

/-- no write transaction performed from history position `n0` on touches an address of `A` -/
def NoWriteAfter (h : List MemEv) (n0 : Nat) (A : Nat → Prop) : Prop :=
  ∀ k t, n0 ≤ k → h[k]? = some (.tx t) → t.write = true → ∀ a, A a → ¬ (t.addr ≤ a ∧ a < t.addr + t.bytes.length)

theorem NoWriteAfter.prefix {h l : List MemEv} {n0 : Nat} {A : Nat → Prop} (hn : NoWriteAfter (h ++ l) n0 A) :
    NoWriteAfter h n0 A := fun k t hk hg => hn k t hk (getElem?_append_some hg l)

/-- what holds of a state `s` reached from `s0` without kernel writes: dirty data only shrinks, what
    the application sees at the addresses of `A` is unchanged, and a read of a copy that follows a
    flush observes exactly that -/
structure Sys.Sees (s0 s : Sys) (A : Nat → Prop) : Prop where
  grows : s0.Grows s
  sub : ∀ e ∈ s.dirty, e ∈ s0.dirty
  view : NoWriteAfter s.hist s0.hist.length A → ∀ a, A a → s.view a = s0.view a
  rd : NoWriteAfter s.hist s0.hist.length A → ∀ k u rq p, s0.hist.length ≤ k → s.hist[k]? = some (.tx u) →
    u.write = false → s.reqOfDma u.owner = some rq → s.pieceOf rq = some p → PostFlush s0 p →
    ∀ j x, u.bytes[j]? = some x → A (u.addr + j) → x = s0.view (u.addr + j)

theorem Sys.Sees.refl (s0 : Sys) (A : Nat → Prop) : s0.Sees s0 A :=
  ⟨Sys.Grows.refl s0, fun e h => h, fun _ a _ => rfl, fun _ k u rq p hk hg => by
    rw [List.getElem?_eq_none (by omega)] at hg; cases hg⟩

theorem coherent_sub {d d' : List (Nat × Nat × Nat)} {a : Nat} (h : Coherent d a) (hs : ∀ e ∈ d', e ∈ d) :
    Coherent d' a := fun e1 h1 e2 h2 => h e1 (hs e1 h1) e2 (hs e2 h2)

/-- a transaction that enters the history in a move was performed on the memory as it was before the
    move, and its links to a driver request and page piece exist already -/
theorem Sys.step_new_tx (s : Sys) (op : SysOp) : ∀ u, MemEv.tx u ∈ (s.step op).1.hist.drop s.hist.length →
    (u.write = false → u.bytes = s.mem.read u.addr u.len) ∧
    ∃ (rq : MqReq) (p : Piece), s.reqOfDma u.owner = some rq ∧ s.pieceOf rq = some p := by
  intro u hu
  by_cases hdo : ∃ j, op = .memDo j
  · obtain ⟨j, rfl⟩ := hdo
    revert hu
    simp only [Sys.step]
    split
    · intro hu; simp at hu
    · split
      · intro hu; simp at hu
      · split
        · intro hu; simp at hu
        · rename_i r hr
          split
          · intro hu; simp at hu
          · rename_i p hp
            obtain ⟨rq, hrq, hpc⟩ := Option.bind_eq_some_iff.1 hp
            split
            · intro hu
              simp only [List.drop_left, List.mem_singleton, MemEv.tx.injEq] at hu
              subst hu
              exact ⟨fun hw => by simp at hw, rq, p, hrq, hpc⟩
            · intro hu
              simp only [List.drop_left, List.mem_singleton, MemEv.tx.injEq] at hu
              subst hu
              exact ⟨fun _ => rfl, rq, p, hrq, hpc⟩
  by_cases hack : ∃ j, op = .cacheAck j
  · obtain ⟨j, rfl⟩ := hack
    revert hu
    simp only [Sys.step]
    split
    · intro hu; simp at hu
    · split
      · intro hu; simp at hu
      · intro hu
        simp only [Sys.writeBack, List.drop_left, List.mem_map] at hu
        obtain ⟨e, _, he⟩ := hu
        cases he
  · obtain ⟨_, e2, _⟩ := s.step_hist_frame op (fun j hj => hdo ⟨j, hj⟩) (fun j hj => hack ⟨j, hj⟩)
    rw [e2] at hu; simp at hu

theorem Sys.Sees.step {s0 s : Sys} {A : Nat → Prop} (h : s0.Sees s A) (hd : s.DataInv) (hh : s.HistInv)
    (hA : ∀ a, A a → Coherent s0.dirty a) (op : SysOp) (hk : op.isKwrite = false)
    (hclean : ∀ d rq p, s.reqOfDma d = some rq → s.pieceOf rq = some p → PostFlush s0 p → s.dirty = []) :
    s0.Sees (s.step op).1 A := by
  obtain ⟨lh, hlh⟩ := s.step_hist_grows op
  have hg' : s.Grows (s.step op).1 := s.step_grows op
  have hsub' : ∀ e ∈ (s.step op).1.dirty, e ∈ s0.dirty := fun e he => h.sub e (s.step_dirty_sub op hk e he)
  obtain ⟨l0, hl0⟩ := h.grows.hist
  have hlen : s0.hist.length ≤ s.hist.length := by rw [hl0]; simp
  refine ⟨h.grows.trans hg', hsub', ?_, ?_⟩
  · intro hnw a ha
    have hnw0 : NoWriteAfter s.hist s0.hist.length A := by rw [hlh] at hnw; exact hnw.prefix
    rw [← h.view hnw0 a ha]
    apply s.step_view op a hk (coherent_sub (hA a ha) h.sub)
    intro t ht hw
    obtain ⟨i, hi⟩ := List.mem_iff_getElem?.1 ht
    rw [List.getElem?_drop] at hi
    exact hnw (s.hist.length + i) t (by omega) hi hw a ha
  · intro hnw k u rq p hk0 hg hw hr hp hpf j x hx hAj
    have hnw0 : NoWriteAfter s.hist s0.hist.length A := by rw [hlh] at hnw; exact hnw.prefix
    by_cases hlt : k < s.hist.length
    · -- an earlier read: its links were already there
      have hg0 : s.hist[k]? = some (.tx u) := by rw [hlh, List.getElem?_append_left hlt] at hg; exact hg
      have hum : u ∈ s.mlog := by
        rw [← hh.log]; exact List.mem_filterMap.2 ⟨.tx u, List.mem_of_getElem? hg0, rfl⟩
      obtain ⟨rq0, p0, a1, a2, _, _⟩ := hd.data u hum
      have e1 : rq0 = rq := Option.some.inj ((hg'.reqOfDma a1).symm.trans hr)
      subst e1
      have e2 : p0 = p := Option.some.inj ((hg'.pieceOf a2).symm.trans hp)
      subst e2
      exact h.rd hnw0 k u rq0 p0 hk0 hg0 hw a1 a2 hpf j x hx hAj
    · -- the read performed in this move: the caches are clean, so it reads what the application saw
      have hin : MemEv.tx u ∈ (s.step op).1.hist.drop s.hist.length := by
        rw [List.mem_iff_getElem?]
        exact ⟨k - s.hist.length, by rw [List.getElem?_drop]; rw [← hg]; congr 1; omega⟩
      obtain ⟨hb, rq0, p0, a1, a2⟩ := s.step_new_tx op u hin
      have e1 : rq0 = rq := Option.some.inj ((hg'.reqOfDma a1).symm.trans hr)
      subst e1
      have e2 : p0 = p := Option.some.inj ((hg'.pieceOf a2).symm.trans hp)
      subst e2
      have hdirty := hclean u.owner rq0 p0 a1 a2 hpf
      rw [hb hw] at hx
      obtain ⟨_, hxe⟩ := SMem.read_getElem? _ _ _ _ _ hx
      rw [hxe, ← h.view hnw0 _ hAj, Sys.view_eq, hdirty]
      rfl

theorem Sys.Sees.run {s0 : Sys} {A : Nat → Prop} (hA : ∀ a, A a → Coherent s0.dirty a)
    (P : Sys → Prop) (hP : ∀ s op, op.isKwrite = false → P s → P (s.step op).1)
    (hPd : ∀ s, P s → s.DataInv ∧ s.HistInv)
    (hclean : ∀ s, P s → s0.Sees s A → ∀ d rq p, s.reqOfDma d = some rq → s.pieceOf rq = some p → PostFlush s0 p →
      s.dirty = []) :
    ∀ (ops : List SysOp) (s : Sys), P s → s0.Sees s A → (∀ op ∈ ops, op.isKwrite = false) → s0.Sees (s.run ops) A
  | [], _, _, h, _ => h
  | op :: rest, s, hp, h, hk =>
    Sys.Sees.run hA P hP hPd hclean rest _ (hP s op (hk op (List.mem_cons_self ..)) hp)
      (h.step (hPd s hp).1 (hPd s hp).2 hA op (hk op (List.mem_cons_self ..)) (hclean s hp h))
      (fun o ho => hk o (List.mem_cons_of_mem _ ho))

end C11
