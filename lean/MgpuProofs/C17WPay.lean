import MgpuProofs.C17WDefs
import MgpuProofs.C17Pay
/-! C17, every pipeline width: memory semantics at commit points, what the responses carry and "one response each" for the
model of the repaired component (`WState`, `runW`), from the invariant `InvW` (C17WDefs.lean; proved for every reachable
state in C17WInv.lean — taken as a hypothesis here). The payload invariant `PayW` needs no order invariant at all. -/
namespace C17

/-! ## consequences of `InvW` -/

/-- every committed request is an arrived one -/
theorem logW_sub_arrived (c : Cfg) (s : WState) (h : InvW c s) : ∀ r ∈ s.log, r ∈ s.arrived := by
  intro r hr
  have hi := h.i (bankOf c r.addr)
  have : r ∈ s.arrived.filter (inB c (bankOf c r.addr)) := by
    rw [← hi]; simp [hr, inB]
  exact (List.mem_filter.1 this).1

theorem payW_arrived_nodup (c : Cfg) (s : WState) (h : InvW c s) : s.arrived.Nodup := nodup_of_ids _ h.ids

private theorem nodup_of_bank_filters (c : Cfg) : ∀ (l : List Req), (∀ k, (l.filter (inB c k)).Nodup) → l.Nodup := by
  intro l
  induction l with
  | nil => intro _; exact List.nodup_nil
  | cons a t ih =>
    intro hh
    rw [List.nodup_cons]
    constructor
    · intro hm
      have := hh (bankOf c a.addr)
      simp only [List.filter_cons, inB, beq_self_eq_true, if_true, List.nodup_cons] at this
      exact this.1 (List.mem_filter.2 ⟨hm, by simp [inB]⟩)
    · apply ih
      intro k
      have := hh k
      simp only [List.filter_cons] at this
      split at this
      · exact (List.nodup_cons.1 this).2
      · exact this

theorem logW_nodup (c : Cfg) (s : WState) (h : InvW c s) : s.log.Nodup := by
  have hnd := payW_arrived_nodup c s h
  apply nodup_of_bank_filters c
  intro k
  have : (s.arrived.filter (inB c k)).Nodup := hnd.filter _
  rw [← h.i k, List.nodup_append] at this
  have h2 := List.pairwise_reverse.1 this.1
  exact h2.imp (fun hab => Ne.symm hab)

/-- the request that commits next in bank `k` (head of `uncW`) sees flat arrival-order memory on every byte all of whose
accessors are routed to bank `k` -/
theorem headW_sees_flat_routed (c : Cfg) (s : WState) (h : InvW c s) (k : Nat) (r : Req) (rest : List Req)
    (hh : uncW c s k = r :: rest) (x : Nat)
    (hq : ∀ r' ∈ s.arrived, touches x r' = true → bankOf c r'.addr = k) :
    readByte s.log x = readByte (s.arrived.take r.id).reverse x := by
  have hi := h.i k
  unfold IW at hi
  rw [hh] at hi
  exact flat_of_prefix c s.arrived s.log k r rest h.ids hi (logW_sub_arrived c s h) x
    (fun r' hr' ht' => by simp [inB, hq r' hr' ht'])

theorem headW_sees_flat (c : Cfg) (hc : ConvOk c) (s : WState) (h : InvW c s) (hfit : ∀ r ∈ s.arrived, fits c r)
    (k : Nat) (r : Req) (rest : List Req) (hh : uncW c s k = r :: rest) (x : Nat) (ht : touches x r = true) :
    readByte s.log x = readByte (s.arrived.take r.id).reverse x := by
  have hi := h.i k
  unfold IW at hi
  rw [hh] at hi
  have hrm : r ∈ s.arrived.filter (inB c k) := by rw [← hi]; simp
  have hra := (List.mem_filter.1 hrm).1
  have hrq : inB c k r = true := (List.mem_filter.1 hrm).2
  have hk : bankOf c x = k := by
    rw [← bank_of_touch c hc r x (hfit r hra) ht]; simpa [inB] using hrq
  apply headW_sees_flat_routed c s h k r rest hh x
  intro r' hr' ht'
  rw [bank_of_touch c hc r' x (hfit r' hr') ht', hk]

/-- from "carries what lay below its commit" to "carries flat arrival-order memory": per byte, under per-byte routing -/
theorem carriedW_byte_flat (c : Cfg) (s : WState) (h : InvW c s) (r : Req) (newer older : List Req)
    (hlog : s.log = newer ++ r :: older) (x : Nat)
    (hq : ∀ r' ∈ s.arrived, touches x r' = true → bankOf c r'.addr = bankOf c r.addr) :
    readByte older x = readByte (s.arrived.take r.id).reverse x := by
  have hi := h.i (bankOf c r.addr)
  unfold IW at hi
  have hin : inB c (bankOf c r.addr) r = true := by simp [inB]
  rw [hlog] at hi
  simp only [List.filter_append, List.filter_cons, hin, if_true, List.reverse_append, List.reverse_cons,
    List.append_assoc, List.singleton_append] at hi
  refine flat_of_prefix c s.arrived older (bankOf c r.addr) r _ h.ids hi ?_ x
    (fun r' hr' ht' => by simp [inB, hq r' hr' ht'])
  intro r' hr'
  exact logW_sub_arrived c s h r' (by rw [hlog]; simp [hr'])

/-- one response each, given the invariant -/
theorem one_response_each_W (c : Cfg) (s : WState) (h : InvW c s) :
    (s.resp.map (·.req)).Nodup ∧ (∀ rsp ∈ s.resp, rsp.req ∈ s.arrived) ∧
    ((∀ k, chainW c s k = []) → ∀ r ∈ s.arrived, r ∈ s.resp.map (·.req)) := by
  have hnd := payW_arrived_nodup c s h
  refine ⟨?_, ?_, ?_⟩
  · apply nodup_of_bank_filters c
    intro k
    have hr := h.r k
    have : (s.arrived.filter (inB c k)).Nodup := hnd.filter _
    rw [← hr, List.nodup_append] at this
    exact this.1
  · intro rsp hrsp
    have hr := h.r (bankOf c rsp.req.addr)
    have : rsp.req ∈ s.arrived.filter (inB c (bankOf c rsp.req.addr)) := by
      rw [← hr]
      apply List.mem_append_left
      exact List.mem_filter.2 ⟨List.mem_map.2 ⟨rsp, hrsp, rfl⟩, by simp [inB]⟩
    exact (List.mem_filter.1 this).1
  · intro hempty r hr
    have hrk := h.r (bankOf c r.addr)
    unfold RW at hrk
    rw [hempty] at hrk
    have : r ∈ s.arrived.filter (inB c (bankOf c r.addr)) := List.mem_filter.2 ⟨hr, by simp [inB]⟩
    rw [← hrk] at this
    simp only [List.append_nil] at this
    exact (List.mem_filter.1 this).1

/-! ## arrivals are only added by `deliverW` -/

theorem payW_finalizeAt_arrived (c : Cfg) (s : WState) (k : Nat) (pg : Bool) : (finalizeAtW c s k pg).st.arrived = s.arrived := by
  unfold finalizeAtW; split <;> rfl

theorem payW_finalizeFrom_arrived (c : Cfg) : ∀ (ks : List Nat) (s : WState) (pg : Bool),
    (finalizeFromW c ks s pg).st.arrived = s.arrived := by
  intro ks
  induction ks with
  | nil => intro s pg; rfl
  | cons k ks ih =>
    intro s pg
    simp only [finalizeFromW]
    split
    · exact payW_finalizeAt_arrived c s k pg
    · rw [ih, payW_finalizeAt_arrived]

theorem payW_tick_arrived (c : Cfg) (s : WState) : (tickW c s).arrived = s.arrived := by
  unfold tickW
  simp only
  split
  · exact payW_finalizeFrom_arrived c _ s false
  · split
    · show (finalizeW c s).st.arrived = s.arrived
      exact payW_finalizeFrom_arrived c _ s false
    · show (finalizeW c s).st.arrived = s.arrived
      exact payW_finalizeFrom_arrived c _ s false

theorem runW_fits (c : Cfg) (ops : List Op) (hops : ∀ op ∈ ops, opFits c op) :
    ∀ r ∈ (runW c ops).arrived, fits c r := by
  unfold runW
  have : ∀ (ops : List Op) (s : WState), (∀ op ∈ ops, opFits c op) → (∀ r ∈ s.arrived, fits c r) →
      ∀ r ∈ (ops.foldl (stepW c) s).arrived, fits c r := by
    intro ops
    induction ops with
    | nil => intro s _ h; exact h
    | cons o os ih =>
      intro s ho h
      apply ih _ (fun op hop => ho op (by simp [hop]))
      cases o with
      | deliver k a l d m =>
        have hf := ho (.deliver k a l d m) (by simp)
        simp only [stepW, deliverW]
        split
        · intro r hr
          simp only [List.mem_append, List.mem_singleton] at hr
          rcases hr with hr | rfl
          · exact h r hr
          · simpa [opFits, fits, Req.size] using hf
        · exact h
      | tick => simp only [stepW, payW_tick_arrived]; exact h
      | out k => exact h
  exact this ops _ hops (by simp [initW])

/-! ## the payload invariant -/

/-- the items of one bank are fine w.r.t. a log -/
def BankPayW (log : List Req) (b : WBank) : Prop :=
  (∀ it ∈ wItems b, ItemOk log it) ∧ (∀ p ∈ b.dq, ItemOk log p.1)

theorem BankPayW.grow {log : List Req} {b : WBank} (h : BankPayW log b) (n : List Req) : BankPayW (n ++ log) b :=
  ⟨fun it hit => (h.1 it hit).grow n, fun p hp => (h.2 p hp).grow n⟩

/-- a bank whose items are old ones or fine ones, with the same delay queue -/
theorem BankPayW.of_sub {log : List Req} {b b' : WBank} (h : BankPayW log b)
    (hs : ∀ it ∈ wItems b', it ∈ wItems b ∨ ItemOk log it) (hd : b'.dq = b.dq) : BankPayW log b' :=
  ⟨fun it hit => (hs it hit).elim (h.1 it) id, fun p hp => h.2 p (hd ▸ hp)⟩

/-- payload invariant of the second model -/
structure PayW (c : Cfg) (s : WState) : Prop where
  rsp : ∀ x ∈ s.resp, Carries s.log x.req x.data
  itm : ∀ b ∈ s.banks, (∀ it ∈ wItems b, ItemOk s.log it) ∧ (∀ p ∈ b.dq, ItemOk s.log p.1)

/-! ### pipeline tick -/

theorem payW_tickLanes_mem (c : Cfg) : ∀ (ls : List Lane) (post : List Item) (it : Item),
    it ∈ (tickLanes c post ls).1 ++ (tickLanes c post ls).2.flatMap laneItems → it ∈ post ++ ls.flatMap laneItems := by
  intro ls
  induction ls with
  | nil => intro post it h; simpa [tickLanes] using h
  | cons l ls ih =>
    intro post it h
    have hl := tickLane_items c post l
    simp only [tickLanes, List.flatMap_cons, List.mem_append] at h ⊢
    have key : it ∈ (tickLane c post l).1 ++ laneItems (tickLane c post l).2 → it ∈ post ∨ it ∈ laneItems l := by
      rw [hl]; exact List.mem_append.1
    rcases h with h | h | h
    · rcases List.mem_append.1 (ih _ it (List.mem_append.2 (Or.inl h))) with h | h
      · rcases key (List.mem_append.2 (Or.inl h)) with h | h
        · exact Or.inl h
        · exact Or.inr (Or.inl h)
      · exact Or.inr (Or.inr h)
    · rcases key (List.mem_append.2 (Or.inr h)) with h | h
      · exact Or.inl h
      · exact Or.inr (Or.inl h)
    · rcases List.mem_append.1 (ih _ it (List.mem_append.2 (Or.inr h))) with h | h
      · rcases key (List.mem_append.2 (Or.inl h)) with h | h
        · exact Or.inl h
        · exact Or.inr (Or.inl h)
      · exact Or.inr (Or.inr h)

theorem tickBankPipeW_pay (c : Cfg) (log : List Req) (b : WBank) (h : BankPayW log b) : BankPayW log (tickBankPipeW c b) := by
  refine h.of_sub ?_ rfl
  intro it hit
  left
  simp only [wItems, tickBankPipeW, List.mem_append] at hit ⊢
  rcases hit with (hit | hit) | hit
  · exact Or.inl (List.mem_append.1 (payW_tickLanes_mem c b.lanes b.post it (List.mem_append.2 (Or.inl hit))))
  · exact Or.inl (List.mem_append.1 (payW_tickLanes_mem c b.lanes b.post it (List.mem_append.2 (Or.inr hit))))
  · exact Or.inr hit

/-! ### accept, delay queue, dispatch -/

theorem payW_acceptLanes_mem (x : Item × Nat) : ∀ (lanes lanes' : List Lane), acceptLanes x lanes = some lanes' →
    ∀ it ∈ lanes'.flatMap laneItems, it = x.1 ∨ it ∈ lanes.flatMap laneItems := by
  intro lanes
  induction lanes with
  | nil => intro _ h; simp [acceptLanes] at h
  | cons l ls ih =>
    intro lanes' h it hit
    simp only [acceptLanes] at h
    cases ha : acceptLane x l with
    | some l' =>
      rw [ha] at h
      simp only [Option.some.injEq] at h
      subst h
      simp only [List.flatMap_cons, List.mem_append, acceptLane_items x l l' ha, List.mem_singleton] at hit ⊢
      rcases hit with (hit | hit) | hit
      · exact Or.inr (Or.inl hit)
      · exact Or.inl hit
      · exact Or.inr (Or.inr hit)
    | none =>
      rw [ha] at h
      simp only [Option.map_eq_some_iff] at h
      obtain ⟨l2, h2, rfl⟩ := h
      simp only [List.flatMap_cons, List.mem_append] at hit ⊢
      rcases hit with hit | hit
      · exact Or.inr (Or.inl hit)
      · rcases ih l2 h2 it hit with e | e
        · exact Or.inl e
        · exact Or.inr (Or.inr e)

theorem payW_accW_mem (c : Cfg) (it : Item) (b b' : WBank) (h : accW c it b = some b') :
    (∀ x ∈ wItems b', x = it ∨ x ∈ wItems b) ∧ b'.dq = b.dq := by
  unfold accW at h
  split at h
  · cases ha : acceptLanes (it, c.lat - 1) b.lanes with
    | none => rw [ha] at h; cases h
    | some lanes' =>
      rw [ha] at h
      simp only [Option.some.injEq] at h
      subst h
      refine ⟨?_, rfl⟩
      intro x hx
      simp only [wItems, List.mem_append] at hx ⊢
      rcases hx with (hx | hx) | hx
      · exact Or.inr (Or.inl (Or.inl hx))
      · rcases payW_acceptLanes_mem _ _ _ ha x hx with rfl | hx
        · exact Or.inl rfl
        · exact Or.inr (Or.inl (Or.inr hx))
      · exact Or.inr (Or.inr hx)
  · cases h

theorem accW_pay (c : Cfg) (log : List Req) (it : Item) (b b' : WBank) (h : accW c it b = some b')
    (hb : BankPayW log b) (hi : ItemOk log it) : BankPayW log b' := by
  obtain ⟨h1, h2⟩ := payW_accW_mem c it b b' h
  refine hb.of_sub ?_ h2
  intro x hx
  rcases h1 x hx with rfl | hx
  · exact Or.inr hi
  · exact Or.inl hx

theorem delayGoW_pay (c : Cfg) (log : List Req) : ∀ (dq : List (Item × Nat)) (b : WBank) (rem : List (Item × Nat)),
    (∀ it ∈ wItems b, ItemOk log it) → (∀ p ∈ dq, ItemOk log p.1) → (∀ p ∈ rem, ItemOk log p.1) →
    (∀ it ∈ wItems (delayGoW c dq b rem).1, ItemOk log it) ∧ (∀ p ∈ (delayGoW c dq b rem).2, ItemOk log p.1) := by
  intro dq
  induction dq with
  | nil => intro b rem hb _ hr; exact ⟨hb, hr⟩
  | cons d rest ih =>
    intro b rem hb hd hr
    obtain ⟨it, n⟩ := d
    have hit : ItemOk log it := hd (it, n) (by simp)
    have hrest : ∀ p ∈ rest, ItemOk log p.1 := fun p hp => hd p (by simp [hp])
    have hrem' : ∀ p ∈ rem ++ [(it, n - 1)], ItemOk log p.1 := by
      intro p hp
      simp only [List.mem_append, List.mem_singleton] at hp
      rcases hp with hp | rfl
      · exact hr p hp
      · exact hit
    simp only [delayGoW]
    split
    · cases ha : accW c it b with
      | none => exact ih b _ hb hrest hrem'
      | some b' =>
        have hb' : ∀ x ∈ wItems b', ItemOk log x := by
          intro x hx
          rcases (payW_accW_mem c it b b' ha).1 x hx with rfl | hx
          · exact hit
          · exact hb x hx
        exact ih b' rem hb' hrest hr
    · exact ih b _ hb hrest hrem'

theorem tickBankDelayW_pay (c : Cfg) (log : List Req) (b : WBank) (h : BankPayW log b) : BankPayW log (tickBankDelayW c b) := by
  have := delayGoW_pay c log b.dq b [] h.1 h.2 (fun _ hp => by cases hp)
  exact ⟨this.1, this.2⟩

theorem dispatchBankW_pay (c : Cfg) (log : List Req) (r : Req) (b b' : WBank) (h : dispatchBankW c r b = some b')
    (hb : BankPayW log b) : BankPayW log b' := by
  have hf := ItemOk_fresh log r
  have hq : ∀ (n : Nat) (row : Option Nat), BankPayW log { b with dq := b.dq ++ [(fresh r, n)], lastRow := row } := by
    intro n row
    refine ⟨hb.1, ?_⟩
    intro p hp
    simp only [List.mem_append, List.mem_singleton] at hp
    rcases hp with hp | rfl
    · exact hb.2 p hp
    · exact hf
  unfold dispatchBankW at h
  split at h
  · simp only at h
    split at h
    · split at h
      · cases ha : accW c (fresh r) b with
        | none =>
          rw [ha] at h
          simp only [Option.some.injEq] at h
          subst h
          exact hq _ _
        | some b2 =>
          rw [ha] at h
          simp only [Option.some.injEq] at h
          subst h
          exact accW_pay c log (fresh r) b b2 ha hb hf
      · simp only [Option.some.injEq] at h
        subst h
        exact hq _ _
    · simp only [Option.some.injEq] at h
      subst h
      exact hq _ _
  · exact accW_pay c log (fresh r) b b' h hb hf

theorem dispatchOneW_pay (c : Cfg) (log : List Req) (st : List WBank × List Req) (r : Req)
    (h : ∀ b ∈ st.1, BankPayW log b) : ∀ b ∈ (dispatchOneW c st r).1, BankPayW log b := by
  unfold dispatchOneW
  split
  · exact h
  · rename_i b hb
    have hbm : b ∈ st.1 := List.mem_of_getElem? hb
    split
    · rename_i b' hd
      intro x hx
      rcases List.mem_or_eq_of_mem_set hx with hx | rfl
      · exact h x hx
      · exact dispatchBankW_pay c log r b x hd (h b hbm)
    · exact h

theorem dispatchFoldW_pay (c : Cfg) (log : List Req) : ∀ (todo : List Req) (st : List WBank × List Req),
    (∀ b ∈ st.1, BankPayW log b) → ∀ b ∈ (todo.foldl (dispatchOneW c) st).1, BankPayW log b := by
  intro todo
  induction todo with
  | nil => intro st h; exact h
  | cons r rs ih => intro st h; exact ih _ (dispatchOneW_pay c log st r h)

/-! ### finalize -/

theorem finalizeBankW_pay (c : Cfg) : ∀ (fuel : Nat) (b : WBank) (log : List Req) (out resp : List Rsp) (pg : Bool),
    BankPayW log b → (∀ x ∈ resp, Carries log x.req x.data) →
    (∃ n, (finalizeBankW c fuel b log out resp pg).log = n ++ log) ∧
    (∀ x ∈ (finalizeBankW c fuel b log out resp pg).resp,
      Carries (finalizeBankW c fuel b log out resp pg).log x.req x.data) ∧
    BankPayW (finalizeBankW c fuel b log out resp pg).log (finalizeBankW c fuel b log out resp pg).bank := by
  intro fuel
  induction fuel with
  | zero => intro b log out resp pg hb hr; exact ⟨⟨[], rfl⟩, hr, hb⟩
  | succ fuel ih =>
    intro b log out resp pg hb hr
    cases ho : b.order with
    | nil => simp only [finalizeBankW, ho]; exact ⟨⟨[], rfl⟩, hr, hb⟩
    | cons o os =>
      cases hf : b.early.find? (fun it => decide (it.req = o)) with
      | some it =>
        simp only [finalizeBankW, ho, hf]
        have hit : it ∈ b.early := List.mem_of_find?_eq_some hf
        have hitw : it ∈ wItems b := by
          simp only [wItems, List.mem_append]; exact Or.inr hit
        split
        · exact ⟨⟨[], rfl⟩, hr, hb⟩
        cases hcm : commit it log with
        | none => exact ⟨⟨[], rfl⟩, hr, hb⟩
        | some p =>
          obtain ⟨it', log'⟩ := p
          obtain ⟨⟨n, hn⟩, hcar, hcom⟩ := commit_pay it it' log log' (hb.1 it hitw) hcm
          have hok' : ItemOk log' it' := ⟨fun _ => hcar, fun h => by rw [hcom] at h; cases h⟩
          have hb' : BankPayW log' b := by rw [hn]; exact hb.grow n
          have hresp : ∀ x ∈ resp, Carries log' x.req x.data := fun x hx => by rw [hn]; exact (hr x hx).grow n
          simp only
          split
          · obtain ⟨⟨n2, hn2⟩, a2, a3⟩ := ih { b with order := os, early := b.early.filter (fun e => !decide (e.req = o)) }
              log' (out ++ [rspOf it']) (resp ++ [rspOf it']) true
              (hb'.of_sub (by
                intro x hx
                left
                simp only [wItems, List.mem_append, List.mem_filter] at hx ⊢
                rcases hx with (hx | hx) | hx
                · exact Or.inl (Or.inl hx)
                · exact Or.inl (Or.inr hx)
                · exact Or.inr hx.1) rfl)
              (by
                intro x hx
                simp only [List.mem_append, List.mem_singleton] at hx
                rcases hx with hx | rfl
                · exact hresp x hx
                · exact hcar)
            exact ⟨⟨n2 ++ n, by rw [hn2, hn, List.append_assoc]⟩, a2, a3⟩
          · refine ⟨⟨n, hn⟩, hresp, hb'.of_sub ?_ rfl⟩
            intro x hx
            simp only [wItems, List.mem_append, List.mem_map] at hx ⊢
            rcases hx with (hx | hx) | ⟨e, he, rfl⟩
            · exact Or.inl (Or.inl (Or.inl hx))
            · exact Or.inl (Or.inl (Or.inr hx))
            · by_cases he2 : e.req = o
              · rw [if_pos he2]; exact Or.inr hok'
              · rw [if_neg he2]; exact Or.inl (Or.inr he)
      | none =>
        cases hp : b.post with
        | nil => simp only [finalizeBankW, ho, hf, hp]; exact ⟨⟨[], rfl⟩, hr, hb⟩
        | cons h t =>
          simp only [finalizeBankW, ho, hf, hp]
          have hhw : h ∈ wItems b := by
            simp [wItems, hp]
          have htw : ∀ x ∈ t, x ∈ wItems b := by
            intro x hx
            simp only [wItems, hp, List.mem_append, List.mem_cons]; exact Or.inl (Or.inl (Or.inr hx))
          split
          · split
            · exact ⟨⟨[], rfl⟩, hr, hb⟩
            cases hcm : commit h log with
            | none => exact ⟨⟨[], rfl⟩, hr, hb⟩
            | some p =>
              obtain ⟨h', log'⟩ := p
              obtain ⟨⟨n, hn⟩, hcar, hcom⟩ := commit_pay h h' log log' (hb.1 h hhw) hcm
              have hok' : ItemOk log' h' := ⟨fun _ => hcar, fun e => by rw [hcom] at e; cases e⟩
              have hb' : BankPayW log' b := by rw [hn]; exact hb.grow n
              have hresp : ∀ x ∈ resp, Carries log' x.req x.data := fun x hx => by rw [hn]; exact (hr x hx).grow n
              simp only
              split
              · obtain ⟨⟨n2, hn2⟩, a2, a3⟩ := ih { b with order := os, post := t }
                  log' (out ++ [rspOf h']) (resp ++ [rspOf h']) true
                  (hb'.of_sub (by
                    intro x hx
                    left
                    simp only [wItems, List.mem_append] at hx
                    rcases hx with (hx | hx) | hx
                    · exact htw x hx
                    · simp only [wItems, List.mem_append]; exact Or.inl (Or.inr hx)
                    · simp only [wItems, List.mem_append]; exact Or.inr hx) rfl)
                  (by
                    intro x hx
                    simp only [List.mem_append, List.mem_singleton] at hx
                    rcases hx with hx | rfl
                    · exact hresp x hx
                    · exact hcar)
                exact ⟨⟨n2 ++ n, by rw [hn2, hn, List.append_assoc]⟩, a2, a3⟩
              · refine ⟨⟨n, hn⟩, hresp, hb'.of_sub ?_ rfl⟩
                intro x hx
                simp only [wItems, List.mem_append, List.mem_cons] at hx
                rcases hx with ((rfl | hx) | hx) | hx
                · exact Or.inr hok'
                · exact Or.inl (htw x hx)
                · left; simp only [wItems, List.mem_append]; exact Or.inl (Or.inr hx)
                · left; simp only [wItems, List.mem_append]; exact Or.inr hx
          · exact ih { b with order := o :: os, post := t, early := b.early ++ [h] } log out resp true
              (hb.of_sub (by
                intro x hx
                left
                simp only [wItems, List.mem_append, List.mem_singleton] at hx
                rcases hx with (hx | hx) | (hx | rfl)
                · exact htw x hx
                · simp only [wItems, List.mem_append]; exact Or.inl (Or.inr hx)
                · simp only [wItems, List.mem_append]; exact Or.inr hx
                · exact hhw) rfl) hr

theorem finalizeAtW_pay (c : Cfg) (s : WState) (k : Nat) (pg : Bool) (h : PayW c s) : PayW c (finalizeAtW c s k pg).st := by
  unfold finalizeAtW
  cases hb : s.banks[k]? with
  | none => exact h
  | some b =>
    have hbm : b ∈ s.banks := List.mem_of_getElem? hb
    obtain ⟨⟨n, hn⟩, a2, a3⟩ := finalizeBankW_pay c (b.order.length + b.post.length + 1) b s.log s.outBuf s.resp pg
      (h.itm b hbm) h.rsp
    refine ⟨a2, ?_⟩
    intro x hx
    rcases List.mem_or_eq_of_mem_set hx with hx | rfl
    · show BankPayW _ x
      simp only
      rw [hn]
      exact BankPayW.grow (h.itm x hx) n
    · exact a3

theorem finalizeFromW_pay (c : Cfg) : ∀ (ks : List Nat) (s : WState) (pg : Bool), PayW c s →
    PayW c (finalizeFromW c ks s pg).st := by
  intro ks
  induction ks with
  | nil => intro s pg h; exact h
  | cons k ks ih =>
    intro s pg h
    simp only [finalizeFromW]
    split
    · exact finalizeAtW_pay c s k pg h
    · exact ih _ _ (finalizeAtW_pay c s k pg h)

/-! ### the tick and the run -/

theorem tickPipesW_pay (c : Cfg) (s : WState) (h : PayW c s) : PayW c (tickPipesW c s) := by
  refine ⟨h.rsp, ?_⟩
  intro b hb
  simp only [tickPipesW, List.mem_map] at hb
  obtain ⟨b0, hb0, rfl⟩ := hb
  exact tickBankPipeW_pay c s.log b0 (h.itm b0 hb0)

theorem tickDelaysW_pay (c : Cfg) (s : WState) (h : PayW c s) : PayW c (tickDelaysW c s) := by
  refine ⟨h.rsp, ?_⟩
  intro b hb
  simp only [tickDelaysW, List.mem_map] at hb
  obtain ⟨b0, hb0, rfl⟩ := hb
  exact tickBankDelayW_pay c s.log b0 (h.itm b0 hb0)

theorem dispatchW_pay (c : Cfg) (s : WState) (h : PayW c s) : PayW c (dispatchW c s) :=
  ⟨h.rsp, dispatchFoldW_pay c s.log s.pending (s.banks, []) h.itm⟩

theorem drainTopW_pay (c : Cfg) (s : WState) (h : PayW c s) : PayW c (drainTopW s) := ⟨h.rsp, h.itm⟩

theorem tickW_pay (c : Cfg) (s : WState) (h : PayW c s) : PayW c (tickW c s) := by
  unfold tickW
  have h1 : PayW c (finalizeW c s).st := finalizeFromW_pay c _ s false h
  have h3 := tickDelaysW_pay c _ (tickPipesW_pay c _ h1)
  simp only
  split
  · exact h1
  · split
    · exact h3
    · exact drainTopW_pay c _ (dispatchW_pay c _ h3)

theorem init_payW (c : Cfg) : PayW c (initW c) := by
  refine ⟨fun x hx => by simp [initW] at hx, ?_⟩
  intro b hb
  simp only [initW, List.mem_replicate] at hb
  obtain ⟨_, rfl⟩ := hb
  constructor
  · intro it hit
    simp [wItems, emptyBankW, laneItems, List.mem_replicate] at hit
    obtain ⟨a, ⟨_, rfl⟩, a1, ha1, x, rfl⟩ := hit
    simp [List.mem_replicate] at ha1
  · intro p hp
    simp [emptyBankW] at hp

theorem step_payW (c : Cfg) (s : WState) (op : Op) (h : PayW c s) : PayW c (stepW c s op) := by
  cases op with
  | deliver k a l d m =>
    simp only [stepW, deliverW]
    split
    · exact ⟨h.rsp, h.itm⟩
    · exact h
  | tick => exact tickW_pay c s h
  | out k => exact ⟨h.rsp, h.itm⟩

theorem run_payW (c : Cfg) (ops : List Op) : PayW c (runW c ops) := by
  unfold runW
  have : ∀ (ops : List Op) (s : WState), PayW c s → PayW c (ops.foldl (stepW c) s) := by
    intro ops
    induction ops with
    | nil => intro s h; exact h
    | cons o os ih => intro s h; exact ih _ (step_payW c s o h)
  exact this ops _ (init_payW c)


end C17
