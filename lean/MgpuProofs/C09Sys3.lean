import MgpuProofs.C09Sys2
import MgpuProofs.C09Fair
/-! # C09, closed loop — infinite schedules: the command processor's schedule induced by a closed one -/
namespace C09.Sys
open C09

theorem cpOps_append (s : Sys) (a b : List SOp) : cpOps s (a ++ b) = cpOps s a ++ cpOps (srun s a) b := by
  induction a generalizing s with
  | nil => rfl
  | cons o os ih =>
    show cpOp s o :: cpOps (sstep s o) (os ++ b) = (cpOp s o :: cpOps (sstep s o) os) ++ cpOps (srun (sstep s o) os) b
    rw [ih]; rfl

/-- the first `n` moves of an infinite closed schedule -/
def sprefix (sched : Nat → SOp) (n : Nat) : List SOp := (List.range n).map sched

theorem sprefix_succ (sched : Nat → SOp) (n : Nat) : sprefix sched (n + 1) = sprefix sched n ++ [sched n] := by
  simp [sprefix, List.range_succ]

/-- the open-model move of the command processor at step `n` of a closed schedule started in `s` -/
def cpSched (s : Sys) (sched : Nat → SOp) (n : Nat) : Op := cpOp (srun s (sprefix sched n)) (sched n)

theorem cpOps_sprefix (s : Sys) (sched : Nat → SOp) : ∀ n, cpOps s (sprefix sched n) = prefixOf (cpSched s sched) n := by
  intro n
  induction n with
  | zero => rfl
  | succ n ih => rw [sprefix_succ, cpOps_append, ih, prefixOf_succ]; rfl

theorem cpTrace_append (cfg : Cfg) (nd : Nat) (pool : List CU) (caps : Nat → List Nat) (room capM capD : Nat)
    (ops0 : List SOp) (sched : Nat → SOp) (n : Nat) :
    cpTrace cfg nd pool caps room capM capD (ops0 ++ sprefix sched n) =
      cpTrace cfg nd pool caps room capM capD ops0 ++
        prefixOf (cpSched (srun (sinit cfg nd pool caps room capM capD) ops0) sched) n := by
  unfold cpTrace
  rw [cpOps_append, cpOps_sprefix, List.append_assoc]

theorem mem_cpTrace_launch (cfg : Cfg) (nd : Nat) (pool : List CU) (caps : Nat → List Nat) (room capM capD : Nat)
    (ops : List SOp) (k : Kern) (h : Op.launch k ∈ cpTrace cfg nd pool caps room capM capD ops) :
    SOp.launch k ∈ ops := by
  unfold cpTrace at h
  rcases List.mem_append.1 h with e | e
  · simp at e
  · exact (mem_cpOps_launch _ ops k).1 e

theorem cpSched_not_launch (s : Sys) (sched : Nat → SOp) (hnl : ∀ n k, sched n ≠ .launch k) (n : Nat) (k : Kern) :
    cpSched s sched n ≠ .launch k := by
  unfold cpSched
  rcases cpOp_cases (srun s (sprefix sched n)) (sched n) with ⟨k', hk', _⟩ | ⟨_, h2⟩
  · exact absurd hk' (hnl n k')
  · exact h2 k

end C09.Sys
