import MgpuModel.C20_Spec
import MgpuProofs.C20_TermLemmas
/-! # C20 — the two invariants behind `terminates_all_idle` (definitions shared by the proofs)

`Inv1` (safety / accounting): every child of every layer is in exactly one place (`occ = 1`), the
unfinished count of a parent = undispatched units + children handed out, indices are in range.
`Inv2` (wake-ups): whoever holds work is awake, or is blocked on a full buffer whose owner is awake. -/
namespace C20

/-- an event addresses an existing component of the shape -/
def Ev.InRange (G S C : Nat) : Ev → Prop
  | .drv => True
  | .c0 => True
  | .gpu g => g < G
  | .c1 g => g < G
  | .sm m => m < G * S
  | .c2 m => m < G * S
  | .sub u => u < G * S * C

/-- internal business of a GPU / SM seen as a child: a unit being worked on, or a completion not yet sent -/
def parBusy (unfin fin : Nat) : Nat := (if unfin = 0 then 0 else 1) + fin

def busy0 (s : Sys) (g : Nat) : Nat := parBusy (get s.l1 g).unfin (get s.gpus g).fin
def busy1 (s : Sys) (g : Nat) (k : Nat) : Nat :=
  parBusy (get s.l2 (g * s.S + k)).unfin (get s.sms (g * s.S + k)).fin

/-- accounting of one layer with `n` children and child-busy function `b` -/
structure LInv1 {α : Type} (l : Level α) (n : Nat) (b : Nat → Nat) : Prop where
  hn : l.n = n
  occ1 : ∀ j, j < n → occ l b j = 1
  counted : l.unfin + l.free.length = l.undisp.length + n
  freeLt : ∀ j ∈ l.free, j < n
  outLt : ∀ p ∈ l.pOut, p.1 < n
  inLt : ∀ j ∈ l.pIn, j < n

structure Inv1 (s : Sys) : Prop where
  lv0 : LInv1 s.l0 s.G (busy0 s)
  lv1 : ∀ g, g < s.G → LInv1 (get s.l1 g) s.S (busy1 s g)
  lv2 : ∀ m, m < s.G * s.S → LInv1 (get s.l2 m) s.C (busy2 s m)

/-- wake-up discipline of one layer: `pa` = parent awake, `ca j` = child j awake, `cf j` = child j's
    count of completions it still has to send -/
structure LInv2 {α : Type} (l : Level α) (n : Nat) (pa : Bool) (ca : Nat → Bool) (cf : Nat → Nat) : Prop where
  /-- a completion in the parent's incoming buffer: the parent is awake -/
  parIn : l.pIn ≠ [] → pa = true
  /-- a unit in a child's incoming buffer: the child is awake -/
  chiIn : ∀ j, j < n → get l.cIn j ≠ [] → ca j = true
  /-- the connection sleeps only when every port is blocked (head destination full / nothing to send) -/
  conn : l.connAwake = true ∨ ∀ p, p ≤ n → portBlocked l p
  /-- undispatched work and a free child: the parent is awake, or its outgoing buffer is full -/
  disp : l.undisp ≠ [] → l.free ≠ [] → pa = true ∨ cap ≤ l.pOut.length
  /-- a child with an unsent completion is awake, or its outgoing buffer is full -/
  chiFin : ∀ j, j < n → 0 < cf j → ca j = true ∨ cap ≤ get l.cOut j

structure Inv2 (s : Sys) : Prop where
  w0 : LInv2 s.l0 s.G s.dAwake (fun g => (get s.gpus g).awake) (fun g => (get s.gpus g).fin)
  w1 : ∀ g, g < s.G → LInv2 (get s.l1 g) s.S (get s.gpus g).awake
         (fun k => (get s.sms (g * s.S + k)).awake) (fun k => (get s.sms (g * s.S + k)).fin)
  w2 : ∀ m, m < s.G * s.S → LInv2 (get s.l2 m) s.C (get s.sms m).awake
         (fun j => (get s.subs (m * s.C + j)).awake) (fun j => (get s.subs (m * s.C + j)).fin)
  /-- a sub-core with instructions left is awake -/
  run : ∀ u, u < s.G * s.S * s.C → 0 < (get s.subs u).rem → (get s.subs u).awake = true

end C20
