import MgpuProofs.C15Inv
import MgpuModel.C15_Sys
/-! # C15 — a lower level that answers a forwarded request MORE THAN ONCE (definitions)

`parseBottom` stores every response whose `RspTo` is in the lookup table into the transaction
(`trans.rspFromBottom = rsp`), also when the transaction already has one: the later answer
overwrites the earlier. Once the transaction is retired its ticket leaves the table and further
answers are dropped. `lastAns k log` is the last payload logged for ticket `k`. `sysStepMulti` is
the closed system with a memory that keeps an answered request outstanding (it may answer it
again, any number of times, with different payloads). -/
namespace C15

/-- the last payload the log holds for ticket `k` -/
def lastAns (k : Nat) : List (Nat × Rsp) → Option Rsp
  | [] => none
  | (k', p) :: l =>
    match lastAns k l with
    | some q => some q
    | none => if k' = k then some p else none

/-- the closed system around a lower level that answers as often as it likes: `memAnswer j p`
    leaves request `j` outstanding; every other event as in `sysStep` -/
def sysStepMulti (c : Cfg) (σ : Sys) : Ev → Sys
  | .memAnswer j p =>
    match σ.mem[j]? with
    | none => σ
    | some b =>
      if σ.rob.botIn.length < c.botInCap then { σ with rob := step c σ.rob (.bot b.id p) } else σ
  | e => sysStep c σ e

def sysRunMulti (c : Cfg) (evs : List Ev) : Sys := evs.foldl (sysStepMulti c) {}

end C15
