import MgpuProofs.C17Live4
/-! C17 liveness, part 5: fairness of `finalizeBanks`. The banks are served in index order, so "the port takes all of
bank `k`'s responses" is characterised exactly by room for everything waiting in banks `0..k` (`accepts_iff_room`);
a consumer that always drains is served fairly as soon as the outgoing buffer has one slot per bank (`Calm`,
`drained_fold`). -/
namespace C17

/-- responses waiting in the post-pipeline buffers of banks `0..k` -/
def postPrefix (s : State) (k : Nat) : Nat := ((List.range (k + 1)).map (postLen s)).sum

theorem postPrefix_succ (s : State) (k : Nat) :
    postPrefix s k = ((List.range k).map (postLen s)).sum + postLen s k := by
  simp [postPrefix, List.range_succ, List.sum_append]

theorem sum_map_zero {α : Type} (f : α → Nat) : ∀ (l : List α), (∀ a ∈ l, f a = 0) → (l.map f).sum = 0 := by
  intro l
  induction l with
  | nil => intro _; rfl
  | cons a l ih =>
    intro h
    simp only [List.map_cons, List.sum_cons, h a (by simp), ih (fun x hx => h x (by simp [hx]))]

theorem sum_map_le_length {α : Type} (f : α → Nat) : ∀ (l : List α), (∀ a ∈ l, f a ≤ 1) → (l.map f).sum ≤ l.length := by
  intro l
  induction l with
  | nil => intro _; simp
  | cons a l ih =>
    intro h
    have h1 := h a (by simp)
    have h2 := ih (fun x hx => h x (by simp [hx]))
    simp only [List.map_cons, List.sum_cons, List.length_cons]
    omega

/-! ### what `finalizeBanks` does to one bank, exactly -/

/-- the loop of one bank on well-formed items: nothing is lost, it stops only on an empty buffer or a full port, and an
empty result means that everything fitted -/
theorem finalizePost_spec (c : Cfg) : ∀ (post : List Item) (log : List Req) (out resp : List Rsp),
    (∀ it ∈ post, maskOk it.req = true ∧ capErr c.cap it.req.addr it.req.size = false) →
    (finalizePost c post log out resp).out.length + (finalizePost c post log out resp).post.length
      = out.length + post.length ∧
    ((finalizePost c post log out resp).post = [] ∨ c.top ≤ (finalizePost c post log out resp).out.length) ∧
    out.length ≤ (finalizePost c post log out resp).out.length ∧
    ((finalizePost c post log out resp).post = [] → post = [] ∨ out.length + post.length ≤ c.top) := by
  intro post
  induction post with
  | nil => intro log out resp _; simp [finalizePost]
  | cons it rest ih =>
    intro log out resp hok
    obtain ⟨⟨it', log'⟩, hcm⟩ := commit_ok it log (hok it (by simp)).1
    have hcf : capFault c it = false := by simp [capFault, (hok it (by simp)).2]
    simp only [finalizePost, hcm, hcf, Bool.false_eq_true, if_false]
    by_cases ho : out.length < c.top
    · rw [if_pos ho]
      obtain ⟨a1, a2, a3, a4⟩ := ih log' (out ++ [rspOf it']) (resp ++ [rspOf it']) (fun x hx => hok x (by simp [hx]))
      simp only [List.length_append, List.length_cons, List.length_nil] at a1 a3 a4 ⊢
      refine ⟨by omega, a2, by omega, ?_⟩
      intro he
      right
      rcases a4 he with hr | hr
      · subst hr; simp; omega
      · omega
    · rw [if_neg ho]
      refine ⟨by simp, Or.inr (by simp only; omega), Nat.le_refl _, ?_⟩
      intro he; cases he

theorem postLen_none (s : State) (j : Nat) (h : s.banks[j]? = none) : postLen s j = 0 := by simp [postLen, h]

theorem postLen_some (s : State) (j : Nat) (b : Bank) (h : s.banks[j]? = some b) : postLen s j = b.post.length := by
  simp [postLen, h]

/-- bank `j` of `finalizeBanks`: conservation, stop condition, monotone port buffer, "emptied ⇒ it fitted" -/
theorem finalizeAt_spec (c : Cfg) (s : State) (j : Nat) (h : Inv c s) (hl : LI c s) :
    (finalizeAt c s j).1.outBuf.length + postLen (finalizeAt c s j).1 j = s.outBuf.length + postLen s j ∧
    (postLen (finalizeAt c s j).1 j = 0 ∨ c.top ≤ (finalizeAt c s j).1.outBuf.length) ∧
    s.outBuf.length ≤ (finalizeAt c s j).1.outBuf.length ∧
    (postLen (finalizeAt c s j).1 j = 0 → postLen s j = 0 ∨ s.outBuf.length + postLen s j ≤ c.top) := by
  cases hbk : s.banks[j]? with
  | none =>
    have e : (finalizeAt c s j).1 = s := by simp [finalizeAt, hbk]
    rw [e, postLen_none s j hbk]
    exact ⟨rfl, Or.inl rfl, Nat.le_refl _, fun _ => Or.inl rfl⟩
  | some b =>
    have hlt : j < s.banks.length := (List.getElem?_eq_some_iff.1 hbk).1
    obtain ⟨a1, a2, a3, a4⟩ := finalizePost_spec c b.post s.log s.outBuf s.resp (items_ok c s h hl j b hbk)
    have e1 : (finalizeAt c s j).1.outBuf = (finalizePost c b.post s.log s.outBuf s.resp).out := by
      simp [finalizeAt, hbk]
    have e2 : postLen (finalizeAt c s j).1 j = (finalizePost c b.post s.log s.outBuf s.resp).post.length := by
      simp [finalizeAt, hbk, postLen, List.getElem?_set_self hlt]
    rw [e1, e2, postLen_some s j b hbk]
    refine ⟨a1, ?_, a3, ?_⟩
    · rcases a2 with a2 | a2
      · exact Or.inl (by rw [a2]; rfl)
      · exact Or.inr a2
    · intro he
      rcases a4 (List.length_eq_zero_iff.1 he) with hr | hr
      · exact Or.inl (by rw [hr]; rfl)
      · exact Or.inr hr

theorem finalizeFrom_postLen_other (c : Cfg) (j : Nat) : ∀ (ks : List Nat) (s : State), j ∉ ks →
    postLen (finalizeFrom c ks s).1 j = postLen s j := by
  intro ks
  induction ks with
  | nil => intro s _; rfl
  | cons j0 ks ih =>
    intro s hj
    have hne : j ≠ j0 := fun e => hj (by simp [e])
    have hks : j ∉ ks := fun e => hj (by simp [e])
    simp only [finalizeFrom]
    split
    · exact postLen_other c s j0 j hne
    · rw [ih _ hks]; exact postLen_other c s j0 j hne

theorem finalizeFrom_append (c : Cfg) : ∀ (ks1 ks2 : List Nat) (s : State), Inv c s → LI c s →
    (finalizeFrom c (ks1 ++ ks2) s).1 = (finalizeFrom c ks2 (finalizeFrom c ks1 s).1).1 := by
  intro ks1
  induction ks1 with
  | nil => intro ks2 s _ _; rfl
  | cons j ks1 ih =>
    intro ks2 s h hl
    simp only [List.cons_append, finalizeFrom]
    rw [finalizeAt_nofault c s j h hl]
    simp only [Bool.false_eq_true, if_false]
    exact ih ks2 _ (finalizeAt_inv c s j h) (finalizeAt_LI c s j hl)

/-- a list of distinct banks: conservation over the list, every bank of the list is emptied unless the port is full
afterwards, the port buffer only grows -/
theorem finalizeFrom_spec (c : Cfg) : ∀ (ks : List Nat) (s : State), ks.Nodup → Inv c s → LI c s →
    (finalizeFrom c ks s).1.outBuf.length + (ks.map (postLen (finalizeFrom c ks s).1)).sum
      = s.outBuf.length + (ks.map (postLen s)).sum ∧
    (∀ j ∈ ks, postLen (finalizeFrom c ks s).1 j = 0 ∨ c.top ≤ (finalizeFrom c ks s).1.outBuf.length) ∧
    s.outBuf.length ≤ (finalizeFrom c ks s).1.outBuf.length := by
  intro ks
  induction ks with
  | nil => intro s _ _ _; exact ⟨rfl, fun j hj => by simp at hj, Nat.le_refl _⟩
  | cons j0 ks ih =>
    intro s hnd h hl
    obtain ⟨hj0, hnd'⟩ := List.nodup_cons.1 hnd
    obtain ⟨b1, b2, b3, _⟩ := finalizeAt_spec c s j0 h hl
    obtain ⟨a1, a2, a3⟩ := ih (finalizeAt c s j0).1 hnd' (finalizeAt_inv c s j0 h) (finalizeAt_LI c s j0 hl)
    have hsum : (ks.map (postLen (finalizeAt c s j0).1)).sum = (ks.map (postLen s)).sum := by
      congr 1
      apply List.map_congr_left
      intro j hjm
      exact postLen_other c s j0 j (fun e => hj0 (e ▸ hjm))
    have hj0' := finalizeFrom_postLen_other c j0 ks (finalizeAt c s j0).1 hj0
    simp only [finalizeFrom]
    rw [finalizeAt_nofault c s j0 h hl]
    simp only [Bool.false_eq_true, if_false, List.map_cons, List.sum_cons]
    rw [hsum] at a1
    refine ⟨by omega, ?_, by omega⟩
    intro j hj
    simp only [List.mem_cons] at hj
    rcases hj with rfl | hj
    · rcases b2 with b2 | b2
      · exact Or.inl (by omega)
      · exact Or.inr (by omega)
    · exact a2 j hj

theorem accepts_iff_postLen (c : Cfg) (s : State) (k : Nat) :
    accepts c s k = true ↔ postLen (finalize c s).1 k = 0 := by
  unfold accepts postLen
  cases (finalize c s).1.banks[k]? with
  | none => simp
  | some b => simp [List.isEmpty_iff, List.length_eq_zero_iff]

/-- **bank-index priority, exactly**: in the tick of `s` the port takes all of bank `k`'s responses iff the bank offers
none or the outgoing buffer has room for everything waiting in banks `0..k` -/
theorem accepts_iff_room (c : Cfg) (s : State) (h : Inv c s) (hl : LI c s) (k : Nat) :
    accepts c s k = true ↔ (postLen s k = 0 ∨ s.outBuf.length + postPrefix s k ≤ c.top) := by
  rw [accepts_iff_postLen]
  by_cases hk : k < s.banks.length
  · -- range n = range k ++ k :: rest
    obtain ⟨m, hm⟩ : ∃ m, s.banks.length = (k + 1) + m := ⟨s.banks.length - (k + 1), by omega⟩
    have hsplit : List.range s.banks.length = List.range k ++ ([k] ++ (List.range m).map (fun x => k + 1 + x)) := by
      rw [hm, List.range_add, List.range_succ, List.append_assoc]
    have hrest : k ∉ (List.range m).map (fun x => k + 1 + x) := by
      intro hmem
      obtain ⟨x, _, hx⟩ := List.mem_map.1 hmem
      omega
    have hkr : k ∉ List.range k := by simp
    -- the three stages
    have h0 := finalizeFrom_inv c (List.range k) s h
    have hl0 : LI c (finalizeFrom c (List.range k) s).1 := (finalizeFrom_w c 0 _ s h hl).2.1
    obtain ⟨A0, C0, _⟩ := finalizeFrom_spec c (List.range k) s List.nodup_range h hl
    have D0 := finalizeFrom_postLen_other c k (List.range k) s hkr
    obtain ⟨B1, B2, B3, B4⟩ := finalizeAt_spec c (finalizeFrom c (List.range k) s).1 k h0 hl0
    have hfin : postLen (finalize c s).1 k = postLen (finalizeAt c (finalizeFrom c (List.range k) s).1 k).1 k := by
      unfold finalize
      rw [hsplit, finalizeFrom_append c _ _ s h hl]
      simp only [List.singleton_append, finalizeFrom]
      rw [finalizeAt_nofault c _ k h0 hl0]
      simp only [Bool.false_eq_true, if_false]
      exact finalizeFrom_postLen_other c k _ _ hrest
    rw [hfin, postPrefix_succ]
    rw [D0] at B1 B4
    constructor
    · intro he
      rcases B4 he with hz | hroom
      · exact Or.inl hz
      · by_cases hz : postLen s k = 0
        · exact Or.inl hz
        · right
          have hall : ∀ j ∈ List.range k, postLen (finalizeFrom c (List.range k) s).1 j = 0 := by
            intro j hj
            rcases C0 j hj with hc | hc
            · exact hc
            · omega
          rw [sum_map_zero _ _ hall] at A0
          omega
    · intro hor
      rcases hor with hz | hroom
      · omega
      · rcases B2 with b | b
        · exact b
        · omega
  · have hnone : (finalize c s).1.banks[k]? = none := by
      apply List.getElem?_eq_none
      have hl1 : LI c (finalize c s).1 := (finalizeFrom_w c 0 _ s h hl).2.1
      rw [hl1.nb, ← hl.nb]; omega
    have hnone' : s.banks[k]? = none := List.getElem?_eq_none (by omega)
    rw [postLen_none _ k hnone, postLen_none s k hnone']
    simp

/-! ### room ticks are accepting ticks -/

/-- ticks of `ops` (run from `s`) that start with room in the outgoing buffer for everything waiting in banks `0..k` -/
def roomTicks (c : Cfg) (k : Nat) : State → List Op → Nat
  | _, [] => 0
  | s, .tick :: ops => (if s.outBuf.length + postPrefix s k ≤ c.top then 1 else 0) + roomTicks c k (tick c s) ops
  | s, op :: ops => roomTicks c k (step c s op) ops

theorem roomTicks_le_accepting (c : Cfg) (k : Nat) : ∀ (ops : List Op) (s : State), Inv c s → LI c s →
    (∀ op ∈ ops, opOk c op) → roomTicks c k s ops ≤ acceptingTicks c k s ops := by
  intro ops
  induction ops with
  | nil => intro s _ _ _; exact Nat.le_refl _
  | cons op ops ih =>
    intro s h hl hok
    have := ih (step c s op) (step_inv c s op h) (step_LI c s op (hok op (by simp)) h hl)
      (fun o ho => hok o (by simp [ho]))
    cases op with
    | tick =>
      simp only [roomTicks, acceptingTicks]
      simp only [step] at this
      by_cases hroom : s.outBuf.length + postPrefix s k ≤ c.top
      · rw [if_pos hroom, if_pos ((accepts_iff_room c s h hl k).2 (Or.inr hroom))]
        omega
      · rw [if_neg hroom]
        split <;> omega
    | deliver k' a l d m => simp only [roomTicks, acceptingTicks]; exact this
    | out j => simp only [roomTicks, acceptingTicks]; exact this

/-! ### a consumer that always drains -/

/-- every tick of `ops` (run from `s`) starts with an empty outgoing buffer: the consumer retrieved everything -/
def AllDrained (c : Cfg) : State → List Op → Prop
  | _, [] => True
  | s, .tick :: ops => s.outBuf = [] ∧ AllDrained c (tick c s) ops
  | s, op :: ops => AllDrained c (step c s op) ops

instance decAllDrained (c : Cfg) : ∀ (ops : List Op) (s : State), Decidable (AllDrained c s ops)
  | [], _ => isTrue trivial
  | .tick :: ops, s =>
    have := decAllDrained c ops (tick c s)
    inferInstanceAs (Decidable (s.outBuf = [] ∧ AllDrained c (tick c s) ops))
  | .deliver k a l d m :: ops, s => decAllDrained c ops (step c s (.deliver k a l d m))
  | .out j :: ops, s => decAllDrained c ops (step c s (.out j))

theorem AllDrained_append (c : Cfg) : ∀ (ops1 ops2 : List Op) (s : State), AllDrained c s (ops1 ++ ops2) →
    AllDrained c s ops1 ∧ AllDrained c (ops1.foldl (step c) s) ops2 := by
  intro ops1
  induction ops1 with
  | nil => intro ops2 s h; exact ⟨trivial, h⟩
  | cons op ops1 ih =>
    intro ops2 s h
    cases op with
    | tick =>
      simp only [List.cons_append, AllDrained] at h ⊢
      obtain ⟨a1, a2⟩ := ih ops2 _ h.2
      exact ⟨⟨h.1, a1⟩, a2⟩
    | deliver k a l d m =>
      simp only [List.cons_append, AllDrained] at h ⊢
      exact ih ops2 _ h
    | out j =>
      simp only [List.cons_append, AllDrained] at h ⊢
      exact ih ops2 _ h

/-- at most one response waits in every post-pipeline buffer -/
def Calm (s : State) : Prop := ∀ b ∈ s.banks, b.post.length ≤ 1

theorem init_calm (c : Cfg) : Calm (init c) := by
  intro b hb
  simp only [init] at hb
  rw [(List.mem_replicate.1 hb).2]
  simp [emptyBank]

theorem postTotal_le_of_calm (s : State) (h : Calm s) : postTotal s ≤ s.banks.length :=
  sum_map_le_length _ _ h

theorem tickLane_post_le (c : Cfg) (post : List Item) (l : Lane) : (tickLane c post l).1.length ≤ post.length + 1 := by
  cases l with
  | nil => simp [tickLane]
  | cons e rest =>
    cases e with
    | none => simp [tickLane]
    | some p =>
      obtain ⟨it, left⟩ := p
      simp only [tickLane]
      split
      · simp
      · split <;> simp

theorem dispatchBank_post (c : Cfg) (r : Req) (b b' : Bank) (h : dispatchBank c r b = some b') : b'.post = b.post := by
  unfold dispatchBank at h
  split at h
  · dsimp only at h
    split at h
    · split at h
      · split at h <;> (simp only [Option.some.injEq] at h; subst h; rfl)
      · simp only [Option.some.injEq] at h; subst h; rfl
    · simp only [Option.some.injEq] at h; subst h; rfl
  · split at h
    · simp only [Option.some.injEq] at h; subst h; rfl
    · cases h

theorem dispatch_fold_calm (c : Cfg) : ∀ (todo : List Req) (st : List Bank × List Req),
    (∀ b ∈ st.1, b.post.length ≤ 1) → ∀ b ∈ (todo.foldl (dispatchOne c) st).1, b.post.length ≤ 1 := by
  intro todo
  induction todo with
  | nil => intro st h; exact h
  | cons r rest ih =>
    intro st h
    simp only [List.foldl_cons]
    apply ih
    unfold dispatchOne
    split
    · exact h
    · rename_i b hlook
      split
      · rename_i b' hd
        intro x hx
        rcases List.mem_or_eq_of_mem_set hx with hx | rfl
        · exact h x hx
        · rw [dispatchBank_post c r b _ hd]; exact h b (List.mem_of_getElem? hlook)
      · exact h

/-- after a tick in which the port took everything, every post-pipeline buffer holds at most the one item its (single)
lane delivered in that tick -/
theorem tick_calm (c : Cfg) (s : State) (h : Inv c s) (hl : LI c s) (hacc : ∀ k, accepts c s k = true) :
    Calm (tick c s) := by
  rw [tick_eq c s h hl]
  have h1 := finalize_inv c s h
  have hpe : ∀ b ∈ (finalize c s).1.banks, b.post = [] := by
    intro b hb
    obtain ⟨k, hk⟩ := List.mem_iff_getElem?.1 hb
    have := hacc k
    simp only [accepts, hk] at this
    exact List.isEmpty_iff.1 this
  have c2 : ∀ b ∈ (tickPipes c (finalize c s).1).banks, b.post.length ≤ 1 := by
    intro x hx
    simp only [tickPipes] at hx
    obtain ⟨b, hbm, rfl⟩ := List.mem_map.1 hx
    obtain ⟨l, hl1⟩ := (h1.wf b hbm).1
    have := tickLane_post_le c b.post l
    rw [hpe b hbm] at this
    simpa [tickBankPipe, hl1, tickLanes, hpe b hbm] using this
  have c3 : ∀ b ∈ (tickDelays c (tickPipes c (finalize c s).1)).banks, b.post.length ≤ 1 := by
    intro x hx
    simp only [tickDelays] at hx
    obtain ⟨b, hbm, rfl⟩ := List.mem_map.1 hx
    exact c2 b hbm
  exact dispatch_fold_calm c _ _ c3

theorem step_calm_other (c : Cfg) (s : State) (op : Op) (hop : op ≠ .tick) (h : Calm s) : Calm (step c s op) := by
  cases op with
  | tick => exact absurd rfl hop
  | deliver k a l d m => simp only [step, deliver]; split <;> exact h
  | out j => exact h

/-- **a consumer that always drains is served fairly when `banks ≤ top`**: along such a run every tick takes every
bank's responses -/
theorem drained_fold (c : Cfg) (htop : c.banks ≤ c.top) : ∀ (ops : List Op) (s : State), Inv c s → LI c s → Calm s →
    (∀ op ∈ ops, opOk c op) → AllDrained c s ops →
    Inv c (ops.foldl (step c) s) ∧ LI c (ops.foldl (step c) s) ∧ Calm (ops.foldl (step c) s) ∧
    ∀ k, acceptingTicks c k s ops = countTicks ops := by
  intro ops
  induction ops with
  | nil => intro s h hl hc _ _; exact ⟨h, hl, hc, fun _ => rfl⟩
  | cons op ops ih =>
    intro s h hl hc hok hdr
    have hok' : ∀ o ∈ ops, opOk c o := fun o ho => hok o (by simp [ho])
    have h' := step_inv c s op h
    have hl' := step_LI c s op (hok op (by simp)) h hl
    cases op with
    | tick =>
      simp only [AllDrained] at hdr
      have hacc : ∀ k, accepts c s k = true := by
        intro k
        apply accepts_of_room' c s h hl
        have := postTotal_le_of_calm s hc
        rw [hl.nb] at this
        rw [hdr.1]
        simp only [List.length_nil]
        omega
      obtain ⟨a1, a2, a3, a4⟩ := ih (tick c s) h' hl' (tick_calm c s h hl hacc) hok' hdr.2
      refine ⟨a1, a2, a3, ?_⟩
      intro k
      simp only [acceptingTicks, countTicks, hacc k, if_true, a4 k]
    | deliver k' a l d m =>
      simp only [AllDrained] at hdr
      obtain ⟨a1, a2, a3, a4⟩ := ih _ h' hl' (step_calm_other c s _ (by simp) hc) hok' hdr
      exact ⟨a1, a2, a3, fun k => by simp only [acceptingTicks, countTicks]; exact a4 k⟩
    | out j =>
      simp only [AllDrained] at hdr
      obtain ⟨a1, a2, a3, a4⟩ := ih _ h' hl' (step_calm_other c s _ (by simp) hc) hok' hdr
      exact ⟨a1, a2, a3, fun k => by simp only [acceptingTicks, countTicks]; exact a4 k⟩

end C17
