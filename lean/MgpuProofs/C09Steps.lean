import MgpuProofs.C09Live
/-! # C09 — the command-processor tick as a sequence of atomic accounting steps

`CP.view` keeps what the accounting of launches / work-groups sees of a command-processor state
(per dispatcher: kernel, mapped and completed counters, in-flight request ids, overhead cycles; the
trace, the ghost list of consumed completions, the launch queue, port room, id counter) and forgets
the CU pool, the placement algorithm and the placed-but-unsent group. `VStep` lists the five atomic
changes of that view; `cpTick_steps` shows that a whole `CommandProcessor.Tick` is a sequence of
them — empty exactly when the tick reports no progress. Invariants and measures are then proved on
the five steps only. -/
namespace C09

/-- accounting view of one dispatcher -/
structure DV where
  kern : Option Kern
  nd : Nat
  nc : Nat
  infl : List Nat
  cyc : Nat

def Disp.view (d : Disp) : DV := ⟨d.kern, d.nd, d.nc, d.inflight.map (·.1), d.cycleLeft⟩

/-- accounting view of the command processor -/
@[ext] structure V where
  n : Nat
  ds : Nat → DV
  log : List Ev
  done : List Nat
  drvIn : List Kern
  cuRoom : Nat
  drvRoom : Nat
  nextReq : Nat

def CP.view (cp : CP) : V :=
  ⟨cp.disps.length, fun j => (cp.disp j).view, cp.log, cp.done, cp.drvIn, cp.cuRoom, cp.drvRoom, cp.nextReq⟩

def V.upd (v : V) (i : Nat) (d : DV) : V := { v with ds := fun j => if j = i then d else v.ds j }

/-- the atomic steps of a tick, on the view -/
inductive VStep : V → V → Prop
  /-- an overhead cycle passes -/
  | cyc (v : V) (i c : Nat) (hi : i < v.n) (h : (v.ds i).cyc = c + 1) :
      VStep v (v.upd i { v.ds i with cyc := c })
  /-- a `MapWGReq` is sent: next index of the dispatcher's kernel, fresh request id -/
  | map (v : V) (i : Nat) (k : Kern) (c : Nat) (locs : List Loc) (hi : i < v.n)
      (hk : (v.ds i).kern = some k) (hlt : (v.ds i).nd < k.numWG) (hr : 0 < v.cuRoom) :
      VStep v (({ v with log := .map v.nextReq c k.id (v.ds i).nd locs :: v.log,
                         nextReq := v.nextReq + 1, cuRoom := v.cuRoom - 1 } : V).upd i
        { v.ds i with nd := (v.ds i).nd + 1, infl := v.nextReq :: (v.ds i).infl, cyc := 0 })
  /-- the owner consumes the completion of an in-flight request -/
  | done (v : V) (i r cyc' : Nat) (hi : i < v.n) (hr : r ∈ (v.ds i).infl) :
      VStep v (({ v with done := r :: v.done } : V).upd i
        { v.ds i with nc := (v.ds i).nc + 1, infl := (v.ds i).infl.filter (· ≠ r), cyc := cyc' })
  /-- `LaunchKernelRsp` is sent: everything mapped and completed -/
  | rsp (v : V) (i : Nat) (k : Kern) (hi : i < v.n) (hk : (v.ds i).kern = some k)
      (hnd : (v.ds i).nd = k.numWG) (hnc : (v.ds i).nc = k.numWG) (hfl : (v.ds i).infl = [])
      (hr : 0 < v.drvRoom) :
      VStep v (({ v with log := .rsp k.id :: v.log, drvRoom := v.drvRoom - 1 } : V).upd i
        { v.ds i with kern := none })
  /-- an idle dispatcher takes the launch at the head of the queue -/
  | start (v : V) (i : Nat) (k : Kern) (rest : List Kern) (cyc' : Nat) (hi : i < v.n)
      (hd : v.drvIn = k :: rest) (hk : (v.ds i).kern = none) :
      VStep v (({ v with drvIn := rest } : V).upd i
        { v.ds i with kern := some k, nd := 0, nc := 0, cyc := cyc' })

/-- a sequence of atomic steps; the flag says whether it is non-empty -/
inductive Steps : Bool → V → V → Prop
  | refl (v : V) : Steps false v v
  | cons {b : Bool} {v v' v'' : V} : VStep v v' → Steps b v' v'' → Steps true v v''

theorem Steps.eq_of_false {v v' : V} (h : Steps false v v') : v = v' := by
  cases h; rfl

theorem Steps.trans {b1 b2 : Bool} {v1 v2 v3 : V} (h1 : Steps b1 v1 v2) (h2 : Steps b2 v2 v3) :
    Steps (b1 || b2) v1 v3 := by
  induction h1 with
  | refl v => simpa using h2
  | cons s _ ih => exact Steps.cons s (ih h2)

theorem Steps.one {v v' : V} (s : VStep v v') : Steps true v v' := Steps.cons s (Steps.refl _)

theorem Steps.of_eq {v v' : V} (h : v = v') : Steps false v v' := by subst h; exact Steps.refl _

/-- forgetting the flag -/
theorem Steps.weaken {b : Bool} {v v' : V} (h : Steps b v v') : ∃ b', Steps b' v v' := ⟨b, h⟩

theorem view_setDisp (X : CP) (i : Nat) (d : Disp) (hi : i < X.disps.length) :
    (X.setDisp i d).view = X.view.upd i d.view := by
  apply V.ext
  · simp [CP.view, CP.setDisp, V.upd]
  · funext j
    show ((X.setDisp i d).disp j).view = if j = i then d.view else (X.disp j).view
    rw [disp_setDisp]
    by_cases hj : j = i
    · subst hj; simp [hi]
    · have : ¬ (i = j ∧ i < X.disps.length) := fun hc => hj hc.1.symm
      simp [this, hj]
  all_goals rfl

theorem view_setDisp_oob (X : CP) (i : Nat) (d : Disp) (hi : ¬ i < X.disps.length) :
    (X.setDisp i d).view = X.view := by
  have : X.setDisp i d = X := by
    cases X
    simp only [CP.setDisp] at hi ⊢
    congr
    exact List.set_eq_of_length_le (by omega)
  rw [this]

/-- a step that keeps every dispatcher's view and the global fields -/
theorem view_eq_of (cp cp' : CP) (hlen : cp'.disps.length = cp.disps.length)
    (hd : ∀ j, (cp'.disp j).view = (cp.disp j).view) (h1 : cp'.log = cp.log) (h2 : cp'.done = cp.done)
    (h3 : cp'.drvIn = cp.drvIn) (h4 : cp'.cuRoom = cp.cuRoom) (h5 : cp'.drvRoom = cp.drvRoom)
    (h6 : cp'.nextReq = cp.nextReq) : cp'.view = cp.view := by
  apply V.ext
  · exact hlen
  · funext j; exact hd j
  all_goals assumption

/-! ## `algorithm.Next` and the first half of `dispatchNextWG` do not touch the view -/

theorem algNext_fields (cp : CP) (i : Nat) :
    (algNext cp i).1.drvRoom = cp.drvRoom ∧ (algNext cp i).1.done = cp.done ∧
    (algNext cp i).1.cuIn = cp.cuIn := by
  cases hak : (cp.disp i).alg.kern with
  | none => rw [algNext_kern_none cp i hak]; exact ⟨rfl, rfl, rfl⟩
  | some k =>
    unfold algNext
    simp only [hak]
    cases hc : (cp.disp i).alg.currWG with
    | none =>
      simp only []
      rcases ht : tryCUs cp.nextKey (k.dem (cp.disp i).alg.pos)
        (cuOrder cp.cfg.greedy cp.pool.length (cp.disp i).alg.nextCU) cp.pool with ⟨r, pool'⟩
      cases r <;> exact ⟨rfl, rfl, rfl⟩
    | some w =>
      simp only []
      rcases ht : tryCUs w.1 (k.dem w.2)
        (cuOrder cp.cfg.greedy cp.pool.length (cp.disp i).alg.nextCU) cp.pool with ⟨r, pool'⟩
      cases r <;> exact ⟨rfl, rfl, rfl⟩

theorem algNext_view (cp : CP) (i : Nat) : (algNext cp i).1.view = cp.view := by
  obtain ⟨a', hdj, hnr, hlog, hlen, _⟩ := algNext_shape cp i
  obtain ⟨f1, f2, _⟩ := algNext_fields cp i
  refine view_eq_of cp _ hlen ?_ hlog f2 (algNext_drvIn cp i) (algNext_cuRoom cp i) f1 hnr
  intro j; rw [hdj j]; split
  · rename_i h; obtain ⟨rfl, _⟩ := h; rfl
  · rfl

theorem pre_view (cp : CP) (i : Nat) : (pre cp i).1.view = cp.view ∧ (pre cp i).1.cuIn = cp.cuIn := by
  cases hcw : (cp.disp i).currWG with
  | some dl => rw [pre_some cp i dl hcw]; exact ⟨rfl, rfl⟩
  | none =>
    by_cases hn : (cp.disp i).alg.hasNext = true
    · rw [pre_none_yes cp i hcw hn]
      refine ⟨?_, (algNext_fields cp i).2.2⟩
      by_cases hi : i < (algNext cp i).1.disps.length
      · rw [view_setDisp _ _ _ hi, ← algNext_view cp i]
        apply V.ext <;> try rfl
        funext j
        show (if j = i then _ else _) = _
        by_cases hj : j = i
        · subst hj; simp only [if_true]; rfl
        · simp only [hj, if_false]
      · rw [view_setDisp_oob _ _ _ hi]; exact algNext_view cp i
    · rw [pre_none_no cp i hcw hn]; exact ⟨rfl, rfl⟩

/-! ## sending the `MapWGReq` -/

theorem tail_cuIn (cp1 : CP) (i : Nat) (cur : Option DLoc) : (tailF cp1 i cur).1.cuIn = cp1.cuIn := by
  unfold tailF
  cases cur with
  | none => rfl
  | some dl =>
    simp only []
    by_cases hf : cp1.fault.isSome = true
    · simp [hf]
    · by_cases hr : cp1.cuRoom = 0
      · simp [hf, hr]
      · by_cases hb : dl.locs.length > 16
        · simp only [hf, hr, hb, if_true, if_false]; rfl
        · simp only [hf, hr, hb, if_false]; rfl

theorem tail_steps (cp1 : CP) (i : Nat) (cur : Option DLoc) (h : DCI cp1)
    (hcur : (cp1.disp i).currWG = cur) :
    Steps (tailF cp1 i cur).2 cp1.view (tailF cp1 i cur).1.view := by
  cases cur with
  | none => exact Steps.refl _
  | some dl =>
    have hi : i < cp1.disps.length := by
      by_cases hi : i < cp1.disps.length
      · exact hi
      · rw [disp_oob cp1 i hi] at hcur; cases hcur
    have hd := h i
    cases hk : (cp1.disp i).kern with
    | none => have := (hd.idle hk).1; rw [this] at hcur; cases hcur
    | some k =>
      obtain ⟨c1, c2⟩ := hd.cur k dl hk hcur
      have hcnt := hd.cnt k hk
      have hle := hd.le k hk
      simp only [hcur, Option.isSome_some, if_true] at hcnt
      unfold tailF
      simp only []
      by_cases hf : cp1.fault.isSome = true
      · simp only [hf, if_true]; exact Steps.refl _
      · by_cases hr : cp1.cuRoom = 0
        · simp only [hf, hr, if_true, if_false, Bool.false_eq_true]; exact Steps.refl _
        · have hstep := VStep.map cp1.view i k dl.cu dl.locs hi hk (by show (cp1.disp i).nd < _; omega)
            (by show 0 < cp1.cuRoom; omega)
          have hview : Steps true cp1.view ((CP.emit { cp1 with cuRoom := cp1.cuRoom - 1, nextReq := cp1.nextReq + 1 }
                (.map cp1.nextReq dl.cu dl.launch dl.idx dl.locs)).setDisp i
                { cp1.disp i with currWG := none, nd := (cp1.disp i).nd + 1,
                                  inflight := (cp1.nextReq, dl) :: (cp1.disp i).inflight, cycleLeft := 0 }).view := by
            rw [view_setDisp _ _ _ (by exact hi)]
            rw [c1, c2]
            exact Steps.one hstep
          by_cases hb : dl.locs.length > 16
          · simp only [hf, hr, hb, if_true, if_false, Bool.false_eq_true]
            exact hview
          · simp only [hf, hr, hb, if_false, Bool.false_eq_true]
            exact hview

theorem dispatchNextWG_steps (cp : CP) (i : Nat) (h : DCI cp) :
    Steps (dispatchNextWG cp i).2 cp.view (dispatchNextWG cp i).1.view ∧
    (dispatchNextWG cp i).1.cuIn = cp.cuIn := by
  rw [dispatchNextWG_eq]
  obtain ⟨h1, h2, _⟩ := pre_spec cp i h
  have t1 := tail_steps _ i _ h1 h2
  have t2 := tail_cuIn (pre cp i).1 i (pre cp i).2
  obtain ⟨p1, p2⟩ := pre_view cp i
  rw [p1] at t1
  exact ⟨t1, t2.trans p2⟩

theorem dispatchLoop_steps (i : Nat) : ∀ (n : Nat) (cp : CP), DCI cp →
    Steps (dispatchLoop i n cp).2 cp.view (dispatchLoop i n cp).1.view ∧
    (dispatchLoop i n cp).1.cuIn = cp.cuIn := by
  intro n
  induction n with
  | zero => intro cp _; exact ⟨Steps.refl _, rfl⟩
  | succ n ih =>
    intro cp hdc
    obtain ⟨s1, c1⟩ := dispatchNextWG_steps cp i hdc
    have d1 := dispatchNextWG_DCI cp i hdc
    simp only [dispatchLoop]
    by_cases hc : (!(dispatchNextWG cp i).2 || decide (((dispatchNextWG cp i).1.disp i).cycleLeft > 0)
        || (dispatchNextWG cp i).1.fault.isSome) = true
    · simp only [hc, if_true]; exact ⟨s1, c1⟩
    · simp only [hc]
      obtain ⟨s2, c2⟩ := ih _ d1
      have hb : (dispatchNextWG cp i).2 = true := by
        cases hx : (dispatchNextWG cp i).2 with
        | true => rfl
        | false => rw [hx] at hc; simp at hc
      rw [hb] at s1
      exact ⟨by simpa using s1.trans s2, c2.trans c1⟩

/-! ## completions -/

theorem view_complete (d : Disp) (id c : Nat) :
    ({ d with inflight := d.inflight.filter (·.1 ≠ id), nc := d.nc + 1, cycleLeft := c } : Disp).view =
      { d.view with nc := d.view.nc + 1, infl := d.view.infl.filter (· ≠ id), cyc := c } := by
  have hflt : (d.inflight.filter (·.1 ≠ id)).map (·.1) = (d.inflight.map (·.1)).filter (· ≠ id) := by
    rw [List.filter_map]; rfl
  simp only [Disp.view, hflt]

theorem completeOne_steps (cp : CP) (i id : Nat) (e : Nat × DLoc)
    (hf : (cp.disp i).inflight.find? (·.1 = id) = some e) :
    Steps true cp.view (completeOne cp i id).view ∧ (completeOne cp i id).cuIn = cp.cuIn := by
  have hi : i < cp.disps.length := by
    by_cases hi : i < cp.disps.length
    · exact hi
    · rw [disp_oob cp i hi] at hf; simp [default] at hf
  have hmem := List.mem_of_find?_eq_some hf
  have hid : e.1 = id := by simpa using List.find?_some hf
  have hin : id ∈ (cp.view.ds i).infl := by
    show id ∈ (cp.disp i).inflight.map (·.1)
    exact List.mem_map.2 ⟨e, hmem, hid⟩
  obtain ⟨x, dl⟩ := e
  have hstep := VStep.done cp.view i id
      (if (cp.disp i).nc + 1 = (cp.disp i).alg.numWG then cp.cfg.ko else (cp.disp i).cycleLeft) hi hin
  unfold completeOne
  simp only [hf]
  cases hfree : free (cp.pool.getD dl.cu default) dl.key with
  | none =>
    simp only []
    refine ⟨?_, rfl⟩
    rw [view_setDisp _ _ _ (by exact hi), view_complete]
    exact Steps.one hstep
  | some cu' =>
    simp only []
    refine ⟨?_, rfl⟩
    rw [view_setDisp _ _ _ (by exact hi), view_complete]
    exact Steps.one hstep

theorem consume_steps (i : Nat) : ∀ (ids : List Nat) (cp : CP),
    ∃ b, Steps b cp.view (consume i ids cp).1.view ∧ (consume i ids cp).1.cuIn = cp.cuIn ∧
      ((ids.any fun id => (cp.disp i).inflight.any (·.1 = id)) = true → b = true) := by
  intro ids
  induction ids with
  | nil => intro cp; exact ⟨false, Steps.refl _, rfl, by simp⟩
  | cons id ids ih =>
    intro cp
    simp only [consume]
    by_cases hany : (cp.disp i).inflight.any (·.1 = id) = true
    · simp only [hany, if_true]
      have hsome : ∃ e, (cp.disp i).inflight.find? (·.1 = id) = some e := by
        obtain ⟨e, he, hp⟩ := List.any_eq_true.1 hany
        cases hfd : (cp.disp i).inflight.find? (·.1 = id) with
        | some e' => exact ⟨e', rfl⟩
        | none => exact absurd hp (List.find?_eq_none.1 hfd e he)
      obtain ⟨e, he⟩ := hsome
      obtain ⟨s1, c1⟩ := completeOne_steps cp i id e he
      obtain ⟨b, s2, c2, _⟩ := ih (completeOne cp i id)
      exact ⟨true, by simpa using s1.trans s2, c2.trans c1, fun _ => rfl⟩
    · simp only [hany]
      obtain ⟨b, s2, c2, hb⟩ := ih cp
      refine ⟨b, s2, c2, ?_⟩
      intro h
      rw [List.any_cons] at h
      simp only [hany, Bool.false_or] at h
      exact hb h

theorem procMsgs_steps (i : Nat) : ∀ (n : Nat) (cp : CP),
    Steps (procMsgs i n cp).2 cp.view (procMsgs i n cp).1.view := by
  intro n
  induction n with
  | zero => intro cp; exact Steps.refl _
  | succ n ih =>
    intro cp
    unfold procMsgs
    cases hcu : cp.cuIn with
    | nil => exact Steps.refl _
    | cons ids rest =>
      simp only []
      obtain ⟨b, s1, _, hb⟩ := consume_steps i ids cp
      by_cases hv : (ids.any fun id => (cp.disp i).inflight.any (·.1 = id)) = true
      · have hbt := hb hv
        subst hbt
        simp only [hv, Bool.not_true, Bool.false_eq_true, if_false]
        split
        · exact s1
        · split
          · have s2 := ih { (consume i ids cp).1 with cuIn := rest }
            have : Steps (true || _) cp.view _ := s1.trans s2
            simpa using this
          · exact s1
      · simp only [hv, Bool.not_false, if_true]
        exact Steps.refl _

/-! ## the response -/

theorem completeKernel_steps (cp : CP) (i : Nat) (h : DCI cp) (hks : (cp.disp i).kern.isSome = true)
    (hkc : kernelCompleted (cp.disp i) = true) :
    Steps (completeKernel cp i).2 cp.view (completeKernel cp i).1.view := by
  have hi : i < cp.disps.length := by
    by_cases hi : i < cp.disps.length
    · exact hi
    · rw [disp_oob cp i hi] at hks; cases hks
  unfold completeKernel
  cases hk : (cp.disp i).kern with
  | none => rw [hk] at hks; cases hks
  | some k =>
    simp only [hk]
    by_cases hr : cp.drvRoom = 0
    · simp only [hr, if_true]; exact Steps.refl _
    · simp only [hr, if_false]
      obtain ⟨r1, r2, r3, _⟩ := rsp_only_when_complete cp i k h hk hkc
      rw [view_setDisp _ _ _ (by exact hi)]
      have := VStep.rsp cp.view i k hi hk r1 r2 (by show (cp.disp i).inflight.map (·.1) = []; rw [r3]; rfl)
        (by show 0 < cp.drvRoom; omega)
      exact Steps.one this

/-! ## a dispatcher tick, all dispatchers, the launch queue, the whole tick -/

theorem dispTick_steps (cp : CP) (i : Nat) (h : DCI cp) :
    Steps (dispTick cp i).2 cp.view (dispTick cp i).1.view := by
  unfold dispTick
  by_cases hc : (cp.disp i).cycleLeft > 0
  · simp only [hc, if_true]
    have hi : i < cp.disps.length := by
      by_cases hi : i < cp.disps.length
      · exact hi
      · rw [disp_oob cp i hi] at hc; simp [default] at hc
    rw [view_setDisp _ _ _ hi]
    have := VStep.cyc cp.view i ((cp.disp i).cycleLeft - 1) hi (by show (cp.disp i).cycleLeft = _; omega)
    exact Steps.one this
  · simp only [hc, if_false]
    have key : ∀ r1 : CP × Bool, Steps r1.2 cp.view r1.1.view →
        Steps (if r1.1.fault.isSome then r1 else
          let r2 := procMsgs i 8 r1.1
          (r2.1, r1.2 || r2.2)).2 cp.view (if r1.1.fault.isSome then r1 else
          let r2 := procMsgs i 8 r1.1
          (r2.1, r1.2 || r2.2)).1.view := by
      intro r1 hr1
      by_cases hf : r1.1.fault.isSome = true
      · simp only [hf, if_true]; exact hr1
      · simp only [hf]; exact hr1.trans (procMsgs_steps i 8 r1.1)
    refine key _ ?_
    by_cases hks : (cp.disp i).kern.isSome = true
    · simp only [hks, if_true]
      by_cases hkc : kernelCompleted (cp.disp i) = true
      · simp only [hkc, if_true]; exact completeKernel_steps cp i h hks hkc
      · simp only [hkc]; exact (dispatchLoop_steps i 8 cp h).1
    · simp only [hks]; exact Steps.refl _

theorem tickDispatchers_steps : ∀ (is : List Nat) (cp : CP), DCI cp →
    Steps (tickDispatchers is cp).2 cp.view (tickDispatchers is cp).1.view := by
  intro is
  induction is with
  | nil => intro cp _; exact Steps.refl _
  | cons i is ih =>
    intro cp hdc
    simp only [tickDispatchers]
    by_cases hf : cp.fault.isSome = true
    · simp only [hf, if_true]; exact Steps.refl _
    · simp only [hf]
      exact (dispTick_steps cp i hdc).trans (ih _ (dispTick_DCI cp i hdc))

theorem handleLaunch_steps (cp : CP) : Steps (handleLaunch cp).2 cp.view (handleLaunch cp).1.view := by
  rcases handleLaunch_cases cp with e | ⟨e, _⟩
  case inr => rw [e]; exact Steps.refl _   -- a rejection: no step of the view (only the fault is raised)
  rw [e]
  unfold handleLaunchOld
  cases hdr : cp.drvIn with
  | nil => exact Steps.refl _
  | cons k rest =>
    simp only []
    cases hfa : findAvailable cp.disps with
    | none => exact Steps.refl _
    | some i =>
      simp only []
      unfold findAvailable at hfa
      rw [List.findIdx?_eq_some_iff_getElem] at hfa
      obtain ⟨hi, hp, _⟩ := hfa
      have hdi : cp.disp i = cp.disps[i] := by simp [CP.disp, List.getD_eq_getElem?_getD, hi]
      have hkn : (cp.disp i).kern = none := by
        rw [hdi]; cases hx : cp.disps[i].kern with
        | none => rfl
        | some _ => rw [hx] at hp; simp at hp
      rw [view_setDisp _ _ _ (by exact hi)]
      have := VStep.start cp.view i k rest (startDispatching cp.cfg (cp.disp i) k).cycleLeft hi hdr hkn
      exact Steps.one this

theorem cpTick_steps (cp : CP) (h : DCI cp) : Steps (cpTick cp).2 cp.view (cpTick cp).1.view := by
  have h1 := tickDispatchers_steps (List.range cp.disps.length) cp h
  unfold cpTick
  by_cases hf : (tickDispatchers (List.range cp.disps.length) cp).1.fault.isSome = true
  · simp only [hf, if_true]; exact h1
  · simp only [hf]
    have h2 := handleLaunch_steps (tickDispatchers (List.range cp.disps.length) cp).1
    have h3 := handleLaunch_steps (handleLaunch (tickDispatchers (List.range cp.disps.length) cp).1).1
    have := (h1.trans h2).trans h3
    exact this

/-- **a tick that reports no progress leaves the accounting view unchanged** -/
theorem cpTick_false_view (cp : CP) (h : DCI cp) (hb : (cpTick cp).2 = false) :
    (cpTick cp).1.view = cp.view := by
  have := cpTick_steps cp h
  rw [hb] at this
  exact this.eq_of_false.symm

end C09
