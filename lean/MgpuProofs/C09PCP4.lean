import MgpuProofs.C09PCP3
/-! # C09 — partition algorithm inside the command processor, part 4: the invariant `PInv`.

`PInv caps Ks p cp` = pool / identity part `KInv` (every CU keeps `Inv`; resident and pending work-group
objects come from the counter; a pending object is resident nowhere; no object sits in two `currWGs` slots,
of one or of two dispatchers) + "reserving twice" was not hit + per-dispatcher accounting `DInv` (the analogue
of `DC`, with the stand-alone partition invariant `PI` in place of "grid order") + the trace invariant `TInv`
+ queued launches are well formed. -/
namespace C09

/-! ## pool and identities over all dispatchers -/

/-- identities pending in the dispatchers other than `i` -/
def Others (A : Nat → PAlg) (i : Nat) (κ : Nat) : Prop := ∃ j, j ≠ i ∧ (A j).pend κ

structure KInv (caps : List (List Nat)) (pool : List CU) (nk : Nat) (A : Nat → PAlg) : Prop where
  pinv : PoolInv caps pool
  res : ∀ κ, Res pool κ → κ < nk
  pend : ∀ j κ, (A j).pend κ → κ < nk ∧ ¬ Res pool κ
  inj : ∀ j j' p p' w w', (A j).part.curAt p = some w → (A j').part.curAt p' = some w' →
    (A j).keyAt p = (A j').keyAt p' → j = j' ∧ p = p'
  klen : ∀ j, (A j).keys.length = (A j).part.n

theorem KInv.toKS {caps pool nk A} (h : KInv caps pool nk A) (i : Nat) : KS (Others A i) (A i) pool nk :=
  { klen := h.klen i
    res := h.res
    pend := by
      rintro κ ⟨p, w, hw, hk⟩
      refine ⟨(h.pend i κ ⟨p, w, hw, hk⟩).1, (h.pend i κ ⟨p, w, hw, hk⟩).2, ?_⟩
      rintro ⟨j, hji, p', w', hw', hk'⟩
      exact hji (h.inj j i p' p w' w hw' hw (by rw [hk', hk])).1
    inj := fun p p' w w' hw hw' hk => (h.inj i i p p' w w' hw hw' hk).2
    oth := by
      rintro κ ⟨j, _, hp⟩
      exact h.pend j κ hp }

/-- the state after a `Next` of dispatcher `i` -/
theorem KInv_of_KS {caps pool nk A} (h : KInv caps pool nk A) (i : Nat) (a' : PAlg) (pool' : List CU)
    (nk' : Nat) (hp : PoolInv caps pool') (hks : KS (Others A i) a' pool' nk') :
    KInv caps pool' nk' (upd A i a') :=
  { pinv := hp
    res := hks.res
    pend := by
      intro j κ hj
      by_cases hji : j = i
      · subst hji; rw [upd_same] at hj
        exact ⟨(hks.pend κ hj).1, (hks.pend κ hj).2.1⟩
      · rw [upd_other _ _ _ _ hji] at hj
        exact hks.oth κ ⟨j, hji, hj⟩
    inj := by
      intro j j' p p' w w' hw hw' hk
      by_cases hji : j = i <;> by_cases hji' : j' = i
      · subst hji; subst hji'
        rw [upd_same] at hw hw' hk
        exact ⟨rfl, hks.inj p p' w w' hw hw' hk⟩
      · subst hji
        rw [upd_same] at hw hk
        rw [upd_other _ _ _ _ hji'] at hw' hk
        exact absurd ⟨j', hji', p', w', hw', hk.symm⟩ (hks.pend _ ⟨p, w, hw, rfl⟩).2.2
      · subst hji'
        rw [upd_same] at hw' hk
        rw [upd_other _ _ _ _ hji] at hw hk
        exact absurd ⟨j, hji, p, w, hw, hk⟩ (hks.pend _ ⟨p', w', hw', rfl⟩).2.2
      · rw [upd_other _ _ _ _ hji] at hw hk
        rw [upd_other _ _ _ _ hji'] at hw' hk
        exact h.inj j j' p p' w w' hw hw' hk
    klen := by
      intro j
      by_cases hji : j = i
      · subst hji; rw [upd_same]; exact hks.klen
      · rw [upd_other _ _ _ _ hji]; exact h.klen j }

/-- a step that only removes resident entries -/
theorem KInv_shrink {caps pool nk A} (h : KInv caps pool nk A) (pool' : List CU) (hp : PoolInv caps pool')
    (hsub : ∀ κ, Res pool' κ → Res pool κ) : KInv caps pool' nk A :=
  { pinv := hp
    res := fun κ hk => h.res κ (hsub κ hk)
    pend := fun j κ hj => ⟨(h.pend j κ hj).1, fun hr => (h.pend j κ hj).2 (hsub κ hr)⟩
    inj := h.inj
    klen := h.klen }

/-- `StartNewKernel` of dispatcher `i`: its `currWGs` are all nil -/
theorem KInv_start {caps pool nk A} (h : KInv caps pool nk A) (i : Nat) (a0 : PAlg)
    (hno : ∀ p, a0.part.curAt p = none) (hkl : a0.keys.length = a0.part.n) : KInv caps pool nk (upd A i a0) :=
  { pinv := h.pinv
    res := h.res
    pend := by
      intro j κ hj
      by_cases hji : j = i
      · subst hji; rw [upd_same] at hj
        obtain ⟨p, w, hw, _⟩ := hj
        rw [hno p] at hw; cases hw
      · rw [upd_other _ _ _ _ hji] at hj; exact h.pend j κ hj
    inj := by
      intro j j' p p' w w' hw hw' hk
      by_cases hji : j = i
      · subst hji; rw [upd_same] at hw; rw [hno p] at hw; cases hw
      · by_cases hji' : j' = i
        · subst hji'; rw [upd_same] at hw'; rw [hno p'] at hw'; cases hw'
        · rw [upd_other _ _ _ _ hji] at hw hk
          rw [upd_other _ _ _ _ hji'] at hw' hk
          exact h.inj j j' p p' w w' hw hw' hk
    klen := by
      intro j
      by_cases hji : j = i
      · subst hji; rw [upd_same]; exact hkl
      · rw [upd_other _ _ _ _ hji]; exact h.klen j }

/-! ## one dispatcher -/

/-- what the invariants read of a dispatcher -/
structure PDV where
  alg : PAlg
  kern : Option Kern
  cur : Option DLoc
  nd : Nat
  nc : Nat
  infl : List (Nat × DLoc)

def PDisp.dv (d : PDisp) : PDV := ⟨d.alg, d.kern, d.currWG, d.nd, d.nc, d.inflight⟩

/-- indices already sent in `MapWGReq`s for the current launch, newest first -/
def sent (d : PDV) : List Nat := if d.cur.isSome then d.alg.hist.tail else d.alg.hist

/-- accounting invariant of one dispatcher (`npool` = number of CUs, `nreq` = the request-id counter) -/
structure DInv (npool nreq : Nat) (d : PDV) : Prop where
  /-- an idle dispatcher holds nothing -/
  idle : d.kern = none → d.cur = none ∧ d.infl = []
  /-- the algorithm works on the dispatcher's kernel, which is well formed -/
  algK : ∀ k, d.kern = some k → d.alg.kern = some k ∧ KernOK k
  /-- the partition bookkeeping satisfies the stand-alone invariant for the indices placed so far -/
  pi : ∀ k, d.kern = some k → PI d.alg.part d.alg.hist ∧ d.alg.part.numWG = k.numWG ∧ d.alg.part.n = npool
  /-- mapped + placed-but-unsent = numDispatchedWG -/
  cnt : ∀ k, d.kern = some k → d.nd + (if d.cur.isSome then 1 else 0) = d.alg.part.nd
  /-- the placed-but-unsent work-group belongs to this kernel and is the one placed last -/
  cur : ∀ k dl, d.kern = some k → d.cur = some dl → dl.launch = k.id ∧ ∃ t, d.alg.hist = dl.idx :: t
  /-- completed + in flight = mapped -/
  fl : d.nc + d.infl.length = d.nd
  /-- request ids in flight are distinct -/
  ids : (d.infl.map (·.1)).Nodup
  /-- request ids in flight were issued -/
  idlt : ∀ e ∈ d.infl, e.1 < nreq

theorem DInv.mono {npool n n' : Nat} {d : PDV} (h : DInv npool n d) (hn : n ≤ n') : DInv npool n' d :=
  { h with idlt := fun e he => Nat.lt_of_lt_of_le (h.idlt e he) hn }

/-- never more dispatched than the grid has -/
theorem DInv.nd_le {npool n : Nat} {d : PDV} (h : DInv npool n d) (k : Kern) (hk : d.kern = some k) :
    d.alg.part.nd ≤ k.numWG := by
  obtain ⟨p1, p2, _⟩ := h.pi k hk
  rw [← p2]; exact PI_nd_le _ _ p1

/-! ## the command processor -/

def PCP.dvs (cp : PCP) : Nat → PDV := fun j => (cp.disp j).dv

structure PInv (b : Bool) (caps : List (List Nat)) (Ks : List Kern) (p : List Nat) (cp : PCP) : Prop where
  k : KInv caps cp.pool cp.nextKey (fun j => (cp.dvs j).alg)
  noTwice : cp.fault ≠ some "twice"
  d : ∀ j, DInv cp.pool.length cp.nextReq (cp.dvs j)
  /-- the trace part needs distinct launch ids; it is carried only when `b = true` (no other part depends on it) -/
  t : b = true → TInv cp.log cp.drvIn (fun j => (cp.dvs j).kern) (fun j => sent (cp.dvs j)) Ks p
  drv : ∀ k ∈ cp.drvIn, KernOK k

theorem upd_comp {α β : Type} (f : α → β) (D : Nat → α) (i : Nat) (x : α) :
    (fun j => f (upd D i x j)) = upd (fun j => f (D j)) i (f x) := by
  funext j
  by_cases h : j = i
  · subst h; simp [upd]
  · simp [upd, h]

theorem upd_upd {α : Type} (D : Nat → α) (i : Nat) (x y : α) : upd (upd D i x) i y = upd D i y := by
  funext j
  by_cases h : j = i
  · subst h; simp [upd]
  · simp [upd, h]

theorem upd_self {α : Type} (D : Nat → α) (i : Nat) (x : α) (h : x = D i) : upd D i x = D := by
  funext j
  by_cases hj : j = i
  · subst hj; simp [upd, h]
  · simp [upd, hj]

theorem pdisp_setDisp (cp : PCP) (i j : Nat) (d : PDisp) :
    (cp.setDisp i d).disp j = if i = j ∧ i < cp.disps.length then d else cp.disp j := by
  simp only [PCP.setDisp, PCP.disp, List.getD_eq_getElem?_getD, List.getElem?_set]
  by_cases h : i = j
  · subst h
    by_cases h2 : i < cp.disps.length
    · simp [h2]
    · simp [h2]
  · simp [h]

theorem pdisp_oob (cp : PCP) (j : Nat) (h : ¬ j < cp.disps.length) : cp.disp j = default := by
  simp only [PCP.disp, List.getD_eq_getElem?_getD]
  rw [List.getElem?_eq_none (by omega)]; rfl

theorem dvs_setDisp (cp : PCP) (i : Nat) (d : PDisp) (hi : i < cp.disps.length) :
    (cp.setDisp i d).dvs = upd cp.dvs i d.dv := by
  funext j
  show ((cp.setDisp i d).disp j).dv = _
  rw [pdisp_setDisp]
  by_cases h : j = i
  · subst h; simp [hi, upd]
  · have : ¬ (i = j ∧ i < cp.disps.length) := fun hc => h hc.1.symm
    simp [this, upd, h, PCP.dvs]

/-- a busy dispatcher exists -/
theorem lt_of_kern (cp : PCP) (i : Nat) (k : Kern) (h : (cp.disp i).kern = some k) : i < cp.disps.length := by
  by_cases hi : i < cp.disps.length
  · exact hi
  · rw [pdisp_oob cp i hi] at h; cases h

/-- rebuilding the invariant after a step that rewrites dispatcher `i` only -/
theorem PInv_upd {b caps Ks p} (cp cp' : PCP) (i : Nat) (dv' : PDV) (h : PInv b caps Ks p cp)
    (hdvs : cp'.dvs = upd cp.dvs i dv')
    (hk : KInv caps cp'.pool cp'.nextKey (upd (fun j => (cp.dvs j).alg) i dv'.alg))
    (hnt : cp'.fault ≠ some "twice")
    (hnr : cp.nextReq ≤ cp'.nextReq)
    (hdi : DInv cp'.pool.length cp'.nextReq dv')
    (ht : b = true → TInv cp'.log cp'.drvIn (upd (fun j => (cp.dvs j).kern) i dv'.kern)
            (upd (fun j => sent (cp.dvs j)) i (sent dv')) Ks p)
    (hdrv : ∀ k ∈ cp'.drvIn, KernOK k) : PInv b caps Ks p cp' := by
  have hlen : cp'.pool.length = cp.pool.length := by rw [hk.pinv.1, h.k.pinv.1]
  exact {
    k := by
      have e : (fun j => (upd cp.dvs i dv' j).alg) = upd (fun j => (cp.dvs j).alg) i dv'.alg :=
        upd_comp (fun d : PDV => d.alg) cp.dvs i dv'
      rw [hdvs, e]; exact hk
    noTwice := hnt
    d := by
      intro j
      rw [hdvs]
      by_cases hj : j = i
      · subst hj; rw [upd_same]; exact hdi
      · rw [upd_other _ _ _ _ hj, hlen]; exact (h.d j).mono hnr
    t := by
      have e1 : (fun j => (upd cp.dvs i dv' j).kern) = upd (fun j => (cp.dvs j).kern) i dv'.kern :=
        upd_comp (fun d : PDV => d.kern) cp.dvs i dv'
      have e2 : (fun j => sent (upd cp.dvs i dv' j)) = upd (fun j => sent (cp.dvs j)) i (sent dv') :=
        upd_comp sent cp.dvs i dv'
      rw [hdvs, e1, e2]; exact ht
    drv := hdrv }

end C09
