import MgpuModel.C14
import MgpuProofs.C14Run
/-! # C14 — the issue arbiter and `DoIssue`: only Ready wavefronts issue

Discharges the issue rules of `legal` (`MgpuProofs/C14Run.lean`) from the model of
`IssueArbiter.Arbitrate` / `SchedulerImpl.DoIssue` (`MgpuModel/C14_Arb.lean`). -/
namespace C14.Arb

/-- the condition of `pickPool` as two facts -/
theorem arb_cond_iff (x : AWf) (mask : List Nat) :
    (eligible x && !mask.contains x.unit) = true ↔ eligible x = true ∧ x.unit ∉ mask := by
  simp only [Bool.and_eq_true, Bool.not_eq_true', List.contains_eq_mem, decide_eq_false_iff_not]

theorem arb_pickPool_cons_pos (x : AWf) (rest : List AWf) (mask : List Nat)
    (h : eligible x = true ∧ x.unit ∉ mask) :
    pickPool (x :: rest) mask = x :: pickPool rest (x.unit :: mask) := by
  rw [pickPool, if_pos ((arb_cond_iff x mask).mpr h)]

theorem arb_pickPool_cons_neg (x : AWf) (rest : List AWf) (mask : List Nat)
    (h : ¬ (eligible x = true ∧ x.unit ∉ mask)) :
    pickPool (x :: rest) mask = pickPool rest mask := by
  rw [pickPool, if_neg (fun hc => h ((arb_cond_iff x mask).mp hc))]

/-- everything `pickPool` returns is an eligible wavefront of the pool whose unit type was free -/
theorem pickPool_sound (pool : List AWf) (mask : List Nat) :
    ∀ w ∈ pickPool pool mask, w ∈ pool ∧ eligible w = true ∧ w.unit ∉ mask := by
  induction pool generalizing mask with
  | nil => intro w hw; simp [pickPool] at hw
  | cons x rest ih =>
    intro w hw
    by_cases hc : eligible x = true ∧ x.unit ∉ mask
    · rw [arb_pickPool_cons_pos x rest mask hc] at hw
      rcases List.mem_cons.mp hw with rfl | hw'
      · exact ⟨List.mem_cons_self, hc.1, hc.2⟩
      · obtain ⟨h1, h2, h3⟩ := ih _ w hw'
        exact ⟨List.mem_cons_of_mem _ h1, h2, fun h => h3 (List.mem_cons_of_mem _ h)⟩
    · rw [arb_pickPool_cons_neg x rest mask hc] at hw
      obtain ⟨h1, h2, h3⟩ := ih _ w hw
      exact ⟨List.mem_cons_of_mem _ h1, h2, h3⟩

/-- at most one wavefront per execution-unit type and pool -/
theorem pickPool_units_nodup (pool : List AWf) (mask : List Nat) :
    ((pickPool pool mask).map (·.unit)).Nodup := by
  induction pool generalizing mask with
  | nil => simp [pickPool]
  | cons x rest ih =>
    by_cases hc : eligible x = true ∧ x.unit ∉ mask
    · rw [arb_pickPool_cons_pos x rest mask hc, List.map_cons, List.nodup_cons]
      refine ⟨?_, ih _⟩
      intro hmem
      obtain ⟨v, hv, hve⟩ := List.mem_map.mp hmem
      have h3 := (pickPool_sound rest (x.unit :: mask) v hv).2.2
      have hve' : v.unit = x.unit := hve
      exact h3 (hve' ▸ List.mem_cons_self)
    · rw [arb_pickPool_cons_neg x rest mask hc]; exact ih _

/-- oldest first: the result keeps the pool's order -/
theorem pickPool_sublist (pool : List AWf) (mask : List Nat) : (pickPool pool mask).Sublist pool := by
  induction pool generalizing mask with
  | nil => simp [pickPool]
  | cons x rest ih =>
    by_cases hc : eligible x = true ∧ x.unit ∉ mask
    · rw [arb_pickPool_cons_pos x rest mask hc]; exact (ih _).cons_cons x
    · rw [arb_pickPool_cons_neg x rest mask hc]; exact (ih _).cons x

/-- ... and every eligible wavefront whose unit type is free is chosen unless an OLDER eligible
    wavefront of the pool has taken that type -/
theorem pickPool_oldest (A B : List AWf) (w : AWf) (mask : List Nat) (he : eligible w = true)
    (hm : w.unit ∉ mask) :
    ∃ v ∈ pickPool (A ++ w :: B) mask, v.unit = w.unit ∧ (v = w ∨ v ∈ A) := by
  induction A generalizing mask with
  | nil =>
    rw [List.nil_append, arb_pickPool_cons_pos w B mask ⟨he, hm⟩]
    exact ⟨w, List.mem_cons_self, rfl, Or.inl rfl⟩
  | cons x A ih =>
    rw [List.cons_append]
    by_cases hc : eligible x = true ∧ x.unit ∉ mask
    · rw [arb_pickPool_cons_pos x _ mask hc]
      by_cases hxu : x.unit = w.unit
      · exact ⟨x, List.mem_cons_self, hxu, Or.inr List.mem_cons_self⟩
      · have hm' : w.unit ∉ x.unit :: mask := by
          intro h
          rcases List.mem_cons.mp h with h | h
          · exact hxu h.symm
          · exact hm h
        obtain ⟨v, hv, hvu, hvw⟩ := ih _ hm'
        refine ⟨v, List.mem_cons_of_mem _ hv, hvu, ?_⟩
        rcases hvw with h | h
        · exact Or.inl h
        · exact Or.inr (List.mem_cons_of_mem _ h)
    · rw [arb_pickPool_cons_neg x _ mask hc]
      obtain ⟨v, hv, hvu, hvw⟩ := ih _ hm
      refine ⟨v, hv, hvu, ?_⟩
      rcases hvw with h | h
      · exact Or.inl h
      · exact Or.inr (List.mem_cons_of_mem _ h)

/-- a `getD` pool is a pool or empty -/
theorem arb_getD_mem (pools : List (List AWf)) (k : Nat) (w : AWf) (h : w ∈ pools.getD k []) :
    ∃ hk : k < pools.length, w ∈ pools[k] := by
  rw [List.getD_eq_getElem?_getD] at h
  by_cases hk : k < pools.length
  · rw [List.getElem?_eq_getElem hk] at h
    exact ⟨hk, h⟩
  · rw [List.getElem?_eq_none (by omega)] at h
    simp at h

/-- `Arbitrate` returns only wavefronts that are `WfReady`, hold a decoded instruction and have no
    scoreboard hazard, each from one of the pools -/
theorem arbitrate_sound (last : Nat) (pools : List (List AWf)) :
    ∀ w ∈ (arbitrate last pools).1, (w.state = 1 ∧ w.hasInst = true ∧ w.hazard = false) ∧ ∃ p ∈ pools, w ∈ p := by
  intro w hw
  unfold arbitrate at hw
  split at hw
  · simp at hw
  · obtain ⟨i, _, hw'⟩ := List.mem_flatMap.mp hw
    obtain ⟨hmem, hel, _⟩ := pickPool_sound _ [] w hw'
    obtain ⟨hk, hmem'⟩ := arb_getD_mem pools _ w hmem
    refine ⟨?_, _, List.getElem_mem hk, hmem'⟩
    unfold eligible at hel
    simp only [Bool.and_eq_true, beq_iff_eq, Bool.not_eq_true'] at hel
    exact ⟨hel.1.1, hel.1.2, hel.2⟩

theorem arb_mod_inj_lt (n last i j : Nat) (hij : i < j) (hj : j < n)
    (h : (last + i) % n = (last + j) % n) : False := by
  have h1 := Nat.sub_mod_eq_zero_of_mod_eq h.symm
  have h2 : last + j - (last + i) = j - i := by omega
  rw [h2] at h1
  have h3 := Nat.eq_zero_of_dvd_of_lt (Nat.dvd_of_mod_eq_zero h1) (by omega)
  omega

/-- the round-robin indices of one `Arbitrate` are pairwise different -/
theorem arb_mod_inj (n last i j : Nat) (hi : i < n) (hj : j < n)
    (h : (last + i) % n = (last + j) % n) : i = j := by
  rcases Nat.lt_trichotomy i j with hl | he | hg
  · exact (arb_mod_inj_lt n last i j hl hj h).elim
  · exact he
  · exact (arb_mod_inj_lt n last j i hg hi h.symm).elim

/-- a `flatMap` over distinct indices of lists with duplicate-free, pairwise disjoint images has a
    duplicate-free image -/
theorem arb_nodup_flatMap_map {α β ι : Type} (g : α → β) (L : ι → List α) (l : List ι)
    (hl : l.Nodup) (h1 : ∀ i ∈ l, ((L i).map g).Nodup)
    (h2 : ∀ i ∈ l, ∀ j ∈ l, i ≠ j → ∀ a ∈ L i, ∀ b ∈ L j, g a ≠ g b) :
    ((l.flatMap L).map g).Nodup := by
  induction l with
  | nil => simp
  | cons i l ih =>
    rw [List.nodup_cons] at hl
    rw [List.flatMap_cons, List.map_append, List.nodup_append]
    refine ⟨h1 i List.mem_cons_self, ?_, ?_⟩
    · exact ih hl.2 (fun j hj => h1 j (List.mem_cons_of_mem _ hj))
        (fun j hj k hk => h2 j (List.mem_cons_of_mem _ hj) k (List.mem_cons_of_mem _ hk))
    · intro x hx y hy
      obtain ⟨a, ha, rfl⟩ := List.mem_map.mp hx
      obtain ⟨b, hb, rfl⟩ := List.mem_map.mp hy
      obtain ⟨j, hj, hb'⟩ := List.mem_flatMap.mp hb
      have hne : i ≠ j := fun e => hl.1 (e ▸ hj)
      exact h2 i List.mem_cons_self j (List.mem_cons_of_mem _ hj) hne a ha b hb'

/-- distinct ids across the pools: inside every pool and between two positions -/
theorem arb_flatten_ids (pools : List (List AWf)) (hn : (pools.flatten.map (·.id)).Nodup) :
    (∀ p ∈ pools, (p.map (·.id)).Nodup) ∧
    pools.Pairwise (fun p q => ∀ a ∈ p, ∀ b ∈ q, a.id ≠ b.id) := by
  induction pools with
  | nil => simp
  | cons p ps ih =>
    rw [List.flatten_cons, List.map_append, List.nodup_append] at hn
    obtain ⟨hp, hps, hx⟩ := hn
    obtain ⟨ih1, ih2⟩ := ih hps
    refine ⟨?_, ?_⟩
    · intro q hq
      rcases List.mem_cons.mp hq with rfl | hq'
      · exact hp
      · exact ih1 q hq'
    · rw [List.pairwise_cons]
      refine ⟨?_, ih2⟩
      intro q hq a ha b hb
      exact hx _ (List.mem_map_of_mem ha) _
        (List.mem_map_of_mem (List.mem_flatten.mpr ⟨q, hq, hb⟩))

/-- no wavefront is chosen twice (wavefront ids are distinct across the pools) -/
theorem arbitrate_ids_nodup (last : Nat) (pools : List (List AWf))
    (hn : (pools.flatten.map (·.id)).Nodup) : ((arbitrate last pools).1.map (·.id)).Nodup := by
  obtain ⟨hin, hpw⟩ := arb_flatten_ids pools hn
  rw [List.pairwise_iff_getElem] at hpw
  unfold arbitrate
  split
  · simp
  · apply arb_nodup_flatMap_map _ _ _ List.nodup_range
    · intro i _
      apply List.Nodup.sublist ((pickPool_sublist _ []).map _)
      rw [List.getD_eq_getElem?_getD]
      by_cases hk : (last + i) % pools.length < pools.length
      · rw [List.getElem?_eq_getElem hk]
        exact hin _ (List.getElem_mem hk)
      · rw [List.getElem?_eq_none (by omega)]; simp
    · intro i hi j hj hne a ha b hb
      have hi' := List.mem_range.mp hi
      have hj' := List.mem_range.mp hj
      obtain ⟨hki, ha'⟩ := arb_getD_mem pools _ a (pickPool_sound _ [] a ha).1
      obtain ⟨hkj, hb'⟩ := arb_getD_mem pools _ b (pickPool_sound _ [] b hb).1
      have hkne : (last + i) % pools.length ≠ (last + j) % pools.length :=
        fun e => hne (arb_mod_inj _ last i j hi' hj' e)
      rcases Nat.lt_or_gt_of_ne hkne with hlt | hgt
      · exact hpw _ _ hki hkj hlt a ha' b hb'
      · exact fun e => hpw _ _ hkj hki hgt b hb' a ha' e.symm

/-- the scheduler events one `DoIssue` produces; `inst i` = (SOPP opcode, lgkmcnt, vmcnt) of the
    internal instruction wavefront `i` holds -/
def opsOf (inst : Nat → Nat × Int × Int) : List Act → List Op
  | [] => []
  | .internal i :: r => .issue i (inst i).1 (inst i).2.1 (inst i).2.2 :: opsOf inst r
  | .unit i _ :: r => .issueUnit i :: opsOf inst r
  | .refused _ :: r => opsOf inst r

/-- the arbiter's view agrees with the scheduler state: the same wavefronts, Ready where the arbiter
    sees `WfReady` -/
def Agree (s : State) (l : List AWf) : Prop :=
  ∀ a ∈ l, ∃ w ∈ s.wfs, w.id = a.id ∧ (a.state = 1 → w.state = .ready)

/-- the issue rule holds for a wavefront that is Ready when ids are distinct -/
theorem arb_issue_rule (wfs : List Wf) (i : Nat) (hids : wfs.Pairwise (fun a b => a.id ≠ b.id))
    (w : Wf) (hw : w ∈ wfs) (hid : w.id = i) (hr : w.state = .ready) :
    (wfs.any (fun v => v.id == i) && wfs.all (fun v => v.id != i || v.state == .ready)) = true := by
  simp only [Bool.and_eq_true, List.any_eq_true, List.all_eq_true, beq_iff_eq, Bool.or_eq_true,
    bne_iff_ne, ne_eq]
  refine ⟨⟨w, hw, hid⟩, ?_⟩
  intro v hv
  by_cases e : v.id = i
  · right
    have hvw := uniq hids hv hw (e.trans hid.symm)
    rw [hvw]; exact hr
  · left; exact e

/-- issuing the head wavefront leaves the arbiter's view of the others intact -/
theorem arb_agree_upd (s s' : State) (a : AWf) (rest : List AWf) (f : Wf → Wf)
    (hs' : s'.wfs = updWf s.wfs a.id f) (hag : Agree s (a :: rest))
    (hnd : ((a :: rest).map (·.id)).Nodup) : Agree s' rest := by
  intro b hb
  obtain ⟨w, hw, hid, hst⟩ := hag b (List.mem_cons_of_mem _ hb)
  rw [List.map_cons, List.nodup_cons] at hnd
  have hne : w.id ≠ a.id := by
    intro e
    apply hnd.1
    rw [← e, hid]
    exact List.mem_map_of_mem (f := fun x : AWf => x.id) hb
  refine ⟨w, ?_, hid, hst⟩
  rw [hs', mem_updWf]
  exact ⟨w, hw, by rw [if_neg hne]⟩

/-- one issued wavefront and the rest of the loop -/
theorem arb_issue_step (c : Cfg) (s : State) (a : AWf) (rest : List AWf) (o : Op) (f : Wf → Wf)
    (ops : List Op) (hf : ∀ v, (f v).id = v.id)
    (hl : legal s o = (s.wfs.any (fun v => v.id == a.id) &&
      s.wfs.all (fun v => v.id != a.id || v.state == .ready)))
    (hs' : (step c s o).1.wfs = updWf s.wfs a.id f)
    (hids : s.wfs.Pairwise (fun a b => a.id ≠ b.id))
    (hag : Agree s (a :: rest)) (hel : a.state = 1) (hnd : ((a :: rest).map (·.id)).Nodup)
    (ih : ∀ s' : State, s'.wfs.Pairwise (fun a b => a.id ≠ b.id) → Agree s' rest →
      legalRun c s' ops = true) :
    legalRun c s (o :: ops) = true := by
  rw [legalRun, Bool.and_eq_true]
  constructor
  · obtain ⟨w, hw, hid, hst⟩ := hag a List.mem_cons_self
    rw [hl]
    exact arb_issue_rule s.wfs a.id hids w hw hid (hst hel)
  · apply ih
    · rw [hs']
      exact ids_map hids _ (fun v => by by_cases e : v.id = a.id <;> simp [e, hf])
    · exact arb_agree_upd s _ a rest f hs' hag hnd

/-- **Every `DoIssue` is a legal schedule fragment**: the events it produces for the wavefronts the
    arbiter chose satisfy the issue rules of `legalRun`, whatever the units accept. -/
theorem doIssue_legal (c : Cfg) (s : State) (chosen : List AWf) (cap load : Nat → Nat)
    (inst : Nat → Nat × Int × Int) (hids : s.wfs.Pairwise (fun a b => a.id ≠ b.id))
    (hag : Agree s chosen) (hel : ∀ a ∈ chosen, a.state = 1) (hnd : (chosen.map (·.id)).Nodup) :
    legalRun c s (opsOf inst (doIssue cap chosen load)) = true := by
  induction chosen generalizing s load with
  | nil => simp [doIssue, opsOf, legalRun]
  | cons a rest ih =>
    have hel' : ∀ b ∈ rest, b.state = 1 := fun b hb => hel b (List.mem_cons_of_mem _ hb)
    have hnd' : (rest.map (·.id)).Nodup := by
      rw [List.map_cons, List.nodup_cons] at hnd; exact hnd.2
    rw [doIssue]
    split
    · rw [opsOf]
      exact arb_issue_step c s a rest _ (issueWf (inst a.id).1 (inst a.id).2.1 (inst a.id).2.2) _
        (fun v => rfl) rfl rfl hids hag (hel a List.mem_cons_self) hnd
        (fun s' h1 h2 => ih s' load h1 h2 hel' hnd')
    · split
      · rw [opsOf]
        exact arb_issue_step c s a rest _
          (fun w => { w with state := .running, op := 99, lk := 0, vm := 0 }) _
          (fun v => rfl) rfl rfl hids hag (hel a List.mem_cons_self) hnd
          (fun s' h1 h2 => ih s' _ h1 h2 hel' hnd')
      · rw [opsOf]
        exact ih s load hids (fun b hb => hag b (List.mem_cons_of_mem _ hb)) hel' hnd'

end C14.Arb
