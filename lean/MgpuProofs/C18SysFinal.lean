import MgpuProofs.C18SysE2E
/-! C18 system level, part 8: consequences used by the property theorems — at-most-once facts,
system-level quiescence at a drain acknowledgement, what `Settled` means for the requesters,
`Good` along fair schedules, nothing is answered without a responder. -/
namespace C18

theorem perm_of_count {α} [BEq α] [LawfulBEq α] {l1 l2 : List α} (h : ∀ x, l1.count x = l2.count x) :
    l1.Perm l2 := List.perm_iff_count.mpr h

theorem nodup_of_map {α β} (f : α → β) : ∀ {l : List α}, (l.map f).Nodup → l.Nodup := by
  intro l
  induction l with
  | nil => intro _; exact List.nodup_nil
  | cons x xs ih =>
    intro h
    simp only [List.map_cons, List.nodup_cons] at h ⊢
    exact ⟨fun hm => h.1 (List.mem_map_of_mem hm), ih h.2⟩

/-! ### at most once -/

/-- no request is answered twice to the L1 side -/
theorem got_nodup {cfgs : List Cfg} {y : Sys} (h : AllInv cfgs y) {a : Nat} {A : Node}
    (hA : y.nodes[a]? = some A) : (A.got.map (·.rspTo)).Nodup := by
  have hAh := h.hist.node a A hA
  have hAc := reach_inv (h.reach a A hA).2
  have hp : (A.s.io.ans.map (·.out)).Perm (A.s.io.rspOut ++ A.got) :=
    perm_of_count fun x => by rw [List.count_append]; exact hAh.got x
  have hn : ((A.s.io.ans.map (·.out)).map (·.rspTo)).Nodup := by
    have h1 := (cinv_ans_nodup hAc.1).1
    have : (A.s.io.ans.map (·.out)).map (·.rspTo) = A.s.io.ans.map (·.orig.id) := by
      rw [List.map_map]
      apply List.map_congr_left
      intro α hα
      exact (hAc.1.ansOk α hα).1
    rw [this]; exact h1
  have := ((hp.map (·.rspTo)).nodup_iff).mp hn
  rw [List.map_append] at this
  exact (List.nodup_append.mp this).2.1

/-- the L2 side of a node receives every clone at most once -/
theorem l2all_nodup {cfgs : List Cfg} {y : Sys} (h : AllInv cfgs y) {b : Nat} {B : Node}
    (hB : y.nodes[b]? = some B) : (B.l2all.map (·.fid)).Nodup := by
  have hBh := h.hist.node b B hB
  have hBc := reach_inv (h.reach b B hB).2
  have hp : (B.s.oi.fwd.map (·.out)).Perm (B.s.oi.reqOut ++ B.l2all) :=
    perm_of_count fun x => by rw [List.count_append]; exact hBh.l2all x
  have hn : ((B.s.oi.fwd.map (·.out)).map (·.fid)).Nodup := by
    rw [List.map_map]; exact hBc.2.fidNodup
  have := ((hp.map (·.fid)).nodup_iff).mp hn
  rw [List.map_append] at this
  exact (List.nodup_append.mp this).2.1

theorem count_le_one_of_nodup {α} [BEq α] [LawfulBEq α] {l : List α} (h : l.Nodup) (x : α) : l.count x ≤ 1 :=
  List.nodup_iff_count.mp h x

/-- every clone of engine `a` is delivered to an outside port at most once, in the whole system -/
theorem delivered_once {cfgs : List Cfg} {y : Sys} (h : AllInv cfgs y) {a : Nat} {A : Node}
    (hA : y.nodes[a]? = some A) (c : OutReq) : (y.nodes.flatMap nameToksAll).count (a, c) ≤ 1 := by
  have hAc := reach_inv (h.reach a A hA).2
  have hn : (A.s.io.fwd.map (·.out)).Nodup := by
    have h1 : (A.s.io.fwd.map (·.out)).map (·.fid) = A.s.io.fwd.map (·.out.fid) := by
      rw [List.map_map]; rfl
    have := hAc.1.fidNodup
    rw [← h1] at this
    exact nodup_of_map _ this
  have := h.hist.gq a A hA c
  have := count_le_one_of_nodup hn c
  omega

/-! ### quiescence at a drain acknowledgement -/

/-- nothing that belongs to a transaction through node `a` exists anywhere in the system -/
structure QuietAt (y : Sys) (a : Nat) (A : Node) : Prop where
  ioTx : A.s.io.tx = []
  oiTx : A.s.oi.tx = []
  /-- no clone of `a` waits for the network, travels, or is held by another engine … -/
  ioOut : A.s.io.reqOut = []
  netQ : ∀ m ∈ y.netQ, m.frm ≠ a
  held : ∀ (b : Nat) (B : Node), y.nodes[b]? = some B →
    (∀ q ∈ B.s.oi.reqIn, q.src ≠ a) ∧ (∀ t ∈ B.s.oi.tx, t.orig.src ≠ a) ∧ (∀ o ∈ B.s.oi.rspOut, o.dst ≠ a)
  /-- … no answer to `a` travels or waits in `a`'s incoming buffer -/
  netR : ∀ m ∈ y.netR, m.dst ≠ a
  ioRsp : A.s.io.rspIn = []
  /-- nothing `a` forwarded to its L2 side is outstanding -/
  oiOut : A.s.oi.reqOut = []
  l2 : A.l2 = []
  oiRsp : A.s.oi.rspIn = []

theorem count_zero_not_mem {α} [BEq α] [LawfulBEq α] {l : List α} {x : α} (h : l.count x = 0) : x ∉ l :=
  fun hm => by have := List.count_pos_iff.mpr hm; omega

theorem quiet_of_tables_empty {y : Sys} (hs : SInv y) {a : Nat} {A : Node} (hA : y.nodes[a]? = some A)
    (h1 : A.s.io.tx = []) (h2 : A.s.oi.tx = []) : QuietAt y a A := by
  have hg : ∀ f, (dnF A.s.io).count f = 0 ∧ (y.netQ.map tokQ).count (a, f) = 0 ∧
      (y.nodes.flatMap nameToks).count (a, f) = 0 ∧ (y.netR.map tokR).count (a, f) = 0 := by
    intro f
    have := hs.g a A hA f
    simp only [txF, h1, List.map_nil, List.count_nil] at this
    omega
  have hl : ∀ t, (dnF A.s.oi).count t = 0 ∧ (A.l2.map (·.fid)).count t = 0 := by
    intro t
    have := (hs.node a A hA).l2 t
    simp only [txF, h2, List.map_nil, List.count_nil] at this
    omega
  have hdn : dnF A.s.io = [] := eq_nil_of_count fun f => (hg f).1
  have hdn2 : dnF A.s.oi = [] := eq_nil_of_count fun f => (hl f).1
  simp only [dnF, List.append_eq_nil_iff, List.map_eq_nil_iff] at hdn hdn2
  have hnames : ∀ (b : Nat) (B : Node), y.nodes[b]? = some B → ∀ nm ∈ B.names, nm.a ≠ a := by
    intro b B hB nm hnm he
    have : (a, nm.c.fid) ∈ y.nodes.flatMap nameToks := by
      refine List.mem_flatMap.mpr ⟨B, List.mem_of_getElem? hB, ?_⟩
      simp only [nameToks, List.mem_map]
      exact ⟨nm, hnm, by rw [he]⟩
    exact count_zero_not_mem (hg nm.c.fid).2.2.1 this
  have hheld : ∀ (b : Nat) (B : Node), y.nodes[b]? = some B → ∀ p ∈ upKA B.s.oi, p.2 ≠ a := by
    intro b B hB p hp he
    have := (hs.node b B hB).nm p
    have hpos := List.count_pos_iff.mpr hp
    have hm : p ∈ nameKA B := List.count_pos_iff.mp (by omega)
    simp only [nameKA, List.mem_map] at hm
    obtain ⟨nm, hnm, rfl⟩ := hm
    exact hnames b B hB nm hnm he
  refine ⟨h1, h2, hdn.1, ?_, ?_, ?_, hdn.2, hdn2.1, ?_, hdn2.2⟩
  · intro m hm he
    have : (a, m.c.fid) ∈ y.netQ.map tokQ := List.mem_map.mpr ⟨m, hm, by simp only [tokQ, he]⟩
    exact count_zero_not_mem (hg m.c.fid).2.1 this
  · intro b B hB
    refine ⟨fun q hq => ?_, fun t ht => ?_, fun o ho => ?_⟩
    · exact hheld b B hB (q.id, q.src) (by
        simp only [upKA, List.mem_append, List.mem_map]
        exact Or.inl (Or.inl ⟨q, hq, rfl⟩))
    · exact hheld b B hB (t.orig.id, t.orig.src) (by
        simp only [upKA, List.mem_append, List.mem_map]
        exact Or.inl (Or.inr ⟨t, ht, rfl⟩))
    · exact hheld b B hB (o.rspTo, o.dst) (by
        simp only [upKA, List.mem_append, List.mem_map]
        exact Or.inr ⟨o, ho, rfl⟩)
  · intro m hm he
    have : (a, m.fid) ∈ y.netR.map tokR := List.mem_map.mpr ⟨m, hm, by simp only [tokR, he]⟩
    exact count_zero_not_mem (hg m.fid).2.2.2 this
  · exact List.map_eq_nil_iff.mp (eq_nil_of_count fun t => (hl t).2)

/-! ### what `Settled` means for the requesters -/

theorem settled_answered {cfgs : List Cfg} {y : Sys} (h : AllInv cfgs y) (hset : Settled y) {a : Nat} {A : Node}
    (hA : y.nodes[a]? = some A) (q : Req) (hq : q ∈ A.sent) :
    q ∈ A.s.io.reqIn ∨ ∃ x ∈ A.got, x.rspTo = q.id ∧ x.dst = q.src := by
  have hAh := h.hist.node a A hA
  have hAc := reach_inv (h.reach a A hA).2
  have hS := hset.node a A hA
  have hc := hAh.sent q
  have hpos := List.count_pos_iff.mpr hq
  by_cases hin : q ∈ A.s.io.reqIn
  · exact Or.inl hin
  · right
    have h0 : A.s.io.reqIn.count q = 0 := List.count_eq_zero.mpr hin
    have hf : q ∈ A.s.io.fwd.map (·.orig) := List.count_pos_iff.mp (by omega)
    obtain ⟨φ, hφ, hφo⟩ := List.mem_map.mp hf
    have hcons := hAc.1.conserve
    rw [hS.ioTx, List.append_nil] at hcons
    have : φ.toTx ∈ A.s.io.ans.map AnsRec.toTx := hcons.mem_iff.mp (List.mem_map.mpr ⟨φ, hφ, rfl⟩)
    obtain ⟨α, hα, hαe⟩ := List.mem_map.mp this
    have hαo : α.orig = q := by
      have := congrArg Tx.orig hαe
      simp only [AnsRec.toTx, FwdRec.toTx] at this
      rw [this, hφo]
    have hgot := hAh.got α.out
    rw [hS.ioRspOut] at hgot
    have : α.out ∈ A.got := List.count_pos_iff.mp (by
      have := List.count_pos_iff.mpr (List.mem_map.mpr ⟨α, hα, rfl⟩ : α.out ∈ A.s.io.ans.map (·.out))
      simp only [List.count_nil] at hgot
      omega)
    obtain ⟨h1, h2, _⟩ := hAc.1.ansOk α hα
    exact ⟨α.out, this, by rw [h1, hαo], by rw [h2, hαo]⟩

/-! ### `Good` along a schedule -/

theorem wfop_of_not_input (y : Sys) (o : SOp) (h : isInput o = false) : WFOp y o := by
  cases o <;> first | trivial | cases h

theorem good_along (y0 : Sys) (σ : Nat → SOp) (hq : ∀ t, WFOp (sysAt y0 σ t) (σ t))
    (h0 : SInv y0) (hv : SValid y0) (hk : SOk y0) (hc : CfgOk y0)
    (hcf : ∀ t (b : Nat) (B : Node), (sysAt y0 σ t).nodes[b]? = some B → B.s.cfault = none) :
    ∀ t, Good (sysAt y0 σ t) := by
  have key : ∀ t, SInv (sysAt y0 σ t) ∧ SValid (sysAt y0 σ t) ∧ SOk (sysAt y0 σ t) ∧ CfgOk (sysAt y0 σ t) := by
    intro t
    induction t with
    | zero => exact ⟨h0, hv, hk, hc⟩
    | succ t ih =>
      obtain ⟨i1, i2, i3, i4⟩ := ih
      exact ⟨sinv_step _ _ i1, svalid_step _ _ i1 i2, sok_step _ _ i1 i3 (hq t),
        cfgOk_step _ _ i4⟩
  intro t
  obtain ⟨i1, i2, i3, i4⟩ := key t
  refine ⟨i1, i2, i4, fun b B hB => ?_⟩
  have hn := i3.node b B hB
  simp only [faulted, hn.io.nofault, hn.oi.nofault, hcf t b B hB, Option.isSome_none, Bool.or_self]

/-! ### without a responder nothing is ever answered -/

theorem l2done_nil_run (ops : List SOp) (hno : ∀ o ∈ ops, ∀ b j d, o ≠ SOp.l2ans b j d) :
    ∀ (y : Sys), (∀ (b : Nat) (B : Node), y.nodes[b]? = some B → B.l2done = []) →
    ∀ (b : Nat) (B : Node), (srun y ops).nodes[b]? = some B → B.l2done = [] := by
  unfold srun
  induction ops with
  | nil => intro y h; exact h
  | cons o os ih =>
    intro y h
    apply ih (fun o' ho' => hno o' (List.mem_cons_of_mem _ ho'))
    intro b B' hb
    obtain ⟨B, hB, _, _, hl⟩ := sstep_node y o b B' hb
    rcases hl with hl | ⟨b', j, d, he⟩
    · rw [hl]; exact h b B hB
    · exact absurd he (hno o List.mem_cons_self b' j d)

theorem no_answer_of_l2done_nil {cfgs : List Cfg} {y : Sys} (h : AllInv cfgs y)
    (hd : ∀ (b : Nat) (B : Node), y.nodes[b]? = some B → B.l2done = []) :
    ∀ (a : Nat) (A : Node), y.nodes[a]? = some A → A.got = [] ∧ A.s.io.ans = [] := by
  have hout : ∀ (b : Nat) (B : Node), y.nodes[b]? = some B → B.outAll = [] := by
    intro b B hB
    have hBh := h.hist.node b B hB
    have hBc := reach_inv (h.reach b B hB).2
    have hdel : B.s.oi.del = [] := by rw [hBh.del, hd b B hB]; rfl
    have hans : B.s.oi.ans = [] := by
      cases hx : B.s.oi.ans with
      | nil => rfl
      | cons α rest =>
        obtain ⟨_, _, r, hr, _⟩ := hBc.2.ansOk α (by rw [hx]; exact List.mem_cons_self)
        rw [hdel] at hr; cases hr
    have hz : ∀ o, (B.outAll.map outOfNRsp).count o = 0 := by
      intro o
      have := hBh.out o
      simp only [hans, List.map_nil, List.count_nil] at this
      omega
    exact List.map_eq_nil_iff.mp (eq_nil_of_count hz)
  have hfm : y.nodes.flatMap outToks = [] := by
    rw [List.flatMap_eq_nil_iff]
    intro B hB
    obtain ⟨b, hb, rfl⟩ := List.mem_iff_getElem.mp hB
    simp only [outToks, hout b _ (List.getElem?_eq_getElem hb), List.map_nil]
  intro a A hA
  have hAh := h.hist.node a A hA
  have hAc := reach_inv (h.reach a A hA).2
  have hdel : A.s.io.del = [] := by
    apply eq_nil_of_count
    intro r
    have := h.hist.gr a A hA r
    simp only [hfm, List.count_nil] at this
    omega
  have hans : A.s.io.ans = [] := by
    cases hx : A.s.io.ans with
    | nil => rfl
    | cons α rest =>
      obtain ⟨_, _, r, hr, _⟩ := hAc.1.ansOk α (by rw [hx]; exact List.mem_cons_self)
      rw [hdel] at hr; cases hr
  refine ⟨?_, hans⟩
  apply eq_nil_of_count
  intro o
  have := hAh.got o
  simp only [hans, List.map_nil, List.count_nil] at this
  omega

/-! ### decidable rendering of `Settled` (for examples) -/

def nodeSettledB (A : Node) : Bool :=
  A.l2.isEmpty && A.s.io.reqOut.isEmpty && A.s.io.rspIn.isEmpty && A.s.io.rspOut.isEmpty && A.s.io.tx.isEmpty &&
  A.s.oi.reqIn.isEmpty && A.s.oi.reqOut.isEmpty && A.s.oi.rspIn.isEmpty && A.s.oi.rspOut.isEmpty && A.s.oi.tx.isEmpty &&
  A.s.ctIn.isEmpty && A.s.ctOut.isEmpty && !A.s.draining && (A.s.pause || A.s.io.reqIn.isEmpty)

def settledB (y : Sys) : Bool := y.netQ.isEmpty && y.netR.isEmpty && y.nodes.all nodeSettledB

theorem nodeSettledB_iff (A : Node) : nodeSettledB A = true ↔ NodeSettled A := by
  simp only [nodeSettledB, Bool.and_eq_true, List.isEmpty_iff, Bool.not_eq_true', Bool.or_eq_true]
  constructor
  · intro h
    obtain ⟨⟨⟨⟨⟨⟨⟨⟨⟨⟨⟨⟨⟨h1, h2⟩, h3⟩, h4⟩, h5⟩, h6⟩, h7⟩, h8⟩, h9⟩, h10⟩, h11⟩, h12⟩, h13⟩, h14⟩ := h
    refine ⟨h1, h2, h3, h4, h5, h6, h7, h8, h9, h10, h11, h12, h13, fun hp => ?_⟩
    rcases h14 with h | h
    · rw [hp] at h; cases h
    · exact h
  · intro h
    refine ⟨⟨⟨⟨⟨⟨⟨⟨⟨⟨⟨⟨⟨h.l2, h.ioOut⟩, h.ioRspIn⟩, h.ioRspOut⟩, h.ioTx⟩, h.oiIn⟩, h.oiOut⟩, h.oiRspIn⟩, h.oiRspOut⟩,
      h.oiTx⟩, h.ctIn⟩, h.ctOut⟩, h.drain⟩, ?_⟩
    cases hp : A.s.pause with
    | true => exact Or.inl rfl
    | false => exact Or.inr (h.l1 hp)

theorem settledB_iff (y : Sys) : settledB y = true ↔ Settled y := by
  simp only [settledB, Bool.and_eq_true, List.isEmpty_iff, List.all_eq_true]
  constructor
  · intro ⟨⟨h1, h2⟩, h3⟩
    exact ⟨h1, h2, fun b B hB => (nodeSettledB_iff B).mp (h3 B (List.mem_of_getElem? hB))⟩
  · intro h
    refine ⟨⟨h.netQ, h.netR⟩, fun B hB => ?_⟩
    obtain ⟨b, hb, rfl⟩ := List.mem_iff_getElem.mp hB
    exact (nodeSettledB_iff _).mpr (h.node b _ (List.getElem?_eq_getElem hb))

theorem nofault_of_all {y : Sys} (h : (y.nodes.all fun B => !faulted B.s) = true) :
    ∀ (b : Nat) (B : Node), y.nodes[b]? = some B → faulted B.s = false := by
  intro b B hB
  have := List.all_eq_true.mp h B (List.mem_of_getElem? hB)
  simpa using this

/-! ### configuration facts and a concrete fair schedule -/

theorem cfgOk_init (cfgs : List Cfg)
    (h : ∀ c ∈ cfgs, 0 < c.cap ∧ 0 < c.wReqOut ∧ 0 < c.wRspOut ∧ 0 < c.wReqIn ∧ 0 < c.wRspIn) :
    CfgOk (initSys cfgs) := by
  constructor
  intro b B hb
  simp only [initSys, List.getElem?_map, Option.map_eq_some_iff] at hb
  obtain ⟨c, hc, rfl⟩ := hb
  have := h c (List.mem_of_getElem? hc)
  exact ⟨this.1, this.2⟩

theorem cfgOk_run (ops : List SOp) : ∀ y, CfgOk y → CfgOk (srun y ops) := by
  unfold srun
  induction ops with
  | nil => intro y h; exact h
  | cons o os ih => intro y h; exact ih _ (cfgOk_step y o h)

/-- round-robin over `fairList`: a fair schedule -/
def rrSched (n : Nat) (t : Nat) : SOp := (fairList n).getD (t % (fairList n).length) (.tick 0)

theorem rrSched_fair (n : Nat) : ∀ o0 ∈ fairList n, ∀ t, ∃ t', t ≤ t' ∧ sameKind (rrSched n t') o0 := by
  intro o0 hm t
  obtain ⟨i, hi, he⟩ := List.mem_iff_getElem.mp hm
  refine ⟨(fairList n).length * (t + 1) + i, ?_, ?_⟩
  · have : 0 < (fairList n).length := by omega
    have := Nat.le_mul_of_pos_left (t + 1) this
    omega
  · have hmod : ((fairList n).length * (t + 1) + i) % (fairList n).length = i := by
      rw [Nat.mul_add_mod]; exact Nat.mod_eq_of_lt hi
    have : rrSched n ((fairList n).length * (t + 1) + i) = o0 := by
      simp only [rrSched, hmod, List.getD_eq_getElem?_getD, List.getElem?_eq_getElem hi, Option.getD_some, he]
    rw [this]
    cases o0 <;> first | rfl | exact ⟨_, rfl⟩

end C18
