import MgpuProofs.C14XDefs
/-! # C14 — the scheduler side of a pipeline flush (`setWavesToReady` + `Scheduler.Flush`)

`schedFlush` preserves every invariant of the scheduler model; with `PoolInv` it resets every
unfinished wavefront to Ready with the PC unchanged and the pending barrier arrival cancelled. -/
namespace C14

/-! ## `flushWf` field by field -/

theorem flushWf_id (w : Wf) : (flushWf w).id = w.id := by
  unfold flushWf; split <;> rfl
theorem flushWf_wg (w : Wf) : (flushWf w).wg = w.wg := by
  unfold flushWf; split <;> rfl
theorem flushWf_bar (w : Wf) : (flushWf w).bar = w.bar := by
  unfold flushWf; split <;> rfl
theorem flushWf_pc (w : Wf) : (flushWf w).pc = w.pc := by
  unfold flushWf; split <;> rfl
theorem flushWf_inPool (w : Wf) : (flushWf w).inPool = w.inPool := by
  unfold flushWf; split <;> rfl

/-- a resident unfinished wavefront is reset -/
theorem xfl_hit (w : Wf) (hp : w.inPool = true) (hnc : w.state ≠ .completed) :
    flushWf w = { w with
      state := .ready
      arr := if w.state == .atBarrier || (w.state == .running && w.op == 10) then w.arr - 1 else w.arr } := by
  unfold flushWf
  rw [if_pos]
  simp [hp, hnc]

/-- any other wavefront is left alone -/
theorem xfl_miss (w : Wf) (h : w.inPool = false ∨ w.state = .completed) : flushWf w = w := by
  unfold flushWf
  rw [if_neg]
  rcases h with h | h <;> simp [h]

/-- `flushWf w` is `w` or a Ready wavefront -/
theorem xfl_cases (w : Wf) :
    (flushWf w = w) ∨ ((flushWf w).state = .ready ∧ w.state ≠ .completed ∧ w.inPool = true) := by
  by_cases hp : w.inPool = true
  · by_cases hc : w.state = .completed
    · exact Or.inl (xfl_miss w (Or.inr hc))
    · right
      rw [xfl_hit w hp hc]
      exact ⟨rfl, hc, hp⟩
  · exact Or.inl (xfl_miss w (Or.inl (by simpa using hp)))

theorem flushWf_completed (w : Wf) : (flushWf w).state = .completed ↔ w.state = .completed := by
  rcases xfl_cases w with h | ⟨h1, h2, _⟩
  · rw [h]
  · constructor
    · intro h; rw [h1] at h; cases h
    · intro h; exact absurd h h2

/-- the ghost arrival count after the reset: the pending barrier arrival is cancelled -/
theorem xfl_arr {w : Wf} (hW : W w) (hr : InR w) (hp : w.inPool = true) (hnc : w.state ≠ .completed) :
    (flushWf w).arr = w.bar := by
  rw [xfl_hit w hp hnc]
  show (if (w.state == .atBarrier || (w.state == .running && w.op == 10)) = true then w.arr - 1 else w.arr)
    = w.bar
  split
  · rename_i hc
    simp only [Bool.or_eq_true, Bool.and_eq_true, beq_iff_eq] at hc
    rcases hc with hb | ⟨hrun, ho⟩
    · have := hW.2.2 hb; omega
    · have := (hW.1 hrun).1 ho; omega
  · rename_i hc
    simp only [Bool.or_eq_true, Bool.and_eq_true, beq_iff_eq] at hc
    rcases hr with h | h | h | h
    · exact hW.2.1 h
    · exact (hW.1 h).2 (fun ho => hc (Or.inr ⟨h, ho⟩))
    · exact absurd (Or.inl h) hc
    · exact absurd h hnc

theorem xfl_W {w : Wf} (hW : W w) (hr : InR w) : W (flushWf w) := by
  rcases xfl_cases w with h | ⟨h1, h2, h3⟩
  · rw [h]; exact hW
  · refine ⟨?_, ?_, ?_⟩
    · intro hh; rw [h1] at hh; cases hh
    · intro _; rw [xfl_arr hW hr h3 h2, flushWf_bar]
    · intro hh; rw [h1] at hh; cases hh

theorem xfl_InR {w : Wf} (hr : InR w) : InR (flushWf w) := by
  rcases xfl_cases w with h | ⟨h1, _, _⟩
  · rw [h]; exact hr
  · exact InR_ready h1

/-! ## the flush keeps the invariants -/

theorem flush_Inv {s : State} (h : Inv s) (hr : Rng s) : Inv (schedFlush s) := by
  constructor
  · exact ids_map h.ids flushWf flushWf_id
  · exact h.nofault
  · intro w _ hin; cases hin
  · intro w _ hin; cases hin
  · exact List.nodup_nil
  · intro w' hw'
    obtain ⟨w, hw, rfl⟩ := List.mem_map.mp hw'
    exact xfl_W (h.ghost w hw) (hr w hw)
  · intro u' hu' v' hv' hg hc
    obtain ⟨u, hu, rfl⟩ := List.mem_map.mp hu'
    obtain ⟨v, hv, rfl⟩ := List.mem_map.mp hv'
    rw [flushWf_wg, flushWf_wg] at hg
    rw [flushWf_bar, flushWf_bar]
    exact h.bars u hu v hv hg (fun e => hc ((flushWf_completed v).mpr e))

theorem flush_NS {s : State} (h : NS s ∧ Rng s) : NS (schedFlush s) ∧ Rng (schedFlush s) := by
  constructor
  · refine NS_map flushWf h.1 rfl flushWf_wg ?_ ?_
    · intro v hb
      rcases xfl_cases v with e | ⟨h1, _, _⟩
      · rw [e] at hb; exact hb
      · rw [h1] at hb; cases hb
    · intro v h1 h2
      rcases xfl_cases v with e | ⟨e, _, _⟩
      · rw [e]; exact ⟨h1, h2⟩
      · rw [e]; exact ⟨by decide, by decide⟩
  · exact Rng_map flushWf h.2 rfl (fun v hv => xfl_InR hv)

theorem xfl_allC (g : Nat) (wfs : List Wf) : allC g (wfs.map flushWf) ↔ allC g wfs := by
  constructor
  · intro h u hu hg
    have := h (flushWf u) (List.mem_map.mpr ⟨u, hu, rfl⟩) (by rw [flushWf_wg]; exact hg)
    exact (flushWf_completed u).mp this
  · intro h
    exact allC_map_same flushWf flushWf_wg (fun v hv => (flushWf_completed v).mpr hv) h

theorem flush_CInv {s : State} (h : CInv s) : CInv (schedFlush s) := by
  constructor
  · exact h.1
  · intro g hg
    exact (xfl_allC g s.wfs).mpr (h.2 g hg)

theorem flush_DInv {s : State} (h : DInv s) : DInv (schedFlush s) := by
  intro v' hv' hall
  obtain ⟨v, hv, rfl⟩ := List.mem_map.mp hv'
  rw [flushWf_wg] at hall ⊢
  exact h v hv ((xfl_allC v.wg s.wfs).mp hall)

theorem flush_PoolInv {s : State} (h : PoolInv s) : PoolInv (schedFlush s) := by
  intro v' hv' hc
  obtain ⟨v, hv, rfl⟩ := List.mem_map.mp hv'
  rw [flushWf_inPool]
  exact h v hv (fun e => hc ((flushWf_completed v).mpr e))

/-- what a flush leaves behind -/
theorem flush_resets {s : State} (h : Inv s) (hr : Rng s) (hp : PoolInv s) :
    (schedFlush s).exec = [] ∧ (schedFlush s).buf = [] ∧
    (schedFlush s).wfs = s.wfs.map flushWf ∧
    ∀ w ∈ s.wfs, (w.state = .completed → flushWf w = w) ∧
      (w.state ≠ .completed → (flushWf w).state = .ready ∧ (flushWf w).pc = w.pc ∧
        (flushWf w).arr = w.bar ∧ (flushWf w).bar = w.bar) := by
  refine ⟨rfl, rfl, rfl, ?_⟩
  intro w hw
  constructor
  · intro hc; exact xfl_miss w (Or.inr hc)
  · intro hnc
    have hin := hp w hw hnc
    refine ⟨?_, flushWf_pc w, xfl_arr (h.ghost w hw) (hr w hw) hin hnc, flushWf_bar w⟩
    rw [xfl_hit w hin hnc]

/-! ## `PoolInv` along the scheduler's events -/

theorem xfl_PoolInv_congr {s s' : State} (h : PoolInv s) (h1 : s'.wfs = s.wfs) : PoolInv s' := by
  unfold PoolInv; rw [h1]; exact h

theorem xfl_PoolInv_map {s s' : State} (F : Wf → Wf) (h : PoolInv s) (h1 : s'.wfs = s.wfs.map F)
    (hF : ∀ v ∈ s.wfs, (v.state ≠ .completed → v.inPool = true) → (F v).state ≠ .completed →
      (F v).inPool = true) : PoolInv s' := by
  intro v' hv' hc
  rw [h1] at hv'
  obtain ⟨v, hv, rfl⟩ := List.mem_map.mp hv'
  exact hF v hv (h v hv) hc

/-- an update of the wavefronts with id `i`, none of which has ended, that keeps `inPool` -/
theorem xfl_PoolInv_upd {s s' : State} (i : Nat) (f : Wf → Wf) (h : PoolInv s) (h1 : s'.wfs = updWf s.wfs i f)
    (hi : ∀ v ∈ s.wfs, v.id = i → v.state ≠ .completed) (hf : ∀ v, (f v).inPool = v.inPool) :
    PoolInv s' := by
  refine xfl_PoolInv_map (fun v => if v.id = i then f v else v) h h1 ?_
  intro v hv hp hc
  split
  · rename_i e; rw [hf]; exact hp (hi v hv e)
  · rename_i e; rw [if_neg e] at hc; exact hp hc

/-- an update that keeps state and `inPool` -/
theorem xfl_PoolInv_same {s s' : State} (i : Nat) (f : Wf → Wf) (h : PoolInv s) (h1 : s'.wfs = updWf s.wfs i f)
    (hst : ∀ v, (f v).state = v.state) (hf : ∀ v, (f v).inPool = v.inPool) : PoolInv s' := by
  refine xfl_PoolInv_map (fun v => if v.id = i then f v else v) h h1 ?_
  intro v hv hp hc
  split
  · rename_i e; rw [if_pos e, hst] at hc; rw [hf]; exact hp hc
  · rename_i e; rw [if_neg e] at hc; exact hp hc

theorem xfl_PoolInv_complete {s s' : State} (i : Nat) (h : PoolInv s) (h1 : s'.wfs = updWf s.wfs i complete) :
    PoolInv s' := by
  refine xfl_PoolInv_map (fun v => if v.id = i then complete v else v) h h1 ?_
  intro v hv hp hc
  split
  · rename_i e; rw [if_pos e] at hc; exact absurd (complete_state v) hc
  · rename_i e; rw [if_neg e] at hc; exact hp hc

theorem xfl_release_inPool (g : Nat) (v : Wf) : (release g v).inPool = v.inPool := by
  unfold release; split <;> rfl

theorem xfl_PoolInv_release {s s' : State} (g : Nat) (h : PoolInv s) (h1 : s'.wfs = s.wfs.map (release g)) :
    PoolInv s' := by
  refine xfl_PoolInv_map (release g) h h1 ?_
  intro v hv hp hc
  rw [xfl_release_inPool]
  exact hp (fun e => hc (release_completed g v e))

/-- one evaluated instruction, provided no wavefront with the evaluated id has ended -/
theorem xfl_evalInst_PoolInv {c : Cfg} {s : State} {w : Wf} (h : PoolInv s)
    (hw : ∀ v ∈ s.wfs, v.id = w.id → v.state ≠ .completed) : PoolInv (evalInst c s w).s := by
  have upd : ∀ f : Wf → Wf, (∀ v, (f v).inPool = v.inPool) →
      PoolInv ({ s with wfs := updWf s.wfs w.id f } : State) :=
    fun f hf => xfl_PoolInv_upd w.id f h rfl hw hf
  unfold evalInst
  split
  · unfold evalSEndPgm
    split
    · exact h
    · split
      · rename_i hoth
        simp only [othersCompleted, List.all_eq_true, Bool.or_eq_true, beq_iff_eq, bne_iff_ne] at hoth
        split
        · refine xfl_PoolInv_map (fun v => (fun v => if v.wg = w.wg then { v with inPool := false } else v)
            (if v.id = w.id then complete v else v)) h ?_ ?_
          · show clearPool w.wg (updWf s.wfs w.id complete) = _
            unfold clearPool updWf
            rw [List.map_map]; rfl
          · intro v hv hp hc
            by_cases h1 : v.id = w.id
            · exfalso; apply hc
              by_cases h2 : v.wg = w.wg <;> simp [h1, h2]
            · rcases hoth v hv with (hh | hh) | hh
              · exact absurd hh h1
              · simp only [if_neg h1, if_neg hh] at hc ⊢
                exact hp hc
              · exfalso; apply hc
                by_cases h2 : v.wg = w.wg <;> simp [h1, h2, hh]
        · exact h
      · split
        · have h1 : PoolInv (passBarrier w.wg s) := xfl_PoolInv_release w.wg h rfl
          exact xfl_PoolInv_complete w.id h1 rfl
        · split
          · exact xfl_PoolInv_complete w.id h rfl
          · exact xfl_PoolInv_congr h rfl
  · split
    · have pk := upd park (fun _ => rfl)
      unfold evalSBarrier
      simp only
      split
      · exact xfl_PoolInv_release w.wg pk rfl
      · split
        · exact xfl_PoolInv_congr pk rfl
        · exact pk
    · split
      · unfold evalSWaitCnt
        split
        · exact h
        · exact upd setReady (fun _ => rfl)
      · exact upd setReady (fun _ => rfl)

theorem xfl_evalOne_PoolInv {c : Cfg} {sp : State × Bool} {i : Nat} {rem : List Nat} (hni : i ∉ rem)
    (h : PoolInv sp.1) (hx : ∀ v ∈ sp.1.wfs, v.id ∈ i :: rem → v.state ≠ .completed) :
    PoolInv (evalOne c sp i).1 ∧ ∀ v ∈ (evalOne c sp i).1.wfs, v.id ∈ rem → v.state ≠ .completed := by
  have keep : ∀ v ∈ sp.1.wfs, v.id ∈ rem → v.state ≠ .completed :=
    fun v hv hr => hx v hv (List.mem_cons_of_mem _ hr)
  unfold evalOne
  split
  · exact ⟨h, keep⟩
  · split
    · exact ⟨h, keep⟩
    · rename_i w hget
      obtain ⟨hw, hi⟩ := getWf_some hget
      split
      · exact ⟨h, keep⟩
      · have hwx : ∀ v ∈ sp.1.wfs, v.id = w.id → v.state ≠ .completed :=
          fun v hv e => hx v hv (by rw [e, hi]; exact List.mem_cons_self)
        constructor
        · exact xfl_PoolInv_congr (xfl_evalInst_PoolInv h hwx) (finishOne_wfs _ _ _)
        · intro v' hv' hr
          have hv'' : v' ∈ (evalInst c sp.1 w).s.wfs := by
            rw [← finishOne_wfs i w.wg (evalInst c sp.1 w)]; exact hv'
          obtain ⟨F, hF, hP, hQ, _, _⟩ := evalInst_frame c sp.1 w
          rw [hF] at hv''
          obtain ⟨v, hv, rfl⟩ := List.mem_map.mp hv''
          rw [(hP v).1] at hr
          have hne : v.id ≠ w.id := by
            intro e; apply hni; rw [← hi, ← e]; exact hr
          exact (hQ v hne).2.2 (keep v hv hr)

theorem xfl_foldl_PoolInv {c : Cfg} (l : List Nat) (sp : State × Bool) (hnd : l.Nodup) (h : PoolInv sp.1)
    (hx : ∀ v ∈ sp.1.wfs, v.id ∈ l → v.state ≠ .completed) : PoolInv (l.foldl (evalOne c) sp).1 := by
  induction l generalizing sp with
  | nil => exact h
  | cons i l ih =>
    rw [List.nodup_cons] at hnd
    have := xfl_evalOne_PoolInv (c := c) hnd.1 h hx
    exact ih _ hnd.2 this.1 this.2

theorem xfl_memRetWf_inPool (k : Nat) (l : Bool) (v : Wf) : (memRetWf k l v).inPool = v.inPool := by
  unfold memRetWf
  split
  · rfl
  · split
    · rfl
    · split
      · rfl
      · split <;> rfl

/-- every legal scheduler event keeps the unfinished wavefronts resident (any code variant), as long
    as no entry of `internalExecuting` is listed twice or belongs to an ended wavefront -/
theorem xfl_step_PoolInv {c : Cfg} {s : State} {o : Op} (hnd : s.exec.Nodup)
    (hx : ∀ v ∈ s.wfs, v.id ∈ s.exec → v.state ≠ .completed)
    (h : PoolInv s) (hl : legal s o = true) : PoolInv (step c s o).1 := by
  cases o with
  | eval =>
    show PoolInv (evalInternal c s).1
    unfold evalInternal
    exact xfl_foldl_PoolInv s.exec _ hnd (xfl_PoolInv_congr h rfl) hx
  | wfComp i => simp [legal] at hl
  | drain k => exact xfl_PoolInv_congr h rfl
  | memIssue i v =>
    refine xfl_PoolInv_same i (fun w =>
        if v then { w with osc := w.osc + 1, ovc := w.ovc + 1 } else { w with osc := w.osc + 1 }) h rfl ?_ ?_
    all_goals
      intro w
      split <;> rfl
  | memRet i k l =>
    exact xfl_PoolInv_same i (memRetWf k l) h rfl (fun w => (memRetWf_fields k l w).2.2.1)
      (xfl_memRetWf_inPool k l)
  | issue i op lk vm =>
    simp only [legal, Bool.and_eq_true, List.any_eq_true, List.all_eq_true, beq_iff_eq, Bool.or_eq_true,
      bne_iff_ne] at hl
    refine xfl_PoolInv_upd i (issueWf op lk vm) h rfl ?_ (fun _ => rfl)
    intro v hv e
    rcases hl.2 v hv with hh | hh
    · exact absurd e hh
    · rw [hh]; decide
  | issueUnit i =>
    simp only [legal, Bool.and_eq_true, List.any_eq_true, List.all_eq_true, beq_iff_eq, Bool.or_eq_true,
      bne_iff_ne] at hl
    refine xfl_PoolInv_upd i (fun w => { w with state := .running, op := 99, lk := 0, vm := 0 }) h rfl ?_
      (fun _ => rfl)
    intro v hv e
    rcases hl.2 v hv with hh | hh
    · exact absurd e hh
    · rw [hh]; decide
  | unitDone i =>
    simp only [legal, Bool.and_eq_true, List.any_eq_true, List.all_eq_true, beq_iff_eq, Bool.or_eq_true,
      bne_iff_ne, Bool.not_eq_true', List.contains_eq_mem, decide_eq_false_iff_not] at hl
    refine xfl_PoolInv_upd i setReady h rfl ?_ (fun _ => rfl)
    intro v hv e
    rcases hl.1.2 v hv with hh | hh
    · exact absurd e hh
    · rw [hh.1]; decide

/-- every legal scheduler event keeps the unfinished wavefronts resident (any code variant).
    The hypothesis `Inv s` is needed: without it `internalExecuting` may hold an ended, non-resident
    wavefront with an `s_barrier`, which an evaluation round parks and releases again. -/
theorem step_PoolInv {c : Cfg} {s : State} {o : Op} (hi : Inv s) (h : PoolInv s) (hl : legal s o = true) :
    PoolInv (step c s o).1 := by
  have hnd : s.exec.Nodup := by
    have := hi.nodup; simpa using this
  exact xfl_step_PoolInv hnd (fun v hv hin => good_not_completed (hi.execSt v hv hin)) h hl

/-! ## where work-groups and completion messages come from -/

/-- every wavefront of `cur` carries the work-group of a wavefront of `s`; every message in the log
    of `cur` is in the log of `s` or names the work-group of a wavefront of `s` -/
def xfl_From (s cur : State) : Prop :=
  (∀ u' ∈ cur.wfs, ∃ u ∈ s.wfs, u'.wg = u.wg) ∧ (∀ g ∈ cur.sent, g ∈ s.sent ∨ ∃ w ∈ s.wfs, w.wg = g)

theorem xfl_From_refl (s : State) : xfl_From s s :=
  ⟨fun u hu => ⟨u, hu, rfl⟩, fun _ hg => Or.inl hg⟩

theorem xfl_From_congr {s cur nxt : State} (h : xfl_From s cur) (h1 : nxt.wfs = cur.wfs)
    (h2 : nxt.sent = cur.sent) : xfl_From s nxt := by
  unfold xfl_From; rw [h1, h2]; exact h

theorem xfl_From_step {s cur nxt : State} (F : Wf → Wf) (h : xfl_From s cur) (h1 : nxt.wfs = cur.wfs.map F)
    (hwg : ∀ v, (F v).wg = v.wg)
    (h2 : nxt.sent = cur.sent ∨ ∃ w ∈ cur.wfs, nxt.sent = cur.sent ++ [w.wg]) : xfl_From s nxt := by
  constructor
  · intro u' hu'
    rw [h1] at hu'
    obtain ⟨u, hu, rfl⟩ := List.mem_map.mp hu'
    obtain ⟨u0, hu0, e⟩ := h.1 u hu
    exact ⟨u0, hu0, by rw [hwg]; exact e⟩
  · intro g hg
    rcases h2 with h2 | ⟨w, hw, h2⟩
    · rw [h2] at hg; exact h.2 g hg
    · rw [h2, List.mem_append] at hg
      rcases hg with hg | hg
      · exact h.2 g hg
      · have e : g = w.wg := by simpa using hg
        obtain ⟨u0, hu0, e0⟩ := h.1 w hw
        exact Or.inr ⟨u0, hu0, by rw [e, e0]⟩

theorem xfl_evalOne_From {c : Cfg} {s : State} {sp : State × Bool} {i : Nat} (h : xfl_From s sp.1) :
    xfl_From s (evalOne c sp i).1 := by
  unfold evalOne
  split
  · exact h
  · split
    · exact h
    · rename_i w hget
      obtain ⟨hw, _⟩ := getWf_some hget
      split
      · exact h
      · obtain ⟨F, hF, hP, _, _, _⟩ := evalInst_frame c sp.1 w
        have hf := finishOne_sent i w.wg (evalInst c sp.1 w)
        refine xfl_From_step F h (hf.2.trans hF) (fun v => (hP v).2.1) ?_
        rcases evalInst_out c sp.1 w with ⟨_, e⟩ | ⟨_, e, _, _⟩
        · exact Or.inl (hf.1.trans e)
        · exact Or.inr ⟨w, hw, hf.1.trans e⟩

theorem xfl_foldl_From {c : Cfg} {s : State} (l : List Nat) (sp : State × Bool) (h : xfl_From s sp.1) :
    xfl_From s (l.foldl (evalOne c) sp).1 := by
  induction l generalizing sp with
  | nil => exact h
  | cons i l ih => exact ih _ (xfl_evalOne_From h)

theorem xfl_From_upd (s : State) {nxt : State} (i : Nat) (f : Wf → Wf) (h1 : nxt.wfs = updWf s.wfs i f)
    (hwg : ∀ v, (f v).wg = v.wg) (h2 : nxt.sent = s.sent) : xfl_From s nxt := by
  refine xfl_From_step (fun v => if v.id = i then f v else v) (xfl_From_refl s) h1 ?_ (Or.inl h2)
  intro v
  split
  · exact hwg v
  · rfl

theorem xfl_wfComp_From (c : Cfg) (s : State) (i : Nat) : xfl_From s (wfComp c s i).1 := by
  unfold wfComp
  split
  · exact xfl_From_refl s
  · rename_i w hget
    obtain ⟨hw, _⟩ := getWf_some hget
    simp only
    split
    · split
      · refine xfl_From_step (fun v => (fun v => if v.wg = w.wg then { v with inPool := false } else v)
          (if v.id = i then complete v else v)) (xfl_From_refl s) ?_ ?_ (Or.inr ⟨w, hw, rfl⟩)
        · show clearPool w.wg (updWf s.wfs i complete) = _
          unfold clearPool updWf
          rw [List.map_map]; rfl
        · intro v
          by_cases h1 : v.id = i <;> by_cases h2 : v.wg = w.wg <;> simp [h1, h2]
      · exact xfl_From_upd s i complete rfl (fun _ => rfl) rfl
    · exact xfl_From_upd s i complete rfl (fun _ => rfl) rfl

theorem xfl_step_From (c : Cfg) (s : State) (o : Op) : xfl_From s (step c s o).1 := by
  cases o with
  | eval =>
    show xfl_From s (evalInternal c s).1
    unfold evalInternal
    exact xfl_foldl_From _ _ (xfl_From_congr (xfl_From_refl s) rfl rfl)
  | wfComp i => exact xfl_wfComp_From c s i
  | drain k => exact xfl_From_congr (xfl_From_refl s) rfl rfl
  | memIssue i v =>
    refine xfl_From_upd s i (fun w =>
        if v then { w with osc := w.osc + 1, ovc := w.ovc + 1 } else { w with osc := w.osc + 1 }) rfl ?_ rfl
    intro w
    split <;> rfl
  | memRet i k l => exact xfl_From_upd s i (memRetWf k l) rfl (fun w => (memRetWf_fields k l w).2.1) rfl
  | issue i op lk vm => exact xfl_From_upd s i (issueWf op lk vm) rfl (fun _ => rfl) rfl
  | issueUnit i =>
    exact xfl_From_upd s i (fun w => { w with state := .running, op := 99, lk := 0, vm := 0 }) rfl
      (fun _ => rfl) rfl
  | unitDone i => exact xfl_From_upd s i setReady rfl (fun _ => rfl) rfl

/-- a completion message is only ever sent for the work-group of a wavefront the scheduler holds -/
theorem step_sent_from (c : Cfg) (s : State) (o : Op) :
    ∀ g ∈ (step c s o).1.sent, g ∈ s.sent ∨ ∃ w ∈ s.wfs, w.wg = g :=
  (xfl_step_From c s o).2

/-- no event invents a work-group -/
theorem step_wg_from (c : Cfg) (s : State) (o : Op) :
    ∀ u' ∈ (step c s o).1.wfs, ∃ u ∈ s.wfs, u'.wg = u.wg :=
  (xfl_step_From c s o).1

end C14
