import MgpuModel.C16
/-! # C16 — helper lemmas: list functions of the translator model -/
namespace C16

def txIds (txs : List Tx) : List Nat := txs.flatMap fun t => t.reqs.map (·.id)

@[simp] theorem txIds_nil : txIds [] = [] := rfl
@[simp] theorem txIds_cons (t : Tx) (ts : List Tx) : txIds (t :: ts) = t.reqs.map (·.id) ++ txIds ts := by
  simp [txIds]
@[simp] theorem txIds_append (a b : List Tx) : txIds (a ++ b) = txIds a ++ txIds b := by
  simp [txIds]

/-- the coalescing condition of `translate` -/
def coalCond (lg : Nat) (a : Acc) (t : Tx) : Prop :=
  t.done = false ∧ pageId lg t.treq.vpage = pageId lg a.vaddr ∧ t.reqs.head?.map (·.pid) = some a.pid

theorem coalesce_count (lg : Nat) (a : Acc) : ∀ (txs txs' : List Tx), coalesce lg a txs = some txs' →
    ∀ i, (txIds txs').count i = (txIds txs).count i + (if a.id = i then 1 else 0) := by
  intro txs
  induction txs with
  | nil => intro txs' h; simp [coalesce] at h
  | cons t ts ih =>
    intro txs' h i
    simp only [coalesce] at h
    split at h
    · cases h
      simp [List.count_append, List.count_cons]
      split <;> omega
    · cases hc : coalesce lg a ts with
      | none => simp [hc] at h
      | some r =>
        simp [hc] at h
        subst h
        have := ih r hc i
        simp [List.count_append, this]; omega

theorem coalesce_mem (lg : Nat) (a : Acc) : ∀ (txs txs' : List Tx), coalesce lg a txs = some txs' →
    ∀ t' ∈ txs', t' ∈ txs ∨ ∃ t ∈ txs, coalCond lg a t ∧ t' = { t with reqs := t.reqs ++ [a] } := by
  intro txs
  induction txs with
  | nil => intro txs' h; simp [coalesce] at h
  | cons t ts ih =>
    intro txs' h t' ht'
    simp only [coalesce] at h
    split at h
    · rename_i hc
      cases h
      simp only [List.mem_cons] at ht'
      rcases ht' with rfl | ht'
      · exact Or.inr ⟨t, List.mem_cons_self .., hc, rfl⟩
      · exact Or.inl (List.mem_cons_of_mem _ ht')
    · cases hc : coalesce lg a ts with
      | none => simp [hc] at h
      | some r =>
        simp [hc] at h
        subst h
        simp only [List.mem_cons] at ht'
        rcases ht' with rfl | ht'
        · exact Or.inl (List.mem_cons_self ..)
        · rcases ih r hc t' ht' with h1 | ⟨t0, h0, h1, h2⟩
          · exact Or.inl (List.mem_cons_of_mem _ h1)
          · exact Or.inr ⟨t0, List.mem_cons_of_mem _ h0, h1, h2⟩

theorem popFirst_spec (p : Tx → Bool) : ∀ (txs : List Tx) (t : Tx) (txs' : List Tx),
    popFirst p txs = some (t, txs') →
    t ∈ txs ∧ p t = true ∧
    (∀ t' ∈ txs', t' ∈ txs ∨ (t' = { t with reqs := t.reqs.tail } ∧ t.reqs.tail ≠ [])) ∧
    (∀ a rs, t.reqs = a :: rs → ∀ i, (txIds txs').count i + (if a.id = i then 1 else 0) = (txIds txs).count i) := by
  intro txs
  induction txs with
  | nil => intro t txs' h; simp [popFirst] at h
  | cons t0 ts ih =>
    intro t txs' h
    simp only [popFirst] at h
    split at h
    · rename_i hp
      simp only [Option.some.injEq, Prod.mk.injEq] at h
      obtain ⟨rfl, rfl⟩ := h
      refine ⟨List.mem_cons_self .., hp, ?_, ?_⟩
      · intro t' ht'
        split at ht'
        · exact Or.inl (List.mem_cons_of_mem _ ht')
        · rename_i hne
          simp only [List.mem_cons] at ht'
          rcases ht' with rfl | ht'
          · exact Or.inr ⟨rfl, hne⟩
          · exact Or.inl (List.mem_cons_of_mem _ ht')
      · intro a rs hr i
        split
        · rename_i he
          simp [hr] at he
          subst he
          simp [hr, List.count_cons]
        · simp [hr, List.count_append, List.count_cons]
    · cases hc : popFirst p ts with
      | none => simp [hc] at h
      | some x =>
        simp [hc] at h
        obtain ⟨rfl, rfl⟩ := h
        obtain ⟨h1, h2, h3, h4⟩ := ih x.1 x.2 (by simp [hc])
        refine ⟨List.mem_cons_of_mem _ h1, h2, ?_, ?_⟩
        · intro t' ht'
          simp only [List.mem_cons] at ht'
          rcases ht' with rfl | ht'
          · exact Or.inl (List.mem_cons_self ..)
          · rcases h3 t' ht' with h | h
            · exact Or.inl (List.mem_cons_of_mem _ h)
            · exact Or.inr h
        · intro a rs hr i
          have := h4 a rs hr i
          simp [List.count_append]; omega

theorem markFirst_ids (p : Tx → Bool) (pa : Nat) : ∀ txs, txIds (markFirst p pa txs) = txIds txs := by
  intro txs
  induction txs with
  | nil => rfl
  | cons t ts ih => simp only [markFirst]; split <;> simp [ih]

theorem markFirst_mem (p : Tx → Bool) (pa : Nat) : ∀ txs, ∀ t' ∈ markFirst p pa txs,
    t' ∈ txs ∨ ∃ t ∈ txs, p t = true ∧ t' = { t with page := some pa, done := true } := by
  intro txs
  induction txs with
  | nil => intro t' h; simp [markFirst] at h
  | cons t ts ih =>
    intro t' h
    simp only [markFirst] at h
    split at h
    · rename_i hp
      simp only [List.mem_cons] at h
      rcases h with rfl | h
      · exact Or.inr ⟨t, List.mem_cons_self .., hp, rfl⟩
      · exact Or.inl (List.mem_cons_of_mem _ h)
    · simp only [List.mem_cons] at h
      rcases h with rfl | h
      · exact Or.inl (List.mem_cons_self ..)
      · rcases ih t' h with h1 | ⟨t0, h0, h1, h2⟩
        · exact Or.inl (List.mem_cons_of_mem _ h1)
        · exact Or.inr ⟨t0, List.mem_cons_of_mem _ h0, h1, h2⟩

theorem extract_spec (bid : Nat) : ∀ (l : List Fwd) (f : Fwd) (l' : List Fwd), extract bid l = some (f, l') →
    f ∈ l ∧ f.breq.bid = bid ∧ (∀ g ∈ l', g ∈ l) ∧
    (∀ i, (l'.map (·.top.id)).count i + (if f.top.id = i then 1 else 0) = (l.map (·.top.id)).count i) := by
  intro l
  induction l with
  | nil => intro f l' h; simp [extract] at h
  | cons g gs ih =>
    intro f l' h
    simp only [extract] at h
    split at h
    · rename_i hb
      simp only [Option.some.injEq, Prod.mk.injEq] at h
      obtain ⟨rfl, rfl⟩ := h
      refine ⟨List.mem_cons_self .., hb, fun g hg => List.mem_cons_of_mem _ hg, ?_⟩
      intro i
      simp [List.count_cons]
    · cases hc : extract bid gs with
      | none => simp [hc] at h
      | some x =>
        simp [hc] at h
        obtain ⟨rfl, rfl⟩ := h
        obtain ⟨h1, h2, h3, h4⟩ := ih x.1 x.2 (by simp [hc])
        refine ⟨List.mem_cons_of_mem _ h1, h2, ?_, ?_⟩
        · intro g' hg'
          simp only [List.mem_cons] at hg'
          rcases hg' with rfl | hg'
          · exact List.mem_cons_self ..
          · exact List.mem_cons_of_mem _ (h3 g' hg')
        · intro i
          have := h4 i
          simp [List.count_cons]; omega

theorem pageId_idem (lg a : Nat) : pageId lg (pageId lg a) = pageId lg a := by
  simp [pageId, Nat.shiftLeft_shiftRight]

end C16
