import MgpuProofs.C12_Full
/-! A ranking function for the command path of `Driver.Tick` (C12.W.Full): every tick that reports
    progress strictly decreases it, so — without new input — the driver goes to sleep after a bounded
    number of ticks (no livelock: "progress" that changes nothing cannot be reported for ever). -/
namespace C12
namespace W
namespace Full

/-- what a queued command can still cost: its requests (sent, or twice while in the delay line), a
    restart of the delay line, its start and its completion -/
def cost (d : D) : Cmd → Nat
  | .noop => 1
  | .kern n => n + 2
  | .copy _ p => d.nGpus + 2 * p + max d.cycH2D d.cycD2H + 3
  | .unhandled => 1
  | .mcopy => 1
  | .fl => d.nGpus + 2

/-- a running head has been paid for except its completion -/
def qCost (d : D) (q : Q) : Nat :=
  if q.running then 1 + (q.cmds.tail.map (cost d)).sum else (q.cmds.map (cost d)).sum

def cycM : Option Nat → Nat
  | none => 0
  | some k => k + 1

def measure (c : C) : Nat :=
  c.inb.length + c.d.toSend.length + 2 * c.d.awaiting.length + cycM c.d.cyc + (c.d.qs.map (qCost c.d)).sum

/-- only the command path is active: kernel / copy answers in the GPU port, no page migration -/
def CmdOnly (c : C) : Prop :=
  (∀ m ∈ c.inb, ∃ q, m = .kernRsp q ∨ m = .genRsp q) ∧ c.d.mIn = [] ∧ c.d.migToCP = 0 ∧ c.d.toMMU = false

/-- `n` ticks in a row (the engine keeps ticking while progress is reported) -/
def iter (k : Caps) : Nat → C → C
  | 0, c => c
  | n + 1, c => iter k n (tick k c).1

/-! ### the parts of the measure -/

/-- the fields no stage changes on the command path: the configuration the costs depend on and the
    page-migration fields `CmdOnly` speaks about -/
def Same (d' d : D) : Prop :=
  d'.nGpus = d.nGpus ∧ d'.cycH2D = d.cycH2D ∧ d'.cycD2H = d.cycD2H ∧
  d'.mIn = d.mIn ∧ d'.migToCP = d.migToCP ∧ d'.toMMU = d.toMMU

theorem Same.rfl' (d : D) : Same d d := ⟨rfl, rfl, rfl, rfl, rfl, rfl⟩

theorem Same.trans' {a b c : D} (h1 : Same a b) (h2 : Same b c) : Same a c := by
  obtain ⟨a1, a2, a3, a4, a5, a6⟩ := h1
  obtain ⟨b1, b2, b3, b4, b5, b6⟩ := h2
  exact ⟨a1.trans b1, a2.trans b2, a3.trans b3, a4.trans b4, a5.trans b5, a6.trans b6⟩

/-- requests to send, requests in the delay line (twice), the delay line itself -/
def pM (d : D) : Nat := d.toSend.length + 2 * d.awaiting.length + cycM d.cyc

def qSum (d : D) (qs : List Q) : Nat := (qs.map (qCost d)).sum

theorem measure_eq (c : C) : measure c = c.inb.length + pM c.d + qSum c.d c.d.qs := by
  unfold measure pM qSum; omega

theorem cost_same {d' d : D} (h : Same d' d) (c : Cmd) : cost d' c = cost d c := by
  obtain ⟨h1, h2, h3, _⟩ := h
  cases c <;> simp [cost, h1, h2, h3]

/-- `qCost` looks at `d` only through `nGpus`, `cycH2D`, `cycD2H` -/
theorem qCost_same {d' d : D} (h : Same d' d) (q : Q) : qCost d' q = qCost d q := by
  have hc : cost d' = cost d := funext (cost_same h)
  unfold qCost; rw [hc]

theorem qSum_same {d' d : D} (h : Same d' d) (qs : List Q) : qSum d' qs = qSum d qs := by
  have hc : qCost d' = qCost d := funext (qCost_same h)
  unfold qSum; rw [hc]

theorem qSum_cons (d : D) (q : Q) (qs : List Q) : qSum d (q :: qs) = qCost d q + qSum d qs := by
  simp [qSum]

theorem cmdOnly_of {c c' : C} (h : CmdOnly c) (hin : c'.inb = c.inb ∨ c'.inb = c.inb.tail) (hs : Same c'.d c.d) :
    CmdOnly c' := by
  obtain ⟨h1, h2, h3, h4⟩ := h
  obtain ⟨_, _, _, s4, s5, s6⟩ := hs
  refine ⟨?_, s4.trans h2, s5.trans h3, s6.trans h4⟩
  intro m hm
  rcases hin with e | e
  · rw [e] at hm; exact h1 m hm
  · rw [e] at hm; exact h1 m (List.mem_of_mem_tail hm)

/-- what a stage has to satisfy on the command path -/
def OKStep (c c' : C) (b : Bool) : Prop :=
  CmdOnly c' ∧ Same c'.d c.d ∧ measure c' ≤ measure c ∧ (b = true → measure c' < measure c)

def StageOK (st : Stage D GMsg GReq) : Prop := ∀ c, CmdOnly c → OKStep c (st c).1 (st c).2

theorem ok_id {c : C} (h : CmdOnly c) : OKStep c c false :=
  ⟨h, Same.rfl' _, Nat.le_refl _, fun hf => by cases hf⟩

theorem ok_of {c c' : C} {b : Bool} (h : CmdOnly c) (hin : c'.inb = c.inb ∨ c'.inb = c.inb.tail) (hs : Same c'.d c.d)
    (hle : c'.inb.length + pM c'.d + qSum c.d c'.d.qs ≤ c.inb.length + pM c.d + qSum c.d c.d.qs)
    (hlt : b = true → c'.inb.length + pM c'.d + qSum c.d c'.d.qs < c.inb.length + pM c.d + qSum c.d c.d.qs) :
    OKStep c c' b := by
  refine ⟨cmdOnly_of h hin hs, hs, ?_, ?_⟩
  · rw [measure_eq, measure_eq, qSum_same hs]; exact hle
  · intro hb; rw [measure_eq, measure_eq, qSum_same hs]; exact hlt hb

/-! ### answers -/

theorem qCost_retQ (d : D) (q : Q) : qCost d (retQ q) ≤ qCost d q := by
  obtain ⟨cmds, running, left, ctx⟩ := q
  cases running with
  | false => simp [retQ]
  | true =>
    unfold retQ
    simp only [if_true]
    split
    · simp [qCost]
    · simp [qCost]

theorem qSum_updAt_retQ (d : D) (i : Nat) (qs : List Q) : qSum d (updAt retQ i qs) ≤ qSum d qs := by
  induction qs generalizing i with
  | nil => simp [updAt]
  | cons q rest ih =>
    cases i with
    | zero =>
      simp only [updAt, qSum_cons]
      have := qCost_retQ d q
      omega
    | succ j =>
      simp only [updAt, qSum_cons]
      have := ih j
      omega

/-! ### the delay line -/

theorem delay_ok (d : D) :
    Same (delay d).1 d ∧ (delay d).1.qs = d.qs ∧ pM (delay d).1 ≤ pM d ∧ ((delay d).2 = true → pM (delay d).1 < pM d) := by
  unfold delay
  split
  · rename_i k hk
    refine ⟨Same.rfl' _, rfl, ?_, fun _ => ?_⟩ <;> simp only [pM, hk, cycM] <;> omega
  · rename_i hk
    refine ⟨Same.rfl' _, rfl, ?_, fun _ => ?_⟩ <;>
      simp only [pM, hk, cycM, List.length_append, List.length_nil] <;> omega
  · exact ⟨Same.rfl' _, rfl, Nat.le_refl _, fun hf => by cases hf⟩

/-! ### starting commands -/

theorem applyStarted_same (d : D) (ctx : Nat) (st : Started) : Same (applyStarted d ctx st) d :=
  ⟨rfl, rfl, rfl, rfl, rfl, rfl⟩

theorem cycM_le_of_le {v m : Nat} (h : v ≤ m) : cycM (some v) ≤ m + 1 := by
  simp only [cycM]; omega

theorem pM_applyStarted_none (d : D) (ctx : Nat) (s a : List GReq) (b : Bool) :
    pM (applyStarted d ctx { send := s, await := a, cyc := none, dirty := b }) = pM d + s.length + 2 * a.length := by
  simp only [pM, applyStarted, List.length_append]; omega

theorem pM_applyStarted_some (d : D) (ctx : Nat) (s a : List GReq) (v : Nat) (b : Bool) :
    pM (applyStarted d ctx { send := s, await := a, cyc := some v, dirty := b }) + cycM d.cyc
      = pM d + s.length + 2 * a.length + (v + 1) := by
  simp only [pM, applyStarted, List.length_append, cycM]; omega

/-- one queue: what is added to the requests and the delay line is paid for by the head's cost -/
theorem procQ_ok (d : D) (i : Nat) (q : Q) :
    pM (applyStarted d q.ctx (procQ d i q).2.1) + qCost d (procQ d i q).1 ≤ pM d + qCost d q ∧
    ((procQ d i q).2.2 = true →
      pM (applyStarted d q.ctx (procQ d i q).2.1) + qCost d (procQ d i q).1 < pM d + qCost d q) := by
  obtain ⟨cmds, running, left, ctx⟩ := q
  have hnone : pM (applyStarted d ctx {}) = pM d := by
    have := pM_applyStarted_none d ctx [] [] false
    simpa using this
  cases cmds with
  | nil => simp only [procQ, hnone]; exact ⟨Nat.le_refl _, fun hf => by cases hf⟩
  | cons c cs =>
    cases running with
    | true => simp only [procQ, if_true, hnone]; exact ⟨Nat.le_refl _, fun hf => by cases hf⟩
    | false =>
      cases c with
      | noop =>
        simp only [procQ, Bool.false_eq_true, if_false, hnone, qCost, List.map_cons, List.sum_cons, cost]
        omega
      | unhandled =>
        simp only [procQ, Bool.false_eq_true, if_false, hnone]
        exact ⟨Nat.le_refl _, fun hf => by cases hf⟩
      | mcopy =>
        simp only [procQ, Bool.false_eq_true, if_false, hnone, qCost, List.map_cons, List.sum_cons, cost]
        omega
      | fl =>
        have := pM_applyStarted_none d ctx (List.replicate d.nGpus (.flush i)) [] false
        simp only [List.length_replicate, List.length_nil] at this
        by_cases hz : d.nGpus = 0
        · rw [hz] at this
          simp only [procQ, Bool.false_eq_true, if_false, hz, if_true, this, qCost, List.map_cons, List.sum_cons, cost]
          omega
        · simp only [procQ, Bool.false_eq_true, if_false, hz, this, qCost, List.map_cons, List.sum_cons, cost,
            List.tail_cons, if_true]
          omega
      | kern n =>
        cases n with
        | zero =>
          simp only [procQ, Bool.false_eq_true, if_false, hnone, qCost, List.map_cons, List.sum_cons, cost]
          omega
        | succ n =>
          have := pM_applyStarted_none d ctx (List.replicate (n + 1) (.launch i)) [] true
          simp only [List.length_replicate, List.length_nil] at this
          simp only [procQ, Bool.false_eq_true, if_false, this, qCost, List.map_cons, List.sum_cons, cost,
            List.tail_cons, if_true]
          omega
      | copy d2h p =>
        simp only [procQ, Bool.false_eq_true, if_false]
        have hnf : (if (d.dirty[ctx]?).getD false = true then d.nGpus else 0) ≤ d.nGpus := by split <;> omega
        have hv : (if d2h = true then d.cycD2H else d.cycH2D) ≤ max d.cycH2D d.cycD2H := by split <;> omega
        generalize (if (d.dirty[ctx]?).getD false = true then d.nGpus else 0) = nf at hnf ⊢
        generalize (if d2h = true then d.cycD2H else d.cycH2D) = v at hv ⊢
        have hp := pM_applyStarted_some d ctx (List.replicate nf (.flush i)) (List.replicate p (.copy i)) v false
        simp only [List.length_replicate] at hp
        by_cases hz : nf + p = 0
        · simp only [hz, if_true, qCost, Bool.false_eq_true, if_false, List.map_cons, List.sum_cons, cost]
          omega
        · simp only [hz, if_false, qCost, Bool.false_eq_true, if_true, List.map_cons, List.sum_cons, cost, List.tail_cons]
          omega

/-- the whole pass over the queues: `d` is threaded, the configuration never changes -/
theorem procAll_ok (d : D) (i : Nat) (qs : List Q) :
    Same (procAll d i qs).1 d ∧
    pM (procAll d i qs).1 + qSum d (procAll d i qs).2.1 ≤ pM d + qSum d qs ∧
    ((procAll d i qs).2.2 = true → pM (procAll d i qs).1 + qSum d (procAll d i qs).2.1 < pM d + qSum d qs) := by
  induction qs generalizing d i with
  | nil => exact ⟨Same.rfl' _, Nat.le_refl _, fun hf => by cases hf⟩
  | cons q rest ih =>
    have hs1 := applyStarted_same d q.ctx (procQ d i q).2.1
    obtain ⟨s2, le2, lt2⟩ := ih (applyStarted d q.ctx (procQ d i q).2.1) (i + 1)
    obtain ⟨le1, lt1⟩ := procQ_ok d i q
    rw [qSum_same hs1, qSum_same hs1] at le2 lt2
    simp only [procAll, qSum_cons, Bool.or_eq_true]
    refine ⟨Same.trans' s2 hs1, by omega, ?_⟩
    intro hb
    rcases hb with hb | hb
    · have := lt1 hb; omega
    · have := lt2 hb; omega

/-! ### the seven stages -/

theorem sendToGPUs_ok (k : Caps) : StageOK (sendToGPUs k) := by
  intro c h
  unfold sendToGPUs
  split
  · exact ok_id h
  · rename_i x rest hts
    split
    · refine ok_of h (Or.inl rfl) (Same.rfl' _) ?_ (fun _ => ?_) <;>
        simp only [pM, hts, List.length_cons] <;> omega
    · exact ok_id h

theorem sendToMMU_ok (k : Caps) : StageOK (sendToMMU k) := by
  intro c h
  unfold sendToMMU
  simp only [h.2.2.2, Bool.false_eq_true, if_false]
  exact ok_id h

theorem sendMig_ok (k : Caps) : StageOK (sendMigrationReqToCP k) := by
  intro c h
  unfold sendMigrationReqToCP
  split
  · exact ok_id h
  · rename_i n hn
    rw [h.2.2.1] at hn; cases hn

theorem parseFromMMU_ok : StageOK parseFromMMU := by
  intro c h
  unfold parseFromMMU
  split
  · exact ok_id h
  · split
    · exact ok_id h
    · rename_i r rest hm
      rw [h.2.1] at hm; cases hm

theorem mwTick_ok : StageOK mwTick := by
  intro c h
  obtain ⟨d, inb, outb⟩ := c
  obtain ⟨sd, qd, led, ltd⟩ := delay_ok d
  cases inb with
  | nil =>
    refine ok_of h (Or.inl rfl) sd ?_ (fun hb => ?_)
    · show 0 + pM (delay d).1 + qSum d (delay d).1.qs ≤ 0 + pM d + qSum d d.qs
      rw [qd]; omega
    · show 0 + pM (delay d).1 + qSum d (delay d).1.qs < 0 + pM d + qSum d d.qs
      have := ltd hb
      rw [qd]; omega
  | cons m rest =>
    obtain ⟨q, hq | hq⟩ := h.1 m (by simp)
    · subst hq
      refine ok_of h (Or.inl rfl) sd ?_ (fun hb => ?_)
      · show (rest.length + 1) + pM (delay d).1 + qSum d (delay d).1.qs ≤ (rest.length + 1) + pM d + qSum d d.qs
        rw [qd]; omega
      · show (rest.length + 1) + pM (delay d).1 + qSum d (delay d).1.qs < (rest.length + 1) + pM d + qSum d d.qs
        have := ltd hb
        rw [qd]; omega
    · subst hq
      have hu := qSum_updAt_retQ d q (delay d).1.qs
      rw [qd] at hu
      refine ok_of h (Or.inr rfl) sd ?_ (fun _ => ?_)
      · show rest.length + pM (delay d).1 + qSum d (updAt retQ q (delay d).1.qs) ≤ (rest.length + 1) + pM d + qSum d d.qs
        rw [qd]; omega
      · show rest.length + pM (delay d).1 + qSum d (updAt retQ q (delay d).1.qs) < (rest.length + 1) + pM d + qSum d d.qs
        rw [qd]; omega

theorem processReturnReq_ok : StageOK processReturnReq := by
  intro c h
  obtain ⟨d, inb, outb⟩ := c
  cases inb with
  | nil => exact ok_id h
  | cons m rest =>
    obtain ⟨q, hq | hq⟩ := h.1 m (by simp)
    · subst hq
      have hu := qSum_updAt_retQ d q d.qs
      refine ok_of h (Or.inr rfl) (Same.rfl' _) ?_ (fun _ => ?_)
      · show rest.length + pM d + qSum d (updAt retQ q d.qs) ≤ (rest.length + 1) + pM d + qSum d d.qs
        omega
      · show rest.length + pM d + qSum d (updAt retQ q d.qs) < (rest.length + 1) + pM d + qSum d d.qs
        omega
    · subst hq
      exact ok_id h

theorem processNewCommand_ok : StageOK processNewCommand := by
  intro c h
  obtain ⟨s, le, lt⟩ := procAll_ok c.d 0 c.d.qs
  refine ok_of h (Or.inl rfl) s ?_ (fun hb => ?_)
  · show c.inb.length + pM (procAll c.d 0 c.d.qs).1 + qSum c.d (procAll c.d 0 c.d.qs).2.1 ≤ _
    omega
  · show c.inb.length + pM (procAll c.d 0 c.d.qs).1 + qSum c.d (procAll c.d 0 c.d.qs).2.1 < _
    have := lt hb
    omega

theorem stages_ok (k : Caps) : ∀ st ∈ stages k, StageOK st := by
  intro st hst
  simp only [stages, List.mem_cons, List.mem_nil_iff, or_false] at hst
  rcases hst with rfl | rfl | rfl | rfl | rfl | rfl | rfl
  · exact sendToGPUs_ok k
  · exact sendToMMU_ok k
  · exact sendMig_ok k
  · exact mwTick_ok
  · exact processReturnReq_ok
  · exact processNewCommand_ok
  · exact parseFromMMU_ok

/-- **Every stage of `Driver.Tick` on the command path**: the measure does not increase, a stage that
    reports progress strictly decreases it, the command path stays the only active one, the
    configuration the costs depend on is untouched. -/
theorem stage_measure (k : Caps) (st : Stage D GMsg GReq) (hst : st ∈ stages k) (c : C) (h : CmdOnly c) :
    measure (st c).1 ≤ measure c ∧ ((st c).2 = true → measure (st c).1 < measure c) ∧ CmdOnly (st c).1 ∧
    (st c).1.d.nGpus = c.d.nGpus ∧ (st c).1.d.cycH2D = c.d.cycH2D ∧ (st c).1.d.cycD2H = c.d.cycD2H := by
  obtain ⟨h1, h2, h3, h4⟩ := stages_ok k st hst c h
  exact ⟨h3, h4, h1, h2.1, h2.2.1, h2.2.2.1⟩

theorem runStages_measure (l : List (Stage D GMsg GReq)) (hl : ∀ st ∈ l, StageOK st) (c : C) (h : CmdOnly c) :
    CmdOnly (runStages l c).1 ∧ measure (runStages l c).1 ≤ measure c ∧
    ((runStages l c).2 = true → measure (runStages l c).1 < measure c) := by
  induction l generalizing c with
  | nil => exact ⟨h, Nat.le_refl _, fun hf => by cases hf⟩
  | cons st rest ih =>
    obtain ⟨c1, _, le1, lt1⟩ := hl st (by simp) c h
    obtain ⟨c2, le2, lt2⟩ := ih (fun st' hst' => hl st' (by simp [hst'])) (st c).1 c1
    simp only [runStages, Bool.or_eq_true]
    refine ⟨c2, Nat.le_trans le2 le1, ?_⟩
    intro hb
    rcases hb with hb | hb
    · exact Nat.lt_of_le_of_lt le2 (lt1 hb)
    · exact Nat.lt_of_lt_of_le (lt2 hb) le1

/-- a whole `Tick` on the command path: the measure never increases and strictly decreases whenever
    the tick reports progress -/
theorem tick_measure (k : Caps) (c : C) (h : CmdOnly c) :
    CmdOnly (tick k c).1 ∧ measure (tick k c).1 ≤ measure c ∧ ((tick k c).2 = true → measure (tick k c).1 < measure c) :=
  runStages_measure (stages k) (stages_ok k) c h

theorem iter_cmdOnly (k : Caps) (n : Nat) (c : C) (h : CmdOnly c) : CmdOnly (iter k n c) := by
  induction n generalizing c with
  | zero => exact h
  | succ n ih => exact ih _ (tick_measure k c h).1

theorem iter_measure_le (k : Caps) (n : Nat) (c : C) (h : CmdOnly c) : measure (iter k n c) ≤ measure c := by
  induction n generalizing c with
  | zero => exact Nat.le_refl _
  | succ n ih => exact Nat.le_trans (ih _ (tick_measure k c h).1) (tick_measure k c h).2.1

/-- on the command path every message in the GPU port is one some stage takes -/
theorem cmdOnly_clean {c : C} (h : CmdOnly c) : Clean c := by
  intro m hm
  obtain ⟨q, rfl | rfl⟩ := h.1 m hm <;> rfl

end Full
end W
end C12
