import MgpuProofs.C09Prog
/-! # C09 — a tick without progress: what the dispatchers are waiting for

`no_stuck_core`: if a whole `CommandProcessor.Tick` reports no progress (and no fault), although both
outgoing ports have room, every in-flight request has its completion message in the port and the
message at the head of the port names an in-flight request, then either every launch has been
answered, or nothing is in flight anywhere and some dispatcher was refused by every CU for its next
work-group. -/
namespace C09

/-- request `r` is in flight at the dispatcher -/
def Disp.inFl (d : Disp) (r : Nat) : Prop := r ∈ d.inflight.map (·.1)

theorem any_iff_inFl (d : Disp) (r : Nat) : d.inflight.any (·.1 = r) = true ↔ d.inFl r := by
  simp only [Disp.inFl, List.any_eq_true, List.mem_map, decide_eq_true_eq]

/-- same accounting view, same unread completion messages (the CU pool, the placement cursors and the
    fetched / placed work-group may differ) -/
def Same (cp cp' : CP) : Prop := cp'.view = cp.view ∧ cp'.cuIn = cp.cuIn

theorem Same.refl (cp : CP) : Same cp cp := ⟨rfl, rfl⟩
theorem Same.trans {a b c : CP} (h1 : Same a b) (h2 : Same b c) : Same a c :=
  ⟨h2.1.trans h1.1, h2.2.trans h1.2⟩

theorem Same.dv {a b : CP} (h : Same a b) (j : Nat) : (b.disp j).view = (a.disp j).view :=
  congrFun (congrArg V.ds h.1) j

theorem Same.inFl {a b : CP} (h : Same a b) (j r : Nat) : (b.disp j).inFl r ↔ (a.disp j).inFl r := by
  have := congrArg DV.infl (h.dv j)
  simp only [Disp.view] at this
  simp only [Disp.inFl, this]

/-- the part of `DispatcherImpl.Tick` before `processMessagesFromCU` -/
def tickHead (cp : CP) (i : Nat) : CP × Bool :=
  if (cp.disp i).kern.isSome then
    if kernelCompleted (cp.disp i) then completeKernel cp i else dispatchLoop i 8 cp
  else (cp, false)

theorem dispTick_eq (cp : CP) (i : Nat) (hc : (cp.disp i).cycleLeft = 0) :
    dispTick cp i = if (tickHead cp i).1.fault.isSome then tickHead cp i
      else ((procMsgs i 8 (tickHead cp i).1).1, (tickHead cp i).2 || (procMsgs i 8 (tickHead cp i).1).2) := by
  unfold dispTick tickHead
  have : ¬ (cp.disp i).cycleLeft > 0 := by omega
  simp only [this, if_false]

theorem completeKernel_cuIn (cp : CP) (i : Nat) : (completeKernel cp i).1.cuIn = cp.cuIn := by
  unfold completeKernel
  cases hk : (cp.disp i).kern with
  | none => simp only [hk]
  | some k =>
    simp only [hk]
    by_cases hr : cp.drvRoom = 0
    · simp [hr]
    · simp only [hr, if_false]; rfl

theorem tickHead_cuIn (cp : CP) (i : Nat) (hdc : DCI cp) : (tickHead cp i).1.cuIn = cp.cuIn := by
  unfold tickHead
  by_cases hks : (cp.disp i).kern.isSome = true
  · simp only [hks, if_true]
    by_cases hkc : kernelCompleted (cp.disp i) = true
    · simp only [hkc, if_true]; exact completeKernel_cuIn cp i
    · simp only [hkc]; exact (dispatchLoop_steps i 8 cp hdc).2
  · simp only [hks]; rfl

theorem tickHead_steps (cp : CP) (i : Nat) (hdc : DCI cp) :
    Steps (tickHead cp i).2 cp.view (tickHead cp i).1.view := by
  unfold tickHead
  by_cases hks : (cp.disp i).kern.isSome = true
  · simp only [hks, if_true]
    by_cases hkc : kernelCompleted (cp.disp i) = true
    · simp only [hkc, if_true]; exact completeKernel_steps cp i hdc hks hkc
    · simp only [hkc]; exact (dispatchLoop_steps i 8 cp hdc).1
  · simp only [hks]; exact Steps.refl _

/-- every CU refused the next work-group of dispatcher `i` -/
def RefusedAt (cp : CP) (i : Nat) : Prop :=
  (cp.disp i).kern.isSome = true ∧ (cp.disp i).currWG = none ∧ (cp.disp i).alg.hasNext = true ∧
  (algNext cp i).2 = none

theorem cycle_pos_true (cp : CP) (i : Nat) (h : (cp.disp i).cycleLeft > 0) : (dispTick cp i).2 = true := by
  have := overhead_counts_down cp i ((cp.disp i).cycleLeft - 1) (by omega)
  rw [this]

/-- a dispatcher tick without progress while both ports have room -/
theorem dispTick_false_cases (cp : CP) (i : Nat) (hdc : DCI cp) (h : (dispTick cp i).2 = false)
    (hf : (dispTick cp i).1.fault = none) (hcr : 0 < cp.cuRoom) (hdr : 0 < cp.drvRoom) :
    Same cp (dispTick cp i).1 ∧
    (∀ ids rest, cp.cuIn = ids :: rest → ∀ r ∈ ids, ¬ (cp.disp i).inFl r) ∧
    ((cp.disp i).kern = none ∨ (cp.disp i).inflight ≠ [] ∨ RefusedAt cp i) := by
  have hc : (cp.disp i).cycleLeft = 0 := by
    by_cases hc : (cp.disp i).cycleLeft > 0
    · rw [cycle_pos_true cp i hc] at h; cases h
    · omega
  rw [dispTick_eq cp i hc] at h hf ⊢
  by_cases hft : (tickHead cp i).1.fault.isSome = true
  · simp only [hft, if_true] at hf
    rw [hf] at hft; cases hft
  · simp only [hft, Bool.false_eq_true, if_false] at h hf ⊢
    rw [Bool.or_eq_false_iff] at h
    obtain ⟨h1, h2⟩ := h
    obtain ⟨p1, p2⟩ := procMsgs_false i 7 (tickHead cp i).1 h2
    have hst := tickHead_steps cp i hdc
    rw [h1] at hst
    have hview : (tickHead cp i).1.view = cp.view := hst.eq_of_false.symm
    have hcu := tickHead_cuIn cp i hdc
    have hsame : Same cp (tickHead cp i).1 := ⟨hview, hcu⟩
    rw [p1]
    refine ⟨hsame, ?_, ?_⟩
    · intro ids rest hcuin r hr hin
      rcases p2 with p2 | ⟨ids', rest', e, hnot⟩
      · rw [hcu, hcuin] at p2; cases p2
      · rw [hcu, hcuin] at e
        injection e with e1 e2
        subst e1
        exact hnot r hr ((any_iff_inFl _ r).2 ((hsame.inFl i r).2 hin))
    · cases hk : (cp.disp i).kern with
      | none => exact Or.inl rfl
      | some k =>
        right
        have hks : (cp.disp i).kern.isSome = true := by rw [hk]; rfl
        unfold tickHead at h1 hft
        simp only [hks, if_true] at h1 hft
        by_cases hkc : kernelCompleted (cp.disp i) = true
        · simp only [hkc, if_true] at h1
          rw [(completeKernel_fires cp i k hk hdr).1] at h1; cases h1
        · simp only [hkc, Bool.false_eq_true, if_false] at h1 hft
          have hl := dispatchLoop_false i 7 cp h1
          rw [hl] at h1 hft
          rw [dispatchNextWG_eq] at h1 hft
          have s1 := (tail_spec (pre cp i).1 i (pre cp i).2).1 h1
          rw [s1] at hft
          have hcr' : (pre cp i).1.cuRoom = cp.cuRoom := congrArg V.cuRoom (pre_view cp i).1
          have hnone : (pre cp i).2 = none := by
            rcases tail_false_reason _ i _ h1 with h' | h' | h'
            · exact h'
            · exact absurd h' hft
            · rw [hcr'] at h'; omega
          cases hcw : (cp.disp i).currWG with
          | some dl => rw [pre_some cp i dl hcw] at hnone; cases hnone
          | none =>
            by_cases hn : (cp.disp i).alg.hasNext = true
            · right
              rw [pre_none_yes cp i hcw hn] at hnone
              exact ⟨hks, hcw, hn, hnone⟩
            · left
              have hfl := (hdc i).fl k hk
              have : (cp.disp i).nc < (cp.disp i).nd := by
                unfold kernelCompleted at hkc
                simp only [hcw, Option.isNone_none, Bool.true_and] at hkc
                have hn' : (cp.disp i).alg.hasNext = false := by
                  cases hx : (cp.disp i).alg.hasNext with
                  | true => exact absurd hx hn
                  | false => rfl
                simp only [hn', Bool.not_false, Bool.true_and, Bool.not_eq_true', decide_eq_false_iff_not,
                  Nat.not_lt] at hkc
                omega
              intro he
              rw [he] at hfl
              simp at hfl
              omega

theorem dispTick_false_same (cp : CP) (i : Nat) (hdc : DCI cp) (h : (dispTick cp i).2 = false) :
    Same cp (dispTick cp i).1 := by
  have hc : (cp.disp i).cycleLeft = 0 := by
    by_cases hc : (cp.disp i).cycleLeft > 0
    · rw [cycle_pos_true cp i hc] at h; cases h
    · omega
  have hv : (dispTick cp i).1.view = cp.view := (Steps_mu (dispTick_steps cp i hdc)).2 h
  refine ⟨hv, ?_⟩
  rw [dispTick_eq cp i hc] at h ⊢
  by_cases hft : (tickHead cp i).1.fault.isSome = true
  · simp only [hft, if_true]; exact tickHead_cuIn cp i hdc
  · simp only [hft, Bool.false_eq_true, if_false] at h ⊢
    rw [Bool.or_eq_false_iff] at h
    rw [(procMsgs_false i 7 (tickHead cp i).1 h.2).1]
    exact tickHead_cuIn cp i hdc

theorem tickDispatchers_fault (is : List Nat) (cp : CP) (h : cp.fault.isSome = true) :
    tickDispatchers is cp = (cp, false) := by
  cases is with
  | nil => rfl
  | cons i is => simp only [tickDispatchers, h, if_true]

theorem tickDispatchers_false : ∀ (is : List Nat) (cp : CP), DCI cp →
    (tickDispatchers is cp).2 = false → (tickDispatchers is cp).1.fault = none →
    Same cp (tickDispatchers is cp).1 ∧
    ∀ i ∈ is, ∃ ci, Same cp ci ∧ DCI ci ∧ (dispTick ci i).2 = false ∧ (dispTick ci i).1.fault = none := by
  intro is
  induction is with
  | nil => intro cp _ _ _; exact ⟨Same.refl _, fun i hi => by cases hi⟩
  | cons i is ih =>
    intro cp hdc hb hf
    by_cases hcf : cp.fault.isSome = true
    · rw [tickDispatchers_fault _ cp hcf] at hf
      rw [hf] at hcf; cases hcf
    · simp only [tickDispatchers, hcf, Bool.false_eq_true, if_false] at hb hf ⊢
      rw [Bool.or_eq_false_iff] at hb
      obtain ⟨hb1, hb2⟩ := hb
      have hd1 := dispTick_DCI cp i hdc
      have hs1 := dispTick_false_same cp i hdc hb1
      have hf1 : (dispTick cp i).1.fault = none := by
        cases hx : (dispTick cp i).1.fault with
        | none => rfl
        | some f =>
          have : (dispTick cp i).1.fault.isSome = true := by rw [hx]; rfl
          rw [tickDispatchers_fault _ _ this] at hf
          rw [hx] at hf; cases hf
      obtain ⟨a1, a2⟩ := ih _ hd1 hb2 hf
      refine ⟨hs1.trans a1, ?_⟩
      intro j hj
      rcases List.mem_cons.1 hj with e | e
      · subst e; exact ⟨cp, Same.refl _, hdc, hb1, hf1⟩
      · obtain ⟨ci, c1, c2, c3, c4⟩ := a2 j e
        exact ⟨ci, hs1.trans c1, c2, c3, c4⟩

/-- every launch delivered so far has been answered (nothing queued, every dispatcher idle) -/
def AllAnswered (cp : CP) : Prop := cp.drvIn = [] ∧ ∀ i, (cp.disp i).kern = none

/-- nothing is in flight at any dispatcher, yet every CU refused the next work-group of one of them -/
def RefusedIdle (cp : CP) : Prop :=
  (∀ j, (cp.disp j).inflight = []) ∧
  ∃ i ci, i < cp.disps.length ∧ Same cp ci ∧ RefusedAt ci i

/-- the environment owes nothing: both outgoing ports have room, the completion of every in-flight
    request has been delivered, and the message at the head of the port names an in-flight request -/
def EnvReady (cp : CP) : Prop :=
  0 < cp.cuRoom ∧ 0 < cp.drvRoom ∧
  (∀ j r, (cp.disp j).inFl r → ∃ m ∈ cp.cuIn, r ∈ m) ∧
  (∀ ids rest, cp.cuIn = ids :: rest → ∃ r ∈ ids, ∃ j, (cp.disp j).inFl r)

theorem handleLaunch_false (cp : CP) (k : Kern) (rest : List Kern) (hd : cp.drvIn = k :: rest)
    (i : Nat) (hi : i < cp.disps.length) (hk : (cp.disp i).kern = none) :
    (handleLaunch cp).2 = true ∨ (handleLaunch cp).1.fault = some "oversize" := by
  unfold handleLaunch
  simp only [hd]
  cases hfa : findAvailable cp.disps with
  | some j =>
    simp only []
    cases launchFits cp.pool k with
    | true => left; rfl
    | false => right; rfl
  | none =>
    exfalso
    unfold findAvailable at hfa
    rw [List.findIdx?_eq_none_iff] at hfa
    have hdi : cp.disp i = cp.disps[i] := by simp [CP.disp, List.getD_eq_getElem?_getD, hi]
    have := hfa cp.disps[i] (List.getElem_mem hi)
    rw [← hdi, hk] at this
    simp at this

theorem no_stuck_core (cp : CP) (hdc : DCI cp) (hn : 0 < cp.disps.length) (hb : (cpTick cp).2 = false)
    (hf : (cpTick cp).1.fault = none) (henv : EnvReady cp) : AllAnswered cp ∨ RefusedIdle cp := by
  obtain ⟨hcr, hdr, hdel, hhead⟩ := henv
  unfold cpTick at hb hf
  by_cases hft : (tickDispatchers (List.range cp.disps.length) cp).1.fault.isSome = true
  · simp only [hft, if_true] at hf
    rw [hf] at hft; cases hft
  · simp only [hft, Bool.false_eq_true, if_false] at hb hf
    simp only [Bool.or_eq_false_iff] at hb
    obtain ⟨⟨hb1, hb2⟩, hb3⟩ := hb
    have hf1 : (tickDispatchers (List.range cp.disps.length) cp).1.fault = none := by
      cases hx : (tickDispatchers (List.range cp.disps.length) cp).1.fault with
      | none => rfl
      | some f => rw [hx] at hft; simp at hft
    obtain ⟨hs, hall⟩ := tickDispatchers_false _ cp hdc hb1 hf1
    -- what a dispatcher saw in its own tick
    have hsee : ∀ i, i < cp.disps.length → ∃ ci, Same cp ci ∧
        (∀ ids rest, cp.cuIn = ids :: rest → ∀ r ∈ ids, ¬ (cp.disp i).inFl r) ∧
        ((cp.disp i).kern = none ∨ (cp.disp i).inflight ≠ [] ∨ RefusedAt ci i) := by
      intro i hi
      obtain ⟨ci, c1, c2, c3, c4⟩ := hall i (List.mem_range.2 hi)
      have hcr' : 0 < ci.cuRoom := by have := congrArg V.cuRoom c1.1; simp only [CP.view] at this; omega
      have hdr' : 0 < ci.drvRoom := by have := congrArg V.drvRoom c1.1; simp only [CP.view] at this; omega
      obtain ⟨_, q2, q3⟩ := dispTick_false_cases ci i c2 c3 c4 hcr' hdr'
      have hdv := c1.dv i
      refine ⟨ci, c1, ?_, ?_⟩
      · intro ids rest hcu r hr hin
        exact q2 ids rest (by rw [c1.2]; exact hcu) r hr ((c1.inFl i r).2 hin)
      · rcases q3 with q | q | q
        · left
          have := congrArg DV.kern hdv
          simp only [Disp.view] at this
          rw [← this]; exact q
        · right; left
          intro he
          have := congrArg DV.infl hdv
          simp only [Disp.view, he, List.map_nil] at this
          exact q (List.map_eq_nil_iff.1 this)
        · right; right; exact q
    -- nothing is in flight
    have hnofl : ∀ j, (cp.disp j).inflight = [] := by
      intro j
      cases hfl : (cp.disp j).inflight with
      | nil => rfl
      | cons e es =>
        exfalso
        have hin : (cp.disp j).inFl e.1 := by
          simp only [Disp.inFl, hfl, List.map_cons]; exact List.mem_cons_self
        obtain ⟨m, hm, _⟩ := hdel j e.1 hin
        cases hcu : cp.cuIn with
        | nil => rw [hcu] at hm; cases hm
        | cons ids rest =>
          obtain ⟨r, hr, j', hj'⟩ := hhead ids rest hcu
          have hj'lt : j' < cp.disps.length := by
            by_cases hlt : j' < cp.disps.length
            · exact hlt
            · rw [disp_oob cp j' hlt] at hj'; simp [Disp.inFl, default] at hj'
          obtain ⟨_, _, q2, _⟩ := hsee j' hj'lt
          exact q2 ids rest hcu r hr hj'
    by_cases hbusy : ∃ i, (cp.disp i).kern.isSome = true
    · right
      obtain ⟨i, hi⟩ := hbusy
      have hilt : i < cp.disps.length := by
        by_cases hlt : i < cp.disps.length
        · exact hlt
        · rw [disp_oob cp i hlt] at hi; cases hi
      obtain ⟨ci, c1, _, q3⟩ := hsee i hilt
      refine ⟨hnofl, i, ci, hilt, c1, ?_⟩
      rcases q3 with q | q | q
      · rw [q] at hi; cases hi
      · exact absurd (hnofl i) q
      · exact q
    · left
      have hidle : ∀ i, (cp.disp i).kern = none := by
        intro i
        cases hx : (cp.disp i).kern with
        | none => rfl
        | some k => exact absurd ⟨i, by rw [hx]; rfl⟩ hbusy
      refine ⟨?_, hidle⟩
      cases hdrv : cp.drvIn with
      | nil => rfl
      | cons k rest =>
        exfalso
        have hd' : (tickDispatchers (List.range cp.disps.length) cp).1.drvIn = k :: rest := by
          have := congrArg V.drvIn hs.1; simp only [CP.view] at this; rw [this]; exact hdrv
        have hlen : (tickDispatchers (List.range cp.disps.length) cp).1.disps.length = cp.disps.length := by
          have := congrArg V.n hs.1; simpa only [CP.view] using this
        have hk0 : ((tickDispatchers (List.range cp.disps.length) cp).1.disp 0).kern = none := by
          have := congrArg DV.kern (hs.dv 0)
          simp only [Disp.view] at this
          rw [this]; exact hidle 0
        rcases handleLaunch_false _ k rest hd' 0 (by omega) hk0 with this | this
        · rw [this] at hb2; cases hb2
        · -- a rejection is a fault of the tick
          rcases handleLaunch_fault (handleLaunch (tickDispatchers (List.range cp.disps.length) cp).1).1
            with e | e <;> rw [e] at hf
          · rw [this] at hf; cases hf
          · cases hf

end C09
