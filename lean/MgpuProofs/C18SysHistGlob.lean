import MgpuProofs.C18SysHist
/-! C18 system level, part 3a: the two *global* history laws `GHist` (clones) and `GHistR` (answers)
are invariants of the closed n-engine system.

Both are ledgers of the same shape as `GInv`: a move takes tokens out of some places and puts them
into others (`ghist_delta`, `ghistR_delta`); a move that touches one node only and none of the
places is covered by `ghist_setNode` / `ghistR_setNode`. -/
namespace C18

/-! ### initial state -/

theorem flatMap_nameToksAll_init (cfgs : List Cfg) :
    (cfgs.map fun c => ({ cfg := c } : Node)).flatMap nameToksAll = [] := by
  induction cfgs with
  | nil => rfl
  | cons c cs ih => simp [nameToksAll, ih]

theorem flatMap_outToks_init (cfgs : List Cfg) :
    (cfgs.map fun c => ({ cfg := c } : Node)).flatMap outToks = [] := by
  induction cfgs with
  | nil => rfl
  | cons c cs ih => simp [outToks, ih]

theorem ghist_init (cfgs : List Cfg) : GHist (initSys cfgs) := by
  intro a A ha c
  simp only [initSys, List.getElem?_map, Option.map_eq_some_iff] at ha
  obtain ⟨c', _, rfl⟩ := ha
  simp only [initSys, flatMap_nameToksAll_init]
  simp

theorem ghistR_init (cfgs : List Cfg) : GHistR (initSys cfgs) := by
  intro a A ha r
  simp only [initSys, List.getElem?_map, Option.map_eq_some_iff] at ha
  obtain ⟨c', _, rfl⟩ := ha
  simp only [initSys, flatMap_outToks_init]
  simp

/-! ### the clone ledger `GHist` -/

/-- one move seen from the clone ledger: tokens leave / enter the request network (`qm`/`qp`),
    enter the delivery history of node `i` (`np`), leave the outgoing buffer of node `i`'s inside
    channel (`dout`, relative to its history of forwards) -/
theorem ghist_delta {y y' : Sys} {i : Nat} {A nd' : Node} (h : GHist y) (hi : y.nodes[i]? = some A)
    (hn : y'.nodes = y.nodes.set i nd')
    (qm qp np : Nat × OutReq → Nat) (dout : OutReq → Nat)
    (hQ : ∀ t, (y'.netQ.map tokQC).count t + qm t = (y.netQ.map tokQC).count t + qp t)
    (hN : ∀ t, (nameToksAll nd').count t = (nameToksAll A).count t + np t)
    (hIO : ∀ c, (nd'.s.io.fwd.map (·.out)).count c + A.s.io.reqOut.count c =
      (A.s.io.fwd.map (·.out)).count c + nd'.s.io.reqOut.count c + dout c)
    (hbi : ∀ c, dout c + qm (i, c) = qp (i, c) + np (i, c))
    (hbo : ∀ a c, a ≠ i → qm (a, c) = qp (a, c) + np (a, c)) :
    GHist y' := by
  intro a A' ha c
  rw [hn] at ha ⊢
  have hfm := count_flatMap_set nameToksAll hi nd' (a, c)
  have := hQ (a, c)
  have := hN (a, c)
  rcases getElem?_set' ha with ⟨rfl, rfl, _⟩ | ⟨hne, h2⟩
  · have := h a A hi c
    have := hIO c
    have := hbi c
    omega
  · have := h a A' h2 c
    have := hbo a c hne
    omega

/-- a move that touches only node `i`, keeps its delivery history and changes its inside channel
    as an engine step may (`ChHist.fwOut`) keeps the clone ledger -/
theorem ghist_setNode {y : Sys} {i : Nat} {A nd' : Node} (h : GHist y) (hi : y.nodes[i]? = some A)
    (hnames : nd'.namesAll = A.namesAll)
    (hio : ∀ c, (nd'.s.io.fwd.map (·.out)).count c + A.s.io.reqOut.count c =
      (A.s.io.fwd.map (·.out)).count c + nd'.s.io.reqOut.count c) :
    GHist (setNode y i nd') := by
  refine ghist_delta (y' := setNode y i nd') h hi rfl (fun _ => 0) (fun _ => 0) (fun _ => 0) (fun _ => 0)
    ?_ ?_ ?_ ?_ ?_
  · intro t; rfl
  · intro t; simp only [nameToksAll, hnames, Nat.add_zero]
  · intro c; have := hio c; omega
  · intro c; rfl
  · intro a c _; rfl

/-- … in particular when the forward history and the outgoing buffer are not touched at all -/
theorem ghist_setNode_eq {y : Sys} {i : Nat} {A nd' : Node} (h : GHist y) (hi : y.nodes[i]? = some A)
    (hnames : nd'.namesAll = A.namesAll) (hf : nd'.s.io.fwd = A.s.io.fwd)
    (hq : nd'.s.io.reqOut = A.s.io.reqOut) : GHist (setNode y i nd') :=
  ghist_setNode h hi hnames (fun c => by rw [hf, hq])

theorem ghist_step (y : Sys) (o : SOp) (h : GHist y) : GHist (sstep y o) := by
  cases o with
  | issue a src pl =>
    simp only [sstep]
    split
    · exact h
    · next A hA =>
      split
      · next hsp =>
        refine ghist_setNode_eq h hA rfl ?_ ?_ <;> simp only [step, deliverReq, hsp, if_true]
      · exact h
  | ctl a k =>
    simp only [sstep]
    split
    · exact h
    · next A hA =>
      have hc := step_ctl_io A.cfg A.s k
      refine ghist_setNode_eq h hA rfl ?_ ?_ <;> (dsimp only; rw [hc.1])
  | tick a =>
    simp only [sstep]
    split
    · exact h
    · next A hA =>
      have hr := stRel_tick A.cfg A.s
      refine ghist_setNode h hA rfl ?_
      intro c
      exact hr.2.1.fwOut c
  | sendQ a =>
    simp only [sstep]
    split
    · exact h
    · next A hA =>
      split
      · exact h
      · next q rest hq =>
        refine ghist_delta h hA rfl (fun _ => 0) (fun t => if (a, q) == t then 1 else 0)
          (fun _ => 0) (fun c => if q == c then 1 else 0) ?_ ?_ ?_ ?_ ?_
        · intro t
          simp only [List.map_append, List.map_cons, List.map_nil, count_snoc, tokQC, Nat.add_zero]
        · intro t; rfl
        · intro c
          simp only [step, hq, List.tail_cons, List.count_cons]
          omega
        · intro c
          simp only [Nat.add_zero, beq_iff_eq, Prod.mk.injEq, true_and]
        · intro a' c hne
          have : ¬ (a = a' ∧ q = c) := fun e => hne e.1.symm
          simp only [beq_iff_eq, Prod.mk.injEq, this, if_false]
  | delivQ j =>
    simp only [sstep]
    split
    · exact h
    · next m hm =>
      split
      · exact h
      · next B hB =>
        split
        · next hsp =>
          refine ghist_delta h hB rfl (fun t => if tokQC m == t then 1 else 0) (fun _ => 0)
            (fun t => if tokQC m == t then 1 else 0) (fun _ => 0) ?_ ?_ ?_ ?_ ?_
          · intro t
            have := count_map_eraseIdx tokQC hm t
            simp only [Nat.add_zero]
            exact this
          · intro t
            simp only [nameToksAll, List.map_cons, count_cons', tokQC]
            rfl
          · intro c
            simp only [step, Nat.add_zero]
          · intro c; omega
          · intro a' c _; omega
        · exact h
  | l2take b =>
    simp only [sstep]
    split
    · exact h
    · next B hB =>
      split
      · exact h
      · next q rest hq =>
        refine ghist_setNode_eq h hB rfl ?_ ?_ <;> simp only [step]
  | l2ans b j d =>
    simp only [sstep]
    split
    · exact h
    · next B hB =>
      split
      · exact h
      · next q hq =>
        split
        · next hsp =>
          refine ghist_setNode_eq h hB rfl ?_ ?_ <;> simp only [step]
        · exact h
  | sendR b =>
    simp only [sstep]
    split
    · exact h
    · next B hB =>
      split
      · exact h
      · next o rest ho =>
        split
        · exact h
        · next nm r ht =>
          refine ghist_delta h hB rfl (fun _ => 0) (fun _ => 0) (fun _ => 0) (fun _ => 0) ?_ ?_ ?_ ?_ ?_
          · intro t; rfl
          · intro t; rfl
          · intro c; simp only [step, Nat.add_zero]
          · intro c; rfl
          · intro a' c _; rfl
  | delivR j =>
    simp only [sstep]
    split
    · exact h
    · next m hm =>
      split
      · exact h
      · next A hA =>
        split
        · next hsp =>
          refine ghist_delta h hA rfl (fun _ => 0) (fun _ => 0) (fun _ => 0) (fun _ => 0) ?_ ?_ ?_ ?_ ?_
          · intro t; rfl
          · intro t; rfl
          · intro c; simp only [step, deliverRsp, hsp, if_true, Nat.add_zero]
          · intro c; rfl
          · intro a' c _; rfl
        · exact h
  | l1take a =>
    simp only [sstep]
    split
    · exact h
    · next A hA =>
      split
      · exact h
      · next o rest ho =>
        refine ghist_setNode_eq h hA rfl ?_ ?_ <;> simp only [step]
  | ctake a =>
    simp only [sstep]
    split
    · exact h
    · next A hA =>
      split
      · exact h
      · next x rest hx =>
        refine ghist_setNode_eq h hA rfl ?_ ?_ <;> simp only [step]

/-! ### the answer ledger `GHistR` -/

/-- one move seen from the answer ledger: tokens leave / enter the answer network (`rm`/`rp`),
    enter the history of answers the network took from node `i` (`op`), enter the history of replies
    delivered to node `i` (`din`) -/
theorem ghistR_delta {y y' : Sys} {i : Nat} {A nd' : Node} (h : GHistR y) (hi : y.nodes[i]? = some A)
    (hn : y'.nodes = y.nodes.set i nd')
    (rm rp op : Nat × Rsp → Nat) (din : Rsp → Nat)
    (hR : ∀ t, (y'.netR.map tokRD).count t + rm t = (y.netR.map tokRD).count t + rp t)
    (hO : ∀ t, (outToks nd').count t = (outToks A).count t + op t)
    (hD : ∀ r, nd'.s.io.del.count r = A.s.io.del.count r + din r)
    (hbi : ∀ r, op (i, r) + rm (i, r) = rp (i, r) + din r)
    (hbo : ∀ a r, a ≠ i → op (a, r) + rm (a, r) = rp (a, r)) :
    GHistR y' := by
  intro a A' ha r
  rw [hn] at ha ⊢
  have hfm := count_flatMap_set outToks hi nd' (a, r)
  have := hR (a, r)
  have := hO (a, r)
  rcases getElem?_set' ha with ⟨rfl, rfl, _⟩ | ⟨hne, h2⟩
  · have := h a A hi r
    have := hD r
    have := hbi r
    omega
  · have := h a A' h2 r
    have := hbo a r hne
    omega

/-- a move that touches only node `i` and neither its history of answers taken by the network nor
    the replies delivered to its inside channel keeps the answer ledger -/
theorem ghistR_setNode {y : Sys} {i : Nat} {A nd' : Node} (h : GHistR y) (hi : y.nodes[i]? = some A)
    (hout : nd'.outAll = A.outAll) (hdel : nd'.s.io.del = A.s.io.del) :
    GHistR (setNode y i nd') := by
  refine ghistR_delta (y' := setNode y i nd') h hi rfl (fun _ => 0) (fun _ => 0) (fun _ => 0) (fun _ => 0)
    ?_ ?_ ?_ ?_ ?_
  · intro t; rfl
  · intro t; simp only [outToks, hout, Nat.add_zero]
  · intro r; rw [hdel]; rfl
  · intro r; rfl
  · intro a r _; rfl

theorem ghistR_step (y : Sys) (o : SOp) (h : GHistR y) : GHistR (sstep y o) := by
  cases o with
  | issue a src pl =>
    simp only [sstep]
    split
    · exact h
    · next A hA =>
      split
      · next hsp =>
        refine ghistR_setNode h hA rfl ?_
        simp only [step, deliverReq, hsp, if_true]
      · exact h
  | ctl a k =>
    simp only [sstep]
    split
    · exact h
    · next A hA =>
      have hc := step_ctl_io A.cfg A.s k
      refine ghistR_setNode h hA rfl ?_
      dsimp only; rw [hc.1]
  | tick a =>
    simp only [sstep]
    split
    · exact h
    · next A hA =>
      have hr := stRel_tick A.cfg A.s
      refine ghistR_setNode h hA rfl ?_
      exact hr.2.1.del
  | sendQ a =>
    simp only [sstep]
    split
    · exact h
    · next A hA =>
      split
      · exact h
      · next q rest hq =>
        refine ghistR_delta h hA rfl (fun _ => 0) (fun _ => 0) (fun _ => 0) (fun _ => 0) ?_ ?_ ?_ ?_ ?_
        · intro t; rfl
        · intro t; rfl
        · intro r; simp only [step, Nat.add_zero]
        · intro r; rfl
        · intro a' r _; rfl
  | delivQ j =>
    simp only [sstep]
    split
    · exact h
    · next m hm =>
      split
      · exact h
      · next B hB =>
        split
        · next hsp =>
          refine ghistR_delta h hB rfl (fun _ => 0) (fun _ => 0) (fun _ => 0) (fun _ => 0) ?_ ?_ ?_ ?_ ?_
          · intro t; rfl
          · intro t; rfl
          · intro r; simp only [step, Nat.add_zero]
          · intro r; rfl
          · intro a' r _; rfl
        · exact h
  | l2take b =>
    simp only [sstep]
    split
    · exact h
    · next B hB =>
      split
      · exact h
      · next q rest hq =>
        refine ghistR_setNode h hB rfl ?_
        simp only [step]
  | l2ans b j d =>
    simp only [sstep]
    split
    · exact h
    · next B hB =>
      split
      · exact h
      · next q hq =>
        split
        · next hsp =>
          refine ghistR_setNode h hB rfl ?_
          simp only [step]
        · exact h
  | sendR b =>
    simp only [sstep]
    split
    · exact h
    · next B hB =>
      split
      · exact h
      · next o rest ho =>
        split
        · exact h
        · next nm r ht =>
          refine ghistR_delta h hB rfl (fun _ => 0)
            (fun t => if tokRD ⟨o.dst, nm.c.fid, o.data, b, o.rspTo⟩ == t then 1 else 0)
            (fun t => if tokRD ⟨o.dst, nm.c.fid, o.data, b, o.rspTo⟩ == t then 1 else 0)
            (fun _ => 0) ?_ ?_ ?_ ?_ ?_
          · intro t
            simp only [List.map_append, List.map_cons, List.map_nil, count_snoc, Nat.add_zero]
          · intro t
            simp only [outToks, List.map_cons, count_cons']
          · intro r'; simp only [step, Nat.add_zero]
          · intro r'; omega
          · intro a' r' _; omega
  | delivR j =>
    simp only [sstep]
    split
    · exact h
    · next m hm =>
      split
      · exact h
      · next A hA =>
        split
        · next hsp =>
          refine ghistR_delta h hA rfl (fun t => if tokRD m == t then 1 else 0) (fun _ => 0) (fun _ => 0)
            (fun r => if (⟨m.fid, m.data, false⟩ : Rsp) == r then 1 else 0) ?_ ?_ ?_ ?_ ?_
          · intro t
            have := count_map_eraseIdx tokRD hm t
            simp only [Nat.add_zero]
            exact this
          · intro t; rfl
          · intro r
            simp only [step, deliverRsp, hsp, if_true, count_cons']
          · intro r
            simp only [tokRD, Nat.zero_add, beq_iff_eq, Prod.mk.injEq, true_and]
          · intro a' r hne
            have : ¬ (m.dst = a' ∧ (⟨m.fid, m.data, false⟩ : Rsp) = r) := fun e => hne e.1.symm
            simp only [tokRD, Nat.zero_add, beq_iff_eq, Prod.mk.injEq, this, if_false]
        · exact h
  | l1take a =>
    simp only [sstep]
    split
    · exact h
    · next A hA =>
      split
      · exact h
      · next o rest ho =>
        refine ghistR_setNode h hA rfl ?_
        simp only [step]
  | ctake a =>
    simp only [sstep]
    split
    · exact h
    · next A hA =>
      split
      · exact h
      · next x rest hx =>
        refine ghistR_setNode h hA rfl ?_
        simp only [step]

theorem ghist_run (y : Sys) (ops : List SOp) (h : GHist y) : GHist (srun y ops) := by
  unfold srun
  induction ops generalizing y with
  | nil => exact h
  | cons o os ih => exact ih _ (ghist_step y o h)

theorem ghistR_run (y : Sys) (ops : List SOp) (h : GHistR y) : GHistR (srun y ops) := by
  unfold srun
  induction ops generalizing y with
  | nil => exact h
  | cons o os ih => exact ih _ (ghistR_step y o h)

end C18
