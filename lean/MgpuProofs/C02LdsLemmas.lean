import MgpuModel.C02Lds
/-! Helper lemmas for `Props/C02Lds.lean`: the invariant of the LDS unit, the progress measure,
    the architectural state as a fold over `ran`, the fault predicate, the array evaluation. -/
namespace C02.Lds

/-! ## the unit invariant -/

/-- where every accepted instruction is, and what has been handed to `alu.Run` -/
structure Inv (u : U) : Prop where
  acc : u.accepted = u.completed ++ u.toWrite.toList ++ u.toExec.toList ++ u.toRead.toList
  ran : u.ran = u.completed ++ u.toWrite.toList ++ (if u.cycleLeft = 0 then [] else u.toExec.toList)
  cl0 : u.toExec = none → u.cycleLeft = 0
  cl14 : u.cycleLeft ≤ 14
  nodup : u.accepted.Nodup

theorem inv_idle : Inv idle := ⟨rfl, rfl, fun _ => rfl, by decide, by simp [idle]⟩

theorem tick_accepted (u : U) : (tick u).1.accepted = u.accepted := by
  obtain ⟨r, e, w, c, A, R, C⟩ := u
  cases r <;> cases e <;> cases w <;> rcases c with _ | _ | c <;>
    simp [tick, runWriteStage, runExecStage, runReadStage]

theorem tick_ran (u : U) : (tick u).1.ran = u.ran ++ (tick u).2.toList := by
  obtain ⟨r, e, w, c, A, R, C⟩ := u
  cases r <;> cases e <;> cases w <;> rcases c with _ | _ | c <;>
    simp [tick, runWriteStage, runExecStage, runReadStage]

theorem inv_tick {u : U} (h : Inv u) : Inv (tick u).1 := by
  obtain ⟨r, e, w, c, A, R, C⟩ := u
  obtain ⟨h1, h2, h3, h4, h5⟩ := h
  simp only at h1 h2 h3 h4 h5
  subst h1
  cases r <;> cases e <;> cases w <;> rcases c with _ | _ | c <;>
    simp_all [tick, runWriteStage, runExecStage, runReadStage] <;>
    (constructor <;> simp_all <;> omega)

theorem inv_tryAccept {u : U} (h : Inv u) {id : Nat} (hf : id ∉ u.accepted) : Inv (tryAccept u id) := by
  obtain ⟨r, e, w, c, A, R, C⟩ := u
  obtain ⟨h1, h2, h3, h4, h5⟩ := h
  simp only at h1 h2 h3 h4 h5 hf
  cases r with
  | some r => simpa [tryAccept, canAccept] using ⟨h1, h2, h3, h4, h5⟩
  | none =>
    refine ⟨?_, ?_, h3, h4, ?_⟩
    · simp [tryAccept, canAccept, accept, h1]
    · simpa [tryAccept, canAccept, accept] using h2
    · simp only [tryAccept, canAccept, accept, Option.isNone_none, if_true]
      exact List.nodup_append.mpr ⟨h5, by simp, by
        intro a ha b hb
        simp only [List.mem_singleton] at hb
        subst hb
        intro hab
        exact hf (hab ▸ ha)⟩

theorem inv_run : ∀ (ops : List Op) (u : U), Valid ops u → Inv u → Inv (runU ops u)
  | [], _, _, h => h
  | .tick :: ops, _, hv, h => inv_run ops _ hv (inv_tick h)
  | .accept _ :: ops, _, hv, h => inv_run ops _ hv.2 (inv_tryAccept h hv.1)

/-! ## what the invariant gives -/

theorem inv_completed_prefix {u : U} (h : Inv u) : u.completed <+: u.ran := by
  rw [h.ran, List.append_assoc]
  exact List.prefix_append _ _

theorem inv_ran_prefix {u : U} (h : Inv u) : u.ran <+: u.accepted := by
  rw [h.ran, h.acc]
  by_cases hc : u.cycleLeft = 0
  · simp only [hc, if_true, List.append_nil]
    exact (List.prefix_append _ _).trans (List.prefix_append _ _)
  · simp only [hc, if_false]
    exact List.prefix_append _ _

theorem inv_ran_nodup {u : U} (h : Inv u) : u.ran.Nodup :=
  h.nodup.sublist (inv_ran_prefix h).sublist

theorem inv_pending {u : U} (h : Inv u) : u.accepted.length = u.completed.length + pending u := by
  rw [h.acc]
  simp only [List.length_append, pending]
  omega

/-! ## progress -/

/-- cycles the instructions in the pipeline still need at most -/
def phi (u : U) : Nat :=
  (if u.toRead.isSome then 17 else 0) +
  (match u.toExec with
    | none => 0
    | some _ => if u.cycleLeft = 0 then 16 else u.cycleLeft + 1) +
  (if u.toWrite.isSome then 1 else 0)

theorem phi_tick {u : U} (h : Inv u) (hp : phi u ≠ 0) : phi (tick u).1 < phi u := by
  obtain ⟨r, e, w, c, A, R, C⟩ := u
  obtain ⟨h1, h2, h3, h4, h5⟩ := h
  simp only at h3 h4
  cases r <;> cases e <;> cases w <;> rcases c with _ | _ | c <;>
    simp_all [phi, tick, runWriteStage, runExecStage, runReadStage] <;> omega

theorem phi_zero_tick {u : U} (h : Inv u) (hp : phi u = 0) : (tick u).1 = u := by
  obtain ⟨r, e, w, c, A, R, C⟩ := u
  obtain ⟨h1, h2, h3, h4, h5⟩ := h
  simp only at h3 h4
  cases r <;> cases e <;> cases w <;> rcases c with _ | _ | c <;>
    simp_all [phi, tick, runWriteStage, runExecStage, runReadStage]

theorem phi_le {u : U} (h : Inv u) : phi u ≤ 17 * pending u := by
  obtain ⟨r, e, w, c, A, R, C⟩ := u
  have h4 := h.cl14
  simp only at h4
  cases r <;> cases e <;> cases w <;> simp [phi, pending] <;> split <;> omega

theorem phi_zero_done {u : U} (h : Inv u) (hp : phi u = 0) :
    u.completed = u.accepted ∧ u.ran = u.accepted ∧ u.toRead = none ∧ u.toExec = none ∧ u.toWrite = none := by
  obtain ⟨r, e, w, c, A, R, C⟩ := u
  obtain ⟨h1, h2, h3, h4, h5⟩ := h
  simp only at h1 h2 h3 h4
  cases r <;> cases e <;> cases w <;> simp_all [phi] <;> split at hp <;> omega

theorem ticks_accepted : ∀ (n : Nat) (u : U), (ticks n u).accepted = u.accepted
  | 0, _ => rfl
  | n + 1, u => by rw [ticks, ticks_accepted n, tick_accepted]

theorem inv_ticks : ∀ (n : Nat) {u : U}, Inv u → Inv (ticks n u)
  | 0, _, h => h
  | n + 1, _, h => inv_ticks n (inv_tick h)

theorem ticks_add : ∀ (m n : Nat) (u : U), ticks (m + n) u = ticks n (ticks m u)
  | 0, n, u => by simp [ticks]
  | m + 1, n, u => by rw [Nat.add_right_comm, ticks, ticks, ticks_add m n]

theorem ticks_phi : ∀ (n : Nat) {u : U}, Inv u → phi u ≤ n → phi (ticks n u) = 0
  | 0, _, _, hp => by simpa [ticks] using hp
  | n + 1, u, h, hp => by
    rw [ticks]
    by_cases h0 : phi u = 0
    · rw [phi_zero_tick h h0]
      exact ticks_phi n h (by omega)
    · exact ticks_phi n (inv_tick h) (by have := phi_tick h h0; omega)

/-! ## one instruction alone -/

/-- the unit `n` cycles after it accepted instruction `i` into an idle pipeline -/
def single (i n : Nat) : U :=
  if n = 0 then { toRead := some i, accepted := [i] }
  else if n = 1 then { toExec := some i, accepted := [i] }
  else if n ≤ 15 then { toExec := some i, cycleLeft := 16 - n, accepted := [i], ran := [i] }
  else if n = 16 then { toWrite := some i, accepted := [i], ran := [i] }
  else { accepted := [i], ran := [i], completed := [i] }

theorem tick_single (i n : Nat) : (tick (single i n)).1 = single i (n + 1) := by
  unfold single
  by_cases h0 : n = 0
  · subst h0; rfl
  by_cases h1 : n = 1
  · subst h1; rfl
  by_cases h14 : n ≤ 14
  · have e1 : ¬ (16 - n = 0) := by omega
    have e2 : ¬ (15 - n = 0) := by omega
    have e3 : 16 - n - 1 = 15 - n := by omega
    have e4 : n + 1 ≤ 15 := by omega
    have e5 : n ≤ 15 := by omega
    simp [h0, h1, e5, e4, tick, runWriteStage, runExecStage, runReadStage, e1, e3, e2]
  by_cases h15 : n = 15
  · subst h15; rfl
  by_cases h16 : n = 16
  · subst h16; rfl
  · have e1 : ¬ n ≤ 15 := by omega
    have e2 : ¬ n + 1 ≤ 15 := by omega
    have e3 : ¬ n + 1 = 16 := by omega
    simp [h0, h1, e1, e2, e3, h16, tick, runWriteStage, runExecStage, runReadStage]

theorem ticks_succ' (n : Nat) (u : U) : ticks (n + 1) u = (tick (ticks n u)).1 := by
  rw [ticks_add n 1]; rfl

theorem ticks_single (i : Nat) : ∀ n, ticks n (accept idle i) = single i n
  | 0 => rfl
  | n + 1 => by rw [ticks_succ', ticks_single i n, tick_single]

theorem runU_ticks : ∀ (n : Nat) (u : U), runU (List.replicate n .tick) u = ticks n u
  | 0, _ => rfl
  | n + 1, u => by
    show runU (List.replicate n .tick) (tick u).1 = ticks n (tick u).1
    exact runU_ticks n _
/-! ## the architectural state is the fold of the effects of `ran` -/

theorem run_fst (prog : Nat → Job) : ∀ (ops : List Op) (s : U × Arch), (run prog ops s).1 = runU ops s.1
  | [], _ => rfl
  | op :: ops, s => by
    have h : (step prog s op).1 = stepU s.1 op := by cases op <;> rfl
    show (run prog ops (step prog s op)).1 = runU ops (stepU s.1 op)
    rw [run_fst prog ops, h]

theorem emuSeq_append (prog : Nat → Job) (l1 l2 : List Nat) (a : Arch) :
    emuSeq prog (l1 ++ l2) a = emuSeq prog l2 (emuSeq prog l1 a) := by
  simp [emuSeq, List.foldl_append]

theorem run_arch (prog : Nat → Job) (a0 : Arch) : ∀ (ops : List Op) (s : U × Arch),
    s.2 = emuSeq prog s.1.ran a0 → (run prog ops s).2 = emuSeq prog (runU ops s.1).ran a0
  | [], _, h => h
  | op :: ops, s, h => by
    show (run prog ops (step prog s op)).2 = emuSeq prog (runU ops (stepU s.1 op)).ran a0
    have key : (step prog s op).2 = emuSeq prog (step prog s op).1.ran a0 ∧ (step prog s op).1 = stepU s.1 op := by
      cases op with
      | accept id =>
        refine ⟨?_, rfl⟩
        show s.2 = emuSeq prog (tryAccept s.1 id).ran a0
        have : (tryAccept s.1 id).ran = s.1.ran := by
          unfold tryAccept accept; split <;> rfl
        rw [this]; exact h
      | tick =>
        refine ⟨?_, rfl⟩
        show (match (tick s.1).2 with
              | some e => timingExec (prog e) s.2
              | none => s.2) = emuSeq prog (tick s.1).1.ran a0
        rw [tick_ran, emuSeq_append, ← h]
        cases (tick s.1).2 <;> rfl
    rw [← key.2]
    exact run_arch prog a0 ops _ key.1

/-! ## SetLDS once per wavefront (emulator) or before every instruction (timing) -/

theorem aluRun_cur (j : Job) (a : Arch) : (aluRun j a).cur = a.cur := by
  unfold aluRun
  split
  · rfl
  · split
    · rfl
    · split <;> rfl

theorem setLDS_same (a : Arch) : setLDS a.cur a = a := rfl

/-! ## the fault predicate -/

theorem mod_le_self (x : Nat) : x % M32 ≤ x := Nat.mod_le _ _

theorem laneFault_isSome (sh : Shape) (i : Inst) (size : Nat) (rf : St) (l : Nat) :
    (laneFault sh i size rf l).isSome = true ↔ ∃ a ∈ addrsOf sh i rf l, a + sh.width > size := by
  unfold laneFault
  simp only []
  constructor
  · intro h
    split at h
    · rename_i hc
      simp only [Bool.and_eq_true, List.any_eq_true, decide_eq_true_eq] at hc
      obtain ⟨_, a, ha, hgt⟩ := hc
      exact ⟨a, ha, by have := mod_le_self (a + sh.width); omega⟩
    · split at h
      · rename_i hc
        simp only [List.any_eq_true, decide_eq_true_eq] at hc
        exact hc
      · simp at h
  · intro ⟨a, ha, hgt⟩
    split
    · rfl
    · split
      · rfl
      · rename_i hc
        simp only [List.any_eq_true, decide_eq_true_eq, not_exists, not_and] at hc
        exact absurd hgt (hc a ha)

theorem faultOf_isSome (sh : Shape) (i : Inst) (size : Nat) (rf : St) :
    (faultOf sh i size rf).isSome = true ↔ outOfRange sh i size rf := by
  unfold faultOf outOfRange
  rw [List.findSome?_isSome_iff]
  constructor
  · intro ⟨l, hl, h⟩
    exact ⟨l, hl, (laneFault_isSome sh i size rf l).mp h⟩
  · intro ⟨l, hl, h⟩
    exact ⟨l, hl, (laneFault_isSome sh i size rf l).mpr h⟩

/-! ## the driver's array evaluation of LDS writes -/

theorem arrApply_getD (ws : List Wr) : ∀ (arr : Array Nat) (f : St),
    (∀ k, f (0, k) = arr.getD k 0) → (∀ w ∈ ws, w.cell.1 = 0 ∧ w.cell.2 < arr.size) →
    ∀ k, (arrApply ws arr).getD k 0 = applyW ws f (0, k) := by
  induction ws with
  | nil => intro arr f hf _ k; exact (hf k).symm
  | cons w ws ih =>
    intro arr f hf hw k
    have h0 := hw w (List.mem_cons_self ..)
    show (arrApply ws (arr.setIfInBounds w.cell.2 w.val)).getD k 0 = applyW ws (upd f w) (0, k)
    apply ih
    · intro k
      unfold upd
      have hcell : w.cell = (0, w.cell.2) := Prod.ext h0.1 rfl
      by_cases hk : k = w.cell.2
      · subst hk
        rw [if_pos hcell.symm]
        simp [Array.getD, h0.2]
      · have : (0, k) ≠ w.cell := by
          rw [hcell]; intro h; exact hk (Prod.mk.inj h).2
        rw [if_neg this, hf k, Array.getD_eq_getD_getElem?, Array.getD_eq_getD_getElem?,
          Array.getElem?_setIfInBounds_ne (Ne.symm hk)]
    · intro x hx
      have := hw x (List.mem_cons_of_mem _ hx)
      simpa using this

theorem mem_accW {rf : St} {l a reg w : Nat} {x : Wr} (h : x ∈ accW rf l a reg w) :
    x.cell.1 = 0 ∧ a ≤ x.cell.2 ∧ x.cell.2 < a + w := by
  simp only [accW, List.mem_map, List.mem_range] at h
  obtain ⟨b, hb, rfl⟩ := h
  exact ⟨rfl, Nat.le_add_right _ _, by simp only; omega⟩

theorem ldsWrites_inrange {sh : Shape} {i : Inst} {size : Nat} {rf : St}
    (hf : faultOf sh i size rf = none) : ∀ w ∈ ldsWrites sh i rf, w.cell.1 = 0 ∧ w.cell.2 < size := by
  intro w hw
  have hno : ¬ outOfRange sh i size rf := by
    rw [← faultOf_isSome, hf]; simp
  unfold ldsWrites at hw
  split at hw
  · simp only [List.mem_flatMap] at hw
    obtain ⟨l, hl, hw⟩ := hw
    unfold laneLdsW at hw
    rw [List.mem_append] at hw
    rcases hw with hw | hw
    · obtain ⟨h1, _, h3⟩ := mem_accW hw
      refine ⟨h1, ?_⟩
      have : ¬ (addr0 sh i rf l + sh.width > size) := fun h =>
        hno ⟨l, hl, _, List.mem_cons_self .., h⟩
      omega
    · split at hw
      · rename_i htwo
        obtain ⟨h1, _, h3⟩ := mem_accW hw
        refine ⟨h1, ?_⟩
        have : ¬ (addr1 sh i rf l + sh.width > size) := fun h =>
          hno ⟨l, hl, _, by simp [addrsOf, htwo], h⟩
        omega
      · simp at hw
  · simp at hw

/-- the driver's array evaluation of the LDS writes is `applyW` on the byte image -/
theorem arrApply_ldsWrites {sh : Shape} {i : Inst} {rf : St} (init : Array Nat)
    (hf : faultOf sh i init.size rf = none) (k : Nat) :
    (arrApply (ldsWrites sh i rf) init).getD k 0 =
      applyW (ldsWrites sh i rf) (fun c => init.getD c.2 0) (0, k) :=
  arrApply_getD _ init _ (fun _ => rfl) (ldsWrites_inrange hf) k

end C02.Lds
