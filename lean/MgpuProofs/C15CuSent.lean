import MgpuProofs.C15CuFree
/-! # C15 ∘ C14 — the request-ID part of C14's channel invariant that does not depend on the RESPONSES

`Lite` (`C15CuFree.lean`) has the clauses that never read a request ID. The clauses of C14's `ChanOK`
about the IDs the compute unit PUTS ON THE PORT — no request ID twice (`sentNodup`), generations bounded
by the record's current one (`genBound`), no in-flight record without its request (`noOrphan`) — read
IDs but do not depend on which IDs the responses name either: a response only removes a record from
the in-flight list. `SentOK` is that part (the clause `inpSent`, which the ROB can break, is left out;
`unitSub` is replaced by what survives a record being answered while its request is still queued). -/
namespace C15.Cu
open C14.Flush

structure SentOK (c : Chan) (nextId : Nat) : Prop where
  sentBound : ∀ r ∈ c.sent, r.1 < nextId
  sentNodup : c.sent.Nodup
  genBound : ∀ e ∈ c.inf ++ c.sh, ∀ g, (e.id, g) ∈ c.sent → g ≤ e.gen
  unitFresh : ∀ i ∈ c.unit, ∀ g, (i, g) ∉ c.sent
  unitNodup : c.unit.Nodup
  unitBound : ∀ i ∈ c.unit, i < nextId
  unitGen : ∀ e ∈ c.inf, e.id ∈ c.unit → e.gen = 0
  noOrphan : ∀ e ∈ c.inf, e.id ∈ c.unit ∨ (e.id, e.gen) ∈ c.sent
  idBound : ∀ e ∈ c.inf ++ c.sh, e.id < nextId
  idsN : (ids (c.inf ++ c.sh)).Nodup
  /-- the records the last flush saved are distinct -/
  flushedN : c.flushed.Nodup

theorem SentOK.empty (n : Nat) : SentOK Chan.empty n := by
  constructor <;> simp [Chan.empty, ids]

theorem SentOK.mono {c : Chan} {n m : Nat} (h : SentOK c n) (hnm : n ≤ m) : SentOK c m :=
  { h with sentBound := fun r hr => Nat.lt_of_lt_of_le (h.sentBound r hr) hnm
           unitBound := fun i hi => Nat.lt_of_lt_of_le (h.unitBound i hi) hnm
           idBound := fun e he => Nat.lt_of_lt_of_le (h.idBound e he) hnm }

theorem SentOK.setInp {c : Chan} {n : Nat} (h : SentOK c n) (l : List C14.Flush.Req) : SentOK { c with inp := l } n :=
  ⟨h.sentBound, h.sentNodup, h.genBound, h.unitFresh, h.unitNodup, h.unitBound, h.unitGen, h.noOrphan, h.idBound,
    h.idsN, h.flushedN⟩

theorem SentOK.setOut {c : Chan} {n : Nat} (h : SentOK c n) (l : List C14.Flush.Req) : SentOK { c with out := l } n :=
  ⟨h.sentBound, h.sentNodup, h.genBound, h.unitFresh, h.unitNodup, h.unitBound, h.unitGen, h.noOrphan, h.idBound,
    h.idsN, h.flushedN⟩

/-- a response — under ANY name — only removes a record from the in-flight list -/
theorem SentOK.respond {c : Chan} {n : Nat} (h : SentOK c n) (r : C14.Flush.Req) : SentOK (c.respond r).1 n := by
  rcases hres : c.respond r with ⟨c', _ | e⟩
  · rw [respond_none hres]; exact h
  · obtain ⟨l1, l2, hinf, _, rfl⟩ := respond_some hres
    have hsub : ∀ x, x ∈ l1 ++ l2 → x ∈ c.inf := by
      intro x hx; rw [hinf]; simp only [List.mem_append, List.mem_cons] at hx ⊢
      rcases hx with hx | hx
      · exact Or.inl hx
      · exact Or.inr (Or.inr hx)
    have hsub2 : ∀ x, x ∈ (l1 ++ l2) ++ c.sh → x ∈ c.inf ++ c.sh := by
      intro x hx
      rcases List.mem_append.1 hx with hx | hx
      · exact List.mem_append_left _ (hsub x hx)
      · exact List.mem_append_right _ hx
    refine ⟨h.sentBound, h.sentNodup, fun x hx => h.genBound x (hsub2 x hx), h.unitFresh, h.unitNodup, h.unitBound,
      fun x hx => h.unitGen x (hsub x hx), fun x hx => h.noOrphan x (hsub x hx), fun x hx => h.idBound x (hsub2 x hx), ?_, h.flushedN⟩
    have := h.idsN
    rw [hinf] at this
    simp only [ids, List.map_append, List.map_cons, List.append_assoc] at this ⊢
    exact this.sublist (List.Sublist.append_left (List.sublist_cons_self _ _) _)

theorem SentOK.issueQ {c : Chan} {n : Nat} (h : SentOK c n) (w k : Nat) :
    SentOK (c.issueQ (mkEntries n w k)) (n + k) := by
  have hnew : ∀ e ∈ mkEntries n w k, n ≤ e.id ∧ e.id < n + k := fun e he =>
    mem_ids_mkEntries.1 (mem_ids.2 ⟨e, he, rfl⟩)
  have hmem : ∀ x, x ∈ (c.inf ++ mkEntries n w k) ++ c.sh → x ∈ c.inf ++ c.sh ∨ x ∈ mkEntries n w k := by
    intro x hx
    simp only [List.mem_append] at hx ⊢
    rcases hx with (hx | hx) | hx
    · exact Or.inl (Or.inl hx)
    · exact Or.inr hx
    · exact Or.inl (Or.inr hx)
  refine ⟨fun r hr => Nat.lt_of_lt_of_le (h.sentBound r hr) (Nat.le_add_right _ _), h.sentNodup, ?_, ?_, ?_, ?_, ?_, ?_,
    ?_, ?_, h.flushedN⟩
  · intro x hx g hg
    rcases hmem x hx with hx | hx
    · exact h.genBound x hx g hg
    · have := h.sentBound _ hg; have := (hnew x hx).1; simp at *; omega
  · intro i hi g hg
    rcases List.mem_append.1 hi with hi | hi
    · exact h.unitFresh i hi g hg
    · have := h.sentBound _ hg; have := (mem_ids_mkEntries.1 hi).1; simp at *; omega
  · show (c.unit ++ ids (mkEntries n w k)).Nodup
    refine List.nodup_append.2 ⟨h.unitNodup, ids_mkEntries_nodup n w k, ?_⟩
    intro a ha b hb hab
    have := h.unitBound a ha; have := (mem_ids_mkEntries.1 hb).1; omega
  · intro i hi
    rcases List.mem_append.1 hi with hi | hi
    · exact Nat.lt_of_lt_of_le (h.unitBound i hi) (Nat.le_add_right _ _)
    · exact (mem_ids_mkEntries.1 hi).2
  · intro x hx hxu
    rcases List.mem_append.1 hx with hx | hx
    · rcases List.mem_append.1 hxu with hxu | hxu
      · exact h.unitGen x hx hxu
      · have := h.idBound x (List.mem_append_left _ hx); have := (mem_ids_mkEntries.1 hxu).1; omega
    · exact mkEntries_gen hx
  · intro x hx
    rcases List.mem_append.1 hx with hx | hx
    · rcases h.noOrphan x hx with h1 | h1
      · exact Or.inl (List.mem_append_left _ h1)
      · exact Or.inr h1
    · exact Or.inl (List.mem_append_right _ (mem_ids.2 ⟨x, hx, rfl⟩))
  · intro x hx
    rcases hmem x hx with hx | hx
    · exact Nat.lt_of_lt_of_le (h.idBound x hx) (Nat.le_add_right _ _)
    · exact (hnew x hx).2
  · show (ids ((c.inf ++ mkEntries n w k) ++ c.sh)).Nodup
    have h0 := h.idsN
    simp only [ids_append] at h0 ⊢
    have hperm : (ids c.inf ++ ids (mkEntries n w k) ++ ids c.sh).Perm
        ((ids c.inf ++ ids c.sh) ++ ids (mkEntries n w k)) := by
      rw [List.append_assoc, List.append_assoc]
      exact List.perm_append_comm.append_left _
    refine hperm.nodup_iff.2 (List.nodup_append.2 ⟨h0, ids_mkEntries_nodup n w k, ?_⟩)
    intro a ha b hb hab
    have ha' : a ∈ ids (c.inf ++ c.sh) := by rw [ids_append]; exact ha
    obtain ⟨x, hx, rfl⟩ := mem_ids.1 ha'
    have := h.idBound x hx; have := (mem_ids_mkEntries.1 hb).1; omega

theorem SentOK.usend {c : Chan} {n : Nat} (h : SentOK c n) (cap m : Nat) : SentOK (c.usend cap m).1 n := by
  unfold Chan.usend
  simp only
  generalize min m (min c.unit.length (cap - c.out.length)) = k
  have hsplit : c.unit = c.unit.take k ++ c.unit.drop k := (List.take_append_drop k c.unit).symm
  have hnd : (c.unit.take k ++ c.unit.drop k).Nodup := by rw [← hsplit]; exact h.unitNodup
  have hdisj := (List.nodup_append.1 hnd).2.2
  have htake : ∀ i, i ∈ c.unit.take k → i ∈ c.unit := fun i hi => List.mem_of_mem_take hi
  have hdrop : ∀ i, i ∈ c.unit.drop k → i ∈ c.unit := fun i hi => List.mem_of_mem_drop hi
  have hrs : ∀ r, r ∈ (c.unit.take k).map (fun i => ((i, 0) : C14.Flush.Req)) ↔ r.1 ∈ c.unit.take k ∧ r.2 = 0 := by
    intro r
    simp only [List.mem_map]
    constructor
    · rintro ⟨i, hi, rfl⟩; exact ⟨hi, rfl⟩
    · rintro ⟨h1, h2⟩; exact ⟨r.1, h1, by rw [← h2]⟩
  refine ⟨?_, ?_, ?_, ?_, ?_, ?_, ?_, ?_, h.idBound, h.idsN, h.flushedN⟩
  · intro r hr
    rcases List.mem_append.1 hr with hr | hr
    · exact h.sentBound r hr
    · exact h.unitBound _ (htake _ ((hrs r).1 hr).1)
  · refine List.nodup_append.2 ⟨h.sentNodup, ?_, ?_⟩
    · exact List.Pairwise.map _ (fun a b hab h' => hab (congrArg Prod.fst h')) (List.nodup_append.1 hnd).1
    · intro a ha b hb hab
      subst hab
      exact h.unitFresh a.1 (htake _ ((hrs a).1 hb).1) a.2 ha
  · intro e he g hg
    rcases List.mem_append.1 hg with hg | hg
    · exact h.genBound e he g hg
    · have := ((hrs (e.id, g)).1 hg).2; simp at this; omega
  · intro i hi g hg
    rcases List.mem_append.1 hg with hg | hg
    · exact h.unitFresh i (hdrop i hi) g hg
    · exact hdisj i ((hrs (i, g)).1 hg).1 i hi rfl
  · exact (List.nodup_append.1 hnd).2.1
  · intro i hi; exact h.unitBound i (hdrop i hi)
  · intro e he hu; exact h.unitGen e he (hdrop _ hu)
  · intro e he
    rcases h.noOrphan e he with h1 | h1
    · rw [hsplit] at h1
      rcases List.mem_append.1 h1 with h2 | h2
      · right
        refine List.mem_append_right _ ((hrs (e.id, e.gen)).2 ⟨h2, ?_⟩)
        exact h.unitGen e he (htake _ h2)
      · exact Or.inl h2
    · exact Or.inr (List.mem_append_left _ h1)

theorem SentOK.deliver {c : Chan} {n : Nat} (h : SentOK c n) (cap : Nat) (r : C14.Flush.Req) :
    SentOK (c.deliver cap r).1 n := by
  unfold Chan.deliver
  split
  · exact h.setInp _
  · exact h

theorem SentOK.flush {c : Chan} {n : Nat} (h : SentOK c n) : SentOK c.flush n := by
  refine ⟨h.sentBound, h.sentNodup, ?_, fun i hi => (by cases hi), List.nodup_nil, fun i hi => (by cases hi),
    fun e he => (by cases he), fun e he => (by cases he), ?_, ?_, ?_⟩
  · intro e he g hg
    refine h.genBound e ?_ g hg
    simp only [Chan.flush, List.nil_append, List.mem_append] at he ⊢
    exact he.symm
  · intro e he
    refine h.idBound e ?_
    simp only [Chan.flush, List.nil_append, List.mem_append] at he ⊢
    exact he.symm
  · have := h.idsN
    simp only [Chan.flush, List.nil_append, ids_append] at this ⊢
    exact (List.perm_append_comm.nodup_iff).1 this
  · show (ids (c.sh ++ c.inf)).Nodup
    have := h.idsN
    simp only [ids_append] at this ⊢
    exact (List.perm_append_comm.nodup_iff).1 this

theorem SentOK.reinsertFlush {c : Chan} {n : Nat} (h : SentOK c n) : SentOK c.reinsert.flush n := by
  refine ⟨h.sentBound, h.sentNodup, ?_, fun i hi => (by cases hi), List.nodup_nil, fun i hi => (by cases hi),
    fun e he => (by cases he), fun e he => (by cases he), ?_, ?_, ?_⟩
  · intro e he g hg
    refine h.genBound e ?_ g hg
    simpa [Chan.flush, Chan.reinsert] using he
  · intro e he
    refine h.idBound e ?_
    simpa [Chan.flush, Chan.reinsert] using he
  · have := h.idsN
    simpa [Chan.flush, Chan.reinsert] using this
  · show (ids (c.reinsert.sh ++ c.reinsert.inf)).Nodup
    have := h.idsN
    simpa [Chan.reinsert] using this

/-- `send…ShadowBufferAccesses` while nothing is queued in the unit (the compute unit is paused) -/
theorem SentOK.drain {c : Chan} {n : Nat} (h : SentOK c n) (hunit : c.unit = []) (cap : Nat) :
    SentOK (c.drain cap) n := by
  unfold Chan.drain
  rcases hsh : c.sh with _ | ⟨e, rest⟩
  · simp only; exact h
  · simp only
    have he : e ∈ c.inf ++ c.sh := by rw [hsh]; simp
    have hfresh : (e.id, e.gen + 1) ∉ c.sent := fun hs => by
      have := h.genBound e he _ hs; omega
    have hidsN := h.idsN
    rw [hsh] at hidsN
    have huniq : ∀ x, x ∈ c.inf ++ rest → x.id ≠ e.id := by
      intro x hx hid
      simp only [ids, List.map_append, List.map_cons] at hidsN
      have h1 := List.nodup_append.1 hidsN
      have h2 := List.nodup_cons.1 h1.2.1
      rcases List.mem_append.1 hx with hx | hx
      · exact h1.2.2 x.id (List.mem_map_of_mem hx) e.id (by simp) hid
      · exact h2.1 (by rw [← hid]; exact List.mem_map_of_mem hx)
    have hold : ∀ x, x ∈ c.inf ++ rest → x ∈ c.inf ++ c.sh := by
      intro x hx; rw [hsh]
      simp only [List.mem_append, List.mem_cons] at hx ⊢
      rcases hx with hx | hx
      · exact Or.inl hx
      · exact Or.inr (Or.inr hx)
    split
    · -- the port takes the request
      refine ⟨?_, ?_, ?_, ?_, ?_, ?_, ?_, ?_, ?_, ?_, h.flushedN⟩
      · intro r hr
        rcases List.mem_append.1 hr with hr | hr
        · exact h.sentBound r hr
        · simp only [List.mem_singleton] at hr; subst hr; exact h.idBound e he
      · refine List.nodup_append.2 ⟨h.sentNodup, by simp, ?_⟩
        intro a ha b hb hab
        simp only [List.mem_singleton] at hb
        subst hab; subst hb; exact hfresh ha
      · intro x hx g hg
        have hx' : x ∈ c.inf ++ rest ∨ x = { e with gen := e.gen + 1 } := by
          simp only [List.mem_append, List.mem_singleton] at hx ⊢
          rcases hx with (hx | hx) | hx
          · exact Or.inl (Or.inl hx)
          · exact Or.inr hx
          · exact Or.inl (Or.inr hx)
        rcases List.mem_append.1 hg with hg | hg
        · rcases hx' with hx' | hx'
          · exact h.genBound x (hold x hx') g hg
          · subst hx'; have := h.genBound e he g hg; simp only; omega
        · simp only [List.mem_singleton, Prod.mk.injEq] at hg
          rcases hx' with hx' | hx'
          · exact absurd hg.1 (huniq x hx')
          · subst hx'; simp only; omega
      · intro i hi; have hi' : i ∈ c.unit := hi; rw [hunit] at hi'; cases hi'
      · show c.unit.Nodup; rw [hunit]; exact List.nodup_nil
      · intro i hi; have hi' : i ∈ c.unit := hi; rw [hunit] at hi'; cases hi'
      · intro x _ hu; have hu' : x.id ∈ c.unit := hu; rw [hunit] at hu'; cases hu'
      · intro x hx
        rcases List.mem_append.1 hx with hx | hx
        · rcases h.noOrphan x hx with h1 | h1
          · have h1' : x.id ∈ c.unit := h1; rw [hunit] at h1'; cases h1'
          · exact Or.inr (List.mem_append_left _ h1)
        · simp only [List.mem_singleton] at hx; subst hx
          exact Or.inr (List.mem_append_right _ (by simp))
      · intro x hx
        simp only [List.mem_append, List.mem_singleton] at hx
        rcases hx with (hx | hx) | hx
        · exact h.idBound x (List.mem_append_left _ hx)
        · subst hx; exact h.idBound e he
        · exact h.idBound x (hold x (List.mem_append_right _ hx))
      · simpa [ids] using hidsN
    · -- the port is full: only the request ID is regenerated
      refine ⟨h.sentBound, h.sentNodup, ?_, h.unitFresh, h.unitNodup, h.unitBound, h.unitGen, h.noOrphan, ?_, ?_, h.flushedN⟩
      · intro x hx g hg
        simp only [List.mem_append, List.mem_cons] at hx
        rcases hx with hx | hx | hx
        · exact h.genBound x (List.mem_append_left _ hx) g hg
        · subst hx; have := h.genBound e he g hg; simp only; omega
        · exact h.genBound x (hold x (List.mem_append_right _ hx)) g hg
      · intro x hx
        simp only [List.mem_append, List.mem_cons] at hx
        rcases hx with hx | hx | hx
        · exact h.idBound x (List.mem_append_left _ hx)
        · subst hx; exact h.idBound e he
        · exact h.idBound x (hold x (List.mem_append_right _ hx))
      · simpa [ids] using hidsN

end C15.Cu
