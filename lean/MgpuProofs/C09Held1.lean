import MgpuProofs.C09Tie4
/-! # C09 — held work-groups are resident, with distinct keys (`HI`), part 1: resource-level facts,
    the invariant, and the dispatch half of `Tick`.

Together with `TI` (resident ⇒ held) this gives: the work-groups resident in the pool are exactly the
placed / in-flight work-groups of the dispatchers. Consequences (part 3): the Go panics "work-group
not found" and the latency-table index panic are unreachable, and any two work-groups in flight at
any two dispatchers occupy disjoint resources. -/
namespace C09

/-- the resident list after `ReserveResourceForWG`, exactly -/
theorem reserve_resident_eq (cu : CU) (key : Nat) (d : Dem) :
    (reserve cu key d).2.resident =
      match (reserve cu key d).1 with
      | .ok locs => cu.resident ++ [(key, d, locs)]
      | _ => cu.resident := by
  unfold reserve
  cases hs : (sgprLoop (units d.s sGran) d.nwf cu.smask).1 with
  | none => simp only [hs, clearTemp]
  | some soffs =>
    simp only [hs]
    cases hl : (cu.lmask.nextRegion (units d.l lGran) stFree).1 with
    | none => simp only [hl, clearTemp]
    | some loff =>
      simp only [hl]
      cases hm : (matchLoop (units d.v vGran) cu.wfFree d.nwf
          { vmasks := cu.vmasks, next := cu.nextSIMD, used := cu.wfFree.map (fun _ => 0) }).1 with
      | none => simp only [hm, clearTemp]
      | some ps =>
        simp only [hm]
        split <;> rfl

/-- one pass of `Next` over the CUs, exactly: residents only grow, and only by `(key, d, locs)` on the
    CU that admitted the work-group -/
theorem tryCUs_resident (key : Nat) (d : Dem) : ∀ (cs : List Nat) (pool : List CU),
    (∀ c ∈ cs, c < pool.length) →
    (∀ c, ∀ e ∈ (pool.getD c default).resident, e ∈ ((tryCUs key d cs pool).2.getD c default).resident) ∧
    (∀ c, ∀ e ∈ ((tryCUs key d cs pool).2.getD c default).resident,
      e ∈ (pool.getD c default).resident ∨ ∃ locs, e = (key, d, locs) ∧ (tryCUs key d cs pool).1 = .placed c locs) ∧
    (∀ c locs, (tryCUs key d cs pool).1 = .placed c locs →
      (key, d, locs) ∈ ((tryCUs key d cs pool).2.getD c default).resident) := by
  intro cs
  induction cs with
  | nil =>
    intro pool _
    refine ⟨fun c e he => he, fun c e he => Or.inl he, (by intro c locs h; cases h)⟩
  | cons c0 cs ih =>
    intro pool hcs
    have hc0 : c0 < pool.length := hcs c0 List.mem_cons_self
    have hreq := reserve_resident_eq (pool.getD c0 default) key d
    rcases hr : reserve (pool.getD c0 default) key d with ⟨res, cu1⟩
    rw [hr] at hreq
    simp only at hreq
    cases res with
    | ok locs =>
      simp only [tryCUs, hr]
      refine ⟨?_, ?_, ?_⟩
      · intro c e he
        rw [getD_set_cu]; split
        · rename_i hc; rw [hreq, ← hc.1]; exact List.mem_append_left _ he
        · exact he
      · intro c e he
        rw [getD_set_cu] at he
        split at he
        · rename_i hc
          rw [hreq] at he
          rcases List.mem_append.1 he with h | h
          · left; rw [hc.1]; exact h
          · simp only [List.mem_singleton] at h
            exact Or.inr ⟨locs, h, by rw [hc.1]⟩
        · exact Or.inl he
      · intro c locs' h
        injection h with h1 h2
        subst h1; subst h2
        rw [getD_set_cu]; simp only [hc0, and_self, if_true]
        rw [hreq]; simp
    | twice =>
      simp only [tryCUs, hr]
      refine ⟨?_, ?_, (by intro c locs h; cases h)⟩
      · intro c e he
        rw [getD_set_cu]; split
        · rename_i hc; rw [hreq, ← hc.1]; exact he
        · exact he
      · intro c e he
        rw [getD_set_cu] at he
        split at he
        · rename_i hc; rw [hreq] at he; left; rw [hc.1]; exact he
        · exact Or.inl he
    | no =>
      simp only [tryCUs, hr]
      obtain ⟨i1, i2, i3⟩ := ih (pool.set c0 cu1)
        (by intro c hc; simp only [List.length_set]; exact hcs c (List.mem_cons_of_mem _ hc))
      have hsame : ∀ c, ((pool.set c0 cu1).getD c default).resident = (pool.getD c default).resident := by
        intro c
        rw [getD_set_cu]; split
        · rename_i hc; rw [hreq, hc.1]
        · rfl
      refine ⟨?_, ?_, i3⟩
      · intro c e he
        exact i1 c e (by rw [hsame]; exact he)
      · intro c e he
        rcases i2 c e he with h | h
        · left; rw [hsame] at h; exact h
        · exact Or.inr h

/-- `algorithm.Next`: what it does to the residents, and what the returned location is -/
theorem algNext_resident (cp : CP) (i : Nat) (k : Kern) (hak : (cp.disp i).alg.kern = some k) :
    (∀ c, ∀ e ∈ (cp.pool.getD c default).resident, e ∈ ((algNext cp i).1.pool.getD c default).resident) ∧
    (∀ c, ∀ e ∈ ((algNext cp i).1.pool.getD c default).resident,
      e ∈ (cp.pool.getD c default).resident ∨
      ∃ dl, (algNext cp i).2 = some dl ∧ dl.cu = c ∧ e = (dl.key, k.dem dl.idx, dl.locs)) ∧
    (∀ dl, (algNext cp i).2 = some dl →
      (dl.key, k.dem dl.idx, dl.locs) ∈ ((algNext cp i).1.pool.getD dl.cu default).resident ∧
      ((cp.disp i).alg.currWG = none → dl.key = cp.nextKey ∧ dl.idx = (cp.disp i).alg.pos) ∧
      (∀ w, (cp.disp i).alg.currWG = some w → dl.key = w.1 ∧ dl.idx = w.2)) ∧
    ((algNext cp i).1.fault = cp.fault ∨ (algNext cp i).1.fault = some "twice") := by
  have hord : ∀ c ∈ cuOrder cp.cfg.greedy cp.pool.length (cp.disp i).alg.nextCU, c < cp.pool.length :=
    fun c hc => mem_cuOrder _ _ _ _ hc
  unfold algNext
  simp only [hak]
  cases hc : (cp.disp i).alg.currWG with
  | none =>
    simp only []
    obtain ⟨t1, t2, t3⟩ := tryCUs_resident cp.nextKey (k.dem (cp.disp i).alg.pos)
      (cuOrder cp.cfg.greedy cp.pool.length (cp.disp i).alg.nextCU) cp.pool hord
    rcases ht : tryCUs cp.nextKey (k.dem (cp.disp i).alg.pos)
      (cuOrder cp.cfg.greedy cp.pool.length (cp.disp i).alg.nextCU) cp.pool with ⟨r, pool'⟩
    rw [ht] at t1 t2 t3
    simp only at t1 t2 t3
    cases r with
    | placed c locs =>
      refine ⟨t1, ?_, ?_, Or.inl rfl⟩
      · intro c' e he
        rcases t2 c' e he with h | ⟨locs', h1, h2⟩
        · exact Or.inl h
        · injection h2 with h3 h4
          subst h3; subst h4
          exact Or.inr ⟨_, rfl, rfl, h1⟩
      · intro dl hdl
        injection hdl with hdl; subst hdl
        exact ⟨t3 c locs rfl, fun _ => ⟨rfl, rfl⟩, (by intro w hw; cases hw)⟩
    | none =>
      refine ⟨t1, ?_, (by intro dl hdl; cases hdl), Or.inl rfl⟩
      intro c' e he
      rcases t2 c' e he with h | ⟨_, _, h2⟩
      · exact Or.inl h
      · cases h2
    | fault =>
      refine ⟨t1, ?_, (by intro dl hdl; cases hdl), Or.inr rfl⟩
      intro c' e he
      rcases t2 c' e he with h | ⟨_, _, h2⟩
      · exact Or.inl h
      · cases h2
  | some w =>
    simp only []
    obtain ⟨t1, t2, t3⟩ := tryCUs_resident w.1 (k.dem w.2)
      (cuOrder cp.cfg.greedy cp.pool.length (cp.disp i).alg.nextCU) cp.pool hord
    rcases ht : tryCUs w.1 (k.dem w.2)
      (cuOrder cp.cfg.greedy cp.pool.length (cp.disp i).alg.nextCU) cp.pool with ⟨r, pool'⟩
    rw [ht] at t1 t2 t3
    simp only at t1 t2 t3
    cases r with
    | placed c locs =>
      refine ⟨t1, ?_, ?_, Or.inl rfl⟩
      · intro c' e he
        rcases t2 c' e he with h | ⟨locs', h1, h2⟩
        · exact Or.inl h
        · injection h2 with h3 h4
          subst h3; subst h4
          exact Or.inr ⟨_, rfl, rfl, h1⟩
      · intro dl hdl
        injection hdl with hdl; subst hdl
        exact ⟨t3 c locs rfl, (by intro h; cases h), (by intro w' hw; injection hw with hw; subst hw; exact ⟨rfl, rfl⟩)⟩
    | none =>
      refine ⟨t1, ?_, (by intro dl hdl; cases hdl), Or.inl rfl⟩
      intro c' e he
      rcases t2 c' e he with h | ⟨_, _, h2⟩
      · exact Or.inl h
      · cases h2
    | fault =>
      refine ⟨t1, ?_, (by intro dl hdl; cases hdl), Or.inr rfl⟩
      intro c' e he
      rcases t2 c' e he with h | ⟨_, _, h2⟩
      · exact Or.inl h
      · cases h2

/-! ## the invariant -/

/-- keys of the work-groups in flight at a dispatcher -/
def Disp.keys (d : Disp) : List Nat := d.inflight.map (·.2.key)

structure HI (cp : CP) : Prop where
  /-- a held work-group is resident on its CU with exactly its wavefront locations, under the demand
      of a work-group of some kernel with at most 16 wavefronts -/
  res : ∀ j dl, Holds cp j dl → ∃ d, d.nwf ≤ 16 ∧ (dl.key, d, dl.locs) ∈ (cp.pool.getD dl.cu default).resident
  /-- two holders of one key are the same holder of the same work-group -/
  uniq : ∀ j j' dl dl', Holds cp j dl → Holds cp j' dl' → dl.key = dl'.key → j = j' ∧ dl = dl'
  /-- within a dispatcher every key is held once -/
  once : ∀ j, (cp.disp j).keys.Nodup ∧ ∀ dl, (cp.disp j).currWG = some dl → dl.key ∉ (cp.disp j).keys

/-- a step that keeps the pool's residents and what every dispatcher holds -/
theorem HI_frame (cp cp' : CP) (h : HI cp)
    (hp : ∀ c, (cp'.pool.getD c default).resident = (cp.pool.getD c default).resident)
    (hd : ∀ j, (cp'.disp j).inflight = (cp.disp j).inflight ∧ (cp'.disp j).currWG = (cp.disp j).currWG) :
    HI cp' := by
  have hh : ∀ j dl, Holds cp' j dl ↔ Holds cp j dl := by
    intro j dl; unfold Holds; rw [(hd j).1, (hd j).2]
  refine ⟨?_, ?_, ?_⟩
  · intro j dl hj
    obtain ⟨d, h1, h2⟩ := h.res j dl ((hh j dl).1 hj)
    exact ⟨d, h1, by rw [hp]; exact h2⟩
  · intro j j' dl dl' h1 h2
    exact h.uniq j j' dl dl' ((hh j dl).1 h1) ((hh j' dl').1 h2)
  · intro j
    have := h.once j
    unfold Disp.keys at this ⊢
    rw [(hd j).1, (hd j).2]; exact this

end C09
