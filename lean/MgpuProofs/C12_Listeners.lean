import MgpuModel.C12_Listeners
/-! Helper lemmas for C12.L (listener list of a command queue): the invariant and its preservation. -/
namespace C12
namespace L

/-- ids are unique and below `next`; `token` = "the queue changed since the last wait" -/
def Inv (s : St) : Prop := (s.ls.map (·.id)).Nodup ∧ (∀ l ∈ s.ls, l.id < s.next) ∧ (∀ l ∈ s.ls, l.token = l.owed)

theorem findIdx_some_of_mem (id : Nat) (ls : List Lst) (h : ∃ l ∈ ls, l.id = id) : ∃ i, findIdx id ls = some i := by
  induction ls with
  | nil => obtain ⟨l, hl, _⟩ := h; cases hl
  | cons x rest ih =>
    unfold findIdx
    by_cases hx : x.id = id
    · exact ⟨0, by simp [hx]⟩
    · obtain ⟨l, hl, hid⟩ := h
      rcases List.mem_cons.mp hl with rfl | hm
      · exact absurd hid hx
      · obtain ⟨i, hi⟩ := ih ⟨l, hm, hid⟩
        exact ⟨i + 1, by simp [hx, hi]⟩

theorem erase_findIdx (id : Nat) (ls : List Lst) (i : Nat) (h : findIdx id ls = some i) (hn : (ls.map (·.id)).Nodup) :
    ls.eraseIdx i = ls.filter (fun l => l.id != id) := by
  induction ls generalizing i with
  | nil => simp [findIdx] at h
  | cons x rest ih =>
    unfold findIdx at h
    simp only [List.map_cons, List.nodup_cons] at hn
    by_cases hx : x.id = id
    · simp only [hx, if_true, Option.some.injEq] at h
      subst h
      have hrest : rest.filter (fun l => l.id != id) = rest := by
        apply List.filter_eq_self.mpr
        intro l hl
        have : l.id ≠ id := by
          intro he
          exact hn.1 (by rw [hx, ← he]; exact List.mem_map_of_mem hl)
        simpa using this
      simp [hx, hrest]
    · simp only [hx, if_false, Option.map_eq_some_iff] at h
      obtain ⟨j, hj, rfl⟩ := h
      have := ih j hj hn.2
      simp [List.eraseIdx_cons_succ, this, hx]

theorem waitOn_mem (id : Nat) (ls : List Lst) (l : Lst) (h : l ∈ waitOn id ls) :
    (l ∈ ls) ∨ (∃ l0 ∈ ls, l0.id = id ∧ l = { l0 with token := false, owed := false }) := by
  induction ls with
  | nil => cases h
  | cons x rest ih =>
    unfold waitOn at h
    split at h
    · rename_i hx
      rcases List.mem_cons.mp h with rfl | hm
      · exact Or.inr ⟨x, by simp, hx, rfl⟩
      · exact Or.inl (by simp [hm])
    · rcases List.mem_cons.mp h with rfl | hm
      · exact Or.inl (by simp)
      · rcases ih hm with h1 | ⟨l0, hl0, hid, he⟩
        · exact Or.inl (by simp [h1])
        · exact Or.inr ⟨l0, by simp [hl0], hid, he⟩

theorem waitOn_ids (id : Nat) (ls : List Lst) : (waitOn id ls).map (·.id) = ls.map (·.id) := by
  induction ls with
  | nil => rfl
  | cons x rest ih =>
    unfold waitOn
    split
    · simp
    · simp [ih]

theorem inv_step (s : St) (op : Op) (h : Inv s) : Inv (step s op).1 := by
  obtain ⟨hn, hlt, htk⟩ := h
  cases op with
  | sub =>
    simp only [step]
    refine ⟨?_, ?_, ?_⟩
    · simp only [List.map_append, List.map_cons, List.map_nil]
      apply List.nodup_append.mpr
      refine ⟨hn, by simp, ?_⟩
      intro a ha b hb
      simp only [List.mem_singleton] at hb
      subst hb
      obtain ⟨l, hl, rfl⟩ := List.mem_map.mp ha
      have := hlt l hl
      omega
    · intro l hl
      simp only [List.mem_append, List.mem_singleton] at hl
      rcases hl with hl | rfl
      · have := hlt l hl; show l.id < s.next + 1; omega
      · show s.next < s.next + 1; omega
    · intro l hl
      simp only [List.mem_append, List.mem_singleton] at hl
      rcases hl with hl | rfl
      · exact htk l hl
      · rfl
  | unsub id =>
    simp only [step]
    split
    · exact ⟨hn, hlt, htk⟩
    · rename_i i hi
      have he := erase_findIdx id s.ls i hi hn
      simp only [he]
      refine ⟨?_, ?_, ?_⟩
      · exact List.Nodup.sublist (List.Sublist.map _ List.filter_sublist) hn
      · intro l hl; exact hlt l ((List.mem_filter.mp hl).1)
      · intro l hl; exact htk l ((List.mem_filter.mp hl).1)
  | enq =>
    simp only [step, notifyAll]
    refine ⟨by simpa [List.map_map, Function.comp_def] using hn, ?_, ?_⟩
    · intro l hl
      obtain ⟨l0, hl0, rfl⟩ := List.mem_map.mp hl
      exact hlt l0 hl0
    · intro l hl
      obtain ⟨l0, _, rfl⟩ := List.mem_map.mp hl
      rfl
  | deq =>
    simp only [step]
    split
    · exact ⟨hn, hlt, htk⟩
    · simp only [notifyAll]
      refine ⟨by simpa [List.map_map, Function.comp_def] using hn, ?_, ?_⟩
      · intro l hl
        obtain ⟨l0, hl0, rfl⟩ := List.mem_map.mp hl
        exact hlt l0 hl0
      · intro l hl
        obtain ⟨l0, _, rfl⟩ := List.mem_map.mp hl
        rfl
  | wait id =>
    simp only [step]
    split
    · exact ⟨hn, hlt, htk⟩
    · split
      · refine ⟨by rw [waitOn_ids]; exact hn, ?_, ?_⟩
        · intro l hl
          rcases waitOn_mem id s.ls l hl with h1 | ⟨l0, hl0, _, rfl⟩
          · exact hlt l h1
          · exact hlt l0 hl0
        · intro l hl
          rcases waitOn_mem id s.ls l hl with h1 | ⟨l0, _, _, rfl⟩
          · exact htk l h1
          · rfl
      · exact ⟨hn, hlt, htk⟩

theorem inv_run (ops : List Op) (s : St) (h : Inv s) : Inv (run s ops) := by
  induction ops generalizing s with
  | nil => exact h
  | cons op ops ih => exact ih _ (inv_step s op h)

theorem inv_init : Inv {} := by
  refine ⟨List.nodup_nil, ?_, ?_⟩ <;> (intro l hl; cases hl)

end L
end C12
