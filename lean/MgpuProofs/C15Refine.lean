import MgpuProofs.C15Loc
/-! # C15 — the closed system refines the abstract FIFO specification

`St.abs` maps a ROB state to a `Spec` state; every transition of the closed system (`sysStep`,
any event, any configuration) is matched by finitely many `Spec.Step`s (`Spec.Star`):
a tick performs one flush and/or several respond / answer / accept steps, a late answer and all
port traffic are stuttering. Then the properties of C15 are proved once, on `Spec`. -/
namespace C15

namespace Spec

theorem Star.trans {cap : Nat} {S T U : Spec} (h1 : Star cap S T) (h2 : Star cap T U) : Star cap S U := by
  induction h2 with
  | refl => exact h1
  | tail _ st ih => exact Star.tail ih st

theorem Star.one {cap : Nat} {S T : Spec} (h : Step cap S T) : Star cap S T := Star.tail (Star.refl S) h

end Spec

theorem step_congr {cap : Nat} {S T T' : Spec} (h : Spec.Step cap S T) (e : T' = T) : Spec.Step cap S T' :=
  e ▸ h

theorem sameFields_dup (n : Nat) (r : Req) : SameFields r (dupReq n r) := by
  unfold SameFields dupReq; split <;> simp_all

theorem map_set_same {α β} (f : α → β) (l : List α) (i : Nat) (x y : α) (h : l[i]? = some y)
    (hf : f x = f y) : (l.set i x).map f = l.map f := by
  rw [List.map_set]
  apply List.ext_getElem?
  intro n
  by_cases hn : i = n
  · subst hn
    have hi : i < l.length := by
      rcases Nat.lt_or_ge i l.length with hlt | hge
      · exact hlt
      · rw [List.getElem?_eq_none hge] at h; cases h
    have hy : l[i] = y := by
      rw [List.getElem?_eq_getElem hi] at h; exact Option.some.inj h
    rw [List.getElem?_set]
    simp [hf, hi, hy]
  · simp [List.getElem?_set_ne hn]

theorem setRsp_eq_set (b : Nat) (p : Rsp) : ∀ (l : List Tx), b ∈ l.map (·.botId) →
    ∃ i t, l[i]? = some t ∧ t.botId = b ∧ setRsp b p l = l.set i { t with rsp := some p }
  | [], h => by simp at h
  | a :: l, h => by
    by_cases hab : a.botId = b
    · exact ⟨0, a, rfl, hab, by simp [setRsp, hab]⟩
    · have hl : b ∈ l.map (·.botId) := by
        simp only [List.map_cons, List.mem_cons] at h
        rcases h with h | h
        · exact absurd h.symm hab
        · exact h
      obtain ⟨i, t, h1, h2, h3⟩ := setRsp_eq_set b p l hl
      exact ⟨i + 1, t, by simpa using h1, h2, by simp [setRsp, hab, h3]⟩

/-! ### stages -/

theorem bottomUp_refines (c : Cfg) (s : St) : Spec.Star c.cap s.abs (bottomUp c s).1.abs := by
  unfold bottomUp
  split
  · exact Spec.Star.refl _
  split
  · exact Spec.Star.refl _
  · rename_i t rest hs
    split
    · exact Spec.Star.refl _
    · rename_i p hp
      split
      · exact Spec.Star.refl _
      split
      · refine Spec.Star.one ?_
        have hq : s.abs.queue = (t.req, t.botId, some p) :: rest.map (fun t => (t.req, t.botId, t.rsp)) := by
          simp [St.abs, hs, hp]
        exact Spec.Step.respond s.abs t.req t.botId p _ hq
      · exact Spec.Star.refl _

theorem parseBottom_refines (c : Cfg) (s : St) (m : List BReq) (o : List TRsp) (h : SInv c s m o) :
    Spec.Star c.cap s.abs (parseBottom s).1.abs := by
  unfold parseBottom
  split
  · exact Spec.Star.refl _
  split
  · exact Spec.Star.refl _
  · rename_i b p rest hs
    split
    · rename_i hb
      obtain ⟨i, t, h1, h2, h3⟩ := setRsp_eq_set b p s.txs (by rw [← h.inv.table]; exact hb)
      have ht : t ∈ s.txs := List.mem_of_getElem? h1
      have hnone : t.rsp = none := by
        cases hr : t.rsp with
        | none => rfl
        | some q =>
          exfalso
          refine h.someOut t ht q hr ?_
          rw [mem_chanOf, hs, h2]
          exact Or.inr (Or.inr (by simp))
      refine Spec.Star.one ?_
      have hq : s.abs.queue[i]? = some (t.req, b, none) := by
        simp [St.abs, h1, h2, hnone]
      have := Spec.Step.answer (cap := c.cap) s.abs i t.req b p hq
      have e : ({ s with botIn := rest, txs := setRsp b p s.txs, answered := s.answered ++ [(b, p)] } : St).abs
          = { s.abs with queue := s.abs.queue.set i (t.req, b, some p), answers := s.abs.answers ++ [(b, p)] } := by
        simp [St.abs, h3, List.map_set, h2]
      rw [e]; exact this
    · exact Spec.Star.refl _

theorem topDown_refines (c : Cfg) (s : St) (m : List BReq) (o : List TRsp) (h : SInv c s m o) :
    Spec.Star c.cap s.abs (topDown c s).1.abs := by
  unfold topDown
  split
  · exact Spec.Star.refl _
  split
  · exact Spec.Star.refl _
  · rename_i r rest hs
    split
    · exact Spec.Star.refl _
    split
    · exact Spec.Star.refl _
    split
    · exact Spec.Star.refl _
    · rename_i hfull _ _
      refine Spec.Star.one ?_
      have hfresh := h.inv.fresh
      rw [hs] at hfresh
      have hid : r.id ∉ s.abs.fwd.map (·.1.id) := by
        intro hm
        have := (List.pairwise_append.1 hfresh).2.2 r.id hm r.id (by simp)
        omega
      have htk : (dupReq s.nextBot r).id ∉ s.abs.fwd.map (·.2.id) := by
        rw [dupReq_id]
        intro hm
        exact Nat.lt_irrefl _ (h.ticketsFresh _ hm)
      have hroom : s.abs.queue.length < c.cap := by
        simp [St.abs]; omega
      have := Spec.Step.accept (cap := c.cap) s.abs r (dupReq s.nextBot r) hid htk hroom (sameFields_dup _ _)
      refine step_congr this ?_
      simp [St.abs, dupReq_id]

theorem processCtl_refines (c : Cfg) (s : St) : Spec.Star c.cap s.abs (processCtl c s).1.abs := by
  have hmap : s.abs.queue.map (·.1.id) = s.txs.map (·.req.id) := by
    simp [St.abs, List.map_map, Function.comp_def]
  unfold processCtl
  split
  · exact Spec.Star.refl _
  · split
    · split
      · exact Spec.Star.refl _
      · refine Spec.Star.one ?_
        have := Spec.Step.flush (cap := c.cap) s.abs
        rw [hmap] at this
        exact this
    · split
      · split
        · exact Spec.Star.refl _
        · refine Spec.Star.one ?_
          have := Spec.Step.flush (cap := c.cap) s.abs
          rw [hmap] at this
          exact this
      · exact Spec.Star.refl _

theorem runPipeline_refines (c : Cfg) (s : St) (m : List BReq) (o : List TRsp) (h : SInv c s m o)
    (hfl : s.flushing = false) : Spec.Star c.cap s.abs (runPipeline c s).1.abs := by
  unfold runPipeline
  let P : St → Prop := fun s' => (SInv c s' m o ∧ s'.flushing = false) ∧ Spec.Star c.cap s.abs s'.abs
  have h1 := iterP_pres (P := P) (f := bottomUp c)
    (fun s' hs => ⟨⟨bottomUp_sinv c s' m o hs.1.1, by rw [bottomUp_flushing]; exact hs.1.2⟩,
      hs.2.trans (bottomUp_refines c s')⟩) c.width (s, false) ⟨⟨h, hfl⟩, Spec.Star.refl _⟩
  have h2 := iterP_pres (P := P) (f := parseBottom)
    (fun s' hs => ⟨⟨parseBottom_sinv c s' m o hs.1.1, by rw [parseBottom_flushing]; exact hs.1.2⟩,
      hs.2.trans (parseBottom_refines c s' m o hs.1.1)⟩) c.width _ h1
  exact (iterP_pres (P := P) (f := topDown c)
    (fun s' hs => ⟨⟨topDown_sinv c s' m o hs.1.1 hs.1.2, by rw [topDown_flushing]; exact hs.1.2⟩,
      hs.2.trans (topDown_refines c s' m o hs.1.1)⟩) c.width _ h2).2

theorem tick_refines (c : Cfg) (s : St) (m : List BReq) (o : List TRsp) (h : SInv c s m o) :
    Spec.Star c.cap s.abs (tick c s).1.abs := by
  unfold tick
  split
  · exact Spec.Star.refl _
  · simp only
    split
    · exact processCtl_refines c s
    · split
      · exact processCtl_refines c s
      · rename_i hfl
        exact (processCtl_refines c s).trans
          (runPipeline_refines c _ m o (processCtl_sinv c s m o h) (by simpa using hfl))

/-- every event of the closed system is finitely many specification steps -/
theorem sysStep_refines (c : Cfg) (σ : Sys) (e : Ev) (h : σ.Ok c) :
    Spec.Star c.cap σ.rob.abs (sysStep c σ e).rob.abs := by
  cases e with
  | tick => exact tick_refines c _ _ _ h
  | arrive q =>
    simp only [sysStep, step]
    split <;> exact Spec.Star.refl _
  | memTake =>
    simp only [sysStep]
    split <;> exact Spec.Star.refl _
  | memAnswer j p =>
    simp only [sysStep]
    split
    · exact Spec.Star.refl _
    · split
      · simp only [step]; split <;> exact Spec.Star.refl _
      · exact Spec.Star.refl _
  | ctl x =>
    simp only [sysStep, step]
    split <;> exact Spec.Star.refl _
  | takeRsp =>
    simp only [sysStep]
    split <;> exact Spec.Star.refl _
  | takeAck => exact Spec.Star.refl _

theorem sysFold_refines (c : Cfg) (evs : List Ev) (σ : Sys) (h : σ.Ok c) :
    Spec.Star c.cap σ.rob.abs (evs.foldl (sysStep c) σ).rob.abs := by
  induction evs generalizing σ with
  | nil => exact Spec.Star.refl _
  | cons e es ih => exact (sysStep_refines c σ e h).trans (ih _ (sysStep_ok c σ e h))

/-! ## Properties of the specification -/

namespace Spec

/-- what holds in every state of the specification -/
structure Good (cap : Nat) (S : Spec) : Prop where
  order : S.out.map (·.rspTo) ++ S.queue.map (·.1.id) =
    (S.fwd.map (·.1.id)).filter (fun a => decide (a ∉ S.flushed))
  idsNodup : (S.fwd.map (·.1.id)).Nodup
  ticketsNodup : (S.fwd.map (·.2.id)).Nodup
  cap : S.queue.length ≤ cap
  queueFwd : ∀ e ∈ S.queue, ∃ b, (e.1, b) ∈ S.fwd ∧ b.id = e.2.1
  queueAns : ∀ e ∈ S.queue, ∀ p, e.2.2 = some p → (e.2.1, p) ∈ S.answers
  queueUn : ∀ e ∈ S.queue, e.2.2 = none → e.2.1 ∉ S.answers.map (·.1)
  queueTickets : (S.queue.map (·.2.1)).Nodup
  ansNodup : (S.answers.map (·.1)).Nodup
  ansFwd : ∀ a ∈ S.answers, a.1 ∈ S.fwd.map (·.2.id)
  outOk : ∀ d ∈ S.out, ∃ r b, (r, b) ∈ S.fwd ∧ d.rspTo = r.id ∧ d.dst = r.src ∧
    (b.id, d.payload) ∈ S.answers
  fields : ∀ rb ∈ S.fwd, SameFields rb.1 rb.2
  flushedAcc : ∀ a ∈ S.flushed, a ∈ S.fwd.map (·.1.id)

theorem good_init (cap : Nat) : Good cap {} := by
  constructor <;> simp

theorem good_step {cap : Nat} {S T : Spec} (g : Good cap S) (st : Step cap S T) : Good cap T := by
  cases st with
  | accept r b hid htk hroom hf =>
    have hnf : r.id ∉ S.flushed := fun hm => hid (g.flushedAcc _ hm)
    have hqt : ∀ e ∈ S.queue, e.2.1 ∈ S.fwd.map (·.2.id) := by
      intro e he
      obtain ⟨b', h1, h2⟩ := g.queueFwd e he
      exact List.mem_map.2 ⟨(e.1, b'), h1, h2⟩
    refine { order := ?_, idsNodup := ?_, ticketsNodup := ?_, cap := ?_, queueFwd := ?_, queueAns := ?_,
             queueUn := ?_, queueTickets := ?_, ansNodup := g.ansNodup, ansFwd := ?_, outOk := ?_,
             fields := ?_, flushedAcc := ?_ }
    · simp only [List.map_append, List.filter_append, ← List.append_assoc, g.order]
      simp [hnf]
    · simp only [List.map_append, List.map_cons, List.map_nil]
      exact List.nodup_append.2 ⟨g.idsNodup, by simp, by
        intro a ha b' hb'; simp at hb'; subst hb'; intro e; exact hid (e ▸ ha)⟩
    · simp only [List.map_append, List.map_cons, List.map_nil]
      exact List.nodup_append.2 ⟨g.ticketsNodup, by simp, by
        intro a ha b' hb'; simp at hb'; subst hb'; intro e; exact htk (e ▸ ha)⟩
    · simp; omega
    · intro e he
      rcases List.mem_append.1 he with he | he
      · obtain ⟨b', h1, h2⟩ := g.queueFwd e he
        exact ⟨b', List.mem_append_left _ h1, h2⟩
      · simp at he; subst he; exact ⟨b, List.mem_append_right _ (by simp), rfl⟩
    · intro e he p hp
      rcases List.mem_append.1 he with he | he
      · exact g.queueAns e he p hp
      · simp at he; subst he; simp at hp
    · intro e he hp
      rcases List.mem_append.1 he with he | he
      · exact g.queueUn e he hp
      · simp at he; subst he
        intro hm
        obtain ⟨a, ha, e⟩ := List.mem_map.1 hm
        have e' : a.1 = b.id := e
        exact htk (e' ▸ g.ansFwd a ha)
    · simp only [List.map_append, List.map_cons, List.map_nil]
      exact List.nodup_append.2 ⟨g.queueTickets, by simp, by
        intro a ha b' hb'; simp at hb'; subst hb'; intro e
        obtain ⟨x, hx, rfl⟩ := List.mem_map.1 ha
        exact htk (e ▸ hqt x hx)⟩
    · intro a ha
      simp only [List.map_append]
      exact List.mem_append_left _ (g.ansFwd a ha)
    · intro d hd
      obtain ⟨r', b', h1, h2⟩ := g.outOk d hd
      exact ⟨r', b', List.mem_append_left _ h1, h2⟩
    · intro rb hrb
      rcases List.mem_append.1 hrb with hrb | hrb
      · exact g.fields rb hrb
      · simp at hrb; subst hrb; exact hf
    · intro a ha
      simp only [List.map_append]
      exact List.mem_append_left _ (g.flushedAcc a ha)
  | answer i r k p hq =>
    have hmem : (r, k, (none : Option Rsp)) ∈ S.queue := List.mem_of_getElem? hq
    have hk : k ∉ S.answers.map (·.1) := g.queueUn _ hmem rfl
    have hi : i < S.queue.length := by
      rcases Nat.lt_or_ge i S.queue.length with h | h
      · exact h
      · rw [List.getElem?_eq_none h] at hq; cases hq
    have hget : S.queue[i] = (r, k, none) := by
      rw [List.getElem?_eq_getElem hi] at hq; exact Option.some.inj hq
    have hmapid : (S.queue.set i (r, k, some p)).map (·.1.id) = S.queue.map (·.1.id) :=
      map_set_same _ _ _ _ _ hq rfl
    have hmaptk : (S.queue.set i (r, k, some p)).map (·.2.1) = S.queue.map (·.2.1) :=
      map_set_same _ _ _ _ _ hq rfl
    have hset : ∀ e ∈ S.queue.set i (r, k, some p), e = (r, k, some p) ∨ (e ∈ S.queue ∧ e.2.1 ≠ k) := by
      intro e he
      obtain ⟨n, hn, hne⟩ := List.getElem_of_mem he
      rw [List.length_set] at hn
      by_cases hin : i = n
      · subst hin; left; rw [← hne]; simp
      · right
        rw [List.getElem_set_ne hin] at hne
        refine ⟨hne ▸ List.getElem_mem hn, ?_⟩
        intro hk'
        have hnd := g.queueTickets
        have h1 : (S.queue.map (·.2.1))[i]'(by simpa using hi) = k := by simp [hget]
        have h2 : (S.queue.map (·.2.1))[n]'(by simpa using hn) = k := by simp [hne, hk']
        exact hin ((List.getElem_inj hnd).1 (h1.trans h2.symm))
    refine { order := ?_, idsNodup := g.idsNodup, ticketsNodup := g.ticketsNodup, cap := ?_, queueFwd := ?_,
             queueAns := ?_, queueUn := ?_, queueTickets := ?_, ansNodup := ?_, ansFwd := ?_, outOk := ?_,
             fields := g.fields, flushedAcc := g.flushedAcc }
    · show S.out.map (·.rspTo) ++ (S.queue.set i (r, k, some p)).map (·.1.id) = _
      rw [hmapid]; exact g.order
    · show (S.queue.set i (r, k, some p)).length ≤ cap
      rw [List.length_set]; exact g.cap
    · intro e he
      rcases hset e he with h | ⟨h, _⟩
      · subst h; exact g.queueFwd (r, k, none) hmem
      · exact g.queueFwd e h
    · intro e he q hq'
      rcases hset e he with h | ⟨h, _⟩
      · subst h; simp at hq'; subst hq'; exact List.mem_append_right _ (by simp)
      · exact List.mem_append_left _ (g.queueAns e h q hq')
    · intro e he hq'
      rcases hset e he with h | ⟨h, hne⟩
      · subst h; simp at hq'
      · intro hm
        simp only [List.map_append, List.map_cons, List.map_nil, List.mem_append, List.mem_singleton] at hm
        rcases hm with hm | hm
        · exact g.queueUn e h hq' hm
        · exact hne hm
    · show ((S.queue.set i (r, k, some p)).map (·.2.1)).Nodup
      rw [hmaptk]; exact g.queueTickets
    · simp only [List.map_append, List.map_cons, List.map_nil]
      exact List.nodup_append.2 ⟨g.ansNodup, by simp, by
        intro a ha b' hb'; simp at hb'; subst hb'; intro e; exact hk (e ▸ ha)⟩
    · intro a ha
      rcases List.mem_append.1 ha with ha | ha
      · exact g.ansFwd a ha
      · simp at ha; subst ha
        obtain ⟨b', h1, h2⟩ := g.queueFwd _ hmem
        exact List.mem_map.2 ⟨(r, b'), h1, h2⟩
    · intro d hd
      obtain ⟨r', b', h1, h2, h3, h4⟩ := g.outOk d hd
      exact ⟨r', b', h1, h2, h3, List.mem_append_left _ h4⟩
  | respond r k p rest hq =>
    have hmem : (r, k, some p) ∈ S.queue := by rw [hq]; exact List.mem_cons_self
    have hsub : ∀ e ∈ rest, e ∈ S.queue := fun e he => by rw [hq]; exact List.mem_cons_of_mem _ he
    refine { order := ?_, idsNodup := g.idsNodup, ticketsNodup := g.ticketsNodup, cap := ?_, queueFwd := ?_,
             queueAns := ?_, queueUn := ?_, queueTickets := ?_, ansNodup := g.ansNodup, ansFwd := g.ansFwd,
             outOk := ?_, fields := g.fields, flushedAcc := g.flushedAcc }
    · have := g.order
      rw [hq] at this
      simp only [List.map_append, List.map_cons, List.map_nil]
      rw [← this]; simp
    · have := g.cap; rw [hq] at this; simp at this; show rest.length ≤ cap; omega
    · intro e he; exact g.queueFwd e (hsub e he)
    · intro e he; exact g.queueAns e (hsub e he)
    · intro e he; exact g.queueUn e (hsub e he)
    · have := g.queueTickets; rw [hq] at this
      simp only [List.map_cons, List.nodup_cons] at this
      exact this.2
    · intro d hd
      rcases List.mem_append.1 hd with hd | hd
      · exact g.outOk d hd
      · simp at hd; subst hd
        obtain ⟨b', h1, h2⟩ := g.queueFwd _ hmem
        exact ⟨r, b', h1, rfl, rfl, by rw [h2]; exact g.queueAns _ hmem p rfl⟩
  | flush =>
    refine { order := ?_, idsNodup := g.idsNodup, ticketsNodup := g.ticketsNodup, cap := ?_, queueFwd := ?_,
             queueAns := ?_, queueUn := ?_, queueTickets := ?_, ansNodup := g.ansNodup, ansFwd := g.ansFwd,
             outOk := g.outOk, fields := g.fields, flushedAcc := ?_ }
    · have := filter_flush (S.fwd.map (·.1.id)) S.flushed (S.out.map (·.rspTo)) (S.queue.map (·.1.id))
        g.idsNodup g.order
      simpa using this
    · simp
    · intro e he; cases he
    · intro e he; cases he
    · intro e he; cases he
    · simp
    · intro a ha
      rcases List.mem_append.1 ha with ha | ha
      · exact g.flushedAcc a ha
      · obtain ⟨e, he, rfl⟩ := List.mem_map.1 ha
        obtain ⟨b', h1, _⟩ := g.queueFwd e he
        exact List.mem_map.2 ⟨(e.1, b'), h1, rfl⟩

theorem good_star {cap : Nat} {S T : Spec} (g : Good cap S) (st : Star cap S T) : Good cap T := by
  induction st with
  | refl => exact g
  | tail _ s ih => exact good_step ih s

end Spec

end C15
