import MgpuModel.C19_Base
/-! Helper lemmas for C19: byte memory, chunk writes that agree with one source image. -/
namespace C19

theorem size_writeBytes (m : Mem) (a : Nat) (d : List Nat) : (writeBytes m a d).size = m.size := by
  induction d generalizing m a with
  | nil => rfl
  | cons b bs ih => simp [writeBytes, ih]

theorem readByte_set (m : Mem) (a b x : Nat) (h : a < m.size) :
    readByte (m.setIfInBounds a b) x = if x = a then b else readByte m x := by
  unfold readByte
  by_cases hx : x = a
  · subst hx; simp [Array.getD, h]
  · simp only [hx, if_false]
    simp only [Array.getD, Array.size_setIfInBounds]
    by_cases hs : x < m.size
    · simp [hs, Ne.symm hx]
    · simp [hs]

/-- a chunk write changes exactly its own range -/
theorem readByte_writeBytes (m : Mem) (a : Nat) (d : List Nat) (x : Nat) (hb : a + d.length ≤ m.size) :
    readByte (writeBytes m a d) x =
      if a ≤ x ∧ x < a + d.length then d.getD (x - a) 0 else readByte m x := by
  induction d generalizing m a with
  | nil => simp [writeBytes]; intro h; omega
  | cons b bs ih =>
    simp only [writeBytes, List.length_cons] at *
    have hsz : (m.setIfInBounds a b).size = m.size := by simp
    rw [ih (m.setIfInBounds a b) (a + 1) (by rw [hsz]; omega)]
    rw [readByte_set m a b x (by omega)]
    by_cases h1 : a + 1 ≤ x ∧ x < a + 1 + bs.length
    · have h2 : a ≤ x ∧ x < a + (bs.length + 1) := by omega
      simp only [h1, h2, and_self, if_true]
      have : x - a = (x - (a + 1)) + 1 := by omega
      rw [this]; simp
    · simp only [h1, if_false]
      by_cases hxa : x = a
      · subst hxa; simp
      · have h2 : ¬ (a ≤ x ∧ x < a + (bs.length + 1)) := by omega
        simp [hxa, h2]

/-- a list of chunk writes (address, data), applied in list order -/
def applyW (m : Mem) (ws : List (Nat × List Nat)) : Mem := ws.foldl (fun m w => writeBytes m w.1 w.2) m

theorem size_applyW (m : Mem) (ws : List (Nat × List Nat)) : (applyW m ws).size = m.size := by
  induction ws generalizing m with
  | nil => rfl
  | cons w ws ih => simp only [applyW, List.foldl_cons] at *; rw [ih, size_writeBytes]

def covers (w : Nat × List Nat) (x : Nat) : Prop := w.1 ≤ x ∧ x < w.1 + w.2.length

open Classical in
/-- If every write carries the bytes of one fixed image `spec` (whatever their order, number or
    overlap), the result is `spec` on the covered bytes and the old memory elsewhere. -/
theorem applyW_spec (spec : Nat → Nat) (ws : List (Nat × List Nat)) (m : Mem)
    (hb : ∀ w ∈ ws, w.1 + w.2.length ≤ m.size)
    (hs : ∀ w ∈ ws, ∀ k, k < w.2.length → w.2.getD k 0 = spec (w.1 + k)) (x : Nat) :
    readByte (applyW m ws) x = if ∃ w ∈ ws, covers w x then spec x else readByte m x := by
  induction ws generalizing m with
  | nil => simp [applyW]
  | cons w ws ih =>
    simp only [applyW, List.foldl_cons]
    have hb' : ∀ v ∈ ws, v.1 + v.2.length ≤ (writeBytes m w.1 w.2).size := by
      intro v hv; rw [size_writeBytes]; exact hb v (List.mem_cons_of_mem _ hv)
    have := ih (writeBytes m w.1 w.2) hb' (fun v hv => hs v (List.mem_cons_of_mem _ hv))
    simp only [applyW] at this
    rw [this]
    by_cases hex : ∃ v ∈ ws, covers v x
    · have h2 : ∃ v ∈ w :: ws, covers v x := by
        obtain ⟨v, hv, hc⟩ := hex; exact ⟨v, List.mem_cons_of_mem _ hv, hc⟩
      rw [if_pos hex, if_pos h2]
    · rw [if_neg hex]
      rw [readByte_writeBytes m w.1 w.2 x (hb w (List.mem_cons_self ..))]
      by_cases hc : w.1 ≤ x ∧ x < w.1 + w.2.length
      · have h2 : ∃ v ∈ w :: ws, covers v x := ⟨w, List.mem_cons_self .., hc⟩
        rw [if_pos hc, if_pos h2]
        have := hs w (List.mem_cons_self ..) (x - w.1) (by omega)
        rw [this]; congr 1; omega
      · have h2 : ¬ ∃ v ∈ w :: ws, covers v x := by
          rintro ⟨v, hv, hcv⟩
          rcases List.mem_cons.mp hv with rfl | hv'
          · exact hc hcv
          · exact hex ⟨v, hv', hcv⟩
        rw [if_neg hc, if_neg h2]

theorem readBytes_length (m : Mem) (a n : Nat) : (readBytes m a n).length = n := by simp [readBytes]

theorem readBytes_getD (m : Mem) (a n k : Nat) (h : k < n) : (readBytes m a n).getD k 0 = readByte m (a + k) := by
  simp [readBytes, List.getD, h]

/-- the memory answers exactly as `readBytes`/`writeBytes` when the access is inside the storage -/
theorem perform_read (m : Mem) (i a n : Nat) (h : a + n ≤ m.size) :
    perform m (.read i a n) = some (m, .data i (readBytes m a n)) := by simp [perform, h]

theorem perform_write (m : Mem) (i a : Nat) (d : List Nat) (h : a + d.length ≤ m.size) :
    perform m (.write i a d) = some (writeBytes m a d, .done i) := by simp [perform, h]

theorem mkPulls_length (self peer rd wr base n : Nat) : (mkPulls self peer rd wr base n).length = n := by
  induction n with
  | zero => rfl
  | succ n ih => simp [mkPulls, ih]

/-- the pull list is exactly: chunk `i` read at `rd + 64 i`, 64 bytes, to be written at `wr + 64 i` -/
theorem mem_mkPulls (self peer rd wr base n : Nat) (x : PullReq × Nat) :
    x ∈ mkPulls self peer rd wr base n ↔
      ∃ i, i < n ∧ x = (⟨2 * (base + i) + self % 2, self, peer, rd + unit * i, unit⟩, wr + unit * i) := by
  induction n with
  | zero => simp [mkPulls]
  | succ n ih =>
    simp only [mkPulls, List.mem_append, ih, List.mem_singleton]
    constructor
    · rintro (⟨i, hi, rfl⟩ | rfl)
      · exact ⟨i, by omega, rfl⟩
      · exact ⟨n, by omega, rfl⟩
    · rintro ⟨i, hi, rfl⟩
      by_cases h : i < n
      · exact Or.inl ⟨i, h, rfl⟩
      · have : i = n := by omega
        subst this; exact Or.inr rfl

end C19
