import MgpuProofs.C19SysRankT1
import MgpuProofs.C19SysRankT2a
import MgpuProofs.C19SysRankT2b
import MgpuProofs.C19SysRankT3
/-! # C19 — the closed system: the rank never grows, something can always move, fair runs end idle -/
namespace C19
namespace SY
open CP (Cp Cls K Sub Cmd Ans)
open DR (Drv MmuReq MigCmd)

theorem rank_ret {s : Sys} (I : Inv s) :
    LexLe (rank { s with drv := s.drv.ret.1 }) (rank s) ∧
    (s.drv.gpuIn ≠ [] → LexLt (rank { s with drv := s.drv.ret.1 }) (rank s)) := by
  by_cases h : ∃ rest, s.drv.gpuIn = Ans.shoot :: rest
  · obtain ⟨rest, hin⟩ := h
    have := rank_ret_shoot I rest hin
    exact ⟨this.le, fun _ => this⟩
  · exact rank_ret_other I (fun rest e => h ⟨rest, e⟩)

theorem rank_dstage {s : Sys} (I : Inv s) (k : Nat) : LexLe (rank (step s (.dstage k))) (rank s) := by
  simp only [step]
  match k with
  | 0 => exact (rank_sGpu I).1
  | 1 => exact (rank_sMmu I).1
  | 2 => exact (rank_sMig I).1
  | 3 => exact (rank_ret I).1
  | 4 => exact (rank_parse I).1
  | k + 5 =>
    have : dstageFn (k + 5) s.drv = (s.drv, false) := by simp [dstageFn, DR.stages]
    rw [this]; exact LexLe.refl _

theorem rank_dtick {s : Sys} (I : Inv s) : LexLe (rank (step s .dtick)) (rank s) := by
  simp only [step]
  rw [tick_eq]
  have I1 := inv_sGpu I
  have I2 := inv_sMmu I1
  have I3 := inv_sMig I2
  have I4 := inv_ret I3
  exact (((((rank_parse I4).1.trans (rank_ret I3).1).trans (rank_sMig I2).1).trans (rank_sMmu I1).1).trans
    (rank_sGpu I).1)

/-- **the rank never grows**: every move other than a new request of the MMU leaves it or decreases it -/
theorem rank_step_le {s : Sys} (I : Inv s) (m : Mv) (hm : m.ok s) (hs : m.isSend = false) :
    LexLe (rank (step s m)) (rank s) := by
  cases m with
  | dstage k => exact rank_dstage I k
  | dtick => exact rank_dtick I
  | cstage g k => exact (rank_cstage I g k).1
  | ctick g => exact (rank_ctick I g).1
  | toCp => exact (rank_toCp I).1
  | toDrv g => exact (rank_toDrv I g).1
  | take g c => exact (rank_take I g c).1
  | ack g c j => exact (rank_ack I g c j).1
  | pmcTake g => exact (rank_pmcTake I g).1
  | pmcColl g => exact (rank_pmcColl I g).1
  | pmcBack g => exact (rank_pmcBack I g).1
  | world o => exact (rank_world I o hm.1 hm.2.1 hm.2.2).1
  | mmuSend r => cases hs
  | mmuTake => exact (rank_mmuTake I).1

/-- a move that is allowed, is not a new request, and strictly decreases the rank -/
def Progress (s : Sys) (m : Mv) : Prop := m.ok s ∧ m.isSend = false ∧ LexLt (rank (step s m)) (rank s)

/-- a busy GPU (not waiting for the controllers) can make progress -/
theorem gpu_progress {s : Sys} (I : Inv s) (g : Nat) (hg : g < s.drv.ngpu) {x : Cmd} {loc : BLoc} {rq gq : Bool}
    (hgs : GS x loc rq gq (s.cp g) (s.cm g)) (hnw : loc ≠ .pmcWait) : ∃ m, Progress s m := by
  rcases busy_enabled (I.cfg g) hgs with ⟨k, hk⟩ | ⟨cl, hcl, ho⟩ | ⟨cl, hp⟩ | hd | hp | hw
  · exact ⟨.cstage g k, trivial, rfl, (rank_cstage I g k).2 hg hk⟩
  · exact ⟨.take g cl, trivial, rfl, (rank_take I g cl).2 hg hcl ho⟩
  · exact ⟨.ack g cl 0, trivial, rfl, (rank_ack I g cl 0).2 hg hp⟩
  · exact ⟨.toDrv g, trivial, rfl, (rank_toDrv I g).2 hd⟩
  · exact ⟨.pmcTake g, trivial, rfl, (rank_pmcTake I g).2 hp⟩
  · exact absurd hw hnw

theorem ne_nil_of_length_pos {α : Type} {l : List α} (h : 0 < l.length) : l ≠ [] := by
  intro e; rw [e] at h; simp at h

/-- **no stuck state**: unless the driver has nothing left to do for the MMU, some move makes progress -/
theorem enabled {s : Sys} (I : Inv s) (hq : ¬ Quiescent s) : ∃ m, Progress s m := by
  cases I.ph with
  | idle hd hg hw hm =>
    by_cases h1 : s.drv.mmuIn = []
    · by_cases h2 : s.drv.mmuOut = []
      · by_cases h3 : s.drv.toMMU = none
        · exact absurd ⟨hd.handling, h1, h3, h2⟩ hq
        · exact ⟨.dstage 1, trivial, rfl, (rank_sMmu I).2 h3 h2⟩
      · exact ⟨.mmuTake, trivial, rfl, (rank_mmuTake I).2 h2⟩
    · exact ⟨.dstage 4, trivial, rfl, (rank_parse I).2 hd.handling h1⟩
  | bcast p r σ loc hp hh hc hr hct htc hone hb hw hm hpg hrh =>
    have hpos := hb.pos
    by_cases h1 : σ.wait = []
    · by_cases h2 : σ.sent = []
      · by_cases h3 : σ.bk = []
        · -- some GPU is serving the command
          have h4 : σ.atG ≠ [] := by
            intro e
            simp only [Split.open_, h1, h2, h3, e, List.length_nil] at hpos
            omega
          obtain ⟨g, hg⟩ := List.exists_mem_of_ne_nil _ h4
          have hgs := hb.busy g hg
          have hlt : g < s.drv.ngpu := busy_lt I (fun rq gq hi => by
            rcases busy_enabled (I.cfg g) hgs with ⟨k, hk⟩ | ⟨cl, hcl, ho⟩ | ⟨cl, hp'⟩ | hd | hp' | hw'
            · rw [idle_cstage k hi] at hk; cases hk
            · have := idle_takeG hi cl
              have h5 := (busy_takeG (fun _ => 0) cl (I.cfg g) hgs).2.2 hcl ho
              exact h5 this
            · have := idle_ackG hi cl 0
              exact (busy_ackG (fun _ => 0) cl 0 (I.cfg g) hgs).2.2 hp' this
            · exact hd (idle_drvOut hi).1
            · exact hp' (idle_drvOut hi).2.1
            · rw [hw'] at hgs
              obtain ⟨_, ⟨id, hid⟩, _⟩ := hgs
              cases p <;> simp [cmdOf] at hid
              exact hp rfl)
          refine gpu_progress I g hlt hgs ?_
          intro e
          rw [e] at hgs
          obtain ⟨_, ⟨id, hid⟩, _⟩ := hgs
          cases p <;> simp [cmdOf] at hid
          exact hp rfl
        · have : s.drv.gpuIn ≠ [] := by
            rw [hb.gpuIn]
            cases hbk : σ.bk with
            | nil => exact absurd hbk h3
            | cons a b => simp [List.replicate_succ]
          exact ⟨.dstage 3, trivial, rfl, (rank_ret I).2 this⟩
      · have : s.drv.gpuOut ≠ [] := by
          rw [hb.gpuOut]
          cases hse : σ.sent with
          | nil => exact absurd hse h2
          | cons a b => simp
        exact ⟨.toCp, trivial, rfl, (rank_toCp I).2 this⟩
    · have : s.drv.toSend ≠ [] := by
        rw [hb.toSend]
        cases hwa : σ.wait with
        | nil => exact absurd hwa h1
        | cons a b => simp
      exact ⟨.dstage 0, trivial, rfl, (rank_sGpu I).2 this⟩
  | mig r fl ws hh hc hr hct hmp hw hm hrh =>
    match fl, hmp with
    | none, hmp =>
      have hctr := hmp.ctr
      have hpos := hmp.pos
      simp only [Option.isSome_none, Bool.false_eq_true, if_false, Nat.add_zero] at hctr
      have h1 : s.drv.toCP ≠ [] := ne_nil_of_length_pos (by omega)
      have h2 : s.drv.one = false := hmp.one
      exact ⟨.dstage 2, trivial, rfl, (rank_sMig I).2 h1 h2⟩
    | some (m, .sent), hmp =>
      have : s.drv.gpuOut ≠ [] := by rw [hmp.gpuOut]; simp [flOut]
      exact ⟨.toCp, trivial, rfl, (rank_toCp I).2 this⟩
    | some (m, .bk), hmp =>
      have : s.drv.gpuIn ≠ [] := by rw [hmp.gpuIn]; simp [flIn]
      exact ⟨.dstage 3, trivial, rfl, (rank_ret I).2 this⟩
    | some (m, .atG loc), hmp =>
      have hgs := hmp.busy m loc rfl
      have hlt : m.gpu < s.drv.ngpu := by
        have := (hmp.fly m _ rfl).gpu
        have := I.ng.1
        omega
      by_cases hl : loc = .pmcWait
      · subst hl
        have hws := hmp.ws
        simp only [flWs] at hws
        rcases hws with e | e
        · -- the request is inside the two-controller world
          subst e
          obtain ⟨ℓ, hlv, _⟩ := hw.live
          obtain ⟨o, ho1, ho2, ho3⟩ := world_enabled hw.reach (by rw [hlv]; simp)
          by_cases hcoll : Op.isColl o = true
          · cases o <;> simp [Op.isColl] at hcoll
            rename_i i
            have hi : i < 2 := by simpa [Op.honest] using ho1
            have hne : (s.w.sys.pmc i).ctlOut ≠ [] := by
              simp only [productive] at ho3
              intro e; rw [e] at ho3; simp at ho3
            exact ⟨.pmcColl i, trivial, rfl, (rank_pmcColl I i).2 hi hne⟩
          · have hcf : Op.isColl o = false := by
              cases h : Op.isColl o with
              | true => exact absurd h hcoll
              | false => rfl
            exact ⟨.world o, ⟨ho1, ho2, hcf⟩, rfl, (rank_world I o ho1 ho2 hcf).2 ho3⟩
        · subst e
          have := hw.back m.gpu
          simp only [WSt.backOf, if_true] at this
          exact ⟨.pmcBack m.gpu, trivial, rfl, (rank_pmcBack I m.gpu).2 (by omega)⟩
      · exact gpu_progress I m.gpu hlt hgs hl

/-! ## runs -/

/-- an infinite schedule of allowed moves from `s0` in which the MMU sends no further request -/
structure Run (s0 : Sys) (σ : Nat → Mv) (st : Nat → Sys) : Prop where
  start : st 0 = s0
  next : ∀ n, st (n + 1) = step (st n) (σ n)
  ok : ∀ n, (σ n).ok (st n)
  noSend : ∀ n, (σ n).isSend = false

/-- fairness: whenever some component can make progress, eventually a move that makes progress is taken -/
def Fair (σ : Nat → Mv) (st : Nat → Sys) : Prop :=
  ∀ n, (∃ m, Progress (st n) m) → ∃ n', n ≤ n' ∧ LexLt (rank (st (n' + 1))) (rank (st n'))

theorem run_reach {s0 : Sys} {σ : Nat → Mv} {st : Nat → Sys} (h0 : Reach s0) (hr : Run s0 σ st) (n : Nat) :
    Reach (st n) := by
  induction n with
  | zero => rw [hr.start]; exact h0
  | succ n ih => rw [hr.next]; exact Reach.step _ ih (hr.ok n)

theorem run_rank_le {s0 : Sys} {σ : Nat → Mv} {st : Nat → Sys} (h0 : Reach s0) (hr : Run s0 σ st) (n k : Nat) :
    LexLe (rank (st (n + k))) (rank (st n)) := by
  induction k with
  | zero => exact LexLe.refl _
  | succ k ih =>
    have : st (n + (k + 1)) = step (st (n + k)) (σ (n + k)) := hr.next (n + k)
    rw [this]
    exact (rank_step_le (reach_inv (run_reach h0 hr (n + k))) _ (hr.ok _) (hr.noSend _)).trans ih

/-- **every fair run reaches a state in which the driver has nothing left to do** -/
theorem fair_run_quiesces {s0 : Sys} {σ : Nat → Mv} {st : Nat → Sys} (h0 : Reach s0) (hr : Run s0 σ st)
    (hf : Fair σ st) : ∃ N, Quiescent (st N) := by
  have key : ∀ r : Nat × Nat, ∀ n, rank (st n) = r → ∃ N, Quiescent (st N) := by
    intro r
    induction r using lexLt_wf.induction with
    | _ r ih =>
      intro n hn
      by_cases hq : Quiescent (st n)
      · exact ⟨n, hq⟩
      · obtain ⟨n', hle, hlt⟩ := hf n (enabled (reach_inv (run_reach h0 hr n)) hq)
        obtain ⟨k, rfl⟩ : ∃ k, n' = n + k := ⟨n' - n, by omega⟩
        have h1 := run_rank_le h0 hr n k
        have h2 : LexLt (rank (st (n + k + 1))) (rank (st n)) := hlt.trans_le h1
        rw [hn] at h2
        exact ih _ h2 (n + k + 1) rfl
  exact key _ 0 rfl

end SY
end C19
