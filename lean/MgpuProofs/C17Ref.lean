import MgpuProofs.C17Inv
/-! C17: with ONE pipeline lane the model of the repaired component (`WBank`, `tickW`, `runW`) never sets anything aside and
its projection `WState.base` is exactly the first model (`tick`, `run`) — so every theorem about `run` (FIFO order, liveness,
payload) holds for the repaired code at width 1. Invariant: `RefOk` on every bank; one commutation lemma per phase. -/
namespace C17

/-- one lane: nothing set aside, `order` = the requests of post buffer ++ lane, oldest first -/
def RefOk (b : WBank) : Prop :=
  b.early = [] ∧ (∃ l, b.lanes = [l]) ∧ b.order = (b.post ++ b.lanes.flatMap laneItems).map (·.req)

def RefAll (bs : List WBank) : Prop := ∀ b ∈ bs, RefOk b

/-- the only `RefOk` bank above a bank of the first model -/
def lift (b : Bank) : WBank :=
  ⟨b.lanes, b.post, b.lastRow, b.dq, (b.post ++ b.lanes.flatMap laneItems).map (·.req), []⟩

theorem lift_base (b : WBank) (h : RefOk b) : lift b.base = b := by
  obtain ⟨lanes, post, lr, dq, order, early⟩ := b
  obtain ⟨h1, _, h3⟩ := h
  simp only at h1 h3
  subst h1 h3
  rfl

theorem lift_map_base (l : List WBank) (hl : RefAll l) : (l.map WBank.base).map lift = l := by
  rw [List.map_map]
  conv => rhs; rw [← List.map_id l]
  apply List.map_congr_left
  intro b hb
  exact lift_base b (hl b hb)

/-- under `RefOk` a bank list is determined by its projection -/
theorem base_inj (l1 l2 : List WBank) (h1 : RefAll l1) (h2 : RefAll l2)
    (h : l1.map WBank.base = l2.map WBank.base) : l1 = l2 := by
  rw [← lift_map_base l1 h1, ← lift_map_base l2 h2, h]

theorem RefAll_set (bs : List WBank) (k : Nat) (b : WBank) (h : RefAll bs) (hb : RefOk b) : RefAll (bs.set k b) := by
  intro x hx
  rcases List.mem_or_eq_of_mem_set hx with hx | rfl
  · exact h x hx
  · exact hb

/-! ### tickPipelines -/

theorem pipeW_base (c : Cfg) (b : WBank) : (tickBankPipeW c b).base = tickBankPipe c b.base := rfl

theorem pipeW_ok (c : Cfg) (b : WBank) (h : RefOk b) : RefOk (tickBankPipeW c b) := by
  obtain ⟨h1, ⟨l, h2⟩, h3⟩ := h
  have := tickLane_items c b.post l
  refine ⟨h1, ⟨(tickLane c b.post l).2, by simp [tickBankPipeW, h2, tickLanes]⟩, ?_⟩
  simp only [tickBankPipeW, h2, tickLanes, List.flatMap_cons, List.flatMap_nil, List.append_nil] at h3 ⊢
  rw [this]; exact h3

/-! ### accept -/

theorem accW_eq (c : Cfg) (it : Item) (b : WBank) (he : b.early = []) :
    accW c it b = (acceptLanes (it, c.lat - 1) b.lanes).map
      (fun ls => { b with lanes := ls, order := b.order ++ [it.req] }) := by
  unfold accW
  rw [if_pos (by simp [he])]
  cases acceptLanes (it, c.lat - 1) b.lanes <;> rfl

theorem acc_ok (x : Item × Nat) (b : WBank) (ls : List Lane) (h : RefOk b) (ha : acceptLanes x b.lanes = some ls) :
    RefOk { b with lanes := ls, order := b.order ++ [x.1.req] } := by
  obtain ⟨h1, ⟨l, h2⟩, h3⟩ := h
  rw [h2, acceptLanes_single] at ha
  cases hl : acceptLane x l with
  | none => rw [hl] at ha; simp at ha
  | some l2 =>
    rw [hl] at ha; simp at ha; subst ha
    have hi := acceptLane_items _ _ _ hl
    refine ⟨h1, ⟨l2, rfl⟩, ?_⟩
    simp [h3, h2, hi]

/-! ### tickDelayQueues -/

theorem delayGoW_spec (c : Cfg) (dq : List (Item × Nat)) : ∀ (b : WBank) (rem : List (Item × Nat)), RefOk b →
    RefOk (delayGoW c dq b rem).1 ∧ (delayGoW c dq b rem).1.lanes = (delayGo c dq b.lanes rem).1 ∧
    (delayGoW c dq b rem).2 = (delayGo c dq b.lanes rem).2 ∧ (delayGoW c dq b rem).1.post = b.post ∧
    (delayGoW c dq b rem).1.lastRow = b.lastRow ∧ (delayGoW c dq b rem).1.dq = b.dq := by
  induction dq with
  | nil => intro b rem h; exact ⟨h, rfl, rfl, rfl, rfl, rfl⟩
  | cons d rest ih =>
    intro b rem h
    obtain ⟨it, n⟩ := d
    simp only [delayGoW, delayGo]
    split
    · rw [accW_eq c it b h.1]
      cases ha : acceptLanes (it, c.lat - 1) b.lanes with
      | none => exact ih b _ h
      | some ls => exact ih _ rem (acc_ok (it, c.lat - 1) b ls h ha)
    · exact ih b _ h

theorem delayW_base (c : Cfg) (b : WBank) (h : RefOk b) : (tickBankDelayW c b).base = tickBankDelay c b.base := by
  obtain ⟨_, h2, h3, h4, h5, _⟩ := delayGoW_spec c b.dq b [] h
  simp only [tickBankDelayW, tickBankDelay, WBank.base, h2, h3, h4, h5]

theorem delayW_ok (c : Cfg) (b : WBank) (h : RefOk b) : RefOk (tickBankDelayW c b) := by
  obtain ⟨h1, _⟩ := delayGoW_spec c b.dq b [] h
  exact h1

/-! ### dispatchPending -/

theorem dispatchBankW_spec (c : Cfg) (r : Req) (b : WBank) (h : RefOk b) :
    (dispatchBankW c r b).map WBank.base = dispatchBank c r b.base ∧
    ∀ b', dispatchBankW c r b = some b' → RefOk b' := by
  have hdq : ∀ x, RefOk { b with dq := b.dq ++ [x], lastRow := some (rowOf c r.addr) } := fun _ => h
  have hacc := accW_eq c (fresh r) b h.1
  unfold dispatchBankW dispatchBank
  by_cases hrm : c.row > 0 ∧ c.miss > 0
  · rw [if_pos hrm, if_pos hrm]
    dsimp only
    by_cases hrow : b.lastRow = some (rowOf c r.addr)
    · have hrow' : b.base.lastRow = some (rowOf c r.addr) := hrow
      rw [if_pos hrow, if_pos hrow']
      by_cases hq : b.dq.isEmpty = true
      · have hq' : b.base.dq.isEmpty = true := hq
        rw [if_pos hq, if_pos hq', hacc]
        cases ha : acceptLanes (fresh r, c.lat - 1) b.lanes with
        | none =>
          have ha' : acceptLanes (fresh r, c.lat - 1) b.base.lanes = none := ha
          rw [ha']
          exact ⟨rfl, fun b' hb' => by cases hb'; exact hdq _⟩
        | some ls =>
          have ha' : acceptLanes (fresh r, c.lat - 1) b.base.lanes = some ls := ha
          rw [ha']
          exact ⟨rfl, fun b' hb' => by cases hb'; exact acc_ok (fresh r, c.lat - 1) b ls h ha⟩
      · have hq' : ¬ b.base.dq.isEmpty = true := hq
        rw [if_neg hq, if_neg hq']
        exact ⟨rfl, fun b' hb' => by cases hb'; exact hdq _⟩
    · have hrow' : ¬ b.base.lastRow = some (rowOf c r.addr) := hrow
      rw [if_neg hrow, if_neg hrow']
      exact ⟨rfl, fun b' hb' => by cases hb'; exact hdq _⟩
  · rw [if_neg hrm, if_neg hrm, hacc]
    cases ha : acceptLanes (fresh r, c.lat - 1) b.lanes with
    | none =>
      have ha' : acceptLanes (fresh r, c.lat - 1) b.base.lanes = none := ha
      rw [ha']
      exact ⟨rfl, fun b' hb' => by cases hb'⟩
    | some ls =>
      have ha' : acceptLanes (fresh r, c.lat - 1) b.base.lanes = some ls := ha
      rw [ha']
      exact ⟨rfl, fun b' hb' => by cases hb'; exact acc_ok (fresh r, c.lat - 1) b ls h ha⟩

theorem dispatchOneW_spec (c : Cfg) (st : List WBank × List Req) (r : Req) (h : RefAll st.1) :
    ((dispatchOneW c st r).1.map WBank.base, (dispatchOneW c st r).2) = dispatchOne c (st.1.map WBank.base, st.2) r ∧
    RefAll (dispatchOneW c st r).1 := by
  unfold dispatchOneW dispatchOne
  simp only [List.getElem?_map]
  cases hb : st.1[bankOf c r.addr]? with
  | none => exact ⟨rfl, h⟩
  | some b =>
    obtain ⟨e, ok⟩ := dispatchBankW_spec c r b (h b (List.mem_of_getElem? hb))
    simp only [Option.map_some]
    rw [← e]
    cases hd : dispatchBankW c r b with
    | none => exact ⟨rfl, h⟩
    | some b' =>
      simp only [Option.map_some, List.map_set]
      exact ⟨trivial, RefAll_set _ _ _ h (ok b' hd)⟩

theorem dispatch_foldW (c : Cfg) : ∀ (todo : List Req) (st : List WBank × List Req), RefAll st.1 →
    (((todo.foldl (dispatchOneW c) st).1.map WBank.base, (todo.foldl (dispatchOneW c) st).2)
      = todo.foldl (dispatchOne c) (st.1.map WBank.base, st.2)) ∧
    RefAll (todo.foldl (dispatchOneW c) st).1 := by
  intro todo
  induction todo with
  | nil => intro st h; exact ⟨rfl, h⟩
  | cons r rest ih =>
    intro st h
    obtain ⟨e, ok⟩ := dispatchOneW_spec c st r h
    simp only [List.foldl_cons]
    rw [← e]
    exact ih _ ok

/-! ### finalizeBanks -/

theorem finalizePost_resp_le (c : Cfg) : ∀ (post : List Item) (log : List Req) (out resp : List Rsp),
    resp.length ≤ (finalizePost c post log out resp).resp.length := by
  intro post
  induction post with
  | nil => intro log out resp; simp [finalizePost]
  | cons it rest ih =>
    intro log out resp
    simp only [finalizePost]
    split
    · exact Nat.le_refl _
    · split
      · exact Nat.le_refl _
      · split
        · rename_i it' log' _ _
          have := ih log' (out ++ [rspOf it']) (resp ++ [rspOf it'])
          simp only [List.length_append, List.length_cons, List.length_nil] at this
          omega
        · exact Nat.le_refl _

/-- what `finalizeBankW` returns, compared with `finalizePost` on the same post buffer -/
def FinAgree (W : FinW) (F : Fin) (lanes : List Lane) (lr : Option Nat) (dq : List (Item × Nat)) (Y : List Item)
    (pg : Bool) (n : Nat) : Prop :=
  W.bank = ⟨lanes, F.post, lr, dq, (F.post ++ Y).map (·.req), []⟩ ∧ W.log = F.log ∧ W.out = F.out ∧
  W.resp = F.resp ∧ W.fault.isSome = F.fault ∧ W.prog = (pg || decide (n < F.resp.length))

theorem finW_aux (c : Cfg) (lanes : List Lane) (lr : Option Nat) (dq : List (Item × Nat)) (Y : List Item) :
    ∀ (post : List Item) (fuel : Nat) (log : List Req) (out resp : List Rsp) (pg : Bool), post.length + 1 ≤ fuel →
    FinAgree (finalizeBankW c fuel ⟨lanes, post, lr, dq, (post ++ Y).map (·.req), []⟩ log out resp pg)
      (finalizePost c post log out resp) lanes lr dq Y pg resp.length := by
  intro post
  induction post with
  | nil =>
    intro fuel log out resp pg hf
    cases fuel with
    | zero => omega
    | succ f =>
      cases Y with
      | nil => simp [FinAgree, finalizeBankW, finalizePost]
      | cons y Y => simp [FinAgree, finalizeBankW, finalizePost]
  | cons it rest ih =>
    intro fuel log out resp pg hf
    cases fuel with
    | zero => omega
    | succ f =>
      have hf' : rest.length + 1 ≤ f := by simp only [List.length_cons] at hf; omega
      simp only [finalizeBankW, finalizePost, List.cons_append, List.map_cons, List.find?_nil, if_true]
      by_cases hcap : capFault c it = true
      · simp [FinAgree, hcap]
      · simp only [hcap, Bool.false_eq_true, if_false]
        cases hcm : commit it log with
        | none => simp [FinAgree]
        | some p =>
          obtain ⟨it', log'⟩ := p
          obtain ⟨h1, _, _⟩ := commit_spec it it' log log' hcm
          simp only
          by_cases ho : out.length < c.top
          · simp only [ho, if_true]
            obtain ⟨a1, a2, a3, a4, a5, a6⟩ := ih f log' (out ++ [rspOf it']) (resp ++ [rspOf it']) true hf'
            have hle := finalizePost_resp_le c rest log' (out ++ [rspOf it']) (resp ++ [rspOf it'])
            simp only [List.length_append, List.length_cons, List.length_nil] at hle
            refine ⟨a1, a2, a3, a4, a5, ?_⟩
            rw [a6]
            have : resp.length < (finalizePost c rest log' (out ++ [rspOf it']) (resp ++ [rspOf it'])).resp.length := by
              omega
            simp [this]
          · simp only [ho, if_false]
            simp [FinAgree, h1]

theorem finW (c : Cfg) (b : WBank) (h : RefOk b) (fuel : Nat) (hf : b.post.length + 1 ≤ fuel)
    (log : List Req) (out resp : List Rsp) (pg : Bool) :
    FinAgree (finalizeBankW c fuel b log out resp pg) (finalizePost c b.post log out resp)
      b.lanes b.lastRow b.dq (b.lanes.flatMap laneItems) pg resp.length := by
  obtain ⟨lanes, post, lr, dq, order, early⟩ := b
  obtain ⟨h1, _, h3⟩ := h
  simp only at h1 h3 hf
  subst h1 h3
  exact finW_aux c lanes lr dq _ post fuel log out resp pg hf

theorem or_lt (a b c : Nat) (h1 : a ≤ b) (h2 : b ≤ c) : (decide (a < b) || decide (b < c)) = decide (a < c) := by
  by_cases h : a < b <;> by_cases h' : b < c <;> simp [h, h'] <;> omega

/-- what a finalize function of the second model returns, compared with the first model -/
def FinSAgree (W : FinS) (F : State × Bool) (pg : Bool) (n : Nat) : Prop :=
  W.st.base = F.1 ∧ W.fault.isSome = F.2 ∧ W.prog = (pg || decide (n < F.1.resp.length)) ∧ RefAll W.st.banks ∧
  n ≤ F.1.resp.length

theorem finalizeAtW_spec (c : Cfg) (s : WState) (k : Nat) (pg : Bool) (h : RefAll s.banks) :
    FinSAgree (finalizeAtW c s k pg) (finalizeAt c s.base k) pg s.resp.length := by
  unfold finalizeAtW finalizeAt
  have hg : s.base.banks[k]? = (s.banks[k]?).map WBank.base := List.getElem?_map
  rw [hg]
  cases hb : s.banks[k]? with
  | none =>
    refine ⟨rfl, rfl, ?_, h, Nat.le_refl _⟩
    show pg = (pg || decide (s.resp.length < s.resp.length))
    simp
  | some b =>
    have hok := h b (List.mem_of_getElem? hb)
    obtain ⟨a1, a2, a3, a4, a5, a6⟩ := finW c b hok (b.order.length + b.post.length + 1) (by omega) s.log s.outBuf s.resp pg
    have hle := finalizePost_resp_le c b.post s.log s.outBuf s.resp
    refine ⟨?_, a5, a6, ?_, hle⟩
    · simp only [Option.map_some, WState.base, List.map_set, a1, a2, a3, a4]
      rfl
    · apply RefAll_set _ _ _ h
      rw [a1]
      exact ⟨rfl, hok.2.1, rfl⟩

theorem finalizeFromW_spec (c : Cfg) : ∀ (ks : List Nat) (s : WState) (pg : Bool), RefAll s.banks →
    FinSAgree (finalizeFromW c ks s pg) (finalizeFrom c ks s.base) pg s.resp.length := by
  intro ks
  induction ks with
  | nil =>
    intro s pg h
    refine ⟨rfl, rfl, ?_, h, Nat.le_refl _⟩
    show pg = (pg || decide (s.resp.length < s.resp.length))
    simp
  | cons k ks ih =>
    intro s pg h
    obtain ⟨a1, a2, a3, a4, a5⟩ := finalizeAtW_spec c s k pg h
    simp only [finalizeFromW, finalizeFrom]
    rw [← a2]
    by_cases hf : (finalizeAtW c s k pg).fault.isSome = true
    · rw [if_pos hf, if_pos hf]
      exact ⟨a1, a2, a3, a4, a5⟩
    · rw [if_neg hf, if_neg hf, ← a1]
      obtain ⟨b1, b2, b3, b4, b5⟩ := ih (finalizeAtW c s k pg).st (finalizeAtW c s k pg).prog a4
      have hr : (finalizeAtW c s k pg).st.resp.length = (finalizeAt c s.base k).1.resp.length := by rw [← a1]; rfl
      rw [hr] at b3 b5
      refine ⟨b1, b2, ?_, b4, Nat.le_trans a5 b5⟩
      rw [b3, a3, Bool.or_assoc, or_lt _ _ _ a5 b5]

theorem finalizeW_spec (c : Cfg) (s : WState) (h : RefAll s.banks) :
    FinSAgree (finalizeW c s) (finalize c s.base) false s.resp.length := by
  have := finalizeFromW_spec c (List.range s.banks.length) s false h
  unfold finalizeW finalize
  have hl : s.base.banks.length = s.banks.length := List.length_map _
  rw [hl]
  exact this

/-! ### the phases on states -/

theorem tickPipesW_base (c : Cfg) (s : WState) : (tickPipesW c s).base = tickPipes c s.base := by
  simp only [tickPipesW, tickPipes, WState.base, List.map_map]
  rfl

theorem tickPipesW_ok (c : Cfg) (s : WState) (h : RefAll s.banks) : RefAll (tickPipesW c s).banks := by
  intro b' hb'
  obtain ⟨b, hb, rfl⟩ := List.mem_map.1 hb'
  exact pipeW_ok c b (h b hb)

theorem tickDelaysW_base (c : Cfg) (s : WState) (h : RefAll s.banks) : (tickDelaysW c s).base = tickDelays c s.base := by
  have : (s.banks.map (tickBankDelayW c)).map WBank.base = (s.banks.map WBank.base).map (tickBankDelay c) := by
    rw [List.map_map, List.map_map]
    apply List.map_congr_left
    intro b hb
    exact delayW_base c b (h b hb)
  simp only [tickDelaysW, tickDelays, WState.base, this]

theorem tickDelaysW_ok (c : Cfg) (s : WState) (h : RefAll s.banks) : RefAll (tickDelaysW c s).banks := by
  intro b' hb'
  obtain ⟨b, hb, rfl⟩ := List.mem_map.1 hb'
  exact delayW_ok c b (h b hb)

theorem dispatchW_base (c : Cfg) (s : WState) (h : RefAll s.banks) : (dispatchW c s).base = dispatch c s.base := by
  obtain ⟨e, _⟩ := dispatch_foldW c s.pending (s.banks, []) h
  simp only [dispatchW, dispatch, WState.base]
  simp only at e
  rw [← e]

theorem dispatchW_ok (c : Cfg) (s : WState) (h : RefAll s.banks) : RefAll (dispatchW c s).banks :=
  (dispatch_foldW c s.pending (s.banks, []) h).2

theorem drainTopW_base (s : WState) : (drainTopW s).base = drainTop s.base := rfl

/-! ### the tick -/

theorem tickW_spec (c : Cfg) (s : WState) (h : RefAll s.banks) :
    (tickW c s).base = tick c s.base ∧ RefAll (tickW c s).banks := by
  obtain ⟨a1, a2, _, a4, _⟩ := finalizeW_spec c s h
  have p := tickPipesW_ok c _ a4
  have d := tickDelaysW_ok c _ p
  have e3 : (tickDelaysW c (tickPipesW c (finalizeW c s).st)).base = tickDelays c (tickPipes c (finalize c s.base).1) := by
    rw [tickDelaysW_base c _ p, tickPipesW_base, a1]
  have e3p : (tickDelaysW c (tickPipesW c (finalizeW c s).st)).pending
      = (tickDelays c (tickPipes c (finalize c s.base).1)).pending := by rw [← e3]; rfl
  unfold tickW tick
  simp only
  rw [← a2, ← e3p]
  by_cases hf : (finalizeW c s).fault.isSome = true
  · rw [if_pos hf, if_pos hf]; exact ⟨a1, a4⟩
  · rw [if_neg hf, if_neg hf]
    by_cases hc : convFault c (tickDelaysW c (tickPipesW c (finalizeW c s).st)).pending = true
    · rw [if_pos hc, if_pos hc]; exact ⟨e3, d⟩
    · rw [if_neg hc, if_neg hc, ← e3, ← dispatchW_base c _ d]
      exact ⟨rfl, dispatchW_ok c _ d⟩

theorem tickFlagsW_spec (c : Cfg) (s : WState) (h : RefAll s.banks) :
    (tickFlagsW c s).1 = (tickFlags c s.base).1 ∧ (tickFlagsW c s).2.isSome = (tickFlags c s.base).2 := by
  obtain ⟨a1, a2, a3, a4, _⟩ := finalizeW_spec c s h
  have p := tickPipesW_ok c _ a4
  have d := tickDelaysW_ok c _ p
  have e2 : (tickPipesW c (finalizeW c s).st).base = tickPipes c (finalize c s.base).1 := by
    rw [tickPipesW_base, a1]
  have e3 : (tickDelaysW c (tickPipesW c (finalizeW c s).st)).base = tickDelays c (tickPipes c (finalize c s.base).1) := by
    rw [tickDelaysW_base c _ p, e2]
  have e3p : (tickDelaysW c (tickPipesW c (finalizeW c s).st)).pending
      = (tickDelays c (tickPipes c (finalize c s.base).1)).pending := by rw [← e3]; rfl
  have e4 : (dispatchW c (tickDelaysW c (tickPipesW c (finalizeW c s).st))).base
      = dispatch c (tickDelays c (tickPipes c (finalize c s.base).1)) := by
    rw [dispatchW_base c _ d, e3]
  unfold tickFlagsW tickFlags
  simp only
  rw [← a2, ← e3p]
  by_cases hf : (finalizeW c s).fault.isSome = true
  · rw [if_pos hf, if_pos hf]; exact ⟨rfl, hf⟩
  · rw [if_neg hf, if_neg hf]
    by_cases hc : convFault c (tickDelaysW c (tickPipesW c (finalizeW c s).st)).pending = true
    · rw [if_pos hc, if_pos hc]; exact ⟨rfl, rfl⟩
    · rw [if_neg hc, if_neg hc]
      refine ⟨?_, rfl⟩
      have q1 : (finalizeW c s).prog = decide (s.base.resp.length < (finalize c s.base).1.resp.length) := by
        rw [a3]; rfl
      have q2 : decide ((tickPipesW c (finalizeW c s).st).banks ≠ (finalizeW c s).st.banks)
          = decide ((tickPipes c (finalize c s.base).1).banks ≠ (finalize c s.base).1.banks) := by
        rw [← e2, ← a1]
        apply decide_eq_decide.2
        constructor
        · intro hne he; exact hne (base_inj _ _ p a4 he)
        · intro hne he; apply hne; show List.map _ _ = List.map _ _; rw [he]
      have q3 : ((tickPipesW c (finalizeW c s).st).banks.any fun b => !b.dq.isEmpty)
          = ((tickPipes c (finalize c s.base).1).banks.any fun b => !b.dq.isEmpty) := by
        rw [← e2]
        show _ = (List.map _ _).any _
        rw [List.any_map]; rfl
      have q4 : decide ((dispatchW c (tickDelaysW c (tickPipesW c (finalizeW c s).st))).pending.length
            < (tickDelaysW c (tickPipesW c (finalizeW c s).st)).pending.length)
          = decide ((dispatch c (tickDelays c (tickPipes c (finalize c s.base).1))).pending.length
            < (tickDelays c (tickPipes c (finalize c s.base).1)).pending.length) := by
        rw [← e4, ← e3]; rfl
      have q5 : (!(dispatchW c (tickDelaysW c (tickPipesW c (finalizeW c s).st))).topIn.isEmpty)
          = (!(dispatch c (tickDelays c (tickPipes c (finalize c s.base).1))).topIn.isEmpty) := by
        rw [← e4]; rfl
      simp only
      rw [q1, q2, q3, q4, q5, e3p]

/-! ### runs -/

theorem deliverW_spec (c : Cfg) (s : WState) (kind : Kind) (addr len : Nat) (data : List Nat) (mask : Option (List Bool))
    (h : RefAll s.banks) :
    (deliverW c s kind addr len data mask).base = deliver c s.base kind addr len data mask ∧
    RefAll (deliverW c s kind addr len data mask).banks := by
  unfold deliverW deliver
  by_cases ht : s.topIn.length < c.top
  · have ht' : s.base.topIn.length < c.top := ht
    rw [if_pos ht, if_pos ht']; exact ⟨rfl, h⟩
  · have ht' : ¬ s.base.topIn.length < c.top := ht
    rw [if_neg ht, if_neg ht']; exact ⟨rfl, h⟩

theorem stepW_spec (c : Cfg) (s : WState) (op : Op) (h : RefAll s.banks) :
    (stepW c s op).base = step c s.base op ∧ RefAll (stepW c s op).banks := by
  cases op with
  | deliver k a l d m => exact deliverW_spec c s k a l d m h
  | tick => exact tickW_spec c s h
  | out k => exact ⟨rfl, h⟩

theorem foldW_spec (c : Cfg) : ∀ (ops : List Op) (s : WState), RefAll s.banks →
    (ops.foldl (stepW c) s).base = ops.foldl (step c) s.base ∧ RefAll (ops.foldl (stepW c) s).banks := by
  intro ops
  induction ops with
  | nil => intro s h; exact ⟨rfl, h⟩
  | cons o os ih =>
    intro s h
    obtain ⟨e, ok⟩ := stepW_spec c s o h
    simp only [List.foldl_cons]
    rw [← e]
    exact ih _ ok

theorem initW_spec (c : Cfg) (hw : c.width = 1) : (initW c).base = init c ∧ RefAll (initW c).banks := by
  constructor
  · simp only [initW, init, WState.base, List.map_replicate]
    rfl
  · intro b hb
    have := (List.mem_replicate.1 hb).2
    subst this
    exact ⟨rfl, ⟨List.replicate c.depth none, by simp [emptyBankW, hw]⟩, by simp [emptyBankW, hw, laneItems_replicate]⟩

theorem runW_ok (c : Cfg) (hw : c.width = 1) (ops : List Op) : RefAll (runW c ops).banks :=
  (foldW_spec c ops (initW c) (initW_spec c hw).2).2

theorem w1_refines (c : Cfg) (hw : c.width = 1) (ops : List Op) : (runW c ops).base = run c ops := by
  unfold runW run
  rw [(foldW_spec c ops (initW c) (initW_spec c hw).2).1, (initW_spec c hw).1]

theorem w1_never_sets_aside (c : Cfg) (hw : c.width = 1) (ops : List Op) : ∀ b ∈ (runW c ops).banks, b.early = [] :=
  fun b hb => (runW_ok c hw ops b hb).1

theorem w1_flags (c : Cfg) (hw : c.width = 1) (ops : List Op) :
    (tickFlagsW c (runW c ops)).1 = (tickFlags c (run c ops)).1 ∧
    (tickFlagsW c (runW c ops)).2.isSome = (tickFlags c (run c ops)).2 := by
  rw [← w1_refines c hw ops]
  exact tickFlagsW_spec c _ (runW_ok c hw ops)

end C17
