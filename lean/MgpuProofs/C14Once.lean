import MgpuProofs.C14Run
/-! # C14 — the work-group completion message is sent at most once, and only when the whole
group has ended (repaired code, every legal schedule, arbitrary back-pressure) -/
namespace C14

/-- every wavefront of group `g` has ended -/
def allC (g : Nat) (wfs : List Wf) : Prop := ∀ v ∈ wfs, v.wg = g → v.state = .completed

/-- completion-message invariant -/
def CInv (s : State) : Prop := s.sent.Nodup ∧ ∀ g ∈ s.sent, allC g s.wfs

theorem allC_upd {wfs : List Wf} {i g : Nat} {w : Wf} (f : Wf → Wf)
    (hids : wfs.Pairwise (fun a b => a.id ≠ b.id)) (hw : w ∈ wfs) (hi : w.id = i)
    (hnc : w.state ≠ .completed) (hwg : ∀ v, (f v).wg = v.wg) (h : allC g wfs) : allC g (updWf wfs i f) := by
  intro v' hv' hg
  obtain ⟨v, hv, rfl⟩ := mem_updWf.mp hv'
  by_cases hvi : v.id = i
  · rw [if_pos hvi] at hg
    rw [hwg] at hg
    have : v = w := uniq hids hv hw (hvi.trans hi.symm)
    subst this
    exact absurd (h v hv hg) hnc
  · rw [if_neg hvi] at hg ⊢
    exact h v hv hg

theorem allC_map_same {wfs : List Wf} {g : Nat} (F : Wf → Wf) (hwg : ∀ v, (F v).wg = v.wg)
    (hst : ∀ v, v.state = .completed → (F v).state = .completed) (h : allC g wfs) : allC g (wfs.map F) := by
  intro v' hv' hg
  obtain ⟨v, hv, rfl⟩ := List.mem_map.mp hv'
  rw [hwg] at hg
  exact hst v (h v hv hg)

theorem release_completed (g : Nat) (v : Wf) (h : v.state = .completed) : (release g v).state = .completed := by
  rw [release_miss g v (Or.inr h)]; exact h

/-- what one evaluated instruction does to the message log and to ended groups -/
def SentStep (s : State) (w : Wf) (s' : State) : Prop :=
  (s'.sent = s.sent ∧ ∀ g, allC g s.wfs → allC g s'.wfs) ∨
  (s'.sent = s.sent ++ [w.wg] ∧ ¬ allC w.wg s.wfs ∧ allC w.wg s'.wfs ∧ ∀ g, allC g s.wfs → allC g s'.wfs)

theorem evalInst_sent {c : Cfg} {s : State} {i : Nat} {w : Wf}
    (hids : s.wfs.Pairwise (fun a b => a.id ≠ b.id)) (hw : w ∈ s.wfs) (hi : w.id = i) (hg : Good w) :
    SentStep s w (evalInst c s w).s := by
  have hnc := good_not_completed hg
  have upd : ∀ (f : Wf → Wf), (∀ v, (f v).wg = v.wg) → ∀ g, allC g s.wfs → allC g (updWf s.wfs w.id f) :=
    fun f hf g h => allC_upd f hids hw rfl hnc hf h
  unfold evalInst
  split
  · unfold evalSEndPgm
    split
    · exact Or.inl ⟨rfl, fun _ h => h⟩
    · split
      · rename_i hoth
        split
        · right
          refine ⟨rfl, fun h => hnc (h w hw rfl), ?_, ?_⟩
          · intro v' hv' hgv
            simp only [clearPool, List.mem_map] at hv'
            obtain ⟨v1, hv1, rfl⟩ := hv'
            obtain ⟨v, hv, rfl⟩ := mem_updWf.mp hv1
            simp only [othersCompleted, List.all_eq_true, Bool.or_eq_true, beq_iff_eq, bne_iff_ne] at hoth
            have hvg : v.wg = w.wg := by
              by_cases h1 : v.id = w.id <;> by_cases h2 : v.wg = w.wg <;> simp_all [complete]
            by_cases h1 : v.id = w.id
            · simp [h1, hvg, complete]
            · rcases hoth v hv with (hh | hh) | hh
              · exact absurd hh h1
              · exact absurd hvg hh
              · simp [h1, hvg, hh]
          · intro g h
            exact allC_map_same _ (fun v => by split <;> rfl) (fun v hv => by split <;> exact hv)
              (upd complete (fun _ => rfl) g h)
        · exact Or.inl ⟨rfl, fun _ h => h⟩
      · split
        · left
          refine ⟨rfl, fun g h => ?_⟩
          have h1 : allC g (s.wfs.map (release w.wg)) :=
            allC_map_same _ (release_wg _) (release_completed _) h
          have hids1 := ids_map hids (release w.wg) (release_id _)
          have hw1 : release w.wg w ∈ s.wfs.map (release w.wg) := List.mem_map.mpr ⟨w, hw, rfl⟩
          have hnc1 : (release w.wg w).state ≠ .completed := by
            rw [(release_hit w.wg w rfl hnc).1]; decide
          exact allC_upd complete hids1 hw1 (release_id _ _) hnc1 (fun _ => rfl) h1
        · split
          · exact Or.inl ⟨rfl, upd complete (fun _ => rfl)⟩
          · exact Or.inl ⟨rfl, fun _ h => h⟩
  · split
    · unfold evalSBarrier
      simp only
      split
      · left
        refine ⟨rfl, fun g h => ?_⟩
        exact allC_map_same _ (release_wg _) (release_completed _) (upd park (fun _ => rfl) g h)
      · split
        · exact Or.inl ⟨rfl, upd park (fun _ => rfl)⟩
        · exact Or.inl ⟨rfl, upd park (fun _ => rfl)⟩
    · split
      · unfold evalSWaitCnt
        split
        · exact Or.inl ⟨rfl, fun _ h => h⟩
        · exact Or.inl ⟨rfl, upd setReady (fun _ => rfl)⟩
      · exact Or.inl ⟨rfl, upd setReady (fun _ => rfl)⟩

theorem finishOne_sent (i g : Nat) (e : Ev) : (finishOne i g e).sent = e.s.sent ∧ (finishOne i g e).wfs = e.s.wfs := by
  unfold finishOne
  simp only
  split <;> split <;> exact ⟨rfl, rfl⟩

theorem CInv_step {s s' : State} {w : Wf} (h : CInv s) (hs : SentStep s w s') : CInv s' := by
  rcases hs with ⟨h1, h2⟩ | ⟨h1, h2, h3, h4⟩
  · constructor
    · rw [h1]; exact h.1
    · intro g hg; rw [h1] at hg; exact h2 g (h.2 g hg)
  · constructor
    · rw [h1, List.nodup_append]
      refine ⟨h.1, by simp, ?_⟩
      intro a ha b hb hab
      have : b = w.wg := by simpa using hb
      exact h2 (h.2 w.wg (by rw [← this, ← hab]; exact ha))
    · intro g hg
      rw [h1, List.mem_append] at hg
      rcases hg with hg | hg
      · exact h4 g (h.2 g hg)
      · have : g = w.wg := by simpa using hg
        rw [this]; exact h3

theorem evalOne_CInv {c : Cfg} (hB : c.fixB = true) {sp : State × Bool} {i : Nat} {rem : List Nat}
    (h : LInv sp.1 (i :: rem)) (hc : CInv sp.1) : CInv (evalOne c sp i).1 := by
  unfold evalOne
  split
  · exact hc
  · split
    · exact hc
    · rename_i w hget
      obtain ⟨hw, hi⟩ := getWf_some hget
      split
      · exact hc
      · rename_i hnr
        have hnready : w.state ≠ .ready := by
          intro hr; apply hnr; simp [hB, hr]
        have hg : Good w := by
          rcases h.remSt w hw (by rw [hi]; exact List.mem_cons_self) with hg | hr
          · exact hg
          · exact absurd hr hnready
        have hs := evalInst_sent (c := c) h.ids hw hi hg
        have hf := finishOne_sent i w.wg (evalInst c sp.1 w)
        have hs' : SentStep sp.1 w (finishOne i w.wg (evalInst c sp.1 w)) := by
          unfold SentStep at hs ⊢
          rw [hf.1, hf.2]; exact hs
        exact CInv_step hc hs'

theorem foldl_CInv {c : Cfg} (hA : c.fixA = true) (hB : c.fixB = true) (l : List Nat) (sp : State × Bool)
    (h : LInv sp.1 l) (hc : CInv sp.1) : CInv (l.foldl (evalOne c) sp).1 := by
  induction l generalizing sp with
  | nil => exact hc
  | cons i l ih => exact ih _ (evalOne_LInv hA hB h) (evalOne_CInv hB h hc)

theorem evalInternal_CInv {c : Cfg} (hA : c.fixA = true) (hB : c.fixB = true) {s : State} (h : Inv s)
    (hc : CInv s) : CInv (evalInternal c s).1 := by
  unfold evalInternal
  apply foldl_CInv hA hB
  · constructor
    · exact h.ids
    · exact h.nofault
    · intro w _ hin; cases hin
    · intro w hw hin; exact Or.inl (h.execSt w hw hin)
    · have := h.nodup; simpa using this
    · exact h.ghost
    · exact h.bars
  · exact hc

/-- an update of one not-yet-ended wavefront keeps the message invariant -/
theorem CInv_upd {s s' : State} {i : Nat} {w : Wf} (f : Wf → Wf) (h : Inv s) (hc : CInv s) (hw : w ∈ s.wfs)
    (hi : w.id = i) (hnc : w.state ≠ .completed) (hwg : ∀ v, (f v).wg = v.wg)
    (h1 : s'.wfs = updWf s.wfs i f) (h2 : s'.sent = s.sent) : CInv s' := by
  constructor
  · rw [h2]; exact hc.1
  · intro g hg; rw [h2] at hg; rw [h1]
    exact allC_upd f h.ids hw hi hnc hwg (hc.2 g hg)

theorem CInv_same {s s' : State} (F : Wf → Wf) (hc : CInv s) (hwg : ∀ v, (F v).wg = v.wg)
    (hst : ∀ v, (F v).state = v.state) (h1 : s'.wfs = s.wfs.map F) (h2 : s'.sent = s.sent) : CInv s' := by
  constructor
  · rw [h2]; exact hc.1
  · intro g hg; rw [h2] at hg; rw [h1]
    exact allC_map_same F hwg (fun v hv => by rw [hst]; exact hv) (hc.2 g hg)

theorem step_CInv {c : Cfg} (hA : c.fixA = true) (hB : c.fixB = true) {s : State} {o : Op} (h : Inv s)
    (hc : CInv s) (hl : legal s o = true) : CInv (step c s o).1 := by
  cases o with
  | eval => exact evalInternal_CInv hA hB h hc
  | wfComp i => simp [legal] at hl
  | drain k => exact ⟨hc.1, hc.2⟩
  | memIssue i v =>
    refine CInv_same (fun w => if w.id = i then
        (if v then { w with osc := w.osc + 1, ovc := w.ovc + 1 } else { w with osc := w.osc + 1 }) else w)
      hc ?_ ?_ rfl rfl
    all_goals
      intro w
      split
      · split <;> rfl
      · rfl
  | memRet i k l =>
    refine CInv_same (fun w => if w.id = i then memRetWf k l w else w) hc ?_ ?_ rfl rfl
    · intro w
      split
      · exact (memRetWf_fields k l w).2.1
      · rfl
    · intro w
      split
      · exact (memRetWf_fields k l w).2.2.1
      · rfl
  | issue i op lk vm =>
    simp only [legal, Bool.and_eq_true, List.any_eq_true, List.all_eq_true, beq_iff_eq, Bool.or_eq_true,
      bne_iff_ne] at hl
    obtain ⟨⟨w, hw, hi⟩, hall⟩ := hl
    have hr : w.state = .ready := by
      rcases hall w hw with hh | hh
      · exact absurd hi hh
      · exact hh
    exact CInv_upd (issueWf op lk vm) h hc hw hi (by rw [hr]; decide) (fun _ => rfl) rfl rfl
  | issueUnit i =>
    simp only [legal, Bool.and_eq_true, List.any_eq_true, List.all_eq_true, beq_iff_eq, Bool.or_eq_true,
      bne_iff_ne] at hl
    obtain ⟨⟨w, hw, hi⟩, hall⟩ := hl
    have hr : w.state = .ready := by
      rcases hall w hw with hh | hh
      · exact absurd hi hh
      · exact hh
    exact CInv_upd (fun w => { w with state := .running, op := 99, lk := 0, vm := 0 }) h hc hw hi
      (by rw [hr]; decide) (fun _ => rfl) rfl rfl
  | unitDone i =>
    simp only [legal, Bool.and_eq_true, List.any_eq_true, List.all_eq_true, beq_iff_eq, Bool.or_eq_true,
      bne_iff_ne, Bool.not_eq_true', List.contains_eq_mem, decide_eq_false_iff_not] at hl
    obtain ⟨⟨⟨w, hw, hi⟩, hall⟩, _⟩ := hl
    have hr : w.state = .running ∧ w.op ≠ 10 := by
      rcases hall w hw with hh | hh
      · exact absurd hi hh
      · exact hh
    exact CInv_upd setReady h hc hw hi (by rw [hr.1]; decide) (fun _ => rfl) rfl rfl

theorem run_CInv {c : Cfg} (hA : c.fixA = true) (hB : c.fixB = true) (ops : List Op) {s : State} (h : Inv s)
    (hc : CInv s) (hl : legalRun c s ops = true) : CInv (run c s ops) := by
  unfold run
  induction ops generalizing s with
  | nil => exact hc
  | cons o ops ih =>
    simp only [legalRun, Bool.and_eq_true] at hl
    exact ih (step_Inv hA hB h hl.1) (step_CInv hA hB h hc hl.1) hl.2

end C14
