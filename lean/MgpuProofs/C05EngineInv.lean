import MgpuProofs.C05Heap
/-!
# C05.Eng — the invariant of Akita's `SerialEngine`

`EInv`: both queues are min-heaps on time, primary events sit in `queue` and secondary events in
`secondaryQueue`, nothing queued lies in the past, events were handled in non-decreasing time order,
and every event `Schedule` accepted is handled or queued exactly once.

It holds initially, is kept by `Schedule` and by an iteration of `Run` (`einv_reach`), makes the
"cannot run event in the past" panic of `Run` dead (`run_guard_dead`), and `nextEvent` returns a
minimum of everything queued, a secondary event only when every primary one is strictly later
(`nextEvent_spec`).
-/
namespace C05
namespace Eng

/-! ## the operator tokens (each breaks when the regenerated token changes) -/

theorem scheduleReject_eq (a b : Nat) : cmp Gen.C05Engine.scheduleReject a b = decide (a < b) := by
  simp [cmp, Gen.C05Engine.scheduleReject]

theorem runReject_eq (a b : Nat) : cmp Gen.C05Engine.runReject a b = decide (a < b) := by
  simp [cmp, Gen.C05Engine.runReject]

theorem primaryFirst_eq (a b : Nat) : cmp Gen.C05Engine.nextEventPrimaryFirst a b = decide (a ≤ b) := by
  simp [cmp, Gen.C05Engine.nextEventPrimaryFirst]

structure EInv (s : St) : Prop where
  hq : HeapInv s.q
  hsq : HeapInv s.sq
  prim : ∀ e ∈ s.q, e.sec = false
  secd : ∀ e ∈ s.sq, e.sec = true
  /-- no queued event lies in the past -/
  ge : ∀ e ∈ s.q ++ s.sq, s.now ≤ e.time
  /-- events were handled in non-decreasing time order, none after `now` -/
  mono : (s.handled.map (·.time)).Pairwise (· ≤ ·)
  last : ∀ e ∈ s.handled, e.time ≤ s.now
  /-- conservation: every event Schedule accepted is either handled or still queued, exactly once -/
  cons : s.sched.Perm (s.handled ++ (s.q ++ s.sq))

theorem einv_init : EInv ({} : St) where
  hq := heapInv_nil
  hsq := heapInv_nil
  prim := by intro e he; cases he
  secd := by intro e he; cases he
  ge := by intro e he; cases he
  mono := List.Pairwise.nil
  last := by intro e he; cases he
  cons := List.Perm.refl _

/-! ## `Schedule` -/

theorem schedule_cases {s s' : St} {e : Ev} (hs : schedule s e = some s') :
    s.now ≤ e.time ∧
      ((e.sec = true ∧ s' = { s with sq := push s.sq e, sched := s.sched ++ [e] }) ∨
       (e.sec = false ∧ s' = { s with q := push s.q e, sched := s.sched ++ [e] })) := by
  unfold schedule at hs
  rw [scheduleReject_eq] at hs
  by_cases hlt : e.time < s.now
  · simp [hlt] at hs
  · rw [decide_eq_false hlt] at hs
    simp only [Bool.false_eq_true, if_false] at hs
    refine ⟨by omega, ?_⟩
    cases hsec : e.sec
    · right
      rw [hsec] at hs
      simp only [Bool.false_eq_true, if_false, Option.some.injEq] at hs
      exact ⟨rfl, hs.symm⟩
    · left
      rw [hsec] at hs
      simp only [if_true, Option.some.injEq] at hs
      exact ⟨rfl, hs.symm⟩

theorem schedule_now {s s' : St} {e : Ev} (hs : schedule s e = some s') :
    s'.now = s.now ∧ s'.handled = s.handled := by
  obtain ⟨_, hc⟩ := schedule_cases hs
  rcases hc with ⟨_, rfl⟩ | ⟨_, rfl⟩ <;> exact ⟨rfl, rfl⟩

theorem einv_schedule {s s' : St} {e : Ev} (h : EInv s) (hs : schedule s e = some s') : EInv s' := by
  obtain ⟨hnow, hc⟩ := schedule_cases hs
  have p1 : (s.sched ++ [e]).Perm (e :: (s.handled ++ (s.q ++ s.sq))) :=
    (List.perm_append_singleton e _).trans (h.cons.cons e)
  rcases hc with ⟨hsec, rfl⟩ | ⟨hsec, rfl⟩
  · have hp := push_perm s.sq e
    exact {
      hq := h.hq
      hsq := push_inv _ _ h.hsq
      prim := h.prim
      secd := by
        intro x hx
        rcases List.mem_cons.1 (hp.mem_iff.1 hx) with hxe | hx'
        · rw [hxe]; exact hsec
        · exact h.secd x hx'
      ge := by
        intro x hx
        show s.now ≤ x.time
        rcases List.mem_append.1 hx with hx | hx
        · exact h.ge x (List.mem_append_left _ hx)
        · rcases List.mem_cons.1 (hp.mem_iff.1 hx) with hxe | hx'
          · rw [hxe]; exact hnow
          · exact h.ge x (List.mem_append_right _ hx')
      mono := h.mono
      last := h.last
      cons := by
        show (s.sched ++ [e]).Perm (s.handled ++ (s.q ++ push s.sq e))
        have p2 : (s.handled ++ (s.q ++ push s.sq e)).Perm (s.handled ++ (s.q ++ e :: s.sq)) :=
          (hp.append_left s.q).append_left s.handled
        have p3 : (s.handled ++ (s.q ++ e :: s.sq)).Perm (e :: (s.handled ++ (s.q ++ s.sq))) := by
          rw [← List.append_assoc, ← List.append_assoc]; exact List.perm_middle
        exact p1.trans (p2.trans p3).symm }
  · have hp := push_perm s.q e
    exact {
      hq := push_inv _ _ h.hq
      hsq := h.hsq
      prim := by
        intro x hx
        rcases List.mem_cons.1 (hp.mem_iff.1 hx) with hxe | hx'
        · rw [hxe]; exact hsec
        · exact h.prim x hx'
      secd := h.secd
      ge := by
        intro x hx
        show s.now ≤ x.time
        rcases List.mem_append.1 hx with hx | hx
        · rcases List.mem_cons.1 (hp.mem_iff.1 hx) with hxe | hx'
          · rw [hxe]; exact hnow
          · exact h.ge x (List.mem_append_left _ hx')
        · exact h.ge x (List.mem_append_right _ hx)
      mono := h.mono
      last := h.last
      cons := by
        show (s.sched ++ [e]).Perm (s.handled ++ (push s.q e ++ s.sq))
        have p2 : (s.handled ++ (push s.q e ++ s.sq)).Perm (s.handled ++ (e :: s.q ++ s.sq)) :=
          (hp.append_right s.sq).append_left s.handled
        have p3 : (s.handled ++ (e :: s.q ++ s.sq)).Perm (e :: (s.handled ++ (s.q ++ s.sq))) :=
          List.perm_middle
        exact p1.trans (p2.trans p3).symm }

theorem einv_scheduleAll {s s' : St} (fs : List Follow) (h : EInv s) (hs : scheduleAll s fs = (s', true)) :
    EInv s' := by
  induction fs generalizing s with
  | nil =>
    unfold scheduleAll at hs
    injection hs with h1 _
    rw [← h1]; exact h
  | cons f fs ih =>
    unfold scheduleAll at hs
    cases hsch : schedule s (mkEv s.now f) with
    | none => rw [hsch] at hs; injection hs with _ h2; cases h2
    | some s1 => rw [hsch] at hs; exact ih (einv_schedule h hsch) hs

/-! ## `nextEvent` -/

theorem ne_nil_of_isEmpty_false {l : Heap} (h : l.isEmpty = false) : l ≠ [] := by
  intro c; subst c; cases h

theorem eq_nil_of_isEmpty {l : Heap} (h : l.isEmpty = true) : l = [] := by
  cases l with
  | nil => rfl
  | cons a l => cases h

/-- which queue `nextEvent` pops -/
theorem nextEvent_cases {s : St} (hne : noMoreEvent s = false) :
    (nextEvent s = (pop s.q).map (fun r => (r.1, { s with q := r.2 })) ∧ s.q ≠ [] ∧
        (s.sq = [] ∨ (nth s.q 0).time ≤ (nth s.sq 0).time)) ∨
    (nextEvent s = (pop s.sq).map (fun r => (r.1, { s with sq := r.2 })) ∧ s.sq ≠ [] ∧
        (s.q = [] ∨ (nth s.sq 0).time < (nth s.q 0).time)) := by
  unfold noMoreEvent at hne
  unfold nextEvent
  rw [primaryFirst_eq]
  cases hq : s.q.isEmpty
  · cases hsq : s.sq.isEmpty
    · simp only [Bool.false_eq_true, if_false]
      by_cases hle : (nth s.q 0).time ≤ (nth s.sq 0).time
      · left
        rw [decide_eq_true hle]
        exact ⟨rfl, ne_nil_of_isEmpty_false hq, Or.inr hle⟩
      · right
        rw [decide_eq_false hle]
        exact ⟨rfl, ne_nil_of_isEmpty_false hsq, Or.inr (by omega)⟩
    · left
      simp only [Bool.false_eq_true, if_false, if_true]
      exact ⟨trivial, ne_nil_of_isEmpty_false hq, Or.inl (eq_nil_of_isEmpty hsq)⟩
  · right
    simp only [if_true]
    rw [hq] at hne
    have hsq : s.sq.isEmpty = false := by simpa using hne
    exact ⟨trivial, ne_nil_of_isEmpty_false hsq, Or.inl (eq_nil_of_isEmpty hq)⟩

/-- what `nextEvent` returns on an invariant state with some event queued -/
theorem nextEvent_spec {s : St} (h : EInv s) (hne : noMoreEvent s = false) :
    ∃ e s1, nextEvent s = some (e, s1) ∧ s1.now = s.now ∧ s1.handled = s.handled ∧ s1.sched = s.sched ∧
      (s.q ++ s.sq).Perm (e :: (s1.q ++ s1.sq)) ∧ HeapInv s1.q ∧ HeapInv s1.sq ∧
      (∀ x ∈ s1.q, x.sec = false) ∧ (∀ x ∈ s1.sq, x.sec = true) ∧
      (∀ y ∈ s.q ++ s.sq, e.time ≤ y.time) ∧
      (e.sec = true → ∀ p ∈ s.q, e.time < p.time) := by
  rcases nextEvent_cases hne with ⟨hn, hqne, hcond⟩ | ⟨hn, hsqne, hcond⟩
  · obtain ⟨x, h', hp⟩ := pop_isSome hqne
    have hperm := pop_perm hp
    have hroot := pop_root hp
    refine ⟨x, { s with q := h' }, ?_, rfl, rfl, rfl, ?_, pop_inv h.hq hp, h.hsq, ?_, h.secd, ?_, ?_⟩
    · rw [hn, hp]; rfl
    · exact hperm.append_right s.sq
    · intro y hy; exact h.prim y (hperm.mem_iff.2 (List.mem_cons_of_mem _ hy))
    · intro y hy
      rcases List.mem_append.1 hy with hy | hy
      · exact pop_min h.hq hp y hy
      · rcases hcond with he | hle
        · rw [he] at hy; cases hy
        · have := root_min h.hsq y hy
          rw [hroot]; omega
    · intro hsec
      have hx : x.sec = false := h.prim x (hperm.mem_iff.2 (by simp))
      rw [hx] at hsec; cases hsec
  · obtain ⟨x, h', hp⟩ := pop_isSome hsqne
    have hperm := pop_perm hp
    have hroot := pop_root hp
    have hstrict : ∀ p ∈ s.q, x.time < p.time := by
      intro p hpq
      rcases hcond with he | hlt
      · rw [he] at hpq; cases hpq
      · have := root_min h.hq p hpq
        rw [hroot]; omega
    refine ⟨x, { s with sq := h' }, ?_, rfl, rfl, rfl, ?_, h.hq, pop_inv h.hsq hp, h.prim, ?_, ?_, ?_⟩
    · rw [hn, hp]; rfl
    · exact (hperm.append_left s.q).trans List.perm_middle
    · intro y hy; exact h.secd y (hperm.mem_iff.2 (List.mem_cons_of_mem _ hy))
    · intro y hy
      rcases List.mem_append.1 hy with hy | hy
      · exact Nat.le_of_lt (hstrict y hy)
      · exact pop_min h.hsq hp y hy
    · intro _; exact hstrict

/-- the panic "cannot run event in the past" of SerialEngine.Run is unreachable -/
theorem run_guard_dead {s : St} (h : EInv s) (hne : noMoreEvent s = false) :
    ∃ e s1, nextEvent s = some (e, s1) ∧ cmp Gen.C05Engine.runReject e.time s1.now = false := by
  obtain ⟨e, s1, hn, hnow, _, _, hperm, _⟩ := nextEvent_spec h hne
  refine ⟨e, s1, hn, ?_⟩
  have := h.ge e (hperm.mem_iff.2 (by simp))
  rw [runReject_eq, hnow]
  exact decide_eq_false (by omega)

/-! ## one iteration of `Run` -/

/-- the state in which the handler of `e` runs -/
theorem einv_mid {s s1 : St} {e : Ev} (h : EInv s) (hh : s1.handled = s.handled)
    (hsc : s1.sched = s.sched) (hperm : (s.q ++ s.sq).Perm (e :: (s1.q ++ s1.sq)))
    (hq : HeapInv s1.q) (hsq : HeapInv s1.sq)
    (hprim : ∀ x ∈ s1.q, x.sec = false) (hsecd : ∀ x ∈ s1.sq, x.sec = true)
    (hmin : ∀ y ∈ s.q ++ s.sq, e.time ≤ y.time) :
    EInv { s1 with now := e.time, handled := s1.handled ++ [e] } where
  hq := hq
  hsq := hsq
  prim := hprim
  secd := hsecd
  ge := by
    intro x hx
    exact hmin x (hperm.mem_iff.2 (List.mem_cons_of_mem _ hx))
  mono := by
    show ((s1.handled ++ [e]).map (·.time)).Pairwise (· ≤ ·)
    rw [List.map_append, List.pairwise_append]
    refine ⟨by rw [hh]; exact h.mono, by simp, ?_⟩
    intro a ha b hb
    rw [hh] at ha
    obtain ⟨x, hx, rfl⟩ := List.mem_map.1 ha
    have hb' : b = e.time := by simpa using hb
    have h1 := h.last x hx
    have h2 := h.ge e (hperm.mem_iff.2 (by simp))
    show x.time ≤ b
    omega
  last := by
    intro x hx
    show x.time ≤ e.time
    rw [hh] at hx
    rcases List.mem_append.1 hx with hx | hx
    · have h1 := h.last x hx
      have h2 := h.ge e (hperm.mem_iff.2 (by simp))
      omega
    · have : x = e := by simpa using hx
      rw [this]; exact Nat.le_refl _
  cons := by
    show s1.sched.Perm ((s1.handled ++ [e]) ++ (s1.q ++ s1.sq))
    rw [hsc, hh, List.append_assoc]
    exact h.cons.trans (hperm.append_left s.handled)

/-- `runStep` on an invariant state: the guard is passed and the handler runs in an invariant state -/
theorem runStep_eq (prog : Prog) {s : St} (h : EInv s) (hne : noMoreEvent s = false) :
    ∃ e s1, nextEvent s = some (e, s1) ∧
      (s.q ++ s.sq).Perm (e :: (s1.q ++ s1.sq)) ∧ s1.handled = s.handled ∧
      EInv { s1 with now := e.time, handled := s1.handled ++ [e] } ∧
      runStep prog s
        = scheduleAll { s1 with now := e.time, handled := s1.handled ++ [e] } (followsOf prog e.id) := by
  obtain ⟨e, s1, hn, hnow, hh, hsc, hperm, hq, hsq, hprim, hsecd, hmin, _⟩ := nextEvent_spec h hne
  refine ⟨e, s1, hn, hperm, hh, einv_mid h hh hsc hperm hq hsq hprim hsecd hmin, ?_⟩
  have hg : cmp Gen.C05Engine.runReject e.time s1.now = false := by
    have := h.ge e (hperm.mem_iff.2 (by simp))
    rw [runReject_eq, hnow]
    exact decide_eq_false (by omega)
  unfold runStep
  rw [hn]
  simp only [hg, Bool.false_eq_true, if_false]

theorem einv_runStep {prog : Prog} {s s' : St} (h : EInv s) (hne : noMoreEvent s = false)
    (hs : runStep prog s = (s', true)) : EInv s' := by
  obtain ⟨e, s1, _, _, _, hmid, heq⟩ := runStep_eq prog h hne
  rw [heq] at hs
  exact einv_scheduleAll _ hmid hs

theorem einv_reach {prog : Prog} {s : St} (h : Reach prog s) : EInv s := by
  induction h with
  | init => exact einv_init
  | sched e _ hs ih => exact einv_schedule ih hs
  | step _ hne hs ih => exact einv_runStep ih hne hs

/-! ## `Run` -/

/-- run-level: whatever the fuel and the outcome, `run` ends in an invariant state when it ends `.ok`/`.fuel` -/
theorem einv_run (prog : Prog) : ∀ (n : Nat) (s s' : St) (o : Outcome), EInv s → run prog n s = (s', o) →
    o ≠ .fault → EInv s' := by
  intro n
  induction n with
  | zero =>
    intro s s' o h hr _
    unfold run at hr
    injection hr with h1 _
    rw [← h1]; exact h
  | succ n ih =>
    intro s s' o h hr ho
    unfold run at hr
    cases hne : noMoreEvent s
    · rw [hne] at hr
      simp only [Bool.false_eq_true, if_false] at hr
      rcases hstep : runStep prog s with ⟨s1, b⟩
      rw [hstep] at hr
      cases b
      · simp only at hr
        injection hr with _ h2
        exact absurd h2.symm ho
      · simp only at hr
        exact ih s1 s' o (einv_runStep h hne hstep) hr ho
    · rw [hne] at hr
      simp only [if_true] at hr
      injection hr with h1 _
      rw [← h1]; exact h

theorem run_ok_rest (prog : Prog) : ∀ (n : Nat) (s s' : St), run prog n s = (s', .ok) → noMoreEvent s' = true := by
  intro n
  induction n with
  | zero =>
    intro s s' hr
    unfold run at hr
    cases hne : noMoreEvent s
    · rw [hne] at hr
      simp only [Bool.false_eq_true, if_false] at hr
      injection hr with _ h2
      cases h2
    · injection hr with h1 _
      rw [← h1]; exact hne
  | succ n ih =>
    intro s s' hr
    unfold run at hr
    cases hne : noMoreEvent s
    · rw [hne] at hr
      simp only [Bool.false_eq_true, if_false] at hr
      rcases hstep : runStep prog s with ⟨s1, b⟩
      rw [hstep] at hr
      cases b
      · simp only at hr
        injection hr with _ h2
        cases h2
      · simp only at hr
        exact ih s1 s' hr
    · rw [hne] at hr
      simp only [if_true] at hr
      injection hr with h1 _
      rw [← h1]; exact hne

theorem noMoreEvent_of_length {s : St} (h : s.q.length + s.sq.length = 0) : noMoreEvent s = true := by
  have h1 : s.q = [] := List.eq_nil_of_length_eq_zero (by omega)
  have h2 : s.sq = [] := List.eq_nil_of_length_eq_zero (by omega)
  unfold noMoreEvent; rw [h1, h2]; rfl

theorem noMoreEvent_false_of_length {s : St} (h : 0 < s.q.length + s.sq.length) : noMoreEvent s = false := by
  cases hne : noMoreEvent s
  · rfl
  · unfold noMoreEvent at hne
    simp only [Bool.and_eq_true] at hne
    have h1 := eq_nil_of_isEmpty hne.1
    have h2 := eq_nil_of_isEmpty hne.2
    rw [h1, h2] at h
    simp at h

theorem run_drains_aux : ∀ (m : Nat) (s : St), EInv s → s.q.length + s.sq.length = m →
    ∃ s', run [] m s = (s', .ok) ∧ s'.handled.Perm (s.handled ++ (s.q ++ s.sq)) := by
  intro m
  induction m with
  | zero =>
    intro s _ hm
    refine ⟨s, ?_, ?_⟩
    · unfold run; rw [noMoreEvent_of_length hm]; rfl
    · have h1 : s.q = [] := List.eq_nil_of_length_eq_zero (by omega)
      have h2 : s.sq = [] := List.eq_nil_of_length_eq_zero (by omega)
      rw [h1, h2]; simp
  | succ m ih =>
    intro s h hm
    have hne := noMoreEvent_false_of_length (s := s) (by omega)
    obtain ⟨e, s1, _, hperm, hh, hmid, heq⟩ := runStep_eq [] h hne
    have hf : followsOf [] e.id = [] := rfl
    rw [hf] at heq
    have hsa : scheduleAll { s1 with now := e.time, handled := s1.handled ++ [e] } []
        = ({ s1 with now := e.time, handled := s1.handled ++ [e] }, true) := by
      unfold scheduleAll; rfl
    rw [hsa] at heq
    have hlen : s1.q.length + s1.sq.length = m := by
      have := hperm.length_eq
      simp only [List.length_append, List.length_cons] at this
      omega
    obtain ⟨s', hrun, hp⟩ := ih _ hmid hlen
    refine ⟨s', ?_, ?_⟩
    · rw [run, hne]
      simp only [Bool.false_eq_true, if_false]
      rw [heq]
      exact hrun
    · refine hp.trans ?_
      show ((s1.handled ++ [e]) ++ (s1.q ++ s1.sq)).Perm (s.handled ++ (s.q ++ s.sq))
      rw [hh, List.append_assoc]
      exact (hperm.append_left s.handled).symm

/-- liveness for handlers that schedule nothing: the queue length is a decreasing measure -/
theorem run_drains (s : St) (h : EInv s) :
    ∃ s', run [] (s.q.length + s.sq.length) s = (s', .ok) ∧ s'.handled.Perm (s.handled ++ (s.q ++ s.sq)) :=
  run_drains_aux _ s h rfl

end Eng
end C05
