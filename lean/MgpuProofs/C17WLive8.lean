import MgpuProofs.C17WLive7
/-! C17, liveness for every width, part 8: what a tick does to a bank whose `inOrder` is empty (the head of the bank's
chain waits in the delay queue, the pending list or the port buffer). -/
namespace C17
namespace WLive
open WBnd

theorem idle_of_good (c : Cfg) (b : WBank) (hg : Good c b) (ho : b.order = []) : WQuiet.IdleB b := by
  have h := hg.ord
  rw [ho] at h
  simp only [List.length_nil, Nat.le_zero_eq, Nat.add_eq_zero_iff] at h
  refine ⟨ho, List.eq_nil_of_length_eq_zero h.1.2, List.eq_nil_of_length_eq_zero h.1.1, ?_⟩
  intro l hl
  have : b.lanes.flatMap laneItems = [] := List.eq_nil_of_length_eq_zero h.2
  exact (List.flatMap_eq_nil_iff.1 this) l hl

theorem fin_idle (c : Cfg) (n : Nat) (b : WBank) (log : List Req) (out resp : List Rsp) (pg : Bool)
    (ho : b.order = []) : (finalizeBankW c (n + 1) b log out resp pg).bank = b := by
  simp only [finalizeBankW, ho]

theorem tickW_eq (c : Cfg) (s : WState) (hnf : (tickFlagsW c s).2 = none) :
    tickW c s = drainTopW (dispatchW c (tickDelaysW c (tickPipesW c (finalizeW c s).st))) := by
  unfold tickFlagsW at hnf
  unfold tickW
  dsimp only at hnf ⊢
  by_cases hf : (finalizeW c s).fault.isSome = true
  · rw [if_pos hf] at hnf
    dsimp only at hnf
    rw [hnf] at hf
    cases hf
  · rw [if_neg hf] at hnf ⊢
    by_cases hcv : convFault c (tickDelaysW c (tickPipesW c (finalizeW c s).st)).pending = true
    · rw [if_pos hcv] at hnf
      cases hnf
    · rw [if_neg hcv]

theorem finFromW_pending (c : Cfg) : ∀ (ks : List Nat) (s : WState) (pg : Bool),
    (finalizeFromW c ks s pg).st.pending = s.pending ∧ (finalizeFromW c ks s pg).st.topIn = s.topIn
  | [], _, _ => ⟨rfl, rfl⟩
  | k :: ks, s, pg => by
    have h1 : (finalizeAtW c s k pg).st.pending = s.pending ∧ (finalizeAtW c s k pg).st.topIn = s.topIn := by
      unfold finalizeAtW; split <;> exact ⟨rfl, rfl⟩
    simp only [finalizeFromW]
    split
    · exact h1
    · have h2 := finFromW_pending c ks (finalizeAtW c s k pg).st (finalizeAtW c s k pg).prog
      exact ⟨h2.1.trans h1.1, h2.2.trans h1.2⟩

theorem accW_order (c : Cfg) (it : Item) (b b' : WBank) (h : accW c it b = some b') :
    b'.order = b.order ++ [it.req] := by
  unfold accW at h
  split at h
  · cases ha : acceptLanes (it, c.lat - 1) b.lanes with
    | none => rw [ha] at h; simp at h
    | some ls' => rw [ha] at h; cases h; rfl
  · simp at h

theorem accStar_order (c : Cfg) {b b' : WBank} (h : AccStar c b b') : ∃ t, b'.order = b.order ++ t := by
  induction h with
  | refl b => exact ⟨[], by simp⟩
  | step it ha _ ih =>
    obtain ⟨t, ht⟩ := ih
    exact ⟨it.req :: t, by rw [ht, accW_order c it _ _ ha]; simp⟩
  | other _ _ _ ho _ ih =>
    obtain ⟨t, ht⟩ := ih
    exact ⟨t, by rw [ht, ho]⟩

/-! ### the delay queue of an idle bank -/

theorem delayGoW_rem (c : Cfg) : ∀ (dq : List (Item × Nat)) (b : WBank) (rem : List (Item × Nat)), rem ≠ [] →
    delayGoW c dq b rem = (b, rem ++ dq.map (fun p => (p.1, p.2 - 1)))
  | [], b, rem, _ => by simp [delayGoW]
  | (it, n) :: rest, b, rem, hne => by
    have hemp : rem.isEmpty = false := by cases rem with
      | nil => exact absurd rfl hne
      | cons _ _ => rfl
    simp only [delayGoW, hemp, Bool.false_eq_true, and_false, if_false]
    rw [delayGoW_rem c rest b _ (by simp)]
    simp

/-- the head of the delay queue of an idle bank whose counter has run out enters the pipeline -/
theorem delay_head_enter (c : Cfg) (hw : 0 < c.width) (hd0 : 0 < c.depth) (b : WBank) (hg : Good c b)
    (ho : b.order = []) (it : Item) (n : Nat) (rest : List (Item × Nat)) (hdq : b.dq = (it, n) :: rest)
    (hn : n - 1 = 0) : ∃ t, (tickBankDelayW c b).order = it.req :: t := by
  obtain ⟨b', hb'⟩ := WQuiet.accW_idle c it b hw hd0 hg.bnd (idle_of_good c b hg ho)
  have hord := accW_order c it b b' hb'
  rw [ho] at hord
  unfold tickBankDelayW
  rw [hdq]
  simp only [delayGoW, hn, List.isEmpty_nil, and_self, if_true, hb']
  obtain ⟨t, ht⟩ := accStar_order c (delayGoW_acc c rest b' [])
  exact ⟨t, by show (delayGoW c rest b' []).1.order = _; rw [ht, hord]; rfl⟩

/-- … otherwise it waits, one tick less to go, and nothing passes it -/
theorem delay_head_wait (c : Cfg) (b : WBank) (it : Item) (n : Nat) (rest : List (Item × Nat))
    (hdq : b.dq = (it, n) :: rest) (hn : ¬ n - 1 = 0) :
    (tickBankDelayW c b).order = b.order ∧ ∃ q, (tickBankDelayW c b).dq = (it, n - 1) :: q := by
  unfold tickBankDelayW
  rw [hdq]
  simp only [delayGoW, hn, false_and, if_false, List.nil_append]
  rw [delayGoW_rem c rest b _ (by simp)]
  exact ⟨rfl, ⟨_, rfl⟩⟩

/-! ### `dispatchPending` and bank `k` -/

theorem getElem?_set_self_of {α : Type} (l : List α) (k : Nat) (x y : α) (h : l[k]? = some y) :
    (l.set k x)[k]? = some x := by
  have hlt : k < l.length := by
    rcases Nat.lt_or_ge k l.length with h' | h'
    · exact h'
    · rw [List.getElem?_eq_none h'] at h; cases h
  simp [hlt]

/-- a request of another bank leaves bank `k` alone -/
theorem dispatchOneW_other (c : Cfg) (k : Nat) (st : List WBank × List Req) (r : Req) (hne : bankOf c r.addr ≠ k) :
    (dispatchOneW c st r).1[k]? = st.1[k]? := by
  unfold dispatchOneW
  cases hj : st.1[bankOf c r.addr]? with
  | none => rfl
  | some bb =>
    dsimp only
    cases hd : dispatchBankW c r bb with
    | none => rfl
    | some b'' => dsimp only; rw [List.getElem?_set_ne hne]

theorem fold_other (c : Cfg) (k : Nat) : ∀ (todo : List Req) (st : List WBank × List Req),
    (∀ r ∈ todo, bankOf c r.addr ≠ k) → (todo.foldl (dispatchOneW c) st).1[k]? = st.1[k]?
  | [], _, _ => rfl
  | r :: todo, st, h => by
    simp only [List.foldl_cons]
    rw [fold_other c k todo _ (fun x hx => h x (by simp [hx]))]
    exact dispatchOneW_other c k st r (h r (by simp))

theorem dispatchOneW_at (c : Cfg) (k : Nat) (st : List WBank × List Req) (r : Req) (b b' : WBank)
    (hr : bankOf c r.addr = k) (hb : st.1[k]? = some b) (hd : dispatchBankW c r b = some b') :
    (dispatchOneW c st r).1[k]? = some b' := by
  unfold dispatchOneW
  rw [hr, hb]
  dsimp only
  rw [hd]
  dsimp only
  exact getElem?_set_self_of _ _ _ _ hb

/-- bank `k` waits with an empty `inOrder` and `(it, m)` at the head of its delay queue: `dispatchPending` only appends -/
def Waiting (b : WBank) (it : Item) (m : Nat) : Prop := b.order = [] ∧ ∃ q, b.dq = (it, m) :: q

theorem dispatchOneW_waiting (c : Cfg) (hrm : rowMode c) (k : Nat) (st : List WBank × List Req) (r : Req) (b : WBank)
    (it : Item) (m : Nat) (hb : st.1[k]? = some b) (hwt : Waiting b it m) :
    ∃ b', (dispatchOneW c st r).1[k]? = some b' ∧ Waiting b' it m := by
  by_cases e : bankOf c r.addr = k
  · obtain ⟨ho, q, hq⟩ := hwt
    have hd : ∃ b', dispatchBankW c r b = some b' ∧ Waiting b' it m := by
      unfold dispatchBankW
      rw [if_pos (show c.row > 0 ∧ c.miss > 0 from hrm)]
      dsimp only
      split
      · rw [hq]
        simp only [List.isEmpty_cons, Bool.false_eq_true, if_false]
        exact ⟨_, rfl, ho, ⟨_, rfl⟩⟩
      · rw [hq]
        exact ⟨_, rfl, ho, ⟨_, rfl⟩⟩
    obtain ⟨b', hd1, hd2⟩ := hd
    exact ⟨b', dispatchOneW_at c k st r b b' e hb hd1, hd2⟩
  · exact ⟨b, by rw [dispatchOneW_other c k st r e]; exact hb, hwt⟩

theorem fold_waiting (c : Cfg) (hrm : rowMode c) (k : Nat) (it : Item) (m : Nat) :
    ∀ (todo : List Req) (st : List WBank × List Req) (b : WBank), st.1[k]? = some b → Waiting b it m →
    ∃ b', (todo.foldl (dispatchOneW c) st).1[k]? = some b' ∧ Waiting b' it m
  | [], _, b, hb, hwt => ⟨b, hb, hwt⟩
  | r :: todo, st, b, hb, hwt => by
    obtain ⟨b1, h1, w1⟩ := dispatchOneW_waiting c hrm k st r b it m hb hwt
    exact fold_waiting c hrm k it m todo _ b1 h1 w1

/-- the first pending request of an idle bank with an empty delay queue enters the pipeline or the delay queue -/
theorem dispatchBankW_first (c : Cfg) (hw : 0 < c.width) (hd0 : 0 < c.depth) (r : Req) (b : WBank) (hg : Good c b)
    (ho : b.order = []) (hdq : b.dq = []) :
    ∃ b', dispatchBankW c r b = some b' ∧ (b'.order ≠ [] ∨ (rowMode c ∧ Waiting b' (fresh r) c.miss)) := by
  obtain ⟨b1, hb1⟩ := WQuiet.accW_idle c (fresh r) b hw hd0 hg.bnd (idle_of_good c b hg ho)
  have hord := accW_order c (fresh r) b b1 hb1
  unfold dispatchBankW
  by_cases hrm : c.row > 0 ∧ c.miss > 0
  · rw [if_pos hrm]
    dsimp only
    split
    · rw [hdq]
      simp only [List.isEmpty_nil, if_true, hb1]
      exact ⟨_, rfl, Or.inl (by show b1.order ≠ []; rw [hord]; simp)⟩
    · rw [hdq]
      exact ⟨_, rfl, Or.inr ⟨hrm, ho, ⟨[], rfl⟩⟩⟩
  · rw [if_neg hrm]
    exact ⟨b1, hb1, Or.inl (by rw [hord]; simp)⟩

theorem fold_first (c : Cfg) (hw : 0 < c.width) (hd0 : 0 < c.depth) (k : Nat) (l1 l2 : List Req) (r : Req)
    (h1 : ∀ x ∈ l1, bankOf c x.addr ≠ k) (hr : bankOf c r.addr = k) (st : List WBank × List Req) (b : WBank)
    (hb : st.1[k]? = some b) (hg : Good c b) (ho : b.order = []) (hdq : b.dq = []) :
    ∃ b3, ((l1 ++ r :: l2).foldl (dispatchOneW c) st).1[k]? = some b3 ∧
      (b3.order ≠ [] ∨ Waiting b3 (fresh r) c.miss) := by
  rw [List.foldl_append, List.foldl_cons]
  have hk1 := fold_other c k l1 st h1
  rw [hb] at hk1
  obtain ⟨b', hd1, hd2⟩ := dispatchBankW_first c hw hd0 r b hg ho hdq
  have hone : (dispatchOneW c (l1.foldl (dispatchOneW c) st) r).1[k]? = some b' :=
    dispatchOneW_at c k _ r b b' hr hk1 hd1
  rcases hd2 with hne | ⟨hrm, hwt⟩
  · obtain ⟨b3, h3, a3⟩ := fold_dispatch_acc c k l2 _ b' hone
    obtain ⟨t, ht⟩ := accStar_order c a3
    refine ⟨b3, h3, Or.inl ?_⟩
    rw [ht]
    intro h
    exact hne (List.append_eq_nil_iff.1 h).1
  · obtain ⟨b3, h3, w3⟩ := fold_waiting c hrm k (fresh r) c.miss l2 _ b' hone hwt
    exact ⟨b3, h3, Or.inr w3⟩

end WLive
end C17
