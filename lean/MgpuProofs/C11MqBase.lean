import MgpuModel.C11Mq
import MgpuProofs.C11MqSpec
/-! List lemmas and stage "shape" lemmas for the multi-queue copy model (helpers for `C11MqInv`). -/
namespace C11

instance : Inhabited MqQueue := ⟨{}⟩

/-! ## lists -/

theorem mq_perm_range {l : List Nat} {n : Nat} (hn : l.Nodup) (hlt : ∀ k ∈ l, k < n)
    (hall : ∀ k, k < n → k ∈ l) : l.Perm (List.range n) := by
  rw [List.perm_iff_count]
  intro a
  rw [hn.count, List.nodup_range.count]
  by_cases h : a < n
  · simp [hall a h, h]
  · have : a ∉ l := fun hm => h (hlt a hm)
    simp [this, h]

theorem mq_modify_eq_set {qs : List MqQueue} {k : Nat} {q : MqQueue} (f : MqQueue → MqQueue)
    (h : qs[k]? = some q) : qs.modify k f = qs.set k (f q) := by
  rw [List.modify_eq_set, h]; rfl

theorem mq_set_self {qs : List MqQueue} {k : Nat} {q0 q1 : MqQueue} (h : qs[k]? = some q0) :
    (qs.set k q1)[k]? = some q1 := by
  have hk : k < qs.length := by
    rcases List.getElem?_eq_some_iff.1 h with ⟨hk, _⟩; exact hk
  rw [List.getElem?_set]; simp [hk]

theorem mq_set_ne {qs : List MqQueue} {k j : Nat} {q1 : MqQueue} (h : j ≠ k) :
    (qs.set k q1)[j]? = qs[j]? := by
  rw [List.getElem?_set]; simp [Ne.symm h]

theorem mq_set_inv {qs : List MqQueue} {k j : Nat} {q0 q1 q : MqQueue} (h : qs[k]? = some q0)
    (hj : (qs.set k q1)[j]? = some q) : (j = k ∧ q = q1) ∨ (j ≠ k ∧ qs[j]? = some q) := by
  by_cases hjk : j = k
  · subst hjk
    rw [mq_set_self h] at hj
    exact .inl ⟨rfl, (Option.some.inj hj).symm⟩
  · rw [mq_set_ne hjk] at hj
    exact .inr ⟨hjk, hj⟩

theorem mq_lookup_lt {qs : List MqQueue} {k : Nat} {q : MqQueue} (h : qs[k]? = some q) : k < qs.length := by
  rcases List.getElem?_eq_some_iff.1 h with ⟨hk, _⟩; exact hk

theorem mq_eraseIdx_perm {α} : ∀ {l : List α} {j : Nat} {r : α}, l[j]? = some r → l.Perm (r :: l.eraseIdx j)
  | [], _, _, h => by simp at h
  | x :: l, 0, r, h => by
    simp only [List.getElem?_cons_zero, Option.some.injEq] at h
    subst h; exact List.Perm.refl _
  | x :: l, j + 1, r, h => by
    simp only [List.getElem?_cons_succ] at h
    have := mq_eraseIdx_perm h
    simp only [List.eraseIdx_cons_succ]
    exact (List.Perm.cons x this).trans (List.Perm.swap r x _)

theorem mq_mem_eraseIdx {α} {l : List α} {j : Nat} {x : α} (h : x ∈ l.eraseIdx j) : x ∈ l := by
  rcases List.mem_eraseIdx_iff_getElem?.1 h with ⟨i, _, hi⟩
  exact List.mem_iff_getElem?.2 ⟨i, hi⟩

/-! ## `mqAnswer` -/

theorem mqAnswer_some {id : Nat} : ∀ {qs : List MqQueue} {qi : Nat} {qs' : List MqQueue} {c : Option (Nat × Nat)},
    mqAnswer id qi qs = some (qs', c) →
    ∃ (k : Nat) (q : MqQueue), qs[k]? = some q ∧ q.cmds ≠ [] ∧ id ∈ q.reqs ∧
      ((q.reqs.filter (· != id) = [] ∧
          qs' = qs.set k { q with cmds := q.cmds.tail, running := false, reqs := [], done := q.done + 1 } ∧
          c = some (qi + k, q.done)) ∨
       (q.reqs.filter (· != id) ≠ [] ∧ qs' = qs.set k { q with reqs := q.reqs.filter (· != id) } ∧ c = none))
  | [], _, _, _, h => by simp [mqAnswer] at h
  | q :: rest, qi, qs', c, h => by
    unfold mqAnswer at h
    split at h
    · rename_i hc
      have hmem : id ∈ q.reqs := List.contains_iff_mem.1 hc.2
      simp only at h
      split at h
      · rename_i he
        simp only [Option.some.injEq, Prod.mk.injEq] at h
        refine ⟨0, q, rfl, hc.1, hmem, .inl ⟨List.isEmpty_iff.1 he, ?_, ?_⟩⟩
        · rw [← h.1]; rfl
        · rw [← h.2]; rfl
      · rename_i he
        simp only [Option.some.injEq, Prod.mk.injEq] at h
        refine ⟨0, q, rfl, hc.1, hmem, .inr ⟨fun e => he (List.isEmpty_iff.2 e), ?_, h.2.symm⟩⟩
        rw [← h.1]; rfl
    · split at h
      · cases h
      · rename_i rest' c' hrec
        simp only [Option.some.injEq, Prod.mk.injEq] at h
        obtain ⟨k, q0, hk, hc, hm, hcase⟩ := mqAnswer_some hrec
        refine ⟨k + 1, q0, by simpa using hk, hc, hm, ?_⟩
        rcases hcase with ⟨e1, e2, e3⟩ | ⟨e1, e2, e3⟩
        · refine .inl ⟨e1, ?_, ?_⟩
          · rw [← h.1, e2]; rfl
          · rw [← h.2, e3]; congr 2; omega
        · refine .inr ⟨e1, ?_, ?_⟩
          · rw [← h.1, e2]; rfl
          · rw [← h.2, e3]

theorem mqAnswer_none {id : Nat} : ∀ {qs : List MqQueue} {qi : Nat}, mqAnswer id qi qs = none →
    ∀ (k : Nat) (q : MqQueue), qs[k]? = some q → q.cmds ≠ [] → id ∉ q.reqs
  | [], _, _, k, q, hk, _ => by simp at hk
  | q0 :: rest, qi, h, k, q, hk, hc => by
    unfold mqAnswer at h
    split at h
    · simp only at h
      split at h <;> cases h
    · rename_i hn
      split at h
      · rename_i hrec
        cases k with
        | zero =>
          simp only [List.getElem?_cons_zero, Option.some.injEq] at hk
          subst hk
          intro hm
          exact hn ⟨hc, List.contains_iff_mem.2 hm⟩
        | succ k =>
          simp only [List.getElem?_cons_succ] at hk
          exact mqAnswer_none hrec k q hk hc
      · cases h

/-! ## stage shapes -/

theorem Mq.sendToGPUs_cases (s : Mq) :
    (s.sendToGPUs = (s, false) ∧ (s.toSend = [] ∨ ¬ s.portOut.length < 40960000)) ∨
    ∃ r rest, s.toSend = r :: rest ∧ s.portOut.length < 40960000 ∧
      s.sendToGPUs = ({ s with toSend := rest, portOut := s.portOut ++ [r] }, true) := by
  unfold Mq.sendToGPUs
  split
  · rename_i h; exact .inl ⟨rfl, .inl h⟩
  · rename_i r rest h
    split
    · rename_i hl; exact .inr ⟨r, rest, h, hl, rfl⟩
    · rename_i hl; exact .inl ⟨rfl, .inr hl⟩

theorem Mq.delay_cases (s : Mq) :
    (0 < s.cyclesLeft ∧ s.delay = ({ s with cyclesLeft := s.cyclesLeft - 1 }, true)) ∨
    (s.cyclesLeft = 0 ∧
      s.delay = ({ s with toSend := s.toSend ++ s.awaiting, awaiting := [], cyclesLeft := -1 }, true)) ∨
    (s.cyclesLeft < 0 ∧ s.delay = (s, false)) := by
  unfold Mq.delay
  split
  · rename_i h; exact .inl ⟨h, rfl⟩
  · split
    · rename_i h; exact .inr (.inl ⟨h, rfl⟩)
    · rename_i h1 h2; exact .inr (.inr ⟨by omega, rfl⟩)

theorem Mq.response_cases (s : Mq) :
    (s.portIn = [] ∧ s.response = (s, false)) ∨
    (∃ id rest, s.portIn = id :: rest ∧ mqAnswer id 0 s.queues = none ∧
      s.response = ({ s with fault := some "cannot_find_command" }, true)) ∨
    (∃ id rest qs c, s.portIn = id :: rest ∧ mqAnswer id 0 s.queues = some (qs, c) ∧
      s.response = ({ s with portIn := rest, queues := qs, answered := s.answered ++ [id],
                              completed := s.completed ++ c.toList }, true)) := by
  unfold Mq.response
  split
  · rename_i h; exact .inl ⟨h, rfl⟩
  · rename_i id rest h
    split
    · rename_i ha; exact .inr (.inl ⟨id, rest, h, ha, rfl⟩)
    · rename_i qs c ha; exact .inr (.inr ⟨id, rest, qs, c, h, ha, rfl⟩)

/-- the requests `start` creates for command `c` as the `seq`-th command of queue `qi` -/
def mqNewReqs (s : Mq) (qi seq : Nat) (c : MqCmd) : List MqReq :=
  mqFlushReqs s qi seq c ++ mqPieceReqs (s.nextId + (mqFlushReqs s qi seq c).length) qi seq c

theorem Mq.start_cases (s : Mq) (qi : Nat) (q : MqQueue) :
    ((q.cmds = [] ∨ q.running = true) ∧ s.start qi q = (s, q, false)) ∨
    (∃ c rest, q.cmds = c :: rest ∧ q.running = false ∧ mqNewReqs s qi q.done c ≠ [] ∧
      s.start qi q =
        ({ s with toSend := s.toSend ++ mqFlushReqs s qi q.done c,
                  awaiting := s.awaiting ++ mqPieceReqs (s.nextId + (mqFlushReqs s qi q.done c).length) qi q.done c,
                  nextId := s.nextId + (mqNewReqs s qi q.done c).length,
                  cyclesLeft := if c.kind = .h2d then (s.cycH2D : Int) else (s.cycD2H : Int),
                  created := s.created ++ mqNewReqs s qi q.done c },
         { q with running := true, reqs := (mqNewReqs s qi q.done c).map (·.id) }, true)) ∨
    (∃ c rest, q.cmds = c :: rest ∧ q.running = false ∧ mqNewReqs s qi q.done c = [] ∧
      s.start qi q =
        ({ s with cyclesLeft := if c.kind = .h2d then (s.cycH2D : Int) else (s.cycD2H : Int),
                  completed := s.completed ++ [(qi, q.done)] },
         { q with cmds := rest, running := false, reqs := [], done := q.done + 1 }, true)) := by
  unfold Mq.start
  split
  · rename_i h; exact .inl ⟨.inl h, rfl⟩
  · rename_i c rest h
    split
    · rename_i hr; exact .inl ⟨.inr hr, rfl⟩
    · rename_i hr
      simp only
      split
      · rename_i he
        have he' := List.isEmpty_iff.1 he
        obtain ⟨hfl, hps⟩ := List.append_eq_nil_iff.1 he'
        refine .inr (.inr ⟨c, rest, h, by simpa using hr, he', ?_⟩)
        rw [hps, hfl]
        simp only [List.append_nil, List.length_nil, Nat.add_zero]
      · rename_i he
        refine .inr (.inl ⟨c, rest, h, by simpa using hr, fun e => he (List.isEmpty_iff.2 e), ?_⟩)
        simp only [mqNewReqs, List.length_append, List.append_assoc, Nat.add_assoc]

theorem mqFlushReqs_length (s : Mq) (qi seq : Nat) (c : MqCmd) :
    (mqFlushReqs s qi seq c).length = if c.flush then s.nGpus else 0 := by
  unfold mqFlushReqs; split <;> simp

theorem mqPieceReqs_length (base qi seq : Nat) (c : MqCmd) : (mqPieceReqs base qi seq c).length = c.pieces := by
  unfold mqPieceReqs; simp

theorem mqNewReqs_length (s : Mq) (qi seq : Nat) (c : MqCmd) :
    (mqNewReqs s qi seq c).length = mqWant s.nGpus c := by
  unfold mqNewReqs mqWant
  rw [List.length_append, mqFlushReqs_length, mqPieceReqs_length]; omega

theorem mqNewReqs_tag (s : Mq) (qi seq : Nat) (c : MqCmd) :
    ∀ r ∈ mqNewReqs s qi seq c, r.q = qi ∧ r.seq = seq ∧ s.nextId ≤ r.id := by
  intro r hr
  unfold mqNewReqs mqFlushReqs mqPieceReqs at hr
  rcases List.mem_append.1 hr with h | h
  · split at h
    · simp only [List.mem_map, List.mem_range] at h
      obtain ⟨g, _, rfl⟩ := h
      exact ⟨rfl, rfl, by simp⟩
    · cases h
  · simp only [List.mem_map, List.mem_range] at h
    obtain ⟨g, _, rfl⟩ := h
    exact ⟨rfl, rfl, by simp only; omega⟩

theorem mqNewReqs_want (s : Mq) (qi seq : Nat) (c : MqCmd) :
    (mqNewReqs s qi seq c).map (fun r => (r.kind, r.idx)) = mqWantReqs s.nGpus c := by
  unfold mqNewReqs mqFlushReqs mqPieceReqs mqWantReqs
  rw [List.map_append]
  congr 1
  · split <;> simp [List.map_map, Function.comp_def]
  · simp [List.map_map, Function.comp_def]

theorem mqNewReqs_ids (s : Mq) (qi seq : Nat) (c : MqCmd) :
    (mqNewReqs s qi seq c).map (·.id) = (List.range (mqNewReqs s qi seq c).length).map (s.nextId + ·) := by
  have h1 : (mqFlushReqs s qi seq c).map (·.id) =
      (List.range (mqFlushReqs s qi seq c).length).map (s.nextId + ·) := by
    rw [mqFlushReqs_length]
    unfold mqFlushReqs
    split <;> simp [List.map_map, Function.comp_def]
  have h2 : ∀ base, (mqPieceReqs base qi seq c).map (·.id) =
      (List.range (mqPieceReqs base qi seq c).length).map (base + ·) := by
    intro base
    rw [mqPieceReqs_length]
    unfold mqPieceReqs
    simp [List.map_map, Function.comp_def]
  unfold mqNewReqs
  rw [List.map_append, List.length_append, List.range_add, List.map_append, h1, h2, List.map_map]
  congr 1
  apply List.map_congr_left
  intro x _
  simp only [Function.comp_def]; omega

end C11
