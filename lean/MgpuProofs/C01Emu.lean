import MgpuModel.C01_Emu
/-! # C01 — the wavefront loop of the Lean emulator: effect of a pass, order irrelevance

A wavefront that runs to `S_ENDPGM` without reaching a barrier acts on the shared memory as a list of
byte writes.  When every wavefront of a work-group has such a description that is *stable* under the
other wavefronts' writes (predicate `Ok`, chosen by the user: "the data I read is still there"),
`runWG` applies the concatenation of the write lists (`runWG_effect`), and with pairwise distinct
target addresses the result does not depend on the order of the wavefronts (`runWG_perm`). -/
namespace C01
namespace Emu

/-- the content of a memory (extensional view of the association list) -/
def get (m : Mem) (a : Nat) : Nat := C03V.lookup m a

/-- byte writes applied to a memory content, first to last (later writes win) -/
def applyWrites (ws : List (Nat × Nat)) (f : Nat → Nat) : Nat → Nat :=
  ws.foldl (fun g w => fun a => if a = w.1 then w.2 else g a) f

theorem applyWrites_nil (f : Nat → Nat) : applyWrites [] f = f := rfl

theorem applyWrites_append (a b : List (Nat × Nat)) (f : Nat → Nat) :
    applyWrites (a ++ b) f = applyWrites b (applyWrites a f) := by
  simp [applyWrites, List.foldl_append]

theorem get_cons (a b : Nat) (m : Mem) (x : Nat) : get ((a, b) :: m) x = if x = a then b else get m x := by
  unfold get C03V.lookup
  simp only [List.find?_cons]
  by_cases h : a = x
  · subst h; simp
  · have : (a == x) = false := by simpa using h
    simp only [this]
    have h' : ¬ x = a := fun e => h e.symm
    simp [h']

/-- with pairwise distinct target addresses the result is a look-up, hence order-free
    (DESIGN-sketches `applyWrites_lookup`) -/
theorem applyWrites_lookup (ws : List (Nat × Nat)) (f : Nat → Nat) (hnd : (ws.map (·.1)).Nodup) (c : Nat) :
    applyWrites ws f c = match ws.find? (fun w => w.1 = c) with | some w => w.2 | none => f c := by
  induction ws generalizing f with
  | nil => rfl
  | cons w ws ih =>
    simp only [List.map_cons, List.nodup_cons] at hnd
    simp only [applyWrites, List.foldl_cons]
    have := ih (fun a => if a = w.1 then w.2 else f a) hnd.2
    simp only [applyWrites] at this
    rw [this]
    simp only [List.find?_cons]
    by_cases hc : w.1 = c
    · subst hc
      have hnf : ws.find? (fun x => x.1 = w.1) = none := by
        rw [List.find?_eq_none]
        intro x hx hxe
        simp only [decide_eq_true_eq] at hxe
        exact hnd.1 (List.mem_map.mpr ⟨x, hx, hxe⟩)
      simp [hnf]
    · have : (decide (w.1 = c)) = false := by simp [hc]
      simp only [this]
      cases hf : ws.find? (fun x => decide (x.1 = c)) with
      | none => simp [Ne.symm hc]
      | some x => simp

theorem mem_same_key_eq (l : List (Nat × Nat)) (hn : (l.map (·.1)).Nodup) (a b : Nat × Nat)
    (ha : a ∈ l) (hb : b ∈ l) (hk : a.1 = b.1) : a = b := by
  induction l with
  | nil => cases ha
  | cons x xs ih =>
    simp only [List.map_cons, List.nodup_cons] at hn
    rcases List.mem_cons.mp ha with rfl | h1 <;> rcases List.mem_cons.mp hb with rfl | h2
    · rfl
    · exact absurd (List.mem_map.mpr ⟨b, h2, hk.symm⟩) hn.1
    · exact absurd (List.mem_map.mpr ⟨a, h1, hk⟩) hn.1
    · exact ih hn.2 h1 h2

/-- the commuting-writes lemma (DESIGN-sketches `applyWrites_perm`): writes to pairwise distinct
    addresses can be applied in any order -/
theorem applyWrites_perm (ws ws' : List (Nat × Nat)) (f : Nat → Nat) (hp : ws.Perm ws')
    (hnd : (ws.map (·.1)).Nodup) : applyWrites ws f = applyWrites ws' f := by
  funext c
  have hnd' : (ws'.map (·.1)).Nodup := (hp.map _).nodup_iff.mp hnd
  rw [applyWrites_lookup ws f hnd c, applyWrites_lookup ws' f hnd' c]
  have key : ∀ (l l' : List (Nat × Nat)), l.Perm l' → (l.map (·.1)).Nodup →
      ∀ w, l.find? (fun x => x.1 = c) = some w → l'.find? (fun x => x.1 = c) = some w := by
    intro l l' hpp hn w hw
    have hmem : w ∈ l' := hpp.subset (List.mem_of_find?_eq_some hw)
    have hwc : w.1 = c := by simpa using List.find?_some hw
    have hn' : (l'.map (·.1)).Nodup := (hpp.map _).nodup_iff.mp hn
    cases hf : l'.find? (fun x => x.1 = c) with
    | none =>
      rw [List.find?_eq_none] at hf
      exact absurd (by simpa using hwc) (hf w hmem)
    | some w' =>
      have hm' : w' ∈ l' := List.mem_of_find?_eq_some hf
      have hw'c : w'.1 = c := by simpa using List.find?_some hf
      have : w' = w := mem_same_key_eq l' hn' w' w hm' hmem (by rw [hw'c, hwc])
      rw [this]
  cases h1 : ws.find? (fun x => x.1 = c) with
  | some w => rw [key ws ws' hp hnd w h1]
  | none =>
    cases h2 : ws'.find? (fun x => x.1 = c) with
    | none => rfl
    | some w' =>
      have := key ws' ws hp.symm hnd' w' h2
      rw [h1] at this; cases this

/-- a memory-write description of one wavefront: from every admissible memory (and any LDS content) the
    wavefront runs to `S_ENDPGM` within the fuel (no barrier, no fault), changes the memory content
    exactly by the writes `wr`, and the memory stays admissible -/
def WaveSpec (P : Program) (base fuel : Nat) (Ok : Mem → Prop) (w : Wave) (wr : List (Nat × Nat)) : Prop :=
  ∀ m l, Ok m → ∃ w' m' l', runWave P base fuel w m l = .ok (w', m', l') ∧ w'.completed = true ∧
    get m' = applyWrites wr (get m) ∧ Ok m'

/-- the inner loop of `runWG` over wavefronts that have write descriptions -/
theorem pass_effect (P : Program) (base fuel : Nat) (Ok : Mem → Prop) (wr : Wave → List (Nat × Nat)) :
    ∀ (ws : List Wave), (∀ w ∈ ws, WaveSpec P base fuel Ok w (wr w)) → ∀ m l, Ok m →
    ∃ ws' m' l', pass P base fuel ws m l = .ok (ws', m', l') ∧ allDone ws' = true ∧
      get m' = applyWrites (ws.flatMap wr) (get m) ∧ Ok m' := by
  intro ws
  induction ws with
  | nil =>
    intro _ m l hok
    exact ⟨[], m, l, rfl, rfl, rfl, hok⟩
  | cons w ws ih =>
    intro hs m l hok
    obtain ⟨w', m1, l1, hr, hc, hg, hok1⟩ := hs w (List.mem_cons_self ..) m l hok
    obtain ⟨ws', m2, l2, hp, hd, hg2, hok2⟩ := ih (fun x hx => hs x (List.mem_cons_of_mem _ hx)) m1 l1 hok1
    refine ⟨w' :: ws', m2, l2, ?_, ?_, ?_, hok2⟩
    · simp only [pass, hr, hp]
    · simp only [allDone, List.all_cons, hc, Bool.true_and] at hd ⊢
      exact hd
    · rw [hg2, hg, List.flatMap_cons, applyWrites_append]

/-- `runWG` on a barrier-free work-group: the memory after the call is the initial memory with the
    writes of all wavefronts applied in wavefront order -/
theorem runWG_effect (P : Program) (base fuel rounds : Nat) (Ok : Mem → Prop) (wr : Wave → List (Nat × Nat))
    (ws : List Wave) (hs : ∀ w ∈ ws, WaveSpec P base fuel Ok w (wr w)) (m l : Mem) (hok : Ok m) :
    ∃ m', runWG P base fuel (rounds + 1) ws m l = .ok m' ∧
      get m' = applyWrites (ws.flatMap wr) (get m) ∧ Ok m' := by
  obtain ⟨ws', m', l', hp, hd, hg, hok'⟩ := pass_effect P base fuel Ok wr ws hs m l hok
  by_cases hall : allDone ws = true
  · -- nothing runs: every wavefront is already completed, and `pass` returns the memory unchanged
    refine ⟨m, by simp only [runWG, hall, if_true], ?_, hok⟩
    have hskip : ∀ (xs : List Wave) (m l : Mem), allDone xs = true → pass P base fuel xs m l = .ok (xs, m, l) := by
      intro xs
      induction xs with
      | nil => intro m l _; rfl
      | cons x xs ihx =>
        intro m l hx
        simp only [allDone, List.all_cons, Bool.and_eq_true] at hx
        have hxs : allDone xs = true := hx.2
        simp only [pass, runWave, hx.1, if_true, ihx m l hxs]
    rw [hskip ws m l hall] at hp
    cases hp
    exact hg
  · refine ⟨m', ?_, hg, hok'⟩
    simp only [runWG, hall, hp, hd, if_true]
    simp

/-- order irrelevance, general form: any permutation of the wavefronts gives the same memory
    content, provided the wavefronts' writes go to pairwise distinct addresses -/
theorem runWG_perm (P : Program) (base fuel rounds : Nat) (Ok : Mem → Prop) (wr : Wave → List (Nat × Nat))
    (ws ws' : List Wave) (hp : ws.Perm ws') (hs : ∀ w ∈ ws, WaveSpec P base fuel Ok w (wr w))
    (hdist : ((ws.flatMap wr).map (·.1)).Nodup) (m l : Mem) (hok : Ok m) :
    ∃ m1 m2, runWG P base fuel (rounds + 1) ws m l = .ok m1 ∧ runWG P base fuel (rounds + 1) ws' m l = .ok m2 ∧
      get m1 = get m2 ∧ get m1 = applyWrites (ws.flatMap wr) (get m) := by
  obtain ⟨m1, h1, g1, _⟩ := runWG_effect P base fuel rounds Ok wr ws hs m l hok
  obtain ⟨m2, h2, g2, _⟩ := runWG_effect P base fuel rounds Ok wr ws'
    (fun w hw => hs w (hp.symm.subset hw)) m l hok
  refine ⟨m1, m2, h1, h2, ?_, g1⟩
  rw [g1, g2]
  exact applyWrites_perm _ _ _ (hp.flatMap_right wr) hdist

end Emu
end C01
