import MgpuProofs.C11MSysX
/-! # C11 helper: several-GPU closed system — lanes share the command list; requests reach the GPU that owns their piece (`MSys.RInv`) -/
namespace C11

theorem Sys.step_bufs (s : Sys) (op : SysOp) : (s.step op).1.bufs = s.bufs := by
  cases op <;> simp only [Sys.step] <;>
    repeat' (first
      | rfl
      | split)

theorem Sys.step_cmds_frame (s : Sys) (op : SysOp) (h : ∀ q b a l x, op ≠ .enq q b a l x) : (s.step op).1.cmds = s.cmds := by
  cases op with
  | enq q b a l x => exact absurd rfl (h q b a l x)
  | _ =>
    simp only [Sys.step]
    repeat' (first
      | rfl
      | split)

theorem MqEnv.step_queues_len (e : MqEnv) (op : MqOp) (h : op ≠ .tick) :
    (e.step op).1.s.queues.length = e.s.queues.length := by
  cases op with
  | tick => exact absurd rfl h
  | enq q c =>
    simp only [MqEnv.step]
    split
    · simp
    · rfl
  | take k => rfl
  | rsp j =>
    simp only [MqEnv.step]
    repeat' (first
      | rfl
      | split)

theorem Sys.step_queues_len (s : Sys) (op : SysOp) (h : op ≠ .drvTick) :
    (s.step op).1.mq.s.queues.length = s.mq.s.queues.length := by
  rcases s.step_mq_cases op with e | ⟨x, e, e1, _⟩
  · rw [e]
  · rw [e]; exact s.mq.step_queues_len x (e1 h)

theorem Sys.step_enq_cmds (s : Sys) (q : Nat) (h2d : Bool) (addr len salt : Nat) (pcs : List (Nat × Nat × Nat))
    (hp : pieces s.pt len addr 0 len = some pcs) (hq : q < s.mq.s.queues.length) :
    (s.step (.enq q h2d addr len salt)).1.cmds = s.cmds ++
      [{ q := q, kind := if h2d then .h2d else .d2h, addr := addr,
         data := if h2d then (List.range len).map (h2dByte (addr + salt)) else [],
         len := len, pcs := pcs, flush := needFlushing s.bufs addr len }] := by
  simp only [Sys.step, hp, if_pos hq]

theorem Sys.pieceOf_congr {s s' : Sys} (h : s'.cmds = s.cmds) (r : MqReq) : s'.pieceOf r = s.pieceOf r := by
  unfold Sys.pieceOf Sys.cmdOf
  rw [h]

theorem MSys.route_mono {s s' : MSys} {l : List SysCmd} (hc : s'.cmds = s.cmds ++ l) (ho : s'.own = s.own)
    (_hn : s'.lanes.length = s.lanes.length) {r : MqReq} {g : Nat} (hg : g < s.lanes.length) (h : s.route r = g) :
    s'.route r = g := by
  unfold MSys.route at h ⊢
  split
  · rename_i hk; rw [if_pos hk] at h; exact h
  · rename_i hk
    rw [if_neg hk] at h
    cases hp : s.pieceOf r with
    | none => rw [hp] at h; simp only at h; omega
    | some p =>
      rw [hp] at h
      have : s'.pieceOf r = some p :=
        Sys.pieceOf_mono (s := { cmds := s.cmds }) (s' := { cmds := s'.cmds }) (l := l) hc hp
      rw [this, ho]; exact h

structure MSys.RInv (s : MSys) : Prop where
  same : ∀ l ∈ s.lanes, l.cmds = s.cmds ∧ l.pt = s.pt ∧ l.bufs = s.bufs ∧ l.mq.s.queues.length = s.nQ
  /-- whatever reached GPU `g` was routed there: a copy request by the owner of its piece's physical address -/
  route : ∀ g l, s.lanes[g]? = some l → ∀ rq ∈ l.mq.seen, s.route rq = g

theorem MSys.RInv.init (c : MCfg) : (MSys.init c).RInv := by
  refine ⟨fun l hl => ?_, fun g l hl rq hr => ?_⟩
  · have := List.eq_of_mem_replicate hl
    subst this
    simp [MSys.init, Sys.init, MqEnv.init]
  · have := List.eq_of_mem_replicate (List.mem_of_getElem? hl)
    subst this
    simp [Sys.init, MqEnv.init] at hr

theorem lt_of_getElem?_some {α} {l : List α} {g : Nat} {x : α} (h : l[g]? = some x) : g < l.length := by
  apply Decidable.byContradiction; intro hn
  rw [List.getElem?_eq_none (by omega)] at h; cases h

/-- a lane move that is not `enq` keeps what `RInv.same` speaks about -/
theorem Sys.step_same {s : MSys} {l : Sys} (op : SysOp) (h1 : op ≠ .drvTick) (h2 : ∀ q b a l x, op ≠ .enq q b a l x)
    (h : l.cmds = s.cmds ∧ l.pt = s.pt ∧ l.bufs = s.bufs ∧ l.mq.s.queues.length = s.nQ) :
    (l.step op).1.cmds = s.cmds ∧ (l.step op).1.pt = s.pt ∧ (l.step op).1.bufs = s.bufs ∧
      (l.step op).1.mq.s.queues.length = s.nQ :=
  ⟨(l.step_cmds_frame op h2).trans h.1, (l.step_pt op).trans h.2.1, (l.step_bufs op).trans h.2.2.1,
   (l.step_queues_len op h1).trans h.2.2.2⟩

theorem MSys.RInv.setLane {s : MSys} (h : s.RInv) {g : Nat} {l l' : Sys} (_hl : s.lanes[g]? = some l)
    (hsame : l'.cmds = s.cmds ∧ l'.pt = s.pt ∧ l'.bufs = s.bufs ∧ l'.mq.s.queues.length = s.nQ)
    (hseen : ∀ rq ∈ l'.mq.seen, s.route rq = g) (s' : MSys) (hlanes : s'.lanes = s.lanes.set g l')
    (e1 : s'.cmds = s.cmds) (e2 : s'.pt = s.pt) (e3 : s'.bufs = s.bufs) (e4 : s'.nQ = s.nQ) (e5 : s'.own = s.own) :
    s'.RInv := by
  have hr : ∀ r, s'.route r = s.route r := by
    intro r; unfold MSys.route MSys.pieceOf; rw [e1, e5, hlanes]; simp
  refine ⟨?_, ?_⟩
  · intro l0 hl0
    rw [hlanes] at hl0
    rw [e1, e2, e3, e4]
    rcases List.mem_or_eq_of_mem_set hl0 with hm | hm
    · exact h.same l0 hm
    · rw [hm]; exact hsame
  · intro g0 l0 hl0 rq hrq
    rw [hr]
    rw [hlanes, List.getElem?_set] at hl0
    by_cases hg : g = g0
    · subst hg
      rw [if_pos rfl] at hl0
      split at hl0
      · cases hl0; exact hseen rq hrq
      · cases hl0
    · rw [if_neg hg] at hl0
      exact h.route g0 l0 hl0 rq hrq

theorem MSys.RInv.step {s : MSys} (h : s.RInv) (op : MOp) : (s.step op).1.RInv := by
  cases op with
  | enq q h2d addr len salt =>
    simp only [MSys.step]
    split
    · exact h
    · rename_i pcs hp
      split
      · rename_i hq
        refine ⟨?_, ?_⟩
        · intro l hl
          obtain ⟨l0, hl0, rfl⟩ := List.mem_map.1 hl
          obtain ⟨a1, a2, a3, a4⟩ := h.same l0 hl0
          refine ⟨?_, (l0.step_pt _).trans a2, (l0.step_bufs _).trans a3, (l0.step_queues_len _ (by simp)).trans a4⟩
          rw [l0.step_enq_cmds q h2d addr len salt pcs (by rw [a2]; exact hp) (by rw [a4]; exact hq.1), a1, a3]
        · intro g l hl rq hrq
          simp only [List.getElem?_map] at hl
          cases hl0 : s.lanes[g]? with
          | none => rw [hl0] at hl; cases hl
          | some l0 =>
            rw [hl0] at hl
            simp only [Option.map_some, Option.some.injEq] at hl
            subst hl
            rw [(l0.step_stub _ (by simp)).1 (by simp)] at hrq
            refine MSys.route_mono (s := s) (l := [?c]) ?h1 ?h2 ?h3 (lt_of_getElem?_some hl0) (h.route g l0 hl0 rq hrq)
            case h1 => rfl
            case h2 => rfl
            case h3 => simp
      · exact h
  | drvTick => exact ⟨h.same, h.route⟩
  | toCp =>
    simp only [MSys.step]
    split
    · exact h
    · rename_i r rest hpo
      split
      · exact h
      · rename_i l hl
        split
        · rename_i hroom
          obtain ⟨b1, _⟩ := l.load_toCp r hroom
          refine h.setLane hl ?_ ?_ _ rfl rfl rfl rfl rfl rfl
          · exact Sys.step_same (s := s) (l := l.load r) .toCp (by simp) (by simp) (h.same l (List.mem_of_getElem? hl))
          · intro rq hrq
            rw [b1] at hrq
            rcases List.mem_append.1 hrq with hrq | hrq
            · exact h.route _ l hl rq hrq
            · simp only [List.mem_singleton] at hrq
              rw [hrq]
        · exact h
  | gpu g op =>
    simp only [MSys.step]
    split
    · rename_i hloc
      split
      · exact h
      · rename_i l hl
        have hnt : op ≠ .drvTick := by intro e; subst e; simp [SysOp.isLocal] at hloc
        have hnc : op ≠ .toCp := by intro e; subst e; simp [SysOp.isLocal] at hloc
        have hne : ∀ q b a l x, op ≠ .enq q b a l x := by intro q b a l x e; subst e; simp [SysOp.isLocal] at hloc
        refine h.setLane hl (Sys.step_same op hnt hne (h.same l (List.mem_of_getElem? hl))) ?_ _ rfl rfl rfl rfl rfl rfl
        intro rq hrq
        rw [(l.step_stub op hnt).1 hnc] at hrq
        exact h.route g l hl rq hrq
    · exact h
  | toDrv g =>
    simp only [MSys.step]
    split
    · exact h
    · rename_i l hl
      split
      · exact h
      · split
        · exact h
        · split
          · refine h.setLane hl (Sys.step_same .toDrv (by simp) (by simp) (h.same l (List.mem_of_getElem? hl))) ?_ _ rfl rfl rfl rfl rfl rfl
            intro rq hrq
            rw [(l.step_stub .toDrv (by simp)).1 (by simp)] at hrq
            exact h.route g l hl rq hrq
          · exact h

theorem MSys.RInv.run : ∀ (ops : List MOp) {s : MSys}, s.RInv → (s.run ops).RInv
  | [], _, h => h
  | op :: rest, _, h => MSys.RInv.run rest (h.step op)

end C11
