import MgpuProofs.Props.C10
/-!
`Distribute` returns `byteAllocatedOnEachGPU`: the per-GPU byte counts of the plan. They sum to the whole range.
-/
namespace C10

theorem contig_sum : ∀ (l : List (Nat × Nat × Nat)) (a b : Nat), contig a l = some b → b = a + (l.map (·.2.1)).sum := by
  intro l
  induction l with
  | nil => intro a b h; simp [contig] at h; simp [h]
  | cons r rest ih =>
    intro a b h
    obtain ⟨s, sz, g⟩ := r
    simp only [contig] at h
    split at h
    · have := ih _ _ h
      simp only [List.map_cons, List.sum_cons]
      omega
    · cases h

theorem sum_map_add (n : Nat) (f g : Nat → Nat) :
    ((List.range n).map fun i => f i + g i).sum = ((List.range n).map f).sum + ((List.range n).map g).sum := by
  induction n with
  | zero => simp
  | succ n ih =>
    simp only [List.range_succ, List.map_append, List.sum_append, List.map_cons, List.map_nil, List.sum_cons,
      List.sum_nil, ih]
    omega

theorem sum_map_zero (n : Nat) : ((List.range n).map fun _ => 0).sum = 0 := by
  induction n with
  | zero => rfl
  | succ n ih => simp [List.range_succ, ih]

theorem sum_ite_eq (n i x : Nat) (hi : i < n) : ((List.range n).map fun g => if i = g then x else 0).sum = x := by
  induction n with
  | zero => omega
  | succ n ih =>
    simp only [List.range_succ, List.map_append, List.sum_append, List.map_cons, List.map_nil, List.sum_cons,
      List.sum_nil]
    by_cases h : i = n
    · subst h
      have : ((List.range i).map fun g => if i = g then x else 0) = (List.range i).map fun _ => 0 := by
        apply List.map_congr_left
        intro g hg
        have := List.mem_range.mp hg
        rw [if_neg (by omega)]
      rw [this, sum_map_zero]
      simp
    · rw [ih (by omega), if_neg h]
      omega

/-- the per-GPU sums of a plan add up to the plan's total -/
theorem perGPU_sum (n : Nat) : ∀ (l : List (Nat × Nat × Nat)), (∀ r ∈ l, r.2.2 < n) →
    ((List.range n).map fun g => ((l.filter fun r => r.2.2 == g).map fun r => r.2.1).sum).sum = (l.map (·.2.1)).sum := by
  intro l
  induction l with
  | nil => intro _; simpa using sum_map_zero n
  | cons r rest ih =>
    intro h
    have hr := h r (List.mem_cons_self ..)
    have ih' := ih (fun q hq => h q (List.mem_cons_of_mem _ hq))
    have : (fun g => (((r :: rest).filter fun q => q.2.2 == g).map fun q => q.2.1).sum) =
        fun g => (if r.2.2 = g then r.2.1 else 0) + ((rest.filter fun q => q.2.2 == g).map fun q => q.2.1).sum := by
      funext g
      by_cases hg : r.2.2 = g
      · simp [hg]
      · simp [hg]
    rw [this, sum_map_add, sum_ite_eq n _ _ hr, ih']
    simp

end C10
