import MgpuProofs.C19SysInv
/-! # C19 — the closed system: `processReturnReq` (`Drv.ret`) keeps `Inv` for the answers of the three
    broadcast phases drain / GPU restart / RDMA restart (not the last answer: the phase goes on with one more
    GPU counted; the last answer: shootdown / RDMA restart / idle). No case is missing. -/
namespace C19
namespace SY
open CP (Cp Cls K Sub Cmd Ans)
open DR (Drv MmuReq MigCmd)

/-- the nine fields of the driver `processReturnReq` may change in the three cases -/
@[reducible] def c2_upd (d : Drv) (dr sh mg rs rd : Nat) (gi : List Ans) (ts : List (Nat × Cmd)) (cu : Option MmuReq)
    (hd : Bool) : Drv :=
  { d with drain := dr, shoot := sh, mig := mg, restart := rs, rdma := rd, gpuIn := gi, toSend := ts, cur := cu,
           handling := hd }

theorem c2_toAcc (c : Cmd) : ∀ (l : List Nat) (d : Drv), d.fault = none → (∀ a ∈ l, 1 ≤ a ∧ a ≤ d.ngpu) →
    d.toAcc c l = { d with toSend := d.toSend ++ l.map (fun a => (a - 1, c)) }
  | [], d, _, _ => by simp [Drv.toAcc]
  | a :: l, d, hf, hl => by
    have ha := hl a (by simp)
    have hn : ¬ (a = 0 ∨ a - 1 ≥ d.ngpu) := by omega
    unfold Drv.toAcc
    rw [if_neg (by simp [hf]), if_neg hn,
      c2_toAcc c l { d with toSend := d.toSend ++ [(a - 1, c)] } hf (fun x hx => hl x (by simp [hx]))]
    simp [List.append_assoc]

theorem c2_dec {n : Nat} (h : 0 < n) : CP.dec n = n - 1 := by
  unfold CP.dec; rw [if_neg (by omega)]

theorem c2_ret_drain {d : Drv} {rest : List Ans} {r : MmuReq} (hf : d.fault = none) (hin : d.gpuIn = .drain :: rest)
    (hc : d.cur = some r) :
    d.ret.1 = if CP.dec d.drain = 0 then
        ({ d with drain := CP.dec d.drain, gpuIn := rest, shoot := r.acc.length % CP.w64 }).toAcc (.shoot r.id) r.acc
      else { d with drain := CP.dec d.drain, gpuIn := rest } := by
  unfold Drv.ret
  simp only [hf, hin, hc, Option.isSome_none, Bool.false_eq_true, if_false]
  split <;> rfl

theorem c2_ret_restart {d : Drv} {rest : List Ans} (hf : d.fault = none) (hin : d.gpuIn = .restart :: rest) :
    d.ret.1 = if CP.dec d.restart = 0 then
        { d with restart := CP.dec d.restart, gpuIn := rest,
                 toSend := d.toSend ++ (List.range d.ngpu).map (fun g => (g, Cmd.rdmaRestart)),
                 rdma := (d.rdma + d.ngpu) % CP.w64 }
      else { d with restart := CP.dec d.restart, gpuIn := rest } := by
  unfold Drv.ret
  simp only [hf, hin, Option.isSome_none, Bool.false_eq_true, if_false]
  split <;> rfl

theorem c2_ret_rdma {d : Drv} {rest : List Ans} (hf : d.fault = none) (hin : d.gpuIn = .rdmaRestart :: rest) :
    d.ret.1 = if CP.dec d.rdma = 0 then
        { d with rdma := CP.dec d.rdma, gpuIn := rest, cur := none, handling := false }
      else { d with rdma := CP.dec d.rdma, gpuIn := rest } := by
  unfold Drv.ret
  simp only [hf, hin, Option.isSome_none, Bool.false_eq_true, if_false]
  split <;> rfl


/-! ## what does not read the nine fields -/
section frame
variable {s : Sys} (dr sh mg rs rd : Nat) (gi : List Ans) (ts : List (Nat × Cmd)) (cu : Option MmuReq) (hd : Bool)

theorem c2_reqOK {r : MmuReq} (h : ReqOK s r) : ReqOK { s with drv := c2_upd s.drv dr sh mg rs rd gi ts cu hd } r :=
  ⟨h.pid, h.host, h.accNe, h.accNd, h.accLt, h.accIn, h.size, h.pagesNe, h.pagesNd, h.pagesLt, h.req⟩

theorem c2_pagesOK {r : MmuReq} (h : PagesOK s r) : PagesOK { s with drv := c2_upd s.drv dr sh mg rs rd gi ts cu hd } r :=
  ⟨h.found, h.free⟩

theorem c2_rehomed {r : MmuReq} (h : Rehomed s r) : Rehomed { s with drv := c2_upd s.drv dr sh mg rs rd gi ts cu hd } r :=
  ⟨h.log⟩

theorem c2_world {ws : WSt} (h : WorldInv s ws) : WorldInv { s with drv := c2_upd s.drv dr sh mg rs rd gi ts cu hd } ws := by
  cases ws <;> exact ⟨h.reach, h.live, h.back⟩

theorem c2_mmu {pc : List Nat} (h : MmuInv s pc) : MmuInv { s with drv := c2_upd s.drv dr sh mg rs rd gi ts cu hd } pc :=
  ⟨h.lost, h.sent, h.ids, h.got, h.ans, h.one, h.fresh, h.cap⟩

theorem c2_frame (h : Inv s) (ph : Phase { s with drv := c2_upd s.drv dr sh mg rs rd gi ts cu hd }) :
    Inv { s with drv := c2_upd s.drv dr sh mg rs rd gi ts cu hd } :=
  { cfg := h.cfg, ng := h.ng, caps := h.caps, nf := h.nf, frames := h.frames, lg := h.lg, logIds := h.logIds,
    pending := fun r hr => ⟨c2_reqOK _ _ _ _ _ _ _ _ _ (h.pending r hr).1, c2_pagesOK _ _ _ _ _ _ _ _ _ (h.pending r hr).2.1,
      (h.pending r hr).2.2⟩,
    ph := ph, rel := ⟨h.rel.ranges, h.rel.queued, h.rel.flying⟩ }
end frame


/-! ## one answer moves from `bk` to `dn` -/

@[reducible] def c2_adv (σ : Split) (b0 : Nat) (bk' : List Nat) : Split := { σ with bk := bk', dn := b0 :: σ.dn }

theorem c2_adv_perm {σ : Split} {b0 : Nat} {bk' L : List Nat} (hbk : σ.bk = b0 :: bk') (h : σ.all.Perm L) :
    (c2_adv σ b0 bk').all.Perm L := by
  refine List.Perm.trans ?_ h
  have e : (c2_adv σ b0 bk').all = (σ.wait ++ σ.sent ++ σ.atG ++ bk') ++ b0 :: σ.dn := rfl
  have e' : σ.all = (σ.wait ++ σ.sent ++ σ.atG) ++ b0 :: (bk' ++ σ.dn) := by simp [Split.all, hbk]
  rw [e, e']
  refine List.perm_middle.trans ?_
  refine List.Perm.trans ?_ List.perm_middle.symm
  simp

theorem c2_adv_open {σ : Split} {b0 : Nat} {bk' : List Nat} (hbk : σ.bk = b0 :: bk') :
    (c2_adv σ b0 bk').open_ = σ.open_ - 1 := by
  simp only [Split.open_, hbk, List.length_cons]; omega

theorem c2_adv_flags {σ : Split} {b0 : Nat} {bk' : List Nat} (hbk : σ.bk = b0 :: bk') (p : PK) (r : MmuReq) (n g : Nat) :
    flagsAt p r n (c2_adv σ b0 bk') g = flagsAt p r n σ g := by
  have e : g ∈ (c2_adv σ b0 bk').bk ++ (c2_adv σ b0 bk').dn ↔ g ∈ σ.bk ++ σ.dn := by
    simp only [hbk, List.mem_append, List.mem_cons]
    constructor
    · rintro (h | h | h) <;> simp [h]
    · rintro ((h | h) | h) <;> simp [h]
  unfold flagsAt
  by_cases hg : g ∈ σ.bk ++ σ.dn
  · rw [if_pos hg, if_pos (e.2 hg)]
  · rw [if_neg hg, if_neg (fun x => hg (e.1 x))]

theorem c2_head {s : Sys} {p : PK} {r : MmuReq} {σ : Split} {loc : Nat → BLoc} {a : Ans} {rest : List Ans}
    (hb : Bcast s p r σ loc) (hin : s.drv.gpuIn = a :: rest) :
    ansOf (cmdOf p r) = a ∧ ∃ b0 bk', σ.bk = b0 :: bk' ∧ rest = List.replicate bk'.length a := by
  have h := hb.gpuIn
  rw [hin] at h
  cases hbk : σ.bk with
  | nil => rw [hbk] at h; simp at h
  | cons b0 bk' =>
    rw [hbk] at h
    simp only [List.length_cons, List.replicate_succ, List.cons.injEq] at h
    exact ⟨h.1.symm, b0, bk', rfl, by rw [h.2, h.1]⟩

/-- not the last answer: the phase goes on -/
theorem c2_notlast {s : Sys} (h : Inv s) {p : PK} {r : MmuReq} {σ : Split} {loc : Nat → BLoc}
    (hp : p ≠ .mig) (hh : s.drv.handling = true) (hc : s.drv.cur = some r) (hr : ReqOK s r)
    (htc : s.drv.toCP = []) (hone : s.drv.one = false) (hb : Bcast s p r σ loc) (hw : WorldInv s .none)
    (hm : MmuInv s (if p = .drain ∨ p = .shoot then [r.id] else []))
    (hpg : p = .drain ∨ p = .shoot → PagesOK s r) (hrh : p = .restart ∨ p = .rdma → Rehomed s r)
    {b0 : Nat} {bk' : List Nat} (hbk : σ.bk = b0 :: bk') (dr sh mg rs rd : Nat)
    (hct : Ctrs { drain := dr, shoot := sh, mig := mg, restart := rs, rdma := rd } (some p) (σ.open_ - 1))
    (hne : σ.open_ - 1 ≠ 0) :
    Inv { s with drv := (c2_upd s.drv dr sh mg rs rd (List.replicate bk'.length (ansOf (cmdOf p r))) s.drv.toSend
      s.drv.cur s.drv.handling) } := by
  refine c2_frame _ _ _ _ _ _ _ _ _ h ?_
  refine Phase.bcast p r (c2_adv σ b0 bk') loc hp hh hc (c2_reqOK _ _ _ _ _ _ _ _ _ hr) ?_ htc hone ?_
    (c2_world _ _ _ _ _ _ _ _ _ hw) (c2_mmu _ _ _ _ _ _ _ _ _ hm) (fun x => c2_pagesOK _ _ _ _ _ _ _ _ _ (hpg x))
    (fun x => c2_rehomed _ _ _ _ _ _ _ _ _ (hrh x))
  · rw [c2_adv_open hbk]; exact hct
  · refine ⟨c2_adv_perm hbk hb.perm, hb.toSend, hb.gpuOut, rfl, ?_, hb.busy, ?_⟩
    · rw [c2_adv_open hbk]; omega
    · intro g hg
      have := hb.idle g hg
      rw [← c2_adv_flags hbk] at this
      exact this

/-- the last answer: everything is counted -/
theorem c2_last {σ : Split} {b0 : Nat} {bk' : List Nat} (hbk : σ.bk = b0 :: bk') (h1 : σ.open_ - 1 = 0) :
    σ.wait = [] ∧ σ.sent = [] ∧ σ.atG = [] ∧ bk' = [] := by
  simp only [Split.open_, hbk, List.length_cons] at h1
  refine ⟨List.eq_nil_of_length_eq_zero (by omega), List.eq_nil_of_length_eq_zero (by omega),
    List.eq_nil_of_length_eq_zero (by omega), List.eq_nil_of_length_eq_zero (by omega)⟩

theorem c2_flags_last {σ : Split} {p : PK} {r : MmuReq} {n : Nat} (hw : σ.wait = []) (hs : σ.sent = []) (ha : σ.atG = [])
    (hp : σ.all.Perm (targets p n r)) (g : Nat) :
    flagsAt p r n σ g = if g ∈ targets p n r then
      after (cmdOf p r) (flagsBefore (some p) n (accT r) g).1 (flagsBefore (some p) n (accT r) g).2
      else flagsBefore (some p) n (accT r) g := by
  have e : g ∈ σ.bk ++ σ.dn ↔ g ∈ targets p n r := by
    rw [← hp.mem_iff]; simp [Split.all, hw, hs, ha]
  unfold flagsAt
  by_cases hg : g ∈ σ.bk ++ σ.dn
  · rw [if_pos hg, if_pos (e.1 hg)]
  · rw [if_neg hg, if_neg (fun x => hg (e.2 x))]

theorem c2_fl_drain {σ : Split} {r : MmuReq} {n : Nat} (hw : σ.wait = []) (hs : σ.sent = []) (ha : σ.atG = [])
    (hp : σ.all.Perm (targets .drain n r)) (g : Nat) :
    flagsAt .drain r n σ g = flagsAt .shoot r n { wait := accT r } g := by
  rw [c2_flags_last hw hs ha hp]
  by_cases hg : g < n <;> simp [flagsAt, flagsBefore, after, cmdOf, targets, hg]

theorem c2_fl_restart {σ : Split} {r : MmuReq} {n : Nat} (hw : σ.wait = []) (hs : σ.sent = []) (ha : σ.atG = [])
    (hp : σ.all.Perm (targets .restart n r)) (g : Nat) :
    flagsAt .restart r n σ g = flagsAt .rdma r n { wait := List.range n } g := by
  rw [c2_flags_last hw hs ha hp]
  by_cases hg : g ∈ accT r <;> simp [flagsAt, flagsBefore, after, cmdOf, targets, hg]

theorem c2_fl_rdma {σ : Split} {r : MmuReq} {n : Nat} (hw : σ.wait = []) (hs : σ.sent = []) (ha : σ.atG = [])
    (hp : σ.all.Perm (targets .rdma n r)) (g : Nat) :
    flagsAt .rdma r n σ g = (false, false) := by
  rw [c2_flags_last hw hs ha hp]
  by_cases hg : g < n <;> simp [flagsBefore, after, cmdOf, targets, hg]


/-! ## the three theorems -/

theorem c2_flIn (fl : Option (MigCmd × MigAt)) {a : Ans} {rest : List Ans} (h : flIn fl = a :: rest) : a = .mig := by
  unfold flIn at h
  split at h
  · cases h; rfl
  · cases h

theorem inv_ret_drain {s : Sys} (h : Inv s) (rest : List Ans) (hin : s.drv.gpuIn = .drain :: rest) :
    Inv { s with drv := s.drv.ret.1 } := by
  have nf := h.nf
  cases h.ph with
  | idle hi _ _ _ => exfalso; have := hi.gpuIn; rw [hin] at this; cases this
  | mig r fl ws _ _ _ _ hm _ _ _ =>
    exfalso; have := hm.gpuIn; rw [hin] at this; cases c2_flIn fl this.symm
  | bcast p r σ loc hp hh hc hr hct htc hone hb hw hm hpg hrh =>
    obtain ⟨hans, b0, bk', hbk, hrest⟩ := c2_head hb hin
    cases p <;> simp [cmdOf, ansOf] at hans
    have hpos := hb.pos
    obtain ⟨c1, c2, c3, c4, c5⟩ := hct
    simp at c1 c2 c3 c4 c5
    by_cases hne : σ.open_ - 1 = 0
    · -- the last drain answer: shootdown
      obtain ⟨hwt, hst, hat, rfl⟩ := c2_last hbk hne
      have hrest' : rest = [] := hrest
      subst hrest'
      have hts : s.drv.toSend = [] := by rw [hb.toSend, hwt]; rfl
      have hgo : s.drv.gpuOut = [] := by rw [hb.gpuOut, hst]; rfl
      have e : s.drv.ret.1 = c2_upd s.drv 0 r.acc.length s.drv.mig s.drv.restart s.drv.rdma []
          ((accT r).map (fun g => (g, Cmd.shoot r.id))) s.drv.cur s.drv.handling := by
        rw [c2_ret_drain nf hin hc, c2_dec (by omega), c1, if_pos hne, hne, Nat.mod_eq_of_lt hr.accLt,
          c2_toAcc (.shoot r.id) r.acc { s.drv with drain := 0, gpuIn := [], shoot := r.acc.length } nf hr.accIn]
        simp only [hts, List.nil_append, accT, List.map_map]
        rfl
      rw [e]
      refine c2_frame _ _ _ _ _ _ _ _ _ h ?_
      rw [if_pos (Or.inl rfl)] at hm
      refine Phase.bcast .shoot r { wait := accT r } (fun _ => .cmd) (by decide) hh hc (c2_reqOK _ _ _ _ _ _ _ _ _ hr)
        ?_ htc hone ?_ (c2_world _ _ _ _ _ _ _ _ _ hw) ?_ (fun _ => c2_pagesOK _ _ _ _ _ _ _ _ _ (hpg (Or.inl rfl)))
        (fun x => by cases x <;> contradiction)
      · simp [Ctrs, Split.open_, accT, c3, c4, c5]
      · refine ⟨by simp [Split.all, targets], rfl, hgo, rfl, ?_, fun g hg => absurd hg (by simp), ?_⟩
        · have := hr.accNe
          simp [Split.open_, accT]; exact List.length_pos_iff.2 this
        · intro g _
          have := hb.idle g (by rw [hat]; simp)
          rw [c2_fl_drain hwt hst hat hb.perm] at this
          exact this
      · rw [if_pos (Or.inr rfl)]; exact c2_mmu _ _ _ _ _ _ _ _ _ hm
    · subst hrest
      have e : s.drv.ret.1 = c2_upd s.drv (σ.open_ - 1) s.drv.shoot s.drv.mig s.drv.restart s.drv.rdma
          (List.replicate bk'.length (ansOf (cmdOf .drain r))) s.drv.toSend s.drv.cur s.drv.handling := by
        rw [c2_ret_drain nf hin hc, c2_dec (by omega), c1, if_neg hne]
        rfl
      rw [e]
      exact c2_notlast h hp hh hc hr htc hone hb hw hm hpg hrh hbk _ _ _ _ _ (by simp [Ctrs, c2, c3, c4, c5]) hne


theorem inv_ret_restart {s : Sys} (h : Inv s) (rest : List Ans) (hin : s.drv.gpuIn = .restart :: rest) :
    Inv { s with drv := s.drv.ret.1 } := by
  have nf := h.nf
  have ng := h.ng
  cases h.ph with
  | idle hi _ _ _ => exfalso; have := hi.gpuIn; rw [hin] at this; cases this
  | mig r fl ws _ _ _ _ hm _ _ _ =>
    exfalso; have := hm.gpuIn; rw [hin] at this; cases c2_flIn fl this.symm
  | bcast p r σ loc hp hh hc hr hct htc hone hb hw hm hpg hrh =>
    obtain ⟨hans, b0, bk', hbk, hrest⟩ := c2_head hb hin
    cases p <;> simp [cmdOf, ansOf] at hans
    have hpos := hb.pos
    obtain ⟨c1, c2, c3, c4, c5⟩ := hct
    simp at c1 c2 c3 c4 c5
    by_cases hne : σ.open_ - 1 = 0
    · -- the last restart answer: RDMA restart
      obtain ⟨hwt, hst, hat, rfl⟩ := c2_last hbk hne
      have hrest' : rest = [] := hrest
      subst hrest'
      have hts : s.drv.toSend = [] := by rw [hb.toSend, hwt]; rfl
      have hgo : s.drv.gpuOut = [] := by rw [hb.gpuOut, hst]; rfl
      have e : s.drv.ret.1 = c2_upd s.drv s.drv.drain s.drv.shoot s.drv.mig 0 s.drv.ngpu []
          ((List.range s.drv.ngpu).map (fun g => (g, Cmd.rdmaRestart))) s.drv.cur s.drv.handling := by
        rw [c2_ret_restart nf hin, c2_dec (by omega), c4, if_pos hne, hne, c5, Nat.zero_add,
          Nat.mod_eq_of_lt ng.2.1, hts, List.nil_append]
      rw [e]
      refine c2_frame _ _ _ _ _ _ _ _ _ h ?_
      rw [if_neg (by decide)] at hm
      refine Phase.bcast .rdma r { wait := List.range s.drv.ngpu } (fun _ => .cmd) (by decide) hh hc
        (c2_reqOK _ _ _ _ _ _ _ _ _ hr) ?_ htc hone ?_ (c2_world _ _ _ _ _ _ _ _ _ hw) ?_
        (fun x => by cases x <;> contradiction) (fun _ => c2_rehomed _ _ _ _ _ _ _ _ _ (hrh (Or.inl rfl)))
      · simp [Ctrs, Split.open_, c1, c2, c3]
      · refine ⟨by simp [Split.all, targets], rfl, hgo, rfl, ?_, fun g hg => absurd hg (by simp), ?_⟩
        · simp [Split.open_]; omega
        · intro g _
          have := hb.idle g (by rw [hat]; simp)
          rw [c2_fl_restart hwt hst hat hb.perm] at this
          exact this
      · rw [if_neg (by decide)]; exact c2_mmu _ _ _ _ _ _ _ _ _ hm
    · subst hrest
      have e : s.drv.ret.1 = c2_upd s.drv s.drv.drain s.drv.shoot s.drv.mig (σ.open_ - 1) s.drv.rdma
          (List.replicate bk'.length (ansOf (cmdOf .restart r))) s.drv.toSend s.drv.cur s.drv.handling := by
        rw [c2_ret_restart nf hin, c2_dec (by omega), c4, if_neg hne]
        rfl
      rw [e]
      exact c2_notlast h hp hh hc hr htc hone hb hw hm hpg hrh hbk _ _ _ _ _ (by simp [Ctrs, c1, c2, c3, c5]) hne

theorem inv_ret_rdma {s : Sys} (h : Inv s) (rest : List Ans) (hin : s.drv.gpuIn = .rdmaRestart :: rest) :
    Inv { s with drv := s.drv.ret.1 } := by
  have nf := h.nf
  cases h.ph with
  | idle hi _ _ _ => exfalso; have := hi.gpuIn; rw [hin] at this; cases this
  | mig r fl ws _ _ _ _ hm _ _ _ =>
    exfalso; have := hm.gpuIn; rw [hin] at this; cases c2_flIn fl this.symm
  | bcast p r σ loc hp hh hc hr hct htc hone hb hw hm hpg hrh =>
    obtain ⟨hans, b0, bk', hbk, hrest⟩ := c2_head hb hin
    cases p <;> simp [cmdOf, ansOf] at hans
    have hpos := hb.pos
    obtain ⟨c1, c2, c3, c4, c5⟩ := hct
    simp at c1 c2 c3 c4 c5
    by_cases hne : σ.open_ - 1 = 0
    · -- the last RDMA restart answer: the request is done
      obtain ⟨hwt, hst, hat, rfl⟩ := c2_last hbk hne
      have hrest' : rest = [] := hrest
      subst hrest'
      have hts : s.drv.toSend = [] := by rw [hb.toSend, hwt]; rfl
      have hgo : s.drv.gpuOut = [] := by rw [hb.gpuOut, hst]; rfl
      have e : s.drv.ret.1 = c2_upd s.drv s.drv.drain s.drv.shoot s.drv.mig s.drv.restart 0 []
          s.drv.toSend none false := by
        rw [c2_ret_rdma nf hin, c2_dec (by omega), c5, if_pos hne, hne]
      rw [e]
      refine c2_frame _ _ _ _ _ _ _ _ _ h ?_
      rw [if_neg (by decide)] at hm
      refine Phase.idle ⟨rfl, rfl, ?_, hts, htc, hone, rfl, hgo⟩ ?_ (c2_world _ _ _ _ _ _ _ _ _ hw)
        (c2_mmu _ _ _ _ _ _ _ _ _ hm)
      · simp [Ctrs, c1, c2, c3, c4]
      · intro g
        have := hb.idle g (by rw [hat]; simp)
        rw [c2_fl_rdma hwt hst hat hb.perm] at this
        exact this
    · subst hrest
      have e : s.drv.ret.1 = c2_upd s.drv s.drv.drain s.drv.shoot s.drv.mig s.drv.restart (σ.open_ - 1)
          (List.replicate bk'.length (ansOf (cmdOf .rdma r))) s.drv.toSend s.drv.cur s.drv.handling := by
        rw [c2_ret_rdma nf hin, c2_dec (by omega), c5, if_neg hne]
        rfl
      rw [e]
      exact c2_notlast h hp hh hc hr htc hone hb hw hm hpg hrh hbk _ _ _ _ _ (by simp [Ctrs, c1, c2, c3, c4]) hne

end SY
end C19
