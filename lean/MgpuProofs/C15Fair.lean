import MgpuProofs.C15Loc
import MgpuProofs.C15Live
import MgpuProofs.C15Flush
/-! # C15 — liveness of the closed system: a decreasing measure

For a pending request `a`, `mu` counts the work left until `a`'s response enters the Top port:
the transactions up to and including `a` (two units each: retirement + a slot of the Top port),
the occupancy of the Top port's outgoing buffer, the position of the last of their forwarded
copies in the Bottom port's outgoing buffer, the copies the memory still has to answer (weighted
by the Bottom port's incoming capacity + 1) and the position of the last of their responses in
the Bottom port's incoming buffer.  No event other than a flush / restart increases `mu`; the
*helpful* events (memory takes / answers one of these copies, requester takes a response, a tick
that can retire the head or consume such a response) decrease it strictly. -/
namespace C15

/-- prefix of the transaction list up to and including the transaction of request `a` -/
def upTo (a : Nat) : List Tx → List Tx
  | [] => []
  | t :: ts => if t.req.id = a then [t] else t :: upTo a ts

/-- 1 + position of the last element of `l` that belongs to `ids` (0 if none) -/
def lastPos (ids : List Nat) : List Nat → Nat
  | [] => 0
  | x :: l => if lastPos ids l > 0 ∨ x ∈ ids then lastPos ids l + 1 else 0

/-- number of elements of `l` that belong to `ids` -/
def cnt (ids : List Nat) (l : List Nat) : Nat := (l.filter (fun x => decide (x ∈ ids))).length

/-! ### `lastPos`, `cnt` -/

theorem lastPos_le (ids l) : lastPos ids l ≤ l.length := by
  induction l with
  | nil => simp [lastPos]
  | cons x l ih => simp only [lastPos]; split <;> simp <;> omega

theorem lastPos_tail (ids : List Nat) (x : Nat) (l : List Nat) :
    lastPos ids l = lastPos ids (x :: l) - 1 := by
  simp only [lastPos]
  split
  · omega
  · rename_i h
    have : ¬ lastPos ids l > 0 := fun hp => h (Or.inl hp)
    omega

theorem lastPos_drop_one (ids : List Nat) (l : List Nat) : lastPos ids (l.drop 1) = lastPos ids l - 1 := by
  cases l with
  | nil => simp [lastPos]
  | cons x l => simp only [List.drop_one, List.tail_cons]; exact lastPos_tail ids x l

theorem lastPos_append_not (ids : List Nat) (l : List Nat) (x : Nat) (h : x ∉ ids) :
    lastPos ids (l ++ [x]) = lastPos ids l := by
  induction l with
  | nil => simp [lastPos, h]
  | cons y l ih => simp only [List.cons_append, lastPos, ih]

theorem lastPos_append_mem (ids : List Nat) (l : List Nat) (x : Nat) (h : x ∈ ids) :
    lastPos ids (l ++ [x]) = l.length + 1 := by
  induction l with
  | nil => simp [lastPos, h]
  | cons y l ih => simp only [List.cons_append, lastPos, ih]; simp

theorem lastPos_congr (ids ids' : List Nat) (l : List Nat) (h : ∀ x ∈ l, x ∈ ids ↔ x ∈ ids') :
    lastPos ids l = lastPos ids' l := by
  induction l with
  | nil => rfl
  | cons y l ih =>
    have := ih (fun x hx => h x (List.mem_cons_of_mem _ hx))
    simp only [lastPos, this, h y List.mem_cons_self]

theorem lastPos_pos_of_mem (ids : List Nat) (l : List Nat) (x : Nat) (hx : x ∈ l) (hi : x ∈ ids) :
    0 < lastPos ids l := by
  induction l with
  | nil => cases hx
  | cons y l ih =>
    simp only [lastPos]
    rcases List.mem_cons.1 hx with e | hx
    · subst e; simp [hi]
    · have := ih hx; simp [this]

theorem cnt_congr (ids ids' : List Nat) (l : List Nat) (h : ∀ x ∈ l, x ∈ ids ↔ x ∈ ids') :
    cnt ids l = cnt ids' l := by
  unfold cnt
  congr 1
  apply List.filter_congr
  intro x hx
  simp [h x hx]

theorem cnt_cons (ids : List Nat) (x : Nat) (l : List Nat) :
    cnt ids (x :: l) = (if x ∈ ids then 1 else 0) + cnt ids l := by
  unfold cnt
  by_cases h : x ∈ ids <;> simp [h] <;> omega

theorem cnt_append (ids : List Nat) (l l' : List Nat) : cnt ids (l ++ l') = cnt ids l + cnt ids l' := by
  unfold cnt; simp [List.filter_append]

theorem cnt_nil (ids : List Nat) : cnt ids [] = 0 := rfl

theorem cnt_eraseIdx {α} (f : α → Nat) (ids : List Nat) :
    ∀ (m : List α) (j : Nat) (b : α), m[j]? = some b →
      cnt ids ((m.eraseIdx j).map f) + (if f b ∈ ids then 1 else 0) = cnt ids (m.map f)
  | [], j, b, h => by simp at h
  | a :: m, 0, b, h => by
    simp at h; subst h
    simp only [List.eraseIdx_cons_zero, List.map_cons, cnt_cons]; omega
  | a :: m, j + 1, b, h => by
    simp at h
    have ih := cnt_eraseIdx f ids m j b h
    simp only [List.eraseIdx_cons_succ, List.map_cons, cnt_cons]; omega

/-! ### `upTo` -/

theorem upTo_sub (a : Nat) : ∀ (l : List Tx) (t : Tx), t ∈ upTo a l → t ∈ l
  | [], t, h => by simp [upTo] at h
  | x :: l, t, h => by
    simp only [upTo] at h
    split at h
    · simp at h; subst h; exact List.mem_cons_self
    · rcases List.mem_cons.1 h with e | h
      · subst e; exact List.mem_cons_self
      · exact List.mem_cons_of_mem _ (upTo_sub a l t h)

theorem upTo_append (a : Nat) (x : Tx) : ∀ (l : List Tx), a ∈ l.map (·.req.id) → upTo a (l ++ [x]) = upTo a l
  | [], h => by simp at h
  | y :: l, h => by
    simp only [List.cons_append, upTo]
    split
    · rfl
    · rename_i hy
      simp only [List.map_cons, List.mem_cons] at h
      rcases h with e | h
      · exact absurd e.symm hy
      · rw [upTo_append a x l h]

theorem upTo_setRsp (a b : Nat) (p : Rsp) : ∀ (l : List Tx), upTo a (setRsp b p l) = setRsp b p (upTo a l)
  | [] => rfl
  | t :: l => by
    simp only [setRsp]
    split
    · simp only [upTo]
      split <;> simp [setRsp, *]
    · rename_i hb
      simp only [upTo]
      split
      · simp [setRsp, hb]
      · simp [setRsp, hb, upTo_setRsp a b p l]

theorem upTo_ids_setRsp (a b : Nat) (p : Rsp) (l : List Tx) :
    (upTo a (setRsp b p l)).map (·.botId) = (upTo a l).map (·.botId) := by
  rw [upTo_setRsp, setRsp_map_bot]

theorem head_mem_upTo (a : Nat) (t : Tx) (l : List Tx) : t ∈ upTo a (t :: l) := by
  simp only [upTo]; split <;> exact List.mem_cons_self

theorem upTo_cons_ne (a : Nat) (t : Tx) (l : List Tx) (h : t.req.id ≠ a) : upTo a (t :: l) = t :: upTo a l := by
  simp [upTo, h]

/-! ### the measure and the liveness window -/

/-- tickets of the transactions up to and including request `a` -/
def pids (a : Nat) (s : St) : List Nat := (upTo a s.txs).map (·.botId)

def mu (c : Cfg) (a : Nat) (s : St) (m : List BReq) : Nat :=
  2 * (pids a s).length + s.topOut.length + lastPos (pids a s) (s.botOut.map (·.id))
    + (c.botInCap + 1) * (cnt (pids a s) (s.botOut.map (·.id)) + cnt (pids a s) (m.map (·.id)))
    + lastPos (pids a s) (s.botIn.map (·.1))

/-- the window in which liveness is claimed for request `a`: `a` is pending, the ROB is neither
    faulted nor flushing, no control message waits, the requests up to `a` name a requester -/
structure Win (c : Cfg) (a : Nat) (s : St) (m : List BReq) (o : List TRsp) : Prop where
  sinv : SInv c s m o
  nofault : s.fault = none
  noflush : s.flushing = false
  noctl : s.ctlIn = []
  pend : a ∈ s.txs.map (·.req.id)
  srcs : ∀ t ∈ upTo a s.txs, t.req.src ≠ 0
  bu : c.bottomUnit = true

/-- the window conditions that are not part of the system invariant -/
structure Window (c : Cfg) (a : Nat) (s : St) : Prop where
  nofault : s.fault = none
  noflush : s.flushing = false
  noctl : s.ctlIn = []
  pend : a ∈ s.txs.map (·.req.id)
  srcs : ∀ t ∈ upTo a s.txs, t.req.src ≠ 0
  bu : c.bottomUnit = true

theorem Win.of {c : Cfg} {a : Nat} {s : St} {m : List BReq} {o : List TRsp} (h : SInv c s m o)
    (w : Window c a s) : Win c a s m o :=
  { sinv := h, nofault := w.nofault, noflush := w.noflush, noctl := w.noctl, pend := w.pend,
    srcs := w.srcs, bu := w.bu }

theorem Win.window {c : Cfg} {a : Nat} {s : St} {m : List BReq} {o : List TRsp} (h : Win c a s m o) :
    Window c a s :=
  { nofault := h.nofault, noflush := h.noflush, noctl := h.noctl, pend := h.pend, srcs := h.srcs, bu := h.bu }

/-- the response to request `a` has entered the Top port -/
def Done (a : Nat) (s : St) : Prop := a ∈ s.delivered.map (·.rspTo)

theorem Done.ext {a : Nat} {s s' : St} (h : DelExt s s') (d : Done a s) : Done a s' := by
  obtain ⟨more, e⟩ := h
  unfold Done at *
  rw [e, List.map_append]; exact List.mem_append_left _ d

/-- `bottomUp` can retire the head now -/
def Ready (c : Cfg) (s : St) : Prop :=
  ∃ t rest p, s.txs = t :: rest ∧ t.rsp = some p ∧ s.topOut.length < c.topOutCap

/-- post-states of the three successful stage moves -/
def retireSt (s : St) (t : Tx) (rest : List Tx) (p : Rsp) : St :=
  { s with
    txs := rest
    table := s.table.erase t.botId
    topOut := s.topOut ++ [⟨t.req.id, t.req.src, p⟩]
    delivered := s.delivered ++ [⟨t.req.id, t.req.src, p⟩] }

def parsedSt (s : St) (b : Nat) (p : Rsp) (rest : List (Nat × Rsp)) : St :=
  { s with
    botIn := rest
    txs := setRsp b p s.txs
    answered := s.answered ++ [(b, p)] }

def acceptSt (s : St) (r : Req) (rest : List Req) : St :=
  { s with
    topIn := rest
    txs := s.txs ++ [⟨r, s.nextBot, none⟩]
    table := s.table ++ [s.nextBot]
    nextBot := s.nextBot + 1
    botOut := s.botOut ++ [dupReq s.nextBot r]
    fwd := s.fwd ++ [(r, dupReq s.nextBot r)] }

theorem pids_sub_table {c : Cfg} {a : Nat} {s : St} (h : Inv c s) : ∀ x ∈ pids a s, x ∈ s.table := by
  intro x hx
  obtain ⟨t, ht, rfl⟩ := List.mem_map.1 hx
  rw [h.table]; exact List.mem_map.2 ⟨t, upTo_sub a _ t ht, rfl⟩

theorem bottomUp_mu (c : Cfg) (a : Nat) (s : St) (m : List BReq) (o : List TRsp) (h : Win c a s m o) :
    Done a (bottomUp c s).1 ∨
    (Win c a (bottomUp c s).1 m o ∧ mu c a (bottomUp c s).1 m ≤ mu c a s m ∧
      lastPos (pids a (bottomUp c s).1) ((bottomUp c s).1.botIn.map (·.1)) = lastPos (pids a s) (s.botIn.map (·.1)) ∧
      (Ready c s → mu c a (bottomUp c s).1 m < mu c a s m)) := by
  have hsinv := bottomUp_sinv c s m o h.sinv
  have hnf : s.fault.isSome = false := by simp [h.nofault]
  cases hs : s.txs with
  | nil => have := h.pend; rw [hs] at this; simp at this
  | cons t rest =>
    have same : bottomUp c s = (s, false) → Done a (bottomUp c s).1 ∨
        (Win c a (bottomUp c s).1 m o ∧ mu c a (bottomUp c s).1 m ≤ mu c a s m ∧
        lastPos (pids a (bottomUp c s).1) ((bottomUp c s).1.botIn.map (·.1)) = lastPos (pids a s) (s.botIn.map (·.1)) ∧
        (Ready c s → mu c a (bottomUp c s).1 m < mu c a s m)) := by
      intro e
      refine Or.inr ?_
      rw [e]
      refine ⟨h, Nat.le_refl _, rfl, ?_⟩
      intro ⟨t', rest', p', h1, h2, h3⟩
      exfalso
      rw [hs] at h1
      injection h1 with h1 _
      subst h1
      have : bottomUp c s ≠ (s, false) := by
        have hsrc := h.srcs t (by rw [hs]; exact head_mem_upTo a t rest)
        unfold bottomUp
        simp [hnf, hs, h2, hsrc, h3]
      exact this e
    cases hp : t.rsp with
    | none => exact same (by unfold bottomUp; simp [hnf, hs, hp])
    | some p =>
      have hsrc := h.srcs t (by rw [hs]; exact head_mem_upTo a t rest)
      by_cases hroom : s.topOut.length < c.topOutCap
      · have e : bottomUp c s = (retireSt s t rest p, true) := by
          unfold bottomUp retireSt
          simp [hnf, hs, hp, hsrc, hroom]
        rw [e] at hsinv ⊢
        dsimp only at hsinv ⊢
        by_cases ha : t.req.id = a
        · left
          unfold Done retireSt
          simp [ha]
        · right
          have hpend : a ∈ rest.map (·.req.id) := by
            have := h.pend; rw [hs] at this
            simp only [List.map_cons, List.mem_cons] at this
            rcases this with e' | e'
            · exact absurd e'.symm ha
            · exact e'
          have hup : upTo a s.txs = t :: upTo a rest := by rw [hs]; exact upTo_cons_ne a t rest ha
          have hpids : pids a s = t.botId :: (upTo a rest).map (·.botId) := by
            unfold pids; rw [hup]; rfl
          have hnotin : t.botId ∉ chanOf s m :=
            h.sinv.someOut t (by rw [hs]; exact List.mem_cons_self) p hp
          have hiff : ∀ x ∈ chanOf s m, x ∈ pids a s ↔ x ∈ (upTo a rest).map (·.botId) := by
            intro x hx
            rw [hpids]
            constructor
            · intro hm
              rcases List.mem_cons.1 hm with e' | hm
              · subst e'; exact absurd hx hnotin
              · exact hm
            · exact List.mem_cons_of_mem _
          have c1 := lastPos_congr _ _ (s.botOut.map (·.id)) (fun x hx => hiff x (mem_chanOf.2 (Or.inl hx)))
          have c2 := cnt_congr _ _ (s.botOut.map (·.id)) (fun x hx => hiff x (mem_chanOf.2 (Or.inl hx)))
          have c3 := cnt_congr _ _ (m.map (·.id)) (fun x hx => hiff x (mem_chanOf.2 (Or.inr (Or.inl hx))))
          have c4 := lastPos_congr _ _ (s.botIn.map (·.1)) (fun x hx => hiff x (mem_chanOf.2 (Or.inr (Or.inr hx))))
          have hmu : mu c a (retireSt s t rest p) m + 1 = mu c a s m := by
            simp only [mu]
            rw [c1, c2, c3, c4, hpids]
            simp only [pids, retireSt, List.length_cons, List.length_append, List.length_map, List.length_nil]
            omega
          refine ⟨{ sinv := hsinv, nofault := h.nofault, noflush := h.noflush, noctl := h.noctl,
                    pend := hpend, srcs := ?_, bu := h.bu }, by omega, ?_, fun _ => by omega⟩
          · intro t' ht'
            exact h.srcs t' (by rw [hup]; exact List.mem_cons_of_mem _ ht')
          · exact c4.symm
      · exact same (by unfold bottomUp; simp [hnf, hs, hp, hsrc, hroom])

theorem parseBottom_mu (c : Cfg) (a : Nat) (s : St) (m : List BReq) (o : List TRsp) (h : Win c a s m o) :
    Win c a (parseBottom s).1 m o ∧ mu c a (parseBottom s).1 m ≤ mu c a s m ∧
      (0 < lastPos (pids a s) (s.botIn.map (·.1)) → mu c a (parseBottom s).1 m < mu c a s m) := by
  have hsinv := parseBottom_sinv c s m o h.sinv
  have hnf : s.fault.isSome = false := by simp [h.nofault]
  cases hs : s.botIn with
  | nil =>
    have e : parseBottom s = (s, false) := by unfold parseBottom; simp [hnf, hs]
    rw [e]
    exact ⟨h, Nat.le_refl _, by simp [lastPos]⟩
  | cons bp rest =>
    obtain ⟨b, p⟩ := bp
    have htail := lastPos_tail (pids a s) b (rest.map (·.1))
    by_cases hb : b ∈ s.table
    · have e : parseBottom s = (parsedSt s b p rest, true) := by
        unfold parseBottom parsedSt; simp [hnf, hs, hb]
      rw [e] at hsinv ⊢
      dsimp only at hsinv ⊢
      have hpids : pids a (parsedSt s b p rest) = pids a s := upTo_ids_setRsp a b p s.txs
      refine ⟨{ sinv := hsinv, nofault := h.nofault, noflush := h.noflush, noctl := h.noctl,
                pend := ?_, srcs := ?_, bu := h.bu }, ?_, ?_⟩
      · show a ∈ (setRsp b p s.txs).map (·.req.id)
        rw [setRsp_map_id]; exact h.pend
      · intro t' ht'
        have ht' : t' ∈ setRsp b p (upTo a s.txs) := by rw [← upTo_setRsp]; exact ht'
        obtain ⟨t, ht, h1, _⟩ := mem_setRsp ht'
        rw [h1]; exact h.srcs t ht
      · simp only [mu, hpids, hs, List.map_cons]
        simp only [parsedSt]
        omega
      · intro hpos
        simp only [mu, hpids, hs, List.map_cons] at hpos ⊢
        simp only [parsedSt]
        omega
    · have e : parseBottom s = ({ s with botIn := rest }, true) := by
        unfold parseBottom; simp [hnf, hs, hb]
      rw [e] at hsinv ⊢
      have hpids : pids a { s with botIn := rest } = pids a s := rfl
      refine ⟨{ sinv := hsinv, nofault := h.nofault, noflush := h.noflush, noctl := h.noctl,
                pend := h.pend, srcs := h.srcs, bu := h.bu }, ?_, ?_⟩
      · simp only [mu, hpids, hs, List.map_cons]
        omega
      · intro hpos
        simp only [mu, hpids, hs, List.map_cons] at hpos ⊢
        omega

theorem topDown_mu (c : Cfg) (a : Nat) (s : St) (m : List BReq) (o : List TRsp) (h : Win c a s m o) :
    Win c a (topDown c s).1 m o ∧ mu c a (topDown c s).1 m ≤ mu c a s m := by
  have hsinv := topDown_sinv c s m o h.sinv h.noflush
  have hnf : s.fault.isSome = false := by simp [h.nofault]
  cases hs : s.topIn with
  | nil =>
    have e : topDown c s = (s, false) := by unfold topDown; simp [hnf, hs]
    rw [e]; exact ⟨h, Nat.le_refl _⟩
  | cons r rest =>
    by_cases hfull : s.txs.length ≥ c.cap
    · have e : topDown c s = (s, false) := by unfold topDown; simp [hnf, hs, hfull]
      rw [e]; exact ⟨h, Nat.le_refl _⟩
    · by_cases hbo : s.botOut.length ≥ c.botOutCap
      · have e : topDown c s = ({ s with nextBot := s.nextBot + 1 }, false) := by
          unfold topDown; simp [hnf, hs, hfull, h.bu, hbo]
        rw [e] at hsinv ⊢
        exact ⟨{ sinv := hsinv, nofault := h.nofault, noflush := h.noflush, noctl := h.noctl,
                 pend := h.pend, srcs := h.srcs, bu := h.bu }, Nat.le_refl _⟩
      · have e : topDown c s = (acceptSt s r rest, true) := by
          unfold topDown acceptSt; simp [hnf, hs, hfull, h.bu, hbo]
        rw [e] at hsinv ⊢
        dsimp only at hsinv ⊢
        have hup : upTo a (s.txs ++ [⟨r, s.nextBot, none⟩]) = upTo a s.txs := upTo_append a _ _ h.pend
        have hnew : s.nextBot ∉ pids a s := by
          intro hm
          exact Nat.lt_irrefl _ (h.sinv.inv.botFresh _ (pids_sub_table h.sinv.inv _ hm))
        refine ⟨{ sinv := hsinv, nofault := h.nofault, noflush := h.noflush, noctl := h.noctl,
                  pend := ?_, srcs := ?_, bu := h.bu }, ?_⟩
        · show a ∈ (acceptSt s r rest).txs.map (·.req.id)
          simp only [acceptSt]
          rw [List.map_append]; exact List.mem_append_left _ h.pend
        · intro t ht
          have ht : t ∈ upTo a (acceptSt s r rest).txs := ht
          simp only [acceptSt] at ht
          rw [hup] at ht; exact h.srcs t ht
        · have hpids : pids a (acceptSt s r rest) = pids a s := by
            unfold pids; exact congrArg _ hup
          simp only [mu, hpids]
          simp only [acceptSt, List.map_append, List.map_cons, List.map_nil, dupReq_id]
          rw [lastPos_append_not _ _ _ hnew, cnt_append, cnt_cons, cnt_nil]
          simp [hnew]

theorem win_mu_pos {c : Cfg} {a : Nat} {s : St} {m : List BReq} {o : List TRsp} (h : Win c a s m o) :
    2 ≤ mu c a s m := by
  have : 1 ≤ (pids a s).length := by
    unfold pids
    rw [List.length_map]
    cases hs : s.txs with
    | nil => have := h.pend; rw [hs] at this; simp at this
    | cons t rest => simp only [upTo]; split <;> simp
  simp only [mu]; omega

theorem iterP_succ (f : St → St × Bool) (n : Nat) (sb : St × Bool) :
    iterP f (n + 1) sb = iterP f n ((f sb.1).1, sb.2 || (f sb.1).2) := rfl

theorem bottomUp_botIn (c : Cfg) (s : St) : (bottomUp c s).1.botIn = s.botIn := by
  unfold bottomUp; repeat' split
  all_goals rfl

theorem topDown_botIn (c : Cfg) (s : St) : (topDown c s).1.botIn = s.botIn := by
  unfold topDown; repeat' split
  all_goals rfl

theorem parseBottom_botIn_le (s : St) : (parseBottom s).1.botIn.length ≤ s.botIn.length := by
  unfold parseBottom; repeat' split
  all_goals simp_all

theorem parseBottom_botIn_lt (s : St) (hf : s.fault = none) (hb : s.botIn ≠ []) :
    (parseBottom s).1.botIn.length < s.botIn.length := by
  unfold parseBottom
  simp only [hf, Option.isSome_none, Bool.false_eq_true, if_false]
  split
  · rename_i h; exact absurd h hb
  · rename_i b p rest h
    split <;> simp [h]

theorem tick_mu (c : Cfg) (a : Nat) (s : St) (m : List BReq) (o : List TRsp) (h : Win c a s m o)
    (hw : 1 ≤ c.width) :
    Done a (tick c s).1 ∨
    (Win c a (tick c s).1 m o ∧ mu c a (tick c s).1 m ≤ mu c a s m ∧
      ((Ready c s ∨ 0 < lastPos (pids a s) (s.botIn.map (·.1))) → mu c a (tick c s).1 m < mu c a s m) ∧
      (s.botIn ≠ [] → (tick c s).1.botIn.length < s.botIn.length)) := by
  obtain ⟨n, hn⟩ : ∃ n, c.width = n + 1 := ⟨c.width - 1, by omega⟩
  have hp : processCtl c s = (s, false) := by unfold processCtl; rw [h.noctl]
  have ht : (tick c s).1 = (runPipeline c s).1 := by
    unfold tick
    simp [h.nofault, hp, h.noflush]
  rw [ht]
  unfold runPipeline
  rw [hn]
  let Q : Nat → Nat → St → Prop := fun k B s' => Done a s' ∨ (Win c a s' m o ∧ mu c a s' m ≤ k ∧
    s'.botIn.length ≤ B)
  let P : Nat → St → Prop := fun k s' => Done a s' ∨ (Win c a s' m o ∧ mu c a s' m ≤ k ∧
    lastPos (pids a s') (s'.botIn.map (·.1)) = lastPos (pids a s) (s.botIn.map (·.1)) ∧ s'.botIn = s.botIn)
  have stepB : ∀ k s', P k s' → P k (bottomUp c s').1 := by
    intro k s' hs'
    rcases hs' with d | ⟨w, le, pe, be⟩
    · exact Or.inl (d.ext (bottomUp_del c s'))
    · rcases bottomUp_mu c a s' m o w with d | ⟨w', le', pe', _⟩
      · exact Or.inl d
      · exact Or.inr ⟨w', Nat.le_trans le' le, pe'.trans pe, (bottomUp_botIn c s').trans be⟩
  have stepP : ∀ k B s', Q k B s' → Q k B (parseBottom s').1 := by
    intro k B s' hs'
    rcases hs' with d | ⟨w, le, bl⟩
    · exact Or.inl (d.ext (parseBottom_del s'))
    · obtain ⟨w', le', _⟩ := parseBottom_mu c a s' m o w
      exact Or.inr ⟨w', Nat.le_trans le' le, Nat.le_trans (parseBottom_botIn_le s') bl⟩
  have stepT : ∀ k B s', Q k B s' → Q k B (topDown c s').1 := by
    intro k B s' hs'
    rcases hs' with d | ⟨w, le, bl⟩
    · exact Or.inl (d.ext (topDown_del c s'))
    · obtain ⟨w', le'⟩ := topDown_mu c a s' m o w
      exact Or.inr ⟨w', Nat.le_trans le' le, by rw [topDown_botIn]; exact bl⟩
  have hpos := win_mu_pos h
  -- first `bottomUp`
  obtain ⟨k1, hk1, hk1', hP1⟩ : ∃ k1, k1 ≤ mu c a s m ∧ (Ready c s → k1 < mu c a s m) ∧ P k1 (bottomUp c s).1 := by
    rcases bottomUp_mu c a s m o h with d | ⟨w, le, pe, st⟩
    · exact ⟨0, Nat.zero_le _, fun _ => by omega, Or.inl d⟩
    · exact ⟨_, le, st, Or.inr ⟨w, Nat.le_refl _, pe, bottomUp_botIn c s⟩⟩
  rw [iterP_succ (bottomUp c)]
  have hPB := iterP_pres (P := P k1) (stepB k1) n ((bottomUp c (s, false).1).1, (s, false).2 || (bottomUp c (s, false).1).2) hP1
  generalize iterP (bottomUp c) n ((bottomUp c (s, false).1).1, (s, false).2 || (bottomUp c (s, false).1).2) = sB at hPB ⊢
  -- first `parseBottom`
  obtain ⟨k2, B, hk2, hk2', hB, hQ⟩ : ∃ k2 B, k2 ≤ k1 ∧
      (0 < lastPos (pids a s) (s.botIn.map (·.1)) → k2 < mu c a s m) ∧
      (s.botIn ≠ [] → B < s.botIn.length) ∧ Q k2 B (parseBottom sB.1).1 := by
    rcases hPB with d | ⟨w, le, pe, be⟩
    · refine ⟨0, 0, Nat.zero_le _, fun _ => by omega, ?_, Or.inl (d.ext (parseBottom_del sB.1))⟩
      intro hne
      cases hb : s.botIn with
      | nil => exact absurd hb hne
      | cons x l => simp
    · obtain ⟨w', le', st⟩ := parseBottom_mu c a sB.1 m o w
      refine ⟨_, _, Nat.le_trans le' le, ?_, ?_, Or.inr ⟨w', Nat.le_refl _, Nat.le_refl _⟩⟩
      · intro hL
        have := st (by rw [pe]; exact hL)
        omega
      · intro hne
        have := parseBottom_botIn_lt sB.1 w.nofault (by rw [be]; exact hne)
        rw [be] at this; exact this
  rw [iterP_succ parseBottom]
  have hQP := iterP_pres (P := Q k2 B) (stepP k2 B) n ((parseBottom sB.1).1, sB.2 || (parseBottom sB.1).2) hQ
  generalize iterP parseBottom n ((parseBottom sB.1).1, sB.2 || (parseBottom sB.1).2) = sP at hQP ⊢
  have hQT := iterP_pres (P := Q k2 B) (stepT k2 B) (n + 1) sP hQP
  rcases hQT with d | ⟨w, le, bl⟩
  · exact Or.inl d
  · refine Or.inr ⟨w, by omega, ?_, ?_⟩
    · rintro (hr | hL)
      · have := hk1' hr; omega
      · have := hk2' hL; omega
    · intro hne
      have := hB hne; omega

/-! ### events of the closed system -/

def readyB (c : Cfg) (s : St) : Bool :=
  match s.txs with
  | t :: _ => t.rsp.isSome && decide (s.topOut.length < c.topOutCap)
  | [] => false

theorem readyB_iff (c : Cfg) (s : St) : readyB c s = true ↔ Ready c s := by
  unfold readyB Ready
  cases hs : s.txs with
  | nil => simp
  | cons t rest =>
    constructor
    · intro h
      simp only [Bool.and_eq_true, decide_eq_true_eq] at h
      obtain ⟨p, hp⟩ := Option.isSome_iff_exists.1 h.1
      exact ⟨t, rest, p, rfl, hp, h.2⟩
    · rintro ⟨t', rest', p, h1, h2, h3⟩
      injection h1 with h1 _
      subst h1
      simp [h2, h3]

/-- the events that bring request `a` closer to its response -/
def helpful (c : Cfg) (a : Nat) (σ : Sys) : Ev → Bool
  | .tick => readyB c σ.rob || decide (0 < lastPos (pids a σ.rob) (σ.rob.botIn.map (·.1)))
  | .memTake => decide (0 < lastPos (pids a σ.rob) (σ.rob.botOut.map (·.id)))
  | .memAnswer j _ =>
    match σ.mem[j]? with
    | some b => decide (b.id ∈ pids a σ.rob) && decide (σ.rob.botIn.length < c.botInCap)
    | none => false
  | .takeRsp => !σ.rob.topOut.isEmpty
  | _ => false

def isCtl : Ev → Bool
  | .ctl _ => true
  | _ => false

def Sys.Win (c : Cfg) (a : Nat) (σ : Sys) : Prop := C15.Win c a σ.rob σ.mem σ.out
def Sys.mu (c : Cfg) (a : Nat) (σ : Sys) : Nat := C15.mu c a σ.rob σ.mem
def Sys.Done (a : Nat) (σ : Sys) : Prop := C15.Done a σ.rob

theorem sysStep_mu (c : Cfg) (a : Nat) (σ : Sys) (e : Ev) (h : σ.Win c a) (hw : 1 ≤ c.width)
    (hne : isCtl e = false) :
    (sysStep c σ e).Done a ∨
    ((sysStep c σ e).Win c a ∧ (sysStep c σ e).mu c a ≤ σ.mu c a ∧
      (helpful c a σ e = true → (sysStep c σ e).mu c a < σ.mu c a)) := by
  unfold Sys.Win Sys.mu Sys.Done at *
  have same : Done a σ.rob ∨ (Win c a σ.rob σ.mem σ.out ∧ mu c a σ.rob σ.mem ≤ mu c a σ.rob σ.mem ∧
      (False → mu c a σ.rob σ.mem < mu c a σ.rob σ.mem)) := Or.inr ⟨h, Nat.le_refl _, fun f => f.elim⟩
  cases e with
  | ctl x => simp [isCtl] at hne
  | tick =>
    rcases tick_mu c a σ.rob σ.mem σ.out h hw with d | ⟨w, le, st, _⟩
    · exact Or.inl d
    · refine Or.inr ⟨w, le, ?_⟩
      intro hh
      apply st
      simp only [helpful, Bool.or_eq_true, decide_eq_true_eq] at hh
      rcases hh with hh | hh
      · exact Or.inl ((readyB_iff c σ.rob).1 hh)
      · exact Or.inr hh
  | arrive q =>
    refine Or.inr ?_
    have hs := top_sinv c σ.rob σ.mem σ.out q h.sinv
    simp only [sysStep, helpful]
    revert hs
    simp only [step]
    split
    · intro hs
      exact ⟨{ sinv := hs, nofault := h.nofault, noflush := h.noflush, noctl := h.noctl, pend := h.pend,
               srcs := h.srcs, bu := h.bu }, Nat.le_refl _, fun f => by cases f⟩
    · intro _; exact ⟨h, Nat.le_refl _, fun f => by cases f⟩
  | takeAck =>
    refine Or.inr ?_
    have hs := drainCtl_sinv c σ.rob σ.mem σ.out h.sinv
    exact ⟨{ sinv := hs, nofault := h.nofault, noflush := h.noflush, noctl := h.noctl, pend := h.pend,
             srcs := h.srcs, bu := h.bu }, Nat.le_refl _, fun f => by cases f⟩
  | memTake =>
    refine Or.inr ?_
    simp only [sysStep, helpful]
    cases hb : σ.rob.botOut with
    | nil => simp only []; exact ⟨h, Nat.le_refl _, by simp [lastPos]⟩
    | cons b rest =>
      simp only []
      have hs := memTake_sinv c σ.rob σ.mem σ.out b rest hb h.sinv
      have hpids : pids a (step c σ.rob .drainBot) = pids a σ.rob := rfl
      have htail := lastPos_tail (pids a σ.rob) b.id (rest.map (·.id))
      refine ⟨{ sinv := hs, nofault := h.nofault, noflush := h.noflush, noctl := h.noctl, pend := h.pend,
                srcs := h.srcs, bu := h.bu }, ?_, ?_⟩
      · simp only [mu, hpids]
        simp only [step, hb, List.drop_one, List.tail_cons, List.map_cons, List.map_append, List.map_nil,
          cnt_cons, cnt_append, cnt_nil] at htail ⊢
        generalize cnt (pids a σ.rob) (rest.map (·.id)) = X at *
        generalize cnt (pids a σ.rob) (σ.mem.map (·.id)) = Y at *
        have e1 : ((if b.id ∈ pids a σ.rob then 1 else 0) + X + Y) = (X + (Y + ((if b.id ∈ pids a σ.rob then 1 else 0) + 0))) := by omega
        rw [e1]; omega
      · intro hpos
        simp only [decide_eq_true_eq] at hpos
        simp only [mu, hpids]
        simp only [step, hb, List.drop_one, List.tail_cons, List.map_cons, List.map_append, List.map_nil,
          cnt_cons, cnt_append, cnt_nil] at htail hpos ⊢
        generalize cnt (pids a σ.rob) (rest.map (·.id)) = X at *
        generalize cnt (pids a σ.rob) (σ.mem.map (·.id)) = Y at *
        have e1 : ((if b.id ∈ pids a σ.rob then 1 else 0) + X + Y) = (X + (Y + ((if b.id ∈ pids a σ.rob then 1 else 0) + 0))) := by omega
        rw [e1]; omega
  | takeRsp =>
    refine Or.inr ?_
    simp only [sysStep, helpful]
    cases hr : σ.rob.topOut with
    | nil => simp only []; exact ⟨h, Nat.le_refl _, by simp⟩
    | cons r rest =>
      simp only []
      have hs := takeRsp_sinv c σ.rob σ.mem σ.out r rest hr h.sinv
      have hpids : pids a (step c σ.rob .drainTop) = pids a σ.rob := rfl
      refine ⟨{ sinv := hs, nofault := h.nofault, noflush := h.noflush, noctl := h.noctl, pend := h.pend,
                srcs := h.srcs, bu := h.bu }, ?_, ?_⟩
      · simp only [mu, hpids]
        simp only [step, hr, List.drop_one, List.tail_cons, List.length_cons]
        omega
      · intro _
        simp only [mu, hpids]
        simp only [step, hr, List.drop_one, List.tail_cons, List.length_cons]
        omega
  | memAnswer j p =>
    refine Or.inr ?_
    simp only [sysStep, helpful]
    cases hj : σ.mem[j]? with
    | none => simp only []; exact ⟨h, Nat.le_refl _, by simp⟩
    | some b =>
      simp only []
      by_cases hroom : σ.rob.botIn.length < c.botInCap
      · simp only [hroom, if_true]
        have hs := memAnswer_sinv c σ.rob σ.mem σ.out j b p hj hroom h.sinv
        have e : step c σ.rob (.bot b.id p) = { σ.rob with botIn := σ.rob.botIn ++ [(b.id, p)] } := by
          simp [step, hroom]
        rw [e] at hs ⊢
        have hpids : pids a { σ.rob with botIn := σ.rob.botIn ++ [(b.id, p)] } = pids a σ.rob := rfl
        have hcnt := cnt_eraseIdx (·.id) (pids a σ.rob) σ.mem j b hj
        refine ⟨{ sinv := hs, nofault := h.nofault, noflush := h.noflush, noctl := h.noctl, pend := h.pend,
                  srcs := h.srcs, bu := h.bu }, ?_, ?_⟩
        · simp only [mu, hpids, List.map_append, List.map_cons, List.map_nil]
          by_cases hin : b.id ∈ pids a σ.rob
          · rw [lastPos_append_mem _ _ _ hin]
            simp only [hin, if_true] at hcnt
            rw [← hcnt, List.length_map]
            generalize cnt (pids a σ.rob) (σ.rob.botOut.map (·.id)) = X
            generalize cnt (pids a σ.rob) ((σ.mem.eraseIdx j).map (·.id)) = Y
            have : (c.botInCap + 1) * (X + (Y + 1)) = (c.botInCap + 1) * (X + Y) + (c.botInCap + 1) := by
              rw [← Nat.add_assoc, Nat.mul_add, Nat.mul_one]
            rw [this]; omega
          · rw [lastPos_append_not _ _ _ hin]
            simp only [hin, if_false, Nat.add_zero] at hcnt
            rw [← hcnt]; omega
        · intro hh
          simp only [Bool.and_eq_true, decide_eq_true_eq] at hh
          have hin := hh.1
          simp only [mu, hpids, List.map_append, List.map_cons, List.map_nil]
          rw [lastPos_append_mem _ _ _ hin]
          simp only [hin, if_true] at hcnt
          rw [← hcnt, List.length_map]
          generalize cnt (pids a σ.rob) (σ.rob.botOut.map (·.id)) = X
          generalize cnt (pids a σ.rob) ((σ.mem.eraseIdx j).map (·.id)) = Y
          have : (c.botInCap + 1) * (X + (Y + 1)) = (c.botInCap + 1) * (X + Y) + (c.botInCap + 1) := by
            rw [← Nat.add_assoc, Nat.mul_add, Nat.mul_one]
          rw [this]; omega
      · simp only [hroom, if_false]
        exact ⟨h, Nat.le_refl _, by simp⟩

/-- **No deadlock inside the window.** While `a` is pending some helpful event is enabled — or
    the only obstacle is the full incoming buffer of the Bottom port in front of the memory's
    answer to one of the relevant copies, and then the ROB's own ticks drain that buffer
    (`tick_mu`, last clause). -/
theorem helpful_or_backpressure (c : Cfg) (a : Nat) (σ : Sys) (h : σ.Win c a) (hto : 1 ≤ c.topOutCap) :
    (∃ e, isCtl e = false ∧ helpful c a σ e = true) ∨
    (c.botInCap ≤ σ.rob.botIn.length ∧ ∃ (j : Nat) (b : BReq), σ.mem[j]? = some b ∧ b.id ∈ pids a σ.rob) := by
  unfold Sys.Win at h
  cases hs : σ.rob.txs with
  | nil => have := h.pend; rw [hs] at this; simp at this
  | cons t rest =>
    have htp : t.botId ∈ pids a σ.rob := by
      unfold pids; rw [hs]; exact List.mem_map.2 ⟨t, head_mem_upTo a t rest, rfl⟩
    cases hp : t.rsp with
    | some p =>
      left
      by_cases hroom : σ.rob.topOut.length < c.topOutCap
      · refine ⟨.tick, rfl, ?_⟩
        simp [helpful, readyB, hs, hp, hroom]
      · refine ⟨.takeRsp, rfl, ?_⟩
        cases ht : σ.rob.topOut with
        | nil => rw [ht] at hroom; simp at hroom; omega
        | cons x l => simp [helpful, ht]
    | none =>
      have hin := h.sinv.noneIn t (by rw [hs]; exact List.mem_cons_self) hp
      rcases mem_chanOf.1 hin with hb | hb | hb
      · left
        exact ⟨.memTake, rfl, by simpa [helpful] using lastPos_pos_of_mem _ _ _ hb htp⟩
      · obtain ⟨b, hbm, hbid⟩ := List.mem_map.1 hb
        obtain ⟨j, hj⟩ := List.getElem?_of_mem hbm
        by_cases hroom : σ.rob.botIn.length < c.botInCap
        · left
          refine ⟨.memAnswer j .done, rfl, ?_⟩
          simp [helpful, hj, hbid, htp, hroom]
        · right
          exact ⟨by omega, j, b, hj, by rw [hbid]; exact htp⟩
      · left
        refine ⟨.tick, rfl, ?_⟩
        have := lastPos_pos_of_mem _ _ _ hb htp
        simp [helpful, this]

/-! ### idle ticks -/

theorem iterP_fix (f : St → St × Bool) (s : St) (h : f s = (s, false)) : ∀ n, iterP f n (s, false) = (s, false)
  | 0 => rfl
  | n + 1 => by
    rw [iterP_succ]
    simp only [h, Bool.or_self]
    exact iterP_fix f s h n

/-- a tick with nothing to do changes nothing: no control message, no lower-level response, no
    request waiting, and the head (if any) has no response yet or the Top port is full -/
theorem tick_idle (c : Cfg) (s : St) (hf : s.fault = none) (hc : s.ctlIn = []) (hfl : s.flushing = false)
    (hbi : s.botIn = []) (hti : s.topIn = [])
    (hb : s.txs = [] ∨ ∃ t rest, s.txs = t :: rest ∧
      (t.rsp = none ∨ (t.req.src ≠ 0 ∧ c.topOutCap ≤ s.topOut.length))) :
    tick c s = (s, false) := by
  have hnf : s.fault.isSome = false := by simp [hf]
  have hp : processCtl c s = (s, false) := by unfold processCtl; rw [hc]
  have h1 : bottomUp c s = (s, false) := by
    unfold bottomUp
    rcases hb with hb | ⟨t, rest, hs, hb⟩
    · simp [hnf, hb]
    · rcases hb with hb | ⟨h1, h2⟩
      · simp [hnf, hs, hb]
      · cases hp : t.rsp with
        | none => simp [hnf, hs, hp]
        | some p =>
          have : ¬ s.topOut.length < c.topOutCap := by omega
          simp [hnf, hs, hp, h1, this]
  have h2 : parseBottom s = (s, false) := by unfold parseBottom; simp [hnf, hbi]
  have h3 : topDown c s = (s, false) := by unfold topDown; simp [hnf, hti]
  unfold tick
  simp only [hnf, hp, hfl, Bool.false_eq_true, if_false]
  unfold runPipeline
  rw [iterP_fix _ s h1, iterP_fix _ s h2, iterP_fix _ s h3]
  rfl

/-- Boolean form of the head condition of `tick_idle` -/
def headWaits (c : Cfg) (s : St) : Bool :=
  match s.txs with
  | [] => true
  | t :: _ => t.rsp.isNone || (decide (t.req.src ≠ 0) && decide (c.topOutCap ≤ s.topOut.length))

theorem tick_idle' (c : Cfg) (s : St) (hf : s.fault = none) (hc : s.ctlIn = []) (hfl : s.flushing = false)
    (hbi : s.botIn = []) (hti : s.topIn = []) (hb : headWaits c s = true) : tick c s = (s, false) := by
  refine tick_idle c s hf hc hfl hbi hti ?_
  unfold headWaits at hb
  cases hs : s.txs with
  | nil => exact Or.inl rfl
  | cons t rest =>
    rw [hs] at hb
    simp only [Bool.or_eq_true, Bool.and_eq_true, decide_eq_true_eq, Option.isNone_iff_eq_none] at hb
    exact Or.inr ⟨t, rest, rfl, hb⟩

/-! ### runs -/

/-- number of helpful events in an event list, each judged in the state in which it happens -/
def helpfulCount (c : Cfg) (a : Nat) : Sys → List Ev → Nat
  | _, [] => 0
  | σ, e :: es => (if helpful c a σ e then 1 else 0) + helpfulCount c a (sysStep c σ e) es

theorem done_fold (c : Cfg) (a : Nat) (evs : List Ev) (σ : Sys) (ok : σ.Ok c) (d : σ.Done a) :
    (evs.foldl (sysStep c) σ).Done a := by
  obtain ⟨more, e⟩ := (Spec.star_ext (sysFold_refines c evs σ ok)).out
  have e' : (evs.foldl (sysStep c) σ).rob.delivered = σ.rob.delivered ++ more := e
  unfold Sys.Done Done at *
  rw [e', List.map_append]; exact List.mem_append_left _ d

theorem fold_mu (c : Cfg) (a : Nat) (hw : 1 ≤ c.width) : ∀ (evs : List Ev) (σ : Sys), σ.Win c a →
    (∀ e ∈ evs, isCtl e = false) →
    (evs.foldl (sysStep c) σ).Done a ∨
    ((evs.foldl (sysStep c) σ).Win c a ∧ (evs.foldl (sysStep c) σ).mu c a + helpfulCount c a σ evs ≤ σ.mu c a)
  | [], σ, h, _ => Or.inr ⟨h, by simp [helpfulCount]⟩
  | e :: es, σ, h, hn => by
    have hne := hn e List.mem_cons_self
    have hn' : ∀ e' ∈ es, isCtl e' = false := fun e' he' => hn e' (List.mem_cons_of_mem _ he')
    rcases sysStep_mu c a σ e h hw hne with d | ⟨w, le, st⟩
    · exact Or.inl (done_fold c a es _ (sysStep_ok c σ e h.sinv) d)
    · rcases fold_mu c a hw es _ w hn' with d | ⟨w', le'⟩
      · exact Or.inl d
      · refine Or.inr ⟨w', ?_⟩
        simp only [List.foldl_cons, helpfulCount]
        by_cases hh : helpful c a σ e = true
        · have := st hh
          simp only [hh, if_true]; omega
        · simp only [hh]; simp only [Bool.false_eq_true, if_false]; omega

/-- the state after `n` events of an infinite schedule -/
def sysAt (c : Cfg) (σ0 : Sys) (sched : Nat → Ev) : Nat → Sys
  | 0 => σ0
  | n + 1 => sysStep c (sysAt c σ0 sched n) (sched n)

theorem sysAt_ok (c : Cfg) (σ0 : Sys) (sched : Nat → Ev) (ok : σ0.Ok c) : ∀ n, (sysAt c σ0 sched n).Ok c
  | 0 => ok
  | n + 1 => sysStep_ok c _ _ (sysAt_ok c σ0 sched ok n)

theorem sysAt_done_mono (c : Cfg) (a : Nat) (σ0 : Sys) (sched : Nat → Ev) (ok : σ0.Ok c) (n : Nat)
    (d : (sysAt c σ0 sched n).Done a) : ∀ k, (sysAt c σ0 sched (n + k)).Done a
  | 0 => d
  | k + 1 => done_fold c a [sched (n + k)] _ (sysAt_ok c σ0 sched ok (n + k)) (sysAt_done_mono c a σ0 sched ok n d k)

/-- walking along the schedule: the window persists and the measure does not grow, or `a` is done -/
theorem sysAt_walk (c : Cfg) (a : Nat) (σ0 : Sys) (sched : Nat → Ev) (hw : 1 ≤ c.width)
    (hn : ∀ n, isCtl (sched n) = false) (n : Nat) (h : (sysAt c σ0 sched n).Win c a) :
    ∀ d, (∃ n', (sysAt c σ0 sched n').Done a) ∨
      ((sysAt c σ0 sched (n + d)).Win c a ∧ (sysAt c σ0 sched (n + d)).mu c a ≤ (sysAt c σ0 sched n).mu c a)
  | 0 => Or.inr ⟨h, Nat.le_refl _⟩
  | d + 1 => by
    rcases sysAt_walk c a σ0 sched hw hn n h d with dn | ⟨w, le⟩
    · exact Or.inl dn
    · rcases sysStep_mu c a _ (sched (n + d)) w hw (hn _) with dn | ⟨w', le', _⟩
      · exact Or.inl ⟨n + d + 1, dn⟩
      · exact Or.inr ⟨w', Nat.le_trans le' le⟩

theorem eventually_done (c : Cfg) (a : Nat) (σ0 : Sys) (sched : Nat → Ev) (hw : 1 ≤ c.width)
    (hn : ∀ n, isCtl (sched n) = false)
    (hfair : ∀ n, a ∈ (sysAt c σ0 sched n).rob.txs.map (·.req.id) →
      ∃ j, n ≤ j ∧ helpful c a (sysAt c σ0 sched j) (sched j) = true) :
    ∀ k n, (sysAt c σ0 sched n).Win c a → (sysAt c σ0 sched n).mu c a ≤ k →
      ∃ n', (sysAt c σ0 sched n').Done a
  | 0, n, h, hk => by have := win_mu_pos h; unfold Sys.mu at hk; omega
  | k + 1, n, h, hk => by
    obtain ⟨j, hj, hh⟩ := hfair n h.pend
    obtain ⟨d, rfl⟩ : ∃ d, j = n + d := ⟨j - n, by omega⟩
    rcases sysAt_walk c a σ0 sched hw hn n h d with dn | ⟨w, le⟩
    · exact dn
    · rcases sysStep_mu c a _ (sched (n + d)) w hw (hn _) with dn | ⟨w', _, st⟩
      · exact ⟨n + d + 1, dn⟩
      · have := st hh
        exact eventually_done c a σ0 sched hw hn hfair k (n + d + 1) w' (by
          show (sysStep c (sysAt c σ0 sched (n + d)) (sched (n + d))).mu c a ≤ k
          omega)

/-! ### from the Top port's outgoing buffer to the requester -/

/-- 1 + position of `a`'s response in the Top port's outgoing buffer (0 if it is not there) -/
def Sys.nu (a : Nat) (σ : Sys) : Nat := lastPos [a] (σ.rob.topOut.map (·.rspTo))

theorem lastPos_append_none (ids : List Nat) : ∀ (l l' : List Nat), (∀ x ∈ l', x ∉ ids) →
    lastPos ids (l ++ l') = lastPos ids l := by
  intro l l'
  induction l' generalizing l with
  | nil => intro _; simp
  | cons y l' ih =>
    intro hh
    have : l ++ y :: l' = (l ++ [y]) ++ l' := by simp
    rw [this, ih (l ++ [y]) (fun x hx => hh x (List.mem_cons_of_mem _ hx)),
      lastPos_append_not _ _ _ (hh y List.mem_cons_self)]

theorem mem_of_lastPos_pos (ids : List Nat) : ∀ (l : List Nat), 0 < lastPos ids l → ∃ x ∈ l, x ∈ ids
  | [], h => by simp [lastPos] at h
  | y :: l, h => by
    by_cases hy : y ∈ ids
    · exact ⟨y, List.mem_cons_self, hy⟩
    · have : 0 < lastPos ids l := by
        simp only [lastPos] at h
        split at h
        · rename_i hc; rcases hc with hc | hc
          · exact hc
          · exact absurd hc hy
        · omega
      obtain ⟨x, hx, hi⟩ := mem_of_lastPos_pos ids l this
      exact ⟨x, List.mem_cons_of_mem _ hx, hi⟩

/-- While `a`'s response waits in the Top port and the step does not end in the flushing state
    (a flush empties that buffer: repair 7c2f5a70), no event moves it back and every response the
    requester takes moves it one place forward or hands it over. -/
theorem taken_step (c : Cfg) (a : Nat) (σ : Sys) (e : Ev) (ok : σ.Ok c) (hpos : 0 < σ.nu a)
    (hnf : (sysStep c σ e).rob.flushing = false) :
    a ∈ (sysStep c σ e).out.map (·.rspTo) ∨
    (0 < (sysStep c σ e).nu a ∧ (sysStep c σ e).nu a ≤ σ.nu a ∧
      (e = .takeRsp → (sysStep c σ e).nu a < σ.nu a)) := by
  have ok' : SInv c σ.rob σ.mem σ.out := ok
  cases e with
  | tick =>
    refine Or.inr ?_
    obtain ⟨more, h1, h2⟩ := tick_top_of_not_flushing c σ.rob hnf
    have d : a ∈ σ.rob.delivered.map (·.rspTo) := by
      obtain ⟨x, hx, hi⟩ := mem_of_lastPos_pos _ _ hpos
      simp at hi; subst hi
      obtain ⟨r, hr, rfl⟩ := List.mem_map.1 hx
      exact List.mem_map.2 ⟨r, ok'.outLog.subset (List.mem_append_right _ hr), rfl⟩
    have hnd : (((tick c σ.rob).1.delivered).map (·.rspTo)).Nodup := by
      have hi := tick_inv c σ.rob ok'.inv
      have : ((tick c σ.rob).1.delivered.map (·.rspTo) ++ (tick c σ.rob).1.txs.map (·.req.id)).Nodup := by
        rw [hi.order]; exact hi.acceptedNodup.filter _
      exact (List.nodup_append.1 this).1
    rw [h1, List.map_append] at hnd
    have hnot : ∀ x ∈ more.map (·.rspTo), x ∉ [a] := by
      intro x hx hxa
      simp at hxa; subst hxa
      exact (List.nodup_append.1 hnd).2.2 _ d _ hx rfl
    have e1 : (sysStep c σ .tick).nu a = σ.nu a := by
      show lastPos [a] ((tick c σ.rob).1.topOut.map (·.rspTo)) = lastPos [a] (σ.rob.topOut.map (·.rspTo))
      rw [h2, List.map_append, lastPos_append_none _ _ _ hnot]
    rw [e1]
    exact ⟨hpos, Nat.le_refl _, fun h => by cases h⟩
  | arrive q =>
    refine Or.inr ?_
    have e1 : (sysStep c σ (.arrive q)).nu a = σ.nu a := by
      simp only [sysStep, Sys.nu, step]; split <;> rfl
    rw [e1]; exact ⟨hpos, Nat.le_refl _, fun h => by cases h⟩
  | ctl x =>
    refine Or.inr ?_
    have e1 : (sysStep c σ (.ctl x)).nu a = σ.nu a := by
      simp only [sysStep, Sys.nu, step]; split <;> rfl
    rw [e1]; exact ⟨hpos, Nat.le_refl _, fun h => by cases h⟩
  | takeAck => exact Or.inr ⟨hpos, Nat.le_refl _, fun h => by cases h⟩
  | memTake =>
    refine Or.inr ?_
    have e1 : (sysStep c σ .memTake).nu a = σ.nu a := by
      simp only [sysStep, Sys.nu]; split <;> rfl
    rw [e1]; exact ⟨hpos, Nat.le_refl _, fun h => by cases h⟩
  | memAnswer j p =>
    refine Or.inr ?_
    have e1 : (sysStep c σ (.memAnswer j p)).nu a = σ.nu a := by
      simp only [sysStep, Sys.nu]
      split
      · rfl
      · split
        · simp only [step]; split <;> rfl
        · rfl
    rw [e1]; exact ⟨hpos, Nat.le_refl _, fun h => by cases h⟩
  | takeRsp =>
    unfold Sys.nu at hpos ⊢
    simp only [sysStep]
    cases hr : σ.rob.topOut with
    | nil => rw [hr] at hpos; simp [lastPos] at hpos
    | cons r rest =>
      simp only []
      rw [hr] at hpos
      by_cases hra : r.rspTo = a
      · left; rw [List.map_append]; exact List.mem_append_right _ (by simp [hra])
      · right
        have ht := lastPos_tail [a] r.rspTo (rest.map (·.rspTo))
        have hrest : 0 < lastPos [a] (rest.map (·.rspTo)) := by
          simp only [List.map_cons, lastPos] at hpos
          split at hpos
          · rename_i hc; rcases hc with hc | hc
            · exact hc
            · simp at hc; exact absurd hc hra
          · omega
        simp only [step, hr, List.drop_one, List.tail_cons, List.map_cons] at ht hpos ⊢
        exact ⟨hrest, by omega, fun _ => by omega⟩

/-- number of `takeRsp` events -/
def takeCount : List Ev → Nat
  | [] => 0
  | .takeRsp :: es => takeCount es + 1
  | _ :: es => takeCount es

/-- no step of the event list ends with the ROB in the flushing state -/
def NoFlushAlong (c : Cfg) : Sys → List Ev → Prop
  | _, [] => True
  | σ, e :: es => (sysStep c σ e).rob.flushing = false ∧ NoFlushAlong c (sysStep c σ e) es

theorem taken_fold (c : Cfg) (a : Nat) : ∀ (evs : List Ev) (σ : Sys), σ.Ok c → 0 < σ.nu a →
    NoFlushAlong c σ evs →
    a ∈ (evs.foldl (sysStep c) σ).out.map (·.rspTo) ∨
    (0 < (evs.foldl (sysStep c) σ).nu a ∧ (evs.foldl (sysStep c) σ).nu a + takeCount evs ≤ σ.nu a)
  | [], σ, _, hp, _ => Or.inr ⟨hp, by simp [takeCount]⟩
  | e :: es, σ, ok, hp, hnf => by
    have ok1 := sysStep_ok c σ e ok
    have hmono : ∀ (σ1 : Sys), a ∈ σ1.out.map (·.rspTo) → a ∈ (es.foldl (sysStep c) σ1).out.map (·.rspTo) := by
      intro σ1 h1
      obtain ⟨t, ht⟩ := sysFold_out c es σ1
      rw [ht, List.map_append]; exact List.mem_append_left _ h1
    rcases taken_step c a σ e ok hp hnf.1 with h | ⟨hp1, le, st⟩
    · exact Or.inl (hmono _ h)
    · rcases taken_fold c a es _ ok1 hp1 hnf.2 with h | ⟨hp2, le'⟩
      · exact Or.inl h
      · refine Or.inr ⟨hp2, ?_⟩
        simp only [List.foldl_cons]
        cases e with
        | takeRsp => have := st rfl; simp only [takeCount]; omega
        | tick => simp only [takeCount]; omega
        | arrive q => simp only [takeCount]; omega
        | memTake => simp only [takeCount]; omega
        | memAnswer j p => simp only [takeCount]; omega
        | ctl x => simp only [takeCount]; omega
        | takeAck => simp only [takeCount]; omega

end C15
