import MgpuProofs.C07DispClean
import MgpuProofs.C07DispEmu
set_option linter.unusedVariables false
set_option linter.unusedSimpArgs false
/-! # C07 helper lemmas: the state of a wavefront dispatched onto a clean window of a timing compute unit -/
namespace C07
open Gen

/-- accesses of one wavefront only: no other wavefront has a last write -/
theorem lastWrite_other (a wj : Nat) (id : CellId) (h : a ≠ wj) (l : List Op) :
    lastWrite wj id (l.map fun o => (a, o)) = none := by
  induction l with
  | nil => rfl
  | cons o l ih => simp only [List.map_cons, lastWrite, ih, h, if_false]

/-- accesses of one wavefront only: its last write does not depend on its index -/
theorem lastWrite_single (a : Nat) (id : CellId) (l : List Op) :
    lastWrite a id (l.map fun o => (a, o)) = lastWrite 0 id (l.map fun o => (0, o)) := by
  induction l with
  | nil => rfl
  | cons o l ih => simp only [List.map_cons, lastWrite, ih, if_true]

/-- the cells of a record with zero `vcc`/`scc`/`m0` whose windows hold only zero bytes -/
theorem zero_window_cell (t : TimingRF) (simd soff voff ns nv : Nat) (x : UInt64)
    (hS : ∀ p, soff ≤ p → p < soff + 4 * ns → get t.sfile p = 0)
    (hV : ∀ l p, l < 64 → voff + 1024 * l ≤ p → p < voff + 1024 * l + 4 * nv →
      get (t.vfiles.getD simd #[]) p = 0) (id : CellId) :
    (absT t { simd := simd, soff := soff, voff := voff, ns := ns, nv := nv, exec := x }).toMap id =
      (match id with
       | .execLo => lo32 x
       | .execHi => hi32 x
       | _ => 0) := by
  cases id with
  | s i => exact winCells_zero _ _ _ hS i
  | v l i =>
    show laneCells (t.vfiles.getD simd #[]) voff nv l i = 0
    simp only [laneCells]
    split
    · rename_i hl
      exact winCells_zero _ _ _ (fun p h1 h2 => hV l p hl h1 h2) i
    · rfl
  | vccLo => rfl
  | vccHi => show hi32 0 = 0; decide
  | execLo => rfl
  | execHi => rfl
  | scc => rfl
  | m0 => rfl

/-- **T6** a wavefront dispatched onto a clean window of a timing compute unit holds `freshMap` of its
    dispatch on every cell it owns; the allocation invariant holds afterwards and no other wavefront's
    cells changed -/
theorem timing_fresh_map (t : TimingRF) (ns nv simd soff voff : Nat) (d : DispInfo) (hA : Alloc t) (hC : Clean t)
    (hok : CUOp.Ok t (.map ns nv simd soff voff d)) :
    MapAgree ns nv (absG (t.cuStep (.map ns nv simd soff voff d)) t.wfs.size) (freshMap d) ∧
    Alloc (t.cuStep (.map ns nv simd soff voff d)) ∧
    (t.cuStep (.map ns nv simd soff voff d)).wfs.size = t.wfs.size + 1 ∧
    (∀ wj, wj < t.wfs.size → absG (t.cuStep (.map ns nv simd soff voff d)) wj = absG t wj) := by
  obtain ⟨hsz1, hnew, hold, hA1, hC1, hgok, hseq⟩ := map_setup t ns nv simd soff voff d hA hC hok
  obtain ⟨_, _, _, _, _, k6, _⟩ := hok
  obtain ⟨_, e2, e3, e4⟩ := timing_exec_refines _ _ hA1 hgok
  rw [hseq]
  refine ⟨fun id hid => ?_, e4, by rw [e3.nwf, hsz1], fun wj hwj => ?_⟩
  · rw [e2, gmap_last_write, lastWrite_single]
    unfold freshMap
    refine congrArg (fun z => (lastWrite 0 id ((initOps d).map fun o => (0, o))).getD z) ?_
    have h0 : absG (t.mapPre ns nv simd soff voff d) t.wfs.size =
        (absT t { simd := simd, soff := soff, voff := voff, ns := ns, nv := nv, exec := d.exec }).toMap := by
      simp only [absG, hsz1, Nat.lt_succ_self, if_true, hnew]
      rfl
    rw [h0]
    apply zero_window_cell
    · intro p h1 h2
      apply hC.1
      intro i hi ho
      exact (k6 i hi).1 p ⟨ho, h1, h2⟩
    · intro l p hl h1 h2
      apply hC.2
      rintro i hi ⟨hs, ho⟩
      rcases (k6 i hi).2 with e | e
      · exact e hs
      · exact e p ⟨ho, l, by omega, by omega, h1, h2⟩
  · rw [e2]
    funext id
    rw [gmap_last_write, lastWrite_other _ _ _ (Nat.ne_of_gt hwj)]
    simp only [Option.getD_none, absG, hsz1, hold wj hwj, hwj, Nat.lt_succ_of_lt hwj, if_true]
    rfl

theorem Owned.mono {ns nv ns' nv' : Nat} (h1 : ns ≤ ns') (h2 : nv ≤ nv') {id : CellId} (h : Owned ns nv id) :
    Owned ns' nv' id := by
  cases id with
  | s i => exact Nat.lt_of_lt_of_le h h1
  | v l i => exact ⟨h.1, Nat.lt_of_lt_of_le h.2 h2⟩
  | _ => trivial

theorem AbiFits.mono {d : DispInfo} {ns nv ns' nv' : Nat} (h1 : ns ≤ ns') (h2 : nv ≤ nv') (h : AbiFits d ns nv) :
    AbiFits d ns' nv' :=
  ⟨fun x hx => Nat.le_trans (h.1 x hx) h1, fun lane hl x hx => Nat.le_trans (h.2 lane hl x hx) h2⟩

/-- a wavefront dispatched onto a clean window in timing mode and the wavefront the emulation compute
    unit creates for the same dispatch hold the same value in every cell the wavefront owns -/
theorem fresh_timing_eq_emu (t : TimingRF) (ns nv simd soff voff : Nat) (d : DispInfo) (hA : Alloc t) (hC : Clean t)
    (hok : CUOp.Ok t (.map ns nv simd soff voff d)) (hv : nv ≤ 256) :
    MapAgree ns nv (absE (emuFresh d).1).toMap (absG (t.cuStep (.map ns nv simd soff voff d)) t.wfs.size) := by
  obtain ⟨h1, _, _, _⟩ := timing_fresh_map t ns nv simd soff voff d hA hC hok
  obtain ⟨_, k2, _, _, _, _, k7⟩ := hok
  obtain ⟨_, _, h2⟩ := emu_fresh_map d (k7.mono k2 hv)
  intro id hid
  rw [h2 id (hid.mono k2 hv), h1 id hid]

end C07
