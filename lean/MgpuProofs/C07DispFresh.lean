import MgpuProofs.C07DispInit
set_option linter.unusedVariables false
set_option linter.unusedSimpArgs false
/-! # C07 helper lemmas: the state of a wavefront dispatched onto a clean window of a timing compute unit -/
namespace C07
open Gen

/-- **T6** a wavefront dispatched onto a clean window of a timing compute unit holds `freshMap` of its
    dispatch on every cell it owns; the allocation invariant holds afterwards and no other wavefront's
    cells changed -/
theorem timing_fresh_map (t : TimingRF) (ns nv simd soff voff : Nat) (d : DispInfo) (hA : Alloc t) (hC : Clean t)
    (hok : CUOp.Ok t (.map ns nv simd soff voff d)) :
    MapAgree ns nv (absG (t.cuStep (.map ns nv simd soff voff d)) t.wfs.size) (freshMap d) ∧
    Alloc (t.cuStep (.map ns nv simd soff voff d)) ∧
    (t.cuStep (.map ns nv simd soff voff d)).wfs.size = t.wfs.size + 1 ∧
    (∀ wj, wj < t.wfs.size → absG (t.cuStep (.map ns nv simd soff voff d)) wj = absG t wj) := by
  sorry

end C07
