import MgpuModel.C13Elf
import MgpuProofs.Props.C13
import MgpuProofs.C13Select
/-! Helper lemmas for the ELF layer of property C13 (`MgpuModel/C13Elf.lean`): ranges of the
little-endian reads, what `readAt` / `secData` / `parseHeaders` / `parse` / `symbolsOf` return,
the named part of the loader (`loadNamed`) restated on bytes, and a writer of small ELF64 files
used by the non-vacuity examples. -/
namespace C13

/-! ## little-endian reads are in range -/

theorem byteAt_ltE (d : Bytes) (i : Nat) : byteAt d i < 256 := by
  unfold byteAt
  exact UInt8.toNat_lt _

theorem u16_ltE (d : Bytes) (o : Nat) : u16 d o < 65536 := by
  unfold u16
  have h0 := byteAt_ltE d o
  have h1 := byteAt_ltE d (o + 1)
  omega

theorem u32_ltE (d : Bytes) (o : Nat) : u32 d o < 4294967296 := by
  unfold u32
  have h0 := byteAt_ltE d o
  have h1 := byteAt_ltE d (o + 1)
  have h2 := byteAt_ltE d (o + 2)
  have h3 := byteAt_ltE d (o + 3)
  omega

theorem u64_arith (a b : Nat) (ha : a < 4294967296) (hb : b < 4294967296) :
    a + 4294967296 * b < 18446744073709551616 := by omega

theorem u64_ltE (d : Bytes) (o : Nat) : u64 d o < U64 := by
  unfold u64 U64
  exact u64_arith _ _ (u32_ltE d o) (u32_ltE d (o + 4))

/-! ## the loader's `log.Fatal` kinds -/

theorem fromEntireText_ne_fatal (d : Bytes) (x : String) : fromEntireText d ≠ .fatal x := by
  unfold fromEntireText
  split
  · split <;> simp
  · simp

theorem withSym_fatal {o : Outcome} {s : Symbol} {x : String} (h : withSym o s = .fatal x) : o = .fatal x := by
  cases o <;> simp_all [withSym]

theorem loadNamed_fatal {secs : List Section} {text : Section} {td : Bytes} {syms : List Symbol} {k x : String}
    (h : loadNamed secs text td syms k = .fatal x) : x = "notfound" := by
  unfold loadNamed at h
  cases hf : (syms.filter (isKernelSym secs)).find? (·.name == k) with
  | none => rw [hf] at h; injection h with h; exact h.symm
  | some s =>
    simp only [hf] at h
    cases hsl : sliceU64 td (wrapSub s.value text.addr) s.size with
    | none => simp [hsl] at h
    | some kd =>
      simp only [hsl] at h
      cases hv : findV5 secs k syms <;> simp only [hv] at h
      · exact absurd (withSym_fatal h) (fromEntireText_ne_fatal _ _)
      · cases h
      · cases h

theorem loadKernel_fatal {v : View} {k x : String} (h : loadKernel v k = .fatal x) :
    x = "notext" ∨ x = "textdata" ∨ x = "notfound" ∨ x = "multiple" := by
  unfold loadKernel at h
  split at h
  · injection h with h; exact Or.inl h.symm
  · split at h
    · injection h with h; exact Or.inr (Or.inl h.symm)
    · split at h
      · exact absurd h (fromEntireText_ne_fatal _ _)
      · split at h
        · split at h
          · exact absurd h (fromEntireText_ne_fatal _ _)
          · exact Or.inr (Or.inr (Or.inl (loadNamed_fatal h)))
          · injection h with h; exact Or.inr (Or.inr (Or.inr h.symm))
        · exact Or.inr (Or.inr (Or.inl (loadNamed_fatal h)))

theorem loadKernel_ne_elf (v : View) (k : String) : loadKernel v k ≠ .fatal "elf" := by
  intro h
  rcases loadKernel_fatal h with h | h | h | h <;> revert h <;> decide


theorem isV2V3Header_length {d : Bytes} (h : isV2V3Header d = true) : 256 ≤ d.length := by
  unfold isV2V3Header at h
  split at h
  · cases h
  · omega

/-- the whole-section path: no symbol attached, the header (if the bytes pass for one) removed -/
theorem fromEntireText_ok {d : Bytes} {r : Loaded} (h : fromEntireText d = .ok r) :
    r.sym = none ∧ r.data = if isV2V3Header d = true then d.drop 256 else d := by
  unfold fromEntireText at h
  split at h
  · rename_i hc
    simp only [Bool.and_eq_true] at hc
    split at h
    · cases h
    · injection h with h; subst h
      exact ⟨rfl, by rw [if_pos hc.2]⟩
  · rename_i hc
    injection h with h; subst h
    refine ⟨rfl, ?_⟩
    rw [if_neg]
    intro hi
    apply hc
    have := isV2V3Header_length hi
    simp [hi, this]

/-! ## `bytes_exact` at the level of `loadNamed` (any name, the empty one included) -/

theorem loadNamed_bytes_exact (secs : List Section) (text : Section) (td : Bytes) (syms : List Symbol)
    (k : String) (r : Loaded)
    (hsz : ∀ s ∈ syms, s.size < U64 ∧ s.value < U64)
    (h : loadNamed secs text td syms k = .ok r) :
    ∃ s, (syms.filter (isKernelSym secs)).find? (·.name == k) = some s ∧ r.sym = some s ∧
      wrapSub s.value text.addr + s.size ≤ td.length ∧
      (r.data = (symRange text td s).drop 256 ↔
        (findV5 secs k syms = .none ∧ isV2V3Header (symRange text td s) = true)) ∧
      (r.data = symRange text td s ∨ r.data = (symRange text td s).drop 256) := by
  unfold loadNamed at h
  cases hf : (syms.filter (isKernelSym secs)).find? (·.name == k) with
  | none => simp [hf] at h
  | some s =>
    have hsm : s ∈ syms := (List.mem_filter.mp (List.mem_of_find?_eq_some hf)).1
    have hkern : isKernelSym secs s = true := (List.mem_filter.mp (List.mem_of_find?_eq_some hf)).2
    have hpos : s.size > 0 := ((isKernelSym_iff secs s).mp hkern).2.1
    simp only [hf] at h
    cases hsl : sliceU64 td (wrapSub s.value text.addr) s.size with
    | none => simp [hsl] at h
    | some kdata =>
      have ho : wrapSub s.value text.addr < U64 := wrapSub_lt (hsz s hsm).2
      obtain ⟨hle, hkd, hlen⟩ := sliceU64_some ho (hsz s hsm).1 hsl
      have hkd' : kdata = symRange text td s := hkd
      have hne : ∀ x : Bytes, x.length = s.size → x.drop 256 ≠ x := by
        intro x hx he
        have := congrArg List.length he
        simp only [List.length_drop] at this
        omega
      simp only [hsl] at h
      refine ⟨s, rfl, ?_, hle, ?_, ?_⟩
      · cases hv : findV5 secs k syms <;> simp only [hv] at h
        · unfold fromEntireText at h
          split at h
          · split at h
            · cases h
            · simp only [withSym] at h; injection h with h; subst h; rfl
          · simp only [withSym] at h; injection h with h; subst h; rfl
        · cases h
        · injection h with h; subst h; rfl
      · rw [← hkd']
        cases hv : findV5 secs k syms <;> simp only [hv] at h
        · unfold fromEntireText at h
          split at h
          · rename_i hc
            split at h
            · cases h
            · simp only [withSym] at h; injection h with h; subst h
              simp only [Bool.and_eq_true] at hc
              simp [hc.2]
          · rename_i hc
            simp only [withSym] at h; injection h with h; subst h
            have hl : ¬ isV2V3Header kdata = true := by
              intro hi
              apply hc
              have : 256 ≤ kdata.length := by
                unfold isV2V3Header at hi
                split at hi
                · cases hi
                · omega
              simp [hi, this]
            constructor
            · intro he; exact absurd he.symm (hne kdata hlen)
            · intro hh; exact absurd hh.2 hl
        · cases h
        · injection h with h; subst h
          constructor
          · intro he; exact absurd he.symm (hne kdata hlen)
          · intro hh; cases hh.1
      · rw [← hkd']
        cases hv : findV5 secs k syms <;> simp only [hv] at h
        · unfold fromEntireText at h
          split at h
          · split at h
            · cases h
            · simp only [withSym] at h; injection h with h; subst h; exact Or.inr rfl
          · simp only [withSym] at h; injection h with h; subst h; exact Or.inl rfl
        · cases h
        · injection h with h; subst h; exact Or.inl rfl

namespace Elf

/-! ## reads of the file -/

theorem readAt_some {f : Bytes} {off n : Nat} {d : Bytes} (h : readAt f off n = some d) :
    d = (f.drop off).take n ∧ d.length = n ∧ (n > 0 → off + n ≤ f.length) := by
  unfold readAt at h
  split at h
  · rename_i h0
    injection h with h; subst h; subst h0
    simp
  · split at h
    · rename_i h0 h1
      injection h with h; subst h
      refine ⟨rfl, ?_, fun _ => h1⟩
      simp only [List.length_take, List.length_drop]; omega
    · cases h

theorem secData_nobits {f : Bytes} {sh : Shdr} {d : Bytes} (h : secData f sh = some d)
    (ht : sh.type = SHT_NOBITS) : sh.size = 0 ∧ d = [] := by
  unfold secData at h
  rw [if_pos ht] at h
  split at h
  · rename_i h0; injection h with h; exact ⟨h0, h.symm⟩
  · cases h

/-- whatever the section type: the data has the header's size, and non-empty data is a file range -/
theorem secData_some {f : Bytes} {sh : Shdr} {d : Bytes} (h : secData f sh = some d) :
    d.length = sh.size ∧
    (d ≠ [] → sh.type ≠ SHT_NOBITS ∧ sh.off + sh.size ≤ f.length ∧ d = (f.drop sh.off).take sh.size) := by
  by_cases ht : sh.type = SHT_NOBITS
  · obtain ⟨h0, h1⟩ := secData_nobits h ht
    subst h1
    exact ⟨by simp [h0], fun hne => absurd rfl hne⟩
  · unfold secData at h
    rw [if_neg ht] at h
    obtain ⟨h1, h2, h3⟩ := readAt_some h
    refine ⟨h2, fun hne => ⟨ht, h3 ?_, h1⟩⟩
    cases d with
    | nil => exact absurd rfl hne
    | cons a t => simp only [List.length_cons] at h2; omega


/-- whatever the section type, data that is returned is the file range of the header -/
theorem secData_eq {f : Bytes} {sh : Shdr} {d : Bytes} (h : secData f sh = some d) :
    d = (f.drop sh.off).take sh.size := by
  by_cases ht : sh.type = SHT_NOBITS
  · obtain ⟨h0, h1⟩ := secData_nobits h ht
    rw [h0, h1]; rfl
  · unfold secData at h
    rw [if_neg ht] at h
    exact (readAt_some h).1

/-- a slice of a slice of the file is a slice of the file -/
theorem drop_take_drop_take (f : Bytes) (a n o z : Nat) (h : o + z ≤ n) :
    (((f.drop a).take n).drop o).take z = (f.drop (a + o)).take z := by
  rw [List.drop_take, List.take_take, List.drop_drop, Nat.min_eq_left (by omega)]

/-! ## `elf.NewFile` -/

theorem ite_rej {c : Prop} [Decidable c] {x : Hdrs} {a : List Shdr} {b : Nat}
    (h : (if c then Hdrs.reject else x) = .ok a b) : ¬ c ∧ x = .ok a b := by
  by_cases hc : c
  · rw [if_pos hc] at h; cases h
  · rw [if_neg hc] at h; exact ⟨hc, h⟩

theorem ite_unm {c : Prop} [Decidable c] {x : Hdrs} {a : List Shdr} {b : Nat}
    (h : (if c then Hdrs.unmodelled else x) = .ok a b) : ¬ c ∧ x = .ok a b := by
  by_cases hc : c
  · rw [if_pos hc] at h; cases h
  · rw [if_neg hc] at h; exact ⟨hc, h⟩

/-- the accepted header list: read from the section-header table, no offset or size negative as `int64` -/
theorem parseHeaders_ok {f : Bytes} {shs : List Shdr} {n : Nat} (h : parseHeaders f = .ok shs n) :
    (∃ shoff shentsize shnum, shs = (List.range shnum).map (fun i => shdrAt f (shoff + i * shentsize))) ∧
    shs.any (fun s => s.off ≥ I63 || s.size ≥ I63) = false := by
  unfold parseHeaders at h
  -- peel the error / out-of-class branches, whatever their number; the last one peeled is the
  -- `off/size ≥ 2^63` check
  have hc : True := trivial
  repeat (first
    | (have hh := ite_rej h; replace h := hh.2; replace hc := hh.1; clear hh)
    | (replace h := (ite_unm h).2))
  injection h with h1 h2
  subst h1
  refine ⟨⟨_, _, _, rfl⟩, ?_⟩
  simpa using hc

theorem shdr_fits {f : Bytes} {shs : List Shdr} {n : Nat} (h : parseHeaders f = .ok shs n) :
    ∀ sh ∈ shs, sh.addr < U64 ∧ sh.off < I63 ∧ sh.size < I63 := by
  obtain ⟨⟨shoff, shentsize, shnum, he⟩, hany⟩ := parseHeaders_ok h
  intro sh hm
  have h2 := (List.any_eq_false.mp hany) sh hm
  simp only [ge_iff_le, Bool.or_eq_true, decide_eq_true_eq, not_or, Nat.not_le] at h2
  refine ⟨?_, h2.1, h2.2⟩
  rw [he] at hm
  obtain ⟨i, _, rfl⟩ := List.mem_map.mp hm
  exact u64_ltE _ _

theorem nameAll_sh {tab : Bytes} {shs : List Shdr} {secs : List ESection} (h : nameAll tab shs = some secs) :
    secs.map (·.sh) = shs := by
  induction shs generalizing secs with
  | nil => unfold nameAll at h; injection h with h; subst h; rfl
  | cons a t ih =>
    unfold nameAll at h
    split at h
    · rename_i n l hn hl
      injection h with h; subst h
      simp only [List.map_cons, ih hl]
    · cases h

/-- a parsed file's sections carry exactly the accepted headers -/
theorem parse_ok {f : Bytes} {secs : List ESection} (h : parse f = .ok secs) :
    ∃ shs n, parseHeaders f = .ok shs n ∧ secs.map (·.sh) = shs := by
  unfold parse at h
  split at h
  · cases h
  · cases h
  · rename_i shs n hh
    refine ⟨shs, n, hh, ?_⟩
    split at h
    · rename_i he
      injection h with h; subst h
      cases shs with
      | nil => rfl
      | cons a t => simp at he
    · split at h
      · injection h with h; subst h
        simp only [List.map_map]
        exact List.map_id' _
      · split at h
        · cases h
        · split at h
          · cases h
          · split at h
            · cases h
            · split at h
              · cases h
              · injection h with h; subst h
                rename_i hn
                exact nameAll_sh hn

/-! ## `File.Symbols()` -/

theorem symbolsOf_ok {f : Bytes} {secs : List ESection} {l : List Symbol} (h : symbolsOf f secs = .ok l) :
    ∃ d strs n, l = (List.range n).map (symAt d strs) := by
  unfold symbolsOf at h
  split at h
  · cases h
  · split at h
    · cases h
    · split at h
      · cases h
      · split at h
        · cases h
        · split at h
          · cases h
          · split at h
            · cases h
            · split at h
              · cases h
              · split at h
                · cases h
                · split at h
                  · cases h
                  · injection h with h
                    exact ⟨_, _, _, h.symm⟩

/-! ## the view of a file -/

/-- one section as the loader sees it -/
def toSection (f : Bytes) (s : ESection) : Section := { name := s.name, addr := s.sh.addr, data := secData f s.sh }

theorem findSection_sectionsOf (f : Bytes) (secs : List ESection) (n : String) :
    findSection (sectionsOf f secs) n = (secs.find? (fun s => s.name == n)).map (toSection f) := by
  unfold findSection sectionsOf
  rw [List.find?_map]
  rfl

/-- the wrapped case of the offset computation needs a section that runs past 2^64 -/
theorem nowrap_arith (A Z V S : Nat) (hnw : A + Z ≤ U64) (hpos : S > 0) (h : wrapSub V A + S ≤ Z) :
    A ≤ V ∧ wrapSub V A = V - A := by
  unfold wrapSub U64 at *
  by_cases hc : A ≤ V
  · rw [if_pos hc] at h ⊢; exact ⟨hc, rfl⟩
  · rw [if_neg hc] at h; omega

/-! ## a writer of small ELF64 files (examples only) -/

def shdrBytes (name type addr off size link : Nat) : Bytes :=
  le32 name ++ le32 type ++ le64 0 ++ le64 addr ++ le64 off ++ le64 size ++ le32 link ++ le32 0 ++ le64 1 ++ le64 0

/-- `"\0.text\0.symtab\0.strtab\0.shstrtab\0"` -/
def shstrBytes : Bytes :=
  [0, 46, 116, 101, 120, 116, 0,
   46, 115, 121, 109, 116, 97, 98, 0,
   46, 115, 116, 114, 116, 97, 98, 0,
   46, 115, 104, 115, 116, 114, 116, 97, 98, 0]

/-- one symbol-table entry: name index, `STB_GLOBAL|STT_FUNC`, section 1 -/
def symBytes (nameIdx value size : Nat) : Bytes :=
  le32 nameIdx ++ [0x12, 0] ++ le16 1 ++ le64 value ++ le64 size

/-- ELF64 little-endian relocatable: header, `.text` (section 1, at `textAddr`), `.symtab` with the
null entry and the symbols `syms` (name index into `strtab`, value, size), `.strtab`, `.shstrtab`,
section-header table -/
def mkElf (textAddr : Nat) (text : Bytes) (syms : List (Nat × Nat × Nat)) (strtab : Bytes) : Bytes :=
  let n := text.length
  let symOff := 64 + n
  let symLen := 24 * (syms.length + 1)
  let strOff := symOff + symLen
  let shstrOff := strOff + strtab.length
  let shoff := shstrOff + 33
  [0x7f, 0x45, 0x4c, 0x46, 2, 1, 1, 0, 0, 0, 0, 0, 0, 0, 0, 0] ++
  le16 1 ++ le16 224 ++ le32 1 ++ le64 0 ++ le64 0 ++ le64 shoff ++ le32 0 ++ le16 64 ++ le16 0 ++ le16 0 ++
  le16 64 ++ le16 5 ++ le16 4 ++
  text ++
  (List.replicate 24 0 ++ (syms.map (fun s => symBytes s.1 s.2.1 s.2.2)).flatten) ++
  strtab ++
  shstrBytes ++
  shdrBytes 0 0 0 0 0 0 ++
  shdrBytes 1 1 textAddr 64 n 0 ++
  shdrBytes 7 2 0 symOff symLen 3 ++
  shdrBytes 15 3 0 strOff strtab.length 0 ++
  shdrBytes 23 3 0 shstrOff 33 0

end Elf
end C13
