import MgpuProofs.C09CUEmuStep
/-! # C09, emulation compute unit — `handleWGCompleteEvent` keeps the invariant -/
namespace C09.CUSide

/-- `finishedMapWGReqs` after the `found` loop -/
def finAfter (s : Emu) (id : Nat) : List Nat := if id ∈ s.finished then s.finished else s.finished ++ [id]

theorem mem_finAfter (s : Emu) (id x : Nat) : x ∈ finAfter s id ↔ x ∈ s.finished ∨ x = id := by
  unfold finAfter
  split
  · constructor
    · exact Or.inl
    · rintro (h | h)
      · exact h
      · subst h; assumption
  · simp

theorem nodup_finAfter {s : Emu} (h : EInv s) (id : Nat) : (finAfter s id).Nodup := by
  unfold finAfter
  split
  · exact h.fin_nd
  · rename_i hn
    rw [List.nodup_append]
    exact ⟨h.fin_nd, by simp, by intro a ha b hb hab; simp at hb; subst hab; subst hb; exact hn ha⟩

/-- what is known when the WGCompleteEvent `(now, id)` is about to be handled -/
structure WgcCtx (s : Emu) (id : Nat) : Prop where
  inv : EInv s
  mem : (s.now, id) ∈ s.wgcs
  notSent : id ∉ flat s
  other : ∀ p ∈ s.wgcs.erase (s.now, id), p ∈ s.wgcs ∧ p.2 ≠ id
  keep : ∀ p ∈ s.wgcs, p.2 ≠ id → p ∈ s.wgcs.erase (s.now, id)
  memW : ∀ x, x ∈ s.wfs.erase id ↔ x ≠ id ∧ x ∈ s.wfs
  notQ : id ∉ s.queue
  idGot : id ∈ s.got

theorem wgcCtx {s : Emu} (h : EInv s) (id : Nat) (hmem : (s.now, id) ∈ s.wgcs) : WgcCtx s id := by
  have hwd : (s.wgcs.map (fun p : Nat × Nat => p.2)).Nodup := h.wid_nd
  have hwn : s.wgcs.Nodup := nodup_of_nodup_map _ _ hwd
  refine ⟨h, hmem, (h.wgc_ok _ hmem).1, ?_, ?_, fun x => h.wfs_nd.mem_erase_iff, ?_, h.wid_got _ hmem⟩
  · intro p hp
    have hp' := hwn.mem_erase_iff.mp hp
    refine ⟨hp'.2, fun hc => hp'.1 ?_⟩
    exact uniq_of_nodup_map (fun p : Nat × Nat => p.2) s.wgcs hwd p hp'.2 _ hmem hc
  · intro p hp hne
    exact (List.mem_erase_of_ne (fun hc => hne (by rw [hc]))).mpr hp
  · intro hq
    exact h.q_wid id hq (List.mem_map.mpr ⟨_, hmem, rfl⟩)

/-- the last mapped work-group completes: no other WGCompleteEvent is pending (this is where the
    time order is used) and nothing is queued -/
theorem last_group_alone {s : Emu} {id : Nat} (c : WgcCtx s id) (hlast : s.wfs.erase id = []) :
    s.wgcs.erase (s.now, id) = [] ∧ s.queue = [] := by
  have h := c.inv
  constructor
  · apply List.eq_nil_iff_forall_not_mem.mpr
    intro p hp
    obtain ⟨hpw, hpid⟩ := c.other p hp
    have hpn : p.2 ∉ s.wfs := by
      intro hc
      have : p.2 ∈ s.wfs.erase id := (c.memW _).mpr ⟨hpid, hc⟩
      rw [hlast] at this
      cases this
    by_cases hid : id ∈ s.wfs
    · have h1 := h.r_first p hpw hpn (s.now, id) c.mem hid
      have h2 := h.t_wgc p hpw
      simp only at h1
      omega
    · have := h.r_one p hpw hpn (s.now, id) c.mem hid
      exact hpid (by rw [this])
  · apply List.eq_nil_iff_forall_not_mem.mpr
    intro x hx
    have hne : x ≠ id := fun hc => c.notQ (hc ▸ hx)
    have : x ∈ s.wfs.erase id := (c.memW _).mpr ⟨hne, h.q_wfs x hx⟩
    rw [hlast] at this
    cases this

/-- other work-groups are still mapped: the id is only recorded -/
theorem einv_wgc_wait {s : Emu} {id : Nat} (c : WgcCtx s id) (hne : s.wfs.erase id ≠ []) :
    EInv { s with wgcs := s.wgcs.erase (s.now, id), wfs := s.wfs.erase id, finished := finAfter s id } := by
  have h := c.inv
  have hsub : List.Sublist ((s.wgcs.erase (s.now, id)).map (fun p : Nat × Nat => p.2)) (s.wgcs.map (fun p : Nat × Nat => p.2)) :=
    List.Sublist.map _ List.erase_sublist
  have hretry : ∀ p ∈ s.wgcs.erase (s.now, id), p.2 ∉ s.wfs.erase id → p ∈ s.wgcs ∧ p.2 ∉ s.wfs := by
    intro p hp hn
    obtain ⟨hpw, hpid⟩ := c.other p hp
    exact ⟨hpw, fun hc => hn ((c.memW _).mpr ⟨hpid, hc⟩)⟩
  refine ⟨h.P_pos, h.t_tick, h.t_emu, ?_, h.got_nd, h.in_nd, h.in_fresh, ?_, ?_, ?_, h.sent_got, ?_,
    h.q_nd, h.wfs_nd.erase id, nodup_finAfter h id, ?_, h.sent_nd, ?_, ?_, ?_, ?_, ?_, ?_, h.q_emu, h.nt_emu,
    fun _ => Or.inl hne, ?_, h.emu_sec, ?_, ?_, ?_, ?_⟩
  · intro p hp; exact h.t_wgc p (c.other p hp).1
  · intro x hx
    exact (c.memW x).mpr ⟨fun hc => c.notQ (hc ▸ hx), h.q_wfs x hx⟩
  · intro x hx; exact h.wfs_got x ((c.memW x).mp hx).2
  · intro x hx
    rcases (mem_finAfter s id x).mp hx with hx | hx
    · exact h.fin_got x hx
    · rw [hx]; exact c.idGot
  · intro p hp; exact h.wid_got p (c.other p hp).1
  · exact List.Nodup.sublist hsub h.wid_nd
  · intro x hx hf
    obtain ⟨hxid, hxw⟩ := (c.memW x).mp hx
    rcases (mem_finAfter s id x).mp hf with hf | hf
    · exact h.wfs_fin x hxw hf
    · exact hxid hf
  · intro x hx; exact h.wfs_sent x ((c.memW x).mp hx).2
  · intro x hx
    rcases (mem_finAfter s id x).mp hx with hx | hx
    · exact h.fin_sent x hx
    · rw [hx]; exact c.notSent
  · intro x hx hc
    exact h.q_wid x hx (hsub.subset hc)
  · intro p hp
    obtain ⟨hpw, hpid⟩ := c.other p hp
    refine ⟨(h.wgc_ok p hpw).1, ?_⟩
    rcases (h.wgc_ok p hpw).2 with h1 | h1
    · exact Or.inl ((c.memW _).mpr ⟨hpid, h1⟩)
    · exact Or.inr ((mem_finAfter s id _).mpr (Or.inl h1))
  · intro x hx
    obtain ⟨hxid, hxw⟩ := (c.memW x).mp hx
    rcases h.wfs_cov x hxw with h1 | h1
    · exact Or.inl h1
    · right
      obtain ⟨p, hp, hp2⟩ := List.mem_map.mp h1
      exact List.mem_map.mpr ⟨p, c.keep p hp (by rw [hp2]; exact hxid), hp2⟩
  · intro x hx
    by_cases hxid : x = id
    · right; left; exact (mem_finAfter s id x).mpr (Or.inr hxid)
    · rcases h.got_cov x hx with h1 | h1 | h1
      · exact Or.inl ((c.memW x).mpr ⟨hxid, h1⟩)
      · exact Or.inr (Or.inl ((mem_finAfter s id x).mpr (Or.inl h1)))
      · exact Or.inr (Or.inr h1)
  · intro p hp hn
    obtain ⟨hpw, hpn⟩ := hretry p hp hn
    exact h.r_soon p hpw hpn
  · intro p hp hn q hq hqw
    obtain ⟨hpw, hpn⟩ := hretry p hp hn
    exact h.r_first p hpw hpn q (c.other q hq).1 ((c.memW _).mp hqw).2
  · intro p hp hn hq e he
    obtain ⟨hpw, hpn⟩ := hretry p hp hn
    exact h.r_emu p hpw hpn hq e he
  · intro p hp hn q hq hqn
    obtain ⟨hpw, hpn⟩ := hretry p hp hn
    obtain ⟨hqw, hqn'⟩ := hretry q hq hqn
    exact h.r_one p hpw hpn q hqw hqn'

/-- last group, port has room: one message with every finished id -/
theorem einv_wgc_send {s : Emu} {id : Nat} (c : WgcCtx s id) (hlast : s.wfs.erase id = [])
    (out' : List (List Nat)) :
    EInv { s with wgcs := s.wgcs.erase (s.now, id), wfs := s.wfs.erase id, finished := [], out := out',
                  sent := s.sent ++ [finAfter s id] } := by
  have h := c.inv
  obtain ⟨hW, hQ⟩ := last_group_alone c hlast
  rw [hW, hlast]
  have hflat : ∀ x, x ∈ (s.sent ++ [finAfter s id]).flatten ↔ x ∈ flat s ∨ x ∈ finAfter s id := by
    intro x; simp [flat]
  have hwfs : ∀ x ∈ s.wfs, x = id := by
    intro x hx
    false_or_by_contra
    rename_i hne
    have : x ∈ s.wfs.erase id := (c.memW x).mpr ⟨hne, hx⟩
    rw [hlast] at this
    cases this
  refine ⟨h.P_pos, h.t_tick, h.t_emu, (by intro p hp; cases hp), h.got_nd, h.in_nd, h.in_fresh, ?_,
    (by intro x hx; cases hx), (by intro x hx; cases hx), ?_, (by intro p hp; cases hp),
    h.q_nd, List.nodup_nil, List.nodup_nil, List.nodup_nil, ?_, (by intro x hx; cases hx),
    (by intro x hx; cases hx), (by intro x hx; cases hx), ?_, (by intro p hp; cases hp), (by intro x hx; cases hx),
    h.q_emu, h.nt_emu, fun hc => absurd rfl hc, ?_, h.emu_sec, (by intro p hp; cases hp),
    (by intro p hp; cases hp), (by intro p hp; cases hp), (by intro p hp; cases hp)⟩
  · intro x hx
    have : x ∈ s.queue := hx
    rw [hQ] at this
    cases this
  · intro x hx
    rcases (hflat x).mp hx with hx | hx
    · exact h.sent_got x hx
    · rcases (mem_finAfter s id x).mp hx with hx | hx
      · exact h.fin_got x hx
      · rw [hx]; exact c.idGot
  · show ((s.sent ++ [finAfter s id]).flatten).Nodup
    rw [List.flatten_append, List.nodup_append]
    refine ⟨h.sent_nd, by simpa using nodup_finAfter h id, ?_⟩
    intro a ha b hb hab
    subst hab
    have hb' : a ∈ finAfter s id := by simpa using hb
    rcases (mem_finAfter s id a).mp hb' with hb' | hb'
    · exact h.fin_sent a hb' ha
    · exact c.notSent (hb' ▸ ha)
  · intro x hx
    have : x ∈ s.queue := hx
    rw [hQ] at this
    cases this
  · intro x hx
    right; right
    apply (hflat x).mpr
    rcases h.got_cov x hx with h1 | h1 | h1
    · exact Or.inr ((mem_finAfter s id x).mpr (Or.inr (hwfs x h1)))
    · exact Or.inr ((mem_finAfter s id x).mpr (Or.inl h1))
    · exact Or.inl h1

/-- last group, port full: the event is scheduled again one cycle later -/
theorem einv_wgc_retry {s : Emu} {id : Nat} (c : WgcCtx s id) (hlast : s.wfs.erase id = []) :
    EInv { s with wgcs := s.wgcs.erase (s.now, id) ++ [(s.now + 1, id)], wfs := s.wfs.erase id,
                  finished := finAfter s id } := by
  have h := c.inv
  obtain ⟨hW, hQ⟩ := last_group_alone c hlast
  rw [hW, hlast]
  have hwfs : ∀ x ∈ s.wfs, x = id := by
    intro x hx
    false_or_by_contra
    rename_i hne
    have : x ∈ s.wfs.erase id := (c.memW x).mpr ⟨hne, hx⟩
    rw [hlast] at this
    cases this
  have hidf : id ∈ finAfter s id := (mem_finAfter s id id).mpr (Or.inr rfl)
  have hone : ∀ p ∈ ([] : List (Nat × Nat)) ++ [(s.now + 1, id)], p = (s.now + 1, id) := by
    intro p hp; simpa using hp
  refine ⟨h.P_pos, h.t_tick, h.t_emu, ?_, h.got_nd, h.in_nd, h.in_fresh, ?_,
    (by intro x hx; cases hx), ?_, h.sent_got, ?_,
    h.q_nd, List.nodup_nil, nodup_finAfter h id, (by simp [wids]), h.sent_nd, (by intro x hx; cases hx),
    (by intro x hx; cases hx), ?_, ?_, ?_, (by intro x hx; cases hx),
    h.q_emu, h.nt_emu, ?_, ?_, h.emu_sec, ?_, ?_, ?_, ?_⟩
  · intro p hp; rw [hone p hp]; show s.now ≤ s.now + 1; omega
  · intro x hx
    have : x ∈ s.queue := hx
    rw [hQ] at this
    cases this
  · intro x hx
    rcases (mem_finAfter s id x).mp hx with hx | hx
    · exact h.fin_got x hx
    · rw [hx]; exact c.idGot
  · intro p hp; rw [hone p hp]; exact c.idGot
  · intro x hx
    rcases (mem_finAfter s id x).mp hx with hx | hx
    · exact h.fin_sent x hx
    · rw [hx]; exact c.notSent
  · intro x hx
    have : x ∈ s.queue := hx
    rw [hQ] at this
    cases this
  · intro p hp; rw [hone p hp]; exact ⟨c.notSent, Or.inr hidf⟩
  · intro _; right; exact ⟨(s.now + 1, id), by simp, by simp⟩
  · intro x hx
    rcases h.got_cov x hx with h1 | h1 | h1
    · right; left; exact (mem_finAfter s id x).mpr (Or.inr (hwfs x h1))
    · right; left; exact (mem_finAfter s id x).mpr (Or.inl h1)
    · exact Or.inr (Or.inr h1)
  · intro p hp _; rw [hone p hp]; show s.now + 1 ≤ s.now + 1; omega
  · intro p _ _ q _ hq; cases hq
  · intro p _ _ hq
    have : s.queue ≠ [] := hq
    exact absurd hQ this
  · intro p hp _ q hq _; rw [hone p hp, hone q hq]

theorem einv_wgComplete {s : Emu} (h : EInv s) (id : Nat) (hmem : (s.now, id) ∈ s.wgcs) :
    EInv (wgComplete { s with wgcs := s.wgcs.erase (s.now, id) } id) := by
  have c := wgcCtx h id hmem
  unfold wgComplete
  dsimp only
  by_cases hlast : s.wfs.erase id = []
  · have hne : ¬ (s.wfs.erase id ≠ []) := fun hc => hc hlast
    rw [if_neg hne]
    split
    · exact einv_wgc_send c hlast _
    · exact einv_wgc_retry c hlast
  · rw [if_pos hlast]
    exact einv_wgc_wait c hlast

theorem einv_fireWgc {s : Emu} (h : EInv s) (t id : Nat) (hok : EOk s (.wgc t id)) :
    EInv (fireWgc s t id) := by
  obtain ⟨hmem, hm⟩ := hok
  have hle : s.now ≤ t := h.t_wgc _ hmem
  have h1 := einv_advance h t hm hle
  exact einv_wgComplete h1 id hmem

/-- every step the hypotheses allow keeps the invariant -/
theorem einv_step {s : Emu} (h : EInv s) (o : EOp) (hok : EOk s o) : EInv (estep s o) := by
  cases o with
  | deliver id => exact einv_deliver h id hok
  | fill => exact einv_fill h
  | take => exact einv_take h
  | tick t => exact einv_fireTick h t hok
  | emu t => exact einv_fireEmu h t hok
  | wgc t id => exact einv_fireWgc h t id hok

end C09.CUSide
