import MgpuProofs.C09CUEmuStep
/-! # C09, emulation compute unit — the repaired `handleWGCompleteEvent` keeps the invariants

`wgComplete = wgFlush ∘ wgRecord`. `wgRecord` moves `id` from `wfs` to `finished` only if it is
still mapped, so a retry event (or any second event of the same request) records nothing: the
three id sets stay disjoint **whatever event fires when**. -/
namespace C09.CUSide

/-- first event of request `id`: the entry is deleted and the id recorded. `W` = the pending
    completion events without the one being handled. -/
theorem ncore_record {s : Emu} (h : NCore s) (id : Nat) (W : List (Nat × Nat)) (hidw : id ∈ s.wfs)
    (hidq : id ∉ s.queue) (hW1 : ∀ p ∈ W, p ∈ s.wgcs) (hW2 : ∀ p ∈ s.wgcs, p.2 ≠ id → p ∈ W) :
    NCore { s with wgcs := W, wfs := s.wfs.erase id, finished := s.finished ++ [id] } := by
  have memW : ∀ x, x ∈ s.wfs.erase id ↔ x ≠ id ∧ x ∈ s.wfs := fun x => h.wfs_nd.mem_erase_iff
  have hidg : id ∈ s.got := h.wfs_got id hidw
  refine ⟨h.got_nd, h.in_nd, h.in_fresh, ?_, ?_, ?_, ?_, h.sent_got, ?_, h.wfs_nd.erase id,
    nodup_snoc h.fin_nd (h.wfs_fin id hidw), h.sent_nd, ?_, ?_, ?_, ?_, ?_⟩
  · intro x hx
    exact (memW x).mpr ⟨fun hc => hidq (hc ▸ hx), h.q_wfs x hx⟩
  · intro x hx hc
    obtain ⟨p, hp, hp2⟩ := List.mem_map.mp hc
    exact h.q_wid x hx (List.mem_map.mpr ⟨p, hW1 p hp, hp2⟩)
  · intro x hx; exact h.wfs_got x ((memW x).mp hx).2
  · intro x hx
    rcases mem_snoc.mp hx with hx | hx
    · exact h.fin_got x hx
    · rw [hx]; exact hidg
  · intro p hp; exact h.wid_got p (hW1 p hp)
  · intro x hx hf
    obtain ⟨hxid, hxw⟩ := (memW x).mp hx
    rcases mem_snoc.mp hf with hf | hf
    · exact h.wfs_fin x hxw hf
    · exact hxid hf
  · intro x hx; exact h.wfs_sent x ((memW x).mp hx).2
  · intro x hx
    rcases mem_snoc.mp hx with hx | hx
    · exact h.fin_sent x hx
    · rw [hx]; exact h.wfs_sent id hidw
  · intro x hx
    obtain ⟨hxid, hxw⟩ := (memW x).mp hx
    rcases h.wfs_cov x hxw with h1 | h1
    · exact Or.inl h1
    · right
      obtain ⟨p, hp, hp2⟩ := List.mem_map.mp h1
      exact List.mem_map.mpr ⟨p, hW2 p hp (by rw [hp2]; exact hxid), hp2⟩
  · intro x hx
    by_cases hxid : x = id
    · right; left; exact mem_snoc.mpr (Or.inr hxid)
    · rcases h.got_cov x hx with h1 | h1 | h1
      · exact Or.inl ((memW x).mpr ⟨hxid, h1⟩)
      · exact Or.inr (Or.inl (mem_snoc.mpr (Or.inl h1)))
      · exact Or.inr (Or.inr h1)

/-- a later event of request `id` (retry, or whatever): nothing is recorded -/
theorem ncore_norecord {s : Emu} (h : NCore s) (id : Nat) (W : List (Nat × Nat)) (hidw : id ∉ s.wfs)
    (hW1 : ∀ p ∈ W, p ∈ s.wgcs) (hW2 : ∀ p ∈ s.wgcs, p.2 ≠ id → p ∈ W) :
    NCore { s with wgcs := W } := by
  refine ⟨h.got_nd, h.in_nd, h.in_fresh, h.q_wfs, ?_, h.wfs_got, h.fin_got, h.sent_got, ?_, h.wfs_nd,
    h.fin_nd, h.sent_nd, h.wfs_fin, h.wfs_sent, h.fin_sent, ?_, h.got_cov⟩
  · intro x hx hc
    obtain ⟨p, hp, hp2⟩ := List.mem_map.mp hc
    exact h.q_wid x hx (List.mem_map.mpr ⟨p, hW1 p hp, hp2⟩)
  · intro p hp; exact h.wid_got p (hW1 p hp)
  · intro x hx
    rcases h.wfs_cov x hx with h1 | h1
    · exact Or.inl h1
    · right
      obtain ⟨p, hp, hp2⟩ := List.mem_map.mp h1
      exact List.mem_map.mpr ⟨p, hW2 p hp (by rw [hp2]; intro hc; exact hidw (hc ▸ hx)), hp2⟩

/-- `wgRecord` on the state whose handled event `(t, id)` has been removed -/
theorem ncore_wgRecord {s : Emu} (h : NCore s) (t id : Nat) (hmem : (t, id) ∈ s.wgcs) :
    NCore (wgRecord { s with wgcs := s.wgcs.erase (t, id), now := t } id) ∧
    id ∈ (wgRecord { s with wgcs := s.wgcs.erase (t, id), now := t } id).got := by
  have hidq : id ∉ s.queue := fun hq => h.q_wid id hq (List.mem_map.mpr ⟨_, hmem, rfl⟩)
  have hW1 : ∀ p ∈ s.wgcs.erase (t, id), p ∈ s.wgcs := fun p hp => List.mem_of_mem_erase hp
  have hW2 : ∀ p ∈ s.wgcs, p.2 ≠ id → p ∈ s.wgcs.erase (t, id) := by
    intro p hp hne
    exact (List.mem_erase_of_ne (fun hc => hne (by rw [hc]))).mpr hp
  have hg : id ∈ s.got := h.wid_got _ hmem
  unfold wgRecord
  dsimp only
  by_cases hidw : id ∈ s.wfs
  · rw [if_pos hidw]
    exact ⟨ncore_frame (ncore_record h id _ hidw hidq hW1 hW2) rfl rfl rfl rfl rfl rfl rfl, hg⟩
  · rw [if_neg hidw]
    exact ⟨ncore_frame (ncore_norecord h id _ hidw hW1 hW2) rfl rfl rfl rfl rfl rfl rfl, hg⟩

/-- second half: return / one message with every finished id / retry event -/
theorem ninv_wgFlush {s : Emu} (h : NCore s) (id : Nat) (hid : id ∈ s.got) : NInv (wgFlush s id) := by
  unfold wgFlush
  split
  · rename_i hc
    refine ⟨h, ?_⟩
    intro hf
    rcases hc with hc | hc
    · exact Or.inl hc
    · exact absurd hc hf
  · rename_i hc
    have hwe : s.wfs = [] := Decidable.byContradiction fun hn => hc (Or.inl hn)
    have hnow : ∀ x, x ∉ s.wfs := by intro x hx; rw [hwe] at hx; cases hx
    have hqe : ∀ x, x ∉ s.queue := fun x hx => hnow x (h.q_wfs x hx)
    split
    · -- room: one message
      have hflat : ∀ x, x ∈ (s.sent ++ [s.finished]).flatten ↔ x ∈ flat s ∨ x ∈ s.finished := by
        intro x; simp [flat]
      refine ⟨⟨h.got_nd, h.in_nd, h.in_fresh, h.q_wfs, h.q_wid, h.wfs_got, ?_, ?_, h.wid_got, h.wfs_nd,
        List.nodup_nil, ?_, ?_, ?_, ?_, h.wfs_cov, ?_⟩, ?_⟩
      · intro x hx; cases hx
      · intro x hx
        rcases (hflat x).mp hx with hx | hx
        · exact h.sent_got x hx
        · exact h.fin_got x hx
      · show ((s.sent ++ [s.finished]).flatten).Nodup
        rw [List.flatten_append, List.nodup_append]
        refine ⟨h.sent_nd, by simpa using h.fin_nd, ?_⟩
        intro a ha b hb hab
        subst hab
        have hb' : a ∈ s.finished := by simpa using hb
        exact h.fin_sent a hb' ha
      · intro x hx; exact absurd hx (hnow x)
      · intro x hx; exact absurd hx (hnow x)
      · intro x hx; cases hx
      · intro x hx
        right; right
        apply (hflat x).mpr
        rcases h.got_cov x hx with h1 | h1 | h1
        · exact absurd h1 (hnow x)
        · exact Or.inr h1
        · exact Or.inl h1
      · intro hf; exact absurd rfl hf
    · -- port full: the event is scheduled again one cycle later
      refine ⟨⟨h.got_nd, h.in_nd, h.in_fresh, h.q_wfs, ?_, h.wfs_got, h.fin_got, h.sent_got, ?_, h.wfs_nd,
        h.fin_nd, h.sent_nd, h.wfs_fin, h.wfs_sent, h.fin_sent, ?_, h.got_cov⟩, ?_⟩
      · intro x hx; exact absurd hx (hqe x)
      · intro p hp
        rcases List.mem_append.mp hp with hp | hp
        · exact h.wid_got p hp
        · simp at hp; rw [hp]; exact hid
      · intro x hx; exact absurd hx (hnow x)
      · intro _
        right
        show s.wgcs ++ [(s.now + 1, id)] ≠ []
        simp

/-- a pending WGCompleteEvent fires — at any time, in any order -/
theorem ninv_fireWgc {s : Emu} (h : NInv s) (t id : Nat) (hmem : (t, id) ∈ s.wgcs) :
    NInv (fireWgc s t id) := by
  obtain ⟨h1, h2⟩ := ncore_wgRecord h.core t id hmem
  exact ninv_wgFlush h1 id h2

/-- every step keeps the bookkeeping invariant: fresh ids and "only a pending WGCompleteEvent
    fires" are the only obligations -/
theorem ninv_step {s : Emu} (h : NInv s) (o : EOp) (hok : EOkLoose s o) : NInv (estep s o) := by
  cases o with
  | deliver id => exact ninv_deliver h id hok.1 hok.2
  | fill => exact ninv_fill h
  | take => exact ninv_take h
  | tick t => exact ninv_fireTick h t
  | emu t => exact ninv_fireEmu h t
  | wgc t id => exact ninv_fireWgc h t id hok

/-! ## time -/

theorem wgRecord_time (s : Emu) (id : Nat) :
    (wgRecord s id).P = s.P ∧ (wgRecord s id).now = s.now ∧ (wgRecord s id).nextTick = s.nextTick ∧
    (wgRecord s id).queue = s.queue ∧ (wgRecord s id).emus = s.emus ∧ (wgRecord s id).ticks = s.ticks ∧
    (wgRecord s id).wgcs = s.wgcs := by
  unfold wgRecord
  split <;> exact ⟨rfl, rfl, rfl, rfl, rfl, rfl, rfl⟩

theorem wgRecord_port (s : Emu) (id : Nat) :
    (wgRecord s id).incap = s.incap ∧ (wgRecord s id).tickAt = s.tickAt ∧ (wgRecord s id).inbuf = s.inbuf := by
  unfold wgRecord
  split <;> exact ⟨rfl, rfl, rfl⟩

theorem wgFlush_time (s : Emu) (id : Nat) :
    (wgFlush s id).P = s.P ∧ (wgFlush s id).now = s.now ∧ (wgFlush s id).nextTick = s.nextTick ∧
    (wgFlush s id).queue = s.queue ∧ (wgFlush s id).emus = s.emus ∧ (wgFlush s id).ticks = s.ticks ∧
    ((wgFlush s id).wgcs = s.wgcs ∨ (wgFlush s id).wgcs = s.wgcs ++ [(s.now + 1, id)]) := by
  unfold wgFlush
  split
  · exact ⟨rfl, rfl, rfl, rfl, rfl, rfl, Or.inl rfl⟩
  · split
    · exact ⟨rfl, rfl, rfl, rfl, rfl, rfl, Or.inl rfl⟩
    · exact ⟨rfl, rfl, rfl, rfl, rfl, rfl, Or.inr rfl⟩

theorem wgFlush_port (s : Emu) (id : Nat) :
    (wgFlush s id).incap = s.incap ∧ (wgFlush s id).tickAt = s.tickAt ∧ (wgFlush s id).inbuf = s.inbuf := by
  unfold wgFlush
  split
  · exact ⟨rfl, rfl, rfl⟩
  · split <;> exact ⟨rfl, rfl, rfl⟩

theorem etime_wgComplete {s : Emu} (h : ETime s) (id : Nat) : ETime (wgComplete s id) := by
  unfold wgComplete
  obtain ⟨r1, r2, r3, r4, r5, r6, r7⟩ := wgRecord_time s id
  obtain ⟨f1, f2, f3, f4, f5, f6, f7⟩ := wgFlush_time (wgRecord s id) id
  refine etime_frame h (f1.trans r1) (f2.trans r2) (f3.trans r3) (f4.trans r4) (f5.trans r5) ?_ ?_
  · intro t ht
    rw [f6, r6] at ht
    exact h.t_tick t ht
  · intro p hp
    rcases f7 with f7 | f7
    · rw [f7, r7] at hp
      exact h.t_wgc p hp
    · rw [f7, r7, r2] at hp
      rcases List.mem_append.mp hp with hp | hp
      · exact h.t_wgc p hp
      · simp at hp
        rw [hp]
        show s.now ≤ s.now + 1
        omega

theorem etime_fireWgc {s : Emu} (h : ETime s) (t id : Nat) (hok : Legal s (.wgc t id)) :
    ETime (fireWgc s t id) := by
  obtain ⟨hmem, hm⟩ := hok
  have h1 := etime_advance h t hm (h.t_wgc _ hmem)
  have h2 : ETime { s with wgcs := s.wgcs.erase (t, id), now := t } :=
    etime_frame h1 rfl rfl rfl rfl rfl h1.t_tick (fun p hp => h1.t_wgc p (List.mem_of_mem_erase hp))
  exact etime_wgComplete h2 id

/-- every step of a time-ordered engine (any tie-break, whole seconds included) keeps `ETime` -/
theorem etime_step {s : Emu} (h : ETime s) (o : EOp) (hok : Legal s o) : ETime (estep s o) := by
  cases o with
  | deliver id => exact etime_deliver h id
  | fill => exact etime_fill h
  | take => exact etime_take h
  | tick t => exact etime_fireTick h t hok
  | emu t => exact etime_fireEmu h t hok
  | wgc t id => exact etime_fireWgc h t id hok

end C09.CUSide
