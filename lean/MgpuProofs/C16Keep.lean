import MgpuProofs.C16Uniq
/-! # C16 — `UInv`, `NInv`, `BInv` hold after every op sequence -/
namespace C16

structure UInv (s : St) : Prop where
  tlt : ∀ i ∈ txTids s.txs, i < s.nextT
  tnd : (txTids s.txs).Nodup
  alt : ∀ q ∈ s.asked, q.tid < s.nextT
  and_ : (s.asked.map (·.tid)).Nodup
  flt : ∀ i ∈ inflBids s.infl, i < s.nextB
  fnd : (inflBids s.infl).Nodup
  glt : ∀ l ∈ s.forwarded, l.breq.bid < s.nextB

theorem translate_uinv (c : Cfg) (s : St) (h : UInv s) : UInv (translate c s).1 := by
  unfold translate
  split
  · exact h
  · rename_i a rest htop
    split
    · rename_i txs' hco
      refine ⟨?_, ?_, h.alt, h.and_, h.flt, h.fnd, h.glt⟩
      · show ∀ i ∈ txTids txs', i < s.nextT
        rw [coalesce_tids _ _ _ _ hco]; exact h.tlt
      · show (txTids txs').Nodup
        rw [coalesce_tids _ _ _ _ hco]; exact h.tnd
    · split
      · refine ⟨?_, ?_, ?_, ?_, h.flt, h.fnd, h.glt⟩
        · intro i hi
          simp only [txTids_append, txTids_cons, txTids_nil, List.mem_append, List.mem_singleton] at hi
          show i < s.nextT + 1
          rcases hi with hi | rfl
          · have := h.tlt i hi; omega
          · omega
        · show (txTids (s.txs ++ [_])).Nodup
          simp only [txTids_append, txTids_cons, txTids_nil]
          exact nodup_snoc h.tnd h.tlt
        · intro q hq
          simp only [List.mem_cons] at hq
          show q.tid < s.nextT + 1
          rcases hq with rfl | hq
          · show s.nextT < s.nextT + 1; omega
          · have := h.alt q hq; omega
        · show (List.map (·.tid) (_ :: s.asked)).Nodup
          simp only [List.map_cons, List.nodup_cons]
          refine ⟨?_, h.and_⟩
          intro hm
          obtain ⟨q, hq, he⟩ := List.mem_map.mp hm
          have := h.alt q hq
          have he' : q.tid = s.nextT := he
          omega
      · exact h

theorem emit_uinv (c : Cfg) (s : St) (a : Acc) (p : Nat) (txs' : List Tx) (h : UInv s)
    (hsub : (txTids txs').Sublist (txTids s.txs)) : UInv (emit c s a p txs') := by
  refine ⟨fun i hi => h.tlt i (hsub.subset hi), h.tnd.sublist hsub, h.alt, h.and_, ?_, ?_, ?_⟩
  · intro i hi
    simp only [emit, inflBids_append, inflBids_cons, inflBids_nil, List.mem_append, List.mem_singleton] at hi
    show i < s.nextB + 1
    rcases hi with hi | rfl
    · have := h.flt i hi; omega
    · show s.nextB < s.nextB + 1; omega
  · show (inflBids (s.infl ++ [_])).Nodup
    simp only [inflBids_append, inflBids_cons, inflBids_nil]
    exact nodup_snoc h.fnd h.flt
  · intro l hl
    simp only [emit, List.mem_cons] at hl
    show l.breq.bid < s.nextB + 1
    rcases hl with rfl | hl
    · show s.nextB < s.nextB + 1; omega
    · have := h.glt l hl; omega

theorem mark_uinv (s : St) (p : Tx → Bool) (pa : Nat) (h : UInv s) :
    UInv { s with txs := markFirst p pa s.txs } := by
  refine ⟨?_, ?_, h.alt, h.and_, h.flt, h.fnd, h.glt⟩
  · show ∀ i ∈ txTids (markFirst p pa s.txs), i < s.nextT
    rw [markFirst_tids]; exact h.tlt
  · show (txTids (markFirst p pa s.txs)).Nodup
    rw [markFirst_tids]; exact h.tnd

theorem parseTranslation_uinv (c : Cfg) (s : St) (h : UInv s) : UInv (parseTranslation c s).1 := by
  unfold parseTranslation
  split
  · rename_i t txs' hp
    split
    · split
      · exact emit_uinv c s _ _ txs' h (popFirst_tids _ _ _ _ hp)
      · exact h
    · exact h
  · split
    · exact h
    · rename_i r rest htr
      have hs1 := mark_uinv s (hasTid r.rspTo) r.paddr h
      split
      · exact ⟨h.tlt, h.tnd, h.alt, h.and_, h.flt, h.fnd, h.glt⟩
      · rename_i t txs' hp
        split
        · exact hs1
        · rename_i a rs hreq
          split
          · have := emit_uinv c _ a r.paddr txs' hs1 (popFirst_tids _ _ _ _ hp)
            exact ⟨this.tlt, this.tnd, this.alt, this.and_, this.flt, this.fnd, this.glt⟩
          · exact hs1

theorem respond_uinv (c : Cfg) (s : St) (h : UInv s) : UInv (respond c s).1 := by
  unfold respond
  split
  · exact h
  · split
    · exact ⟨h.tlt, h.tnd, h.alt, h.and_, h.flt, h.fnd, h.glt⟩
    · rename_i f infl' hx
      have hsub := extract_bids _ _ _ _ hx
      split
      · exact ⟨h.tlt, h.tnd, h.alt, h.and_, fun i hi => h.flt i (hsub.subset hi), h.fnd.sublist hsub, h.glt⟩
      · exact h

theorem handleCtrl_uinv (s : St) (h : UInv s) : UInv (handleCtrl s).1 := by
  unfold handleCtrl
  split
  · exact h
  · split
    · exact ⟨by simp, by simp, h.alt, h.and_, by simp, by simp, h.glt⟩
    · exact h
  · split
    · exact ⟨h.tlt, h.tnd, h.alt, h.and_, h.flt, h.fnd, h.glt⟩
    · exact h
  · exact ⟨h.tlt, h.tnd, h.alt, h.and_, h.flt, h.fnd, h.glt⟩

theorem step_uinv (c : Cfg) (s : St) (o : Op) (h : UInv s) : UInv (step c s o) := by
  cases o with
  | tick => exact tick_pres c (respond_uinv c) (parseTranslation_uinv c) (translate_uinv c) handleCtrl_uinv s h
  | access pid va pl => simp only [step]; split <;> exact ⟨h.tlt, h.tnd, h.alt, h.and_, h.flt, h.fnd, h.glt⟩
  | trsp r => simp only [step]; split <;> exact ⟨h.tlt, h.tnd, h.alt, h.and_, h.flt, h.fnd, h.glt⟩
  | brsp r => simp only [step]; split <;> exact ⟨h.tlt, h.tnd, h.alt, h.and_, h.flt, h.fnd, h.glt⟩
  | drainTop => exact ⟨h.tlt, h.tnd, h.alt, h.and_, h.flt, h.fnd, h.glt⟩
  | drainBot => exact ⟨h.tlt, h.tnd, h.alt, h.and_, h.flt, h.fnd, h.glt⟩
  | drainTr => exact ⟨h.tlt, h.tnd, h.alt, h.and_, h.flt, h.fnd, h.glt⟩
  | drainCtl => exact ⟨h.tlt, h.tnd, h.alt, h.and_, h.flt, h.fnd, h.glt⟩
  | ctl k => simp only [step]; split <;> exact ⟨h.tlt, h.tnd, h.alt, h.and_, h.flt, h.fnd, h.glt⟩

theorem uinv_init : UInv {} := ⟨by simp, by simp, by simp, by simp, by simp, by simp, by simp⟩

theorem run_uinv (c : Cfg) (ops : List Op) : UInv (run c ops) :=
  run_pres c (step_uinv c) ops {} uinv_init

/-! ## nothing accepted is dropped -/

/-- the access is held in a transaction, in flight, or answered -/
def Held (s : St) (a : Acc) : Prop :=
  a ∈ txReqs s.txs ∨ a ∈ s.infl.map (·.top) ∨ a ∈ s.answered.map (·.top)

structure NInv (s : St) : Prop where
  fl : s.flushing = true → s.txs = [] ∧ s.infl = []
  ep : ∀ p ∈ s.received, p.2 ≤ s.epoch
  nl : ∀ p ∈ s.received, p.2 = s.epoch → Held s p.1

theorem translate_ninv (c : Cfg) (s : St) (h : NInv s) (hf : s.flushing = false) : NInv (translate c s).1 := by
  unfold translate
  split
  · exact h
  · rename_i a rest htop
    split
    · rename_i txs' hco
      have hr := coalesce_reqs _ _ _ _ hco
      refine ⟨fun hh => by simp [hf] at hh, ?_, ?_⟩
      · intro p hp
        simp only [List.mem_cons] at hp
        rcases hp with rfl | hp
        · exact Nat.le_refl _
        · exact h.ep p hp
      · intro p hp he
        simp only [List.mem_cons] at hp
        rcases hp with rfl | hp
        · exact Or.inl ((hr a).mpr (Or.inr rfl))
        · rcases h.nl p hp he with h1 | h1 | h1
          · exact Or.inl ((hr p.1).mpr (Or.inl h1))
          · exact Or.inr (Or.inl h1)
          · exact Or.inr (Or.inr h1)
    · split
      · refine ⟨fun hh => by simp [hf] at hh, ?_, ?_⟩
        · intro p hp
          simp only [List.mem_cons] at hp
          rcases hp with rfl | hp
          · exact Nat.le_refl _
          · exact h.ep p hp
        · intro p hp he
          simp only [List.mem_cons] at hp
          rcases hp with rfl | hp
          · exact Or.inl (by simp)
          · rcases h.nl p hp he with h1 | h1 | h1
            · exact Or.inl (by simp [h1])
            · exact Or.inr (Or.inl h1)
            · exact Or.inr (Or.inr h1)
      · exact h

/-- a successful bottom-port send of the head request of the popped transaction -/
theorem emit_ninv (c : Cfg) (s : St) (a : Acc) (p : Nat) (txs' : List Tx) (h : NInv s)
    (hfl : s.flushing = false)
    (hk : ∀ x ∈ txReqs s.txs, x ∈ txReqs txs' ∨ x = a) : NInv (emit c s a p txs') := by
  refine ⟨fun hh => by simp [emit, hfl] at hh, h.ep, ?_⟩
  intro q hq he
  rcases h.nl q hq he with h1 | h1 | h1
  · rcases hk _ h1 with h2 | h2
    · exact Or.inl h2
    · exact Or.inr (Or.inl (by simp [emit, h2]))
  · exact Or.inr (Or.inl (by
      simp only [emit, List.map_append, List.mem_append]
      exact Or.inl h1))
  · exact Or.inr (Or.inr h1)

theorem parseTranslation_ninv (c : Cfg) (s : St) (h : NInv s) : NInv (parseTranslation c s).1 := by
  -- while flushing there is no transaction, so only the "unknown reply" path can run
  have hnofl : ∀ (q : Tx → Bool) (l : List Tx) (x : Tx × List Tx), popFirst q l = some x → l = s.txs ∨
      (∃ q' pa, l = markFirst q' pa s.txs) → s.flushing = false := by
    intro q l x hx hl
    cases hfl : s.flushing with
    | false => rfl
    | true =>
      have h0 := (h.fl hfl).1
      rcases hl with rfl | ⟨q', pa, rfl⟩
      · rw [h0] at hx; simp [popFirst] at hx
      · rw [h0] at hx; simp [markFirst, popFirst] at hx
  unfold parseTranslation
  split
  · rename_i t txs' hp
    have hfl := hnofl _ _ _ hp (Or.inl rfl)
    split
    · rename_i a rs pg hr _
      split
      · apply emit_ninv c s a pg txs' h hfl
        intro x hx
        rcases popFirst_reqs _ _ _ _ hp x hx with h1 | h1
        · exact Or.inl h1
        · right; simp [hr] at h1; exact h1.symm
      · exact h
    · exact h
  · split
    · exact h
    · rename_i r rest htr
      have hs1 : NInv { s with txs := markFirst (hasTid r.rspTo) r.paddr s.txs } := by
        refine ⟨?_, h.ep, ?_⟩
        · intro hh
          obtain ⟨h1, h2⟩ := h.fl hh
          exact ⟨by show markFirst _ _ s.txs = []; rw [h1]; rfl, h2⟩
        · intro q hq he
          rcases h.nl q hq he with h1 | h1 | h1
          · exact Or.inl (by show q.1 ∈ txReqs (markFirst _ _ s.txs); rw [markFirst_reqs]; exact h1)
          · exact Or.inr (Or.inl h1)
          · exact Or.inr (Or.inr h1)
      split
      · exact ⟨h.fl, h.ep, h.nl⟩
      · rename_i t txs' hp
        have hfl := hnofl _ _ _ hp (Or.inr ⟨_, _, rfl⟩)
        split
        · exact hs1
        · rename_i a rs hreq
          split
          · have := emit_ninv c { s with txs := markFirst (hasTid r.rspTo) r.paddr s.txs } a r.paddr txs' hs1 hfl
              (by
                intro x hx
                rcases popFirst_reqs _ _ _ _ hp x hx with h1 | h1
                · exact Or.inl h1
                · right; simp [hreq] at h1; exact h1.symm)
            exact ⟨this.fl, this.ep, this.nl⟩
          · exact hs1

theorem respond_ninv (c : Cfg) (s : St) (h : NInv s) : NInv (respond c s).1 := by
  unfold respond
  split
  · exact h
  · split
    · exact ⟨h.fl, h.ep, h.nl⟩
    · rename_i f infl' hx
      have hk := extract_keep _ _ _ _ hx
      split
      · refine ⟨?_, h.ep, ?_⟩
        · intro hh
          obtain ⟨_, h2⟩ := h.fl hh
          rw [h2] at hx; simp [extract] at hx
        · intro q hq he
          rcases h.nl q hq he with h1 | h1 | h1
          · exact Or.inl h1
          · obtain ⟨g, hg, hge⟩ := List.mem_map.mp h1
            rcases hk g hg with h2 | h2
            · exact Or.inr (Or.inl (List.mem_map.mpr ⟨g, h2, hge⟩))
            · exact Or.inr (Or.inr (by simp [← hge, h2]))
          · exact Or.inr (Or.inr (by simp only [List.map_cons, List.mem_cons]; exact Or.inr h1))
      · exact h

theorem handleCtrl_ninv (s : St) (h : NInv s) : NInv (handleCtrl s).1 := by
  unfold handleCtrl
  split
  · exact h
  · split
    · refine ⟨fun _ => ⟨rfl, rfl⟩, ?_, ?_⟩
      · intro p hp
        have := h.ep p hp
        show p.2 ≤ s.epoch + 1
        omega
      · intro p hp he
        have := h.ep p hp
        have he' : p.2 = s.epoch + 1 := he
        omega
    · exact h
  · split
    · exact ⟨fun hh => by simp at hh, h.ep, h.nl⟩
    · exact h
  · exact ⟨h.fl, h.ep, h.nl⟩

theorem step_ninv (c : Cfg) (s : St) (o : Op) (h : NInv s) : NInv (step c s o) := by
  cases o with
  | tick =>
    exact tick_pres2 c (fun s h _ => respond_ninv c s h) (parseTranslation_ninv c)
      (translate_ninv c) handleCtrl_ninv s h
  | access pid va pl => simp only [step]; split <;> exact ⟨h.fl, h.ep, h.nl⟩
  | trsp r => simp only [step]; split <;> exact ⟨h.fl, h.ep, h.nl⟩
  | brsp r => simp only [step]; split <;> exact ⟨h.fl, h.ep, h.nl⟩
  | drainTop => exact ⟨h.fl, h.ep, h.nl⟩
  | drainBot => exact ⟨h.fl, h.ep, h.nl⟩
  | drainTr => exact ⟨h.fl, h.ep, h.nl⟩
  | drainCtl => exact ⟨h.fl, h.ep, h.nl⟩
  | ctl k => simp only [step]; split <;> exact ⟨h.fl, h.ep, h.nl⟩

theorem ninv_init : NInv {} := ⟨by simp, by simp, by simp⟩

theorem run_ninv (c : Cfg) (ops : List Op) : NInv (run c ops) :=
  run_pres c (step_ninv c) ops {} ninv_init

/-! ## buffer bounds -/

structure BInv (c : Cfg) (s : St) : Prop where
  top : s.topOut.length ≤ c.width
  bot : s.botOut.length ≤ c.width
  tr : s.trOut.length ≤ c.width
  ctlO : s.ctlOut ≤ 1
  ctlI : s.ctlIn.length ≤ 1

theorem translate_binv (c : Cfg) (s : St) (h : BInv c s) : BInv c (translate c s).1 := by
  unfold translate
  split
  · exact h
  · split
    · exact ⟨h.top, h.bot, h.tr, h.ctlO, h.ctlI⟩
    · split
      · rename_i hlt
        refine ⟨h.top, h.bot, ?_, h.ctlO, h.ctlI⟩
        show (s.trOut ++ [_]).length ≤ c.width
        simp; omega
      · exact h

theorem emit_binv (c : Cfg) (s : St) (a : Acc) (p : Nat) (txs' : List Tx) (h : BInv c s)
    (hlt : s.botOut.length < c.width) : BInv c (emit c s a p txs') := by
  refine ⟨h.top, ?_, h.tr, h.ctlO, h.ctlI⟩
  show (s.botOut ++ [_]).length ≤ c.width
  simp; omega

theorem parseTranslation_binv (c : Cfg) (s : St) (h : BInv c s) : BInv c (parseTranslation c s).1 := by
  unfold parseTranslation
  split
  · split
    · split
      · rename_i hlt; exact emit_binv c s _ _ _ h hlt
      · exact h
    · exact h
  · split
    · exact h
    · rename_i r rest htr
      split
      · exact ⟨h.top, h.bot, h.tr, h.ctlO, h.ctlI⟩
      · rename_i t txs' hp
        split
        · exact ⟨h.top, h.bot, h.tr, h.ctlO, h.ctlI⟩
        · rename_i a rs hreq
          split
          · rename_i hlt
            have := emit_binv c { s with txs := markFirst (hasTid r.rspTo) r.paddr s.txs } a r.paddr txs'
              ⟨h.top, h.bot, h.tr, h.ctlO, h.ctlI⟩ hlt
            exact ⟨this.top, this.bot, this.tr, this.ctlO, this.ctlI⟩
          · exact ⟨h.top, h.bot, h.tr, h.ctlO, h.ctlI⟩

theorem respond_binv (c : Cfg) (s : St) (h : BInv c s) : BInv c (respond c s).1 := by
  unfold respond
  split
  · exact h
  · split
    · exact ⟨h.top, h.bot, h.tr, h.ctlO, h.ctlI⟩
    · split
      · rename_i hlt
        refine ⟨?_, h.bot, h.tr, h.ctlO, h.ctlI⟩
        show (s.topOut ++ [_]).length ≤ c.width
        simp; omega
      · exact h

theorem handleCtrl_binv (c : Cfg) (s : St) (h : BInv c s) : BInv c (handleCtrl s).1 := by
  unfold handleCtrl
  split
  · exact h
  · rename_i rest hc
    split
    · rename_i hlt
      have := h.ctlI
      refine ⟨h.top, h.bot, h.tr, ?_, ?_⟩
      · show s.ctlOut + 1 ≤ 1; omega
      · show rest.length ≤ 1
        rw [hc] at this; simp only [List.length_cons] at this; omega
    · exact h
  · rename_i rest hc
    split
    · rename_i hlt
      have := h.ctlI
      refine ⟨h.top, h.bot, h.tr, ?_, ?_⟩
      · show s.ctlOut + 1 ≤ 1; omega
      · show rest.length ≤ 1
        rw [hc] at this; simp only [List.length_cons] at this; omega
    · exact h
  · exact ⟨h.top, h.bot, h.tr, h.ctlO, h.ctlI⟩

theorem step_binv (c : Cfg) (s : St) (o : Op) (h : BInv c s) : BInv c (step c s o) := by
  cases o with
  | tick => exact tick_pres c (respond_binv c) (parseTranslation_binv c) (translate_binv c) (handleCtrl_binv c) s h
  | access pid va pl => simp only [step]; split <;> exact ⟨h.top, h.bot, h.tr, h.ctlO, h.ctlI⟩
  | trsp r => simp only [step]; split <;> exact ⟨h.top, h.bot, h.tr, h.ctlO, h.ctlI⟩
  | brsp r => simp only [step]; split <;> exact ⟨h.top, h.bot, h.tr, h.ctlO, h.ctlI⟩
  | drainTop =>
    refine ⟨?_, h.bot, h.tr, h.ctlO, h.ctlI⟩
    show s.topOut.tail.length ≤ c.width
    have := h.top; simp; omega
  | drainBot =>
    refine ⟨h.top, ?_, h.tr, h.ctlO, h.ctlI⟩
    show s.botOut.tail.length ≤ c.width
    have := h.bot; simp; omega
  | drainTr =>
    refine ⟨h.top, h.bot, ?_, h.ctlO, h.ctlI⟩
    show s.trOut.tail.length ≤ c.width
    have := h.tr; simp; omega
  | drainCtl =>
    refine ⟨h.top, h.bot, h.tr, ?_, h.ctlI⟩
    show s.ctlOut - 1 ≤ 1
    have := h.ctlO; omega
  | ctl k =>
    simp only [step]
    split
    · rename_i hlt
      refine ⟨h.top, h.bot, h.tr, h.ctlO, ?_⟩
      show (s.ctlIn ++ [k]).length ≤ 1
      simp only [List.length_append, List.length_singleton]; omega
    · exact h

theorem binv_init (c : Cfg) : BInv c {} := ⟨by simp, by simp, by simp, by simp, by simp⟩

theorem run_binv (c : Cfg) (ops : List Op) : BInv c (run c ops) :=
  run_pres c (step_binv c) ops {} (binv_init c)

end C16
