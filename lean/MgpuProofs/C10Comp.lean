import MgpuModel.C10
import MgpuProofs.C10Lemmas
/-!
C10 (composition): the allocator layer over an abstract device memory state keeps the page table injective and
inside the pages the devices handed out and did not get back — for every device implementation that meets `Spec`.
-/
set_option linter.unusedSimpArgs false
namespace C10.Comp
open C10

variable {σ : Type}

/-- what the allocator layer needs from a device implementation. `Good d m l`: the invariant of the memory state `m`
of device `d`, with the ghost list `l` of the pages it handed out and did not get back. -/
structure Spec (I : Iface σ) (devs : List Dev) where
  Good : Nat → σ → List Nat → Prop
  /-- the page lies inside a block the device holds as allocated -/
  Held : σ → Nat → Prop
  /-- the page lies inside a free block of the device -/
  InFree : σ → Nat → Prop
  alloc : ∀ {d m l p m'}, Good d m l → I.allocPage m = .ok (p, m') →
    Good d m' (l ++ [p]) ∧ p ∉ l ∧ devOf devs p = some d
  multi : ∀ {d m l n ps m'}, Good d m l → I.allocMulti m n = .ok (ps, m') →
    Good d m' (l ++ ps) ∧ ps.Nodup ∧ ∀ p ∈ ps, p ∉ l ∧ devOf devs p = some d
  multi_len : ∀ {d m l n ps m'}, Good d m l → I.allocMulti m n = .ok (ps, m') → ps.length = n
  add : ∀ {d m l p m'}, Good d m l → p ∈ l → I.addSingle m p = .ok m' →
    Good d m' (l.filter fun q => !([p].contains q))
  held : ∀ {d m l p}, Good d m l → p ∈ l → Held m p ∧ ¬ InFree m p

def upd (L : Nat → List Nat) (d : Nat) (l : List Nat) : Nat → List Nat := fun i => if i = d then l else L i

structure GInv {I : Iface σ} {devs : List Dev} (S : Spec I devs) (s : GState σ) (L : Nat → List Nat) : Prop where
  hd : s.devs = devs
  len : s.mem.length = devs.length
  good : ∀ d m, s.mem[d]? = some m → S.Good d m (L d)
  nodup : (s.pt.map (·.paddr)).Nodup
  live : ∀ e ∈ s.pt, ∃ d, devOf devs e.paddr = some d ∧ e.paddr ∈ L d
  pid : ∀ e ∈ s.pt, e.pid = s.pid
  mir : ∀ e ∈ s.pt, ∃ pg, lookup s.mirror e.vaddr = some pg ∧ pg.paddr = e.paddr ∧ pg.pid = e.pid
  mwf : ∀ x ∈ s.mirror, x.2.vaddr = x.1

/-- the ghost lists are tight: a page belongs to the list of the device that owns its range only, and every outstanding
page is mapped — except the pages `P` that `allocateMultiplePages` just handed to a running Remap loop -/
structure Tight (devs : List Dev) (s : GState σ) (L : Nat → List Nat) (P : List Nat) : Prop where
  own : ∀ d, ∀ p ∈ L d, devOf devs p = some d
  tight : ∀ d, ∀ p ∈ L d, (∃ e ∈ s.pt, e.paddr = p) ∨ p ∈ P

/-! ## small facts -/

theorem mem_upd_inv {L : Nat → List Nat} {d i x : Nat} {l : List Nat} (h : x ∈ upd L d l i) :
    (i = d ∧ x ∈ l) ∨ (i ≠ d ∧ x ∈ L i) := by
  unfold upd at h
  split at h
  · rename_i e
    exact Or.inl ⟨e, h⟩
  · rename_i e
    exact Or.inr ⟨e, h⟩


theorem ptFind_some {pt : List Page} {pid v : Nat} {e : Page} (h : ptFind pt pid v = some e) :
    e ∈ pt ∧ e.pid = pid ∧ e.vaddr = v := by
  unfold ptFind at h
  have h1 := List.mem_of_find?_eq_some h
  have h2 := List.find?_some h
  simp at h2
  exact ⟨h1, h2.1, h2.2⟩

theorem ptFind_none {pt : List Page} {pid v : Nat} (h : ptFind pt pid v = none) :
    ∀ e ∈ pt, ¬ (e.pid = pid ∧ e.vaddr = v) := by
  unfold ptFind at h
  rw [List.find?_eq_none] at h
  intro e he hc
  have := h e he
  simp [hc.1, hc.2] at this

theorem lookup_cons {α : Type} (k k' : Nat) (a : α) (l : List (Nat × α)) :
    lookup ((k, a) :: l) k' = if k = k' then some a else lookup l k' := by
  by_cases h : k = k'
  · simp [lookup, h]
  · simp [lookup, h]

theorem lookup_mem {α : Type} {l : List (Nat × α)} {k : Nat} {a : α} (h : lookup l k = some a) : (k, a) ∈ l := by
  unfold lookup at h
  split at h
  · rename_i e he
    injection h with h
    subst h
    have h1 := List.mem_of_find?_eq_some he
    have h2 := List.find?_some he
    simp at h2
    subst h2
    exact h1
  · cases h

theorem inj_of_nodup_map {α β : Type} {f : α → β} : ∀ {l : List α}, (l.map f).Nodup →
    ∀ {x y : α}, x ∈ l → y ∈ l → f x = f y → x = y := by
  intro l
  induction l with
  | nil => intro _ x y hx; cases hx
  | cons a l ih =>
    intro hn x y hx hy e
    rw [List.map_cons, List.nodup_cons] at hn
    rcases List.mem_cons.mp hx with hx1 | hx1
    · rcases List.mem_cons.mp hy with hy1 | hy1
      · rw [hx1, hy1]
      · subst hx1
        exact absurd (e ▸ List.mem_map_of_mem hy1) hn.1
    · rcases List.mem_cons.mp hy with hy1 | hy1
      · subst hy1
        exact absurd (e ▸ List.mem_map_of_mem hx1) hn.1
      · exact ih hn.2 hx1 hy1 e

theorem nodup_map_on {α β : Type} {f : α → β} : ∀ {l : List α}, (∀ x ∈ l, ∀ y ∈ l, f x = f y → x = y) →
    l.Nodup → (l.map f).Nodup := by
  intro l
  induction l with
  | nil => intro _ _; simp
  | cons a l ih =>
    intro hinj hn
    rw [List.nodup_cons] at hn
    rw [List.map_cons, List.nodup_cons]
    refine ⟨?_, ih (fun x hx y hy => hinj x (List.mem_cons_of_mem _ hx) y (List.mem_cons_of_mem _ hy)) hn.2⟩
    intro c
    obtain ⟨y, hy, e⟩ := List.mem_map.mp c
    have := hinj y (List.mem_cons_of_mem _ hy) a (List.mem_cons_self ..) e
    subst this
    exact hn.1 hy

theorem nodup_of_map {α β : Type} {f : α → β} : ∀ {l : List α}, (l.map f).Nodup → l.Nodup := by
  intro l
  induction l with
  | nil => intro _; simp
  | cons a l ih =>
    intro hn
    rw [List.map_cons, List.nodup_cons] at hn
    rw [List.nodup_cons]
    exact ⟨fun c => hn.1 (List.mem_map_of_mem c), ih hn.2⟩

theorem mem_upd_keep {L : Nat → List Nat} {d i x a : Nat} (hx : x ∈ L i) (hne : x ≠ a) :
    x ∈ upd L d ((L d).filter fun q => !([a].contains q)) i := by
  unfold upd
  split
  · rename_i e
    subst e
    exact List.mem_filter.mpr ⟨hx, by simp [hne]⟩
  · exact hx

theorem mem_upd_grow {L : Nat → List Nat} {d i x : Nat} {ps : List Nat} (hx : x ∈ L i) :
    x ∈ upd L d (L d ++ ps) i := by
  unfold upd
  split
  · rename_i e
    subst e
    exact List.mem_append_left _ hx
  · exact hx

theorem getElem?_set_cases {α : Type} {l : List α} {d i : Nat} {a b : α} (h : (l.set d a)[i]? = some b) :
    (i = d ∧ b = a) ∨ (i ≠ d ∧ l[i]? = some b) := by
  rw [List.getElem?_set] at h
  split at h
  · rename_i e
    split at h
    · injection h with h
      exact Or.inl ⟨e.symm, h.symm⟩
    · cases h
  · rename_i e
    exact Or.inr ⟨fun c => e c.symm, h⟩

section
variable {I : Iface σ} {devs : List Dev} {S : Spec I devs}

/-- frames determine entries -/
theorem GInv.inj {s : GState σ} {L} (h : GInv S s L) {x y : Page} (hx : x ∈ s.pt) (hy : y ∈ s.pt)
    (e : x.paddr = y.paddr) : x = y :=
  inj_of_nodup_map h.nodup hx hy e

/-- virtual addresses determine entries (one process, the allocator's record agrees with the page table) -/
theorem GInv.vuniq {s : GState σ} {L} (h : GInv S s L) {x y : Page} (hx : x ∈ s.pt) (hy : y ∈ s.pt)
    (e : x.vaddr = y.vaddr) : x = y := by
  obtain ⟨a, ha, ha2, -⟩ := h.mir x hx
  obtain ⟨b, hb, hb2, -⟩ := h.mir y hy
  rw [e, hb] at ha
  injection ha with ha
  subst ha
  exact h.inj hx hy (ha2.symm.trans hb2 ▸ rfl)

/-- the new state after a device `d` went from `m` to `m'` and its ghost list to `l'` -/
theorem good_set {s : GState σ} {L} (h : GInv S s L) {d : Nat} {m' : σ} {l' : List Nat}
    (g : S.Good d m' l') : ∀ i mi, (s.mem.set d m')[i]? = some mi → S.Good i mi (upd L d l' i) := by
  intro i mi hi
  rcases getElem?_set_cases hi with ⟨e1, e2⟩ | ⟨e1, e2⟩
  · subst e1; subst e2
    simpa [upd] using g
  · have := h.good i mi e2
    simpa [upd, e1] using this

/-! ## allocatePages -/

theorem ginv_insert {s : GState σ} {L} (h : GInv S s L) {d p dev v : Nat} {m m' : σ} {pt' : List Page}
    (hm : s.mem[d]? = some m) (ha : I.allocPage m = .ok (p, m'))
    (hins : ptInsert s.pt { pid := s.pid, vaddr := v, paddr := p, dev := dev, unified := false, migrating := false }
      = .ok pt') :
    GInv S { s with mem := s.mem.set d m', pt := pt',
                    mirror := (v, { pid := s.pid, vaddr := v, paddr := p, dev := dev, unified := false,
                                    migrating := false }) :: s.mirror } (upd L d (L d ++ [p])) := by
  obtain ⟨g1, hnl, hdv⟩ := S.alloc (h.good d m hm) ha
  unfold ptInsert at hins
  split at hins
  · cases hins
  · rename_i hnone
    injection hins with hins
    subst hins
    have hno := ptFind_none hnone
    have hfresh : ∀ e ∈ s.pt, e.paddr ≠ p := by
      intro e he c
      obtain ⟨d', h1, h2⟩ := h.live e he
      rw [c, hdv] at h1
      injection h1 with h1
      subst h1
      exact hnl (c ▸ h2)
    refine { hd := h.hd, len := by simpa using h.len, good := good_set h g1, nodup := ?_, live := ?_, pid := ?_,
             mir := ?_, mwf := ?_ }
    · show ((s.pt ++ [_]).map Page.paddr).Nodup
      rw [List.map_append, List.nodup_append]
      refine ⟨h.nodup, by simp, ?_⟩
      intro a ha b hb
      obtain ⟨e, he, rfl⟩ := List.mem_map.mp ha
      simp at hb
      subst hb
      exact hfresh e he
    · intro e he
      rcases List.mem_append.mp he with he | he
      · obtain ⟨d', h1, h2⟩ := h.live e he
        exact ⟨d', h1, mem_upd_grow h2⟩
      · simp at he
        subst he
        exact ⟨d, hdv, by simp [upd]⟩
    · intro e he
      rcases List.mem_append.mp he with he | he
      · exact h.pid e he
      · simp at he
        subst he
        rfl
    · intro e he
      rcases List.mem_append.mp he with he | he
      · have hv : v ≠ e.vaddr := fun c => hno e he ⟨h.pid e he, c.symm⟩
        show ∃ pg, lookup ((v, _) :: s.mirror) e.vaddr = some pg ∧ _
        rw [lookup_cons, if_neg hv]
        exact h.mir e he
      · simp at he
        subst he
        show ∃ pg, lookup ((v, _) :: s.mirror) v = some pg ∧ _
        rw [lookup_cons, if_pos rfl]
        exact ⟨_, rfl, rfl, rfl⟩
    · intro x hx
      rcases List.mem_cons.mp hx with hx | hx
      · subst hx; rfl
      · exact h.mwf x hx

theorem tight_insert {s : GState σ} {L} (h : GInv S s L) (t : Tight devs s L []) {d p dev v : Nat} {m m' : σ}
    {pt' : List Page} (hm : s.mem[d]? = some m) (ha : I.allocPage m = .ok (p, m'))
    (hins : ptInsert s.pt { pid := s.pid, vaddr := v, paddr := p, dev := dev, unified := false, migrating := false }
      = .ok pt') :
    Tight devs { s with mem := s.mem.set d m', pt := pt',
                        mirror := (v, { pid := s.pid, vaddr := v, paddr := p, dev := dev, unified := false,
                                        migrating := false }) :: s.mirror } (upd L d (L d ++ [p])) [] := by
  obtain ⟨-, -, hdv⟩ := S.alloc (h.good d m hm) ha
  unfold ptInsert at hins
  split at hins
  · cases hins
  · injection hins with hins
    subst hins
    constructor
    · intro i x hx
      rcases mem_upd_inv hx with ⟨e1, hx⟩ | ⟨_, hx⟩
      · subst e1
        rcases List.mem_append.mp hx with hx | hx
        · exact t.own _ x hx
        · simp at hx
          subst hx
          exact hdv
      · exact t.own i x hx
    · intro i x hx
      left
      have old : x ∈ L i → ∃ e ∈ s.pt ++ [Page.mk s.pid v p dev false false], e.paddr = x := by
        intro hx
        rcases t.tight i x hx with ⟨e, he, hp⟩ | hc
        · exact ⟨e, List.mem_append_left _ he, hp⟩
        · cases hc
      rcases mem_upd_inv hx with ⟨e1, hx⟩ | ⟨_, hx⟩
      · subst e1
        rcases List.mem_append.mp hx with hx | hx
        · exact old hx
        · simp at hx
          subst hx
          exact ⟨_, List.mem_append_right _ (List.mem_singleton.mpr rfl), rfl⟩
      · exact old hx

theorem ginv_allocLoop (d : Nat) : ∀ (k v : Nat) (s s' : GState σ) (L : Nat → List Nat), GInv S s L →
    Tight devs s L [] → allocLoop I d k v s = .ok s' → ∃ L', GInv S s' L' ∧ Tight devs s' L' [] := by
  intro k
  induction k with
  | zero =>
    intro v s s' L h t hs
    simp only [allocLoop] at hs
    injection hs with hs
    subst hs
    exact ⟨L, h, t⟩
  | succ k ih =>
    intro v s s' L h t hs
    simp only [allocLoop] at hs
    split at hs
    · cases hs
    · rename_i m hm
      split at hs
      · cases hs
      · rename_i p m' ha
        split at hs
        · cases hs
        · rename_i dev hdev
          split at hs
          · cases hs
          · rename_i pt' hins
            exact ih _ _ _ _ (ginv_insert h hm ha hins) (tight_insert h t hm ha hins) hs

theorem ginv_allocate {s s' : GState σ} {L} (h : GInv S s L) (t : Tight devs s L []) {bytes d v : Nat}
    (hs : allocate I s bytes d = .ok (v, s')) : ∃ L', GInv S s' L' ∧ Tight devs s' L' [] := by
  unfold allocate at hs
  split at hs
  · cases hs
  · simp only at hs
    split at hs
    · cases hs
    · rename_i s1 h1
      obtain ⟨L', g, t'⟩ := ginv_allocLoop d _ _ _ _ L h t h1
      injection hs with hs
      injection hs with _ hs
      subst hs
      exact ⟨L', { hd := g.hd, len := g.len, good := g.good, nodup := g.nodup, live := g.live, pid := g.pid,
                   mir := g.mir, mwf := g.mwf }, ⟨t'.own, t'.tight⟩⟩

/-! ## removePage / Free -/

theorem ginv_removePage {s s' : GState σ} {L} (h : GInv S s L) (t : Tight devs s L []) {v : Nat}
    (hs : removePage I s v = .ok s') : ∃ L', GInv S s' L' ∧ Tight devs s' L' [] := by
  unfold removePage at hs
  split at hs
  · cases hs
  · rename_i pg hpg
    split at hs
    · cases hs
    · rename_i d hd
      split at hs
      · cases hs
      · rename_i m hm
        split at hs
        · cases hs
        · rename_i m' hadd
          split at hs
          · cases hs
          · rename_i pt' hrm
            injection hs with hs
            subst hs
            unfold ptRemove at hrm
            split at hrm
            · cases hrm
            · rename_i e0 hf
              injection hrm with hrm
              subst hrm
              obtain ⟨he0, hp0, hv0⟩ := ptFind_some hf
              have hvv : pg.vaddr = v := h.mwf _ (lookup_mem hpg)
              obtain ⟨pg', hl', hpa, -⟩ := h.mir e0 he0
              rw [hv0, hvv, hpg] at hl'
              injection hl' with hl'
              subst hl'
              rw [h.hd] at hd
              obtain ⟨d', hd', hin⟩ := h.live e0 he0
              rw [← hpa, hd] at hd'
              injection hd' with hd'
              subst hd'
              rw [← hpa] at hin
              have g1 := S.add (h.good d m hm) hin hadd
              refine ⟨upd L d ((L d).filter fun q => !([pg.paddr].contains q)),
                { hd := h.hd, len := by simpa using h.len, good := good_set h g1, nodup := ?_, live := ?_,
                  pid := ?_, mir := ?_, mwf := h.mwf }, ?_⟩
              · exact (List.filter_sublist.map _).nodup h.nodup
              · intro e he
                obtain ⟨he1, he2⟩ := List.mem_filter.mp he
                obtain ⟨d', h1, h2⟩ := h.live e he1
                refine ⟨d', h1, mem_upd_keep h2 ?_⟩
                intro c
                have : e = e0 := h.inj he1 he0 (c.trans hpa)
                subst this
                simp [hp0, hv0] at he2
              · intro e he
                exact h.pid e (List.mem_filter.mp he).1
              · intro e he
                exact h.mir e (List.mem_filter.mp he).1
              · constructor
                · intro i x hx
                  rcases mem_upd_inv hx with ⟨e1, hx⟩ | ⟨_, hx⟩
                  · subst e1
                    exact t.own _ x (List.mem_filter.mp hx).1
                  · exact t.own i x hx
                · intro i x hx
                  left
                  have hx' : x ∈ L i ∧ x ≠ pg.paddr := by
                    rcases mem_upd_inv hx with ⟨e1, hx⟩ | ⟨e1, hx⟩
                    · subst e1
                      obtain ⟨a, b⟩ := List.mem_filter.mp hx
                      exact ⟨a, by simpa using b⟩
                    · refine ⟨hx, fun c => e1 ?_⟩
                      have := t.own i x hx
                      rw [c, hd] at this
                      injection this with this
                      exact this.symm
                  rcases t.tight i x hx'.1 with ⟨e, he, hp⟩ | hc
                  · have hne : e ≠ e0 := fun c => hx'.2 (by rw [← hp, c, hpa])
                    have hk : ¬ (e.pid = pg.pid ∧ e.vaddr = pg.vaddr) :=
                      fun c => hne (h.vuniq he he0 (c.2.trans hv0.symm))
                    exact ⟨e, List.mem_filter.mpr ⟨he, by have := Classical.not_and_iff_not_or_not.mp hk; simpa using this⟩, hp⟩
                  · cases hc

theorem ginv_removePages : ∀ (vs : List Nat) (s s' : GState σ) (L : Nat → List Nat), GInv S s L →
    Tight devs s L [] → removePages I vs s = .ok s' → ∃ L', GInv S s' L' ∧ Tight devs s' L' [] := by
  intro vs
  induction vs with
  | nil =>
    intro s s' L h t hs
    simp only [removePages] at hs
    injection hs with hs
    subst hs
    exact ⟨L, h, t⟩
  | cons v vs ih =>
    intro s s' L h t hs
    simp only [removePages] at hs
    split at hs
    · cases hs
    · rename_i s1 h1
      obtain ⟨L1, g1, t1⟩ := ginv_removePage h t h1
      exact ih _ _ _ g1 t1 hs

theorem ginv_free {s s' : GState σ} {L} (h : GInv S s L) (t : Tight devs s L []) {ptr : Nat}
    (hs : free I s ptr = .ok s') : ∃ L', GInv S s' L' ∧ Tight devs s' L' [] := by
  unfold free at hs
  exact ginv_removePages _ { s with npages := (ptr, 0) :: s.npages } _ L
    { hd := h.hd, len := h.len, good := h.good, nodup := h.nodup, live := h.live, pid := h.pid, mir := h.mir,
      mwf := h.mwf } ⟨t.own, t.tight⟩ hs

/-! ## Remap / Distribute -/

/-- the frames `allocateMultiplePages` handed out and the loop has not yet put into the page table -/
def Pend (devs : List Dev) (s : GState σ) (L : Nat → List Nat) (d0 : Nat) (ps : List Nat) : Prop :=
  ps.Nodup ∧ ∀ p ∈ ps, devOf devs p = some d0 ∧ p ∈ L d0 ∧ ∀ e ∈ s.pt, e.paddr ≠ p

theorem ginv_remapIter {s s1 : GState σ} {L} (h : GInv S s L) {d0 p dev v : Nat} {ps : List Nat}
    {pt' : List Page} (hp : Pend devs s L d0 (p :: ps)) (t : Tight devs s L (p :: ps))
    (hu : ptUpdate s.pt { pid := s.pid, vaddr := v, paddr := p, dev := dev, unified := false, migrating := false }
      = .ok pt')
    (hr : releaseReplaced I
      { s with pt := pt', mirror := (v, { pid := s.pid, vaddr := v, paddr := p, dev := dev, unified := false,
                                           migrating := false }) :: s.mirror } (lookup s.mirror v) = .ok s1) :
    ∃ L1, GInv S s1 L1 ∧ Pend devs s1 L1 d0 ps ∧ Tight devs s1 L1 ps := by
  obtain ⟨hnd, hpend⟩ := hp
  obtain ⟨hpd, hpl, hpf⟩ := hpend p (List.mem_cons_self ..)
  rw [List.nodup_cons] at hnd
  unfold ptUpdate at hu
  split at hu
  · cases hu
  · rename_i e0 hf
    injection hu with hu
    subst hu
    obtain ⟨he0, hp0, hv0⟩ := ptFind_some hf
    simp only at hp0 hv0
    obtain ⟨old, hold, hpa, hpi⟩ := h.mir e0 he0
    rw [hv0] at hold
    rw [hold] at hr
    simp only [releaseReplaced] at hr
    rw [if_pos (hpi.trans hp0)] at hr
    obtain ⟨d1, hd1, hin1⟩ := h.live e0 he0
    rw [h.hd, hpa, hd1] at hr
    simp only at hr
    split at hr
    · cases hr
    · rename_i m hm
      split at hr
      · cases hr
      · rename_i m' hadd
        injection hr with hr
        subst hr
        have g1 := S.add (h.good d1 m hm) hin1 hadd
        -- which entries the update replaces
        have hmatch : ∀ q ∈ s.pt, (q.pid == s.pid && q.vaddr == v) = true → q = e0 := by
          intro q hq c
          simp at c
          exact h.vuniq hq he0 (c.2.trans hv0.symm)
        have hnomatch : ∀ q ∈ s.pt, (q.pid == s.pid && q.vaddr == v) = false → q.vaddr ≠ v := by
          intro q hq c cv
          simp [h.pid q hq, cv] at c
        refine ⟨upd L d1 ((L d1).filter fun q => !([e0.paddr].contains q)),
          { hd := rfl, len := by simpa using h.len, good := good_set h g1, nodup := ?_, live := ?_,
            pid := ?_, mir := ?_, mwf := ?_ }, ⟨hnd.2, ?_⟩, ?_⟩
        · show ((s.pt.map _).map Page.paddr).Nodup
          rw [List.map_map]
          refine nodup_map_on ?_ (nodup_of_map h.nodup)
          intro x hx y hy e
          simp only [Function.comp] at e
          cases cx : (x.pid == s.pid && x.vaddr == v) <;> cases cy : (y.pid == s.pid && y.vaddr == v)
          · simp only [cx, cy, Bool.false_eq_true, ↓reduceIte] at e
            exact h.inj hx hy (by simpa using e)
          · simp only [cx, cy, Bool.false_eq_true, ↓reduceIte] at e
            exact absurd (by simpa using e) (hpf x hx)
          · simp only [cx, cy, Bool.false_eq_true, ↓reduceIte] at e
            exact absurd (by simpa using e.symm) (hpf y hy)
          · rw [hmatch x hx cx, hmatch y hy cy]
        · intro e he
          obtain ⟨q, hq, rfl⟩ := List.mem_map.mp he
          cases cq : (q.pid == s.pid && q.vaddr == v)
          · simp only [cq, Bool.false_eq_true, ↓reduceIte]
            obtain ⟨d', h1, h2⟩ := h.live q hq
            refine ⟨d', by simpa using h1, mem_upd_keep (by simpa using h2) ?_⟩
            intro c
            have : q = e0 := h.inj hq he0 (by simpa using c)
            subst this
            simp [hp0, hv0] at cq
          · simp only [cq, Bool.false_eq_true, ↓reduceIte]
            exact ⟨d0, hpd, mem_upd_keep hpl (fun c => hpf e0 he0 c.symm)⟩
        · intro e he
          obtain ⟨q, hq, rfl⟩ := List.mem_map.mp he
          cases cq : (q.pid == s.pid && q.vaddr == v)
          · simp only [cq, Bool.false_eq_true, ↓reduceIte]
            exact h.pid q hq
          · simp only [cq, Bool.false_eq_true, ↓reduceIte]
        · intro e he
          obtain ⟨q, hq, rfl⟩ := List.mem_map.mp he
          cases cq : (q.pid == s.pid && q.vaddr == v)
          · simp only [cq, Bool.false_eq_true, ↓reduceIte]
            show ∃ pg, lookup ((v, _) :: s.mirror) q.vaddr = some pg ∧ _
            rw [lookup_cons, if_neg (fun c => hnomatch q hq cq c.symm)]
            simpa using h.mir q hq
          · simp only [cq, Bool.false_eq_true, ↓reduceIte]
            show ∃ pg, lookup ((v, _) :: s.mirror) v = some pg ∧ _
            rw [lookup_cons, if_pos rfl]
            exact ⟨_, rfl, rfl, rfl⟩
        · intro x hx
          rcases List.mem_cons.mp hx with hx | hx
          · subst hx; rfl
          · exact h.mwf x hx
        · intro p' hp'
          obtain ⟨a1, a2, a3⟩ := hpend p' (List.mem_cons_of_mem _ hp')
          refine ⟨a1, mem_upd_keep a2 (fun c => a3 e0 he0 c.symm), ?_⟩
          intro e he
          obtain ⟨q, hq, rfl⟩ := List.mem_map.mp he
          cases cq : (q.pid == s.pid && q.vaddr == v)
          · simp only [cq, Bool.false_eq_true, ↓reduceIte]
            simpa using a3 q hq
          · simp only [cq, Bool.false_eq_true, ↓reduceIte]
            intro c
            exact hnd.1 (c ▸ hp')
        · constructor
          · intro i x hx
            rcases mem_upd_inv hx with ⟨e1, hx⟩ | ⟨_, hx⟩
            · subst e1
              exact t.own _ x (List.mem_filter.mp hx).1
            · exact t.own i x hx
          · intro i x hx
            have hx' : x ∈ L i ∧ x ≠ e0.paddr := by
              rcases mem_upd_inv hx with ⟨e1, hx⟩ | ⟨e1, hx⟩
              · subst e1
                obtain ⟨a, b⟩ := List.mem_filter.mp hx
                exact ⟨a, by simpa using b⟩
              · refine ⟨hx, fun c => e1 ?_⟩
                have := t.own i x hx
                rw [c, hd1] at this
                injection this with this
                exact this.symm
            rcases t.tight i x hx'.1 with ⟨e, he, hp⟩ | hc
            · left
              have hne : e ≠ e0 := fun c => hx'.2 (by rw [← hp, c])
              have cq : (e.pid == s.pid && e.vaddr == v) = false := by
                cases c : (e.pid == s.pid && e.vaddr == v)
                · rfl
                · exact absurd (hmatch e he c) hne
              refine ⟨_, List.mem_map_of_mem he, ?_⟩
              simp only [cq, Bool.false_eq_true, ↓reduceIte]
              exact hp
            · rcases List.mem_cons.mp hc with hc | hc
              · left
                subst hc
                refine ⟨_, List.mem_map_of_mem he0, ?_⟩
                have c0 : (e0.pid == s.pid && e0.vaddr == v) = true := by simp [hp0, hv0]
                simp only [c0, ↓reduceIte]
              · right
                exact hc

theorem ginv_remapLoop : ∀ (vs ps : List Nat) (s s' : GState σ) (L : Nat → List Nat) (d0 : Nat), GInv S s L →
    Pend devs s L d0 ps → Tight devs s L ps → vs.length = ps.length → remapLoop I vs ps s = .ok s' →
    ∃ L', GInv S s' L' ∧ Tight devs s' L' [] := by
  intro vs
  induction vs with
  | nil =>
    intro ps s s' L d0 h _ t hlen hs
    simp only [remapLoop] at hs
    injection hs with hs
    subst hs
    have : ps = [] := List.eq_nil_of_length_eq_zero hlen.symm
    subst this
    exact ⟨L, h, t⟩
  | cons v vs ih =>
    intro ps s s' L d0 h hp t hlen hs
    cases ps with
    | nil => simp at hlen
    | cons p ps =>
      simp only [remapLoop] at hs
      split at hs
      · cases hs
      · rename_i dev hdev
        split at hs
        · cases hs
        · rename_i pt' hu
          split at hs
          · cases hs
          · rename_i s1 hr
            obtain ⟨L1, g1, p1, t1⟩ := ginv_remapIter h hp t hu hr
            exact ih _ _ _ _ _ g1 p1 t1 (by simpa using hlen) hs

theorem ginv_remap {s s' : GState σ} {L} (h : GInv S s L) (t : Tight devs s L []) {addr bytes d : Nat}
    (hs : remap I s addr bytes d = .ok s') : ∃ L', GInv S s' L' ∧ Tight devs s' L' [] := by
  unfold remap at hs
  simp only at hs
  split at hs
  · cases hs
  · rename_i m hm
    split at hs
    · cases hs
    · rename_i ps m' ha
      obtain ⟨g1, hnd, hall⟩ := S.multi (h.good d m hm) ha
      refine ginv_remapLoop _ ps { s with mem := s.mem.set d m' } _ (upd L d (L d ++ ps)) d
        { hd := h.hd, len := by simpa using h.len, good := good_set h g1, nodup := h.nodup, live := ?_,
          pid := h.pid, mir := h.mir, mwf := h.mwf } ⟨hnd, ?_⟩ ⟨?_, ?_⟩ (S.multi_len (h.good d m hm) ha).symm hs
      · intro e he
        obtain ⟨d', h1, h2⟩ := h.live e he
        exact ⟨d', h1, mem_upd_grow h2⟩
      · intro p hp
        obtain ⟨b1, b2⟩ := hall p hp
        refine ⟨b2, by simp [upd, hp], ?_⟩
        intro e he c
        obtain ⟨d', h1, h2⟩ := h.live e he
        rw [c, b2] at h1
        injection h1 with h1
        subst h1
        exact b1 (c ▸ h2)
      · intro i x hx
        rcases mem_upd_inv hx with ⟨e1, hx⟩ | ⟨_, hx⟩
        · subst e1
          rcases List.mem_append.mp hx with hx | hx
          · exact t.own _ x hx
          · exact (hall x hx).2
        · exact t.own i x hx
      · intro i x hx
        rcases mem_upd_inv hx with ⟨e1, hx⟩ | ⟨_, hx⟩
        · subst e1
          rcases List.mem_append.mp hx with hx | hx
          · rcases t.tight _ x hx with c | c
            · exact Or.inl c
            · cases c
          · exact Or.inr hx
        · rcases t.tight i x hx with c | c
          · exact Or.inl c
          · cases c

theorem ginv_remapAll (ids : List Nat) : ∀ (plan : List (Nat × Nat × Nat)) (s s' : GState σ) (L : Nat → List Nat),
    GInv S s L → Tight devs s L [] → remapAll I ids plan s = .ok s' → ∃ L', GInv S s' L' ∧ Tight devs s' L' [] := by
  intro plan
  induction plan with
  | nil =>
    intro s s' L h t hs
    simp only [remapAll] at hs
    injection hs with hs
    subst hs
    exact ⟨L, h, t⟩
  | cons r rest ih =>
    intro s s' L h t hs
    obtain ⟨a, b, i⟩ := r
    simp only [remapAll] at hs
    split at hs
    · cases hs
    · rename_i s1 h1
      obtain ⟨L1, g1, t1⟩ := ginv_remap h t h1
      exact ih _ _ _ g1 t1 hs

theorem ginv_step {s s' : GState σ} {L} (h : GInv S s L) (t : Tight devs s L []) {op : DOp}
    (hs : step I s op = .ok s') : ∃ L', GInv S s' L' ∧ Tight devs s' L' [] := by
  cases op with
  | sel g =>
    simp only [step] at hs
    split at hs
    · cases hs
    · injection hs with hs
      subst hs
      exact ⟨L, { hd := h.hd, len := h.len, good := h.good, nodup := h.nodup, live := h.live, pid := h.pid,
                  mir := h.mir, mwf := h.mwf }, ⟨t.own, t.tight⟩⟩
  | alloc bytes =>
    simp only [step] at hs
    split at hs
    · cases hs
    · rename_i v s1 h1
      injection hs with hs
      subst hs
      exact ginv_allocate h t h1
  | free ptr => exact ginv_free h t hs
  | remap a b d => exact ginv_remap h t hs
  | dist a b ids =>
    simp only [step, distribute] at hs
    split at hs
    · injection hs with hs
      subst hs
      exact ⟨L, h, t⟩
    · split at hs
      · cases hs
      · split at hs
        · cases hs
        · exact ginv_remapAll ids _ _ _ L h t hs
  | rmpage v => exact ginv_removePage h t hs

theorem ginv_run : ∀ (ops : List DOp) (s s' : GState σ) (L : Nat → List Nat), GInv S s L → Tight devs s L [] →
    run I s ops = .ok s' → ∃ L', GInv S s' L' ∧ Tight devs s' L' [] := by
  intro ops
  induction ops with
  | nil =>
    intro s s' L h t hs
    simp only [run] at hs
    injection hs with hs
    subst hs
    exact ⟨L, h, t⟩
  | cons op ops ih =>
    intro s s' L h t hs
    simp only [run] at hs
    split at hs
    · cases hs
    · rename_i s1 h1
      obtain ⟨L1, g1, t1⟩ := ginv_step h t h1
      exact ih _ _ _ g1 t1 hs

/-- what the invariant says without its ghost lists: the page table is injective; every mapped frame belongs to the
range of a device whose memory state holds it inside an allocated block and outside every free block -/
theorem GInv.safe {s : GState σ} {L} (h : GInv S s L) :
    (s.pt.map (·.paddr)).Nodup ∧
    ∀ e ∈ s.pt, ∃ d m, devOf s.devs e.paddr = some d ∧ s.mem[d]? = some m ∧ S.Held m e.paddr ∧
      ¬ S.InFree m e.paddr := by
  refine ⟨h.nodup, ?_⟩
  intro e he
  obtain ⟨d, h1, h2⟩ := h.live e he
  obtain ⟨dv, hdv, -⟩ := devOf_spec h1
  have hlt : d < s.mem.length := by
    rw [h.len]
    exact (List.getElem?_eq_some_iff.mp hdv).1
  have hm : s.mem[d]? = some s.mem[d] := List.getElem?_eq_getElem hlt
  exact ⟨d, s.mem[d], by rw [h.hd]; exact h1, hm, S.held (h.good d _ hm) h2⟩

/-- the ghost list of a device = the mapped frames that `deviceIDByPAddr` assigns to it -/
theorem tight_iff {s : GState σ} {L} (h : GInv S s L) (t : Tight devs s L []) (d p : Nat) :
    p ∈ L d ↔ ∃ e ∈ s.pt, e.paddr = p ∧ devOf devs p = some d := by
  constructor
  · intro hp
    rcases t.tight d p hp with ⟨e, he, hpe⟩ | c
    · exact ⟨e, he, hpe, t.own d p hp⟩
    · cases c
  · rintro ⟨e, he, rfl, hd⟩
    obtain ⟨d', h1, h2⟩ := h.live e he
    rw [hd] at h1
    injection h1 with h1
    subst h1
    exact h2

end
end C10.Comp
