import MgpuModel.C15_Sys
import MgpuProofs.C15Inv
/-! # C15 — invariant of the closed system ROB ∥ at-most-once lower memory

`SInv` extends the ROB invariant `Inv` by the *location* discipline that an at-most-once lower
memory gives: every bottom id in flight lives in exactly one of the three channels (Bottom port
outgoing buffer, the memory's outstanding set, Bottom port incoming buffer); a pending transaction
without response has its id in a channel, one with a response has not. -/
namespace C15

/-- bottom ids in flight: waiting in the Bottom port, outstanding in the memory, coming back -/
def chanOf (s : St) (m : List BReq) : List Nat :=
  s.botOut.map (·.id) ++ (m.map (·.id) ++ s.botIn.map (·.1))

theorem mem_chanOf {s : St} {m : List BReq} {x : Nat} :
    x ∈ chanOf s m ↔ x ∈ s.botOut.map (·.id) ∨ x ∈ m.map (·.id) ∨ x ∈ s.botIn.map (·.1) := by
  simp [chanOf, List.mem_append]

structure SInv (c : Cfg) (s : St) (m : List BReq) (o : List TRsp) : Prop where
  inv : Inv c s
  chanNodup : (chanOf s m).Nodup
  chanFresh : ∀ x ∈ chanOf s m, x < s.nextBot
  /-- a transaction that has its response is no longer in flight below -/
  someOut : ∀ t ∈ s.txs, ∀ p, t.rsp = some p → t.botId ∉ chanOf s m
  /-- a transaction without response is in flight below -/
  noneIn : ∀ t ∈ s.txs, t.rsp = none → t.botId ∈ chanOf s m
  /-- while flushing the buffer is empty -/
  flushEmpty : s.flushing = true → s.txs = []
  /-- what the requester took ++ what waits in the Top port is part of the delivered log, in order
      (a flush removes what waits in the Top port: repair 7c2f5a70) -/
  outLog : (o ++ s.topOut).Sublist s.delivered
  botInLe : s.botIn.length ≤ c.botInCap
  topOutLe : s.topOut.length ≤ c.topOutCap
  /-- tickets (bottom ids) ever handed out ascend strictly -/
  tickets : (s.fwd.map (·.2.id)).Pairwise (· < ·)
  ticketsFresh : ∀ k ∈ s.fwd.map (·.2.id), k < s.nextBot

theorem sinv_init (c : Cfg) : SInv c {} [] [] := by
  refine { inv := inv_init c, chanNodup := ?_, chanFresh := ?_, someOut := ?_, noneIn := ?_,
           flushEmpty := ?_, outLog := ?_, botInLe := ?_, topOutLe := ?_, tickets := ?_,
           ticketsFresh := ?_ } <;> simp [chanOf]

/-! ### list helpers -/

theorem perm_eraseIdx_map {α β} (f : α → β) :
    ∀ (l : List α) (j : Nat) (b : α), l[j]? = some b → (l.map f).Perm (f b :: (l.eraseIdx j).map f)
  | [], j, b, h => by simp at h
  | a :: l, 0, b, h => by
    simp at h; subst h; simp
  | a :: l, j + 1, b, h => by
    simp at h
    have ih := perm_eraseIdx_map f l j b h
    simp only [List.map_cons, List.eraseIdx_cons_succ]
    exact (List.Perm.cons _ ih).trans (List.Perm.swap _ _ _)

theorem botIds_nodup {c : Cfg} {s : St} (h : Inv c s) : (s.txs.map (·.botId)).Nodup := by
  rw [← h.table]; exact pairwise_lt_nodup h.botSorted

/-! ### pipeline stages -/

theorem bottomUp_sinv (c : Cfg) (s : St) (m : List BReq) (o : List TRsp) (h : SInv c s m o) :
    SInv c (bottomUp c s).1 m o := by
  have hi := bottomUp_inv c s h.inv
  revert hi
  unfold bottomUp
  split
  · intro _; exact h
  split
  · intro _; exact h
  · rename_i t rest hs
    split
    · intro _; exact h
    · rename_i p hp
      split
      · intro hi; exact { h with inv := hi }
      split
      · rename_i hroom
        intro hi
        refine { h with inv := hi, someOut := ?_, noneIn := ?_, flushEmpty := ?_, outLog := ?_,
                        topOutLe := ?_ }
        · intro t' ht'; exact h.someOut t' (by rw [hs]; exact List.mem_cons_of_mem _ ht')
        · intro t' ht'; exact h.noneIn t' (by rw [hs]; exact List.mem_cons_of_mem _ ht')
        · intro hf
          have := h.flushEmpty hf
          rw [hs] at this; cases this
        · show (o ++ (s.topOut ++ [_])).Sublist (s.delivered ++ [_])
          rw [← List.append_assoc]
          exact List.Sublist.append h.outLog (List.Sublist.refl _)
        · show (s.topOut ++ [_]).length ≤ c.topOutCap
          simp; omega
      · intro _; exact h

theorem parseBottom_sinv (c : Cfg) (s : St) (m : List BReq) (o : List TRsp) (h : SInv c s m o) :
    SInv c (parseBottom s).1 m o := by
  have hi := parseBottom_inv c s h.inv
  revert hi
  unfold parseBottom
  split
  · intro _; exact h
  split
  · intro _; exact h
  · rename_i b p rest hs
    have hnd := h.chanNodup
    have hperm : (chanOf s m).Perm (b :: (s.botOut.map (·.id) ++ (m.map (·.id) ++ rest.map (·.1)))) := by
      unfold chanOf
      rw [hs]
      simp only [List.map_cons]
      rw [← List.append_assoc]
      refine (List.perm_middle).trans ?_
      rw [List.append_assoc]
    have hnd' := hperm.nodup_iff.1 hnd
    have hbnot : b ∉ s.botOut.map (·.id) ++ (m.map (·.id) ++ rest.map (·.1)) := (List.nodup_cons.1 hnd').1
    have hnd2 := (List.nodup_cons.1 hnd').2
    have hsub : ∀ x, x ∈ s.botOut.map (·.id) ++ (m.map (·.id) ++ rest.map (·.1)) → x ∈ chanOf s m :=
      fun x hx => hperm.mem_iff.2 (List.mem_cons_of_mem _ hx)
    have hle : rest.length ≤ c.botInCap := by
      have := h.botInLe; rw [hs] at this; simp at this; omega
    split
    · rename_i hb
      intro hi
      refine { h with inv := hi, chanNodup := hnd2, chanFresh := fun x hx => h.chanFresh x (hsub x hx),
                      someOut := ?_, noneIn := ?_, flushEmpty := ?_, botInLe := hle }
      · intro t' ht' q hq hmem
        obtain ⟨t, ht, _, h2, h3⟩ := mem_setRsp ht'
        rcases h3 with h3 | ⟨_, h4⟩
        · exact h.someOut t ht q (by rw [← h3]; exact hq) (by rw [← h2]; exact hsub _ hmem)
        · rw [h2, h4] at hmem; exact hbnot hmem
      · intro t' ht' hq
        obtain ⟨t, ht, _, h2, h3⟩ := mem_setRsp ht'
        rcases h3 with h3 | ⟨h3, _⟩
        · have hin := h.noneIn t ht (by rw [← h3]; exact hq)
          have := hperm.mem_iff.1 hin
          rcases List.mem_cons.1 this with e | hx
          · -- t.botId = b but t' kept t's response: then t' is not the element `setRsp` changed;
            -- impossible since botIds are distinct and the first match is the only one
            exfalso
            -- t' ∈ setRsp with t'.rsp = none and t'.botId = b contradicts setRsp's effect
            have : ∀ (l : List Tx), (l.map (·.botId)).Nodup → ∀ t' ∈ setRsp b p l, t'.botId = b → t'.rsp = some p := by
              intro l
              induction l with
              | nil => intro _ t' ht'; simp [setRsp] at ht'
              | cons a l ih =>
                intro hn t' ht' hb'
                simp only [setRsp] at ht'
                split at ht'
                · rename_i hab
                  rcases List.mem_cons.1 ht' with e' | hl
                  · rw [e']
                  · exfalso
                    simp only [List.map_cons, List.nodup_cons] at hn
                    exact hn.1 (by rw [hab, ← hb']; exact List.mem_map.2 ⟨t', hl, rfl⟩)
                · rename_i hab
                  rcases List.mem_cons.1 ht' with e' | hl
                  · rw [e'] at hb'; exact absurd hb' hab
                  · simp only [List.map_cons, List.nodup_cons] at hn
                    exact ih hn.2 t' hl hb'
            have := this s.txs (botIds_nodup h.inv) t' ht' (by rw [h2]; exact e)
            rw [this] at hq; cases hq
          · rw [h2]; exact hx
        · rw [h3] at hq; cases hq
      · intro hf
        have := h.flushEmpty hf
        show setRsp b p s.txs = []
        rw [this]; rfl
    · intro hi
      rename_i hb
      refine { h with inv := hi, chanNodup := hnd2, chanFresh := ?_, someOut := ?_, noneIn := ?_, botInLe := hle }
      · exact fun x hx => h.chanFresh x (hsub x hx)
      · exact fun t ht q hq hmem => h.someOut t ht q hq (hsub _ hmem)
      intro t ht hq
      have hin := h.noneIn t ht hq
      rcases List.mem_cons.1 (hperm.mem_iff.1 hin) with e | hx
      · exfalso; apply hb; rw [h.inv.table, ← e]; exact List.mem_map.2 ⟨t, ht, rfl⟩
      · exact hx

theorem topDown_sinv (c : Cfg) (s : St) (m : List BReq) (o : List TRsp) (h : SInv c s m o)
    (hfl : s.flushing = false) : SInv c (topDown c s).1 m o := by
  have hi := topDown_inv c s h.inv
  revert hi
  unfold topDown
  split
  · intro _; exact h
  split
  · intro _; exact h
  · rename_i r rest hs
    have mono : ∀ x ∈ chanOf s m, x < s.nextBot + 1 := fun x hx => Nat.lt_succ_of_lt (h.chanFresh x hx)
    have monoT : ∀ k ∈ s.fwd.map (·.2.id), k < s.nextBot + 1 :=
      fun x hx => Nat.lt_succ_of_lt (h.ticketsFresh x hx)
    split
    · intro _; exact h
    split
    · intro hi; exact { h with inv := hi, chanFresh := mono, ticketsFresh := monoT }
    split
    · intro hi; exact { h with inv := hi, chanFresh := mono, ticketsFresh := monoT }
    · intro hi
      have hperm : (chanOf { s with botOut := s.botOut ++ [dupReq s.nextBot r] } m).Perm
          (s.nextBot :: chanOf s m) := by
        unfold chanOf
        simp only [List.map_append, List.map_cons, List.map_nil, dupReq_id]
        rw [List.append_assoc]
        exact List.perm_middle
      have hnew : s.nextBot ∉ chanOf s m := fun hm => Nat.lt_irrefl _ (h.chanFresh _ hm)
      refine { inv := hi, chanNodup := ?_, chanFresh := ?_, someOut := ?_, noneIn := ?_,
               flushEmpty := ?_, outLog := h.outLog, botInLe := h.botInLe, topOutLe := h.topOutLe,
               tickets := ?_, ticketsFresh := ?_ }
      · exact hperm.nodup_iff.2 (List.nodup_cons.2 ⟨hnew, h.chanNodup⟩)
      · intro x hx
        rcases List.mem_cons.1 (hperm.mem_iff.1 hx) with e | hx
        · show x < s.nextBot + 1; omega
        · exact mono x hx
      · intro t ht q hq hmem
        rcases List.mem_append.1 ht with ht | ht
        · rcases List.mem_cons.1 (hperm.mem_iff.1 hmem) with e | hx
          · have := h.inv.botFresh t.botId (by rw [h.inv.table]; exact List.mem_map.2 ⟨t, ht, rfl⟩)
            omega
          · exact h.someOut t ht q hq hx
        · simp at ht; subst ht; cases hq
      · intro t ht hq
        rcases List.mem_append.1 ht with ht | ht
        · exact hperm.mem_iff.2 (List.mem_cons_of_mem _ (h.noneIn t ht hq))
        · simp at ht; subst ht
          exact hperm.mem_iff.2 List.mem_cons_self
      · intro hf
        have hf' : s.flushing = true := hf
        rw [hfl] at hf'; cases hf'
      · show ((s.fwd ++ [(r, dupReq s.nextBot r)]).map (·.2.id)).Pairwise (· < ·)
        rw [List.map_append]
        simp only [List.map_cons, List.map_nil, dupReq_id]
        exact pairwise_snoc h.tickets h.ticketsFresh
      · intro k hk
        show k < s.nextBot + 1
        have : k ∈ (s.fwd ++ [(r, dupReq s.nextBot r)]).map (·.2.id) := hk
        rw [List.map_append] at this
        rcases List.mem_append.1 this with hk | hk
        · exact monoT k hk
        · simp [dupReq_id] at hk; omega

theorem bottomUp_flushing (c : Cfg) (s : St) : (bottomUp c s).1.flushing = s.flushing := by
  unfold bottomUp; repeat' split
  all_goals rfl

theorem parseBottom_flushing (s : St) : (parseBottom s).1.flushing = s.flushing := by
  unfold parseBottom; repeat' split
  all_goals rfl

theorem topDown_flushing (c : Cfg) (s : St) : (topDown c s).1.flushing = s.flushing := by
  unfold topDown; repeat' split
  all_goals rfl

theorem runPipeline_sinv (c : Cfg) (s : St) (m : List BReq) (o : List TRsp) (h : SInv c s m o)
    (hfl : s.flushing = false) :
    SInv c (runPipeline c s).1 m o ∧ (runPipeline c s).1.flushing = false := by
  unfold runPipeline
  have h1 := iterP_pres (P := fun s => SInv c s m o ∧ s.flushing = false) (f := bottomUp c)
    (fun s hs => ⟨bottomUp_sinv c s m o hs.1, by rw [bottomUp_flushing]; exact hs.2⟩) c.width (s, false) ⟨h, hfl⟩
  have h2 := iterP_pres (P := fun s => SInv c s m o ∧ s.flushing = false) (f := parseBottom)
    (fun s hs => ⟨parseBottom_sinv c s m o hs.1, by rw [parseBottom_flushing]; exact hs.2⟩) c.width _ h1
  exact iterP_pres (P := fun s => SInv c s m o ∧ s.flushing = false) (f := topDown c)
    (fun s hs => ⟨topDown_sinv c s m o hs.1 hs.2, by rw [topDown_flushing]; exact hs.2⟩) c.width _ h2

theorem processCtl_sinv (c : Cfg) (s : St) (m : List BReq) (o : List TRsp) (h : SInv c s m o) :
    SInv c (processCtl c s).1 m o := by
  have hi := processCtl_inv c s h.inv
  revert hi
  unfold processCtl
  split
  · intro _; exact h
  · split
    · split
      · intro _; exact h
      · intro hi
        refine { h with inv := hi, someOut := ?_, noneIn := ?_, flushEmpty := ?_ }
        · intro t ht; cases ht
        · intro t ht; cases ht
        · intro _; rfl
    · split
      · split
        · intro _; exact h
        · intro hi
          have hsub : ∀ x, x ∈ s.botOut.map (·.id) ++ (m.map (·.id) ++ ([] : List (Nat × Rsp)).map (·.1)) →
              x ∈ chanOf s m := by
            intro x hx
            rw [mem_chanOf]
            simp at hx
            rcases hx with hx | hx
            · exact Or.inl (by simpa using hx)
            · exact Or.inr (Or.inl (by simpa using hx))
          refine { h with inv := hi, chanNodup := ?_, chanFresh := ?_, someOut := ?_, noneIn := ?_,
                          flushEmpty := ?_, botInLe := ?_ }
          · have hs : (s.botOut.map (·.id) ++ (m.map (·.id) ++ ([] : List (Nat × Rsp)).map (·.1))).Sublist
                (chanOf s m) := by
              unfold chanOf
              exact List.Sublist.append (List.Sublist.refl _)
                (List.Sublist.append (List.Sublist.refl _) (by simp))
            exact h.chanNodup.sublist hs
          · intro x hx; exact h.chanFresh x (hsub x hx)
          · intro t ht; cases ht
          · intro t ht; cases ht
          · intro _; rfl
          · show ([] : List (Nat × Rsp)).length ≤ c.botInCap
            simp
      · intro hi; exact { h with inv := hi }

/-- `dropUndeliveredMsgs` runs only in the flushing state, where no transaction is pending -/
theorem dropOut_sinv (c : Cfg) (s : St) (m : List BReq) (o : List TRsp) (h : SInv c s m o)
    (hfl : s.flushing = true) : SInv c (dropOut s).1 m o := by
  have hi := dropOut_inv c s h.inv
  have htx := h.flushEmpty hfl
  have hsub : (chanOf (dropOut s).1 m).Sublist (chanOf s m) := by
    unfold chanOf dropOut
    simp only [List.map_nil, List.nil_append]
    exact List.sublist_append_right _ _
  unfold dropOut at hi hsub ⊢
  refine { h with inv := hi, chanNodup := h.chanNodup.sublist hsub, chanFresh := ?_, someOut := ?_,
                  noneIn := ?_, outLog := ?_, topOutLe := ?_ }
  · intro x hx; exact h.chanFresh x (hsub.subset hx)
  · intro t ht; have : t ∈ s.txs := ht; rw [htx] at this; cases this
  · intro t ht; have : t ∈ s.txs := ht; rw [htx] at this; cases this
  · show (o ++ []).Sublist s.delivered
    exact (List.Sublist.append (List.Sublist.refl o) (List.nil_sublist _)).trans h.outLog
  · show ([] : List TRsp).length ≤ c.topOutCap
    simp

theorem tick_sinv (c : Cfg) (s : St) (m : List BReq) (o : List TRsp) (h : SInv c s m o) :
    SInv c (tick c s).1 m o := by
  unfold tick
  split
  · exact h
  · simp only
    split
    · exact processCtl_sinv c s m o h
    · split
      · rename_i hfl
        exact dropOut_sinv c _ m o (processCtl_sinv c s m o h) hfl
      · rename_i hfl
        exact (runPipeline_sinv c _ m o (processCtl_sinv c s m o h) (by simpa using hfl)).1

/-! ### environment events -/

theorem top_sinv (c : Cfg) (s : St) (m : List BReq) (o : List TRsp) (q : ReqIn) (h : SInv c s m o) :
    SInv c (step c s (.top q)) m o := by
  have hi := step_inv c s (.top q) h.inv
  revert hi
  simp only [step]
  split
  · intro hi; exact { h with inv := hi }
  · intro _; exact h

theorem ctl_sinv (c : Cfg) (s : St) (m : List BReq) (o : List TRsp) (x : Ctl) (h : SInv c s m o) :
    SInv c (step c s (.ctl x)) m o := by
  have hi := step_inv c s (.ctl x) h.inv
  revert hi
  simp only [step]
  split
  · intro hi; exact { h with inv := hi }
  · intro _; exact h

theorem drainCtl_sinv (c : Cfg) (s : St) (m : List BReq) (o : List TRsp) (h : SInv c s m o) :
    SInv c (step c s .drainCtl) m o :=
  { h with inv := step_inv c s .drainCtl h.inv }

theorem memTake_sinv (c : Cfg) (s : St) (m : List BReq) (o : List TRsp) (b : BReq) (rest : List BReq)
    (hb : s.botOut = b :: rest) (h : SInv c s m o) : SInv c (step c s .drainBot) (m ++ [b]) o := by
  have hi := step_inv c s .drainBot h.inv
  have hperm : (chanOf (step c s .drainBot) (m ++ [b])).Perm (chanOf s m) := by
    unfold chanOf
    simp only [step, hb, List.drop_one, List.tail_cons, List.map_cons, List.map_append, List.map_nil]
    rw [List.append_assoc, ← List.append_assoc (rest.map _)]
    refine (List.perm_middle).trans ?_
    simp
  refine { h with inv := hi, chanNodup := hperm.nodup_iff.2 h.chanNodup, chanFresh := ?_, someOut := ?_,
                  noneIn := ?_ }
  · intro x hx; exact h.chanFresh x (hperm.mem_iff.1 hx)
  · intro t ht p hp hm; exact h.someOut t ht p hp (hperm.mem_iff.1 hm)
  · intro t ht hp; exact hperm.mem_iff.2 (h.noneIn t ht hp)

theorem memAnswer_sinv (c : Cfg) (s : St) (m : List BReq) (o : List TRsp) (j : Nat) (b : BReq) (p : Rsp)
    (hj : m[j]? = some b) (hroom : s.botIn.length < c.botInCap) (h : SInv c s m o) :
    SInv c (step c s (.bot b.id p)) (m.eraseIdx j) o := by
  have hi := step_inv c s (.bot b.id p) h.inv
  have e : step c s (.bot b.id p) = { s with botIn := s.botIn ++ [(b.id, p)] } := by
    simp [step, hroom]
  rw [e] at hi ⊢
  have hperm : (chanOf { s with botIn := s.botIn ++ [(b.id, p)] } (m.eraseIdx j)).Perm (chanOf s m) := by
    unfold chanOf
    simp only [List.map_append, List.map_cons, List.map_nil]
    refine List.Perm.append_left _ ?_
    have := perm_eraseIdx_map (·.id) m j b hj
    refine List.Perm.trans ?_ (List.Perm.append_right _ this.symm)
    rw [← List.append_assoc]
    refine (List.perm_append_comm).trans ?_
    simp
  refine { h with inv := hi, chanNodup := hperm.nodup_iff.2 h.chanNodup, chanFresh := ?_, someOut := ?_,
                  noneIn := ?_, botInLe := ?_ }
  · intro x hx; exact h.chanFresh x (hperm.mem_iff.1 hx)
  · intro t ht q hq hm; exact h.someOut t ht q hq (hperm.mem_iff.1 hm)
  · intro t ht hq; exact hperm.mem_iff.2 (h.noneIn t ht hq)
  · show (s.botIn ++ [(b.id, p)]).length ≤ c.botInCap
    simp; omega

theorem takeRsp_sinv (c : Cfg) (s : St) (m : List BReq) (o : List TRsp) (r : TRsp) (rest : List TRsp)
    (hr : s.topOut = r :: rest) (h : SInv c s m o) : SInv c (step c s .drainTop) m (o ++ [r]) := by
  have hi := step_inv c s .drainTop h.inv
  refine { h with inv := hi, outLog := ?_, topOutLe := ?_ }
  · show (o ++ [r] ++ s.topOut.drop 1).Sublist s.delivered
    have := h.outLog
    rw [hr] at this
    simpa [hr] using this
  · show (s.topOut.drop 1).length ≤ c.topOutCap
    have := h.topOutLe
    simp; omega

/-- the system invariant on `Sys` -/
def Sys.Ok (c : Cfg) (σ : Sys) : Prop := SInv c σ.rob σ.mem σ.out

theorem sysStep_ok (c : Cfg) (σ : Sys) (e : Ev) (h : σ.Ok c) : (sysStep c σ e).Ok c := by
  unfold Sys.Ok at h ⊢
  cases e with
  | tick => exact tick_sinv c _ _ _ h
  | arrive q => exact top_sinv c _ _ _ q h
  | memTake =>
    simp only [sysStep]
    split
    · exact h
    · rename_i b rest hb; exact memTake_sinv c _ _ _ b rest hb h
  | memAnswer j p =>
    simp only [sysStep]
    split
    · exact h
    · rename_i b hj
      split
      · rename_i hroom; exact memAnswer_sinv c _ _ _ j b p hj hroom h
      · exact h
  | ctl x => exact ctl_sinv c _ _ _ x h
  | takeRsp =>
    simp only [sysStep]
    split
    · exact h
    · rename_i r rest hr; exact takeRsp_sinv c _ _ _ r rest hr h
  | takeAck => exact drainCtl_sinv c _ _ _ h

theorem sysFold_ok (c : Cfg) (evs : List Ev) (σ : Sys) (h : σ.Ok c) : (evs.foldl (sysStep c) σ).Ok c := by
  induction evs generalizing σ with
  | nil => exact h
  | cons e es ih => exact ih _ (sysStep_ok c σ e h)

theorem sysRun_ok (c : Cfg) (evs : List Ev) : (sysRun c evs).Ok c :=
  sysFold_ok c evs {} (sinv_init c)

/-! ### while flushing the outgoing buffers are empty (repair 7c2f5a70) -/

theorem runPipeline_flushing (c : Cfg) (s : St) : (runPipeline c s).1.flushing = s.flushing := by
  unfold runPipeline
  have h1 := iterP_pres (P := fun s' => s'.flushing = s.flushing) (f := bottomUp c)
    (fun s' hs => by rw [bottomUp_flushing]; exact hs) c.width (s, false) rfl
  have h2 := iterP_pres (P := fun s' => s'.flushing = s.flushing) (f := parseBottom)
    (fun s' hs => by rw [parseBottom_flushing]; exact hs) c.width _ h1
  exact iterP_pres (P := fun s' => s'.flushing = s.flushing) (f := topDown c)
    (fun s' hs => by rw [topDown_flushing]; exact hs) c.width _ h2

/-- between events: a flushing ROB has nothing in the outgoing buffers of its Top and Bottom ports -/
def St.FlushOut (s : St) : Prop := s.flushing = true → s.topOut = [] ∧ s.botOut = []

theorem processCtl_outs (c : Cfg) (s : St) :
    (processCtl c s).1.topOut = s.topOut ∧ (processCtl c s).1.botOut = s.botOut := by
  unfold processCtl
  repeat' split
  all_goals exact ⟨rfl, rfl⟩

theorem processCtl_fault_flushing (c : Cfg) (s : St) (h1 : (processCtl c s).1.fault.isSome = true)
    (h0 : ¬ s.fault.isSome = true) : (processCtl c s).1.flushing = s.flushing := by
  revert h1
  unfold processCtl
  repeat' split
  all_goals first
    | (intro _; rfl)
    | (intro h1; exact absurd h1 h0)

theorem tick_flushOut (c : Cfg) (s : St) (h : s.FlushOut) : (tick c s).1.FlushOut := by
  unfold tick
  split
  · exact h
  · rename_i h0
    simp only
    split
    · rename_i h1
      intro hf
      have hf' : (processCtl c s).1.flushing = true := hf
      rw [processCtl_fault_flushing c s h1 h0] at hf'
      have := h hf'
      exact ⟨(processCtl_outs c s).1.trans this.1, (processCtl_outs c s).2.trans this.2⟩
    · split
      · intro _; exact ⟨rfl, rfl⟩
      · rename_i hfl
        intro hf
        have hf' : (runPipeline c (processCtl c s).1).1.flushing = true := hf
        rw [runPipeline_flushing] at hf'
        exact absurd hf' hfl

theorem sysStep_flushOut (c : Cfg) (σ : Sys) (e : Ev) (h : σ.rob.FlushOut) : (sysStep c σ e).rob.FlushOut := by
  cases e with
  | tick => exact tick_flushOut c _ h
  | arrive q => simp only [sysStep, step]; split <;> exact h
  | memTake =>
    simp only [sysStep]; split
    · exact h
    · intro hf
      have := h hf
      simp only [step] at hf ⊢
      simp [this]
  | memAnswer j p =>
    simp only [sysStep]; split
    · exact h
    · split
      · simp only [step]; split <;> exact h
      · exact h
  | ctl x => simp only [sysStep, step]; split <;> exact h
  | takeRsp =>
    simp only [sysStep]; split
    · exact h
    · intro hf
      have := h hf
      simp only [step] at hf ⊢
      simp [this]
  | takeAck => exact h

theorem sysFold_flushOut (c : Cfg) (evs : List Ev) (σ : Sys) (h : σ.rob.FlushOut) :
    (evs.foldl (sysStep c) σ).rob.FlushOut := by
  induction evs generalizing σ with
  | nil => exact h
  | cons e es ih => exact ih _ (sysStep_flushOut c σ e h)

theorem sysRun_flushOut (c : Cfg) (evs : List Ev) : (sysRun c evs).rob.FlushOut :=
  sysFold_flushOut c evs {} (by intro h; cases h)

end C15
