import MgpuProofs.C10Buddy
/-!
Buddy allocator, histories with frees — part 1: the abstract tree invariant.

A *node* is `(l, k)` with `l ≤ F`, `k < 2^l` (level, index in level). `Fr`/`Sp`/`Mg` = "is on the free list of its
level" / "split bit set" / "merge bit set". The five transitions of the allocator (`take` a free block, `split` a
used block, stop / merge / finish in `freeBlock`) preserve the invariant `AInv`.
-/
namespace C10.Buddy

theorem pow_succ2 (l : Nat) : 2 ^ (l + 1) = 2 * 2 ^ l := by rw [Nat.pow_succ, Nat.mul_comm]

/-- the node exists: it is the root or its parent is split -/
def Ex (Sp : Nat → Nat → Prop) (l k : Nat) : Prop := ∀ l', l = l' + 1 → Sp l' (k / 2)

structure AInv (F : Nat) (Fr Sp Mg : Nat → Nat → Prop) : Prop where
  A : ∀ l k, l ≤ F → k < 2 ^ l → Fr l k → Ex Sp l k ∧ ¬ Sp l k
  B : ∀ l k, l < F → k < 2 ^ l → Sp l k → Ex Sp l k
  C : ∀ l k, l < F → k < 2 ^ l → (Mg l k ↔ (Sp l k ∧ (Fr (l + 1) (2 * k) ↔ ¬ Fr (l + 1) (2 * k + 1))))
  SF : ∀ k, k < 2 ^ F → ¬ Sp F k

/-- an allocated block: exists, neither split nor free -/
def Used (Fr Sp : Nat → Nat → Prop) (l k : Nat) : Prop := Ex Sp l k ∧ ¬ Sp l k ∧ ¬ Fr l k

/-- every proper ancestor of an existing node is split -/
theorem AInv.anc {F : Nat} {Fr Sp Mg : Nat → Nat → Prop} (h : AInv F Fr Sp Mg) :
    ∀ (d l k : Nat), l + (d + 1) ≤ F → k < 2 ^ (l + (d + 1)) → Ex Sp (l + (d + 1)) k → Sp l (k / 2 ^ (d + 1)) := by
  intro d
  induction d with
  | zero =>
    intro l k _ _ hex
    simpa using hex l rfl
  | succ d ih =>
    intro l k hl hk hex
    have e : l + (d + 1 + 1) = (l + 1) + (d + 1) := by omega
    rw [e] at hl hk hex
    have h1 := ih (l + 1) k hl hk hex
    have hk' : k / 2 ^ (d + 1) < 2 ^ (l + 1) := by
      rw [Nat.div_lt_iff_lt_mul (Nat.pow_pos (by decide)), ← Nat.pow_add]
      exact hk
    have h2 := h.B (l + 1) _ (by omega) hk' h1 l rfl
    rw [Nat.div_div_eq_div_mul, ← Nat.pow_succ] at h2
    exact h2

section transitions
variable {F : Nat} {Fr Sp Mg Fr' Sp' Mg' : Nat → Nat → Prop}

/-- a free block leaves its free list; the merge bit of its parent is toggled -/
theorem AInv.take (h : AInv F Fr Sp Mg) {l k : Nat} (hl : l ≤ F) (hk : k < 2 ^ l) (hf : Fr l k)
    (hFr : ∀ l' k', l' ≤ F → k' < 2 ^ l' → (Fr' l' k' ↔ Fr l' k' ∧ ¬ (l' = l ∧ k' = k)))
    (hSp : ∀ l' k', l' ≤ F → k' < 2 ^ l' → (Sp' l' k' ↔ Sp l' k'))
    (hMg : ∀ l' k', l' < F → k' < 2 ^ l' → (Mg' l' k' ↔ if l = l' + 1 ∧ k / 2 = k' then ¬ Mg l' k' else Mg l' k')) :
    AInv F Fr' Sp' Mg' ∧ Used Fr' Sp' l k ∧
      ∀ l' k', l' ≤ F → k' < 2 ^ l' → Used Fr Sp l' k' → Used Fr' Sp' l' k' := by
  have hEx : ∀ l' k', l' ≤ F → k' < 2 ^ l' → Ex Sp l' k' → Ex Sp' l' k' := by
    intro l' k' hl' hk' ex l'' e
    subst e
    have p := pow_succ2 l''
    rw [hSp l'' (k' / 2) (by omega) (by omega)]
    exact ex l'' rfl
  refine ⟨⟨?_, ?_, ?_, ?_⟩, ?_, ?_⟩
  · intro l' k' hl' hk' hf'
    rw [hFr l' k' hl' hk'] at hf'
    obtain ⟨ex, ns⟩ := h.A l' k' hl' hk' hf'.1
    exact ⟨hEx l' k' hl' hk' ex, by rw [hSp l' k' hl' hk']; exact ns⟩
  · intro l' k' hl' hk' hs
    rw [hSp l' k' (by omega) hk'] at hs
    exact hEx l' k' (by omega) hk' (h.B l' k' hl' hk' hs)
  · intro l' k' hl' hk'
    have p := pow_succ2 l'
    have hC := h.C l' k' hl' hk'
    have a1 := hMg l' k' hl' hk'
    have a2 := hSp l' k' (by omega) hk'
    have a3 := hFr (l' + 1) (2 * k') (by omega) (by omega)
    have a4 := hFr (l' + 1) (2 * k' + 1) (by omega) (by omega)
    have a5 : l = l' + 1 → Sp l' (k / 2) := fun e => (h.A _ _ hl hk hf).1 l' e
    clear hFr hSp hMg h hEx
    grind
  · intro k' hk'
    rw [hSp F k' (Nat.le_refl _) hk']
    exact h.SF k' hk'
  · refine ⟨hEx l k hl hk (h.A l k hl hk hf).1, by rw [hSp l k hl hk]; exact (h.A l k hl hk hf).2, ?_⟩
    rw [hFr l k hl hk]
    simp
  · intro l' k' hl' hk' ⟨ex, ns, nf⟩
    refine ⟨hEx l' k' hl' hk' ex, by rw [hSp l' k' hl' hk']; exact ns, ?_⟩
    rw [hFr l' k' hl' hk']
    exact fun hh => nf hh.1

/-- a child of a node that is not split is not split either -/
theorem AInv.child_not_split (h : AInv F Fr Sp Mg) {l c : Nat} (hl : l + 1 ≤ F) (hc : c < 2 ^ (l + 1))
    (hn : ¬ Sp l (c / 2)) : ¬ Sp (l + 1) c := by
  intro hs
  rcases Nat.lt_or_ge (l + 1) F with h1 | h1
  · exact hn (h.B (l + 1) c h1 hc hs l rfl)
  · have e : l + 1 = F := by omega
    subst e
    exact h.SF c hc hs

/-- a used block is split once: its right half goes to the free list, both bits of the block are toggled -/
theorem AInv.split (h : AInv F Fr Sp Mg) {l k : Nat} (hl : l < F) (hk : k < 2 ^ l) (hu : Used Fr Sp l k)
    (hFr : ∀ l' k', l' ≤ F → k' < 2 ^ l' → (Fr' l' k' ↔ Fr l' k' ∨ (l' = l + 1 ∧ k' = 2 * k + 1)))
    (hSp : ∀ l' k', l' ≤ F → k' < 2 ^ l' → (Sp' l' k' ↔ Sp l' k' ∨ (l' = l ∧ k' = k)))
    (hMg : ∀ l' k', l' < F → k' < 2 ^ l' → (Mg' l' k' ↔ if l' = l ∧ k' = k then ¬ Mg l' k' else Mg l' k')) :
    AInv F Fr' Sp' Mg' ∧ Used Fr' Sp' (l + 1) (2 * k) ∧
      ∀ l' k', l' ≤ F → k' < 2 ^ l' → Used Fr Sp l' k' → ¬ (l' = l ∧ k' = k) → Used Fr' Sp' l' k' := by
  obtain ⟨uex, uns, unf⟩ := hu
  have pl := pow_succ2 l
  have hEx : ∀ l' k', l' ≤ F → k' < 2 ^ l' → Ex Sp l' k' → Ex Sp' l' k' := by
    intro l' k' hl' hk' ex l'' e
    subst e
    have p := pow_succ2 l''
    rw [hSp l'' (k' / 2) (by omega) (by omega)]
    exact Or.inl (ex l'' rfl)
  have c0 : ¬ Sp (l + 1) (2 * k) := h.child_not_split (by omega) (by omega) (by rw [show 2 * k / 2 = k by omega]; exact uns)
  have c1 : ¬ Sp (l + 1) (2 * k + 1) :=
    h.child_not_split (by omega) (by omega) (by rw [show (2 * k + 1) / 2 = k by omega]; exact uns)
  have f0 : ¬ Fr (l + 1) (2 * k) := by
    intro hf
    have := (h.A _ _ (by omega) (by omega) hf).1 l rfl
    rw [show 2 * k / 2 = k by omega] at this
    exact uns this
  have f1 : ¬ Fr (l + 1) (2 * k + 1) := by
    intro hf
    have := (h.A _ _ (by omega) (by omega) hf).1 l rfl
    rw [show (2 * k + 1) / 2 = k by omega] at this
    exact uns this
  refine ⟨⟨?_, ?_, ?_, ?_⟩, ?_, ?_⟩
  · intro l' k' hl' hk' hf'
    have a1 := hFr l' k' hl' hk'
    have a2 := hSp l' k' hl' hk'
    refine ⟨?_, ?_⟩
    · intro l'' e
      subst e
      have p := pow_succ2 l''
      have a3 := hSp l'' (k' / 2) (by omega) (by omega)
      have a4 : Fr (l'' + 1) k' → Sp l'' (k' / 2) := fun hf => (h.A _ _ hl' hk' hf).1 l'' rfl
      clear hFr hSp hMg h hEx
      grind
    · have a4 : Fr l' k' → ¬ Sp l' k' := fun hf => (h.A _ _ hl' hk' hf).2
      clear hFr hSp hMg h hEx
      grind
  · intro l' k' hl' hk' hs l'' e
    subst e
    have p := pow_succ2 l''
    have a1 := hSp (l'' + 1) k' (by omega) hk'
    have a2 := hSp l'' (k' / 2) (by omega) (by omega)
    have a3 : Sp (l'' + 1) k' → Sp l'' (k' / 2) := fun hs => h.B _ _ hl' hk' hs l'' rfl
    have a4 : l = l'' + 1 → Sp l'' (k / 2) := fun e => uex l'' e
    clear hFr hSp hMg h hEx
    grind
  · intro l' k' hl' hk'
    have p := pow_succ2 l'
    have hC := h.C l' k' hl' hk'
    have a1 := hMg l' k' hl' hk'
    have a2 := hSp l' k' (by omega) hk'
    have a3 := hFr (l' + 1) (2 * k') (by omega) (by omega)
    have a4 := hFr (l' + 1) (2 * k' + 1) (by omega) (by omega)
    clear hFr hSp hMg h hEx
    grind
  · intro k' hk'
    rw [hSp F k' (Nat.le_refl _) hk']
    rintro (hh | ⟨e, _⟩)
    · exact h.SF k' hk' hh
    · omega
  · refine ⟨?_, ?_, ?_⟩
    · intro l'' e
      have e' : l'' = l := by omega
      subst e'
      rw [hSp l'' _ (by omega) (by omega)]
      exact Or.inr ⟨rfl, by omega⟩
    · rw [hSp _ _ (by omega) (by omega)]
      rintro (hh | ⟨e, _⟩)
      · exact c0 hh
      · omega
    · rw [hFr _ _ (by omega) (by omega)]
      rintro (hh | ⟨_, e⟩)
      · exact f0 hh
      · omega
  · intro l' k' hl' hk' ⟨ex, ns, nf⟩ hne
    refine ⟨hEx l' k' hl' hk' ex, ?_, ?_⟩
    · rw [hSp l' k' hl' hk']
      rintro (hh | hh)
      · exact ns hh
      · exact hne hh
    · rw [hFr l' k' hl' hk']
      intro hh
      rcases hh with hh | ⟨e1, e2⟩
      · exact nf hh
      · subst e1; subst e2
        have := ex l rfl
        rw [show (2 * k + 1) / 2 = k by omega] at this
        exact uns this

/-- `freeBlock`, the buddy is allocated: the block goes to the free list -/
theorem AInv.free_stop (h : AInv F Fr Sp Mg) {l k : Nat} (hl : l + 1 ≤ F) (hk : k < 2 ^ (l + 1))
    (hu : Used Fr Sp (l + 1) k) (hm : ¬ Mg l (k / 2))
    (hFr : ∀ l' k', l' ≤ F → k' < 2 ^ l' → (Fr' l' k' ↔ Fr l' k' ∨ (l' = l + 1 ∧ k' = k)))
    (hSp : ∀ l' k', l' ≤ F → k' < 2 ^ l' → (Sp' l' k' ↔ Sp l' k'))
    (hMg : ∀ l' k', l' < F → k' < 2 ^ l' → (Mg' l' k' ↔ if l' = l ∧ k' = k / 2 then ¬ Mg l' k' else Mg l' k')) :
    AInv F Fr' Sp' Mg' ∧
      ∀ l' k', l' ≤ F → k' < 2 ^ l' → Used Fr Sp l' k' → ¬ (l' = l + 1 ∧ k' = k) → Used Fr' Sp' l' k' := by
  have _hlF : l < F := hl
  obtain ⟨uex, uns, unf⟩ := hu
  have pl := pow_succ2 l
  have usp : Sp l (k / 2) := uex l rfl
  have hEx : ∀ l' k', l' ≤ F → k' < 2 ^ l' → Ex Sp l' k' → Ex Sp' l' k' := by
    intro l' k' hl' hk' ex l'' e
    subst e
    have p := pow_succ2 l''
    rw [hSp l'' (k' / 2) (by omega) (by omega)]
    exact ex l'' rfl
  refine ⟨⟨?_, ?_, ?_, ?_⟩, ?_⟩
  · intro l' k' hl' hk' hf'
    rw [hFr l' k' hl' hk'] at hf'
    rw [hSp l' k' hl' hk']
    rcases hf' with hf' | ⟨e1, e2⟩
    · obtain ⟨ex, ns⟩ := h.A l' k' hl' hk' hf'
      exact ⟨hEx l' k' hl' hk' ex, ns⟩
    · subst e1; subst e2
      exact ⟨hEx _ _ hl' hk' uex, uns⟩
  · intro l' k' hl' hk' hs
    rw [hSp l' k' (by omega) hk'] at hs
    exact hEx l' k' (by omega) hk' (h.B l' k' hl' hk' hs)
  · intro l' k' hl' hk'
    have p := pow_succ2 l'
    have hC := h.C l' k' hl' hk'
    have a1 := hMg l' k' hl' hk'
    have a2 := hSp l' k' (by omega) hk'
    have a3 := hFr (l' + 1) (2 * k') (by omega) (by omega)
    have a4 := hFr (l' + 1) (2 * k' + 1) (by omega) (by omega)
    clear hFr hSp hMg h hEx
    grind
  · intro k' hk'
    rw [hSp F k' (Nat.le_refl _) hk']
    exact h.SF k' hk'
  · intro l' k' hl' hk' ⟨ex, ns, nf⟩ hne
    refine ⟨hEx l' k' hl' hk' ex, by rw [hSp l' k' hl' hk']; exact ns, ?_⟩
    rw [hFr l' k' hl' hk']
    intro hh
    rcases hh with hh | hh
    · exact nf hh
    · exact hne hh

/-- the buddy inside the parent -/
def bud (k : Nat) : Nat := if k % 2 = 0 then k + 1 else k - 1

/-- `freeBlock`: the merge bit of the parent of a used block is set exactly when the buddy is free -/
theorem AInv.buddy_free (h : AInv F Fr Sp Mg) {l k : Nat} (hl : l + 1 ≤ F) (hk : k < 2 ^ (l + 1))
    (hu : Used Fr Sp (l + 1) k) : Mg l (k / 2) ↔ Fr (l + 1) (bud k) := by
  obtain ⟨uex, uns, unf⟩ := hu
  have pl := pow_succ2 l
  have usp : Sp l (k / 2) := uex l rfl
  have hC := h.C l (k / 2) (by omega) (by omega)
  unfold bud
  rcases Nat.mod_two_eq_zero_or_one k with hm | hm
  · have e : 2 * (k / 2) = k := by omega
    rw [e] at hC
    rw [if_pos hm]
    clear h
    grind
  · have e : 2 * (k / 2) + 1 = k := by omega
    rw [e] at hC
    have e' : 2 * (k / 2) = k - 1 := by omega
    rw [e'] at hC
    rw [if_neg (by omega)]
    clear h
    grind

/-- `freeBlock`, the buddy is free: both leave, the parent is no longer split and becomes the block to free -/
theorem AInv.free_merge (h : AInv F Fr Sp Mg) {l k : Nat} (hl : l + 1 ≤ F) (hk : k < 2 ^ (l + 1))
    (hu : Used Fr Sp (l + 1) k) (hm : Mg l (k / 2))
    (hFr : ∀ l' k', l' ≤ F → k' < 2 ^ l' → (Fr' l' k' ↔ Fr l' k' ∧ ¬ (l' = l + 1 ∧ k' = bud k)))
    (hSp : ∀ l' k', l' ≤ F → k' < 2 ^ l' → (Sp' l' k' ↔ Sp l' k' ∧ ¬ (l' = l ∧ k' = k / 2)))
    (hMg : ∀ l' k', l' < F → k' < 2 ^ l' → (Mg' l' k' ↔ if l' = l ∧ k' = k / 2 then ¬ Mg l' k' else Mg l' k')) :
    AInv F Fr' Sp' Mg' ∧ Used Fr' Sp' l (k / 2) ∧
      ∀ l' k', l' ≤ F → k' < 2 ^ l' → Used Fr Sp l' k' → ¬ (l' = l + 1 ∧ k' = k) → Used Fr' Sp' l' k' := by
  have hbf := (h.buddy_free hl hk hu).mp hm
  obtain ⟨uex, uns, unf⟩ := hu
  have pl := pow_succ2 l
  have usp : Sp l (k / 2) := uex l rfl
  have hb2 : bud k / 2 = k / 2 := by unfold bud; split <;> omega
  have hbk : bud k < 2 ^ (l + 1) := by unfold bud; split <;> omega
  have hbs : ¬ Sp (l + 1) (bud k) := (h.A _ _ hl hbk hbf).2
  have hch : ∀ c, c / 2 = k / 2 → c = k ∨ c = bud k := by
    intro c hc; unfold bud; split <;> omega
  refine ⟨⟨?_, ?_, ?_, ?_⟩, ?_, ?_⟩
  · intro l' k' hl' hk' hf'
    have a1 := hFr l' k' hl' hk'
    have a2 := hSp l' k' hl' hk'
    obtain ⟨ex, ns⟩ := h.A l' k' hl' hk' (a1.mp hf').1
    refine ⟨?_, fun hh => ns (a2.mp hh).1⟩
    intro l'' e
    subst e
    have p := pow_succ2 l''
    have a3 := hSp l'' (k' / 2) (by omega) (by omega)
    have a4 := ex l'' rfl
    have a5 := hch k'
    clear hFr hSp hMg h
    grind
  · intro l' k' hl' hk' hs l'' e
    subst e
    have p := pow_succ2 l''
    have a1 := hSp (l'' + 1) k' (by omega) hk'
    have a2 := hSp l'' (k' / 2) (by omega) (by omega)
    have a3 : Sp (l'' + 1) k' → Sp l'' (k' / 2) := fun hs => h.B _ _ hl' hk' hs l'' rfl
    have a5 := hch k'
    clear hFr hSp hMg h
    grind
  · intro l' k' hl' hk'
    have p := pow_succ2 l'
    have hC := h.C l' k' hl' hk'
    have a1 := hMg l' k' hl' hk'
    have a2 := hSp l' k' (by omega) hk'
    have a3 := hFr (l' + 1) (2 * k') (by omega) (by omega)
    have a4 := hFr (l' + 1) (2 * k' + 1) (by omega) (by omega)
    have a5 : bud k = k + 1 ∨ bud k + 1 = k := by unfold bud; split <;> omega
    clear hFr hSp hMg h hch
    grind
  · intro k' hk'
    rw [hSp F k' (Nat.le_refl _) hk']
    exact fun hh => h.SF k' hk' hh.1
  · refine ⟨?_, ?_, ?_⟩
    · intro l'' e
      subst e
      have p := pow_succ2 l''
      rw [hSp l'' _ (by omega) (by omega)]
      exact ⟨h.B _ _ (by omega) (by omega) usp l'' rfl, by omega⟩
    · rw [hSp _ _ (by omega) (by omega)]
      exact fun hh => hh.2 ⟨rfl, rfl⟩
    · rw [hFr _ _ (by omega) (by omega)]
      exact fun hh => (h.A _ _ (by omega) (by omega) hh.1).2 usp
  · intro l' k' hl' hk' ⟨ex, ns, nf⟩ hne
    refine ⟨?_, ?_, ?_⟩
    · intro l'' e
      subst e
      have p := pow_succ2 l''
      rw [hSp l'' _ (by omega) (by omega)]
      refine ⟨ex l'' rfl, ?_⟩
      rintro ⟨e1, e2⟩
      subst e1
      rcases hch k' e2 with e3 | e3
      · exact hne ⟨rfl, e3⟩
      · subst e3; exact nf hbf
    · rw [hSp l' k' hl' hk']
      exact fun hh => ns hh.1
    · rw [hFr l' k' hl' hk']
      exact fun hh => nf hh.1

/-- `freeBlock` reached the root: the whole device is free -/
theorem AInv.free_root (h : AInv F Fr Sp Mg) (hu : Used Fr Sp 0 0)
    (hFr : ∀ l' k', l' ≤ F → k' < 2 ^ l' → (Fr' l' k' ↔ Fr l' k' ∨ (l' = 0 ∧ k' = 0)))
    (hSp : ∀ l' k', l' ≤ F → k' < 2 ^ l' → (Sp' l' k' ↔ Sp l' k'))
    (hMg : ∀ l' k', l' < F → k' < 2 ^ l' → (Mg' l' k' ↔ Mg l' k')) :
    AInv F Fr' Sp' Mg' ∧
      ∀ l' k', l' ≤ F → k' < 2 ^ l' → Used Fr Sp l' k' → ¬ (l' = 0 ∧ k' = 0) → Used Fr' Sp' l' k' := by
  obtain ⟨uex, uns, unf⟩ := hu
  have hEx : ∀ l' k', l' ≤ F → k' < 2 ^ l' → Ex Sp l' k' → Ex Sp' l' k' := by
    intro l' k' hl' hk' ex l'' e
    subst e
    have p := pow_succ2 l''
    rw [hSp l'' (k' / 2) (by omega) (by omega)]
    exact ex l'' rfl
  refine ⟨⟨?_, ?_, ?_, ?_⟩, ?_⟩
  · intro l' k' hl' hk' hf'
    rw [hFr l' k' hl' hk'] at hf'
    rw [hSp l' k' hl' hk']
    rcases hf' with hf' | ⟨e1, e2⟩
    · obtain ⟨ex, ns⟩ := h.A l' k' hl' hk' hf'
      exact ⟨hEx l' k' hl' hk' ex, ns⟩
    · subst e1; subst e2
      exact ⟨hEx _ _ hl' hk' uex, uns⟩
  · intro l' k' hl' hk' hs
    rw [hSp l' k' (by omega) hk'] at hs
    exact hEx l' k' (by omega) hk' (h.B l' k' hl' hk' hs)
  · intro l' k' hl' hk'
    have p := pow_succ2 l'
    have hC := h.C l' k' hl' hk'
    have a1 := hMg l' k' hl' hk'
    have a2 := hSp l' k' (by omega) hk'
    have a3 := hFr (l' + 1) (2 * k') (by omega) (by omega)
    have a4 := hFr (l' + 1) (2 * k' + 1) (by omega) (by omega)
    clear hFr hSp hMg h hEx
    grind
  · intro k' hk'
    rw [hSp F k' (Nat.le_refl _) hk']
    exact h.SF k' hk'
  · intro l' k' hl' hk' ⟨ex, ns, nf⟩ hne
    refine ⟨hEx l' k' hl' hk' ex, by rw [hSp l' k' hl' hk']; exact ns, ?_⟩
    rw [hFr l' k' hl' hk']
    intro hh
    rcases hh with hh | hh
    · exact nf hh
    · exact hne hh

end transitions

end C10.Buddy
