import MgpuProofs.C14FlushInv
/-! # C14 flush / restart — what happens while the unit is quiesced, and that re-sending ends. -/
namespace C14.Flush

/-! ## the part of a state the return handlers never touch -/

def shv (s : St) :=
  (s.f.sh, s.s.sh, s.v.sh, s.f.out, s.s.out, s.v.out, s.f.sent, s.s.sent, s.v.sent,
   s.f.resent, s.s.resent, s.v.resent, s.f.flushed, s.s.flushed, s.v.flushed, s.f.unit, s.s.unit, s.v.unit)

theorem respond_keeps (c : Chan) (r : Req) :
    (c.respond r).1.sh = c.sh ∧ (c.respond r).1.out = c.out ∧ (c.respond r).1.sent = c.sent ∧
    (c.respond r).1.resent = c.resent ∧ (c.respond r).1.flushed = c.flushed ∧ (c.respond r).1.unit = c.unit := by
  unfold Chan.respond; split <;> simp

theorem shv_procF (s : St) : shv (procF s) = shv s := by
  unfold procF; split
  · rfl
  · rename_i r rest _
    have := respond_keeps { s.f with inp := rest } r
    simp only [shv, Prod.mk.injEq]
    simp [this]

theorem shv_procS (s : St) : shv (procS s) = shv s := by
  unfold procS; split
  · rfl
  · rename_i r rest _
    have := respond_keeps { s.s with inp := rest } r
    split <;> rename_i heq <;> rw [heq] at this <;> simp only [shv, Prod.mk.injEq] <;> simp_all

theorem shv_procV1 (s : St) : shv (procV1 s) = shv s := by
  unfold procV1; split
  · rfl
  · rename_i r rest _
    have := respond_keeps { s.v with inp := rest } r
    split <;> rename_i heq <;> rw [heq] at this <;> simp only [shv, Prod.mk.injEq] <;> simp_all

theorem shv_procV (n : Nat) (s : St) : shv (procV n s) = shv s := by
  induction n generalizing s with
  | zero => rfl
  | succ n ih => exact (ih (procV1 s)).trans (shv_procV1 s)

theorem shv_memIn (s : St) :
    shv (if !s.isPaused || s.isSending then procV 16 (procS (procF s)) else s) = shv s := by
  split
  · exact (shv_procV 16 _).trans ((shv_procS _).trans (shv_procF s))
  · rfl

/-! ## quiesced: paused and not re-sending -/

theorem deliver_sent (c : Chan) (cap : Nat) (r : Req) : (c.deliver cap r).1.sent = c.sent := by
  unfold Chan.deliver; split <;> rfl

/-- From the execution of a flush until a restart request is handled the compute unit puts no
    request on a memory port, whatever the (legal) environment does. -/
theorem quiesced_no_send (c : Cfg) (s : St) (o : Op) (hl : Legal s o)
    (hp : s.isPaused = true) (hq : s.isSending = false) (hfl : s.isFlushing = false)
    (hnr : o = .tick → s.cpIn.head? ≠ some .restart) :
    (step c s o).f.sent = s.f.sent ∧ (step c s o).s.sent = s.s.sent ∧ (step c s o).v.sent = s.v.sent := by
  unfold step
  split
  · exact ⟨rfl, rfl, rfl⟩
  · cases o with
    | issS w n => have hl' : s.isPaused = false := hl; rw [hp] at hl'; cases hl'
    | issV w n => have hl' : s.isPaused = false := hl; rw [hp] at hl'; cases hl'
    | fetch w => have hl' : s.isPaused = false := hl; rw [hp] at hl'; cases hl'
    | usendS => have hl' : s.isPaused = false := hl; rw [hp] at hl'; cases hl'
    | usendV n => have hl' : s.isPaused = false := hl; rw [hp] at hl'; cases hl'
    | deliver k i g =>
      cases k with
      | f => exact ⟨deliver_sent _ _ _, rfl, rfl⟩
      | s => exact ⟨rfl, deliver_sent _ _ _, rfl⟩
      | v => exact ⟨rfl, rfl, deliver_sent _ _ _⟩
      | c => exact ⟨rfl, rfl, rfl⟩
    | cpFlush => simp only; split <;> exact ⟨rfl, rfl, rfl⟩
    | cpRestart => simp only; split <;> exact ⟨rfl, rfl, rfl⟩
    | take k n => cases k <;> exact ⟨rfl, rfl, rfl⟩
    | foreign k n => cases k <;> exact ⟨rfl, rfl, rfl⟩
    | tick =>
      have hnr := hnr rfl
      simp only [tick]
      have h1 : (sendToCP c s).isPaused = true ∧ (sendToCP c s).isSending = false ∧
          (sendToCP c s).isFlushing = false ∧ (sendToCP c s).cpIn = s.cpIn ∧ shv (sendToCP c s) = shv s := by
        unfold sendToCP; split <;> exact ⟨hp, hq, hfl, rfl, rfl⟩
      generalize sendToCP c s = s1 at h1
      obtain ⟨p1, q1, f1, i1, v1⟩ := h1
      have h2 : processInput c s1 = procCP c s1 := by
        unfold processInput; simp [p1, q1]
      rw [h2]
      unfold procCP
      rcases hin : s1.cpIn with _ | ⟨m, rest⟩
      · simp only [doFlush, f1, q1, Bool.false_eq_true, if_false]
        simp only [shv, Prod.mk.injEq] at v1
        exact ⟨v1.2.2.2.2.2.2.1, v1.2.2.2.2.2.2.2.1, v1.2.2.2.2.2.2.2.2.1⟩
      · cases m with
        | flush =>
          simp only [doFlush, if_true, q1, Bool.false_eq_true, if_false, flushPipeline, Bool.not_true]
          simp only [shv, Prod.mk.injEq] at v1
          split <;> exact ⟨v1.2.2.2.2.2.2.1, v1.2.2.2.2.2.2.2.1, v1.2.2.2.2.2.2.2.2.1⟩
        | restart =>
          rw [← i1] at hnr
          simp [hin] at hnr

/-! ## re-sending the shadow lists ends -/

/-- `k` cycles without any other event -/
def ticks (c : Cfg) : Nat → St → St
  | 0, s => s
  | k + 1, s => ticks c k (tick c s)

def shTotal (s : St) : Nat := s.f.sh.length + s.s.sh.length + s.v.sh.length

/-- every port has room for all the requests still to be re-sent -/
def Room (c : Cfg) (s : St) : Prop :=
  s.f.out.length + s.f.sh.length ≤ c.capF ∧ s.s.out.length + s.s.sh.length ≤ c.capS ∧
  s.v.out.length + s.v.sh.length ≤ c.capV

theorem drain_room (c : Chan) (cap : Nat) (h : c.out.length + c.sh.length ≤ cap) :
    (c.drain cap).sh = c.sh.tail ∧ (c.drain cap).out.length + (c.drain cap).sh.length ≤ cap := by
  unfold Chan.drain
  rcases hsh : c.sh with _ | ⟨e, rest⟩
  · simp [hsh] at h ⊢; exact h
  · simp only [hsh, List.length_cons] at h
    have : c.out.length < cap := by omega
    simp only [this, if_true, List.tail_cons, List.length_append, List.length_singleton]
    refine ⟨trivial, by omega⟩

/-- one cycle of a unit that is re-sending, with no request from the command processor waiting -/
theorem tick_sending (c : Cfg) (s : St) (hs : s.isSending = true) (hfl : s.isFlushing = false)
    (hack : s.ackPending = false) (hin : s.cpIn = []) :
    (shTotal s = 0 → (tick c s).isPaused = false ∧ (tick c s).isSending = false ∧ shTotal (tick c s) = 0 ∧
        (tick c s).cpIn = []) ∧
    (shTotal s ≠ 0 → (tick c s).isSending = true ∧ (tick c s).isFlushing = false ∧ (tick c s).ackPending = false ∧
        (tick c s).cpIn = [] ∧
        (tick c s).f.sh = (s.f.drain c.capF).sh ∧ (tick c s).s.sh = (s.s.drain c.capS).sh ∧
        (tick c s).v.sh = (s.v.drain c.capV).sh ∧
        (tick c s).f.out = (s.f.drain c.capF).out ∧ (tick c s).s.out = (s.s.drain c.capS).out ∧
        (tick c s).v.out = (s.v.drain c.capV).out) := by
  have h0 : sendToCP c s = s := by unfold sendToCP; simp [hack]
  unfold tick
  rw [h0]
  unfold processInput
  generalize hm : (if !s.isPaused || s.isSending then procV 16 (procS (procF s)) else s) = s1
  have hc : ctl s1 = ctl s := by rw [← hm]; exact ctl_memIn s
  have hv : shv s1 = shv s := by rw [← hm]; exact shv_memIn s
  simp only [ctl, Prod.mk.injEq] at hc
  obtain ⟨c1, c2, c3, c4, c5, c6, c7, c8, _⟩ := hc
  have hcp : procCP c s1 = s1 := by unfold procCP; rw [c8, hin]
  rw [hcp]
  simp only [shv, Prod.mk.injEq] at hv
  obtain ⟨v1, v2, v3, v4, v5, v6, _⟩ := hv
  have hs1 : s1.isSending = true := by rw [c3]; exact hs
  have hf1 : s1.isFlushing = false := by rw [c1]; exact hfl
  have htot : shTotal s1 = shTotal s := by simp [shTotal, v1, v2, v3]
  unfold doFlush
  simp only [hf1, Bool.false_eq_true, if_false, hs1, if_true]
  unfold checkShadow
  constructor
  · intro hz
    have : s1.s.sh.length + s1.v.sh.length + s1.f.sh.length = 0 := by
      have := htot.trans hz; simp only [shTotal] at this; omega
    rw [if_pos this]
    refine ⟨rfl, rfl, ?_, by show s1.cpIn = []; rw [c8, hin]⟩
    show s1.f.sh.length + s1.s.sh.length + s1.v.sh.length = 0
    omega
  · intro hnz
    have : ¬ (s1.s.sh.length + s1.v.sh.length + s1.f.sh.length = 0) := by
      intro h; apply hnz; rw [← htot]; simp only [shTotal]; omega
    simp only [this, if_false]
    refine ⟨hs1, hf1, by rw [c6]; exact hack, by rw [c8, hin], ?_, ?_, ?_, ?_, ?_, ?_⟩ <;>
      simp only [Chan.drain, v1, v2, v3, v4, v5, v6] <;> split <;> (try split) <;> simp_all

/-- **Re-sending ends.** A unit that is re-sending its shadow lists, with no request from the
    command processor waiting and with room on the ports for the requests still to go, has re-sent
    all of them and resumed after at most (number of saved records + 1) cycles. -/
theorem drain_completes (c : Cfg) (n : Nat) (s : St) (hs : s.isSending = true) (hfl : s.isFlushing = false)
    (hack : s.ackPending = false) (hin : s.cpIn = []) (hroom : Room c s) (hn : shTotal s ≤ n) :
    ∃ k, k ≤ n + 1 ∧ (ticks c k s).isPaused = false ∧ (ticks c k s).isSending = false ∧
      shTotal (ticks c k s) = 0 := by
  induction n generalizing s with
  | zero =>
    have hz : shTotal s = 0 := by omega
    obtain ⟨h1, h2, h3, _⟩ := (tick_sending c s hs hfl hack hin).1 hz
    exact ⟨1, by omega, h1, h2, h3⟩
  | succ n ih =>
    by_cases hz : shTotal s = 0
    · obtain ⟨h1, h2, h3, _⟩ := (tick_sending c s hs hfl hack hin).1 hz
      exact ⟨1, by omega, h1, h2, h3⟩
    · obtain ⟨t1, t2, t3, t4, f1, f2, f3, o1, o2, o3⟩ := (tick_sending c s hs hfl hack hin).2 hz
      obtain ⟨r1, r2, r3⟩ := hroom
      have df := drain_room s.f c.capF r1
      have ds := drain_room s.s c.capS r2
      have dv := drain_room s.v c.capV r3
      have hroom' : Room c (tick c s) := by
        refine ⟨?_, ?_, ?_⟩
        · rw [f1, o1]; exact df.2
        · rw [f2, o2]; exact ds.2
        · rw [f3, o3]; exact dv.2
      have hless : shTotal (tick c s) ≤ n := by
        simp only [shTotal] at hn hz ⊢
        rw [f1, f2, f3, df.1, ds.1, dv.1]
        simp only [List.length_tail]
        omega
      obtain ⟨k, hk, h1, h2, h3⟩ := ih (tick c s) t1 t2 t3 t4 hroom' hless
      exact ⟨k + 1, by omega, h1, h2, h3⟩

end C14.Flush
