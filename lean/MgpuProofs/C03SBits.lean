import MgpuProofs.C03SLemmas
/-! Bit-level lemmas for the scalar handlers the generic `conform` tactic does not reach:
    sign extension, variable shifts, variable-width masks, bit-field extraction, bit reversal. -/
namespace C03S
open C03S
set_option linter.unusedSimpArgs false
set_option maxRecDepth 2000

/-! ## truncation / extension -/

/-- truncating a sign extension is the shorter sign extension -/
theorem trunc_sext16 (x : BitVec 16) : (x.signExtend 64).setWidth 32 = x.signExtend 32 := by
  apply BitVec.eq_of_getLsbD_eq
  intro j hj
  have : j < 64 := by omega
  simp [BitVec.getElem_signExtend, this, hj]

theorem trunc_sext32 (x : BitVec 32) : (x.signExtend 64).setWidth 32 = x := by
  apply BitVec.eq_of_getLsbD_eq
  intro j hj
  have : j < 64 := by omega
  simp [BitVec.getElem_signExtend, this, hj]

theorem trunc_zext32 (x : BitVec 32) : (x.setWidth 64).setWidth 32 = x := by
  ext j hj
  simp

theorem trunc_zext16 (x : BitVec 16) : (x.setWidth 64).setWidth 16 = x := by
  ext j hj
  simp

theorem trunc_sub (x y : BitVec 64) : (x - y).setWidth 32 = x.setWidth 32 - y.setWidth 32 := by
  bv_omega

theorem keep32_w32 (d : BitVec 32) : keep 32 (d.setWidth 64) = d.setWidth 64 := by
  simp [keep]

theorem keep32 (v : BitVec 64) : keep 32 v = (v.setWidth 32).setWidth 64 := by simp [keep]
theorem keep64 (v : BitVec 64) : keep 64 v = v := by simp [keep]

/-! ## result records -/

theorem norm_ret32 (d : BitVec 32) (b : Bool) : (Spec.ret32 d b).norm 32 = Spec.ret32 d b := by
  simp only [Spec.ret32, ScalarOut.norm, Option.map, Spec.w32, keep32_w32]

theorem norm_ret32n (d : BitVec 32) : (Spec.ret32n d).norm 32 = Spec.ret32n d := by
  simp only [Spec.ret32n, ScalarOut.norm, Option.map, Spec.w32, keep32_w32]

/-- the `if dst != 0 { SetSCC(1) } else { SetSCC(0) }` tail of a 32-bit handler -/
theorem ret32_ite (d : BitVec 32) :
    (if (d != 0#32) = true then
      ({ dst := some (BitVec.setWidth 64 d), scc := some 1#8, vcc := none, exec := none, pc := none } : ScalarOut)
     else { dst := some (BitVec.setWidth 64 d), scc := some 0#8, vcc := none, exec := none, pc := none })
    = Spec.ret32 d (d != 0#32) := by
  cases h : (d != 0#32) <;> simp [Spec.ret32, Spec.bit, Spec.w32]

/-- the 5-bit shift amount the handlers compute with a 64-bit AND -/
theorem and31_toNat (x : BitVec 64) : (x &&& 31#64).toNat = (x.setWidth 32).toNat % 32 := by
  rw [and_mask 5 x _ (by decide) (by decide)]
  simp only [BitVec.toNat_setWidth]
  omega

theorem and31_toNat' (x : BitVec 32) : (x &&& 31#32).toNat = x.toNat % 32 := by
  simp only [BitVec.toNat_and, BitVec.toNat_ofNat]
  exact Nat.and_two_pow_sub_one_eq_mod _ 5

/-- `(src1 >> 16) & 0x7f` is bits 22:16 of the low dword -/
theorem width7_toNat (x : BitVec 64) :
    ((x >>> 16) &&& 127#64).toNat = (x.setWidth 32).toNat / 65536 % 128 := by
  rw [and_mask 7 _ _ (by decide) (by decide)]
  simp only [BitVec.toNat_ushiftRight, BitVec.toNat_setWidth, Nat.shiftRight_eq_div_pow]
  omega

/-! ## masks `(1 <<< w) - 1` -/

theorem getLsbD_mask {m : Nat} (w j : Nat) :
    ((1#m <<< w) - 1#m).getLsbD j = (decide (j < m) && decide (j < w)) := by
  by_cases hm : m = 0
  · subst hm; simp
  by_cases hw : w < m
  · have h2 : 2 ^ w < 2 ^ m := Nat.pow_lt_pow_right (by decide) hw
    have h1 : 1 < 2 ^ m := Nat.one_lt_two_pow hm
    have hp : 0 < 2 ^ w := Nat.pow_pos (by decide)
    have ht : ((1#m <<< w) - 1#m).toNat = 2 ^ w - 1 := by
      simp only [BitVec.toNat_sub, BitVec.toNat_shiftLeft, BitVec.toNat_ofNat, Nat.shiftLeft_eq,
        Nat.mod_eq_of_lt h1, Nat.one_mul, Nat.mod_eq_of_lt h2]
      rw [show 2 ^ m - 1 + 2 ^ w = 2 ^ w - 1 + 2 ^ m by omega, Nat.add_mod_right]
      exact Nat.mod_eq_of_lt (by omega)
    rw [BitVec.getLsbD, ht, Nat.testBit_two_pow_sub_one]
    by_cases hj : j < w
    · have : j < m := by omega
      simp [hj, this]
    · simp [hj]
  · have hz : (1#m <<< w) = 0#m := BitVec.shiftLeft_eq_zero (by omega)
    rw [hz, BitVec.zero_sub, BitVec.neg_one_eq_allOnes, BitVec.getLsbD_allOnes]
    by_cases hj : j < m
    · have : j < w := by omega
      simp [hj, this]
    · simp [hj]

theorem one64_trunc : (1#64).setWidth 32 = 1#32 := by decide

theorem sext_add_trunc (a b : BitVec 32) : (a.signExtend 64 + b.signExtend 64).setWidth 32 = a + b := by
  rw [BitVec.setWidth_add _ _ (by decide), trunc_sext32, trunc_sext32]
theorem sext_sub_trunc (a b : BitVec 32) : (a.signExtend 64 - b.signExtend 64).setWidth 32 = a - b := by
  rw [trunc_sub, trunc_sext32, trunc_sext32]

theorem toInt32_bounds (a : BitVec 32) : -2147483648 ≤ a.toInt ∧ a.toInt < 2147483648 := by
  rw [toInt32]; have := a.isLt; split <;> omega

theorem ovf_add_c (a b : BitVec 32) :
    (BitVec.slt 2147483647#64 (a.signExtend 64 + b.signExtend 64) || BitVec.slt (a.signExtend 64 + b.signExtend 64) 18446744071562067968#64) = Spec.addOvf a b := by
  have ha := toInt32_bounds a
  have hb := toInt32_bounds b
  have hs : (a.signExtend 64 + b.signExtend 64).toInt = a.toInt + b.toInt := by
    rw [BitVec.toInt_add, BitVec.toInt_signExtend_of_le (by decide), BitVec.toInt_signExtend_of_le (by decide)]
    apply Int.bmod_eq_of_le <;> omega
  have c1 : (2147483647#64).toInt = 2147483647 := by decide
  have c2 : (18446744071562067968#64).toInt = -2147483648 := by decide
  apply Bool.eq_iff_iff.mpr
  simp only [Spec.addOvf, Bool.or_eq_true, slt_iff', decide_eq_true_eq, hs, c1, c2]
  omega

theorem ovf_sub_c (a b : BitVec 32) :
    (BitVec.slt 2147483647#64 (a.signExtend 64 - b.signExtend 64) || BitVec.slt (a.signExtend 64 - b.signExtend 64) 18446744071562067968#64) = Spec.subOvf a b := by
  have ha := toInt32_bounds a
  have hb := toInt32_bounds b
  have hs : (a.signExtend 64 - b.signExtend 64).toInt = a.toInt - b.toInt := by
    rw [BitVec.toInt_sub, BitVec.toInt_signExtend_of_le (by decide), BitVec.toInt_signExtend_of_le (by decide)]
    apply Int.bmod_eq_of_le <;> omega
  have c1 : (2147483647#64).toInt = 2147483647 := by decide
  have c2 : (18446744071562067968#64).toInt = -2147483648 := by decide
  apply Bool.eq_iff_iff.mpr
  simp only [Spec.subOvf, Bool.or_eq_true, slt_iff', decide_eq_true_eq, hs, c1, c2]
  omega

theorem ret32_ite_b (d : BitVec 32) (c : Bool) :
    (if c = true then
      ({ dst := some (BitVec.setWidth 64 d), scc := some 1#8, vcc := none, exec := none, pc := none } : ScalarOut)
     else { dst := some (BitVec.setWidth 64 d), scc := some 0#8, vcc := none, exec := none, pc := none })
    = Spec.ret32 d c := by
  cases c <;> simp [Spec.ret32, Spec.bit, Spec.w32]

theorem mulhi (a b : BitVec 32) :
    (((a.setWidth 64 * b.setWidth 64) >>> 32).setWidth 32) = BitVec.ofNat 32 (a.toNat * b.toNat / 4294967296) := by
  apply BitVec.eq_of_toNat_eq
  have ha := a.isLt
  have hb := b.isLt
  have hp : a.toNat * b.toNat < 4294967296 * 4294967296 := Nat.mul_lt_mul'' ha hb
  simp only [BitVec.toNat_setWidth, BitVec.toNat_ushiftRight, BitVec.toNat_mul, BitVec.toNat_ofNat, Nat.shiftRight_eq_div_pow]
  rw [Nat.mod_eq_of_lt (show a.toNat < 2 ^ 64 by omega), Nat.mod_eq_of_lt (show b.toNat < 2 ^ 64 by omega)]
  generalize a.toNat * b.toNat = p at *
  omega

theorem toNat_32_64 : (32#64).toNat = 32 := by decide
theorem toNat_16_64 : (16#64).toNat = 16 := by decide

/-- bit `k` of the 32-bit value `a` sign-extended without bound -/
def sbit (a : BitVec 32) (k : Nat) : Bool := if k < 32 then a.getLsbD k else a.getLsbD 31

/-- the destination value of `Spec.s_bfe_i32` -/
def bfeI (a : BitVec 32) (ofs w : Nat) : BitVec 32 :=
  let n := min w (32 - ofs)
  let f := (a.toNat / 2 ^ ofs) % 2 ^ n
  let v : Int := if n = 0 then 0 else if f ≥ 2 ^ (n - 1) then (f : Int) - 2 ^ n else f
  BitVec.ofInt 32 v

theorem spec_bfe_i32_eq (i : ScalarIn) :
    Spec.s_bfe_i32 i =
      Spec.ret32 (bfeI (Spec.lo i.src0) (Spec.bfeOffset (Spec.lo i.src1)) (Spec.bfeWidth (Spec.lo i.src1)))
        (bfeI (Spec.lo i.src0) (Spec.bfeOffset (Spec.lo i.src1)) (Spec.bfeWidth (Spec.lo i.src1)) != 0#32) := rfl

theorem sbit_head (a : BitVec 32) (ofs w j : Nat) (hj : j < min w (32 - ofs)) :
    sbit a (ofs + min j (w - 1)) = a.getLsbD (ofs + j) := by
  have h1 : min j (w - 1) = j := by omega
  have h2 : ofs + j < 32 := by omega
  simp only [sbit, h1, h2, if_true]

theorem sbit_tail (a : BitVec 32) (ofs w j : Nat) (hw : 0 < w) (ho : ofs < 32) (hj : min w (32 - ofs) ≤ j) :
    sbit a (ofs + min j (w - 1)) = a.getLsbD (ofs + min w (32 - ofs) - 1) := by
  unfold sbit
  split
  · congr 1; omega
  · congr 1; omega

theorem testBit_top {f n : Nat} (hn : 0 < n) (h1 : 2 ^ (n - 1) ≤ f) (h2 : f < 2 ^ n) : f.testBit (n - 1) = true := by
  cases h : f.testBit (n - 1) with
  | true => rfl
  | false =>
    exfalso
    have : f < 2 ^ (n - 1) := by
      apply Nat.lt_pow_two_of_testBit
      intro k hk
      by_cases hk' : k = n - 1
      · subst hk'; exact h
      · apply Nat.testBit_lt_two_pow
        exact Nat.lt_of_lt_of_le h2 (Nat.pow_le_pow_right (by decide) (by omega))
    omega

/-- meaning of the signed bit-field extract: bit `j` of the result is bit `min j (w-1)` of the field
    that starts at bit `ofs` of the sign-extended source (empty field: 0) -/
theorem getLsbD_bfeI (a : BitVec 32) (ofs w j : Nat) (ho : ofs < 32) (hj : j < 32) :
    (bfeI a ofs w).getLsbD j = (decide (0 < w) && sbit a (ofs + min j (w - 1))) := by
  unfold bfeI
  by_cases hw : w = 0
  · subst hw; simp
  have hw' : 0 < w := by omega
  simp only [hw', decide_true, Bool.true_and]
  generalize hn : min w (32 - ofs) = n
  have hn0 : 0 < n := by omega
  have hn32 : n ≤ 32 := by omega
  generalize hf : a.toNat / 2 ^ ofs % 2 ^ n = f
  have hfn : f < 2 ^ n := by rw [← hf]; exact Nat.mod_lt _ (Nat.pow_pos (by decide))
  have key : ∀ k, k < n → f.testBit k = a.getLsbD (ofs + k) := by
    intro k hk
    rw [← hf, Nat.testBit_mod_two_pow, Nat.testBit_div_two_pow, BitVec.testBit_toNat]
    simp [hk, Nat.add_comm]
  have hhigh : ∀ k, n ≤ k → f.testBit k = false := fun k hk =>
    Nat.testBit_lt_two_pow (Nat.lt_of_lt_of_le hfn (Nat.pow_le_pow_right (by decide) hk))
  have htail : n ≤ j → sbit a (ofs + min j (w - 1)) = f.testBit (n - 1) := by
    intro h
    rw [sbit_tail a ofs w j hw' ho (by omega), hn, key (n - 1) (by omega)]
    congr 1; omega
  have hhead : j < n → sbit a (ofs + min j (w - 1)) = f.testBit j := by
    intro h
    rw [sbit_head a ofs w j (by omega), key j h]
  have hn0' : ¬ n = 0 := by omega
  simp only [hn0', if_false]
  by_cases hs : f ≥ 2 ^ (n - 1)
  · simp only [hs, if_true]
    have hsign := testBit_top hn0 hs hfn
    have hpow : 2 ^ n * (2 ^ (32 - n) - 1) = 4294967296 - 2 ^ n := by
      rw [Nat.mul_sub_one, ← Nat.pow_add, show n + (32 - n) = 32 by omega]
    have hle : 2 ^ n ≤ 4294967296 := Nat.pow_le_pow_right (by decide) hn32 (n := 2)
    have he : BitVec.ofInt 32 ((f : Int) - 2 ^ n) = BitVec.ofNat 32 (2 ^ n * (2 ^ (32 - n) - 1) + f) := by
      apply BitVec.eq_of_toNat_eq
      rw [hpow]
      simp only [BitVec.toNat_ofInt, BitVec.toNat_ofNat]
      have hc : ((2 : Int) ^ n) = ((2 ^ n : Nat) : Int) := by simp
      rw [hc]
      generalize (2 : Nat) ^ n = P at *
      omega
    rw [he, BitVec.getLsbD_ofNat, Nat.testBit_two_pow_mul_add _ hfn]
    by_cases hjn : j < n
    · simp [hjn, hj, hhead hjn]
    · rw [htail (by omega), hsign]
      simp [hjn, hj]; omega
  · simp only [hs, if_false]
    have hsign : f.testBit (n - 1) = false := Nat.testBit_lt_two_pow (by omega)
    rw [BitVec.ofInt_natCast, BitVec.getLsbD_ofNat]
    by_cases hjn : j < n
    · simp [hj, hhead hjn]
    · rw [htail (by omega), hsign, hhigh j (by omega)]; simp

theorem twoPow_ne_zero {m k : Nat} (hk : k < m) : BitVec.twoPow m k ≠ 0#m := by
  intro h
  have := congrArg BitVec.toNat h
  rw [BitVec.toNat_twoPow_of_lt hk] at this
  have : 0 < 2 ^ k := Nat.pow_pos (by decide)
  simp only [BitVec.toNat_ofNat, Nat.zero_mod] at *
  omega

theorem and_onebit {m : Nat} (x : BitVec m) (k : Nat) (hk : k < m) :
    ((x &&& (1#m <<< k)) != 0#m) = x.getLsbD k := by
  rw [← BitVec.twoPow_eq, BitVec.and_twoPow]
  cases x.getLsbD k
  · simp
  · simp [twoPow_ne_zero hk]

theorem shr_and_one (x : BitVec 64) (k : Nat) : (((x >>> k) &&& 1#64) == 1#64) = x.getLsbD k := by
  have h1 : (1#64) = BitVec.twoPow 64 0 := by decide
  rw [h1, BitVec.and_twoPow, BitVec.getLsbD_ushiftRight, Nat.add_zero]
  cases x.getLsbD k
  · simp; decide
  · simp

theorem sub_one_toNat32 (W : BitVec 32) (h : 0 < W.toNat) : (W - 1#32).toNat = W.toNat - 1 := by bv_omega
theorem sub_one_toNat64 (W : BitVec 64) (h : 0 < W.toNat) : (W - 1#64).toNat = W.toNat - 1 := by bv_omega

theorem sbit_lt (a : BitVec 32) (k : Nat) (h : k < 32) : sbit a k = a.getLsbD k := by simp [sbit, h]
theorem sbit_ge (a : BitVec 32) (k : Nat) (h : 32 ≤ k) : sbit a k = a.getLsbD 31 := by
  have : ¬ k < 32 := by omega
  simp [sbit, this]

theorem getLsbD_sshr32 (a : BitVec 32) (s j : Nat) (hj : j < 32) : (a.sshiftRight s).getLsbD j = sbit a (s + j) := by
  rw [BitVec.getLsbD_sshiftRight, BitVec.msb_eq_getLsbD_last]
  have : ¬ 32 ≤ j := by omega
  simp [sbit, this]

theorem getLsbD_sext64 (a : BitVec 32) (k : Nat) (hk : k < 64) : (a.signExtend 64).getLsbD k = sbit a k := by
  rw [BitVec.getLsbD_signExtend, BitVec.msb_eq_getLsbD_last]
  simp [sbit, hk]

/-- the GCN3 handler's mask / sign-extend sequence computes the signed bit-field extract -/
theorem bfeI_gcn3 (a : BitVec 32) (ofs : Nat) (W : BitVec 32) (ho : ofs < 32) :
    (if ((BitVec.ult 0#32 W && BitVec.ult W 32#32) &&
          ((((a.sshiftRight ofs) &&& ((1#32 <<< W.toNat) - 1#32)) &&& (1#32 <<< (W - 1#32).toNat)) != 0#32)) = true
     then ((a.sshiftRight ofs) &&& ((1#32 <<< W.toNat) - 1#32)) ||| ~~~((1#32 <<< W.toNat) - 1#32)
     else (a.sshiftRight ofs) &&& ((1#32 <<< W.toNat) - 1#32)) = bfeI a ofs W.toNat := by
  generalize hw : W.toNat = w
  have hlt : (BitVec.ult 0#32 W && BitVec.ult W 32#32) = (decide (0 < w) && decide (w < 32)) := by
    rw [← hw]
    apply Bool.eq_iff_iff.mpr
    simp only [Bool.and_eq_true, ult_iff, decide_eq_true_eq, BitVec.lt_def, BitVec.toNat_ofNat]
  rw [hlt]
  apply BitVec.eq_of_getLsbD_eq
  intro j hj
  rw [getLsbD_bfeI a ofs w j ho hj]
  have hbits : ∀ k, k < 32 → ((a.sshiftRight ofs) &&& ((1#32 <<< w) - 1#32)).getLsbD k = (sbit a (ofs + k) && decide (k < w)) := by
    intro k hk
    simp only [BitVec.getLsbD_and, getLsbD_mask, getLsbD_sshr32 a ofs k hk, hk, decide_true, Bool.true_and]
  by_cases hw0 : w = 0
  · subst hw0
    simp [hbits j hj]
  have hwpos : 0 < w := by omega
  by_cases hw32 : w < 32
  · rw [sub_one_toNat32 W (by omega), hw, and_onebit _ _ (by omega), hbits (w - 1) (by omega)]
    simp only [hwpos, hw32, decide_true, Bool.true_and, show w - 1 < w by omega, Bool.and_true]
    by_cases hjw : j < w
    · have hm : min j (w - 1) = j := by omega
      split <;> simp only [BitVec.getLsbD_or, BitVec.getLsbD_not, getLsbD_mask, hbits j hj, hj, hjw, hm, decide_true, Bool.and_true, Bool.true_and, Bool.not_true, Bool.or_false]
    · have hm : min j (w - 1) = w - 1 := by omega
      split <;> rename_i hsb <;> simp only [BitVec.getLsbD_or, BitVec.getLsbD_not, getLsbD_mask, hbits j hj, hj, hjw, hm, decide_true, decide_false, Bool.and_false, Bool.and_true, Bool.true_and, Bool.not_false, Bool.or_true, Bool.false_or] <;> simp_all
  · have hjw : j < w := by omega
    have hm : min j (w - 1) = j := by omega
    simp only [hw32, hwpos, decide_true, decide_false, Bool.and_false, Bool.false_and, Bool.false_eq_true, if_false, hbits j hj, hjw, hm, Bool.and_true, Bool.true_and]

theorem extract_0_4 (b : BitVec 32) : (Go.extractBitsU32 b 0#64 4#64).toNat = b.toNat % 32 := by
  have hm : (((1#32 <<< (4#64 - 0#64 + 1#64).toNat) - 1#32) <<< 0) = 31#32 := by decide
  have h0 : (0#64).toNat = 0 := by decide
  simp only [Go.extractBitsU32, hm, h0, BitVec.ushiftRight_zero, and31_toNat']

theorem extract_16_22 (b : BitVec 32) : (Go.extractBitsU32 b 16#64 22#64).toNat = b.toNat / 65536 % 128 := by
  have hm : (((1#32 <<< (22#64 - 16#64 + 1#64).toNat) - 1#32) <<< 16) = 8323072#32 := by decide
  have h0 : (16#64).toNat = 16 := by decide
  simp only [Go.extractBitsU32, hm, h0, BitVec.toNat_ushiftRight, BitVec.toNat_and, BitVec.toNat_ofNat]
  rw [Nat.shiftRight_and_distrib, show (8323072 % 2 ^ 32) >>> 16 = 2 ^ 7 - 1 by decide, Nat.and_two_pow_sub_one_eq_mod,
    Nat.shiftRight_eq_div_pow]


theorem beq_zero64 (x : BitVec 64) : (x == 0#64) = decide (x.toNat = 0) := by
  apply Bool.eq_iff_iff.mpr
  simp only [beq_iff_eq, decide_eq_true_eq]
  constructor
  · intro h; subst h; rfl
  · intro h; apply BitVec.eq_of_toNat_eq; simpa using h

/-- the CDNA3 handler's shift-and-mask on the zero-extended source is the unsigned bit-field extract -/
theorem bfeU_cdna3 (a : BitVec 32) (ofs w : Nat) :
    (a.setWidth 64 >>> ofs) &&& ((1#64 <<< w) - 1#64) =
      (BitVec.ofNat 32 ((a.toNat / 2 ^ ofs) % 2 ^ w)).setWidth 64 := by
  apply BitVec.eq_of_getLsbD_eq
  intro j hj
  simp only [BitVec.getLsbD_and, BitVec.getLsbD_ushiftRight, BitVec.getLsbD_setWidth, getLsbD_mask, BitVec.getLsbD_ofNat,
    Nat.testBit_mod_two_pow, Nat.testBit_div_two_pow, BitVec.testBit_toNat, hj, decide_true, Bool.true_and]
  rw [Nat.add_comm j ofs]
  by_cases h32 : ofs + j < 32
  · have h1 : j < 32 := by omega
    have h2 : ofs + j < 64 := by omega
    simp only [h1, h2, decide_true, Bool.true_and, Bool.and_comm]
  · have : a.getLsbD (ofs + j) = false := BitVec.getLsbD_of_ge _ _ (by omega)
    simp only [this, Bool.and_false, Bool.false_and]

theorem sbit_ge31 (a : BitVec 32) (k : Nat) (h : 31 ≤ k) : sbit a k = a.getLsbD 31 := by
  by_cases h' : k = 31
  · subst h'; simp [sbit]
  · exact sbit_ge a k (by omega)

theorem getLsbD_sext64' (a : BitVec 32) (k : Nat) : (a.signExtend 64).getLsbD k = (decide (k < 64) && sbit a k) := by
  by_cases hk : k < 64
  · rw [getLsbD_sext64 a k hk]; simp [hk]
  · simp [hk, BitVec.getLsbD_of_ge _ _ (show 64 ≤ k by omega)]

/-- a 64-bit value whose upper half is set only if bit 31 is set is zero iff its low dword is -/
theorem ne_zero_trunc (D : BitVec 64)
    (h : ∀ k, 32 ≤ k → k < 64 → D.getLsbD k = true → D.getLsbD 31 = true) :
    (D != 0#64) = (D.setWidth 32 != 0#32) := by
  apply Bool.eq_iff_iff.mpr
  simp only [bne_iff_ne, ne_eq]
  apply not_congr
  constructor
  · intro h0; subst h0; rfl
  · intro h0
    apply BitVec.eq_of_getLsbD_eq
    intro k hk
    have hlow : ∀ m, m < 32 → D.getLsbD m = false := by
      intro m hm
      have := congrArg (fun v => BitVec.getLsbD v m) h0
      simpa [BitVec.getLsbD_setWidth, hm] using this
    rw [BitVec.getLsbD_zero]
    by_cases hk32 : k < 32
    · exact hlow k hk32
    · cases hb : D.getLsbD k with
      | false => rfl
      | true =>
        have := h k (by omega) hk hb
        rw [hlow 31 (by decide)] at this
        exact this.symm

/-- the `if dst != 0 { SetSCC(1) } else { SetSCC(0) }` tail of a handler that keeps a 64-bit result -/
def sccOf64 (d : BitVec 64) : ScalarOut :=
  if d != 0#64 then { dst := some d, scc := some 1#8, vcc := none, exec := none, pc := none }
  else { dst := some d, scc := some 0#8, vcc := none, exec := none, pc := none }

theorem sccOf64_ite (d : BitVec 64) :
    (if (d != 0#64) = true then
      ({ dst := some d, scc := some 1#8, vcc := none, exec := none, pc := none } : ScalarOut)
     else { dst := some d, scc := some 0#8, vcc := none, exec := none, pc := none }) = sccOf64 d := rfl

theorem norm_sccOf64 (d : BitVec 64) : (sccOf64 d).norm 32 = Spec.ret32 (d.setWidth 32) (d != 0#64) := by
  unfold sccOf64
  cases h : (d != 0#64) <;> simp [ScalarOut.norm, keep32, Spec.ret32, Spec.bit, Spec.w32]

theorem bfeI_zero (a : BitVec 32) (ofs : Nat) : bfeI a ofs 0 = 0#32 := by simp [bfeI]

/-- the CDNA3 handler's 64-bit extract / sign-fill sequence: its low dword is the signed bit-field
    extract and the 64-bit value is zero exactly when the low dword is -/
theorem bfeI_cdna3 (a : BitVec 32) (ofs w : Nat) (ho : ofs < 32) (hw : 0 < w) :
    ((if (((a.signExtend 64 >>> ofs) &&& ((1#64 <<< w) - 1#64)).getLsbD (w - 1)) = true
      then ((a.signExtend 64 >>> ofs) &&& ((1#64 <<< w) - 1#64)) ||| ~~~((1#64 <<< w) - 1#64)
      else (a.signExtend 64 >>> ofs) &&& ((1#64 <<< w) - 1#64)).setWidth 32 = bfeI a ofs w) ∧
    (((if (((a.signExtend 64 >>> ofs) &&& ((1#64 <<< w) - 1#64)).getLsbD (w - 1)) = true
      then ((a.signExtend 64 >>> ofs) &&& ((1#64 <<< w) - 1#64)) ||| ~~~((1#64 <<< w) - 1#64)
      else (a.signExtend 64 >>> ofs) &&& ((1#64 <<< w) - 1#64)) != 0#64) =
     ((if (((a.signExtend 64 >>> ofs) &&& ((1#64 <<< w) - 1#64)).getLsbD (w - 1)) = true
      then ((a.signExtend 64 >>> ofs) &&& ((1#64 <<< w) - 1#64)) ||| ~~~((1#64 <<< w) - 1#64)
      else (a.signExtend 64 >>> ofs) &&& ((1#64 <<< w) - 1#64)).setWidth 32 != 0#32)) := by
  generalize he : (a.signExtend 64 >>> ofs) &&& ((1#64 <<< w) - 1#64) = e
  have hbits : ∀ k, e.getLsbD k = (decide (ofs + k < 64) && sbit a (ofs + k) && (decide (k < 64) && decide (k < w))) := by
    intro k
    rw [← he]
    simp only [BitVec.getLsbD_and, BitVec.getLsbD_ushiftRight, getLsbD_sext64', getLsbD_mask]
  have hD : ∀ k, k < 64 → (if e.getLsbD (w - 1) = true then e ||| ~~~((1#64 <<< w) - 1#64) else e).getLsbD k =
      (if e.getLsbD (w - 1) = true then (e.getLsbD k || !decide (k < w)) else e.getLsbD k) := by
    intro k hk
    split <;> simp only [BitVec.getLsbD_or, BitVec.getLsbD_not, getLsbD_mask, hk, decide_true, Bool.true_and]
  constructor
  · apply BitVec.eq_of_getLsbD_eq
    intro j hj
    rw [BitVec.getLsbD_setWidth, hD j (by omega), getLsbD_bfeI a ofs w j ho hj]
    simp only [hj, hw, decide_true, Bool.true_and]
    by_cases hjw : j < w
    · have hm : min j (w - 1) = j := by omega
      have h1 : ofs + j < 64 := by omega
      have h3 : j < 64 := by omega
      simp only [hbits j, hjw, h3, hm, h1, decide_true, Bool.and_true, Bool.true_and, Bool.not_true, Bool.or_false, ite_self]
    · have hm : min j (w - 1) = w - 1 := by omega
      have h1 : ofs + (w - 1) < 64 := by omega
      have h2 : w - 1 < w := by omega
      have h3 : j < 64 := by omega
      have h4 : w - 1 < 64 := by omega
      simp only [hbits j, hbits (w - 1), h3, h4, hjw, hm, h1, h2, decide_true, decide_false, Bool.and_true, Bool.true_and,
        Bool.and_false, Bool.not_false, Bool.or_true, Bool.false_or]
      cases sbit a (ofs + (w - 1)) <;> simp
  · apply ne_zero_trunc
    intro k hk32 hk64
    rw [hD k hk64, hD 31 (by decide), hbits k, hbits 31, hbits (w - 1)]
    have h31 : ofs + 31 < 64 := by omega
    have h31' : 31 < 64 := by decide
    have hs31 : sbit a (ofs + 31) = a.getLsbD 31 := sbit_ge31 a _ (by omega)
    have hsk : sbit a (ofs + k) = a.getLsbD 31 := sbit_ge31 a _ (by omega)
    simp only [h31, h31', hk64, hs31, hsk, decide_true, Bool.true_and, show w - 1 < w by omega, Bool.and_true]
    by_cases hw32 : w ≤ 31
    · have : ¬ 31 < w := by omega
      have : ¬ k < w := by omega
      have : w - 1 < 64 := by omega
      cases hsb : (decide (ofs + (w - 1) < 64) && sbit a (ofs + (w - 1))) <;> simp [*]
    · have hsw : sbit a (ofs + (w - 1)) = a.getLsbD 31 := sbit_ge31 a _ (by omega)
      have : 31 < w := by omega
      rw [hsw]
      cases a.getLsbD 31 <;> simp [*]

theorem and_onebit' (x : BitVec 32) (k : Nat) (hk : k < 32) : ((x &&& (1#32 <<< k)) != 0#32) = x.getLsbD k := by
  rw [← BitVec.twoPow_eq, BitVec.and_twoPow]
  cases x.getLsbD k
  · simp
  · have : BitVec.twoPow 32 k ≠ 0#32 := by
      intro h
      have := congrArg BitVec.toNat h
      rw [BitVec.toNat_twoPow_of_lt hk] at this
      have : 0 < 2 ^ k := Nat.pow_pos (by decide)
      simp only [BitVec.toNat_ofNat, Nat.zero_mod] at *
      omega
    simp [this]

theorem getLsbD_one_shl (k j : Nat) : (1#32 <<< k).getLsbD j = (decide (k < 32) && decide (k = j)) := by
  rw [← BitVec.twoPow_eq, BitVec.getLsbD_twoPow]

theorem gcn3_brev_term (src : BitVec 32) (n j : Nat) (hn : n < 32) (hj : j < 32) :
    ((((src &&& (1#32 <<< (31 - n))) >>> (31 - n)) <<< n).getLsbD j) = (decide (j = n) && src.getLsbD (31 - n)) := by
  simp only [BitVec.getLsbD_shiftLeft, BitVec.getLsbD_ushiftRight, BitVec.getLsbD_and, getLsbD_one_shl, hj, decide_true, Bool.true_and]
  by_cases h : j = n
  · subst h
    have h1 : ¬ j < j := by omega
    have h2 : 31 - j < 32 := by omega
    simp [h1, h2]
  · by_cases h' : j < n
    · simp [h, h']
    · simp [h]
      intros; omega

theorem gcn3_brevLoop_bits (src : BitVec 32) (n : Nat) (hn : n ≤ 32) (j : Nat) (hj : j < 32) :
    (Hand.gcn3.brevLoop src n).getLsbD j = (decide (j < n) && src.getLsbD (31 - j)) := by
  induction n with
  | zero => simp [Hand.gcn3.brevLoop]
  | succ n ih =>
    have ih' := ih (by omega)
    unfold Hand.gcn3.brevLoop at ih' ⊢
    rw [List.range_succ, List.foldl_append]
    simp only [List.foldl_cons, List.foldl_nil, BitVec.getLsbD_or, ih', gcn3_brev_term src n j (by omega) hj]
    by_cases h : j = n
    · subst h; simp
    · by_cases h' : j < n
      · have : j < n + 1 := by omega
        simp [h, h', this]
      · have : ¬ j < n + 1 := by omega
        simp [h, h', this]

theorem gcn3_brevLoop_eq (src : BitVec 32) : Hand.gcn3.brevLoop src 32 = src.reverse := by
  apply BitVec.eq_of_getLsbD_eq
  intro j hj
  rw [gcn3_brevLoop_bits src 32 (by decide) j hj, BitVec.getLsbD_reverse, BitVec.getMsbD_eq_getLsbD]

theorem cdna3_brevLoop_bits (src : BitVec 32) (n : Nat) (hn : n ≤ 32) (j : Nat) (hj : j < 32) :
    (Hand.cdna3.brevLoop src n).getLsbD j = (decide (31 - j < n) && src.getLsbD (31 - j)) := by
  induction n with
  | zero => simp [Hand.cdna3.brevLoop]
  | succ n ih =>
    have ih' := ih (by omega)
    unfold Hand.cdna3.brevLoop at ih' ⊢
    rw [List.range_succ, List.foldl_append]
    simp only [List.foldl_cons, List.foldl_nil]
    rw [and_onebit' src n (by omega)]
    by_cases hb : src.getLsbD n = true
    · simp only [hb, if_true, BitVec.getLsbD_or, ih', getLsbD_one_shl]
      by_cases h : 31 - n = j
      · have h1 : 31 - j = n := by omega
        have h2 : 31 - n < 32 := by omega
        simp [h, h1, h2, hb, hj]
      · have h2 : ¬ (31 - j = n) := by omega
        by_cases h' : 31 - j < n
        · have : 31 - j < n + 1 := by omega
          simp [h, h', this]
        · have : ¬ 31 - j < n + 1 := by omega
          simp [h, h', this]
    · simp only [hb, if_false, ih', Bool.false_eq_true]
      by_cases h : 31 - j = n
      · have : src.getLsbD (31 - j) = false := by rw [h]; simpa using hb
        simp [this]
      · by_cases h' : 31 - j < n
        · have : 31 - j < n + 1 := by omega
          simp [h', this]
        · have : ¬ 31 - j < n + 1 := by omega
          simp [h', this]

theorem cdna3_brevLoop_eq (src : BitVec 32) : Hand.cdna3.brevLoop src 32 = src.reverse := by
  apply BitVec.eq_of_getLsbD_eq
  intro j hj
  have : 31 - j < 32 := by omega
  rw [cdna3_brevLoop_bits src 32 (by decide) j hj, BitVec.getLsbD_reverse, BitVec.getMsbD_eq_getLsbD]
  simp [this, hj]

end C03S
