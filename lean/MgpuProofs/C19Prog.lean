import MgpuProofs.C19Meas
/-! Helper lemmas for C19 (progress): every honest move except a submission does not increase the
    progress measure of the system and decreases it when it is productive. -/
namespace C19

theorem nil_of_mod_none {α : Type} (l : List α) (j : Nat) (h : l[j % l.length]? = none) : l = [] := by
  cases l with
  | nil => rfl
  | cons x l =>
    rw [List.getElem?_eq_none_iff] at h
    have := Nat.mod_lt j (show 0 < (x :: l).length by simp)
    omega

def MDec (s : Sys) (o : Op) : Prop :=
  measure (step s o).1 ≤ measure s ∧ (productive s o = true → measure (step s o).1 < measure s)

theorem mdec_tick0 (s : Sys) : MDec s (.tick 0) := by
  obtain ⟨t1, t2⟩ := tick_measure s.p0
  have e : measure (step s (.tick 0)).1 = measure { s with p0 := (tick s.p0).1 } := by
    unfold step
    simp only [Sys.pmc, Sys.setPmc]
    split <;> simp [measure]
  have pr : productive s (.tick 0) = (tick s.p0).2 := by simp [productive, Sys.pmc]
  unfold MDec
  rw [e, pr]
  simp only [measure]
  exact ⟨by omega, fun h => by have := t2 h; omega⟩

theorem mdec_ctl0 (s : Sys) : MDec s (.ctl 0) := by
  unfold MDec
  cases hq : s.cq0 with
  | nil =>
    have e : (step s (.ctl 0)).1 = s := by unfold step; simp [Sys.cq, hq]
    rw [e]; simp [productive, Sys.cq, hq]
  | cons c rest =>
    by_cases hroom : s.p0.ctlIn.length < 1
    · have e : (step s (.ctl 0)).1 = { s with p0 := { s.p0 with ctlIn := s.p0.ctlIn ++ [c] }, cq0 := rest } := by
        unfold step; simp [Sys.cq, Sys.pmc, Sys.setPmc, Sys.setCq, hq, hroom]
      rw [e]
      simp only [measure, pmcMeasure, hq, sumW_cons, sumW_append, sumW_nil]
      constructor <;> intros <;> omega
    · have e : (step s (.ctl 0)).1 = s := by unfold step; simp [Sys.cq, Sys.pmc, hq, hroom]
      rw [e]; simp [productive, Sys.cq, Sys.pmc, hq, hroom]

theorem mdec_pick0 (s : Sys) : MDec s (.pick 0) := by
  unfold MDec
  cases hq : s.p0.remOut with
  | nil =>
    have e : (step s (.pick 0)).1 = s := by unfold step; simp [Sys.pmc, hq]
    rw [e]; simp [productive, Sys.pmc, hq]
  | cons m rest =>
    have e : (step s (.pick 0)).1 = { s with p0 := { s.p0 with remOut := rest }, net := s.net ++ [m] } := by
      unfold step; simp [Sys.pmc, Sys.setPmc, hq]
    rw [e]
    have : wNet m < wRemOut m := by cases m <;> simp [wNet, wRemOut]
    simp only [measure, pmcMeasure, hq, sumW_cons, sumW_append, sumW_nil]
    constructor <;> intros <;> omega

theorem mdec_mtake0 (s : Sys) : MDec s (.mtake 0) := by
  unfold MDec
  cases hq : s.p0.memOut with
  | nil =>
    have e : (step s (.mtake 0)).1 = s := by unfold step; simp [Sys.pmc, hq]
    rw [e]; simp [productive, Sys.pmc, hq]
  | cons m rest =>
    have e : (step s (.mtake 0)).1 = { s with p0 := { s.p0 with memOut := rest }, mq0 := s.mq0 ++ [m] } := by
      unfold step; simp [Sys.pmc, Sys.setPmc, Sys.mq, Sys.setMq, hq]
    rw [e]
    have : wMq m < wMemOut m := by cases m <;> simp [wMq, wMemOut]
    simp only [measure, pmcMeasure, hq, sumW_cons, sumW_append, sumW_nil]
    constructor <;> intros <;> omega

theorem mdec_mrsp0 (s : Sys) (j : Nat) : MDec s (.mrsp 0 j) := by
  unfold MDec
  cases hm : s.mr0[j % s.mr0.length]? with
  | none =>
    have hnil : s.mr0 = [] := nil_of_mod_none _ _ hm
    have e : (step s (.mrsp 0 j)).1 = s := by unfold step; simp [Sys.mr, hm]
    rw [e]; simp [productive, Sys.mr, hnil]
  | some m =>
    by_cases hroom : s.p0.memIn.length < 1
    · have e : (step s (.mrsp 0 j)).1 = { s with p0 := { s.p0 with memIn := s.p0.memIn ++ [m] }, mr0 := s.mr0.eraseIdx (j % s.mr0.length) } := by
        unfold step; simp [Sys.pmc, Sys.setPmc, Sys.mr, Sys.setMr, removeNth, hm, hroom]
      rw [e]
      have : wMemIn m < wMr m := by cases m <;> simp [wMemIn, wMr]
      have e2 := sumW_eraseIdx wMr s.mr0 _ m hm
      simp only [measure, pmcMeasure, sumW_cons, sumW_append, sumW_nil]
      constructor <;> intros <;> omega
    · have e : (step s (.mrsp 0 j)).1 = s := by unfold step; simp [Sys.pmc, Sys.mr, hm, hroom]
      rw [e]; simp [productive, Sys.pmc, Sys.mr, hroom]

theorem mdec_mdo0 (s : Sys) (j : Nat) (hf : (step s (.mdo 0 j)).1.fault = none) :
    MDec s (.mdo 0 j) := by
  unfold MDec
  cases hm : s.mq0[j % s.mq0.length]? with
  | none =>
    have hnil : s.mq0 = [] := nil_of_mod_none _ _ hm
    have e : (step s (.mdo 0 j)).1 = s := by unfold step; simp [Sys.mq, hm]
    rw [e]; simp [productive, Sys.mq, hnil]
  | some m =>
    have e2 := sumW_eraseIdx wMq s.mq0 _ m hm
    cases m with
    | read id a n =>
      by_cases hle : a + n ≤ s.m0.size
      · have e : (step s (.mdo 0 j)).1 = { s with mq0 := s.mq0.eraseIdx (j % s.mq0.length), mr0 := s.mr0 ++ [.data id (readBytes s.m0 a n)] } := by
          unfold step
          simp [Sys.mq, Sys.setMq, Sys.mr, Sys.setMr, Sys.mem, Sys.setMem, removeNth, hm, perform, hle]
        rw [e]
        simp only [measure, sumW_cons, sumW_append, sumW_nil, wMq, wMr] at e2 ⊢
        constructor <;> intros <;> omega
      · have e : (step s (.mdo 0 j)).1.fault = some "oob" := by
          unfold step
          simp [Sys.mq, Sys.mem, hm, perform, hle]
        rw [e] at hf; cases hf
    | write id a d =>
      by_cases hle : a + d.length ≤ s.m0.size
      · have e : (step s (.mdo 0 j)).1 = { s with m0 := writeBytes s.m0 a d, mq0 := s.mq0.eraseIdx (j % s.mq0.length), mr0 := s.mr0 ++ [.done id] } := by
          unfold step
          simp [Sys.mq, Sys.setMq, Sys.mr, Sys.setMr, Sys.mem, Sys.setMem, removeNth, hm, perform, hle]
        rw [e]
        simp only [measure, sumW_cons, sumW_append, sumW_nil, wMq, wMr] at e2 ⊢
        constructor <;> intros <;> omega
      · have e : (step s (.mdo 0 j)).1.fault = some "oob" := by
          unfold step
          simp [Sys.mq, Sys.mem, hm, perform, hle]
        rw [e] at hf; cases hf

theorem mdec_coll0 (s : Sys) : MDec s (.coll 0) := by
  unfold MDec
  cases hq : s.p0.ctlOut with
  | nil =>
    have e : (step s (.coll 0)).1 = s := by unfold step; simp [Sys.pmc, hq]
    rw [e]; simp [productive, Sys.pmc, hq]
  | cons c rest =>
    have e : (step s (.coll 0)).1 = { s with p0 := { s.p0 with ctlOut := rest }, got0 := s.got0 ++ [c] } := by
      unfold step; simp [Sys.pmc, Sys.setPmc, Sys.got, Sys.setGot, hq]
    rw [e]
    simp only [measure, pmcMeasure, hq, List.length_cons]
    constructor <;> intros <;> omega

theorem mdec_tick1 (s : Sys) : MDec s (.tick 1) := by
  obtain ⟨t1, t2⟩ := tick_measure s.p1
  have e : measure (step s (.tick 1)).1 = measure { s with p1 := (tick s.p1).1 } := by
    unfold step
    simp only [Sys.pmc, Sys.setPmc]
    split <;> simp [measure]
  have pr : productive s (.tick 1) = (tick s.p1).2 := by simp [productive, Sys.pmc]
  unfold MDec
  rw [e, pr]
  simp only [measure]
  exact ⟨by omega, fun h => by have := t2 h; omega⟩

theorem mdec_ctl1 (s : Sys) : MDec s (.ctl 1) := by
  unfold MDec
  cases hq : s.cq1 with
  | nil =>
    have e : (step s (.ctl 1)).1 = s := by unfold step; simp [Sys.cq, hq]
    rw [e]; simp [productive, Sys.cq, hq]
  | cons c rest =>
    by_cases hroom : s.p1.ctlIn.length < 1
    · have e : (step s (.ctl 1)).1 = { s with p1 := { s.p1 with ctlIn := s.p1.ctlIn ++ [c] }, cq1 := rest } := by
        unfold step; simp [Sys.cq, Sys.pmc, Sys.setPmc, Sys.setCq, hq, hroom]
      rw [e]
      simp only [measure, pmcMeasure, hq, sumW_cons, sumW_append, sumW_nil]
      constructor <;> intros <;> omega
    · have e : (step s (.ctl 1)).1 = s := by unfold step; simp [Sys.cq, Sys.pmc, hq, hroom]
      rw [e]; simp [productive, Sys.cq, Sys.pmc, hq, hroom]

theorem mdec_pick1 (s : Sys) : MDec s (.pick 1) := by
  unfold MDec
  cases hq : s.p1.remOut with
  | nil =>
    have e : (step s (.pick 1)).1 = s := by unfold step; simp [Sys.pmc, hq]
    rw [e]; simp [productive, Sys.pmc, hq]
  | cons m rest =>
    have e : (step s (.pick 1)).1 = { s with p1 := { s.p1 with remOut := rest }, net := s.net ++ [m] } := by
      unfold step; simp [Sys.pmc, Sys.setPmc, hq]
    rw [e]
    have : wNet m < wRemOut m := by cases m <;> simp [wNet, wRemOut]
    simp only [measure, pmcMeasure, hq, sumW_cons, sumW_append, sumW_nil]
    constructor <;> intros <;> omega

theorem mdec_mtake1 (s : Sys) : MDec s (.mtake 1) := by
  unfold MDec
  cases hq : s.p1.memOut with
  | nil =>
    have e : (step s (.mtake 1)).1 = s := by unfold step; simp [Sys.pmc, hq]
    rw [e]; simp [productive, Sys.pmc, hq]
  | cons m rest =>
    have e : (step s (.mtake 1)).1 = { s with p1 := { s.p1 with memOut := rest }, mq1 := s.mq1 ++ [m] } := by
      unfold step; simp [Sys.pmc, Sys.setPmc, Sys.mq, Sys.setMq, hq]
    rw [e]
    have : wMq m < wMemOut m := by cases m <;> simp [wMq, wMemOut]
    simp only [measure, pmcMeasure, hq, sumW_cons, sumW_append, sumW_nil]
    constructor <;> intros <;> omega

theorem mdec_mrsp1 (s : Sys) (j : Nat) : MDec s (.mrsp 1 j) := by
  unfold MDec
  cases hm : s.mr1[j % s.mr1.length]? with
  | none =>
    have hnil : s.mr1 = [] := nil_of_mod_none _ _ hm
    have e : (step s (.mrsp 1 j)).1 = s := by unfold step; simp [Sys.mr, hm]
    rw [e]; simp [productive, Sys.mr, hnil]
  | some m =>
    by_cases hroom : s.p1.memIn.length < 1
    · have e : (step s (.mrsp 1 j)).1 = { s with p1 := { s.p1 with memIn := s.p1.memIn ++ [m] }, mr1 := s.mr1.eraseIdx (j % s.mr1.length) } := by
        unfold step; simp [Sys.pmc, Sys.setPmc, Sys.mr, Sys.setMr, removeNth, hm, hroom]
      rw [e]
      have : wMemIn m < wMr m := by cases m <;> simp [wMemIn, wMr]
      have e2 := sumW_eraseIdx wMr s.mr1 _ m hm
      simp only [measure, pmcMeasure, sumW_cons, sumW_append, sumW_nil]
      constructor <;> intros <;> omega
    · have e : (step s (.mrsp 1 j)).1 = s := by unfold step; simp [Sys.pmc, Sys.mr, hm, hroom]
      rw [e]; simp [productive, Sys.pmc, Sys.mr, hroom]

theorem mdec_mdo1 (s : Sys) (j : Nat) (hf : (step s (.mdo 1 j)).1.fault = none) :
    MDec s (.mdo 1 j) := by
  unfold MDec
  cases hm : s.mq1[j % s.mq1.length]? with
  | none =>
    have hnil : s.mq1 = [] := nil_of_mod_none _ _ hm
    have e : (step s (.mdo 1 j)).1 = s := by unfold step; simp [Sys.mq, hm]
    rw [e]; simp [productive, Sys.mq, hnil]
  | some m =>
    have e2 := sumW_eraseIdx wMq s.mq1 _ m hm
    cases m with
    | read id a n =>
      by_cases hle : a + n ≤ s.m1.size
      · have e : (step s (.mdo 1 j)).1 = { s with mq1 := s.mq1.eraseIdx (j % s.mq1.length), mr1 := s.mr1 ++ [.data id (readBytes s.m1 a n)] } := by
          unfold step
          simp [Sys.mq, Sys.setMq, Sys.mr, Sys.setMr, Sys.mem, Sys.setMem, removeNth, hm, perform, hle]
        rw [e]
        simp only [measure, sumW_cons, sumW_append, sumW_nil, wMq, wMr] at e2 ⊢
        constructor <;> intros <;> omega
      · have e : (step s (.mdo 1 j)).1.fault = some "oob" := by
          unfold step
          simp [Sys.mq, Sys.mem, hm, perform, hle]
        rw [e] at hf; cases hf
    | write id a d =>
      by_cases hle : a + d.length ≤ s.m1.size
      · have e : (step s (.mdo 1 j)).1 = { s with m1 := writeBytes s.m1 a d, mq1 := s.mq1.eraseIdx (j % s.mq1.length), mr1 := s.mr1 ++ [.done id] } := by
          unfold step
          simp [Sys.mq, Sys.setMq, Sys.mr, Sys.setMr, Sys.mem, Sys.setMem, removeNth, hm, perform, hle]
        rw [e]
        simp only [measure, sumW_cons, sumW_append, sumW_nil, wMq, wMr] at e2 ⊢
        constructor <;> intros <;> omega
      · have e : (step s (.mdo 1 j)).1.fault = some "oob" := by
          unfold step
          simp [Sys.mq, Sys.mem, hm, perform, hle]
        rw [e] at hf; cases hf

theorem mdec_coll1 (s : Sys) : MDec s (.coll 1) := by
  unfold MDec
  cases hq : s.p1.ctlOut with
  | nil =>
    have e : (step s (.coll 1)).1 = s := by unfold step; simp [Sys.pmc, hq]
    rw [e]; simp [productive, Sys.pmc, hq]
  | cons c rest =>
    have e : (step s (.coll 1)).1 = { s with p1 := { s.p1 with ctlOut := rest }, got1 := s.got1 ++ [c] } := by
      unfold step; simp [Sys.pmc, Sys.setPmc, Sys.got, Sys.setGot, hq]
    rw [e]
    simp only [measure, pmcMeasure, hq, List.length_cons]
    constructor <;> intros <;> omega

theorem mdec_dnet (s : Sys) (j : Nat) : MDec s (.dnet j) := by
  unfold MDec
  cases hm : s.net[j % s.net.length]? with
  | none =>
    have e : (step s (.dnet j)).1 = s := by unfold step; simp [hm]
    rw [e]; simp [productive, hm]
  | some m =>
    have hw : wRemIn m < wNet m := by cases m <;> simp [wRemIn, wNet]
    have e2 := sumW_eraseIdx wNet s.net _ m hm
    by_cases hd : dstOf m = 0
    · by_cases hroom : s.p0.remIn.length < 1
      · have e : (step s (.dnet j)).1 = { s with p0 := { s.p0 with remIn := s.p0.remIn ++ [m] }, net := s.net.eraseIdx (j % s.net.length) } := by
          unfold step; simp [Sys.pmc, Sys.setPmc, removeNth, hm, hd, hroom]
        rw [e]
        simp only [measure, pmcMeasure, sumW_cons, sumW_append, sumW_nil]
        constructor <;> intros <;> omega
      · have e : (step s (.dnet j)).1 = s := by unfold step; simp [Sys.pmc, hm, hd, hroom]
        rw [e]; simp [productive, Sys.pmc, hm, hd, hroom]
    · by_cases hroom : s.p1.remIn.length < 1
      · have e : (step s (.dnet j)).1 = { s with p1 := { s.p1 with remIn := s.p1.remIn ++ [m] }, net := s.net.eraseIdx (j % s.net.length) } := by
          unfold step; simp [Sys.pmc, Sys.setPmc, removeNth, hm, hd, hroom]
        rw [e]
        simp only [measure, pmcMeasure, sumW_cons, sumW_append, sumW_nil]
        constructor <;> intros <;> omega
      · have e : (step s (.dnet j)).1 = s := by unfold step; simp [Sys.pmc, hm, hd, hroom]
        rw [e]; simp [productive, Sys.pmc, hm, hd, hroom]

/-- the measure never grows under an honest move other than a submission and strictly decreases
    under a productive one (as long as no memory access is out of range) -/
theorem measure_step (s : Sys) (o : Op) (ho : o.honest = true) (hs : o.isSubmit = false)
    (hf : (step s o).1.fault = none) : MDec s o := by
  cases o with
  | tick i =>
    have : i = 0 ∨ i = 1 := by simp [Op.honest] at ho; omega
    rcases this with rfl | rfl
    · exact mdec_tick0 s
    · exact mdec_tick1 s
  | submit i rd wr size peer => simp [Op.isSubmit] at hs
  | ctl i =>
    have : i = 0 ∨ i = 1 := by simp [Op.honest] at ho; omega
    rcases this with rfl | rfl
    · exact mdec_ctl0 s
    · exact mdec_ctl1 s
  | pick i =>
    have : i = 0 ∨ i = 1 := by simp [Op.honest] at ho; omega
    rcases this with rfl | rfl
    · exact mdec_pick0 s
    · exact mdec_pick1 s
  | dnet j => exact mdec_dnet s j
  | mtake i =>
    have : i = 0 ∨ i = 1 := by simp [Op.honest] at ho; omega
    rcases this with rfl | rfl
    · exact mdec_mtake0 s
    · exact mdec_mtake1 s
  | mdo i j =>
    have : i = 0 ∨ i = 1 := by simp [Op.honest] at ho; omega
    rcases this with rfl | rfl
    · exact mdec_mdo0 s j hf
    · exact mdec_mdo1 s j hf
  | mrsp i j =>
    have : i = 0 ∨ i = 1 := by simp [Op.honest] at ho; omega
    rcases this with rfl | rfl
    · exact mdec_mrsp0 s j
    · exact mdec_mrsp1 s j
  | coll i =>
    have : i = 0 ∨ i = 1 := by simp [Op.honest] at ho; omega
    rcases this with rfl | rfl
    · exact mdec_coll0 s
    · exact mdec_coll1 s
  | strayDone i => simp [Op.honest] at ho
  | strayData i => simp [Op.honest] at ho
  | strayRsp i => simp [Op.honest] at ho
  | junkNet i => simp [Op.honest] at ho
  | junkMem i => simp [Op.honest] at ho
  | junkCtl i => simp [Op.honest] at ho

end C19
