import MgpuProofs.C15CuSent
import MgpuProofs.C15Back
/-! # C15 ∘ C14 — `SentOK` of the scalar path is preserved by every event of the compute unit that is legal
for `Lite` (no condition on the responses), hence holds in every legal composed run -/
namespace C15.Cu
open C14.Flush

def SentS (s : C14.Flush.St) : Prop := SentOK s.s s.nextId

theorem SentS_init : SentS C14.Flush.St.init := SentOK.empty 0

theorem SentS.of_eq {s s' : C14.Flush.St} (h : SentS s) (h1 : s'.s = s.s) (h2 : s'.nextId = s.nextId) : SentS s' := by
  unfold SentS; rw [h1, h2]; exact h

theorem sendToCP_sv (c : C14.Flush.Cfg) (s : C14.Flush.St) :
    (sendToCP c s).s = s.s ∧ (sendToCP c s).nextId = s.nextId := by
  unfold sendToCP; split <;> exact ⟨rfl, rfl⟩

theorem procF_sv (s : C14.Flush.St) : (procF s).s = s.s ∧ (procF s).nextId = s.nextId := by
  unfold procF; split <;> exact ⟨rfl, rfl⟩

theorem procV1_nextId (s : C14.Flush.St) : (procV1 s).nextId = s.nextId := by
  unfold procV1
  split
  · rfl
  · simp only; split <;> rfl

theorem procV_nextId (n : Nat) (s : C14.Flush.St) : (procV n s).nextId = s.nextId := by
  induction n generalizing s with
  | zero => rfl
  | succ n ih => exact (ih (procV1 s)).trans (procV1_nextId s)

theorem procCP_nextId (c : C14.Flush.Cfg) (s : C14.Flush.St) : (procCP c s).nextId = s.nextId := by
  unfold procCP; repeat' split
  all_goals rfl

theorem procS_SentS {s : C14.Flush.St} (h : SentS s) : SentS (procS s) := by
  unfold procS
  rcases hinp : s.s.inp with _ | ⟨r, rest⟩
  · exact h
  · simp only
    have hr : SentOK (({ s.s with inp := rest } : Chan).respond r).1 s.nextId := (SentOK.setInp h rest).respond r
    rcases hres : ({ s.s with inp := rest } : Chan).respond r with ⟨ch, _ | e⟩ <;> rw [hres] at hr
    · exact hr
    · exact hr

theorem processInput_SentS (c : C14.Flush.Cfg) {s : C14.Flush.St} (h : SentS s) : SentS (processInput c s) := by
  unfold processInput
  refine SentS.of_eq ?_ (procCP_s c _) (procCP_nextId c _)
  split
  · refine SentS.of_eq (procS_SentS (SentS.of_eq h (procF_sv s).1 (procF_sv s).2)) (procV_s 16 _) (procV_nextId 16 _)
  · exact h

theorem doFlush_SentS (c : C14.Flush.Cfg) {s : C14.Flush.St} (h : LiteM s) (hs : SentS s) : SentS (doFlush c s) := by
  obtain ⟨hp, hsl⟩ := h
  obtain ⟨p1, p2, p3, p4, p5⟩ := hp
  unfold doFlush
  by_cases hfl : s.isFlushing = true
  · have hcase : s.ackPending = false := by
      rcases p5 with h5 | h5 | h5 | h5 | h5 | h5 | h5 | h5 <;> simp_all
    have hreq : s.flushReq = true := by rw [p3]; exact hfl
    simp only [hfl, if_true]
    by_cases hsd : s.isSending = true
    · simp only [hsd, if_true, flushPipeline, reinsert, hreq, p1, Bool.not_true, Bool.false_eq_true, if_false, hcase]
      exact SentOK.reinsertFlush hs
    · have hsd' : s.isSending = false := by simpa using hsd
      simp only [hsd', Bool.false_eq_true, if_false, flushPipeline, hreq, p1, Bool.not_true, hcase]
      exact SentOK.flush hs
  · have hfl' : s.isFlushing = false := by simpa using hfl
    simp only [hfl', Bool.false_eq_true, if_false]
    by_cases hsd : s.isSending = true
    · have hpa : s.isPaused = true := p4 hsd
      simp only [hsd, if_true]
      unfold checkShadow
      split
      · exact hs
      · show SentOK (s.s.drain c.capS) s.nextId
        exact SentOK.drain hs (hsl.unitP hpa) _
    · have hsd' : s.isSending = false := by simpa using hsd
      simp only [hsd', Bool.false_eq_true, if_false]
      exact hs

theorem tick_SentS (c : C14.Flush.Cfg) (hcap : 0 < c.capCP) {s : C14.Flush.St} (h : Lite s) (hs : SentS s) :
    SentS (C14.Flush.tick c s) := by
  unfold C14.Flush.tick
  refine doFlush_SentS c (processInput_LiteM c hcap (sendToCP_LiteM c h.1) ?_) ?_
  · unfold sendToCP; split <;> exact h.2
  · exact processInput_SentS c (SentS.of_eq hs (sendToCP_sv c s).1 (sendToCP_sv c s).2)

theorem step_SentS (c : C14.Flush.Cfg) (hcap : 0 < c.capCP) {s : C14.Flush.St} (h : Lite s) (hs : SentS s)
    (o : C14.Flush.Op) : SentS (C14.Flush.step c s o) := by
  have hnf : s.fault = false := h.1.1.2.1
  unfold C14.Flush.step
  rw [if_neg (by rw [hnf]; decide)]
  cases o with
  | issS w n =>
    simp only [C14.Flush.issS]
    split
    · exact hs
    · exact SentOK.issueQ hs w n
  | issV w n =>
    simp only [C14.Flush.issV]
    split
    · exact hs
    · exact SentOK.mono hs (Nat.le_add_right _ _)
  | fetch w =>
    simp only [C14.Flush.fetch]
    split
    · exact SentOK.mono hs (Nat.le_add_right _ _)
    · exact hs
  | usendS => exact SentOK.usend hs _ _
  | usendV n => exact hs
  | deliver k i g =>
    cases k with
    | f => exact hs
    | s => exact SentOK.deliver hs _ _
    | v => exact hs
    | c => exact hs
  | cpFlush => simp only; split <;> exact hs
  | cpRestart => simp only; split <;> exact hs
  | take k n =>
    cases k with
    | f => exact hs
    | s => exact SentOK.setOut hs _
    | v => exact hs
    | c => exact hs
  | foreign k n =>
    cases k with
    | f => exact hs
    | s => exact SentOK.setOut hs _
    | v => exact hs
    | c => exact hs
  | tick => exact tick_SentS c hcap h hs

theorem cstep_SentS (c : Cfg) (hcap : 0 < c.cu.capCP) (σ : Comp) (e : CEv) (h : Lite σ.cu) (hs : SentS σ.cu) :
    SentS (cstep c σ e).cu := by
  have hcu := cstep_cu c σ e
  rcases ho : cuOp c σ e with _ | o
  · rw [ho] at hcu; simp only at hcu; rw [hcu]; exact hs
  · rw [ho] at hcu; simp only at hcu; rw [hcu]
    exact step_SentS c.cu hcap h hs o

theorem crun_SentS (c : Cfg) (hcap : 0 < c.cu.capCP) (evs : List CEv) (hl : legalRunB c {} evs = true) :
    SentS (crun c evs).cu := by
  have : ∀ (es : List CEv) (σ : Comp), legalRunB c σ es = true → Lite σ.cu → SentS σ.cu →
      SentS (es.foldl (cstep c) σ).cu := by
    intro es
    induction es with
    | nil => intro σ _ _ hs; exact hs
    | cons e es ih =>
      intro σ hl hL hs
      simp only [legalRunB, Bool.and_eq_true] at hl
      exact ih (cstep c σ e) hl.2 (cstep_Lite c hcap σ e hl.1 hL) (cstep_SentS c hcap σ e hL hs)
  exact this evs {} hl Lite_init SentS_init

end C15.Cu
