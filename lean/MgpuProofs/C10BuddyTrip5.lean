import MgpuProofs.C10BuddyFull
/-!
Buddy allocator — round trip, part 5: covering by leaves, bit indices, the collapse of a tree without used nodes.
-/
namespace C10.Buddy

theorem leaf_cover_aux {F : Nat} {Fr Sp Mg : Nat → Nat → Prop} (h : AInv F Fr Sp Mg) (base q : Nat) :
    ∀ (d l k : Nat), l + d = F → k < 2 ^ l → Ex Sp l k → addr base F l k ≤ q →
      q < addr base F l k + szl (4096 * 2 ^ F) l →
      ∃ l' k', l' ≤ F ∧ k' < 2 ^ l' ∧ Ex Sp l' k' ∧ ¬ Sp l' k' ∧
        addr base F l' k' ≤ q ∧ q < addr base F l' k' + szl (4096 * 2 ^ F) l' := by
  intro d
  induction d with
  | zero =>
    intro l k hl hk hex h1 h2
    have e : l = F := by omega
    subst e
    exact ⟨l, k, Nat.le_refl _, hk, hex, h.SF k hk, h1, h2⟩
  | succ d ih =>
    intro l k hl hk hex h1 h2
    by_cases hs : Sp l k
    · have hl1 : l + 1 ≤ F := by omega
      have p := pow_succ2 l
      have e1 := szl_succ hl1
      have e2 : addr base F (l + 1) (2 * k) = addr base F l k := addr_child hl1
      have e3 := addr_succ base F (l + 1) (2 * k)
      by_cases hq : q < addr base F l k + szl (4096 * 2 ^ F) (l + 1)
      · refine ih (l + 1) (2 * k) (by omega) (by omega) ?_ (by omega) (by omega)
        intro l' e
        have e' : l' = l := by omega
        subst e'
        rw [show 2 * k / 2 = k by omega]
        exact hs
      · refine ih (l + 1) (2 * k + 1) (by omega) (by omega) ?_ (by omega) (by omega)
        intro l' e
        have e' : l' = l := by omega
        subst e'
        rw [show (2 * k + 1) / 2 = k by omega]
        exact hs
    · exact ⟨l, k, by omega, hk, hex, hs, h1, h2⟩

/-- covering: every page of the device lies in exactly one leaf (existing, non-split node); here: existence -/
theorem leaf_cover {F : Nat} {Fr Sp Mg : Nat → Nat → Prop} (h : AInv F Fr Sp Mg) (base j : Nat) (hj : j < 2 ^ F) :
    ∃ l k, l ≤ F ∧ k < 2 ^ l ∧ Ex Sp l k ∧ ¬ Sp l k ∧
      addr base F l k ≤ base + 4096 * j ∧ base + 4096 * j < addr base F l k + szl (4096 * 2 ^ F) l := by
  have e0 : addr base F 0 0 = base := by simp [addr]
  have e1 : szl (4096 * 2 ^ F) 0 = 4096 * 2 ^ F := by simp [szl]
  refine leaf_cover_aux h base (base + 4096 * j) F 0 0 (by omega) (by simp) ?_ ?_ ?_
  · intro l' e
    omega
  · rw [e0]; omega
  · rw [e0, e1]; omega

/-- every index below 2^F - 1 is the bit index of a node above the finest level -/
theorem exists_ix {F i : Nat} (h : i + 1 < 2 ^ F) : ∃ l k, l < F ∧ k < 2 ^ l ∧ i = ix l k := by
  induction F with
  | zero => simp at h
  | succ F ih =>
    by_cases hc : i + 1 < 2 ^ F
    · obtain ⟨l, k, hl, hk, e⟩ := ih hc
      exact ⟨l, k, by omega, hk, e⟩
    · have p := pow_succ2 F
      refine ⟨F, i + 1 - 2 ^ F, by omega, by omega, ?_⟩
      unfold ix
      omega

/-- a free-list array with one block at level 0 and nothing else is the fresh array -/
theorem free_eq_fresh {free : List (List Nat)} {F base : Nat} (hlen : free.length = F + 1)
    (h0 : lvl free 0 = [base]) (hs : ∀ l, lvl free (l + 1) = []) : free = [base] :: List.replicate F [] := by
  cases free with
  | nil => simp at hlen
  | cons x xs =>
    have hx : x = [base] := by simpa [lvl] using h0
    subst hx
    congr 1
    rw [List.eq_replicate_iff]
    refine ⟨by simpa using hlen, ?_⟩
    intro b hb
    obtain ⟨i, hi, rfl⟩ := List.mem_iff_getElem.mp hb
    have := hs i
    simp only [lvl, List.getD_eq_getElem?_getD, List.getElem?_cons_succ] at this
    rw [List.getElem?_eq_getElem hi] at this
    simpa using this

/-- a duplicate-free list all of whose members equal `a` and which contains `a` is `[a]` -/
theorem eq_singleton_of_nodup {xs : List Nat} {a : Nat} (hn : xs.Nodup) (hm : a ∈ xs) (ha : ∀ x ∈ xs, x = a) :
    xs = [a] := by
  cases xs with
  | nil => cases hm
  | cons x t =>
    have hx : x = a := ha x (by simp)
    subst hx
    cases t with
    | nil => rfl
    | cons y t' =>
      have hy : y = x := ha y (by simp)
      subst hy
      simp at hn

theorem no_split_aux {F : Nat} {Fr Sp Mg : Nat → Nat → Prop} (h : AInv F Fr Sp Mg)
    (hN : ∀ l k, l < F → k < 2 ^ l → Sp l k → ¬ (Fr (l + 1) (2 * k) ∧ Fr (l + 1) (2 * k + 1)))
    (hU : ∀ l k, l ≤ F → k < 2 ^ l → ¬ Used Fr Sp l k) :
    ∀ (d l k : Nat), l + d = F → k < 2 ^ l → ¬ Sp l k := by
  intro d
  induction d with
  | zero =>
    intro l k hl hk
    have e : l = F := by omega
    subst e
    exact h.SF k hk
  | succ d ih =>
    intro l k hl hk hs
    have p := pow_succ2 l
    have hfree : ∀ c, c < 2 ^ (l + 1) → c / 2 = k → Fr (l + 1) c := by
      intro c hc hck
      have ns := ih (l + 1) c (by omega) hc
      have nu := hU (l + 1) c (by omega) hc
      apply Classical.byContradiction
      intro nf
      apply nu
      refine ⟨?_, ns, nf⟩
      intro l' e
      have e' : l' = l := by omega
      subst e'
      rw [hck]
      exact hs
    exact hN l k (by omega) hk hs ⟨hfree (2 * k) (by omega) (by omega), hfree (2 * k + 1) (by omega) (by omega)⟩

/-- no used node, no two free siblings under a split parent ⇒ the tree is the single free root -/
theorem tree_collapse {F : Nat} {Fr Sp Mg : Nat → Nat → Prop} (h : AInv F Fr Sp Mg)
    (hN : ∀ l k, l < F → k < 2 ^ l → Sp l k → ¬ (Fr (l + 1) (2 * k) ∧ Fr (l + 1) (2 * k + 1)))
    (hU : ∀ l k, l ≤ F → k < 2 ^ l → ¬ Used Fr Sp l k) :
    (∀ l k, l ≤ F → k < 2 ^ l → ¬ Sp l k) ∧ Fr 0 0 ∧ (∀ l k, l + 1 ≤ F → k < 2 ^ (l + 1) → ¬ Fr (l + 1) k) ∧
    (∀ l k, l < F → k < 2 ^ l → ¬ Mg l k) := by
  have hns : ∀ l k, l ≤ F → k < 2 ^ l → ¬ Sp l k := by
    intro l k hl hk
    exact no_split_aux h hN hU (F - l) l k (by omega) hk
  refine ⟨hns, ?_, ?_, ?_⟩
  · apply Classical.byContradiction
    intro nf
    refine hU 0 0 (by omega) (by simp) ⟨?_, hns 0 0 (by omega) (by simp), nf⟩
    intro l' e
    omega
  · intro l k hl hk hf
    have p := pow_succ2 l
    have := (h.A (l + 1) k hl hk hf).1 l rfl
    exact hns l (k / 2) (by omega) (by omega) this
  · intro l k hl hk hm
    exact hns l k (by omega) hk ((h.C l k hl hk).mp hm).1

end C10.Buddy
