import MgpuProofs.C20_Quiesce
/-! # C20 — exclusive hand-out at the device and SM layers, free lists without duplicates,
    counters never underflow and stay below explicit bounds -/
namespace C20

variable {α : Type}

/-- a child that has a unit in its inbox is in no other place -/
theorem LInv1.inbox_exclusive {l : Level α} {n : Nat} {b : Nat → Nat} (h : LInv1 l n b) (j : Nat) (hj : j < n)
    (hne : get l.cIn j ≠ []) :
    (get l.cIn j).length = 1 ∧ b j = 0 ∧ j ∉ l.free ∧ get l.cOut j = 0 ∧ j ∉ l.pIn ∧
      j ∉ l.pOut.map Prod.fst := by
  have ho := h.occ1 j hj
  simp only [occ] at ho
  have hl : 0 < (get l.cIn j).length := List.length_pos_iff.2 hne
  refine ⟨by omega, by omega, ?_, by omega, ?_, ?_⟩
  · exact List.count_eq_zero.1 (by omega)
  · exact List.count_eq_zero.1 (by omega)
  · exact List.count_eq_zero.1 (by omega)

theorem LInv1.free_nodup {l : Level α} {n : Nat} {b : Nat → Nat} (h : LInv1 l n b) : l.free.Nodup := by
  rw [List.nodup_iff_count]
  intro a
  by_cases ha : a < n
  · exact h.free_count_le a ha
  · have : l.free.count a = 0 := List.count_eq_zero.2 (fun hm => ha (h.freeLt a hm))
    omega

theorem LInv1.free_length_le {l : Level α} {n : Nat} {b : Nat → Nat} (h : LInv1 l n b) : l.free.length ≤ n := by
  rw [length_eq_csum l.free n h.freeLt]
  exact csum_le _ _ (fun j hj => h.free_count_le j hj)

/-- an idle parent (nothing unfinished) has nothing undispatched and every child in its free list -/
theorem LInv1.idle_parent {l : Level α} {n : Nat} {b : Nat → Nat} (h : LInv1 l n b) (hu : l.unfin = 0) :
    l.undisp = [] ∧ l.free.length = n := by
  have := h.counted
  have := h.free_length_le
  refine ⟨List.eq_nil_of_length_eq_zero (by omega), by omega⟩

/-- the unfinished count never exceeds undispatched + children -/
theorem LInv1.unfin_le {l : Level α} {n : Nat} {b : Nat → Nat} (h : LInv1 l n b) :
    l.unfin ≤ l.undisp.length + n := by
  have := h.counted
  omega

/-! ## the potential never grows along an in-range run -/

theorem phi_run_le_gen (s : Sys) (evs : List Ev) (hl : s.legacy = false) (i : Inv1 s)
    (hr : ∀ e ∈ evs, e.InRange s.G s.S s.C) : Phi (run s evs) ≤ Phi s := by
  induction evs generalizing s with
  | nil => exact Nat.le_refl _
  | cons e evs ih =>
    have hsh := shape_step s e
    have h1 := phi_step_le s e hl i.noGhost (hr e (List.mem_cons_self ..))
    have h2 := ih (step s e) (hsh.legacy.trans hl) (inv1_step' s e hl i)
      (by intro e' he'; rw [hsh.G, hsh.S, hsh.C]; exact hr e' (List.mem_cons_of_mem _ he'))
    exact Nat.le_trans h2 h1

theorem phi_run_le (G S C : Nat) (trace : List Kernel) (evs : List Ev) (hr : ∀ e ∈ evs, e.InRange G S C) :
    Phi (run (init false G S C trace) evs) ≤ Phi (init false G S C trace) :=
  phi_run_le_gen _ evs rfl (inv1_init G S C trace) hr

/-! ## one entry of a list is at most the sum -/

theorem get_le_sum {β} [Inhabited β] (f : β → Nat) (h0 : f default = 0) (l : List β) (k : Nat) :
    f (get l k) ≤ sum (l.map f) := by
  induction l generalizing k with
  | nil => rw [get_nil, h0]; exact Nat.zero_le _
  | cons x xs ih =>
    cases k with
    | zero => simp only [get, List.map_cons, sum_cons]; omega
    | succ k => have := ih k; simp only [get, List.map_cons, sum_cons]; omega

theorem length_le_sum_map (w : α → Nat) (hw : ∀ u, 1 ≤ w u) (l : List α) : l.length ≤ sum (l.map w) := by
  induction l with
  | nil => exact Nat.le_refl _
  | cons x xs ih => have := hw x; simp only [List.length_cons, List.map_cons, sum_cons]; omega

open Meas

theorem LPhi_ge_undisp (w : α → Nat) (hw : ∀ u, 1 ≤ w u) (l : Level α) : l.undisp.length ≤ LPhi w l := by
  have := length_le_sum_map w hw l.undisp
  unfold LPhi
  omega

/-- counters of the three layers and of the executors are bounded by the potential -/
theorem phi_bounds (s : Sys) :
    s.l0.undisp.length ≤ Phi s ∧
    (∀ g, (get s.l1 g).undisp.length ≤ Phi s ∧ (get s.gpus g).fin ≤ Phi s) ∧
    (∀ m, (get s.l2 m).undisp.length ≤ Phi s ∧ (get s.sms m).fin ≤ Phi s) ∧
    (∀ u, (get s.subs u).rem ≤ Phi s ∧ (get s.subs u).fin ≤ Phi s) := by
  have a0 := LPhi_ge_undisp wK (fun k => by have := wK_ge k; omega) s.l0
  have a1 := fun g => get_le_sum (LPhi wB) rfl s.l1 g
  have b1 := fun g => LPhi_ge_undisp wB (fun k => by have := wB_ge k; omega) (get s.l1 g)
  have a2 := fun m => get_le_sum (LPhi wW) rfl s.l2 m
  have b2 := fun m => LPhi_ge_undisp wW (fun k => by have := wW_ge k; omega) (get s.l2 m)
  have a3 := fun g => get_le_sum (fun g : Gpu => 3 * g.fin) rfl s.gpus g
  have a4 := fun m => get_le_sum (fun m : Smx => 3 * m.fin) rfl s.sms m
  have a5 := fun u => get_le_sum subPhi rfl s.subs u
  unfold Phi
  refine ⟨by omega, ?_, ?_, ?_⟩
  · intro g; have := a1 g; have := b1 g; have := a3 g; omega
  · intro m; have := a2 m; have := b2 m; have := a4 m; omega
  · intro u
    have := a5 u
    have hs : (get s.subs u).rem ≤ subPhi (get s.subs u) ∧ (get s.subs u).fin ≤ subPhi (get s.subs u) := by
      unfold subPhi
      constructor
      · split <;> omega
      · omega
    omega

end C20

namespace C20
open Meas

/-! ## closed form of the potential and of the measure of an initial state -/

theorem sum_map_add (f g : α → Nat) (l : List α) :
    sum (l.map (fun x => f x + g x)) = sum (l.map f) + sum (l.map g) := by
  induction l with
  | nil => rfl
  | cons x xs ih => simp only [List.map_cons, sum_cons, ih]; omega

theorem sum_map_const (c : Nat) (l : List α) : sum (l.map (fun _ => c)) = c * l.length := by
  induction l with
  | nil => rfl
  | cons x xs ih => simp only [List.map_cons, sum_cons, ih, List.length_cons, Nat.mul_succ]; omega

theorem wB_eq (b : Block) : wB b = instsOfBlock b + 6 * b.length + 6 := by
  unfold wB instsOfBlock
  have : sum (b.map wW) = sum b + 6 * b.length := by
    have := sum_map_add (fun n : Nat => n) (fun _ => 6) b
    rw [sum_map_const] at this
    simp only [List.map_id'] at this
    exact this
  omega

theorem wK_eq (k : Kernel) : wK k = instsOfKernel k + 6 * warpsOfKernel k + 6 * k.length + 6 := by
  unfold wK instsOfKernel warpsOfKernel
  have h : sum (k.map wB) = sum (k.map instsOfBlock) + 6 * sum (k.map List.length) + 6 * k.length := by
    induction k with
    | nil => rfl
    | cons b bs ih => simp only [List.map_cons, sum_cons, ih, wB_eq, List.length_cons]; omega
  omega

theorem sum_wK (t : List Kernel) :
    sum (t.map wK) = instsOfTrace t + 6 * (warpsOfTrace t + blocksOfTrace t + t.length) := by
  unfold instsOfTrace warpsOfTrace blocksOfTrace
  induction t with
  | nil => rfl
  | cons k ks ih => simp only [List.map_cons, sum_cons, ih, wK_eq, List.length_cons]; omega

theorem sum_replicate_map_zero {β} (f : β → Nat) (x : β) (h : f x = 0) (n : Nat) :
    sum ((List.replicate n x).map f) = 0 := by
  induction n with
  | zero => rfl
  | succ n ih => simp only [List.replicate_succ, List.map_cons, sum_cons, ih, h]

/-- the potential of an initial state, in terms of the trace alone -/
theorem Phi_init (G S C : Nat) (trace : List Kernel) :
    Phi (init false G S C trace) =
      instsOfTrace trace + 6 * (warpsOfTrace trace + blocksOfTrace trace + trace.length) + shell trace.length := by
  unfold Phi init
  simp only
  rw [sum_replicate_map_zero (LPhi wB) (mkLevel S) rfl, sum_replicate_map_zero (LPhi wW) (mkLevel C) rfl,
    sum_replicate_map_zero (fun g : Gpu => 3 * g.fin) {} rfl, sum_replicate_map_zero (fun m : Smx => 3 * m.fin) {} rfl,
    sum_replicate_map_zero subPhi {} rfl]
  have : LPhi wK { (mkLevel G : Level Kernel) with undisp := trace, unfin := trace.length }
      = sum (trace.map wK) + shell trace.length := by
    simp [LPhi, mkLevel]
  rw [this, sum_wK]
  omega

theorem N_init (G S C : Nat) (trace : List Kernel) :
    N (init false G S C trace) = 2 + 2 * G + 2 * (G * S) + G * S * C := by
  unfold N allEvs init
  simp only [List.length_append, List.length_map, List.length_range, List.length_cons, List.length_nil]
  omega

end C20

namespace C20

theorem conservation_insts_aux (G S C : Nat) (trace : List Kernel) (evs : List Ev) :
    sum ((run (init false G S C trace) evs).subs.map (fun c : Sub => c.insts)) ≤ instsOfTrace trace := by
  have c1 := Q_run (init false G S C trace) evs
  rw [Q_init] at c1
  unfold Q receivedInsts at c1
  omega

theorem conservation_warps_aux (G S C : Nat) (trace : List Kernel) (evs : List Ev) :
    sum ((run (init false G S C trace) evs).sms.map (fun m : Smx => m.warps)) ≤ warpsOfTrace trace := by
  have c2 := QW_run (init false G S C trace) evs
  rw [QW_init] at c2
  unfold QW receivedWarps at c2
  omega

end C20
