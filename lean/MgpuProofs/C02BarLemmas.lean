import MgpuModel.C02Bar
import MgpuProofs.C02WfCU
/-! C02 (barriers) — helper lemmas, part 1: the same code under another ownership (`withOwn`), the
bookkeeping invariant of `wgstep` (`WOK`), agreement of the barrier decisions with the C14 model, and
the restart of a wavefront released from a barrier (`sim_restart`). -/
namespace C02.Bar
open C02.Wf

/-! ## the same code, another ownership -/

/-- the same instruction memory and decoder with other owned / writable address sets: ownership is a
    proof device (it changes from one barrier phase to the next), the code does not change -/
def withOwn (P : Prog) (o wo : Nat → Bool) : Prog := { P with own := o, wown := wo }

theorem withOwn_wf {P : Prog} (h : P.WF) (o wo : Nat → Bool) : (withOwn P o wo).WF :=
  ⟨h.fixed, h.inst, h.pfx⟩

theorem tstep_withOwn (P : Prog) (o wo : Nat → Bool) (gate : TState → Inst → Bool) (s : TState) (e : Ev)
    (he : isEnv e = false) : tstep (withOwn P o wo) gate s e = tstep P gate s e := by
  cases e <;> first | rfl | (simp [isEnv] at he)

theorem estep_withOwn (P : Prog) (o wo : Nat → Bool) (s : EState) : estep (withOwn P o wo) s = estep P s := rfl

theorem instAt_withOwn (P : Prog) (o wo : Nat → Bool) (pc : Nat) : (withOwn P o wo).instAt pc = P.instAt pc := rfl

/-! ## list helpers -/

theorem all_iff_getElem? {α : Type} (l : List α) (p : α → Bool) :
    l.all p = true ↔ ∀ (j : Nat) (x : α), l[j]? = some x → p x = true := by
  rw [List.all_eq_true]
  constructor
  · intro h j x hj; exact h x (List.mem_of_getElem? hj)
  · intro h x hx
    obtain ⟨j, hj⟩ := List.mem_iff_getElem?.mp hx
    exact h j x hj

theorem any_iff_getElem? {α : Type} (l : List α) (p : α → Bool) :
    l.any p = true ↔ ∃ (j : Nat) (x : α), l[j]? = some x ∧ p x = true := by
  rw [List.any_eq_true]
  constructor
  · rintro ⟨x, hx, hp⟩
    obtain ⟨j, hj⟩ := List.mem_iff_getElem?.mp hx
    exact ⟨j, x, hj, hp⟩
  · rintro ⟨j, x, hj, hp⟩; exact ⟨x, List.mem_of_getElem? hj, hp⟩

theorem getD_false_eq_true (ps : List Bool) (j : Nat) : ps.getD j false = true ↔ ps[j]? = some true := by
  rw [List.getD_eq_getElem?_getD]
  cases h : ps[j]? with
  | none => simp
  | some b => cases b <;> simp

theorem allStopped_iff (c : List TState) : allStopped c = true ↔ ∀ (j : Nat) (s : TState), c[j]? = some s → s.ph = .done := by
  unfold allStopped
  rw [all_iff_getElem?]
  constructor
  · intro h j s hj; simpa using h j s hj
  · intro h j s hj; simpa using h j s hj

/-! ## the bookkeeping invariant of a work-group state -/

/-- one `parked` flag per wavefront, and a wavefront at the barrier has `ph = .done` -/
structure WOK (W : WState) : Prop where
  len : W.parked.length = W.c.length
  pdone : ∀ j s, W.c[j]? = some s → W.parked.getD j false = true → s.ph = .done

/-- wavefront `w` (whose state is `s`) goes to the barrier: `wf.State = WfAtBarrier` -/
def parkAt (W : WState) (w : Nat) (s : TState) : WState :=
  { c := W.c.set w { s with ph := .done }, parked := W.parked.set w true }

theorem WOK.park {W : WState} (h : WOK W) (w : Nat) (s : TState) : WOK (parkAt W w s) := by
  refine ⟨by simp [parkAt, h.len], ?_⟩
  intro j t hj hp
  simp only [parkAt] at hj hp
  by_cases hjw : w = j
  · subst hjw
    rw [List.getElem?_set, if_pos rfl] at hj
    split at hj
    · cases hj; rfl
    · cases hj
  · rw [List.getElem?_set_ne hjw] at hj
    rw [List.getD_eq_getElem?_getD, List.getElem?_set_ne hjw, ← List.getD_eq_getElem?_getD] at hp
    exact h.pdone j t hj hp

theorem getElem?_setMemAll' (m : Mem) (c : List TState) (j : Nat) :
    (setMemAll m c)[j]? = (c[j]?).map fun s => { s with mem := m } := by
  simp [setMemAll]

/-! ## the scheduler's view: agreement with the C14 model -/

theorem toC14_getElem? (W : WState) (j : Nat) : (toC14 W)[j]? = (W.c[j]?).map (toC14Wf W j) := by
  unfold toC14
  rw [List.getElem?_mapIdx]

theorem toC14Wf_state_parked (W : WState) (j : Nat) (s : TState) (h : W.parked.getD j false = true) :
    (toC14Wf W j s).state = .atBarrier := by
  unfold toC14Wf
  simp only [h, if_true]

theorem toC14Wf_state_unparked (W : WState) (j : Nat) (s : TState) (h : W.parked.getD j false = false) :
    (toC14Wf W j s).state = (match s.ph with
      | .ready => .ready
      | .issued => .running
      | .executed => .running
      | .done => .completed) := by
  unfold toC14Wf
  simp only [h, Bool.false_eq_true, if_false]
  rfl

theorem toC14Wf_wg (W : WState) (j : Nat) (s : TState) : (toC14Wf W j s).wg = 0 := rfl

theorem release_state (w : C14.Wf) (hw : w.wg = 0) :
    (C14.release 0 w).state = if w.state = .completed then .completed else .ready := by
  unfold C14.release
  by_cases h : w.state = .completed
  · simp [h]
  · simp [h, hw, C14.setReady]

/-- under `WOK`, "at the barrier or completed" in the C14 view is `ph = .done` -/
theorem c14_stopped_iff (W : WState) (j : Nat) (s : TState)
    (hp : W.parked.getD j false = true → s.ph = .done) :
    ((toC14Wf W j s).state == .atBarrier || (toC14Wf W j s).state == .completed) = decide (s.ph = .done) := by
  unfold toC14Wf
  cases hpk : W.parked.getD j false
  · cases hph : s.ph <;> simp
  · have := hp hpk
    simp [this]

theorem c14_completed_iff (W : WState) (j : Nat) (s : TState) :
    ((toC14Wf W j s).state == .completed) = (!W.parked.getD j false && decide (s.ph = .done)) := by
  unfold toC14Wf
  cases hpk : W.parked.getD j false
  · cases hph : s.ph <;> simp
  · simp

/-- `areAllWfInWGAtBarrier` of the C14 model, evaluated on the scheduler's view of the work-group, is
    `allStopped` -/
theorem allStopped_eq_C14 (W : WState) (h : WOK W) :
    allStopped W.c = C14.allAtBarrier C14.Cfg.cur 0 (toC14 W) := by
  rw [Bool.eq_iff_iff, allStopped_iff]
  unfold C14.allAtBarrier
  rw [all_iff_getElem?]
  constructor
  · intro hall j x hj
    rw [toC14_getElem?] at hj
    cases hc : W.c[j]? with
    | none => simp [hc] at hj
    | some s =>
      simp only [hc, Option.map_some, Option.some.injEq] at hj
      subst hj
      have := c14_stopped_iff W j s (h.pdone j s hc)
      rw [hall j s hc] at this
      simp only [decide_true, Bool.or_eq_true] at this
      simp only [C14.Cfg.cur, Bool.true_and, Bool.or_eq_true]
      rcases this with h1 | h1
      · exact Or.inl (Or.inr h1)
      · exact Or.inr h1
  · intro hall j s hc
    have hx := hall j (toC14Wf W j s) (by rw [toC14_getElem?, hc]; rfl)
    have := c14_stopped_iff W j s (h.pdone j s hc)
    simp only [C14.Cfg.cur, Bool.true_and, Bool.or_eq_true] at hx
    have hw : ((toC14Wf W j s).wg != 0) = false := by simp [toC14Wf]
    rw [hw] at hx
    have h2 : ((toC14Wf W j s).state == .atBarrier || (toC14Wf W j s).state == .completed) = true := by
      rcases hx with (h1 | h1) | h1
      · cases h1
      · simp [h1]
      · simp [h1]
    rw [h2] at this
    simpa using this.symm

/-- parking in this model is `updWf … park` in the C14 model -/
theorem toC14_parkAt (W : WState) (h : WOK W) (w : Nat) (s : TState) (hs : W.c[w]? = some s) :
    toC14 (parkAt W w s) = C14.updWf (toC14 W) w C14.park := by
  have hw : w < W.c.length := by
    rcases Nat.lt_or_ge w W.c.length with h' | h'
    · exact h'
    · simp [List.getElem?_eq_none h'] at hs
  apply List.ext_getElem?
  intro j
  unfold C14.updWf
  rw [toC14_getElem?, List.getElem?_map, toC14_getElem?]
  simp only [parkAt]
  by_cases hjw : w = j
  · subst hjw
    rw [List.getElem?_set, if_pos rfl, if_pos hw, hs]
    simp only [Option.map_some, Option.some.injEq]
    have hp : (W.parked.set w true).getD w false = true := by
      rw [List.getD_eq_getElem?_getD, List.getElem?_set, if_pos rfl, if_pos (by rw [h.len]; exact hw)]
      rfl
    simp only [toC14Wf, hp, C14.park, if_true]
  · rw [List.getElem?_set_ne hjw]
    cases hc : W.c[j]? with
    | none => rfl
    | some t =>
      simp only [Option.map_some, Option.some.injEq]
      have hp : (W.parked.set w true).getD j false = W.parked.getD j false := by
        rw [List.getD_eq_getElem?_getD, List.getElem?_set_ne hjw, ← List.getD_eq_getElem?_getD]
      have hid : (toC14Wf W j t).id = j := rfl
      rw [if_neg (by rw [hid]; exact fun e => hjw e.symm)]
      simp only [toC14Wf, hp]

/-! ## `releaseAll` -/

theorem releaseAll_spec : ∀ (c : List TState) (ps : List Bool) (c2 : List TState), releaseAll c ps = some c2 →
    c2.length = c.length ∧ ∀ j s, c[j]? = some s →
      (if ps.getD j false then releaseOne s else some s) = c2[j]? := by
  intro c
  induction c with
  | nil => intro ps c2 h; simp only [releaseAll] at h; cases h; exact ⟨rfl, fun j s hj => by simp at hj⟩
  | cons s ss ih =>
    intro ps c2 h
    simp only [releaseAll] at h
    split at h
    · rename_i s' r h1 h2
      cases h
      obtain ⟨hl, hr⟩ := ih ps.tail r h2
      refine ⟨by simp [hl], ?_⟩
      intro j t hj
      cases j with
      | zero =>
        simp only [List.getElem?_cons_zero, Option.some.injEq] at hj
        subst hj
        simp only [List.getElem?_cons_zero]
        rw [← h1]
        cases ps <;> rfl
      | succ j =>
        simp only [List.getElem?_cons_succ] at hj ⊢
        rw [← hr j t hj]
        cases ps <;> simp
    · cases h

theorem releaseOne_eq {s s' : TState} (h : releaseOne s = some s') :
    ∃ i, s.cur = some i ∧ advance s i = some s' := by
  unfold releaseOne at h
  split at h
  · rename_i i hi; exact ⟨i, hi, h⟩
  · cases h

theorem advance_ph {s s' : TState} {i : Inst} (h : advance s i = some s') : s'.ph = .ready := by
  obtain ⟨st, ib, _, rfl⟩ := advance_eq s i s' h
  rfl

theorem unparkAll_getD (ps : List Bool) (j : Nat) : (unparkAll ps).getD j false = false := by
  rw [List.getD_eq_getElem?_getD]
  unfold unparkAll
  rw [List.getElem?_map]
  cases ps[j]? <;> rfl

/-- the wavefronts `releaseAll` sets ready are exactly those `C14.release` (`setAllWfStateToReady`) sets
    ready: when every wavefront has stopped, the not-completed ones are the parked ones -/
theorem release_is_C14 (W : WState) (hall : allStopped W.c = true) (c2 : List TState)
    (hr : releaseAll W.c W.parked = some c2) :
    (toC14 { c := c2, parked := unparkAll W.parked }).map (·.state) =
      ((toC14 W).map (C14.release 0)).map (·.state) := by
  obtain ⟨hl, hspec⟩ := releaseAll_spec W.c W.parked c2 hr
  rw [allStopped_iff] at hall
  apply List.ext_getElem?
  intro j
  simp only [List.getElem?_map, toC14_getElem?]
  cases hc : W.c[j]? with
  | none =>
    have : c2[j]? = none := by
      rw [List.getElem?_eq_none_iff] at hc ⊢
      omega
    simp [this]
  | some s =>
    have hsp := hspec j s hc
    have hd := hall j s hc
    simp only [Option.map_some]
    cases hpk : W.parked.getD j false
    · rw [hpk] at hsp
      simp only [Bool.false_eq_true, if_false] at hsp
      rw [← hsp]
      simp only [Option.map_some, Option.some.injEq]
      rw [release_state _ (toC14Wf_wg W j s), toC14Wf_state_unparked _ j s (unparkAll_getD _ j),
        toC14Wf_state_unparked W j s hpk, hd]
      rfl
    · rw [hpk] at hsp
      simp only [if_true] at hsp
      cases hro : releaseOne s with
      | none =>
        -- impossible: `releaseAll` succeeded
        rw [hro] at hsp
        have hlt : j < c2.length := by
          rw [hl]
          rcases Nat.lt_or_ge j W.c.length with h' | h'
          · exact h'
          · simp [List.getElem?_eq_none h'] at hc
        rw [List.getElem?_eq_getElem hlt] at hsp
        cases hsp
      | some s' =>
        rw [hro] at hsp
        rw [← hsp]
        obtain ⟨i, _, ha⟩ := releaseOne_eq hro
        have hph := advance_ph ha
        simp only [Option.map_some, Option.some.injEq]
        rw [release_state _ (toC14Wf_wg W j s), toC14Wf_state_unparked _ j s' (unparkAll_getD _ j),
          toC14Wf_state_parked W j s hpk, hph]
        rfl

/-- `areAllOtherWfsInWGCompleted` / `areAllOtherWfsInWGAtBarrier` of the C14 model, evaluated on the
    scheduler's view, give the condition under which an ending wavefront releases the others -/
theorem endpgm_decision_eq_C14 (W : WState) (h : WOK W) (w : Nat) (s s' : TState) (m : Mem)
    (hs : W.c[w]? = some s) (hnp : W.parked.getD w false = false) (hd : s'.ph = .done) :
    (allStopped (setMemAll m (W.c.set w s')) && W.parked.any id) =
      (!C14.othersCompleted 0 w (toC14 W) && C14.othersAtBarrier 0 w (toC14 W)) := by
  have hw : w < W.c.length := by
    rcases Nat.lt_or_ge w W.c.length with h' | h'
    · exact h'
    · simp [List.getElem?_eq_none h'] at hs
  -- the two C14 predicates in terms of the model
  have hA : C14.othersAtBarrier 0 w (toC14 W) = true ↔ ∀ j t, W.c[j]? = some t → j ≠ w → t.ph = .done := by
    unfold C14.othersAtBarrier
    rw [all_iff_getElem?]
    constructor
    · intro hall j t hc hjw
      have hx := hall j (toC14Wf W j t) (by rw [toC14_getElem?, hc]; rfl)
      have h1 : ((toC14Wf W j t).id == w) = false := by simp [toC14Wf, hjw]
      have h2 : ((toC14Wf W j t).wg != 0) = false := by simp [toC14Wf]
      rw [h1, h2, Bool.false_or, Bool.false_or, c14_stopped_iff W j t (h.pdone j t hc)] at hx
      simpa using hx
    · intro hall j x hj
      rw [toC14_getElem?] at hj
      cases hc : W.c[j]? with
      | none => simp [hc] at hj
      | some t =>
        simp only [hc, Option.map_some, Option.some.injEq] at hj
        subst hj
        by_cases hjw : j = w
        · simp [toC14Wf, hjw]
        · have := c14_stopped_iff W j t (h.pdone j t hc)
          rw [hall j t hc hjw] at this
          rw [Bool.or_assoc, this]
          simp
  have hC : C14.othersCompleted 0 w (toC14 W) = true ↔
      ∀ j t, W.c[j]? = some t → j ≠ w → (W.parked.getD j false = false ∧ t.ph = .done) := by
    unfold C14.othersCompleted
    rw [all_iff_getElem?]
    constructor
    · intro hall j t hc hjw
      have hx := hall j (toC14Wf W j t) (by rw [toC14_getElem?, hc]; rfl)
      have h1 : ((toC14Wf W j t).id == w) = false := by simp [toC14Wf, hjw]
      have h2 : ((toC14Wf W j t).wg != 0) = false := by simp [toC14Wf]
      rw [h1, h2, Bool.false_or, Bool.false_or, c14_completed_iff] at hx
      simpa using hx
    · intro hall j x hj
      rw [toC14_getElem?] at hj
      cases hc : W.c[j]? with
      | none => simp [hc] at hj
      | some t =>
        simp only [hc, Option.map_some, Option.some.injEq] at hj
        subst hj
        by_cases hjw : j = w
        · simp [toC14Wf, hjw]
        · have := hall j t hc hjw
          rw [c14_completed_iff, this.1, this.2]
          simp
  have hS : allStopped (setMemAll m (W.c.set w s')) = true ↔ ∀ j t, W.c[j]? = some t → j ≠ w → t.ph = .done := by
    rw [allStopped_iff]
    constructor
    · intro hall j t hc hjw
      have := hall j { t with mem := m } (by
        rw [getElem?_setMemAll', List.getElem?_set_ne (fun e => hjw e.symm), hc]; rfl)
      exact this
    · intro hall j t hj
      rw [getElem?_setMemAll'] at hj
      by_cases hjw : w = j
      · subst hjw
        rw [List.getElem?_set, if_pos rfl, if_pos hw] at hj
        simp only [Option.map_some, Option.some.injEq] at hj
        subst hj
        exact hd
      · rw [List.getElem?_set_ne hjw] at hj
        cases hc : W.c[j]? with
        | none => simp [hc] at hj
        | some t0 =>
          simp only [hc, Option.map_some, Option.some.injEq] at hj
          subst hj
          exact hall j t0 hc (fun e => hjw e.symm)
  rw [Bool.eq_iff_iff]
  simp only [Bool.and_eq_true, Bool.not_eq_true', ← Bool.not_eq_true, hA, hC, hS, any_iff_getElem?]
  constructor
  · rintro ⟨hall, j, b, hj, hb⟩
    refine ⟨?_, hall⟩
    intro hcomp
    have hb' : b = true := hb
    subst hb'
    have hjl : j < W.c.length := by
      rw [← h.len]
      rcases Nat.lt_or_ge j W.parked.length with h' | h'
      · exact h'
      · simp [List.getElem?_eq_none h'] at hj
    have hjw : j ≠ w := by
      intro e; subst e
      rw [List.getD_eq_getElem?_getD, hj] at hnp
      cases hnp
    have := (hcomp j W.c[j] (List.getElem?_eq_getElem hjl) hjw).1
    rw [List.getD_eq_getElem?_getD, hj] at this
    exact this rfl
  · rintro ⟨hncomp, hall⟩
    refine ⟨hall, ?_⟩
    apply Classical.byContradiction
    intro hno
    apply hncomp
    intro j t hc hjw
    refine ⟨?_, hall j t hc hjw⟩
    cases hpk : W.parked.getD j false with
    | false => simp
    | true =>
      exfalso
      apply hno
      exact ⟨j, true, (getD_false_eq_true _ _).mp hpk, rfl⟩

/-- what `wgstep` does with the `complete` event of an `s_barrier`: park, then decide with the C14 rule -/
theorem wgstep_barrier_eq (g : WG) (gate : TState → Inst → Bool) (W : WState) (h : WOK W) (w : Nat) (s : TState)
    (P : Prog) (hs : W.c[w]? = some s) (hP : g.Ps[w]? = some P) (hnp : W.parked.getD w false = false)
    (hph : s.ph = .issued) (hb : isBar g s = true) :
    wgstep g gate W (w, .complete) =
      if C14.allAtBarrier C14.Cfg.cur 0 (C14.updWf (toC14 W) w C14.park) = true then
        (releaseAll (parkAt W w s).c (parkAt W w s).parked).map
          fun c2 => { c := c2, parked := unparkAll (parkAt W w s).parked }
      else some (parkAt W w s) := by
  rw [← toC14_parkAt W h w s hs, ← allStopped_eq_C14 _ (h.park w s)]
  unfold wgstep
  simp only [isEnv, Bool.false_eq_true, if_false, hs, hP, hnp, hph, hb, and_self, if_true]
  simp only [parkAt]
  split
  · rename_i hall
    simp only [hall, if_true]
    cases releaseAll (W.c.set w { s with ph := .done }) (W.parked.set w true) <;> rfl
  · rename_i hall
    simp only [hall, Bool.false_eq_true, if_false]

/-! ## `WOK` is an invariant of `wgrun` -/

theorem parkedStep_fields {P : Prog} {gate} {s s' : TState} {e : Ev} (h : parkedStep P gate s e = some s') :
    s'.ph = s.ph ∧ s'.cur = s.cur ∧ s'.pc = s.pc ∧ s'.trace = s.trace ∧ s'.toIssue = s.toIssue := by
  cases e with
  | fetch => simp only [parkedStep] at h; split at h <;> cases h; exact ⟨rfl, rfl, rfl, rfl, rfl⟩
  | fetchRet =>
    simp only [parkedStep, tstep] at h
    split at h
    · cases h
    · split at h <;> cases h <;> exact ⟨rfl, rfl, rfl, rfl, rfl⟩
  | serveV k =>
    simp only [parkedStep, tstep] at h
    split at h
    · cases h
    · split at h
      · cases h
      · split at h <;> cases h <;> exact ⟨rfl, rfl, rfl, rfl, rfl⟩
  | serveS k =>
    simp only [parkedStep, tstep] at h
    split at h
    · cases h
    · split at h <;> cases h; exact ⟨rfl, rfl, rfl, rfl, rfl⟩
  | retV =>
    simp only [parkedStep, tstep] at h
    split at h
    · cases h
    · split at h <;> cases h; exact ⟨rfl, rfl, rfl, rfl, rfl⟩
  | retS k =>
    simp only [parkedStep, tstep] at h
    split at h
    · cases h
    · split at h <;> cases h; exact ⟨rfl, rfl, rfl, rfl, rfl⟩
  | resync => simp [parkedStep] at h
  | decode => simp [parkedStep] at h
  | issue => simp [parkedStep] at h
  | exec => simp [parkedStep] at h
  | complete => simp [parkedStep] at h
  | env a v => simp [parkedStep] at h

theorem wok_update {W : WState} (h : WOK W) (w : Nat) (s' : TState) (m : Mem)
    (hw : W.parked.getD w false = true → s'.ph = .done) :
    WOK { W with c := setMemAll m (W.c.set w s') } := by
  refine ⟨by simp [setMemAll, h.len], ?_⟩
  intro j t hj hp
  simp only at hj hp
  rw [getElem?_setMemAll'] at hj
  by_cases hjw : w = j
  · subst hjw
    rw [List.getElem?_set, if_pos rfl] at hj
    split at hj
    · simp only [Option.map_some, Option.some.injEq] at hj
      subst hj
      exact hw hp
    · cases hj
  · rw [List.getElem?_set_ne hjw] at hj
    cases hc : W.c[j]? with
    | none => simp [hc] at hj
    | some t0 =>
      simp only [hc, Option.map_some, Option.some.injEq] at hj
      subst hj
      exact h.pdone j t0 hc hp

theorem wok_release {c2 : List TState} {ps : List Bool} (hl : c2.length = ps.length) :
    WOK { c := c2, parked := unparkAll ps } := by
  refine ⟨by simp [unparkAll, hl], ?_⟩
  intro j t _ hp
  rw [unparkAll_getD] at hp
  cases hp

theorem wok_step (g : WG) (gate : TState → Inst → Bool) {W W' : WState} (we : Nat × Ev) (h : WOK W)
    (hs : wgstep g gate W we = some W') : WOK W' := by
  obtain ⟨w, e⟩ := we
  unfold wgstep at hs
  simp only at hs
  split at hs
  · cases hs
  · split at hs
    · rename_i s P hcw hPw
      split at hs
      · rename_i hpk
        split at hs
        · cases hs
        · rename_i s' hst
          cases hs
          apply wok_update h
          intro _
          rw [(parkedStep_fields hst).1]
          exact h.pdone w s hcw hpk
      · rename_i hpk
        split at hs
        · -- evalSBarrier
          have hp1 := h.park w s
          simp only [parkAt] at hp1
          split at hs
          · split at hs
            · cases hs
            · rename_i c2 hr
              cases hs
              apply wok_release
              rw [(releaseAll_spec _ _ c2 hr).1]
              exact hp1.len.symm
          · cases hs
            exact hp1
        · split at hs
          · cases hs
          · rename_i s' hst
            have hu : WOK { W with c := setMemAll s'.mem (W.c.set w s') } :=
              wok_update h w s' s'.mem (fun hp => by rw [hp] at hpk; exact absurd rfl hpk)
            split at hs
            · split at hs
              · cases hs
              · rename_i c2 hr
                cases hs
                apply wok_release
                rw [(releaseAll_spec _ _ c2 hr).1]
                exact hu.len.symm
            · cases hs
              exact hu
    · cases hs

theorem wok_run (g : WG) (gate : TState → Inst → Bool) : ∀ (evs : List (Nat × Ev)) (W W' : WState),
    WOK W → wgrun g gate W evs = some W' → WOK W' := by
  intro evs
  induction evs with
  | nil => intro W W' h hr; simp only [wgrun] at hr; cases hr; exact h
  | cons e es ih =>
    intro W W' h hr
    simp only [wgrun] at hr
    cases hs : wgstep g gate W e with
    | none => simp [hs] at hr
    | some W1 =>
      simp only [hs] at hr
      exact ih W1 W' (wok_step g gate e h hs) hr

theorem wok_init (inits : List (Nat × RF)) (m0 : Mem) : WOK (winit inits m0) := by
  refine ⟨by simp [winit], ?_⟩
  intro j s _ hp
  simp only [winit] at hp
  rw [List.getD_eq_getElem?_getD, List.getElem?_map] at hp
  cases hi : inits[j]? <;> simp [hi] at hp

/-! ## restart after a barrier -/

/-- a wavefront with nothing in flight whose registers equal the emulator's restarts, after
    `UpdatePCAndSetReady`, in the simulation relation for ANY ownership on which the memories agree -/
theorem inv_restart {P : Prog} (o wo : Nat → Bool) {T T' : TState} {i : Inst} {E2 : EState}
    (ha : advance T i = some T') (hvq : T.vq = []) (hsq : T.sq = []) (hvm : T.vm = 0) (hlg : T.lgkm = 0)
    (hib : ∀ k (h : k < T.ib.length), T.ib[k] = P.imem (T.ibStart + k)) (hti : T.toIssue = none)
    (hpc : E2.pc = pcAdd T.pc i.size) (htr : E2.trace = T.trace) (hd : E2.done = false)
    (hregs : E2.regs = T.regs) (hmem : ∀ a, o a = true → E2.mem a = T.mem a) :
    Inv (withOwn P o wo) T' E2 {} := by
  apply inv_advance (P := withOwn P o wo) ha
  · rw [hvm, hlg, hvq, hsq]
    exact ⟨rfl, rfl, List.suffix_refl _, fun p hp => (by cases hp), fun p hp => (by cases hp)⟩
  · rw [hvq, hsq]
    exact ⟨fun x _ => (by rw [hregs]), fun p hp => (by cases hp)⟩
  · rw [hvq]
    exact ⟨fun a ha _ => hmem a ha, fun p hp => (by cases hp)⟩
  · exact hib
  · exact hti
  · exact hpc
  · exact htr
  · exact hd
  · rw [hvq, hsq]; intro p hp; cases hp

/-- **restart lemma.** A wavefront in the simulation relation that waits at a barrier (`ph = .done`,
    the emulator has executed the barrier: its PC is behind it) is, once released
    (`UpdatePCAndSetReady`), in the simulation relation again — with the emulator continuing
    (`done := false`), an empty hazard state, and ANY new ownership `o`/`wo` on which timing memory and
    emulator memory agree at that moment. -/
theorem sim_restart {P : Prog} {T : TState} {E : EState} {H : HState} (hinv : Inv P T E H) (hph : T.ph = .done)
    (i : Inst) (hpc : E.pc = pcAdd T.pc i.size) (o wo : Nat → Bool) (T' : TState) (ha : advance T i = some T')
    (hmem : ∀ a, o a = true → T.mem a = E.mem a) :
    Inv (withOwn P o wo) T' { E with done := false } {} := by
  have hp := hinv.p
  rw [hph] at hp
  simp only [InvP] at hp
  obtain ⟨_, htr, hv, hs⟩ := hp
  obtain ⟨_, _, hc0⟩ : T.vq = [] ∧ T.sq = [] ∧ True := ⟨hv, hs, trivial⟩
  have hvm : T.vm = 0 := by rw [hinv.c.cvm, hv]; rfl
  have hlg : T.lgkm = 0 := by rw [hinv.c.clgkm, hv, hs]; rfl
  apply inv_restart (E2 := { E with done := false }) o wo ha hv hs hvm hlg hinv.f.ibok
    (toIssue_none_of_not_ready hinv (by rw [hph]; decide)) hpc htr.symm rfl
  · funext x
    apply hinv.r.r1
    intro p hp
    rw [hv, hs] at hp
    cases hp
  · intro a ha; exact (hmem a ha).symm

end C02.Bar
