import MgpuProofs.C17WLive6
import MgpuProofs.C17WQuiet
/-! C17, liveness for every width, part 7: requests that have not entered the bank pipeline yet (delay queue, pending
list, port buffer). Delay-queue counters stay ≤ `miss`; what a tick does to a bank whose `inOrder` is empty. -/
namespace C17
namespace WLive
open WBnd

/-! ### lifting a bank predicate through the tick -/

section lift
variable (c : Cfg) (P : WBank → Prop)

theorem allP_set (bs : List WBank) (k : Nat) (b : WBank) (h : ∀ x ∈ bs, P x) (hb : P b) : ∀ x ∈ bs.set k b, P x := by
  intro x hx
  rcases List.mem_or_eq_of_mem_set hx with hx | rfl
  · exact h x hx
  · exact hb

theorem finalizeFromW_allP (hfin : ∀ fuel b log out resp pg, P b → P (finalizeBankW c fuel b log out resp pg).bank) :
    ∀ (ks : List Nat) (s : WState) (pg : Bool), (∀ b ∈ s.banks, P b) →
    ∀ b ∈ (finalizeFromW c ks s pg).st.banks, P b
  | [], _, _, h => h
  | k :: ks, s, pg, h => by
    have h1 : ∀ b ∈ (finalizeAtW c s k pg).st.banks, P b := by
      unfold finalizeAtW
      cases hb : s.banks[k]? with
      | none => exact h
      | some b => exact allP_set P _ _ _ h (hfin _ b _ _ _ _ (h b (List.mem_of_getElem? hb)))
    simp only [finalizeFromW]
    split
    · exact h1
    · exact finalizeFromW_allP hfin ks _ _ h1

theorem fold_dispatch_allP (hdis : ∀ r b b', P b → dispatchBankW c r b = some b' → P b') :
    ∀ (todo : List Req) (st : List WBank × List Req), (∀ b ∈ st.1, P b) →
    ∀ b ∈ (todo.foldl (dispatchOneW c) st).1, P b
  | [], _, h => h
  | r :: rest, st, h => by
    apply fold_dispatch_allP hdis rest
    unfold dispatchOneW
    cases hb : st.1[bankOf c r.addr]? with
    | none => exact h
    | some b =>
      dsimp only
      cases hd : dispatchBankW c r b with
      | none => exact h
      | some b' => exact allP_set P _ _ _ h (hdis r b b' (h b (List.mem_of_getElem? hb)) hd)

theorem tickW_allP (hfin : ∀ fuel b log out resp pg, P b → P (finalizeBankW c fuel b log out resp pg).bank)
    (hpipe : ∀ b, P b → P (tickBankPipeW c b)) (hdel : ∀ b, P b → P (tickBankDelayW c b))
    (hdis : ∀ r b b', P b → dispatchBankW c r b = some b' → P b') (s : WState) (h : ∀ b ∈ s.banks, P b) :
    ∀ b ∈ (tickW c s).banks, P b := by
  have hf : ∀ b ∈ (finalizeW c s).st.banks, P b := finalizeFromW_allP c P hfin _ s false h
  have h3 : ∀ b ∈ (tickDelaysW c (tickPipesW c (finalizeW c s).st)).banks, P b := by
    intro b hb
    obtain ⟨y, hy, rfl⟩ := List.mem_map.1 hb
    obtain ⟨z, hz, rfl⟩ := List.mem_map.1 hy
    exact hdel _ (hpipe _ (hf z hz))
  simp only [tickW]
  split
  · exact hf
  · split
    · exact h3
    · exact fold_dispatch_allP c P hdis _ _ h3

theorem run_allP (hfin : ∀ fuel b log out resp pg, P b → P (finalizeBankW c fuel b log out resp pg).bank)
    (hpipe : ∀ b, P b → P (tickBankPipeW c b)) (hdel : ∀ b, P b → P (tickBankDelayW c b))
    (hdis : ∀ r b b', P b → dispatchBankW c r b = some b' → P b') (hinit : P (emptyBankW c)) (ops : List Op) :
    ∀ b ∈ (runW c ops).banks, P b := by
  have hstep : ∀ (s : WState) (op : Op), (∀ b ∈ s.banks, P b) → ∀ b ∈ (stepW c s op).banks, P b := by
    intro s op h
    cases op with
    | deliver k a l d m => simp only [stepW, deliverW_banks]; exact h
    | tick => exact tickW_allP c P hfin hpipe hdel hdis s h
    | out k => exact h
  have hfold : ∀ (ops : List Op) (s : WState), (∀ b ∈ s.banks, P b) → ∀ b ∈ (ops.foldl (stepW c) s).banks, P b := by
    intro ops
    induction ops with
    | nil => intro s h; exact h
    | cons op ops ih => intro s h; exact ih _ (hstep s op h)
  apply hfold ops
  intro b hb
  rw [(List.mem_replicate.1 hb).2]
  exact hinit

end lift

/-! ### delay-queue counters -/

def DqOk (c : Cfg) (b : WBank) : Prop := ∀ p ∈ b.dq, p.2 ≤ c.miss

theorem fin_dq (c : Cfg) : ∀ (fuel : Nat) (b : WBank) (log : List Req) (out resp : List Rsp) (pg : Bool),
    (finalizeBankW c fuel b log out resp pg).bank.dq = b.dq := by
  intro fuel
  induction fuel with
  | zero => intro b log out resp pg; rfl
  | succ fuel ih =>
    intro b log out resp pg
    cases ho : b.order with
    | nil => simp only [finalizeBankW, ho]
    | cons o os =>
      simp only [finalizeBankW, ho]
      cases hf : b.early.find? (fun it => decide (it.req = o)) with
      | some it =>
        dsimp only
        split
        · rfl
        · cases hc : commit it log with
          | none => rfl
          | some p =>
            obtain ⟨it', log'⟩ := p
            dsimp only
            split
            · exact ih _ _ _ _ _
            · rfl
      | none =>
        dsimp only
        cases hp : b.post with
        | nil => rfl
        | cons hd t =>
          dsimp only
          split
          · split
            · rfl
            · cases hc : commit hd log with
              | none => rfl
              | some p =>
                obtain ⟨h', log'⟩ := p
                dsimp only
                split
                · exact ih _ _ _ _ _
                · rfl
          · exact ih _ _ _ _ _

theorem accW_dq (c : Cfg) (it : Item) (b b' : WBank) (h : accW c it b = some b') : b'.dq = b.dq ∧ b'.lastRow = b.lastRow := by
  unfold accW at h
  split at h
  · cases ha : acceptLanes (it, c.lat - 1) b.lanes with
    | none => rw [ha] at h; simp at h
    | some ls' => rw [ha] at h; cases h; exact ⟨rfl, rfl⟩
  · simp at h

theorem delayGoW_dq_le (c : Cfg) (m : Nat) : ∀ (dq : List (Item × Nat)) (b : WBank) (rem : List (Item × Nat)),
    (∀ p ∈ dq, p.2 ≤ m) → (∀ p ∈ rem, p.2 ≤ m) → ∀ p ∈ (delayGoW c dq b rem).2, p.2 ≤ m
  | [], _, _, _, hr => hr
  | (it, n) :: rest, b, rem, hd, hr => by
    have hn : n ≤ m := hd (it, n) (by simp)
    have hrest : ∀ p ∈ rest, p.2 ≤ m := fun p hp => hd p (by simp [hp])
    have hrem' : ∀ p ∈ rem ++ [(it, n - 1)], p.2 ≤ m := by
      intro p hp
      rcases List.mem_append.1 hp with hp | hp
      · exact hr p hp
      · rw [List.mem_singleton.1 hp]; show n - 1 ≤ m; omega
    simp only [delayGoW]
    split
    · cases ha : accW c it b with
      | some b' => exact delayGoW_dq_le c m rest b' rem hrest hr
      | none => exact delayGoW_dq_le c m rest b _ hrest hrem'
    · exact delayGoW_dq_le c m rest b _ hrest hrem'

theorem delay_dqOk (c : Cfg) (b : WBank) (h : DqOk c b) : DqOk c (tickBankDelayW c b) :=
  delayGoW_dq_le c c.miss b.dq b [] h (fun _ hp => by cases hp)

theorem dispatchBankW_dqOk (c : Cfg) (r : Req) (b b' : WBank) (h : DqOk c b) (hd : dispatchBankW c r b = some b') :
    DqOk c b' := by
  have happ : ∀ n, n ≤ c.miss → ∀ p ∈ b.dq ++ [(fresh r, n)], p.2 ≤ c.miss := by
    intro n hn p hp
    rcases List.mem_append.1 hp with hp | hp
    · exact h p hp
    · rw [List.mem_singleton.1 hp]; exact hn
  unfold dispatchBankW at hd
  split at hd
  · dsimp only at hd
    split at hd
    · split at hd
      · cases ha : accW c (fresh r) b with
        | some b1 =>
          rw [ha] at hd
          cases hd
          show ∀ p ∈ b1.dq, _
          rw [(accW_dq c _ _ _ ha).1]; exact h
        | none =>
          rw [ha] at hd
          cases hd
          exact happ 0 (Nat.zero_le _)
      · cases hd
        exact happ 0 (Nat.zero_le _)
    · cases hd
      exact happ c.miss (Nat.le_refl _)
  · unfold DqOk
    rw [(accW_dq c _ _ _ hd).1]; exact h

theorem run_dqOk (c : Cfg) (ops : List Op) : ∀ b ∈ (runW c ops).banks, DqOk c b :=
  run_allP c (DqOk c) (fun fuel b log out resp pg h => by unfold DqOk; rw [fin_dq]; exact h)
    (fun b h => h) (delay_dqOk c) (dispatchBankW_dqOk c) (fun _ hp => by cases hp) ops

theorem tickW_dqOk (c : Cfg) (s : WState) (h : ∀ b ∈ s.banks, DqOk c b) : ∀ b ∈ (tickW c s).banks, DqOk c b :=
  tickW_allP c (DqOk c) (fun fuel b log out resp pg h => by unfold DqOk; rw [fin_dq]; exact h)
    (fun b h => h) (delay_dqOk c) (dispatchBankW_dqOk c) s h

end WLive
end C17
