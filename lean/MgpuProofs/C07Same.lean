import MgpuProofs.C07Tim
set_option linter.unusedSimpArgs false
set_option linter.unusedVariables false
/-! # C07 helper lemmas: facts about the flat-cells spec itself, and agreement of two cell records -/
namespace C07
open Gen

theorem tim_writeOperand (t : TimingRF) (wi : Nat) (a : Acc) (v : Nat)
    (ha : a.Supported (t.wf wi).ns (t.wf wi).nv) (hns : (t.wf wi).ns ≤ 102) (hnv : (t.wf wi).nv ≤ 256)
    (hw : a.width ≤ 8) :
    t.writeOperand wi a.k.reg a.rc a.lane v = t.writeOperandBytes wi a.k.reg a.rc a.lane ((toLE 8 v).take a.width) := by
  have := numBytes_width a _ _ hns hnv ha
  simp only [TimingRF.writeOperand, TimingRF.writeOperandBytes, this]
  rw [if_neg (by omega)]

/-! ## the spec: read after write, frame, aliasing -/

theorem toLE4_mod (x : Nat) (h : x < 4294967296) : x % 4294967296 = x := Nat.mod_eq_of_lt h

theorem pair_bytes (d : List UInt8) (hd : d.length = 8) :
    toLE 4 (lo32 (mk64 (leNat (d.take 4)) (leNat (d.drop 4)))) ++
      toLE 4 (hi32 (mk64 (leNat (d.take 4)) (leNat (d.drop 4)))) = d := by
  have h1 : (d.take 4).length = 4 := by simp; omega
  have h2 : (d.drop 4).length = 4 := by simp; omega
  rw [lo32_mk64, hi32_mk64, toLE4_mod _ (leNat4_lt _ h1), toLE4_mod _ (leNat4_lt _ h2),
    toLE_leNat' _ h1, toLE_leNat' _ h2, List.take_append_drop]

theorem lo_bytes (d : List UInt8) (x : Nat) (hd : d.length = 4) : toLE 4 (lo32 (mk64 (leNat d) x)) = d := by
  rw [lo32_mk64, toLE4_mod _ (leNat4_lt _ hd), toLE_leNat' _ hd]
theorem hi_bytes (d : List UInt8) (x : Nat) (hd : d.length = 4) : toLE 4 (hi32 (mk64 x (leNat d))) = d := by
  rw [hi32_mk64, toLE4_mod _ (leNat4_lt _ hd), toLE_leNat' _ hd]
theorem hi_keep (v : UInt64) (x : Nat) : hi32 (mk64 x (hi32 v)) = hi32 v := by
  rw [hi32_mk64, toLE4_mod _ (hi32_lt v)]
theorem lo_keep (v : UInt64) (x : Nat) : lo32 (mk64 (lo32 v) x) = lo32 v := by
  rw [lo32_mk64, toLE4_mod _ (lo32_lt v)]

/-- what was written is read back, at the same width -/
theorem cells_read_after_write (c : Cells) (a : Acc) (d : List UInt8) (hd : d.length = a.width) :
    (c.writeBytes a d).readBytes a = d := by
  obtain ⟨k, rc, lane⟩ := a
  cases k with
  | s i => rw [width_s] at hd; simp only [Cells.writeBytes, Cells.readBytes]; exact regsBytes_updRegs _ _ _ _ hd
  | v i =>
    rw [width_v] at hd; simp only [Cells.writeBytes, Cells.readBytes, if_true]
    exact regsBytes_updRegs _ _ _ _ hd
  | scc =>
    simp [Acc.width, Acc.cells, CellId.bytes] at hd
    match d, hd with
    | [b], _ => simp [Cells.writeBytes, Cells.readBytes]
  | m0 =>
    simp [Acc.width, Acc.cells, CellId.bytes] at hd
    simp only [Cells.writeBytes, Cells.readBytes, UInt32.toNat_ofNat']
    rw [toLE4_mod _ (leNat4_lt d hd), toLE_leNat' _ hd]
  | vcc => simp [Acc.width, Acc.cells, CellId.bytes] at hd; simp [Cells.writeBytes, Cells.readBytes, pair_bytes d hd]
  | exec => simp [Acc.width, Acc.cells, CellId.bytes] at hd; simp [Cells.writeBytes, Cells.readBytes, pair_bytes d hd]
  | vcclo =>
    by_cases h : rc = 2
    · subst h; simp [Acc.width, Acc.cells, CellId.bytes] at hd; simp [Cells.writeBytes, Cells.readBytes, pair_bytes d hd]
    · simp [Acc.width, Acc.cells, CellId.bytes, h] at hd; simp [Cells.writeBytes, Cells.readBytes, h, lo_bytes d _ hd]
  | execlo =>
    by_cases h : rc = 2
    · subst h; simp [Acc.width, Acc.cells, CellId.bytes] at hd; simp [Cells.writeBytes, Cells.readBytes, pair_bytes d hd]
    · simp [Acc.width, Acc.cells, CellId.bytes, h] at hd; simp [Cells.writeBytes, Cells.readBytes, h, lo_bytes d _ hd]
  | vcchi => simp [Acc.width, Acc.cells, CellId.bytes] at hd; simp [Cells.writeBytes, Cells.readBytes, hi_bytes d _ hd]
  | exechi => simp [Acc.width, Acc.cells, CellId.bytes] at hd; simp [Cells.writeBytes, Cells.readBytes, hi_bytes d _ hd]

/-- a write changes no cell outside the ones the access denotes -/
theorem cells_frame (c : Cells) (a : Acc) (d : List UInt8) (id : CellId) (h : id ∉ a.cells) :
    (c.writeBytes a d).cell id = c.cell id := by
  obtain ⟨k, rc, lane⟩ := a
  cases k with
  | s i =>
    cases id with
    | s j =>
      simp only [Acc.cells, List.mem_map, List.mem_range, not_exists, not_and] at h
      have : ¬ (i ≤ j ∧ j < i + cnt rc) := fun ⟨h1, h2⟩ => h (j - i) (by omega) (by congr 1; omega)
      simp [Cells.writeBytes, Cells.cell, updRegs, this]
    | _ => simp [Cells.writeBytes, Cells.cell]
  | v i =>
    cases id with
    | v l j =>
      simp only [Acc.cells, List.mem_map, List.mem_range, not_exists, not_and] at h
      simp only [Cells.writeBytes, Cells.cell]
      by_cases hl : l = lane
      · subst hl
        have : ¬ (i ≤ j ∧ j < i + cnt rc) := fun ⟨h1, h2⟩ => h (j - i) (by omega) (by congr 1; omega)
        simp [updRegs, this]
      · simp [hl]
    | _ => simp [Cells.writeBytes, Cells.cell]
  | scc => cases id <;> simp_all [Cells.writeBytes, Cells.cell, Acc.cells]
  | m0 => cases id <;> simp_all [Cells.writeBytes, Cells.cell, Acc.cells]
  | vcc => cases id <;> simp_all [Cells.writeBytes, Cells.cell, Acc.cells]
  | exec => cases id <;> simp_all [Cells.writeBytes, Cells.cell, Acc.cells]
  | vcchi => cases id <;> simp_all [Cells.writeBytes, Cells.cell, Acc.cells, lo_keep]
  | exechi => cases id <;> simp_all [Cells.writeBytes, Cells.cell, Acc.cells, lo_keep]
  | vcclo =>
    by_cases h2 : rc = 2 <;> cases id <;> simp_all [Cells.writeBytes, Cells.cell, Acc.cells, hi_keep]
  | execlo =>
    by_cases h2 : rc = 2 <;> cases id <;> simp_all [Cells.writeBytes, Cells.cell, Acc.cells, hi_keep]

/-- an access reads exactly the cells it denotes, in order, each at its own width (multi-register
    operands and the 64-bit pairs alias their constituent registers) -/
theorem cells_read_eq_cells (c : Cells) (a : Acc) : c.readBytes a = a.cells.flatMap c.cellBytes := by
  obtain ⟨k, rc, lane⟩ := a
  cases k with
  | s i => simp [Cells.readBytes, Acc.cells, regsBytes, List.flatMap_map, Cells.cellBytes, Cells.cell]
  | v i => simp [Cells.readBytes, Acc.cells, regsBytes, List.flatMap_map, Cells.cellBytes, Cells.cell]
  | vcclo => by_cases h : rc = 2 <;> simp [Cells.readBytes, Acc.cells, Cells.cellBytes, Cells.cell, h]
  | execlo => by_cases h : rc = 2 <;> simp [Cells.readBytes, Acc.cells, Cells.cellBytes, Cells.cell, h]
  | _ => simp [Cells.readBytes, Acc.cells, Cells.cellBytes, Cells.cell]

/-! ## agreement of two cell records on a wavefront's registers -/

/-- two records hold the same values in the `ns` SGPRs / `nv` VGPRs (all 64 lanes) a wavefront owns
    and in the special registers -/
def Agree (c c' : Cells) (ns nv : Nat) : Prop :=
  (∀ i, i < ns → c.s i = c'.s i) ∧ (∀ l i, l < 64 → i < nv → c.v l i = c'.v l i) ∧
  c.vcc = c'.vcc ∧ c.exec = c'.exec ∧ c.scc = c'.scc ∧ c.m0 = c'.m0

theorem regsBytes_congr (g g' : Nat → Nat) (i k : Nat) (h : ∀ j, j < k → g (i + j) = g' (i + j)) :
    regsBytes g i k = regsBytes g' i k := by
  unfold regsBytes
  exact flatMap_congr' (fun j hj => by rw [h j (List.mem_range.mp hj)])

theorem readBytes_agree (c c' : Cells) (ns nv : Nat) (a : Acc) (h : Agree c c' ns nv) (ha : a.Supported ns nv) :
    c.readBytes a = c'.readBytes a := by
  obtain ⟨k, rc, lane⟩ := a
  obtain ⟨hs, hv, h1, h2, h3, h4⟩ := h
  cases k with
  | s i =>
    obtain ⟨_, hb⟩ := ha
    simp only at hb
    exact regsBytes_congr _ _ _ _ (fun j hj => hs _ (by simp only at hj; omega))
  | v i =>
    obtain ⟨_, hb, hl⟩ := ha
    simp only at hb hl
    exact regsBytes_congr _ _ _ _ (fun j hj => hv _ _ hl (by simp only at hj; omega))
  | _ => simp [Cells.readBytes, h1, h2, h3, h4]

theorem writeBytes_agree (c c' : Cells) (ns nv : Nat) (a : Acc) (d : List UInt8) (h : Agree c c' ns nv) :
    Agree (c.writeBytes a d) (c'.writeBytes a d) ns nv := by
  obtain ⟨k, rc, lane⟩ := a
  obtain ⟨hs, hv, h1, h2, h3, h4⟩ := h
  cases k with
  | s i =>
    refine ⟨fun j hj => ?_, hv, h1, h2, h3, h4⟩
    simp only [Cells.writeBytes, updRegs]
    split
    · rfl
    · exact hs j hj
  | v i =>
    refine ⟨hs, fun l j hl hj => ?_, h1, h2, h3, h4⟩
    simp only [Cells.writeBytes]
    split
    · simp only [updRegs]
      split
      · rfl
      · exact hv l j hl hj
    · exact hv l j hl hj
  | vcclo => by_cases e : rc = 2 <;> simp [Cells.writeBytes, e, Agree, hs, hv, h1, h2, h3, h4] <;> exact ⟨hs, hv⟩
  | execlo => by_cases e : rc = 2 <;> simp [Cells.writeBytes, e, Agree, hs, hv, h1, h2, h3, h4] <;> exact ⟨hs, hv⟩
  | _ => simp [Cells.writeBytes, Agree, hs, hv, h1, h2, h3, h4] <;> exact ⟨hs, hv⟩

theorem supported_mono (a : Acc) (ns nv ns' nv' : Nat) (h1 : ns ≤ ns') (h2 : nv ≤ nv') (ha : a.Supported ns nv) :
    a.Supported ns' nv' := by
  obtain ⟨k, rc, lane⟩ := a
  cases k with
  | s i => exact ⟨ha.1, by have := ha.2; simp only at this ⊢; omega⟩
  | v i => exact ⟨ha.1, by have := ha.2.1; simp only at this ⊢; omega, ha.2.2⟩
  | _ => exact ha

end C07
