import MgpuModel.C19_Base
/-! Helper lemmas for C19: page-table update and the re-homing step. -/
namespace C19

def sameKey (pg : Page) (p : Page) : Bool := p.pid == pg.pid && p.vaddr == pg.vaddr

theorem find_replace (t : List Page) (pg : Page) (pid v : Nat) :
    (t.map fun p => if p.pid == pg.pid && p.vaddr == pg.vaddr then pg else p).find?
        (fun p => p.pid == pid && p.vaddr == v) =
      if pid = pg.pid ∧ v = pg.vaddr then
        (t.find? (fun p => p.pid == pg.pid && p.vaddr == pg.vaddr)).map (fun _ => pg)
      else t.find? (fun p => p.pid == pid && p.vaddr == v) := by
  induction t with
  | nil => simp
  | cons q qs ih =>
    simp only [List.map_cons, List.find?_cons]
    by_cases hq : (q.pid == pg.pid && q.vaddr == pg.vaddr) = true
    · simp only [hq, if_true]
      by_cases hk : pid = pg.pid ∧ v = pg.vaddr
      · obtain ⟨rfl, rfl⟩ := hk
        simp
      · simp only [hk, if_false]
        have : (pg.pid == pid && pg.vaddr == v) = false := by
          simp only [Bool.and_eq_false_iff, beq_eq_false_iff_ne]
          by_cases h1 : pg.pid = pid
          · right; intro h2; exact hk ⟨h1.symm, h2.symm⟩
          · left; exact h1
        have hq' : (q.pid == pid && q.vaddr == v) = false := by
          simp only [Bool.and_eq_true, beq_iff_eq] at hq
          rw [hq.1, hq.2]; exact this
        rw [this, hq']
        simp only [ih, hk, if_false]
    · have hq' : (q.pid == pg.pid && q.vaddr == pg.vaddr) = false := by simpa using hq
      simp only [hq', Bool.false_eq_true, if_false]
      by_cases hk : pid = pg.pid ∧ v = pg.vaddr
      · obtain ⟨rfl, rfl⟩ := hk
        simp only [hq', and_self, if_true]
        rw [ih]; simp
      · simp only [hk, if_false]
        cases hm : (q.pid == pid && q.vaddr == v)
        · simp only [ih, hk, if_false]
        · rfl

theorem update_spec (a a' : Alloc) (pg : Page) (h : a.update pg = some a') :
    a'.free = a.free ∧ a'.lg = a.lg ∧ a'.range = a.range ∧ (a.find pg.pid pg.vaddr).isSome ∧
    (∀ pid v, a'.find pid v = if pid = pg.pid ∧ v = pg.vaddr then some pg else a.find pid v) := by
  unfold Alloc.update at h
  split at h
  · rename_i hs
    injection h with h
    subst h
    refine ⟨rfl, rfl, rfl, hs, ?_⟩
    intro pid v
    simp only [Alloc.find]
    rw [find_replace]
    by_cases hk : pid = pg.pid ∧ v = pg.vaddr
    · simp only [hk, and_self, if_true]
      simp only [Alloc.find] at hs
      cases hf : a.table.find? (fun p => p.pid == pg.pid && p.vaddr == pg.vaddr) with
      | none => rw [hf] at hs; simp at hs
      | some x => rfl
    · simp only [hk, if_false]
  · cases h

theorem pop_spec (a a1 : Alloc) (dev x : Nat) (h : a.pop dev = .ok (x, a1)) :
    ∃ rest, a.free[dev]? = some (x :: rest) ∧ a1 = { a with free := a.free.set dev rest } := by
  unfold Alloc.pop at h
  split at h
  · cases h
  · cases h
  · rename_i y rest hf
    injection h with h
    injection h with h1 h2
    subst h1
    exact ⟨rest, hf, h2.symm⟩

end C19
