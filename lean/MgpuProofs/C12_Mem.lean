import MgpuModel.C12_Mem
import MgpuProofs.C12
/-! Helper lemmas for C12.M: the completion log of each queue is its `done` list; the store is the
    log applied to the initial store; isolation of disjoint footprints. -/
namespace C12
namespace M

theorem proj_append (i : Nat) (a b : List (Nat × Nat)) : proj i (a ++ b) = proj i a ++ proj i b := by
  simp [proj, List.filter_append]

theorem proj_cons_eq (i c : Nat) (l : List (Nat × Nat)) : proj i ((i, c) :: l) = c :: proj i l := by
  simp [proj]

theorem proj_cons_ne (i k c : Nat) (l : List (Nat × Nat)) (h : k ≠ i) : proj i ((k, c) :: l) = proj i l := by
  simp [proj, h]

/-- the entries of queue `i` among the completions of one step -/
theorem proj_newly (op : Q.Op) (qs : List Q.Queue) (k i : Nat) :
    proj i (newly op k qs) =
      if k ≤ i then (match qs[i - k]? with | some q => (completes op i q).toList | none => []) else [] := by
  induction qs generalizing k with
  | nil => simp [newly, proj]
  | cons q rest ih =>
    simp only [newly, proj_append, ih (k + 1)]
    by_cases hki : k = i
    · subst hki
      have h1 : ¬ (k + 1 ≤ k) := by omega
      simp only [h1, if_false, Nat.le_refl, if_true, Nat.sub_self, List.getElem?_cons_zero, List.append_nil]
      cases hc : completes op k q with
      | none => simp [proj]
      | some c => simp [proj]
    · by_cases hlt : k < i
      · have h1 : k + 1 ≤ i := hlt
        have h2 : k ≤ i := by omega
        have h3 : i - k = (i - (k + 1)) + 1 := by omega
        simp only [h1, h2, if_true, h3, List.getElem?_cons_succ]
        cases hc : completes op k q with
        | none => simp [proj]
        | some c => simp [proj, hki]
      · have h1 : ¬ (k + 1 ≤ i) := by omega
        have h2 : ¬ (k ≤ i) := by omega
        simp only [h1, h2, if_false, List.append_nil]
        cases hc : completes op k q with
        | none => simp [proj]
        | some c => simp [proj, hki]

/-- whatever a queue completes is its head -/
theorem completes_head (op : Q.Op) (i : Nat) (q : Q.Queue) (c : Nat) (h : completes op i q = some c) :
    ∃ x xs, q.cmds = x :: xs ∧ x.id = c := by
  unfold completes at h
  cases op with
  | enq j k => simp at h
  | tick =>
    simp only at h
    cases hc : q.cmds with
    | nil => simp [hc] at h
    | cons x xs =>
      simp only [hc] at h
      split at h
      · simp at h
      · split at h
        · injection h with h; exact ⟨x, xs, rfl, h⟩
        · simp at h
  | rsp j =>
    simp only at h
    split at h
    · cases hc : q.cmds with
      | nil => simp [hc] at h
      | cons x xs =>
        simp only [hc] at h
        split at h
        · injection h with h; exact ⟨x, xs, rfl, h⟩
        · simp at h
    · simp at h

/-- the `done` log of queue `i` grows by exactly what `completes` says -/
theorem done_step (s : Q.St) (op : Q.Op) (i : Nat) (q : Q.Queue) (hq : s.qs[i]? = some q) :
    ∃ q', (Q.step s op).qs[i]? = some q' ∧ q'.done = q.done ++ (completes op i q).toList := by
  cases op with
  | enq j k =>
    simp only [Q.step]
    split
    · by_cases hij : i = j
      · subst hij
        rw [Q.updAt_get_eq, hq]
        exact ⟨_, rfl, by simp [Q.enqQueue, completes]⟩
      · rw [Q.updAt_get_ne _ _ _ _ hij, hq]
        exact ⟨_, rfl, by simp [completes]⟩
    · exact ⟨q, hq, by simp [completes]⟩
  | tick =>
    simp only [Q.step, List.getElem?_map, hq, Option.map_some]
    refine ⟨_, rfl, ?_⟩
    unfold Q.procQueue completes
    cases hc : q.cmds with
    | nil => simp
    | cons x xs =>
      simp only
      cases hr : q.running with
      | true => simp
      | false =>
        simp only [Bool.false_eq_true, if_false]
        cases hk : x.kind <;> simp
  | rsp j =>
    simp only [Q.step]
    by_cases hij : i = j
    · subst hij
      rw [Q.updAt_get_eq, hq]
      refine ⟨_, rfl, ?_⟩
      unfold Q.rspQueue completes
      cases hc : q.cmds with
      | nil => simp
      | cons x xs =>
        simp only [if_true]
        cases hr : q.running <;> simp
    · rw [Q.updAt_get_ne _ _ _ _ hij, hq]
      refine ⟨_, rfl, ?_⟩
      have : ¬ (j = i) := fun h => hij h.symm
      simp [completes, this]

theorem applyLog_append (eff : Eff) (a b : List (Nat × Nat)) (σ : Store) :
    applyLog eff (a ++ b) σ = applyLog eff b (applyLog eff a σ) := by
  simp [applyLog, List.foldl_append]

/-- log/store invariant of the layered model -/
structure MInv (eff : Eff) (σ0 : Store) (s : St) : Prop where
  store_log : s.store = applyLog eff s.log σ0
  per_queue : ∀ i q, s.q.qs[i]? = some q → proj i s.log = q.done

theorem minv_init (eff : Eff) (n : Nat) (σ0 : Store) : MInv eff σ0 (init n σ0) := by
  constructor
  · rfl
  · intro i q hq
    have := List.mem_of_getElem? hq
    simp only [init, Q.init, List.mem_replicate] at this
    rw [this.2]; rfl

theorem minv_step (eff : Eff) (σ0 : Store) (s : St) (op : Q.Op) (h : MInv eff σ0 s) : MInv eff σ0 (step eff s op) := by
  constructor
  · simp only [step, applyLog_append, ← h.store_log]
  · intro i q' hq'
    simp only [step] at hq' ⊢
    have hlen : (Q.step s.q op).qs.length = s.q.qs.length := by
      cases op with
      | enq j k =>
        simp only [Q.step]; split
        · have : ∀ (f : Q.Queue → Q.Queue) (j : Nat) (l : List Q.Queue), (Q.updAt f j l).length = l.length := by
            intro f j l
            induction l generalizing j with
            | nil => simp [Q.updAt]
            | cons x t ih => cases j <;> simp [Q.updAt, ih]
          exact this _ _ _
        · rfl
      | tick => simp [Q.step]
      | rsp j =>
        simp only [Q.step]
        have : ∀ (f : Q.Queue → Q.Queue) (j : Nat) (l : List Q.Queue), (Q.updAt f j l).length = l.length := by
          intro f j l
          induction l generalizing j with
          | nil => simp [Q.updAt]
          | cons x t ih => cases j <;> simp [Q.updAt, ih]
        exact this _ _ _
    have hi : i < s.q.qs.length := by
      have := (List.getElem?_eq_some_iff.mp hq').1
      omega
    obtain ⟨q, hq⟩ : ∃ q, s.q.qs[i]? = some q := ⟨s.q.qs[i], List.getElem?_eq_getElem hi⟩
    obtain ⟨q2, hq2, hd⟩ := done_step s.q op i q hq
    rw [hq2] at hq'; injection hq' with hq'; subst hq'
    rw [proj_append, h.per_queue i q hq, proj_newly, hd]
    simp [hq]

theorem minv_run (eff : Eff) (σ0 : Store) (ops : List Q.Op) (s : St) (h : MInv eff σ0 s) : MInv eff σ0 (run eff s ops) := by
  induction ops generalizing s with
  | nil => exact h
  | cons op ops ih => exact ih _ (minv_step eff σ0 s op h)

theorem run_q (eff : Eff) (ops : List Q.Op) (s : St) : (run eff s ops).q = Q.run s.q ops := by
  induction ops generalizing s with
  | nil => rfl
  | cons op ops ih => simp only [run, List.foldl_cons, Q.run] at ih ⊢; exact ih (step eff s op)

/-- cells in `F` see only the commands of queue `i` -/
theorem applyLog_iso (eff : Eff) (F : Nat → Prop) (i : Nat) (l : List (Nat × Nat))
    (h1 : ∀ e ∈ l, e.1 = i → ∀ σ τ : Store, (∀ x, F x → σ x = τ x) → ∀ x, F x → eff e.2 σ x = eff e.2 τ x)
    (h2 : ∀ e ∈ l, e.1 ≠ i → ∀ (σ : Store) x, F x → eff e.2 σ x = σ x)
    (σ σ' : Store) (hag : ∀ x, F x → σ x = σ' x) : ∀ x, F x → applyLog eff l σ x = applyIds eff (proj i l) σ' x := by
  induction l generalizing σ σ' with
  | nil => intro x hx; simpa [applyLog, applyIds, proj] using hag x hx
  | cons e rest ih =>
    obtain ⟨k, c⟩ := e
    have h1' : ∀ e ∈ rest, e.1 = i → ∀ σ τ : Store, (∀ x, F x → σ x = τ x) → ∀ x, F x → eff e.2 σ x = eff e.2 τ x :=
      fun e he => h1 e (List.mem_cons_of_mem _ he)
    have h2' : ∀ e ∈ rest, e.1 ≠ i → ∀ (σ : Store) x, F x → eff e.2 σ x = σ x :=
      fun e he => h2 e (List.mem_cons_of_mem _ he)
    by_cases hk : k = i
    · subst hk
      rw [proj_cons_eq]
      simp only [applyLog, applyIds, List.foldl_cons]
      exact ih h1' h2' (eff c σ) (eff c σ') (h1 (k, c) (by simp) rfl σ σ' hag)
    · rw [proj_cons_ne _ _ _ _ hk]
      simp only [applyLog, List.foldl_cons]
      refine ih h1' h2' (eff c σ) σ' ?_
      intro x hx
      rw [h2 (k, c) (by simp) hk σ x hx]; exact hag x hx

end M
end C12
