import MgpuProofs.C20_Cons2
/-! # C20 — the conserved quantity `Q` (instructions received + instructions pending) is preserved by
    every tick of every component and connection -/
namespace C20

theorem Q_sub_none (s : Sys) (m u : Nat) (l : Level Warp) (c : Sub)
    (hl : l.weight id = (get s.l2 m).weight id) (hc : c.insts = (get s.subs u).insts) :
    Q { s with l2 := upd s.l2 m l, subs := upd s.subs u c } = Q s := by
  have h1 := sum_upd (Level.weight (id : Warp → Nat)) rfl s.l2 m l
  have h2 := sum_upd (fun c : Sub => c.insts) rfl s.subs u c
  simp only [Q_eq, QI] at h1 h2 ⊢
  omega

theorem Q_sub_some (s : Sys) (m u n : Nat) (l : Level Warp) (c : Sub)
    (hl : l.weight id + n = (get s.l2 m).weight id) (hc : c.insts = (get s.subs u).insts + n) :
    Q { s with l2 := upd s.l2 m l, subs := upd s.subs u c } = Q s := by
  have h1 := sum_upd (Level.weight (id : Warp → Nat)) rfl s.l2 m l
  have h2 := sum_upd (fun c : Sub => c.insts) rfl s.subs u c
  simp only [Q_eq, QI] at h1 h2 ⊢
  omega

theorem Q_tickSub (s : Sys) (u : Nat) : Q (tickSub s u) = Q s := by
  unfold tickSub
  simp only
  by_cases hf : (get s.subs u).fin = 0
  · simp only [hf, ite_true]
    cases hct : (get s.l2 (u / s.C)).childTake (u % s.C) with
    | none => simp only []; exact Q_sub_none _ _ _ _ _ rfl rfl
    | some x =>
      obtain ⟨n, lm', wf⟩ := x
      have hw := Level.weight_childTake id _ _ _ _ _ hct
      simp only []
      split
      · rw [Q_wakeMany _ Q_wakeSub, Q_wakeSm]; exact Q_sub_some _ _ _ n _ _ hw rfl
      · exact Q_sub_some _ _ _ n _ _ hw rfl
  · simp only [hf, ite_false]
    cases hcs : (get s.l2 (u / s.C)).childSend (u % s.C) with
    | none =>
      simp only []
      cases hct : (get s.l2 (u / s.C)).childTake (u % s.C) with
      | none => simp only []; exact Q_sub_none _ _ _ _ _ rfl rfl
      | some x =>
        obtain ⟨n, lm', wf⟩ := x
        have hw := Level.weight_childTake id _ _ _ _ _ hct
        simp only []
        split
        · rw [Q_wakeMany _ Q_wakeSub, Q_wakeSm]; exact Q_sub_some _ _ _ n _ _ hw rfl
        · exact Q_sub_some _ _ _ n _ _ hw rfl
    | some l' =>
      have hs := Level.weight_childSend id _ _ _ hcs
      simp only []
      cases hct : l'.childTake (u % s.C) with
      | none => simp only []; exact Q_sub_none _ _ _ _ _ hs rfl
      | some x =>
        obtain ⟨n, lm', wf⟩ := x
        have hw := Level.weight_childTake id _ _ _ _ _ hct
        simp only []
        split
        · rw [Q_wakeMany _ Q_wakeSub, Q_wakeSm]; exact Q_sub_some _ _ _ n _ _ (by simp only [id] at hw; omega) rfl
        · exact Q_sub_some _ _ _ n _ _ (by simp only [id] at hw; omega) rfl

@[simp] theorem Q_wakeManyGpu (f : Nat → Nat) (s : Sys) (ks : List Nat) : Q (wakeMany wakeGpu f s ks) = Q s := Q_wakeMany _ Q_wakeGpu _ _ _
@[simp] theorem Q_wakeManySm (f : Nat → Nat) (s : Sys) (ks : List Nat) : Q (wakeMany wakeSm f s ks) = Q s := Q_wakeMany _ Q_wakeSm _ _ _
@[simp] theorem Q_wakeManySub (f : Nat → Nat) (s : Sys) (ks : List Nat) : Q (wakeMany wakeSub f s ks) = Q s := Q_wakeMany _ Q_wakeSub _ _ _
attribute [simp] Q_wakeGpu Q_wakeSm Q_wakeSub Q_dAwake

theorem Q_ite (c : Bool) (a b : Sys) (x : Nat) (ha : Q a = x) (hb : Q b = x) : Q (if c = true then a else b) = x := by
  split <;> assumption

theorem Q_sm (s : Sys) (g m : Nat) (lg : Level Block) (lm : Level Warp) (sms : List Smx)
    (h : lg.weight instsOfBlock + lm.weight id = (get s.l1 g).weight instsOfBlock + (get s.l2 m).weight id) :
    Q { s with l1 := upd s.l1 g lg, l2 := upd s.l2 m lm, sms := sms } = Q s := by
  have h1 := sum_upd (Level.weight instsOfBlock) rfl s.l1 g lg
  have h2 := sum_upd (Level.weight (id : Warp → Nat)) rfl s.l2 m lm
  simp only [Q_eq, QI] at h1 h2 ⊢
  omega

theorem weight_accept {α : Type} (w : α → Nat) (l : Level α) (k : List α) (n : Nat) :
    Level.weight w { l with undisp := l.undisp ++ k, unfin := n } = l.weight w + sum (k.map w) := by
  simp [Level.weight]; omega

theorem Q_tickSm (s : Sys) (m : Nat) : Q (tickSm s m) = Q s := by
  unfold tickSm
  simp only
  by_cases hf : (get s.sms m).fin = 0
  · simp only [hf, ite_true]
    cases hct : (get s.l1 (m / s.S)).childTake (m % s.S) with
    | none =>
      simp only []
      repeat' (first | apply Q_ite | rw [Q_wakeManySub] | rw [Q_wakeManySm] | rw [Q_wakeGpu])
      all_goals (apply Q_sm; simp only [Level.weight_procUp, Level.weight_dispatch])
    | some x =>
      obtain ⟨b, lg', wf⟩ := x
      have hw := Level.weight_childTake instsOfBlock _ _ _ _ _ hct
      simp only []
      repeat' (first | apply Q_ite | rw [Q_wakeManySub] | rw [Q_wakeManySm] | rw [Q_wakeGpu])
      all_goals (apply Q_sm; simp only [Level.weight_procUp, weight_accept, Level.weight_dispatch, List.map_id, instsOfBlock] at hw ⊢; omega)
  · simp only [hf, ite_false]
    cases hcs : (get s.l1 (m / s.S)).childSend (m % s.S) with
    | none =>
      simp only []
      cases hct : (get s.l1 (m / s.S)).childTake (m % s.S) with
      | none =>
        simp only []
        repeat' (first | apply Q_ite | rw [Q_wakeManySub] | rw [Q_wakeManySm] | rw [Q_wakeGpu])
        all_goals (apply Q_sm; simp only [Level.weight_procUp, Level.weight_dispatch])
      | some x =>
        obtain ⟨b, lg', wf⟩ := x
        have hw := Level.weight_childTake instsOfBlock _ _ _ _ _ hct
        simp only []
        repeat' (first | apply Q_ite | rw [Q_wakeManySub] | rw [Q_wakeManySm] | rw [Q_wakeGpu])
        all_goals (apply Q_sm; simp only [Level.weight_procUp, weight_accept, Level.weight_dispatch, List.map_id, instsOfBlock] at hw ⊢; omega)
    | some l' =>
      have hs := Level.weight_childSend instsOfBlock _ _ _ hcs
      simp only []
      cases hct : l'.childTake (m % s.S) with
      | none =>
        simp only []
        repeat' (first | apply Q_ite | rw [Q_wakeManySub] | rw [Q_wakeManySm] | rw [Q_wakeGpu])
        all_goals (apply Q_sm; simp only [Level.weight_procUp, Level.weight_dispatch]; omega)
      | some x =>
        obtain ⟨b, lg', wf⟩ := x
        have hw := Level.weight_childTake instsOfBlock _ _ _ _ _ hct
        simp only []
        repeat' (first | apply Q_ite | rw [Q_wakeManySub] | rw [Q_wakeManySm] | rw [Q_wakeGpu])
        all_goals (apply Q_sm; simp only [Level.weight_procUp, weight_accept, Level.weight_dispatch, List.map_id, instsOfBlock] at hw hs ⊢; omega)
theorem Q_gpu (s : Sys) (g : Nat) (l0 : Level Kernel) (lg : Level Block) (gpus : List Gpu) (b : Bool)
    (h : l0.weight instsOfKernel + lg.weight instsOfBlock = s.l0.weight instsOfKernel + (get s.l1 g).weight instsOfBlock) :
    Q { s with l0 := l0, l1 := upd s.l1 g lg, gpus := gpus, dAwake := b } = Q s := by
  have h1 := sum_upd (Level.weight instsOfBlock) rfl s.l1 g lg
  simp only [Q_eq, QI] at h1 ⊢
  omega

theorem Q_tickGpu (s : Sys) (g : Nat) : Q (tickGpu s g) = Q s := by
  unfold tickGpu
  simp only
  by_cases hf : (get s.gpus g).fin = 0
  · simp only [hf, ite_true]
    cases hct : s.l0.childTake g with
    | none =>
      try simp only []
      repeat' (first | apply Q_ite | rw [Q_wakeManySm] | rw [Q_wakeManyGpu])
      all_goals (apply Q_gpu; simp only [Level.weight_procUp, Level.weight_dispatch])
    | some x =>
      obtain ⟨b, lg', wf⟩ := x
      have hw := Level.weight_childTake instsOfKernel _ _ _ _ _ hct
      try simp only []
      repeat' (first | apply Q_ite | rw [Q_wakeManySm] | rw [Q_wakeManyGpu])
      all_goals (apply Q_gpu; simp only [Level.weight_procUp, weight_accept, Level.weight_dispatch, instsOfKernel] at hw ⊢; omega)
  · simp only [hf, ite_false]
    cases hcs : s.l0.childSend g with
    | none =>
      try simp only []
      cases hct : s.l0.childTake g with
      | none =>
        try simp only []
        repeat' (first | apply Q_ite | rw [Q_wakeManySm] | rw [Q_wakeManyGpu])
        all_goals (apply Q_gpu; simp only [Level.weight_procUp, Level.weight_dispatch])
      | some x =>
        obtain ⟨b, lg', wf⟩ := x
        have hw := Level.weight_childTake instsOfKernel _ _ _ _ _ hct
        try simp only []
        repeat' (first | apply Q_ite | rw [Q_wakeManySm] | rw [Q_wakeManyGpu])
        all_goals (apply Q_gpu; simp only [Level.weight_procUp, weight_accept, Level.weight_dispatch, instsOfKernel] at hw ⊢; omega)
    | some l' =>
      have hs := Level.weight_childSend instsOfKernel _ _ _ hcs
      try simp only []
      cases hct : l'.childTake g with
      | none =>
        try simp only []
        repeat' (first | apply Q_ite | rw [Q_wakeManySm] | rw [Q_wakeManyGpu])
        all_goals (apply Q_gpu; simp only [Level.weight_procUp, Level.weight_dispatch]; omega)
      | some x =>
        obtain ⟨b, lg', wf⟩ := x
        have hw := Level.weight_childTake instsOfKernel _ _ _ _ _ hct
        try simp only []
        repeat' (first | apply Q_ite | rw [Q_wakeManySm] | rw [Q_wakeManyGpu])
        all_goals (apply Q_gpu; simp only [Level.weight_procUp, weight_accept, Level.weight_dispatch, instsOfKernel] at hw hs ⊢; omega)

theorem Q_step (s : Sys) (e : Ev) : Q (step s e) = Q s := by
  cases e with
  | drv => exact Q_tickDriver s
  | gpu g => exact Q_tickGpu s g
  | sm m => exact Q_tickSm s m
  | sub u => exact Q_tickSub s u
  | c0 => exact Q_tickConn0 s
  | c1 g => exact Q_tickConn1 s g
  | c2 m => exact Q_tickConn2 s m

theorem Q_run (s : Sys) (evs : List Ev) : Q (run s evs) = Q s := by
  unfold run
  induction evs generalizing s with
  | nil => rfl
  | cons e es ih => simp only [List.foldl_cons]; rw [ih, Q_step]

theorem Q_init (legacy : Bool) (G S C : Nat) (trace : List Kernel) :
    Q (init legacy G S C trace) = instsOfTrace trace := by
  simp [Q_eq, QI, init, Level.sum_replicate_zero, Level.weight, mkLevel, instsOfTrace]

end C20
