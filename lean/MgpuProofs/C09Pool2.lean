import MgpuProofs.C09Pool1
/-! # C09 — the shared CU pool under the dispatchers, part 2: the command-processor invariant and
    `algorithm.Next`. -/
namespace C09

/-- side invariant of one dispatcher (its kernel and its placement algorithm): the index of a fetched
    work-group is inside the grid; an idle dispatcher holds no work-group and has nothing left -/
def DispOK (kern : Option Kern) (a : Alg) : Prop :=
  match kern with
  | none => a.currWG = none ∧ a.hasNext = false
  | some k => a.kern = some k ∧ KernOK k ∧ a.numDispatched ≤ k.numWG ∧ a.pos ≤ k.numWG ∧
      (a.currWG = none → a.pos = a.numDispatched) ∧
      (∀ key idx, a.currWG = some (key, idx) → idx = a.numDispatched ∧ a.pos = a.numDispatched + 1)

/-- the command-processor invariant; with `b = true` also the key-freshness part -/
structure CPInv (b : Bool) (caps : List (List Nat)) (cp : CP) : Prop where
  /-- unless "reserving a work-group twice" was hit, every CU satisfies the resource invariant -/
  pool : cp.fault ≠ some "twice" → PoolInv caps cp.pool
  /-- every dispatcher satisfies the side invariant -/
  disp : ∀ j, DispOK (cp.disp j).kern (cp.disp j).alg
  /-- queued launch requests are well formed -/
  drv : ∀ k ∈ cp.drvIn, KernOK k
  /-- "reserving a work-group twice" was not hit -/
  noTwice : b = true → cp.fault ≠ some "twice"
  /-- resident keys were drawn from the counter -/
  res : b = true → ∀ cu ∈ cp.pool, ∀ e ∈ cu.resident, e.1 < cp.nextKey
  /-- a work-group waiting for placement was drawn from the counter and is resident nowhere -/
  cur : b = true → ∀ j key idx, (cp.disp j).alg.currWG = some (key, idx) →
    key < cp.nextKey ∧ ∀ cu ∈ cp.pool, ∀ e ∈ cu.resident, e.1 ≠ key
  /-- two dispatchers never wait with the same work-group -/
  distinct : b = true → ∀ i j key idx idx', i ≠ j → (cp.disp i).alg.currWG = some (key, idx) →
    (cp.disp j).alg.currWG = some (key, idx') → False

/-- a step that changes neither the kernels, the algorithms, the key counter nor the launch queue,
    and only removes resident entries -/
theorem CPInv_frame (b : Bool) (caps : List (List Nat)) (cp cp' : CP) (h : CPInv b caps cp)
    (hpool : cp'.fault ≠ some "twice" → PoolInv caps cp'.pool)
    (hres : ∀ cu' ∈ cp'.pool, ∀ e ∈ cu'.resident, ∃ cu ∈ cp.pool, e ∈ cu.resident)
    (hnk : cp'.nextKey = cp.nextKey)
    (hf : cp'.fault = some "twice" → cp.fault = some "twice")
    (hdrv : ∀ k ∈ cp'.drvIn, k ∈ cp.drvIn)
    (hd : ∀ j, (cp'.disp j).kern = (cp.disp j).kern ∧ (cp'.disp j).alg = (cp.disp j).alg) :
    CPInv b caps cp' := by
  exact {
    pool := hpool
    disp := by intro j; rw [(hd j).1, (hd j).2]; exact h.disp j
    drv := fun k hk => h.drv k (hdrv k hk)
    noTwice := fun hb h' => h.noTwice hb (hf h')
    res := by
      intro hb cu' hcu' e he
      obtain ⟨cu, hcu, he'⟩ := hres cu' hcu' e he
      rw [hnk]; exact h.res hb cu hcu e he'
    cur := by
      intro hb j key idx hc
      rw [(hd j).2] at hc
      obtain ⟨h1, h2⟩ := h.cur hb j key idx hc
      refine ⟨by rw [hnk]; exact h1, ?_⟩
      intro cu' hcu' e he
      obtain ⟨cu, hcu, he'⟩ := hres cu' hcu' e he
      exact h2 cu hcu e he'
    distinct := by
      intro hb i j key idx idx' hne h1 h2
      rw [(hd i).2] at h1; rw [(hd j).2] at h2
      exact h.distinct hb i j key idx idx' hne h1 h2 }

theorem CPInv_congr (b : Bool) (caps : List (List Nat)) (cp cp' : CP) (h : CPInv b caps cp)
    (hpool : cp'.pool = cp.pool) (hnk : cp'.nextKey = cp.nextKey)
    (hf : cp'.fault = some "twice" ↔ cp.fault = some "twice")
    (hdrv : ∀ k ∈ cp'.drvIn, k ∈ cp.drvIn)
    (hd : ∀ j, (cp'.disp j).kern = (cp.disp j).kern ∧ (cp'.disp j).alg = (cp.disp j).alg) :
    CPInv b caps cp' := by
  apply CPInv_frame b caps cp cp' h _ _ hnk hf.1 hdrv hd
  · intro hne; rw [hpool]; exact h.pool (fun h' => hne (hf.2 h'))
  · intro cu' hcu' e he; rw [hpool] at hcu'; exact ⟨cu', hcu', he⟩

theorem setDisp_frame (cp : CP) (i : Nat) (d : Disp) (hk : d.kern = (cp.disp i).kern)
    (ha : d.alg = (cp.disp i).alg) :
    ∀ j, ((cp.setDisp i d).disp j).kern = (cp.disp j).kern ∧ ((cp.setDisp i d).disp j).alg = (cp.disp j).alg := by
  intro j
  rw [disp_setDisp]
  split
  · rename_i h; obtain ⟨rfl, _⟩ := h; exact ⟨hk, ha⟩
  · exact ⟨rfl, rfl⟩

theorem currWG_oob (cp : CP) (j : Nat) (x : Nat × Nat) (h : ¬ j < cp.disps.length) :
    (cp.disp j).alg.currWG ≠ some x := by
  have : cp.disp j = default := by
    simp only [CP.disp, List.getD_eq_getElem?_getD]
    rw [List.getElem?_eq_none (by omega)]; rfl
  rw [this]; intro h'; cases h'

/-- the state change made by `algorithm.Next` -/
theorem CPInv_update (b : Bool) (caps : List (List Nat)) (cp : CP) (i : Nat) (pool' : List CU) (nk : Nat)
    (aX : Alg) (flt : Option String) (h : CPInv b caps cp)
    (hpool : flt ≠ some "twice" → PoolInv caps pool')
    (hdisp : DispOK (cp.disp i).kern aX)
    (hfr : b = true → flt ≠ some "twice" ∧ cp.nextKey ≤ nk ∧
      (∀ cu ∈ pool', ∀ e ∈ cu.resident, e.1 < nk) ∧
      (∀ key idx, aX.currWG = some (key, idx) → key < nk ∧ (∀ cu ∈ pool', ∀ e ∈ cu.resident, e.1 ≠ key) ∧
        ∀ j idx', j ≠ i → (cp.disp j).alg.currWG ≠ some (key, idx')) ∧
      (∀ j key idx, j ≠ i → (cp.disp j).alg.currWG = some (key, idx) →
        ∀ cu ∈ pool', ∀ e ∈ cu.resident, e.1 ≠ key)) :
    CPInv b caps { ({ cp with pool := pool', nextKey := nk }).setDisp i { cp.disp i with alg := aX }
                   with fault := flt } := by
  have hdj : ∀ j, CP.disp { ({ cp with pool := pool', nextKey := nk }).setDisp i { cp.disp i with alg := aX }
                   with fault := flt } j
      = if i = j ∧ i < cp.disps.length then { cp.disp i with alg := aX } else cp.disp j :=
    fun j => disp_setDisp { cp with pool := pool', nextKey := nk } i j _
  have hold : ∀ j x, ¬ (i = j ∧ i < cp.disps.length) → (cp.disp j).alg.currWG = some x → j ≠ i := by
    intro j x hn hc hji
    subst hji
    exact currWG_oob cp j x (fun hlt => hn ⟨rfl, hlt⟩) hc
  exact {
    pool := hpool
    disp := by
      intro j; rw [hdj]
      split
      · rename_i hc; obtain ⟨rfl, _⟩ := hc; exact hdisp
      · exact h.disp j
    drv := h.drv
    noTwice := fun hb => (hfr hb).1
    res := fun hb => (hfr hb).2.2.1
    cur := by
      intro hb j key idx hc
      obtain ⟨_, hle, _, hnew, hothers⟩ := hfr hb
      rw [hdj] at hc
      split at hc
      · obtain ⟨a, b', _⟩ := hnew key idx hc; exact ⟨a, b'⟩
      · rename_i hn
        have hji := hold j _ hn hc
        exact ⟨Nat.lt_of_lt_of_le (h.cur hb j key idx hc).1 hle, hothers j key idx hji hc⟩
    distinct := by
      intro hb i' j' key idx idx' hne h1 h2
      obtain ⟨_, _, _, hnew, _⟩ := hfr hb
      rw [hdj] at h1 h2
      split at h1
      · rename_i hc1
        split at h2
        · rename_i hc2; exact hne (hc1.1.symm.trans hc2.1)
        · rename_i hn2
          exact (hnew key idx h1).2.2 j' idx' (hold j' _ hn2 h2) h2
      · rename_i hn1
        split at h2
        · exact (hnew key idx' h2).2.2 i' idx (hold i' _ hn1 h1) h1
        · exact h.distinct hb i' j' key idx idx' hne h1 h2 }

theorem algNext_finish (b : Bool) (caps : List (List Nat)) (cp : CP) (i : Nat) (k : Kern)
    (key idx nk nextCU : Nat) (h : CPInv b caps cp) (hk : (cp.disp i).kern = some k) (hKO : KernOK k)
    (hidx : idx < k.numWG) (hnk : cp.nextKey ≤ nk) (hkey : b = true → key < nk)
    (hfresh : b = true → (∀ cu ∈ cp.pool, ∀ e ∈ cu.resident, e.1 ≠ key) ∧
      ∀ j idx', j ≠ i → (cp.disp j).alg.currWG ≠ some (key, idx'))
    (r : TryRes) (pool' : List CU)
    (ht : tryCUs key (k.dem idx) (cuOrder cp.cfg.greedy cp.pool.length nextCU) cp.pool = (r, pool')) :
    (∀ aP : Alg, aP.kern = some k → aP.currWG = none → aP.pos = idx + 1 → aP.numDispatched = idx + 1 →
      (∃ c locs, r = .placed c locs) →
      CPInv b caps { ({ cp with pool := pool', nextKey := nk }).setDisp i { cp.disp i with alg := aP }
                     with fault := cp.fault }) ∧
    (∀ aN : Alg, aN.kern = some k → aN.currWG = some (key, idx) → aN.pos = idx + 1 → aN.numDispatched = idx →
      (r = .none → CPInv b caps { ({ cp with pool := pool', nextKey := nk }).setDisp i { cp.disp i with alg := aN }
                     with fault := cp.fault }) ∧
      (r = .fault → CPInv b caps { ({ cp with pool := pool', nextKey := nk }).setDisp i { cp.disp i with alg := aN }
                     with fault := some "twice" })) := by
  have spec := fun hp => tryCUs_spec caps key (k.dem idx) (nwf_pos k idx hKO hidx) _ cp.pool r pool' hp
    (fun c hc => mem_cuOrder _ _ _ c hc) ht
  refine ⟨?_, ?_⟩
  · intro aP h1 h2 h3 h4 hpl
    have hrf : r ≠ .fault := by obtain ⟨c, locs, rfl⟩ := hpl; simp
    apply CPInv_update b caps cp i pool' nk aP cp.fault h
    · intro hft; exact (spec (h.pool hft)).2.1 hrf
    · rw [hk]; exact ⟨h1, hKO, by omega, by omega, fun _ => by omega, fun key idx hc => by rw [h2] at hc; cases hc⟩
    · intro hb
      have hft := h.noTwice hb
      obtain ⟨_, _, _, sR, _⟩ := spec (h.pool hft)
      refine ⟨hft, hnk, ?_, ?_, ?_⟩
      · intro cu' hcu' e he
        rcases sR hrf cu' hcu' e he with ⟨cu, hcu, he'⟩ | ⟨hek, _⟩
        · exact Nat.lt_of_lt_of_le (h.res hb cu hcu e he') hnk
        · rw [hek]; exact hkey hb
      · intro key' idx' hc; rw [h2] at hc; cases hc
      · intro j key' idx' hji hc cu' hcu' e he
        rcases sR hrf cu' hcu' e he with ⟨cu, hcu, he'⟩ | ⟨hek, _⟩
        · exact (h.cur hb j key' idx' hc).2 cu hcu e he'
        · intro hkk
          exact (hfresh hb).2 j idx' hji (by rw [hc, ← hkk, hek])
  · intro aN h1 h2 h3 h4
    have hdisp : DispOK (cp.disp i).kern aN := by
      rw [hk]
      refine ⟨h1, hKO, by omega, by omega, ?_, ?_⟩
      · intro hc; rw [h2] at hc; cases hc
      intro key' idx' hc
      rw [h2] at hc; injection hc with hc; injection hc with hc1 hc2
      subst hc2; exact ⟨h4.symm, by omega⟩
    refine ⟨?_, ?_⟩
    · intro hr
      have hrf : r ≠ .fault := by rw [hr]; simp
      apply CPInv_update b caps cp i pool' nk aN cp.fault h
      · intro hft; exact (spec (h.pool hft)).2.1 hrf
      · exact hdisp
      · intro hb
        have hft := h.noTwice hb
        obtain ⟨_, _, _, sR, _⟩ := spec (h.pool hft)
        have hold : ∀ cu' ∈ pool', ∀ e ∈ cu'.resident, ∃ cu ∈ cp.pool, e ∈ cu.resident := by
          intro cu' hcu' e he
          rcases sR hrf cu' hcu' e he with h' | ⟨_, c, locs, hcl⟩
          · exact h'
          · rw [hr] at hcl; cases hcl
        refine ⟨hft, hnk, ?_, ?_, ?_⟩
        · intro cu' hcu' e he
          obtain ⟨cu, hcu, he'⟩ := hold cu' hcu' e he
          exact Nat.lt_of_lt_of_le (h.res hb cu hcu e he') hnk
        · intro key' idx' hc
          rw [h2] at hc; injection hc with hc; injection hc with hc1 hc2
          subst hc1; subst hc2
          refine ⟨hkey hb, ?_, (hfresh hb).2⟩
          intro cu' hcu' e he
          obtain ⟨cu, hcu, he'⟩ := hold cu' hcu' e he
          exact (hfresh hb).1 cu hcu e he'
        · intro j key' idx' hji hc cu' hcu' e he
          obtain ⟨cu, hcu, he'⟩ := hold cu' hcu' e he
          exact (h.cur hb j key' idx' hc).2 cu hcu e he'
    · intro hr
      apply CPInv_update b caps cp i pool' nk aN (some "twice") h
      · intro hne; exact absurd rfl hne
      · exact hdisp
      · intro hb
        have hft := h.noTwice hb
        exact absurd hr ((spec (h.pool hft)).2.2.1 (hfresh hb).1)

theorem algNext_inv (b : Bool) (caps : List (List Nat)) (cp : CP) (i : Nat) (h : CPInv b caps cp)
    (hn : (cp.disp i).alg.hasNext = true) : CPInv b caps (algNext cp i).1 := by
  have hd := h.disp i
  cases hk : (cp.disp i).kern with
  | none => rw [hk] at hd; have := hd.2; rw [this] at hn; cases hn
  | some k =>
    rw [hk] at hd
    obtain ⟨hak, hKO, hnd, hpos, hnone, hsome⟩ := hd
    have hlt : (cp.disp i).alg.numDispatched < k.numWG := by
      simpa [Alg.hasNext, Alg.numWG, hak] using hn
    unfold algNext
    simp only [hak]
    cases hc : (cp.disp i).alg.currWG with
    | none =>
      simp only []
      have hpn := hnone hc
      rcases ht : tryCUs cp.nextKey (k.dem (cp.disp i).alg.pos)
        (cuOrder cp.cfg.greedy cp.pool.length (cp.disp i).alg.nextCU) cp.pool with ⟨r, pool'⟩
      obtain ⟨fP, fN⟩ := algNext_finish b caps cp i k cp.nextKey (cp.disp i).alg.pos (cp.nextKey + 1)
        (cp.disp i).alg.nextCU h hk hKO (by omega) (by omega) (fun _ => by omega)
        (by
          intro hb
          refine ⟨fun cu hcu e he => Nat.ne_of_lt (h.res hb cu hcu e he), ?_⟩
          intro j idx' _ hcj
          have := (h.cur hb j _ _ hcj).1
          omega) r pool' ht
      cases r with
      | placed c locs => exact fP _ rfl rfl rfl (by simp only; omega) ⟨c, locs, rfl⟩
      | none => exact (fN _ rfl rfl rfl (by simp only; omega)).1 rfl
      | fault => exact (fN _ rfl rfl rfl (by simp only; omega)).2 rfl
    | some w =>
      obtain ⟨key, idx⟩ := w
      obtain ⟨hi1, hi2⟩ := hsome key idx hc
      simp only []
      rcases ht : tryCUs key (k.dem idx)
        (cuOrder cp.cfg.greedy cp.pool.length (cp.disp i).alg.nextCU) cp.pool with ⟨r, pool'⟩
      obtain ⟨fP, fN⟩ := algNext_finish b caps cp i k key idx cp.nextKey
        (cp.disp i).alg.nextCU h hk hKO (by omega) (Nat.le_refl _)
        (fun hb => (h.cur hb i key idx hc).1)
        (by
          intro hb
          refine ⟨(h.cur hb i key idx hc).2, ?_⟩
          intro j idx' hji hcj
          exact h.distinct hb i j key idx idx' (fun e => hji e.symm) hc hcj) r pool' ht
      cases r with
      | placed c locs => exact fP _ hak rfl (by simp only; omega) (by simp only; omega) ⟨c, locs, rfl⟩
      | none => exact (fN _ hak hc (by omega) hi1.symm).1 rfl
      | fault => exact (fN _ hak hc (by omega) hi1.symm).2 rfl
end C09
