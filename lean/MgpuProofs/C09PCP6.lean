import MgpuProofs.C09PCP5
/-! # C09 — partition algorithm inside the command processor, part 6: `PInv` is an invariant of every run
    (`processMessagesFromCU`, `completeKernel`, `StartDispatching`, `Tick`, the environment moves). -/
namespace C09

/-- the invariant reads the pool, the two counters, the fault, the trace, the launch queue and the
    dispatchers' accounting fields only -/
theorem PInv_congr {b caps Ks p} (cp cp' : PCP) (h : PInv b caps Ks p cp) (e1 : cp'.pool = cp.pool)
    (e2 : cp'.nextKey = cp.nextKey) (e3 : cp'.nextReq = cp.nextReq) (e4 : cp'.fault ≠ some "twice")
    (e5 : cp'.log = cp.log) (e6 : cp'.drvIn = cp.drvIn) (e7 : cp'.dvs = cp.dvs) : PInv b caps Ks p cp' := by
  obtain ⟨a, b, c, d, e⟩ := h
  exact ⟨by rw [e1, e2, e7]; exact a, e4, by rw [e1, e3, e7]; exact c,
    by rw [e5, e6, e7]; exact d, by rw [e6]; exact e⟩

/-- rewriting a dispatcher without touching its accounting fields -/
theorem dvs_setDisp_same (cp : PCP) (i : Nat) (d : PDisp) (h : d.dv = (cp.disp i).dv) :
    (cp.setDisp i d).dvs = cp.dvs := by
  funext j
  show ((cp.setDisp i d).disp j).dv = (cp.disp j).dv
  rw [pdisp_setDisp]
  split
  · rename_i hc; obtain ⟨rfl, _⟩ := hc; exact h
  · rfl

theorem lt_of_inflight (cp : PCP) (i : Nat) (e : Nat × DLoc) (h : e ∈ (cp.disp i).inflight) :
    i < cp.disps.length := by
  by_cases hi : i < cp.disps.length
  · exact hi
  · rw [pdisp_oob cp i hi] at h; cases h

/-- the dispatcher after one of its work-groups completed -/
def doneDV (d : PDisp) (id : Nat) : PDV :=
  ⟨d.alg, d.kern, d.currWG, d.nd, d.nc + 1, d.inflight.filter (·.1 ≠ id)⟩

theorem pCompleteOne_inv {b caps Ks p} (cp : PCP) (i id : Nat) (h : PInv b caps Ks p cp) :
    PInv b caps Ks p (pCompleteOne cp i id) := by
  unfold pCompleteOne
  cases hfind : (cp.disp i).inflight.find? (·.1 = id) with
  | none => simp only [hfind]; exact h
  | some xdl =>
    obtain ⟨x, dl⟩ := xdl
    simp only [hfind]
    have hi : i < cp.disps.length := lt_of_inflight cp i (x, dl) (List.mem_of_find?_eq_some hfind)
    have hd := h.d i
    obtain ⟨_, l1, l2, hl, hfilt⟩ := find_split id (cp.disp i).inflight (x, dl) hd.ids hfind
    have hlen : ((cp.disp i).inflight.filter (·.1 ≠ id)).length + 1 = (cp.disp i).inflight.length := by
      rw [hfilt]; conv => rhs; rw [hl]
      simp only [List.length_append, List.length_cons]; omega
    have hdi : DInv cp.pool.length cp.nextReq (doneDV (cp.disp i) id) :=
      { idle := by
          intro hkn
          obtain ⟨c1, c2⟩ := hd.idle hkn
          have c2 : (cp.disp i).inflight = [] := c2
          exact ⟨c1, by show (cp.disp i).inflight.filter _ = []; rw [c2]; rfl⟩
        algK := hd.algK
        pi := hd.pi
        cnt := hd.cnt
        cur := hd.cur
        fl := by
          show (cp.disp i).nc + 1 + ((cp.disp i).inflight.filter (·.1 ≠ id)).length = (cp.disp i).nd
          have : (cp.disp i).nc + (cp.disp i).inflight.length = (cp.disp i).nd := hd.fl
          omega
        ids := (List.filter_sublist.map _).nodup hd.ids
        idlt := fun e he => hd.idlt e (List.mem_filter.1 he).1 }
    -- the invariant of the new state, whatever happened to the pool (only resident entries were removed)
    have key : ∀ cp' : PCP, cp'.dvs = upd cp.dvs i (doneDV (cp.disp i) id) → PoolInv caps cp'.pool →
        (∀ κ, Res cp'.pool κ → Res cp.pool κ) → cp'.nextKey = cp.nextKey → cp'.nextReq = cp.nextReq →
        cp'.fault ≠ some "twice" → cp'.drvIn = cp.drvIn → cp'.log = cp.log → PInv b caps Ks p cp' := by
      intro cp' e1 e2 e3 e4 e5 e6 e7 e8
      refine PInv_upd cp cp' i _ h e1 ?_ e6 (by rw [e5]; exact Nat.le_refl _) ?_ ?_ (by rw [e7]; exact h.drv)
      · rw [e4, upd_self (fun j => (cp.dvs j).alg) i (doneDV (cp.disp i) id).alg rfl]
        exact KInv_shrink h.k _ e2 e3
      · rw [e5, e2.1, ← h.k.pinv.1]; exact hdi
      · rw [e8, e7, upd_self (fun j => (cp.dvs j).kern) i (doneDV (cp.disp i) id).kern rfl,
          upd_self (fun j => sent (cp.dvs j)) i (sent (doneDV (cp.disp i) id)) rfl]
        exact h.t
    cases hf : free (cp.pool.getD dl.cu default) dl.key with
    | none =>
      refine key _ (dvs_setDisp _ i _ hi) h.k.pinv (fun κ hk => hk) rfl rfl ?_ rfl rfl
      show some "notfound" ≠ some "twice"
      simp
    | some cu' =>
      refine key _ (dvs_setDisp _ i _ hi) ?_ ?_ rfl rfl h.noTwice rfl rfl
      · refine PoolInv_set caps cp.pool dl.cu cu' h.k.pinv ?_
        intro hc
        have hget : cp.pool.getD dl.cu default = cp.pool[dl.cu] := by
          simp [List.getD_eq_getElem?_getD, hc]
        rw [hget] at hf
        exact free_preserves _ _ _ _ (h.k.pinv.2 dl.cu hc) hf
      · rintro κ ⟨cu, hcu, e, he, hke⟩
        rcases List.mem_or_eq_of_mem_set hcu with hm | hm
        · exact ⟨cu, hm, e, he, hke⟩
        · subst hm
          have he' := free_resident _ _ _ hf e he
          by_cases hc : dl.cu < cp.pool.length
          · have hget : cp.pool.getD dl.cu default = cp.pool[dl.cu] := by
              simp [List.getD_eq_getElem?_getD, hc]
            rw [hget] at he'
            exact ⟨_, List.getElem_mem hc, e, he', hke⟩
          · have hget : cp.pool.getD dl.cu default = default := by
              simp only [List.getD_eq_getElem?_getD]
              rw [List.getElem?_eq_none (by omega)]; rfl
            rw [hget] at he'
            cases he'

theorem pConsume_inv {b caps Ks p} (i : Nat) : ∀ (ids : List Nat) (cp : PCP), PInv b caps Ks p cp →
    PInv b caps Ks p (pConsume i ids cp).1 := by
  intro ids
  induction ids with
  | nil => intro cp h; exact h
  | cons id ids ih =>
    intro cp h
    simp only [pConsume]
    split
    · exact ih _ (pCompleteOne_inv cp i id h)
    · exact ih cp h

theorem pProcMsgs_inv {b caps Ks p} (i : Nat) : ∀ (n : Nat) (cp : PCP), PInv b caps Ks p cp →
    PInv b caps Ks p (pProcMsgs i n cp).1 := by
  intro n
  induction n with
  | zero => intro cp h; exact h
  | succ n ih =>
    intro cp h
    unfold pProcMsgs
    cases hcu : cp.cuIn with
    | nil => exact h
    | cons ids rest =>
      simp only []
      have h1 := pConsume_inv i ids cp h
      split
      · exact h
      · split
        · exact h1
        · split
          · exact ih _ (PInv_congr _ _ h1 rfl rfl rfl h1.noTwice rfl rfl rfl)
          · exact PInv_congr _ _ h1 rfl rfl rfl h1.noTwice rfl rfl rfl

/-- `kernelCompleted`: everything was dispatched, sent and completed -/
theorem pKernelCompleted_spec {npool nreq : Nat} (d : PDisp) (k : Kern) (h : DInv npool nreq d.dv)
    (hk : d.kern = some k) (hkc : pKernelCompleted d = true) :
    d.currWG = none ∧ d.inflight = [] ∧ d.nd = k.numWG ∧ d.nc = k.numWG ∧
    d.alg.hist.Perm (List.range k.numWG) := by
  simp only [pKernelCompleted, Bool.and_eq_true, Bool.not_eq_true', decide_eq_false_iff_not] at hkc
  obtain ⟨⟨hcw0, hhn⟩, hnc⟩ := hkc
  have hcw : d.currWG = none := by
    cases hx : d.currWG with
    | none => rfl
    | some _ => rw [hx] at hcw0; simp at hcw0
  have hk' : d.dv.kern = some k := hk
  obtain ⟨hpi, hnw, _⟩ := h.pi k hk'
  have hpi : PI d.alg.part d.alg.hist := hpi
  have hnw : d.alg.part.numWG = k.numWG := hnw
  have hge : d.alg.part.numWG ≤ d.alg.part.nd := by
    simp only [PAlg.hasNext, decide_eq_false_iff_not] at hhn; omega
  have hle := PI_nd_le _ _ hpi
  have hcnt := h.cnt k hk'
  have hcw' : d.dv.cur = none := hcw
  rw [hcw'] at hcnt
  simp only [Option.isSome_none, Bool.false_eq_true, if_false, Nat.add_zero] at hcnt
  have hcnt : d.nd = d.alg.part.nd := hcnt
  have hfl : d.nc + d.inflight.length = d.nd := h.fl
  refine ⟨hcw, List.eq_nil_of_length_eq_zero (by omega), by omega, by omega, ?_⟩
  rw [← hnw]; exact PI_perm _ _ hpi hge

theorem pCompleteKernel_inv {b caps Ks p} (cp : PCP) (i : Nat) (h : PInv b caps Ks p cp)
    (hkc : pKernelCompleted (cp.disp i) = true) : PInv b caps Ks p (pCompleteKernel cp i).1 := by
  unfold pCompleteKernel
  cases hk : (cp.disp i).kern with
  | none => simp only [hk]; exact h
  | some k =>
    simp only [hk]
    by_cases hr : cp.drvRoom = 0
    · simp only [hr, if_true]; exact h
    · simp only [hr, if_false]
      have hi := lt_of_kern cp i k hk
      have hd := h.d i
      obtain ⟨c1, c2, _, _, c5⟩ := pKernelCompleted_spec (cp.disp i) k hd hk hkc
      refine PInv_upd cp _ i ⟨(cp.disp i).alg, none, (cp.disp i).currWG, (cp.disp i).nd, (cp.disp i).nc,
        (cp.disp i).inflight⟩ h (dvs_setDisp _ i _ hi) ?_ h.noTwice (Nat.le_refl _) ?_ ?_ h.drv
      · have e : upd (fun j => (cp.dvs j).alg) i (cp.disp i).alg = (fun j => (cp.dvs j).alg) :=
          upd_self _ _ _ rfl
        show KInv caps cp.pool cp.nextKey (upd (fun j => (cp.dvs j).alg) i (cp.disp i).alg)
        rw [e]; exact h.k
      · exact {
          idle := fun _ => ⟨c1, c2⟩
          algK := by intro k2 h2; cases h2
          pi := by intro k2 h2; cases h2
          cnt := by intro k2 h2; cases h2
          cur := by intro k2 dl h2; cases h2
          fl := hd.fl
          ids := hd.ids
          idlt := hd.idlt }
      · intro hb
        have e : upd (fun j => sent (cp.dvs j)) i (sent (cp.dvs i)) = (fun j => sent (cp.dvs j)) :=
          upd_self _ _ _ rfl
        show TInv (.rsp k.id :: cp.log) cp.drvIn (upd (fun j => (cp.dvs j).kern) i none)
          (upd (fun j => sent (cp.dvs j)) i (sent (cp.dvs i))) Ks p
        rw [e]
        refine TInv_rsp (h.t hb) i k hk ?_
        show (sent (cp.disp i).dv).Perm _
        simp only [sent, PDisp.dv, c1, Option.isSome_none, Bool.false_eq_true, if_false]
        exact c5

theorem pDispTick_inv {b caps Ks p} (cp : PCP) (i : Nat) (h : PInv b caps Ks p cp) :
    PInv b caps Ks p (pDispTick cp i).1 := by
  have key : ∀ r1 : PCP × Bool, PInv b caps Ks p r1.1 →
      PInv b caps Ks p (if r1.1.fault.isSome then r1 else
        let r2 := pProcMsgs i 8 r1.1
        (r2.1, r1.2 || r2.2)).1 := by
    intro r1 hr1
    by_cases hf : r1.1.fault.isSome = true
    · simp only [hf, if_true]; exact hr1
    · simp only [hf]; exact pProcMsgs_inv i 8 _ hr1
  unfold pDispTick
  by_cases hc : (cp.disp i).cycleLeft > 0
  · simp only [hc, if_true]
    exact PInv_congr _ _ h rfl rfl rfl h.noTwice rfl rfl (dvs_setDisp_same cp i _ rfl)
  · simp only [hc, if_false]
    refine key _ ?_
    cases hk : (cp.disp i).kern with
    | none => simp only [Option.isSome_none, Bool.false_eq_true, if_false]; exact h
    | some k =>
      simp only [Option.isSome_some, if_true]
      by_cases hkc : pKernelCompleted (cp.disp i) = true
      · simp only [hkc, if_true]; exact pCompleteKernel_inv cp i h hkc
      · simp only [hkc]; exact (pDispatchLoop_inv i k 8 cp h hk).1

theorem pTickDispatchers_inv {b caps Ks p} : ∀ (is : List Nat) (cp : PCP), PInv b caps Ks p cp →
    PInv b caps Ks p (pTickDispatchers is cp).1 := by
  intro is
  induction is with
  | nil => intro cp h; exact h
  | cons i is ih =>
    intro cp h
    simp only [pTickDispatchers]
    by_cases hf : cp.fault.isSome = true
    · simp only [hf, if_true]; exact h
    · simp only [hf]; exact ih _ (pDispTick_inv cp i h)

/-- `StartNewKernel`: every `currWGs` slot is nil, one identity slot per partition -/
theorem pStartKernel_cur (a : PAlg) (k : Kern) (n p : Nat) : (pStartKernel a k n).part.curAt p = none := by
  simp only [Part.curAt, pStartKernel, Part.start, List.getD_eq_getElem?_getD, List.getElem?_replicate]
  split <;> rfl

theorem pHandleLaunch_inv {b caps Ks p} (cp : PCP) (h : PInv b caps Ks p cp) :
    PInv b caps Ks p (pHandleLaunch cp).1 := by
  unfold pHandleLaunch
  cases hdr : cp.drvIn with
  | nil => exact h
  | cons k rest =>
    simp only []
    cases hfa : pFindAvailable cp.disps with
    | none => exact h
    | some i =>
      simp only []
      unfold pFindAvailable at hfa
      rw [List.findIdx?_eq_some_iff_getElem] at hfa
      obtain ⟨hi, hp, _⟩ := hfa
      have hdi0 : cp.disp i = cp.disps[i] := by simp [PCP.disp, List.getD_eq_getElem?_getD, hi]
      have hkn : (cp.disp i).kern = none := by
        rw [hdi0]; cases hx : cp.disps[i].kern with
        | none => rfl
        | some _ => rw [hx] at hp; simp at hp
      cases hl : launchFits cp.pool k with
      | false =>
        -- the launch is rejected: nothing changes but the fault
        simp only [Bool.not_false, if_true]
        exact PInv_congr cp _ h rfl rfl rfl (by show some "oversize" ≠ some "twice"; simp) rfl hdr.symm rfl
      | true =>
      simp only [Bool.not_true, Bool.false_eq_true, if_false]
      by_cases hz : cp.pool.length = 0
      · simp only [hz, if_true]
        exact PInv_congr cp _ h rfl rfl rfl (by show some "div0" ≠ some "twice"; simp) rfl hdr.symm rfl
      · simp only [hz, if_false]
        have hd := h.d i
        obtain ⟨c1, c2⟩ := hd.idle hkn
        have c1 : (cp.disp i).currWG = none := c1
        have c2 : (cp.disp i).inflight = [] := c2
        have hKO : KernOK k := h.drv k (by rw [hdr]; exact List.mem_cons_self)
        have ht := h.t
        rw [hdr] at ht
        refine PInv_upd cp _ i (pStartDispatching cp.cfg cp.pool.length (cp.disp i) k).dv h
          (dvs_setDisp _ i _ hi) ?_ h.noTwice (Nat.le_refl _) ?_ ?_ ?_
        · exact KInv_start h.k i _ (pStartKernel_cur _ k _)
            (by show (List.replicate cp.pool.length 0).length = cp.pool.length; simp)
        · exact {
            idle := by intro hc; cases hc
            algK := by
              intro k2 hk2
              have : k2 = k := by
                have hk2 : some k = some k2 := hk2
                injection hk2 with hk2; exact hk2.symm
              subst this
              exact ⟨rfl, hKO⟩
            pi := by
              intro k2 hk2
              have : k2 = k := by
                have hk2 : some k = some k2 := hk2
                injection hk2 with hk2; exact hk2.symm
              subst this
              exact ⟨pStartKernel_PI _ k2 _ (by omega), rfl, rfl⟩
            cnt := by
              intro k2 _
              show 0 + (if (cp.disp i).currWG.isSome then 1 else 0) = 0
              rw [c1]; rfl
            cur := by
              intro k2 dl _ hc
              have : (cp.disp i).currWG = some dl := hc
              rw [c1] at this; cases this
            fl := by
              show 0 + (cp.disp i).inflight.length = 0
              rw [c2]; rfl
            ids := hd.ids
            idlt := hd.idlt }
        · intro hb
          have hS : sent (pStartDispatching cp.cfg cp.pool.length (cp.disp i) k).dv = [] := by
            show (if (cp.disp i).currWG.isSome then ([] : List Nat).tail else []) = []
            rw [c1]; rfl
          rw [hS]
          exact TInv_start k (ht hb) i hkn
        · intro k' hk'; exact h.drv k' (by rw [hdr]; exact List.mem_cons_of_mem _ hk')

theorem pcpTick_inv {b caps Ks p} (cp : PCP) (h : PInv b caps Ks p cp) : PInv b caps Ks p (pcpTick cp).1 := by
  have h1 := pTickDispatchers_inv (List.range cp.disps.length) cp h
  unfold pcpTick
  by_cases hf : (pTickDispatchers (List.range cp.disps.length) cp).1.fault.isSome = true
  · simp only [hf, if_true]; exact h1
  · simp only [hf]
    have h2 := pHandleLaunch_inv _ h1
    by_cases hf2 : (pHandleLaunch (pTickDispatchers (List.range cp.disps.length) cp).1).1.fault.isSome = true
    · simp only [hf2, if_true]; exact h2
    · simp only [hf2]; exact pHandleLaunch_inv _ h2

/-- all the launches of a run -/
def pLaunchKerns (ops : List Op) : List Kern :=
  ops.filterMap (fun o => match o with | .launch k => some k | _ => none)

theorem p_launchIds_eq (ops : List Op) : launchIds ops = (pLaunchKerns ops).map (·.id) := by
  induction ops with
  | nil => rfl
  | cons o ops ih =>
    cases o <;> simp [launchIds, pLaunchKerns] at ih ⊢ <;> exact ih

theorem prun_inv {b caps Ks} : ∀ (ops : List Op) (cp : PCP), PInv b caps Ks (launchIds ops) cp →
    (∀ k, .launch k ∈ ops → (b = true → k ∈ Ks) ∧ KernOK k) → PInv b caps Ks [] (prun cp ops) := by
  intro ops
  induction ops with
  | nil => intro cp h _; exact h
  | cons op ops ih =>
    intro cp h hops
    show PInv b caps Ks [] (prun (pstep cp op) ops)
    refine ih _ ?_ (fun k hk => hops k (List.mem_cons_of_mem _ hk))
    cases op with
    | tick => exact pcpTick_inv cp h
    | launch k =>
      obtain ⟨hKs, hKO⟩ := hops k List.mem_cons_self
      obtain ⟨a, b', c, d, e⟩ := h
      refine ⟨a, b', c, fun hb => TInv_launch k (d hb) (hKs hb), ?_⟩
      intro k' hk'
      rcases List.mem_append.1 hk' with h' | h'
      · exact e k' h'
      · simp only [List.mem_singleton] at h'; subst h'; exact hKO
    | complete ids => exact PInv_congr cp _ h rfl rfl rfl h.noTwice rfl rfl rfl
    | cuRoom n => exact PInv_congr cp _ h rfl rfl rfl h.noTwice rfl rfl rfl
    | drvRoom n => exact PInv_congr cp _ h rfl rfl rfl h.noTwice rfl rfl rfl

theorem mkPCP_disp (cfg : Cfg) (nd : Nat) (pool : List CU) (j : Nat) : (mkPCP cfg nd pool).disp j = default := by
  simp only [mkPCP, PCP.disp, List.getD_eq_getElem?_getD, List.getElem?_replicate]
  split <;> rfl

/-- the initial command processor with an empty pool of well-formed CUs satisfies the invariant -/
theorem mkPCP_inv (b : Bool) (caps : List (List Nat)) (Ks : List Kern) (p : List Nat) (cfg : Cfg) (nd : Nat)
    (pool : List CU) (hp : PoolInv caps pool) (hempty : ∀ cu ∈ pool, cu.resident = [])
    (hKs : b = true → (Ks.map (·.id)).Nodup) (hpn : b = true → p.Nodup) :
    PInv b caps Ks p (mkPCP cfg nd pool) := by
  have hdv : ∀ j, (mkPCP cfg nd pool).dvs j = (default : PDisp).dv := by
    intro j; show ((mkPCP cfg nd pool).disp j).dv = _; rw [mkPCP_disp]
  have hcur : ∀ j q, ((mkPCP cfg nd pool).dvs j).alg.part.curAt q = none := by
    intro j q; rw [hdv j]; rfl
  have hK : ∀ j k, ((mkPCP cfg nd pool).dvs j).kern = some k → False := by
    intro j k hk; rw [hdv j] at hk; cases hk
  have hnoRes : ∀ κ, ¬ Res pool κ := by
    rintro κ ⟨cu, hcu, e, he, _⟩
    rw [hempty cu hcu] at he; cases he
  exact {
    k := {
      pinv := hp
      res := fun κ hk => absurd hk (hnoRes κ)
      pend := by
        rintro j κ ⟨q, w, hw, _⟩
        rw [hcur j q] at hw; cases hw
      inj := by
        intro j j' q q' w w' hw
        rw [hcur j q] at hw; cases hw
      klen := by intro j; show ((mkPCP cfg nd pool).dvs j).alg.keys.length = _; rw [hdv j]; rfl }
    noTwice := by intro hc; cases hc
    d := by
      intro j
      rw [hdv j]
      exact {
        idle := fun _ => ⟨rfl, rfl⟩
        algK := by intro k hk; cases hk
        pi := by intro k hk; cases hk
        cnt := by intro k hk; cases hk
        cur := by intro k dl hk; cases hk
        fl := rfl
        ids := List.nodup_nil
        idlt := by intro e he; cases he }
    t := fun hb => {
      g := {
        knd := hKs hb
        pnd := hpn hb
        dnd := List.nodup_nil
        bdist := fun i _ k _ _ hi _ => (hK i k hi).elim
        bdrv := fun i k hi => (hK i k hi).elim
        pdrv := fun _ _ hm => by cases hm
        pbusy := fun _ _ i k hi => (hK i k hi).elim
        pfresh := fun _ _ => ⟨rfl, rfl⟩
        busy := fun i k hi => (hK i k hi).elim
        wait := fun _ hk => by cases hk
        all := fun _ => ⟨List.nodup_nil, Nat.zero_le _,
          fun _ _ _ => ⟨fun _ hx => (by simp [mapsOf, mkPCP] at hx), fun hc => (by simp [rspCount, mkPCP] at hc)⟩⟩ }
      maps := fun j k hk => (hK j k hk).elim }
    drv := by intro k hk; cases hk }

end C09
