import MgpuProofs.C09Grid
import MgpuProofs.C09CUTimingRun
/-! # C09 — the closed loop: command processor + n timing compute units + the ports between them

`Sys` puts the two models that were so far proved against arbitrary environments into one system:
the command processor `C09.CP` (dispatchers, shared resource pool; `MgpuModel/C09_Disp.lean`) and one
timing compute unit `C09.CUSide.TState` per CU of the pool (`MgpuModel/C09_CU.lean`). Nothing is
left to an outside environment except the driver (which sends `LaunchKernelReq`s and retrieves
`LaunchKernelRsp`s) and the scheduler that picks the next move:

* `tick` — `CommandProcessor.Tick`;
* `deliverMap r` — the connection moves the `MapWGReq` with request id `r` from the command
  processor's `ToCUs` buffer to the `ToACE` port of the CU it names (any not-yet-delivered request:
  the connections to different CUs are independent); the CU's `handleMapWGReq` takes it, one slot of
  the `ToCUs` buffer becomes free;
* `cu c o` — compute unit `c` issues a wavefront / evaluates `s_nop`, `s_barrier`, `s_endpgm`
  (`o`; the CU's own arbiters only issue Ready and only evaluate Running wavefronts: an op that is
  not `TLegal` is not enabled). The last `s_endpgm` of a work-group sends its `WGCompletionMsg`;
* `deliverCmp c r` — the connection moves the `WGCompletionMsg` for request `r` from CU `c`'s port
  to the command processor's `ToCUs` port (the timing CU sends one request id per message); one
  slot of the CU's port becomes free;
* `takeRsp` — the driver retrieves a `LaunchKernelRsp`, one slot of `ToDriver` becomes free;
* `launch k` — the driver sends a `LaunchKernelReq`.

A move that is not enabled changes nothing. The wires are not stored: what is in them is
*derived* from the two ends — a `MapWGReq` is in the wire iff it is in the command processor's
trace (`cp.log`) and its id is not in `delivered`; a completion is in the wire iff it is in the
CU's `sent` list and not in `taken`. Every system move is exactly ONE move of the command
processor's open model (`cpOp`; a CU-internal move is the identity `cuRoom := cuRoom`) and at most
one move of one CU's open model (`cuOp`), so every closed run projects onto an open run of each
component (`MgpuProofs/C09Sys1.lean`; the definitions live here and not in `MgpuModel/` because enabledness of a CU move is `TLegal` of the CU proofs) and the open-system theorems apply to it. -/
namespace C09.Sys
open C09

structure Sys where
  cp : CP
  cus : List CUSide.TState
  /-- ghost: request ids of the `MapWGReq`s handed to their CU, newest first -/
  delivered : List Nat
  /-- ghost: request ids of the `WGCompletionMsg`s handed to the command processor, newest first -/
  taken : List Nat
  /-- ghost: number of `LaunchKernelRsp`s the driver has retrieved -/
  rspTaken : Nat

inductive SOp
  | launch (k : Kern)
  | tick
  | deliverMap (r : Nat)
  | cu (c : Nat) (o : CUSide.TOp)
  | deliverCmp (c r : Nat)
  | takeRsp

/-- the `MapWGReq` with request id `r` in the trace: the CU it names and the SIMD of each wavefront -/
def findMap (log : List Ev) (r : Nat) : Option (Nat × List Nat) :=
  log.findSome? fun e => match e with
    | .map r' c _ _ locs => if r' = r then some (c, locs.map (·.simd)) else none
    | .rsp _ => none

/-- number of `LaunchKernelRsp`s in the trace -/
def rspTotal (log : List Ev) : Nat :=
  (log.filter fun e => match e with | .rsp _ => true | .map .. => false).length

def Sys.cu (s : Sys) (c : Nat) : CUSide.TState := s.cus.getD c (CUSide.tinit [] 0)

/-- a CU-internal move: not a `MapWGReq`, not a port move -/
def internal : CUSide.TOp → Bool
  | .issue .. => true
  | .nop .. => true
  | .endp .. => true
  | .bar .. => true
  | _ => false

/-- the `MapWGReq` a `deliverMap r` move hands over: CU and the `handleMapWGReq` op -/
def mapMove (s : Sys) (r : Nat) : Option (Nat × CUSide.TOp) :=
  if r ∈ s.delivered then none else
  match findMap s.cp.log r with
  | none => none
  | some (c, simds) =>
    if c < s.cus.length ∧ CUSide.TLegal (s.cu c) (.map r 0 simds) then some (c, .map r 0 simds) else none

/-- a `deliverCmp c r` move is enabled: CU `c` has sent the completion of `r`, not yet handed over -/
def cmpMove (s : Sys) (c r : Nat) : Bool :=
  decide (c < s.cus.length) && decide (r ∈ (s.cu c).sent.map (·.1)) && !decide (r ∈ s.taken)

/-- a `cu c o` move is enabled -/
def cuMove (s : Sys) (c : Nat) (o : CUSide.TOp) : Bool :=
  decide (c < s.cus.length) && internal o && decide (CUSide.TLegal (s.cu c) o)

/-- the identity move of the command processor's open model -/
def idOp (cp : CP) : Op := .cuRoom cp.cuRoom

/-- what the command processor sees of a system move: exactly one move of its open model -/
def cpOp (s : Sys) : SOp → Op
  | .launch k => .launch k
  | .tick => .tick
  | .deliverMap r => match mapMove s r with
    | some _ => .cuRoom (s.cp.cuRoom + 1)
    | none => idOp s.cp
  | .cu _ _ => idOp s.cp
  | .deliverCmp c r => if cmpMove s c r then .complete [r] else idOp s.cp
  | .takeRsp => if s.rspTaken < rspTotal s.cp.log then .drvRoom (s.cp.drvRoom + 1) else idOp s.cp

/-- what compute unit `c` sees of a system move: at most one move of its open model -/
def cuOp (s : Sys) (c : Nat) : SOp → Option CUSide.TOp
  | .deliverMap r => match mapMove s r with
    | some (c', o) => if c' = c then some o else none
    | none => none
  | .cu c' o => if c' = c ∧ cuMove s c' o then some o else none
  | .deliverCmp c' r => if c' = c ∧ cmpMove s c' r then some (.room ((s.cu c).room + 1)) else none
  | _ => none

def applyCU (t : CUSide.TState) : Option CUSide.TOp → CUSide.TState
  | some o => CUSide.tstep t o
  | none => t

/-- one move of the closed system -/
def sstep (s : Sys) (o : SOp) : Sys :=
  { cp := step s.cp (cpOp s o)
    cus := (List.range s.cus.length).map fun c => applyCU (s.cu c) (cuOp s c o)
    delivered := match o with
      | .deliverMap r => if (mapMove s r).isSome then r :: s.delivered else s.delivered
      | _ => s.delivered
    taken := match o with
      | .deliverCmp c r => if cmpMove s c r then r :: s.taken else s.taken
      | _ => s.taken
    rspTaken := match o with
      | .takeRsp => if s.rspTaken < rspTotal s.cp.log then s.rspTaken + 1 else s.rspTaken
      | _ => s.rspTaken }

def srun (s : Sys) (ops : List SOp) : Sys := ops.foldl sstep s

/-- initial state: `nd` dispatchers over `pool`, one timing CU per pool entry (`caps c` = wavefront
    slots per SIMD of CU `c`, `room` = capacity of its outgoing port), `capM` / `capD` = capacities
    of the command processor's `ToCUs` / `ToDriver` buffers -/
def sinit (cfg : Cfg) (nd : Nat) (pool : List CU) (caps : Nat → List Nat) (room capM capD : Nat) : Sys :=
  { cp := { mkCP cfg nd pool with cuRoom := capM, drvRoom := capD }
    cus := (List.range pool.length).map fun c => CUSide.tinit (caps c) room
    delivered := [], taken := [], rspTaken := 0 }

/-- the open-model moves of the command processor along a closed run, oldest first -/
def cpOps : Sys → List SOp → List Op
  | _, [] => []
  | s, o :: os => cpOp s o :: cpOps (sstep s o) os

/-- the open-model moves of compute unit `c` along a closed run, oldest first -/
def cuOps (c : Nat) : Sys → List SOp → List CUSide.TOp
  | _, [] => []
  | s, o :: os => (match cuOp s c o with | some t => [t] | none => []) ++ cuOps c (sstep s o) os

end C09.Sys
