import MgpuProofs.C09CUBasic
/-! # C09, emulation compute unit — the invariant behind "every MapWGReq is answered exactly once" -/
namespace C09.CUSide

/-- ids of the pending WGCompleteEvents -/
def wids (s : Emu) : List Nat := s.wgcs.map (·.2)
/-- all ids of all messages sent so far -/
def flat (s : Emu) : List Nat := s.sent.flatten

structure EInv (s : Emu) : Prop where
  P_pos : 0 < s.P
  t_tick : ∀ t ∈ s.ticks, s.now ≤ t
  t_emu : ∀ t ∈ s.emus, s.now ≤ t
  t_wgc : ∀ p ∈ s.wgcs, s.now ≤ p.1
  got_nd : s.got.Nodup
  in_nd : s.inbuf.Nodup
  in_fresh : ∀ x ∈ s.inbuf, x ∉ s.got
  q_wfs : ∀ x ∈ s.queue, x ∈ s.wfs
  wfs_got : ∀ x ∈ s.wfs, x ∈ s.got
  fin_got : ∀ x ∈ s.finished, x ∈ s.got
  sent_got : ∀ x ∈ flat s, x ∈ s.got
  wid_got : ∀ p ∈ s.wgcs, p.2 ∈ s.got
  q_nd : s.queue.Nodup
  wfs_nd : s.wfs.Nodup
  fin_nd : s.finished.Nodup
  wid_nd : (wids s).Nodup
  sent_nd : (flat s).Nodup
  wfs_fin : ∀ x ∈ s.wfs, x ∉ s.finished
  wfs_sent : ∀ x ∈ s.wfs, x ∉ flat s
  fin_sent : ∀ x ∈ s.finished, x ∉ flat s
  q_wid : ∀ x ∈ s.queue, x ∉ wids s
  wgc_ok : ∀ p ∈ s.wgcs, p.2 ∉ flat s ∧ (p.2 ∈ s.wfs ∨ p.2 ∈ s.finished)
  wfs_cov : ∀ x ∈ s.wfs, x ∈ s.queue ∨ x ∈ wids s
  q_emu : s.queue ≠ [] → s.emus ≠ []
  nt_emu : s.now < s.nextTick → s.nextTick ∈ s.emus
  fin_cov : s.finished ≠ [] → s.wfs ≠ [] ∨ ∃ p ∈ s.wgcs, p.2 ∉ s.wfs
  got_cov : ∀ x ∈ s.got, x ∈ s.wfs ∨ x ∈ s.finished ∨ x ∈ flat s
  emu_sec : ∀ t ∈ s.emus, s.P ∣ t
  r_soon : ∀ p ∈ s.wgcs, p.2 ∉ s.wfs → p.1 ≤ s.now + 1
  r_first : ∀ p ∈ s.wgcs, p.2 ∉ s.wfs → ∀ q ∈ s.wgcs, q.2 ∈ s.wfs → p.1 < q.1
  r_emu : ∀ p ∈ s.wgcs, p.2 ∉ s.wfs → s.queue ≠ [] → ∀ e ∈ s.emus, p.1 ≤ e
  r_one : ∀ p ∈ s.wgcs, p.2 ∉ s.wfs → ∀ q ∈ s.wgcs, q.2 ∉ s.wfs → p = q

/-- the hypotheses on the environment: MapWGReq ids are fresh (Akita's id generator), events are
    fired in time order with ANY tie-break, and no MapWGReq is taken by a Tick that falls exactly
    on a whole second -/
def EOk (s : Emu) : EOp → Prop
  | .deliver id => id ∉ s.got ∧ id ∉ s.inbuf
  | .tick t => Legal s (.tick t) ∧ (s.inbuf ≠ [] → ¬ s.P ∣ t)
  | o => Legal s o

theorem einv_init (P incap outcap : Nat) (hP : 0 < P) : EInv (einit P incap outcap) := by
  constructor <;> simp [einit, wids, flat, hP]

/-- the invariant does not read the port buffers and the tick bookkeeping, except that pending
    ticks are not in the past -/
theorem einv_frame {s s' : Emu} (h : EInv s)
    (hP : s'.P = s.P) (hnow : s'.now = s.now) (hnt : s'.nextTick = s.nextTick) (hin : s'.inbuf = s.inbuf)
    (hq : s'.queue = s.queue) (hw : s'.wfs = s.wfs) (hf : s'.finished = s.finished)
    (he : s'.emus = s.emus) (hwg : s'.wgcs = s.wgcs) (hs : s'.sent = s.sent) (hg : s'.got = s.got)
    (ht : ∀ t ∈ s'.ticks, s.now ≤ t) : EInv s' := by
  cases s; cases s'
  simp only at hP hnow hnt hin hq hw hf he hwg hs hg ht
  subst hP hnow hnt hin hq hw hf he hwg hs hg
  exact ⟨h.P_pos, ht, h.t_emu, h.t_wgc, h.got_nd, h.in_nd, h.in_fresh, h.q_wfs, h.wfs_got, h.fin_got,
    h.sent_got, h.wid_got, h.q_nd, h.wfs_nd, h.fin_nd, h.wid_nd, h.sent_nd, h.wfs_fin, h.wfs_sent,
    h.fin_sent, h.q_wid, h.wgc_ok, h.wfs_cov, h.q_emu, h.nt_emu, h.fin_cov, h.got_cov, h.emu_sec,
    h.r_soon, h.r_first, h.r_emu, h.r_one⟩

/-- `TickLater` only adds a tick one cycle later -/
theorem einv_tickLater {s : Emu} (h : EInv s) : EInv (tickLater s) := by
  have key : ∀ t ∈ s.ticks ++ [s.now + 1], s.now ≤ t := by
    intro t ht
    rcases List.mem_append.mp ht with ht | ht
    · exact h.t_tick t ht
    · simp at ht; omega
  unfold tickLater
  dsimp only
  split
  · split
    · exact h
    · exact einv_frame h rfl rfl rfl rfl rfl rfl rfl rfl rfl rfl rfl key
  · exact einv_frame h rfl rfl rfl rfl rfl rfl rfl rfl rfl rfl rfl key

theorem einv_fill {s : Emu} (h : EInv s) : EInv (fill s).1 := by
  unfold fill
  split
  · exact h
  · exact einv_frame h rfl rfl rfl rfl rfl rfl rfl rfl rfl rfl rfl h.t_tick

theorem einv_take {s : Emu} (h : EInv s) : EInv (take s).1 := by
  unfold take
  split
  · exact h
  · have h' : EInv { s with out := ‹List (List Nat)› } :=
      einv_frame h rfl rfl rfl rfl rfl rfl rfl rfl rfl rfl rfl h.t_tick
    dsimp only
    split
    · exact einv_tickLater h'
    · exact h'

theorem einv_deliver {s : Emu} (h : EInv s) (id : Nat) (hok : EOk s (.deliver id)) :
    EInv (deliver s id).1 := by
  obtain ⟨hg, hi⟩ := hok
  unfold deliver
  split
  · exact h
  · have h' : EInv { s with inbuf := s.inbuf ++ [id] } := by
      have h0 := h
      cases s
      simp only at hg hi ⊢
      exact ⟨h.P_pos, h.t_tick, h.t_emu, h.t_wgc, h.got_nd,
        by
          have := h.in_nd
          simp only at this
          rw [List.nodup_append]
          exact ⟨this, by simp, by intro a ha b hb hab; simp at hb; subst hab; subst hb; exact hi ha⟩,
        by
          intro x hx
          rcases List.mem_append.mp hx with hx | hx
          · exact h.in_fresh x hx
          · simp at hx; subst hx; exact hg,
        h.q_wfs, h.wfs_got, h.fin_got,
        h.sent_got, h.wid_got, h.q_nd, h.wfs_nd, h.fin_nd, h.wid_nd, h.sent_nd, h.wfs_fin, h.wfs_sent,
        h.fin_sent, h.q_wid, h.wgc_ok, h.wfs_cov, h.q_emu, h.nt_emu, h.fin_cov, h.got_cov, h.emu_sec,
        h.r_soon, h.r_first, h.r_emu, h.r_one⟩
    dsimp only
    split
    · exact einv_tickLater h'
    · exact h'

end C09.CUSide
