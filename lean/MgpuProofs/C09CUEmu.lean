import MgpuProofs.C09CUBasic
/-! # C09, emulation compute unit — the invariants behind "every MapWGReq is answered exactly once"

`handleWGCompleteEvent` as repaired by 776c38a7: an id is moved from `cu.wfs` to
`finishedMapWGReqs` only by the event that finds its work-group still mapped. Hence the
bookkeeping invariant `NInv` (mapped / finished / sent are pairwise disjoint, duplicate-free and
together exactly the requests taken) holds **whatever the order in which events fire**; the time
order is needed only for progress (`ETime`, file `C09CUEmuStep.lean`). -/
namespace C09.CUSide

/-- ids of the pending WGCompleteEvents -/
def wids (s : Emu) : List Nat := s.wgcs.map (·.2)
/-- all ids of all messages sent so far -/
def flat (s : Emu) : List Nat := s.sent.flatten

/-! ## what the environment may do -/

/-- MapWGReq ids are fresh (Akita's id generator), events are fired in time order with ANY
    tie-break, and (hypothesis H, needed only before the repair) no MapWGReq is taken by a Tick
    that falls exactly on a whole second -/
def EOk (s : Emu) : EOp → Prop
  | .deliver id => id ∉ s.got ∧ id ∉ s.inbuf
  | .tick t => Legal s (.tick t) ∧ (s.inbuf ≠ [] → ¬ s.P ∣ t)
  | o => Legal s o

/-- fresh ids and time order (any tie-break), WITHOUT the whole-second hypothesis -/
def EOkNoH (s : Emu) : EOp → Prop
  | .deliver id => id ∉ s.got ∧ id ∉ s.inbuf
  | o => Legal s o

/-- fresh ids, events fired in ANY order (only pending events fire), no MapWGReq taken at a whole second -/
def EOkAnyOrder (s : Emu) : EOp → Prop
  | .deliver id => id ∉ s.got ∧ id ∉ s.inbuf
  | .tick t => t ∈ s.ticks ∧ (s.inbuf ≠ [] → ¬ s.P ∣ t)
  | .emu t => t ∈ s.emus
  | .wgc t id => (t, id) ∈ s.wgcs
  | _ => True

/-- the weakest environment: fresh ids, and a WGCompleteEvent fires only if it is pending. Ticks and
    emulation events may fire at any time, in any order, even spuriously. -/
def EOkLoose (s : Emu) : EOp → Prop
  | .deliver id => id ∉ s.got ∧ id ∉ s.inbuf
  | .wgc t id => (t, id) ∈ s.wgcs
  | _ => True

instance (s : Emu) (o : EOp) : Decidable (EOk s o) := by
  cases o <;> simp only [EOk] <;> infer_instance
instance (s : Emu) (o : EOp) : Decidable (EOkNoH s o) := by
  cases o <;> simp only [EOkNoH] <;> infer_instance
instance (s : Emu) (o : EOp) : Decidable (EOkAnyOrder s o) := by
  cases o <;> simp only [EOkAnyOrder] <;> infer_instance
instance (s : Emu) (o : EOp) : Decidable (EOkLoose s o) := by
  cases o <;> simp only [EOkLoose] <;> infer_instance

theorem eok_noH {s : Emu} {o : EOp} (h : EOk s o) : EOkNoH s o := by
  cases o <;> simp only [EOk, EOkNoH] at h ⊢ <;> first | exact h.1 | exact h

theorem eokNoH_legal {s : Emu} {o : EOp} (h : EOkNoH s o) : Legal s o := by
  cases o <;> simp only [EOkNoH, Legal] at h ⊢ <;> first | trivial | exact h

theorem eok_legal {s : Emu} {o : EOp} (h : EOk s o) : Legal s o := eokNoH_legal (eok_noH h)

theorem eokNoH_loose {s : Emu} {o : EOp} (h : EOkNoH s o) : EOkLoose s o := by
  cases o <;> simp only [EOkNoH, EOkLoose, Legal] at h ⊢ <;> first | trivial | exact h.1 | exact h

theorem eokAnyOrder_loose {s : Emu} {o : EOp} (h : EOkAnyOrder s o) : EOkLoose s o := by
  cases o <;> simp only [EOkAnyOrder, EOkLoose] at h ⊢ <;> first | trivial | exact h

/-- every op of the run is allowed in the state it is applied to -/
def RunOk (ok : Emu → EOp → Prop) : Emu → List EOp → Prop
  | _, [] => True
  | s, o :: os => ok s o ∧ RunOk ok (estep s o) os

instance (ok : Emu → EOp → Prop) [∀ s o, Decidable (ok s o)] : ∀ (s : Emu) (ops : List EOp), Decidable (RunOk ok s ops)
  | _, [] => isTrue trivial
  | s, o :: os =>
    have := instDecidableRunOk ok (estep s o) os
    inferInstanceAs (Decidable (ok s o ∧ RunOk ok (estep s o) os))

/-- the same for the machine before the repair (`estepOld`) -/
def RunOkOld (ok : Emu → EOp → Prop) : Emu → List EOp → Prop
  | _, [] => True
  | s, o :: os => ok s o ∧ RunOkOld ok (estepOld s o) os

instance (ok : Emu → EOp → Prop) [∀ s o, Decidable (ok s o)] : ∀ (s : Emu) (ops : List EOp), Decidable (RunOkOld ok s ops)
  | _, [] => isTrue trivial
  | s, o :: os =>
    have := instDecidableRunOkOld ok (estepOld s o) os
    inferInstanceAs (Decidable (ok s o ∧ RunOkOld ok (estepOld s o) os))

theorem runOk_mono {ok ok' : Emu → EOp → Prop} (hm : ∀ s o, ok s o → ok' s o) :
    ∀ (s : Emu) (ops : List EOp), RunOk ok s ops → RunOk ok' s ops
  | _, [], _ => trivial
  | s, o :: os, h => ⟨hm s o h.1, runOk_mono hm (estep s o) os h.2⟩

/-! ## the bookkeeping invariant (no time in it) -/

structure NCore (s : Emu) : Prop where
  got_nd : s.got.Nodup
  in_nd : s.inbuf.Nodup
  in_fresh : ∀ x ∈ s.inbuf, x ∉ s.got
  q_wfs : ∀ x ∈ s.queue, x ∈ s.wfs
  q_wid : ∀ x ∈ s.queue, x ∉ wids s
  wfs_got : ∀ x ∈ s.wfs, x ∈ s.got
  fin_got : ∀ x ∈ s.finished, x ∈ s.got
  sent_got : ∀ x ∈ flat s, x ∈ s.got
  wid_got : ∀ p ∈ s.wgcs, p.2 ∈ s.got
  wfs_nd : s.wfs.Nodup
  fin_nd : s.finished.Nodup
  sent_nd : (flat s).Nodup
  wfs_fin : ∀ x ∈ s.wfs, x ∉ s.finished
  wfs_sent : ∀ x ∈ s.wfs, x ∉ flat s
  fin_sent : ∀ x ∈ s.finished, x ∉ flat s
  wfs_cov : ∀ x ∈ s.wfs, x ∈ s.queue ∨ x ∈ wids s
  got_cov : ∀ x ∈ s.got, x ∈ s.wfs ∨ x ∈ s.finished ∨ x ∈ flat s

/-- finished ids wait for a mapped work-group to complete or for a retry event -/
def FinCov (s : Emu) : Prop := s.finished ≠ [] → s.wfs ≠ [] ∨ s.wgcs ≠ []

structure NInv (s : Emu) : Prop where
  core : NCore s
  fin_cov : FinCov s

theorem ninv_init (P incap outcap : Nat) : NInv (einit P incap outcap) := by
  refine ⟨?_, ?_⟩
  · constructor <;> simp [einit, wids, flat]
  · intro h; simp [einit] at h

/-- the invariant reads only the incoming buffer, the queue, `wfs`, `finishedMapWGReqs`, the
    pending completion events, the messages sent and the requests taken -/
theorem ncore_frame {s s' : Emu} (h : NCore s) (hin : s'.inbuf = s.inbuf)
    (hq : s'.queue = s.queue) (hw : s'.wfs = s.wfs) (hf : s'.finished = s.finished)
    (hwg : s'.wgcs = s.wgcs) (hs : s'.sent = s.sent) (hg : s'.got = s.got) : NCore s' := by
  cases s; cases s'
  simp only at hin hq hw hf hwg hs hg
  subst hin hq hw hf hwg hs hg
  exact ⟨h.got_nd, h.in_nd, h.in_fresh, h.q_wfs, h.q_wid, h.wfs_got, h.fin_got, h.sent_got, h.wid_got,
    h.wfs_nd, h.fin_nd, h.sent_nd, h.wfs_fin, h.wfs_sent, h.fin_sent, h.wfs_cov, h.got_cov⟩

theorem ninv_frame {s s' : Emu} (h : NInv s) (hin : s'.inbuf = s.inbuf)
    (hq : s'.queue = s.queue) (hw : s'.wfs = s.wfs) (hf : s'.finished = s.finished)
    (hwg : s'.wgcs = s.wgcs) (hs : s'.sent = s.sent) (hg : s'.got = s.got) : NInv s' := by
  refine ⟨ncore_frame h.core hin hq hw hf hwg hs hg, ?_⟩
  unfold FinCov
  rw [hf, hw, hwg]
  exact h.fin_cov

theorem nodup_snoc {l : List Nat} {a : Nat} (h : l.Nodup) (ha : a ∉ l) : (l ++ [a]).Nodup := by
  rw [List.nodup_append]
  exact ⟨h, by simp, by intro x hx b hb hab; simp at hb; subst hab; subst hb; exact ha hx⟩

theorem mem_snoc {l : List Nat} {a x : Nat} : x ∈ l ++ [a] ↔ x ∈ l ∨ x = a := by simp

theorem ninv_tickLater {s : Emu} (h : NInv s) : NInv (tickLater s) := by
  unfold tickLater
  dsimp only
  split
  · split
    · exact h
    · exact ninv_frame h rfl rfl rfl rfl rfl rfl rfl
  · exact ninv_frame h rfl rfl rfl rfl rfl rfl rfl

theorem ninv_fill {s : Emu} (h : NInv s) : NInv (fill s).1 := by
  unfold fill
  split
  · exact h
  · exact ninv_frame h rfl rfl rfl rfl rfl rfl rfl

theorem ninv_take {s : Emu} (h : NInv s) : NInv (take s).1 := by
  unfold take
  split
  · exact h
  · have h' : NInv { s with out := ‹List (List Nat)› } := ninv_frame h rfl rfl rfl rfl rfl rfl rfl
    dsimp only
    split
    · exact ninv_tickLater h'
    · exact h'

theorem ninv_deliver {s : Emu} (h : NInv s) (id : Nat) (hg : id ∉ s.got) (hi : id ∉ s.inbuf) :
    NInv (deliver s id).1 := by
  unfold deliver
  split
  · exact h
  · have h' : NInv { s with inbuf := s.inbuf ++ [id] } := by
      have c := h.core
      refine ⟨⟨c.got_nd, nodup_snoc c.in_nd hi, ?_, c.q_wfs, c.q_wid, c.wfs_got, c.fin_got, c.sent_got,
        c.wid_got, c.wfs_nd, c.fin_nd, c.sent_nd, c.wfs_fin, c.wfs_sent, c.fin_sent, c.wfs_cov, c.got_cov⟩,
        h.fin_cov⟩
      intro x hx
      rcases mem_snoc.mp hx with hx | hx
      · exact c.in_fresh x hx
      · rw [hx]; exact hg
    dsimp only
    split
    · exact ninv_tickLater h'
    · exact h'

end C09.CUSide
