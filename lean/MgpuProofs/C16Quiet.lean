import MgpuProofs.C16Keep
/-! # C16 — when the translator may sleep

`Quiet c s`: every pipeline stage and the control handler are blocked or have nothing to look at.
* `quiet_tick`: in a quiet state a tick does nothing at all (`tick c s = (s, false)`);
* `tick_false_quiet`: whenever a tick reports *no progress* the state it leaves is quiet — although
  that tick itself may have changed the state (reply recorded while the bottom port is full). -/
namespace C16

/-- `respond` is blocked: nothing at the bottom port, or the response at its head belongs to an
    in-flight request and the top port's outgoing buffer is full -/
def respondQ (c : Cfg) (s : St) : Prop :=
  match s.botIn with
  | [] => True
  | r :: _ => (extract r.rspTo s.infl).isSome = true ∧ c.width ≤ s.topOut.length

/-- `parseTranslation` is blocked: a completed transaction is waiting and the bottom port's outgoing
    buffer is full, or there is neither a completed transaction nor a reply -/
def parseQ (c : Cfg) (s : St) : Prop :=
  match popFirst isDrainable s.txs with
  | some _ => c.width ≤ s.botOut.length
  | none => s.trIn = []

/-- `translate` is blocked: no access at the top port, or it needs a new lookup and the translation
    port's outgoing buffer is full -/
def translateQ (c : Cfg) (s : St) : Prop :=
  match s.topIn with
  | [] => True
  | a :: _ => coalesce c.lg a s.txs = none ∧ c.width ≤ s.trOut.length

def ctlQ (s : St) : Prop := s.ctlIn = [] ∨ 1 ≤ s.ctlOut

structure Quiet (c : Cfg) (s : St) : Prop where
  r : s.flushing = false → respondQ c s
  p : parseQ c s
  t : s.flushing = false → translateQ c s
  k : ctlQ s

/-- the control port holds only flush / restart commands (Go panics on anything else) -/
def NoBad (s : St) : Prop := ∀ k ∈ s.ctlIn, k ≠ Ctl.bad

theorem respondQ_idle (c : Cfg) (s : St) (h : respondQ c s) : respond c s = (s, false) := by
  unfold respondQ at h
  unfold respond
  cases hb : s.botIn with
  | nil => rfl
  | cons r rest =>
    rw [hb] at h
    obtain ⟨h1, h2⟩ := h
    cases hx : extract r.rspTo s.infl with
    | none => simp [hx] at h1
    | some x =>
      obtain ⟨f, infl'⟩ := x
      have : ¬ s.topOut.length < c.width := by omega
      simp only [hx, this, if_false]

theorem respond_false (c : Cfg) (s : St) (h : (respond c s).2 = false) :
    respond c s = (s, false) ∧ respondQ c s := by
  unfold respondQ
  unfold respond at h ⊢
  cases hb : s.botIn with
  | nil => exact ⟨rfl, trivial⟩
  | cons r rest =>
    rw [hb] at h
    cases hx : extract r.rspTo s.infl with
    | none => simp [hx] at h
    | some x =>
      simp only [hx] at h ⊢
      by_cases hlt : s.topOut.length < c.width
      · simp [hlt] at h
      · simp only [hlt, if_false]
        exact ⟨by first | rfl | trivial, by first | rfl | trivial, by omega⟩

theorem translateQ_idle (c : Cfg) (s : St) (h : translateQ c s) : translate c s = (s, false) := by
  unfold translateQ at h
  unfold translate
  cases hb : s.topIn with
  | nil => rfl
  | cons a rest =>
    rw [hb] at h
    obtain ⟨h1, h2⟩ := h
    have : ¬ s.trOut.length < c.width := by omega
    simp only [h1, this, if_false]

theorem translate_false (c : Cfg) (s : St) (h : (translate c s).2 = false) :
    translate c s = (s, false) ∧ translateQ c s := by
  unfold translateQ
  unfold translate at h ⊢
  cases hb : s.topIn with
  | nil => exact ⟨rfl, trivial⟩
  | cons a rest =>
    rw [hb] at h
    cases hx : coalesce c.lg a s.txs with
    | some x => simp [hx] at h
    | none =>
      simp only [hx] at h ⊢
      by_cases hlt : s.trOut.length < c.width
      · simp [hlt] at h
      · simp only [hlt, if_false]
        exact ⟨by first | rfl | trivial, by first | rfl | trivial, by omega⟩

theorem parseQ_idle (c : Cfg) (s : St) (h : parseQ c s) : parseTranslation c s = (s, false) := by
  unfold parseQ at h
  unfold parseTranslation
  cases hp : popFirst isDrainable s.txs with
  | none =>
    rw [hp] at h
    simp only [h]
  | some x =>
    obtain ⟨t, txs'⟩ := x
    rw [hp] at h
    have hn : ¬ s.botOut.length < c.width := by
      have h' : c.width ≤ s.botOut.length := h
      omega
    simp only
    split
    · simp only [hn, if_false]
    · rfl

/-- a `parseTranslation` call that reports no progress leaves a state in which it is blocked, and
    changes nothing but (possibly) the transaction list -/
theorem parse_false (c : Cfg) (s : St) (hm : MInv c s) (hd : DInv s) :
    ∀ res, parseTranslation c s = res → res.2 = false →
      parseQ c res.1 ∧ ∃ txs', res.1 = { s with txs := txs' } := by
  intro res hres hflag
  unfold parseTranslation at hres
  split at hres
  · rename_i t txs' hp
    obtain ⟨ht, hpt, _, _⟩ := popFirst_spec _ _ _ _ hp
    split at hres
    · split at hres
      · subst hres; simp at hflag
      · rename_i hn
        subst hres
        refine ⟨?_, s.txs, rfl⟩
        unfold parseQ
        rw [hp]
        show c.width ≤ s.botOut.length
        omega
    · rename_i hno
      exfalso
      have hdr : t.done = true ∧ t.reqs ≠ [] := by
        simp [isDrainable] at hpt
        exact ⟨hpt.1, hpt.2⟩
      have hpg := hd t ht hdr.1
      cases hr : t.reqs with
      | nil => exact hdr.2 hr
      | cons a rs =>
        cases hq : t.page with
        | none => simp [hq] at hpg
        | some p => exact hno a rs p hr hq
  · rename_i hp
    split at hres
    · rename_i htr
      subst hres
      refine ⟨?_, s.txs, rfl⟩
      unfold parseQ
      rw [hp]
      exact htr
    · rename_i r rest htr
      split at hres
      · subst hres; simp at hflag
      · rename_i t txs' hp2
        obtain ⟨ht, _, _, _⟩ := popFirst_spec _ _ _ _ hp2
        have hdone := popFirst_markFirst_done _ _ _ _ _ hp2
        have hne : t.reqs ≠ [] := by
          rcases markFirst_mem _ _ _ t ht with h3 | ⟨t0, h0, _, rfl⟩
          · exact (hm.tx t h3).1
          · exact (hm.tx t0 h0).1
        have hblocked : c.width ≤ s.botOut.length →
            parseQ c { s with txs := markFirst (hasTid r.rspTo) r.paddr s.txs } := by
          intro hle
          unfold parseQ
          have hsome := popFirst_some_of_mem isDrainable _ t ht (by
            cases hr : t.reqs with
            | nil => exact absurd hr hne
            | cons a rs => simp [isDrainable, hdone, hr])
          cases hq : popFirst isDrainable (markFirst (hasTid r.rspTo) r.paddr s.txs) with
          | none => rw [hq] at hsome; simp at hsome
          | some y => exact hle
        split at hres
        · rename_i hr; exact absurd hr hne
        · split at hres
          · subst hres; simp at hflag
          · rename_i hn
            subst hres
            exact ⟨hblocked (by omega), _, rfl⟩

theorem ctlQ_idle (s : St) (nb : NoBad s) (h : ctlQ s) : handleCtrl s = (s, false) := by
  unfold handleCtrl
  split
  · rfl
  · rename_i rest hc
    rcases h with h | h
    · rw [h] at hc; simp at hc
    · have : ¬ s.ctlOut < 1 := by omega
      simp only [this, if_false]
  · rename_i rest hc
    rcases h with h | h
    · rw [h] at hc; simp at hc
    · have : ¬ s.ctlOut < 1 := by omega
      simp only [this, if_false]
  · rename_i rest hc
    exact absurd rfl (nb .bad (by rw [hc]; exact List.mem_cons_self ..))

theorem ctl_false (s : St) (nb : NoBad s) (h : (handleCtrl s).2 = false) :
    handleCtrl s = (s, false) ∧ ctlQ s := by
  unfold ctlQ
  unfold handleCtrl at h ⊢
  split
  · rename_i hc; exact ⟨rfl, Or.inl hc⟩
  · rename_i rest hc
    simp only [hc] at h
    by_cases hlt : s.ctlOut < 1
    · simp [hlt] at h
    · simp only [hlt, if_false]; exact ⟨by first | rfl | trivial, Or.inr (by omega)⟩
  · rename_i rest hc
    simp only [hc] at h
    by_cases hlt : s.ctlOut < 1
    · simp [hlt] at h
    · simp only [hlt, if_false]; exact ⟨by first | rfl | trivial, Or.inr (by omega)⟩
  · rename_i rest hc
    exact absurd rfl (nb .bad (by rw [hc]; exact List.mem_cons_self ..))

theorem iter_succ_flag {f : St → St × Bool} (n : Nat) (s : St) (h : (iter f (n + 1) s).2 = false) :
    (f s).2 = false := by
  simp only [iter, Bool.or_eq_false_iff] at h
  exact h.1

theorem iter_succ_idle {f : St → St × Bool} (n : Nat) (s : St) (h : f (f s).1 = ((f s).1, false)) :
    (iter f (n + 1) s).1 = (f s).1 := by
  simp [iter, iter_idle _ h]

/-- a pipeline pass that reports no progress changes at most the transaction list (a reply recorded
    while the bottom port is full) and leaves every stage blocked -/
theorem pipe_false (c : Cfg) (s : St) (hw : 0 < c.width) (hm : MInv c s) (hd : DInv s)
    (h : (pipe c s).2 = false) :
    (∃ txs', (pipe c s).1 = { s with txs := txs' }) ∧ parseQ c (pipe c s).1 ∧
    (s.flushing = false → respondQ c s ∧ translateQ c (pipe c s).1) := by
  obtain ⟨n, hn⟩ : ∃ n, c.width = n + 1 := ⟨c.width - 1, by omega⟩
  unfold pipe at h ⊢
  split
  · rename_i hf
    rw [if_pos hf] at h
    rw [hn] at h ⊢
    have h1 := iter_succ_flag n s h
    obtain ⟨hq, txs', he⟩ := parse_false c s hm hd _ rfl h1
    have hidle := parseQ_idle c _ hq
    rw [iter_succ_idle n s hidle]
    exact ⟨⟨txs', he⟩, hq, fun hh => by simp [hf] at hh⟩
  · rename_i hf
    rw [if_neg hf] at h
    simp only [runPipeline, Bool.or_eq_false_iff] at h ⊢
    obtain ⟨⟨ha, hb⟩, hd'⟩ := h
    rw [hn] at ha hb hd' ⊢
    -- respond
    obtain ⟨hr1, hr2⟩ := respond_false c s (iter_succ_flag n s ha)
    have hra : iter (respond c) (n + 1) s = (s, false) := iter_idle s hr1 _
    rw [hra] at hb hd' ⊢
    -- parseTranslation
    have h1 := iter_succ_flag n s hb
    obtain ⟨hq, txs', he⟩ := parse_false c s hm hd _ rfl h1
    have hidle := parseQ_idle c _ hq
    have hpb : (iter (parseTranslation c) (n + 1) s).1 = (parseTranslation c s).1 := iter_succ_idle n s hidle
    rw [hpb] at hd' ⊢
    -- translate
    obtain ⟨ht1, ht2⟩ := translate_false c _ (iter_succ_flag n _ hd')
    have hta : iter (translate c) (n + 1) (parseTranslation c s).1 = ((parseTranslation c s).1, false) :=
      iter_idle _ ht1 _
    rw [hta]
    exact ⟨⟨txs', he⟩, hq, fun _ => ⟨hr2, ht2⟩⟩

theorem tick_false_quiet (c : Cfg) (s : St) (hw : 0 < c.width) (hm : MInv c s) (hd : DInv s)
    (nb : NoBad s) (h : (tick c s).2 = false) : Quiet c (tick c s).1 := by
  rw [tick_eq] at h ⊢
  simp only [Bool.or_eq_false_iff] at h
  obtain ⟨hc, hp⟩ := h
  obtain ⟨⟨txs', he⟩, hq, hrt⟩ := pipe_false c s hw hm hd hp
  have hsame := pipe_same c s
  have nb' : NoBad (pipe c s).1 := by
    intro k hk; rw [hsame.1] at hk; exact nb k hk
  obtain ⟨hc1, hc2⟩ := ctl_false _ nb' hc
  simp only [hc1]
  refine ⟨?_, hq, ?_, hc2⟩
  · intro hf
    rw [hsame.2.2.2.1] at hf
    have := (hrt hf).1
    rw [he]
    exact this
  · intro hf
    rw [hsame.2.2.2.1] at hf
    exact (hrt hf).2

theorem pipe_quiet (c : Cfg) (s : St) (h : Quiet c s) : pipe c s = (s, false) := by
  unfold pipe
  split
  · exact iter_idle s (parseQ_idle c s h.p) _
  · rename_i hf
    have hf' : s.flushing = false := by simpa using hf
    simp only [runPipeline]
    rw [iter_idle s (respondQ_idle c s (h.r hf')) _, iter_idle s (parseQ_idle c s h.p) _,
      iter_idle s (translateQ_idle c s (h.t hf')) _]
    rfl

/-- in a quiet state a tick does nothing -/
theorem quiet_tick (c : Cfg) (s : St) (nb : NoBad s) (h : Quiet c s) : tick c s = (s, false) := by
  rw [tick_eq, pipe_quiet c s h, ctlQ_idle s nb h.k]
  rfl

end C16
