import MgpuModel.C08
import MgpuProofs.C08PartInv
/-! # C08 — the partition algorithm against compute units with finite room: invariants

Helper lemmas for `Props/C08Res.lean`. `pNextF` (reservation outcome of CU `i` = `ok i`) is `pNext`
run against exactly the outcomes it meets, so the conservation invariant `PInv` carries over;
`RInv` adds the slot bookkeeping `free[i] + |residents[i]| = caps[i]`. -/
namespace C08

/-! ## `pNextF` is `pNext` against the outcomes it meets -/

theorem goF_is_go (n : Nat) (ok : Nat → Bool) : ∀ (k idx : Nat) (s : PState) (seen rest : List Bool),
    ∃ out, (pNextF.go n ok k idx s seen).2.1 = seen ++ out ∧
      pNext.go n k idx s (out ++ rest) = ((pNextF.go n ok k idx s seen).1, rest, (pNextF.go n ok k idx s seen).2.2) := by
  intro k
  induction k with
  | zero => intro idx s seen rest; exact ⟨[], by simp [pNextF.go], by simp [pNextF.go, pNext.go]⟩
  | succ k ih =>
    intro idx s seen rest
    unfold pNextF.go pNext.go
    simp only
    generalize pNextWG s ((idx + s.next) % n) = r
    obtain ⟨s1, o⟩ := r
    cases o with
    | none => simp only; exact ih (idx + 1) s1 seen rest
    | some p =>
      obtain ⟨wg, j⟩ := p
      simp only
      cases hok : ok ((idx + s.next) % n) with
      | true =>
        refine ⟨[false], by simp, ?_⟩
        simp
      | false =>
        simp only [Bool.false_eq_true, if_false]
        obtain ⟨out, e1, e2⟩ := ih (idx + 1) s1 (seen ++ [true]) rest
        refine ⟨true :: out, by rw [e1]; simp, ?_⟩
        simp only [List.cons_append, if_true]
        exact e2

/-- **pNextF_is_pNext** (helper form) -/
theorem pNextF_eq_pNext (s : PState) (ok : Nat → Bool) :
    pNext s (pNextF s ok).2.1 = ((pNextF s ok).1, [], (pNextF s ok).2.2) := by
  unfold pNextF
  split
  · rename_i h; unfold pNext; rw [if_pos h]
  · rename_i h
    obtain ⟨out, e1, e2⟩ := goF_is_go s.cur.size ok s.cur.size 0 s [] []
    rw [List.nil_append] at e1
    rw [List.append_nil] at e2
    unfold pNext
    rw [if_neg h, e1]
    exact e2

theorem goF_succ (n : Nat) (ok : Nat → Bool) (k idx : Nat) (s : PState) (seen : List Bool) :
    pNextF.go n ok (k + 1) idx s seen =
      match pNextWG s ((idx + s.next) % n) with
      | (s1, none) => pNextF.go n ok k (idx + 1) s1 seen
      | (s1, some (wg, from_)) =>
        if ok ((idx + s.next) % n) then
          ({ s1 with cur := s1.cur.setIfInBounds from_ none,
                     disp := s1.disp.setIfInBounds from_ (s1.disp.getD from_ 0 + 1),
                     nd := s1.nd + 1, next := (idx + s.next) % n + 1 }, seen ++ [false], some ((idx + s.next) % n, wg))
        else pNextF.go n ok k (idx + 1) s1 (seen ++ [true]) := by
  rw [pNextF.go]
  cases pNextWG s ((idx + s.next) % n) with
  | mk s1 o =>
    cases o with
    | none => rfl
    | some p => rfl

/-- a dispatch goes to a CU whose reservation succeeded -/
theorem goF_dispatch_ok (n : Nat) (ok : Nat → Bool) : ∀ (k idx : Nat) (s : PState) (seen : List Bool) (i : Nat) (wg : WG),
    (pNextF.go n ok k idx s seen).2.2 = some (i, wg) → ok i = true := by
  intro k
  induction k with
  | zero => intro idx s seen i wg h; simp [pNextF.go] at h
  | succ k ih =>
    intro idx s seen i wg h
    rw [goF_succ] at h
    cases hr : pNextWG s ((idx + s.next) % n) with
    | mk s1 o =>
    rw [hr] at h
    cases o with
    | none => exact ih _ _ _ _ _ h
    | some p =>
      obtain ⟨wg', j⟩ := p
      simp only at h
      cases hok : ok ((idx + s.next) % n) with
      | true =>
        rw [hok] at h
        simp only [if_true] at h
        cases h; exact hok
      | false =>
        rw [hok] at h
        simp only [Bool.false_eq_true, if_false] at h
        exact ih _ _ _ _ _ h

theorem pNextF_dispatch_ok (s : PState) (ok : Nat → Bool) (i : Nat) (wg : WG)
    (h : (pNextF s ok).2.2 = some (i, wg)) : ok i = true := by
  unfold pNextF at h
  split at h
  · simp at h
  · exact goF_dispatch_ok _ _ _ _ _ _ _ _ h

/-- a call that dispatches nothing but met an outcome met a refusal of some CU -/
theorem goF_none_refused (n : Nat) (hn : 0 < n) (ok : Nat → Bool) : ∀ (k idx : Nat) (s : PState) (seen : List Bool),
    (pNextF.go n ok k idx s seen).2.2 = none →
    seen.length < (pNextF.go n ok k idx s seen).2.1.length → ∃ i, i < n ∧ ok i = false := by
  intro k
  induction k with
  | zero => intro idx s seen _ h; simp [pNextF.go] at h
  | succ k ih =>
    intro idx s seen hnone hlen
    rw [goF_succ] at hnone hlen
    cases hr : pNextWG s ((idx + s.next) % n) with
    | mk s1 o =>
    rw [hr] at hnone hlen
    cases o with
    | none => exact ih _ _ _ hnone hlen
    | some p =>
      obtain ⟨wg', j⟩ := p
      simp only at hnone hlen
      cases hok : ok ((idx + s.next) % n) with
      | true => rw [hok] at hnone; simp at hnone
      | false => exact ⟨_, Nat.mod_lt _ hn, hok⟩

theorem pNextF_none_refused (l : List WG) (n per : Nat) (hn : 0 < n) (done : Nat → List WG) (s : PState)
    (ok : Nat → Bool) (h : PInv l n per s done) (hnd : s.nd < s.numWG)
    (hres : (pNextF s ok).2.2 = none) : ∃ i, i < n ∧ ok i = false := by
  have hp := pNext_none_refused l n per hn done s (pNextF s ok).2.1 h hnd
  rw [pNextF_eq_pNext] at hp
  have hlen := hp hres
  simp only [List.length_nil] at hlen
  unfold pNextF at hres hlen
  rw [if_neg (by omega)] at hres hlen
  rw [h.hcur] at hres hlen
  exact goF_none_refused n hn ok _ _ _ _ hres (by simpa using hlen)

/-- one call of `Next` against `ok` keeps the conservation invariant -/
theorem pNextF_inv (l : List WG) (n per : Nat) (hn : 0 < n) (done : Nat → List WG) (s : PState)
    (ok : Nat → Bool) (h : PInv l n per s done) :
    ((pNextF s ok).2.2 = none ∧ PInv l n per (pNextF s ok).1 done ∧ (pNextF s ok).1.nd = s.nd) ∨
    ∃ i wg j, (pNextF s ok).2.2 = some (i, wg) ∧ i < n ∧ j < n ∧
      PInv l n per (pNextF s ok).1 (bump done j wg) ∧ (pNextF s ok).1.nd = s.nd + 1 := by
  have := pNext_inv l n per hn done s (pNextF s ok).2.1 h
  rw [pNextF_eq_pNext] at this
  exact this

/-! ## the invariant of the resource-driven runs -/

structure RInv (l : List WG) (caps : List Nat) (s : RState) (done : Nat → List WG) : Prop where
  pinv : PInv l caps.length ((l.length - 1) / caps.length + 1) s.p done
  hfree : s.free.size = caps.length
  hres : s.res.size = caps.length
  room : ∀ i, i < caps.length → s.free.getD i 0 + (s.res.getD i []).length = caps.getD i 0

theorem rStart_inv (l : List WG) (caps : List Nat) (hn : 0 < caps.length) :
    RInv l caps (rStart l l.length caps) (fun _ => []) := by
  refine ⟨pStart_inv l caps.length hn, by simp [rStart], by simp [rStart], ?_⟩
  intro i hi
  simp [rStart, Array.getD, hi, List.getD_eq_getElem?_getD]

theorem rStep_next (s : RState) : rStep s .next =
    match pNextF s.p (fun i => decide (0 < s.free.getD i 0)) with
    | (p', _, none) => ({ s with p := p' }, none)
    | (p', _, some (i, wg)) =>
      ({ p := p', free := s.free.setIfInBounds i (s.free.getD i 0 - 1),
         res := s.res.setIfInBounds i (s.res.getD i [] ++ [wg]) }, some (i, wg)) := rfl

theorem rStep_free (s : RState) (cu k : Nat) : rStep s (.free cu k) =
    if k < (s.res.getD cu []).length then
      ({ s with free := s.free.setIfInBounds cu (s.free.getD cu 0 + 1),
                res := s.res.setIfInBounds cu ((s.res.getD cu []).eraseIdx k) }, none)
    else (s, none) := rfl

theorem rStep_inv (l : List WG) (caps : List Nat) (hn : 0 < caps.length) (s : RState) (done : Nat → List WG)
    (h : RInv l caps s done) (op : ROp) :
    ((rStep s op).2 = none ∧ RInv l caps (rStep s op).1 done ∧ (rStep s op).1.p.nd = s.p.nd) ∨
    ∃ i wg j, (rStep s op).2 = some (i, wg) ∧ op = .next ∧ i < caps.length ∧ j < caps.length ∧
      0 < s.free.getD i 0 ∧ RInv l caps (rStep s op).1 (bump done j wg) ∧ (rStep s op).1.p.nd = s.p.nd + 1 := by
  cases op with
  | next =>
    have hp := pNextF_inv l caps.length _ hn done s.p (fun i => decide (0 < s.free.getD i 0)) h.pinv
    have hok := pNextF_dispatch_ok s.p (fun i => decide (0 < s.free.getD i 0))
    rw [rStep_next]
    generalize pNextF s.p (fun i => decide (0 < s.free.getD i 0)) = r at hp hok
    obtain ⟨p', seen, o⟩ := r
    rcases hp with ⟨e, h1, hnd⟩ | ⟨i, wg, j, e, hi, hj, h1, hnd⟩
    · simp only at e h1 hnd
      subst e
      exact Or.inl ⟨rfl, ⟨h1, h.hfree, h.hres, h.room⟩, hnd⟩
    · simp only at e h1 hnd
      subst e
      have hpos : 0 < s.free.getD i 0 := by simpa using hok i wg rfl
      refine Or.inr ⟨i, wg, j, rfl, rfl, hi, hj, hpos, ⟨h1, ?_, ?_, ?_⟩, hnd⟩
      · simp [h.hfree]
      · simp [h.hres]
      · intro i' hi'
        have := h.room i' hi'
        simp only [getD_set]
        by_cases e : i = i'
        · subst e
          simp only [true_and, h.hfree, h.hres, hi, if_true, List.length_append, List.length_singleton]
          omega
        · simp only [e, false_and, if_false]
          exact this
  | free cu k =>
    rw [rStep_free]
    split
    · rename_i hk
      refine Or.inl ⟨rfl, ⟨h.pinv, by simp [h.hfree], by simp [h.hres], ?_⟩, rfl⟩
      intro i hi
      have := h.room i hi
      simp only [getD_set]
      by_cases e : cu = i
      · subst e
        simp only [true_and, h.hfree, h.hres, hi, if_true, List.length_eraseIdx, hk]
        omega
      · simp only [e, false_and, if_false]
        exact this
    · exact Or.inl ⟨rfl, h, rfl⟩

/-- the invariant after any run, the hand-outs accounted for in `done` -/
theorem rRun_inv (l : List WG) (caps : List Nat) (hn : 0 < caps.length) : ∀ (ops : List ROp) (s : RState)
    (done : Nat → List WG), RInv l caps s done →
    ∃ done', RInv l caps (rRun ops s).1 done' ∧
      ((List.range caps.length).flatMap done').Perm ((rRun ops s).2.map (·.2) ++ (List.range caps.length).flatMap done) ∧
      (∀ d ∈ (rRun ops s).2, d.1 < caps.length) ∧
      (rRun ops s).1.p.nd = s.p.nd + (rRun ops s).2.length := by
  intro ops
  induction ops with
  | nil => intro s done h; exact ⟨done, h, by simp [rRun], by simp [rRun], by simp [rRun]⟩
  | cons op ops ih =>
    intro s done h
    have hstep := rStep_inv l caps hn s done h op
    unfold rRun
    generalize rStep s op = r at hstep
    obtain ⟨s1, o⟩ := r
    rcases hstep with ⟨e, h1, hnd⟩ | ⟨i, wg, j, e, _, hi, hj, _, h1, hnd⟩
    · simp only at e h1 hnd
      subst e
      simp only
      obtain ⟨done', a, b, c, d⟩ := ih s1 done h1
      exact ⟨done', a, b, c, by rw [d, hnd]⟩
    · simp only at e h1 hnd
      subst e
      simp only
      obtain ⟨done', a, b, c, d⟩ := ih s1 (bump done j wg) h1
      refine ⟨done', a, ?_, ?_, ?_⟩
      · refine b.trans ?_
        simp only [List.map_cons]
        refine (List.Perm.append_left _ (perm_bump done j wg (List.range caps.length) List.nodup_range (List.mem_range.mpr hj))).trans ?_
        exact List.perm_middle
      · intro d' hd'
        rcases List.mem_cons.mp hd' with e | e
        · subst e; exact hi
        · exact c d' e
      · rw [d, hnd]; simp only [List.length_cons]; omega

/-! ## outstanding work, residents, and the environment's debt -/

theorem sum_lt_of_le_of_lt (f g : Nat → Nat) : ∀ is : List Nat, (∀ i ∈ is, f i ≤ g i) → (∃ j ∈ is, f j < g j) →
    (is.map f).sum < (is.map g).sum := by
  intro is
  induction is with
  | nil => intro _ h; obtain ⟨j, hj, _⟩ := h; cases hj
  | cons a t ih =>
    intro hle hex
    simp only [List.map_cons, List.sum_cons]
    have ha := hle a (List.mem_cons_self ..)
    have hle' : ∀ i ∈ t, f i ≤ g i := fun i hi => hle i (List.mem_cons_of_mem _ hi)
    have hsum : (t.map f).sum ≤ (t.map g).sum := by
      clear ih hex
      induction t with
      | nil => simp
      | cons b u ihu =>
        simp only [List.map_cons, List.sum_cons]
        have := hle' b (List.mem_cons_self ..)
        have := ihu (fun i hi => hle i (by simp at hi ⊢; rcases hi with h | h <;> simp [h]))
          (fun i hi => hle' i (List.mem_cons_of_mem _ hi))
        omega
    obtain ⟨j, hj, hlt⟩ := hex
    rcases List.mem_cons.mp hj with e | e
    · subst e; omega
    · have := ih hle' ⟨j, e, hlt⟩; omega

/-- a partition with own work left means work-groups are outstanding -/
theorem own_work_outstanding (l : List WG) (n per : Nat) (s : PState) (done : Nat → List WG)
    (h : PInv l n per s done) (j : Nat) (hj : j < n) (hd : s.disp.getD j 0 < s.per)
    (hw : (s.cur.getD j none).isSome ∨ s.rem.getD j [] ≠ []) : s.nd < s.numWG := by
  have hsum : l.length = ((List.range n).map fun i => (seg l per i).length).sum := by
    have := congrArg List.length h.cover
    rw [length_flatMap_sum] at this
    exact this.symm
  have hle : ∀ i ∈ List.range n, (done i).length ≤ (seg l per i).length := by
    intro i hi
    obtain ⟨todo, tail, e1, _, _⟩ := h.segs i (List.mem_range.mp hi)
    rw [← e1]; simp only [List.length_append]; omega
  have hlt : (done j).length < (seg l per j).length := by
    obtain ⟨todo, tail, e1, e2, e3⟩ := h.segs j hj
    have hdj := h.disp_eq j hj
    have hp := h.hper
    have e1' := congrArg List.length e1
    simp only [List.length_append] at e1'
    rcases hw with hw | hw
    · cases hc : s.cur.getD j none with
      | none => rw [hc] at hw; simp at hw
      | some w => rw [hc] at e1'; simp at e1'; omega
    · rw [e2] at hw
      by_cases ht : todo = []
      · subst ht
        rcases e3 with e3 | e3
        · subst e3; simp at hw
        · omega
      · have : 0 < todo.length := List.length_pos_iff.mpr ht
        omega
  rw [h.hnum, h.nd_eq, hsum]
  exact sum_lt_of_le_of_lt _ _ _ hle ⟨j, List.mem_range.mpr hj, hlt⟩

theorem sum_le_of_le (f g : Nat → Nat) : ∀ is : List Nat, (∀ i ∈ is, f i ≤ g i) →
    (is.map f).sum ≤ (is.map g).sum := by
  intro is
  induction is with
  | nil => intro _; simp
  | cons a t ih =>
    intro hle
    simp only [List.map_cons, List.sum_cons]
    have := hle a (List.mem_cons_self ..)
    have := ih (fun i hi => hle i (List.mem_cons_of_mem _ hi))
    omega

/-- `numDispatchedWG` never exceeds the number of work-groups -/
theorem nd_le (l : List WG) (n per : Nat) (s : PState) (done : Nat → List WG) (h : PInv l n per s done) :
    s.nd ≤ l.length := by
  have hsum : l.length = ((List.range n).map fun i => (seg l per i).length).sum := by
    have := congrArg List.length h.cover
    rw [length_flatMap_sum] at this
    exact this.symm
  rw [h.nd_eq, hsum]
  apply sum_le_of_le
  intro i hi
  obtain ⟨todo, tail, e1, _, _⟩ := h.segs i (List.mem_range.mp hi)
  rw [← e1]; simp only [List.length_append]; omega

/-- total number of resident work-groups -/
def resTotal (n : Nat) (s : RState) : Nat := ((List.range n).map fun i => (s.res.getD i []).length).sum

theorem sum_update (f g : Nat → Nat) (j : Nat) : ∀ n, j < n → (∀ i, i ≠ j → g i = f i) →
    ((List.range n).map g).sum + f j = ((List.range n).map f).sum + g j := by
  intro n
  induction n with
  | zero => intro h; omega
  | succ n ih =>
    intro hj hne
    rw [List.range_succ, List.map_append, List.map_append, List.sum_append, List.sum_append]
    simp only [List.map_cons, List.map_nil, List.sum_cons, List.sum_nil, Nat.add_zero]
    by_cases e : j = n
    · subst e
      have : (List.range j).map g = (List.range j).map f := by
        apply List.map_congr_left
        intro i hi
        exact hne i (by have := List.mem_range.mp hi; omega)
      rw [this]; omega
    · have := ih (by omega) hne
      have := hne n (fun h => e h.symm)
      omega

/-- **idle ⇒ the environment owes a completion** (helper form) -/
theorem idle_owes (l : List WG) (caps : List Nat) (hn : 0 < caps.length) (s : RState) (done : Nat → List WG)
    (h : RInv l caps s done) (hc : ∀ c ∈ caps, 1 ≤ c) (hidle : idleNext s = true) :
    ∃ i, i < caps.length ∧ s.res.getD i [] ≠ [] := by
  unfold idleNext at hidle
  simp only [Bool.and_eq_true, decide_eq_true_eq] at hidle
  obtain ⟨hnd, hnone⟩ := hidle
  rw [rStep_next] at hnone
  have hr := pNextF_none_refused l caps.length _ hn done s.p (fun i => decide (0 < s.free.getD i 0)) h.pinv hnd
  generalize pNextF s.p (fun i => decide (0 < s.free.getD i 0)) = r at hr hnone
  obtain ⟨p', seen, o⟩ := r
  cases o with
  | some d => simp at hnone
  | none =>
    obtain ⟨i, hi, hok⟩ := hr rfl
    have hok' : ¬ 0 < s.free.getD i 0 := of_decide_eq_false hok
    have hroom := h.room i hi
    have hcap : 1 ≤ caps.getD i 0 := by
      rw [List.getD_eq_getElem?_getD, List.getElem?_eq_getElem hi]
      exact hc _ (List.getElem_mem hi)
    refine ⟨i, hi, ?_⟩
    intro e
    have hz : (s.res.getD i []).length = 0 := by rw [e]; rfl
    omega

/-! ## termination under a responsive environment -/

theorem rRun_cons_fst (op : ROp) (ops : List ROp) (s : RState) :
    (rRun (op :: ops) s).1 = (rRun ops (rStep s op).1).1 := by
  rw [rRun]
  generalize rStep s op = r
  obtain ⟨s1, o⟩ := r
  cases o <;> rfl

theorem nexts_cons_next (ops : List ROp) : nexts (.next :: ops) = nexts ops + 1 := by
  simp [nexts]

theorem nexts_cons_free (cu k : Nat) (ops : List ROp) : nexts (.free cu k :: ops) = nexts ops := by
  simp [nexts]

theorem resTotal_next_none (n : Nat) (s : RState) (h : (rStep s .next).2 = none) :
    resTotal n (rStep s .next).1 = resTotal n s := by
  rw [rStep_next] at h ⊢
  generalize pNextF s.p (fun i => decide (0 < s.free.getD i 0)) = r at h ⊢
  obtain ⟨p', seen, o⟩ := r
  cases o with
  | none => rfl
  | some d => simp at h

theorem resTotal_next_some (n : Nat) (s : RState) (hres : s.res.size = n) (i : Nat) (wg : WG) (hi : i < n)
    (h : (rStep s .next).2 = some (i, wg)) : resTotal n (rStep s .next).1 = resTotal n s + 1 := by
  rw [rStep_next] at h ⊢
  generalize pNextF s.p (fun i => decide (0 < s.free.getD i 0)) = r at h ⊢
  obtain ⟨p', seen, o⟩ := r
  cases o with
  | none => simp at h
  | some d =>
    obtain ⟨i', wg'⟩ := d
    simp only [Option.some.injEq, Prod.mk.injEq] at h
    obtain ⟨rfl, rfl⟩ := h
    simp only [resTotal]
    have := sum_update (fun j => (s.res.getD j []).length)
      (fun j => ((s.res.setIfInBounds i' (s.res.getD i' [] ++ [wg'])).getD j []).length) i' n hi
      (by intro j hj; simp only [getD_set]; rw [if_neg (by intro h; exact hj h.1.symm)])
    have hg : ((s.res.setIfInBounds i' (s.res.getD i' [] ++ [wg'])).getD i' []).length =
        (s.res.getD i' []).length + 1 := by
      rw [getD_set, if_pos ⟨rfl, by omega⟩]; simp
    omega

theorem resTotal_free (n : Nat) (s : RState) (hres : s.res.size = n) (cu k : Nat) :
    (ROp.effective s (.free cu k) = true → resTotal n (rStep s (.free cu k)).1 + 1 = resTotal n s) ∧
    (ROp.effective s (.free cu k) = false → (rStep s (.free cu k)).1 = s) := by
  simp only [ROp.effective, decide_eq_true_eq, decide_eq_false_iff_not]
  rw [rStep_free]
  constructor
  · intro hk
    rw [if_pos hk]
    have hcu : cu < n := by
      rw [← hres]
      apply Classical.byContradiction
      intro hge
      have : s.res.getD cu [] = [] := by
        simp only [Array.getD_eq_getD_getElem?]
        rw [Array.getElem?_eq_none (by omega)]
        rfl
      rw [this] at hk
      simp at hk
    simp only [resTotal]
    have := sum_update (fun j => (s.res.getD j []).length)
      (fun j => ((s.res.setIfInBounds cu ((s.res.getD cu []).eraseIdx k)).getD j []).length) cu n hcu
      (by intro j hj; simp only [getD_set]; rw [if_neg (by intro h; exact hj h.1.symm)])
    have hg : ((s.res.setIfInBounds cu ((s.res.getD cu []).eraseIdx k)).getD cu []).length + 1 =
        (s.res.getD cu []).length := by
      rw [getD_set, if_pos ⟨rfl, by omega⟩, List.length_eraseIdx, if_pos hk]; omega
    omega
  · intro hk
    rw [if_neg hk]

/-- the counting argument: dispatches ≤ outstanding, idle calls ≤ completions ≤ residents + dispatches -/
theorem terminates_aux (l : List WG) (caps : List Nat) (hn : 0 < caps.length) : ∀ (ops : List ROp) (s : RState)
    (done : Nat → List WG) (owed : Bool), RInv l caps s done → Responsive ops s owed →
    (s.p.nd < l.length →
      2 * (l.length - s.p.nd) + resTotal caps.length s + (if owed then 0 else 1) ≤ nexts ops) →
    l.length ≤ (rRun ops s).1.p.nd := by
  intro ops
  induction ops with
  | nil =>
    intro s done owed _ _ hB
    apply Classical.byContradiction
    intro hlt
    have := hB (by simpa [rRun] using hlt)
    simp [nexts] at this
    have : s.p.nd < l.length := by simpa [rRun] using hlt
    omega
  | cons op ops ih =>
    intro s done owed h hresp hB
    by_cases hfin : l.length ≤ s.p.nd
    · obtain ⟨_, _, _, _, e⟩ := rRun_inv l caps hn (op :: ops) s done h
      omega
    · have hB' := hB (by omega)
      rw [rRun_cons_fst]
      have hstep := rStep_inv l caps hn s done h op
      cases op with
      | next =>
        obtain ⟨howed, hresp'⟩ := hresp
        subst howed
        rw [nexts_cons_next] at hB'
        simp only [Bool.false_eq_true, if_false] at hB'
        rcases hstep with ⟨e, h1, hnd⟩ | ⟨i, wg, j, e, _, hi, hj, _, h1, hnd⟩
        · have hidle : idleNext s = true := by
            unfold idleNext
            simp only [Bool.and_eq_true, decide_eq_true_eq]
            refine ⟨by rw [h.pinv.hnum]; omega, by rw [e]; rfl⟩
          rw [hidle] at hresp'
          apply ih _ done true h1 hresp'
          intro _
          rw [hnd, resTotal_next_none _ _ e]
          simp only [if_true]
          omega
        · have hidle : idleNext s = false := by
            unfold idleNext
            rw [e]; simp
          rw [hidle] at hresp'
          apply ih _ _ false h1 hresp'
          intro _
          rw [hnd, resTotal_next_some _ _ h.hres i wg hi e]
          simp only [Bool.false_eq_true, if_false]
          omega
      | free cu k =>
        rw [nexts_cons_free] at hB'
        rcases hstep with ⟨e, h1, hnd⟩ | ⟨i, wg, j, e, hne, _⟩
        · obtain ⟨heff, hneff⟩ := resTotal_free caps.length s h.hres cu k
          cases hE : ROp.effective s (.free cu k) with
          | true =>
            have hresp' : Responsive ops (rStep s (.free cu k)).1 false := by
              have := hresp
              simp only [Responsive, hE, Bool.not_true, Bool.and_false] at this
              exact this
            apply ih _ done false h1 hresp'
            intro _
            rw [hnd]
            have := heff hE
            simp only [Bool.false_eq_true, if_false]
            cases owed <;> simp at hB' <;> omega
          | false =>
            have hresp' : Responsive ops (rStep s (.free cu k)).1 owed := by
              have := hresp
              simp only [Responsive, hE, Bool.not_false, Bool.and_true] at this
              exact this
            apply ih _ done owed h1 hresp'
            intro _
            rw [hneff hE]
            exact hB'
        · cases hne

end C08
