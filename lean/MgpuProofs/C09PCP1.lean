import MgpuModel.C09_PCP
import MgpuProofs.C09Part
/-! # C09 — partition algorithm inside the command processor, part 1: the abstraction lemma.

One `Next` call of the in-CP algorithm (`pNextGo`, reservations on the real shared pool) is one
`Part.nextGo` of the stand-alone partition model, run with the refusal list read off the outcomes of the
real `reserve` calls. Everything proved about `Part` (`nextGo_spec`: the invariant `PI`) transfers. -/
namespace C09

/-- the refusal pattern the stand-alone model has to be given to follow the real reservations -/
def pFails (k : Kern) : Nat → Nat → PAlg → List CU → Nat → List Bool
  | 0, _, _, _, _ => []
  | fuel + 1, idx, a, pool, nk =>
    let i := (idx + a.part.next) % a.part.n
    match pNextWG a nk i with
    | (a1, nk1, none) => pFails k fuel (idx + 1) a1 pool nk1
    | (a1, nk1, some (w, src)) =>
      match reserve (pool.getD i default) (a1.keys.getD src 0) (k.dem w) with
      | (.ok _, _) => []
      | (.no, cu') => true :: pFails k fuel (idx + 1) a1 (pool.set i cu') nk1
      | (.twice, _) => []

/-- what `Next` returns, as the stand-alone model reports it -/
def PRes.toPart : PRes → Option (Nat × Nat)
  | .placed c _ w _ => some (c, w)
  | _ => Option.none

/-- `pNextWG` is `Part.nextWG` on the partition bookkeeping -/
theorem pNextWG_part (a : PAlg) (nk i : Nat) :
    (pNextWG a nk i).1.part = (a.part.nextWG i).1 ∧ (pNextWG a nk i).2.2 = (a.part.nextWG i).2 ∧
    (pNextWG a nk i).1.kern = a.kern ∧ (pNextWG a nk i).1.hist = a.hist := by
  unfold pNextWG Part.nextWG
  by_cases hge : a.part.disp.getD i 0 ≥ a.part.per
  · simp only [hge, if_true]
    cases hfd : (List.range a.part.n).find? (fun j => (a.part.cur.getD j none).isSome) with
    | none => simp
    | some j =>
      simp only []
      cases hc : a.part.cur.getD j none <;> simp
  · simp only [hge, if_false]
    cases hc : a.part.cur.getD i none with
    | some w => simp
    | none =>
      simp only []
      by_cases hp : a.part.pos.getD i 0 < a.part.numWG
      · simp only [hp, if_true, and_self]
      · simp only [hp, if_false, and_self]

/-- **abstraction lemma**: unless "reserving a work-group twice" is hit, the loop of the in-CP `Next`
    is the loop of the stand-alone model under the refusal list `pFails` (which it uses up) -/
theorem pNextGo_sim (k : Kern) : ∀ (fuel idx : Nat) (a : PAlg) (pool : List CU) (nk : Nat),
    (pNextGo k fuel idx a pool nk).res ≠ .fault →
    Part.nextGo fuel idx a.part (pFails k fuel idx a pool nk)
      = ((pNextGo k fuel idx a pool nk).alg.part, [], (pNextGo k fuel idx a pool nk).res.toPart) ∧
    (pNextGo k fuel idx a pool nk).alg.kern = a.kern ∧
    (pNextGo k fuel idx a pool nk).alg.hist =
      (match (pNextGo k fuel idx a pool nk).res.toPart with
       | some (_, w) => w :: a.hist
       | none => a.hist) := by
  intro fuel
  induction fuel with
  | zero => intro idx a pool nk _; exact ⟨rfl, rfl, rfl⟩
  | succ fuel ih =>
    intro idx a pool nk hnf
    obtain ⟨e1, e2, e3, e4⟩ := pNextWG_part a nk ((idx + a.part.next) % a.part.n)
    rcases hw : pNextWG a nk ((idx + a.part.next) % a.part.n) with ⟨a1, nk1, r⟩
    rw [hw] at e1 e2 e3 e4
    simp only at e1 e2 e3 e4
    rcases hq : a.part.nextWG ((idx + a.part.next) % a.part.n) with ⟨s1, r'⟩
    rw [hq] at e1 e2
    simp only at e1 e2
    subst e2
    simp only [pNextGo, pFails, Part.nextGo, hw, hq] at hnf ⊢
    cases r with
    | none =>
      simp only [] at hnf ⊢
      obtain ⟨i1, i2, i3⟩ := ih (idx + 1) a1 pool nk1 hnf
      rw [e1] at i1
      exact ⟨i1, i2.trans e3, by rw [i3, e4]⟩
    | some ws =>
      obtain ⟨w, src⟩ := ws
      simp only [] at hnf ⊢
      rcases hr : reserve (pool.getD ((idx + a.part.next) % a.part.n) default) (a1.keys.getD src 0) (k.dem w)
        with ⟨res, cu'⟩
      rw [hr] at hnf
      cases res with
      | ok locs =>
        simp only [List.headD_nil, Bool.false_eq_true, if_false, List.tail_nil, PRes.toPart]
        refine ⟨?_, e3, by rw [e4]⟩
        rw [← e1]
      | no =>
        simp only [List.headD_cons, if_true, List.tail_cons] at hnf ⊢
        obtain ⟨i1, i2, i3⟩ := ih (idx + 1) a1 _ nk1 hnf
        rw [e1] at i1
        exact ⟨i1, i2.trans e3, by rw [i3, e4]⟩
      | twice => exact absurd rfl hnf

/-- the invariant of the stand-alone model through one in-CP `Next` loop -/
theorem pNextGo_PI (k : Kern) (a : PAlg) (pool : List CU) (nk : Nat) (h : PI a.part a.hist)
    (hnf : (pNextGo k a.part.n 0 a pool nk).res ≠ .fault) :
    PI (pNextGo k a.part.n 0 a pool nk).alg.part (pNextGo k a.part.n 0 a pool nk).alg.hist ∧
    (pNextGo k a.part.n 0 a pool nk).alg.part.numWG = a.part.numWG ∧
    (pNextGo k a.part.n 0 a pool nk).alg.part.n = a.part.n ∧
    (pNextGo k a.part.n 0 a pool nk).alg.kern = a.kern ∧
    (∀ c key w locs, (pNextGo k a.part.n 0 a pool nk).res = .placed c key w locs →
      c < a.part.n ∧ (pNextGo k a.part.n 0 a pool nk).alg.hist = w :: a.hist) ∧
    ((pNextGo k a.part.n 0 a pool nk).res = .none →
      (pNextGo k a.part.n 0 a pool nk).alg.hist = a.hist ∧
      (pNextGo k a.part.n 0 a pool nk).alg.part.nd = a.part.nd) := by
  obtain ⟨s1, s2, s3⟩ := pNextGo_sim k a.part.n 0 a pool nk hnf
  obtain ⟨n1, n2, n3, n4⟩ := nextGo_spec a.part.n 0 a.part (pFails k a.part.n 0 a pool nk) a.hist h
  obtain ⟨m1, m2, m3⟩ := nextGo_mono a.part.n 0 a.part (pFails k a.part.n 0 a pool nk) a.hist h
  rw [s1] at n1 n2 n3 n4 m2 m3
  simp only at n1 n2 n3 n4 m2 m3
  cases hres : (pNextGo k a.part.n 0 a pool nk).res with
  | placed c key w locs =>
    rw [hres] at n2 s3
    simp only [PRes.toPart] at n2 s3
    obtain ⟨p1, p2⟩ := n2 c w rfl
    refine ⟨by rw [s3]; exact p1, n3, n4, s2, ?_, fun hc => (by cases hc)⟩
    intro c' key' w' locs' he
    injection he with h1 h2 h3 h4
    subst h1; subst h3
    exact ⟨p2, s3⟩
  | none =>
    rw [hres] at n1 s3 m2
    simp only [PRes.toPart] at n1 s3 m2
    refine ⟨by rw [s3]; exact n1 trivial, n3, n4, s2, fun c key w locs hc => (by cases hc), fun _ => ⟨s3, m2 trivial⟩⟩
  | fault => exact absurd hres hnf

/-! ## consequences of `PI` used by the accounting -/

/-- every placed index is inside the grid -/
theorem PI_lt (s : Part) (D : List Nat) (h : PI s D) : ∀ w ∈ D, w < s.numWG := by
  intro w hw
  obtain ⟨j, hj, a1, a2⟩ := (h.hD w).1 hw
  have := h.hin j hj (by omega)
  omega

/-- never more placed than the grid has -/
theorem PI_nd_le (s : Part) (D : List Nat) (h : PI s D) : s.nd ≤ s.numWG := by
  have hsub : D ⊆ List.range s.numWG := fun w hw => List.mem_range.2 (PI_lt s D h w hw)
  have := List.Nodup.length_le_of_subset h.hnd hsub
  rw [List.length_range, ← h.hcnt] at this
  exact this

/-- once `HasNext` is false the placed indices are the whole grid -/
theorem PI_perm (s : Part) (D : List Nat) (h : PI s D) (hge : s.numWG ≤ s.nd) : D.Perm (List.range s.numWG) :=
  perm_range_of_nodup D s.numWG h.hnd (PI_lt s D h) (by rw [← h.hcnt]; exact hge)

/-- `StartNewKernel` establishes the invariant, whatever `nextPartition` was left at -/
theorem pStartKernel_PI (a : PAlg) (k : Kern) (n : Nat) (hn : 0 < n) :
    PI (pStartKernel a k n).part (pStartKernel a k n).hist := by
  have h := start_PI k.numWG n hn
  exact {
    hn := h.hn, hper := h.hper, hcov := h.hcov, lpos := h.lpos, lcur := h.lcur, ldisp := h.ldisp
    hcur := h.hcur, hnone := h.hnone, hle := h.hle, hin := h.hin, hD := h.hD, hnd := h.hnd, hcnt := h.hcnt }

end C09
