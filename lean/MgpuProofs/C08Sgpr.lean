import MgpuModel.C08
import MgpuProofs.C08WrapLemmas
/-! # C08 — the initial SGPR image equals the ABI layout (helper lemmas)

`C02.initS 8 4` (the transcription of `emu.ComputeUnit.initWfRegs` / `cu.WfDispatcherImpl.initRegisters`,
tied to both by the `c02 init` and `c08 sgpr` case lines) is an instance of a list-driven generator
`gen`; induction over the field list then gives the ABI statements for all 2^13 flag sets without a
case split on the flags. -/
namespace C08
open C02

def gen : List (Bool × Nat × (Nat → List Wr)) → Nat → List Wr
  | [], _ => []
  | (en, sz, wr) :: rest, p => (if en then wr p else []) ++ gen rest (if en then p + sz else p)

def table (f : Flags) (a : Args) : List (Bool × Nat × (Nat → List Wr)) :=
  [(f.privSegBuf, 16, fun _ => []), (f.dispatchPtr, 8, fun p => w64 p a.packetAddr), (f.queuePtr, 8, fun _ => []),
   (f.kernarg, 8, fun p => w64 p a.kernargAddr), (f.dispatchID, 8, fun _ => []), (f.flatScratch, 8, fun _ => []),
   (f.privSegSize, 4, fun _ => []), (f.cntX, 4, fun p => w32 p (wgCount a.gx a.wx)),
   (f.cntY, 4, fun p => w32 p (wgCount a.gy a.wy)), (f.cntZ, 4, fun p => w32 p (wgCount a.gz a.wz)),
   (f.idX, 4, fun p => w32 p a.ix), (f.idY, 4, fun p => w32 p a.iy), (f.idZ, 4, fun p => w32 p a.iz)]

/-- the straight-line code is the generator run over the table: same cursor expressions, no case split -/
theorem initS_is_gen (f : Flags) (a : Args) : initS 8 4 f a = gen (table f a) 0 := by
  unfold initS table
  simp only [gen, ite_self, List.nil_append, List.append_nil, List.append_assoc, Nat.zero_add]

/-- what the code writes for field `x` with the byte cursor at `p` -/
def codeWriter (a : Args) : Field → Nat → List Wr
  | .dispatchPtr, p => w64 p a.packetAddr
  | .kernarg, p => w64 p a.kernargAddr
  | .cntX, p => w32 p (wgCount a.gx a.wx)
  | .cntY, p => w32 p (wgCount a.gy a.wy)
  | .cntZ, p => w32 p (wgCount a.gz a.wz)
  | .idX, p => w32 p a.ix
  | .idY, p => w32 p a.iy
  | .idZ, p => w32 p a.iz
  | _, _ => []

theorem table_eq (f : Flags) (a : Args) :
    table f a = Field.order.map fun x => (x.enabled f, 4 * x.size, codeWriter a x) := by
  rfl

/-- the generator over fields with a dword cursor -/
def layout (f : Flags) (w : Field → Nat → List Wr) : List Field → Nat → List Wr
  | [], _ => []
  | x :: r, c => (if x.enabled f then w x c else []) ++ layout f w r (if x.enabled f then c + x.size else c)

theorem gen_layout (f : Flags) (a : Args) : ∀ (l : List Field) (c : Nat),
    gen (l.map fun x => (x.enabled f, 4 * x.size, codeWriter a x)) (4 * c) =
      layout f (fun x c => codeWriter a x (4 * c)) l c := by
  intro l
  induction l with
  | nil => intro c; rfl
  | cons x r ih =>
    intro c
    simp only [List.map_cons, gen, layout]
    congr 1
    have : (if x.enabled f = true then 4 * c + 4 * x.size else 4 * c) = 4 * (if x.enabled f = true then c + x.size else c) := by
      split <;> omega
    rw [this, ih]

/-! ## cursor = enabled fields before -/

theorem usedBy_append (f : Flags) (l r : List Field) : usedBy f (l ++ r) = usedBy f l + usedBy f r := by
  simp [usedBy, List.sum_append]

theorem usedBy_snoc (f : Flags) (l : List Field) (x : Field) :
    usedBy f (l ++ [x]) = if x.enabled f then usedBy f l + x.size else usedBy f l := by
  rw [usedBy_append]
  simp only [usedBy, List.map_cons, List.map_nil, List.sum_cons, List.sum_nil, Nat.add_zero]
  split <;> rfl

theorem takeWhile_stop (pre : List Field) (x : Field) (r : List Field) (h : x ∉ pre) :
    (pre ++ x :: r).takeWhile (· != x) = pre := by
  induction pre with
  | nil => simp
  | cons y t ih =>
    have hy : y ≠ x := fun e => h (by rw [e]; exact List.mem_cons_self ..)
    have ht : x ∉ t := fun e => h (List.mem_cons_of_mem _ e)
    simp only [List.cons_append, List.takeWhile_cons, bne_iff_ne, ne_eq, hy, not_false_eq_true, if_true, ih ht]

/-- index of `x` in a field list = dwords of the enabled fields before it -/
def idxIn (f : Flags) (l : List Field) (x : Field) : Nat := usedBy f (l.takeWhile (· != x))

/-- the recursive generator puts every field of a duplicate-free list at `idxIn` -/
theorem layout_flat (f : Flags) (w : Field → Nat → List Wr) : ∀ (l pre : List Field), (pre ++ l).Nodup →
    layout f w l (usedBy f pre) = l.flatMap fun x => if x.enabled f then w x (idxIn f (pre ++ l) x) else [] := by
  intro l
  induction l with
  | nil => intro pre _; rfl
  | cons x r ih =>
    intro pre hnd
    have hx : x ∉ pre := by
      intro hmem
      have := List.nodup_append.mp hnd
      exact this.2.2 x hmem x (List.mem_cons_self ..) rfl
    simp only [layout, List.flatMap_cons]
    have e1 : idxIn f (pre ++ x :: r) x = usedBy f pre := by unfold idxIn; rw [takeWhile_stop pre x r hx]
    rw [e1]
    congr 1
    have hnd' : ((pre ++ [x]) ++ r).Nodup := by rw [List.append_assoc]; exact hnd
    have := ih (pre ++ [x]) hnd'
    rw [usedBy_snoc] at this
    rw [this]
    simp only [List.append_assoc, List.singleton_append]

theorem order_nodup : Field.order.Nodup := by decide

theorem abiIndex_eq (f : Flags) (x : Field) : abiIndex f x = idxIn f Field.order x := rfl

/-! ## the code's writes are the ABI's writes -/

/-- the writes the ABI table prescribes for field `x` at dword index `idx` -/
def abiTerm (a : Args) (x : Field) (idx : Nat) : List Wr :=
  match x.value a with
  | some vs => (List.range vs.length).map fun k => ⟨0, (0, idx + k), vs.getD k 0⟩
  | none => []

theorem abiWrites_eq (f : Flags) (a : Args) :
    abiWrites f a = Field.order.flatMap fun x => if x.enabled f then abiTerm a x (abiIndex f x) else [] := rfl

/-- the 64-bit ceiling division truncated to 32 bits is the true count whenever nothing overflows -/
theorem wgCount_eq (g w : Nat) (h1 : g + w - 1 < 18446744073709551616) (h2 : (g + w - 1) / w < 4294967296) :
    wgCount g w = nwgI g w := by
  unfold wgCount nwgI M64 M32
  rw [Nat.mod_eq_of_lt h1, Nat.mod_eq_of_lt h2]

theorem wgCount_fit (g w : Nat) (h : g + w ≤ 4294967296) : wgCount g w = nwgI g w := by
  apply wgCount_eq g w (by omega)
  exact Nat.lt_of_le_of_lt (Nat.div_le_self _ _) (by omega)

/-- the ceiling quotient never exceeds the grid size -/
theorem ceil_div_le (g w : Nat) (hw : 1 ≤ w) : (g + w - 1) / w ≤ g := by
  have h1 : g ≤ g * w := Nat.le_mul_of_pos_right g hw
  have h2 : (g + 1) * w = g * w + w := by rw [Nat.add_mul, Nat.one_mul]
  have h3 : (g + w - 1) / w < g + 1 := (Nat.div_lt_iff_lt_mul hw).mpr (by rw [h2]; omega)
  omega

/-- **the repaired count register is the true count for every typed packet** (`GridSize : uint32`,
    `WorkgroupSize : uint16`; a zero work-group size divides by zero in the code, the model gives 0 on
    both sides) -/
theorem wgCount_typed (g w : Nat) (hg : g < 4294967296) (hw : w < 65536) : wgCount g w = nwgI g w := by
  apply wgCount_eq g w (by omega)
  by_cases h0 : w = 0
  · subst h0; simp
  · exact Nat.lt_of_le_of_lt (ceil_div_le g w (by omega)) hg

theorem nwgI_lt (g w : Nat) (h : g + w ≤ 4294967296) : nwgI g w < 4294967296 := by
  unfold nwgI
  exact Nat.lt_of_le_of_lt (Nat.div_le_self _ _) (by omega)

theorem countsOk_of_fit (f : Flags) (a : Args) (h : CountsFit f a) : CountsOk f a :=
  ⟨fun hx => wgCount_fit _ _ (h.1 hx), fun hx => wgCount_fit _ _ (h.2.1 hx), fun hx => wgCount_fit _ _ (h.2.2 hx)⟩

theorem countsOk_of_typed (f : Flags) (a : Args) (h : CountsTyped f a) : CountsOk f a :=
  ⟨fun hx => wgCount_typed _ _ (h.1 hx).1 (h.1 hx).2, fun hx => wgCount_typed _ _ (h.2.1 hx).1 (h.2.1 hx).2,
   fun hx => wgCount_typed _ _ (h.2.2 hx).1 (h.2.2 hx).2⟩

theorem codeWriter_abi_ok (f : Flags) (a : Args) (h : CountsOk f a) (x : Field) (hx : x.enabled f = true) (idx : Nat) :
    codeWriter a x (4 * idx) = abiTerm a x idx := by
  obtain ⟨hcx, hcy, hcz⟩ := h
  have hdiv : 4 * idx / 4 = idx := Nat.mul_div_cancel_left idx (by decide)
  cases x <;> simp only [codeWriter, abiTerm, Field.value, w64, w32, M32, hdiv, List.length_cons, List.length_nil,
    List.range_succ, List.range_zero, List.nil_append, List.cons_append, List.map_cons, List.map_nil, Nat.add_zero,
    List.getD_cons_zero, List.getD_cons_succ, Nat.zero_add]
  · rw [hcx hx]
  · rw [hcy hx]
  · rw [hcz hx]

theorem codeWriter_abi (f : Flags) (a : Args) (h : CountsFit f a) (x : Field) (hx : x.enabled f = true) (idx : Nat) :
    codeWriter a x (4 * idx) = abiTerm a x idx := codeWriter_abi_ok f a (countsOk_of_fit f a h) x hx idx

/-- **the straight-line code issues exactly the ABI's writes** (helper form) -/
theorem initS_eq_abiWrites_ok (f : Flags) (a : Args) (h : CountsOk f a) : initS 8 4 f a = abiWrites f a := by
  rw [initS_is_gen, table_eq]
  have := gen_layout f a Field.order 0
  rw [Nat.mul_zero] at this
  rw [this]
  have hl := layout_flat f (fun x c => codeWriter a x (4 * c)) Field.order [] (by simpa using order_nodup)
  have hu : usedBy f [] = 0 := rfl
  rw [hu] at hl
  rw [hl, abiWrites_eq]
  simp only [List.nil_append]
  congr 1
  funext x
  by_cases hx : x.enabled f = true
  · rw [if_pos hx, if_pos hx, ← abiIndex_eq]
    exact codeWriter_abi_ok f a h x hx _
  · rw [if_neg hx, if_neg hx]

theorem initS_eq_abiWrites (f : Flags) (a : Args) (h : CountsFit f a) : initS 8 4 f a = abiWrites f a :=
  initS_eq_abiWrites_ok f a (countsOk_of_fit f a h)

/-- **for every typed dispatch packet** the straight-line code issues exactly the ABI's writes -/
theorem initS_eq_abiWrites_typed (f : Flags) (a : Args) (h : CountsTyped f a) : initS 8 4 f a = abiWrites f a :=
  initS_eq_abiWrites_ok f a (countsOk_of_typed f a h)

/-! ## register image: last writer = the field that owns the register -/

theorem lastW_foldl (c : Nat × Nat) : ∀ (l : List Wr) (acc : Option Nat),
    l.foldl (fun acc w => if c = w.cell then some w.val else acc) acc = (lastW l c).or acc := by
  intro l
  induction l with
  | nil => intro acc; simp [lastW]
  | cons w t ih =>
    intro acc
    simp only [lastW, List.foldl_cons]
    rw [ih, ih (if c = w.cell then some w.val else none)]
    split
    · cases lastW t c <;> rfl
    · simp

theorem lastW_append (l1 l2 : List Wr) (c : Nat × Nat) : lastW (l1 ++ l2) c = (lastW l2 c).or (lastW l1 c) := by
  simp only [lastW, List.foldl_append]
  have := lastW_foldl c l2 (List.foldl (fun acc w => if c = w.cell then some w.val else acc) none l1)
  simp only [lastW] at this
  exact this

theorem lastW_none (l : List Wr) (c : Nat × Nat) (h : ∀ w ∈ l, w.cell ≠ c) : lastW l c = none := by
  induction l with
  | nil => rfl
  | cons w t ih =>
    have e : lastW (w :: t) c = lastW ([w] ++ t) c := rfl
    rw [e, lastW_append, ih (fun w' hw' => h w' (List.mem_cons_of_mem _ hw'))]
    have := h w (List.mem_cons_self ..)
    simp only [lastW, List.foldl_cons, List.foldl_nil]
    rw [if_neg (fun e => this e.symm)]
    rfl

/-- consecutive registers from `idx` -/
theorem lastW_range_map (idx : Nat) (v : Nat → Nat) (r : Nat) : ∀ n,
    lastW ((List.range n).map fun k => (⟨0, (0, idx + k), v k⟩ : Wr)) (0, r) =
      if idx ≤ r ∧ r < idx + n then some (v (r - idx)) else none := by
  intro n
  induction n with
  | zero => simp [lastW]
  | succ n ih =>
    rw [List.range_succ, List.map_append, lastW_append, ih]
    simp only [List.map_cons, List.map_nil, lastW, List.foldl_cons, List.foldl_nil, Prod.mk.injEq, true_and]
    by_cases e : r = idx + n
    · subst e
      simp
    · rw [if_neg e]
      simp only [Option.none_or]
      by_cases h : idx ≤ r ∧ r < idx + n
      · rw [if_pos h, if_pos ⟨h.1, by omega⟩]
      · rw [if_neg h, if_neg (by omega)]

/-- the value list of a field is as long as the field -/
theorem value_length (a : Args) (x : Field) (vs : List Nat) (h : x.value a = some vs) : vs.length = x.size := by
  cases x <;> simp only [Field.value, Option.some.injEq, reduceCtorEq] at h <;> subst h <;> rfl

theorem lastW_abiTerm (a : Args) (x : Field) (idx r : Nat) :
    lastW (abiTerm a x idx) (0, r) =
      if idx ≤ r ∧ r < idx + x.size then (x.value a).bind fun vs => vs[r - idx]? else none := by
  unfold abiTerm
  cases hv : x.value a with
  | none => simp [lastW]
  | some vs =>
    have hl := value_length a x vs hv
    simp only
    rw [lastW_range_map idx (fun k => vs.getD k 0) r vs.length, hl]
    by_cases h : idx ≤ r ∧ r < idx + x.size
    · rw [if_pos h, if_pos h]
      simp only [Option.bind_some]
      rw [List.getD_eq_getElem?_getD, List.getElem?_eq_getElem (by omega)]
      rfl
    · rw [if_neg h, if_neg h]

theorem abiTerm_cells (a : Args) (x : Field) (idx : Nat) :
    ∀ w ∈ abiTerm a x idx, w.cell.1 = 0 ∧ idx ≤ w.cell.2 ∧ w.cell.2 < idx + x.size := by
  intro w hw
  unfold abiTerm at hw
  cases hv : x.value a with
  | none => rw [hv] at hw; cases hw
  | some vs =>
    rw [hv] at hw
    have hl := value_length a x vs hv
    simp only [List.mem_map, List.mem_range] at hw
    obtain ⟨k, hk, rfl⟩ := hw
    exact ⟨rfl, by simp, by simp; omega⟩

theorem abiTerm_nodup (a : Args) (x : Field) (idx : Nat) : ((abiTerm a x idx).map (·.cell)).Nodup := by
  unfold abiTerm
  cases x.value a with
  | none => simp
  | some vs =>
    simp only [List.map_map]
    rw [List.Nodup, List.pairwise_map]
    refine List.Pairwise.imp ?_ (List.nodup_range (n := vs.length))
    intro k k' hne e
    simp only [Function.comp, Prod.mk.injEq, true_and] at e
    omega

/-- the ABI's writes, recursively with a cursor -/
theorem layout_cells (f : Flags) (a : Args) : ∀ (l : List Field) (c : Nat),
    (∀ w ∈ layout f (abiTerm a) l c, w.cell.1 = 0 ∧ c ≤ w.cell.2 ∧ w.cell.2 < c + usedBy f l) ∧
    ((layout f (abiTerm a) l c).map (·.cell)).Nodup := by
  intro l
  induction l with
  | nil => intro c; simp [layout]
  | cons x r ih =>
    intro c
    have hu : usedBy f (x :: r) = (if x.enabled f then x.size else 0) + usedBy f r := by
      simp [usedBy]
    simp only [layout]
    by_cases hx : x.enabled f = true
    · simp only [hx, if_true] at hu ⊢
      obtain ⟨h1, h2⟩ := ih (c + x.size)
      constructor
      · intro w hw
        rcases List.mem_append.mp hw with hw | hw
        · have := abiTerm_cells a x c w hw; omega
        · have := h1 w hw; omega
      · rw [List.map_append, List.nodup_append]
        refine ⟨abiTerm_nodup a x c, h2, ?_⟩
        intro c1 hc1 c2 hc2 e
        obtain ⟨w1, hw1, rfl⟩ := List.mem_map.mp hc1
        obtain ⟨w2, hw2, rfl⟩ := List.mem_map.mp hc2
        have := abiTerm_cells a x c w1 hw1
        have := h1 w2 hw2
        have h3 := congrArg Prod.snd e
        omega
    · simp only [hx, Bool.false_eq_true, if_false, List.nil_append] at hu ⊢
      obtain ⟨h1, h2⟩ := ih c
      refine ⟨fun w hw => ?_, h2⟩
      have := h1 w hw; omega

/-- the register image of the recursive generator -/
def imageRec (f : Flags) (a : Args) : List Field → Nat → Nat → Option Nat
  | [], _, _ => none
  | x :: rest, c, r =>
    if x.enabled f then
      if c ≤ r ∧ r < c + x.size then (x.value a).bind fun vs => vs[r - c]?
      else imageRec f a rest (c + x.size) r
    else imageRec f a rest c r

theorem lastW_layout (f : Flags) (a : Args) (r : Nat) : ∀ (l : List Field) (c : Nat),
    lastW (layout f (abiTerm a) l c) (0, r) = imageRec f a l c r := by
  intro l
  induction l with
  | nil => intro c; rfl
  | cons x rest ih =>
    intro c
    simp only [layout, imageRec]
    by_cases hx : x.enabled f = true
    · simp only [hx, if_true]
      rw [lastW_append, ih, lastW_abiTerm]
      by_cases h : c ≤ r ∧ r < c + x.size
      · rw [if_pos h, if_pos h]
        have : imageRec f a rest (c + x.size) r = none := by
          rw [← ih]
          apply lastW_none
          intro w hw e
          have := (layout_cells f a rest (c + x.size)).1 w hw
          rw [e] at this
          simp only at this
          omega
        rw [this]; rfl
      · rw [if_neg h, if_neg h]; simp
    · simp only [hx, Bool.false_eq_true, if_false, List.nil_append]
      exact ih c

/-! ## the recursive image is the closed form `abiImage` -/

/-- the selector of `abiImage` over an arbitrary field list -/
def pick (f : Flags) (a : Args) (L : List Field) (r : Nat) (x : Field) : Option Nat :=
  if x.enabled f && decide (idxIn f L x ≤ r) && decide (r < idxIn f L x + x.size) then
    (x.value a).bind fun vs => vs[r - idxIn f L x]?
  else none

theorem abiImage_eq (f : Flags) (a : Args) (r : Nat) : abiImage f a r = Field.order.findSome? (pick f a Field.order r) := rfl

/-- fields behind `x` start behind `x` -/
theorem idxIn_later (f : Flags) (pre : List Field) (x : Field) (rest : List Field) (hnd : (pre ++ x :: rest).Nodup)
    (y : Field) (hy : y ∈ rest) : usedBy f (pre ++ [x]) ≤ idxIn f (pre ++ x :: rest) y := by
  have hsplit : pre ++ x :: rest = (pre ++ [x]) ++ rest := by simp
  have hnd' := hnd
  rw [hsplit] at hnd'
  have hdis := (List.nodup_append.mp hnd').2.2
  unfold idxIn
  rw [hsplit, List.takeWhile_append_of_pos]
  · rw [usedBy_append f (pre ++ [x])]; exact Nat.le_add_right _ _
  · intro z hz
    simp only [bne_iff_ne, ne_eq]
    intro e
    exact hdis z hz y hy e

theorem imageRec_pick (f : Flags) (a : Args) (r : Nat) : ∀ (l pre : List Field), (pre ++ l).Nodup →
    imageRec f a l (usedBy f pre) r = l.findSome? (pick f a (pre ++ l) r) := by
  intro l
  induction l with
  | nil => intro pre _; rfl
  | cons x rest ih =>
    intro pre hnd
    have hx : x ∉ pre := by
      intro hmem
      exact (List.nodup_append.mp hnd).2.2 x hmem x (List.mem_cons_self ..) rfl
    have e1 : idxIn f (pre ++ x :: rest) x = usedBy f pre := by unfold idxIn; rw [takeWhile_stop pre x rest hx]
    have hnd' : ((pre ++ [x]) ++ rest).Nodup := by rw [List.append_assoc]; exact hnd
    have hih := ih (pre ++ [x]) hnd'
    rw [usedBy_snoc] at hih
    have hL : pre ++ [x] ++ rest = pre ++ x :: rest := by simp
    rw [hL] at hih
    rw [List.findSome?_cons]
    simp only [imageRec, pick, e1]
    by_cases hen : x.enabled f = true
    · simp only [hen, if_true, Bool.true_and] at hih ⊢
      by_cases hr : usedBy f pre ≤ r ∧ r < usedBy f pre + x.size
      · rw [if_pos hr]
        simp only [hr.1, hr.2, decide_true, Bool.and_self, if_true]
        cases hv : (x.value a).bind fun vs => vs[r - usedBy f pre]? with
        | some v => rfl
        | none =>
          simp only
          symm
          rw [List.findSome?_eq_none_iff]
          intro y hy
          have := idxIn_later f pre x rest hnd y hy
          rw [usedBy_snoc, if_pos hen] at this
          unfold pick
          rw [if_neg]
          simp only [Bool.and_eq_true, decide_eq_true_eq, not_and]
          intro _ hle
          omega
      · rw [if_neg hr]
        have : (decide (usedBy f pre ≤ r) && decide (r < usedBy f pre + x.size)) = false := by
          simp only [Bool.and_eq_false_iff, decide_eq_false_iff_not]
          by_cases h1 : usedBy f pre ≤ r
          · right; intro h2; exact hr ⟨h1, h2⟩
          · left; exact h1
        rw [this]
        simp only [Bool.false_eq_true, if_false]
        exact hih
    · simp only [hen, Bool.false_eq_true, if_false, Bool.false_and] at hih ⊢
      exact hih

/-- **register image** (helper form): last write to SGPR `r` = what the ABI puts there -/
theorem lastW_abiWrites (f : Flags) (a : Args) (r : Nat) : lastW (abiWrites f a) (0, r) = abiImage f a r := by
  have hl := layout_flat f (abiTerm a) Field.order [] (by simpa using order_nodup)
  have hu : usedBy f [] = 0 := rfl
  rw [hu] at hl
  simp only [List.nil_append] at hl
  rw [abiWrites_eq, abiImage_eq]
  have hfun : (fun x => if x.enabled f = true then abiTerm a x (abiIndex f x) else []) =
      (fun x => if x.enabled f = true then abiTerm a x (idxIn f Field.order x) else []) := rfl
  rw [hfun, ← hl, lastW_layout]
  have := imageRec_pick f a r Field.order [] (by simpa using order_nodup)
  rw [hu] at this
  simpa using this

theorem lastW_other_lane (f : Flags) (a : Args) (l r : Nat) (hl : l ≠ 0) : lastW (abiWrites f a) (l, r) = none := by
  have hlay := layout_flat f (abiTerm a) Field.order [] (by simpa using order_nodup)
  simp only [List.nil_append] at hlay
  have hcells := (layout_cells f a Field.order (usedBy f [])).1
  rw [hlay] at hcells
  apply lastW_none
  intro w hw e
  rw [abiWrites_eq] at hw
  have := (hcells w hw).1
  rw [e] at this
  exact hl this

theorem applyW_lastW (ws : List Wr) (s : St) (c : Nat × Nat) : applyW ws s c = (lastW ws c).getD (s c) := by
  induction ws generalizing s with
  | nil => rfl
  | cons w t ih =>
    have e : lastW (w :: t) c = lastW ([w] ++ t) c := rfl
    rw [e, lastW_append]
    simp only [applyW, List.foldl_cons]
    have := ih (upd s w)
    simp only [applyW] at this
    rw [this]
    simp only [lastW, List.foldl_cons, List.foldl_nil, upd]
    cases List.foldl (fun acc w => if c = w.cell then some w.val else acc) none t with
    | some v => rfl
    | none =>
      simp only [Option.none_or, Option.getD_none]
      split <;> rfl

theorem abiWrites_cells (f : Flags) (a : Args) :
    (∀ w ∈ abiWrites f a, w.cell.1 = 0 ∧ w.cell.2 < usedBy f Field.order) ∧ ((abiWrites f a).map (·.cell)).Nodup := by
  have hlay := layout_flat f (abiTerm a) Field.order [] (by simpa using order_nodup)
  simp only [List.nil_append] at hlay
  have hc := layout_cells f a Field.order (usedBy f [])
  rw [hlay] at hc
  have hu : usedBy f [] = 0 := rfl
  rw [hu] at hc
  rw [abiWrites_eq]
  refine ⟨fun w hw => ?_, hc.2⟩
  have := hc.1 w hw
  omega

theorem usedBy_le (f : Flags) (l : List Field) : usedBy f l ≤ (l.map Field.size).sum := by
  induction l with
  | nil => exact Nat.le_refl _
  | cons x r ih =>
    simp only [usedBy, List.map_cons, List.sum_cons] at ih ⊢
    split <;> omega

theorem usedBy_order_le (f : Flags) : usedBy f Field.order ≤ 21 :=
  Nat.le_trans (usedBy_le f Field.order) (by decide)

end C08
