import MgpuProofs.C19Reach
import MgpuProofs.C19Quiet
import MgpuProofs.C19Prog
/-! Helper lemmas for C19 (progress): while a started request is incomplete, some productive move is
    enabled. -/
namespace C19

/-- a controller that holds anything that still has to move -/
def Busy (q : Pmc) : Prop :=
  q.toPull ≠ [] ∨ q.remOut ≠ [] ∨ q.remIn ≠ [] ∨ q.recvData ≠ [] ∨ q.writeReqs ≠ [] ∨ q.memOut ≠ [] ∨
  q.memIn ≠ [] ∨ q.wdone.isSome = true ∨ q.curPull ≠ [] ∨ q.toRead ≠ [] ∨ q.dataReady ≠ [] ∨ q.toRsp ≠ [] ∨
  q.toCtrl.isSome = true

theorem busy_cases (q : Pmc) (h : Busy q) : CanTick q ∨ q.remOut ≠ [] ∨ q.memOut ≠ [] ∨ q.ctlOut ≠ [] := by
  by_cases h1 : q.remOut = []
  · by_cases h2 : q.memOut = []
    · by_cases h3 : q.ctlOut = []
      · left
        have h3' : q.ctlOut.length < 1 := by simp [h3]
        unfold CanTick
        rcases h with h | h | h | h | h | h | h | h | h | h | h | h | h
        · exact Or.inl ⟨h1, h⟩
        · exact absurd h1 h
        · exact Or.inr (Or.inr (Or.inr (Or.inr (Or.inr (Or.inl h)))))
        · exact Or.inr (Or.inr (Or.inr (Or.inr (Or.inr (Or.inr (Or.inr (Or.inr (Or.inr (Or.inl h)))))))))
        · exact Or.inr (Or.inr (Or.inr (Or.inr (Or.inl ⟨h2, h⟩))))
        · exact absurd h2 h
        · exact Or.inr (Or.inr (Or.inr (Or.inr (Or.inr (Or.inr (Or.inl h))))))
        · exact Or.inr (Or.inr (Or.inr (Or.inr (Or.inr (Or.inr (Or.inr (Or.inr (Or.inr (Or.inr h)))))))))
        · exact Or.inr (Or.inr (Or.inr (Or.inr (Or.inr (Or.inr (Or.inr (Or.inl h)))))))
        · exact Or.inr (Or.inl ⟨h2, h⟩)
        · exact Or.inr (Or.inr (Or.inr (Or.inr (Or.inr (Or.inr (Or.inr (Or.inr (Or.inl h))))))))
        · exact Or.inr (Or.inr (Or.inr (Or.inl ⟨h1, h⟩)))
        · exact Or.inr (Or.inr (Or.inl ⟨h, h3'⟩))
      · exact Or.inr (Or.inr (Or.inr h3))
    · exact Or.inr (Or.inr (Or.inl h2))
  · exact Or.inr (Or.inl h1)

theorem toks_busy (v : DirV) (h : toks v ≠ []) :
    Busy v.rq ∨ Busy v.ow ∨ v.net ≠ [] ∨ v.mqO ≠ [] ∨ v.mqR ≠ [] ∨ v.mrO ≠ [] ∨ v.mrR ≠ [] := by
  by_cases hn : Busy v.rq ∨ Busy v.ow ∨ v.net ≠ [] ∨ v.mqO ≠ [] ∨ v.mqR ≠ [] ∨ v.mrO ≠ [] ∨ v.mrR ≠ []
  · exact hn
  · exfalso
    apply h
    simp only [Busy, not_or, Decidable.not_not, Bool.not_eq_true, Option.isSome_eq_false_iff,
      Option.isNone_iff_eq_none] at hn
    obtain ⟨⟨a1, a2, a3, a4, a5, a6, a7, a8, a9, a10, a11, a12, a13⟩,
      ⟨b1, b2, b3, b4, b5, b6, b7, b8, b9, b10, b11, b12, b13⟩, c1, c2, c3, c4, c5⟩ := hn
    simp [toks, reqSide, ownSide, a1, a2, a3, a4, a5, a6, a7, a8, b2, b3, b6, b7, b9, b10, b11, b12, c1, c2, c3, c4, c5]

/-- what "some productive move is enabled" means -/
def Enabled (s : Sys) : Prop := ∃ o : Op, o.honest = true ∧ o.isSubmit = false ∧ productive s o = true

variable {w : World}

theorem pmc_enabled0 (I : WInv w) (hb : Busy w.sys.p0) : Enabled w.sys := by
  rcases busy_cases _ hb with h | h | h | h
  · have hf := (both_tick (vx := w.sys.v0) (vy := w.sys.v1) (q := w.sys.p0) ⟨I.d0, I.d1⟩ I.ph0 I.f0).1
    exact ⟨.tick 0, rfl, rfl, by simpa [productive, Sys.pmc] using tick_productive _ hf h⟩
  · exact ⟨.pick 0, rfl, rfl, by simpa [productive, Sys.pmc] using h⟩
  · exact ⟨.mtake 0, rfl, rfl, by simpa [productive, Sys.pmc] using h⟩
  · exact ⟨.coll 0, rfl, rfl, by simpa [productive, Sys.pmc] using h⟩

theorem pmc_enabled1 (I : WInv w) (hb : Busy w.sys.p1) : Enabled w.sys := by
  rcases busy_cases _ hb with h | h | h | h
  · have hf := (both_tick (vx := w.sys.v1) (vy := w.sys.v0) (q := w.sys.p1) ⟨I.d1, I.d0⟩ I.ph1 I.f1).1
    exact ⟨.tick 1, rfl, rfl, by simpa [productive, Sys.pmc] using tick_productive _ hf h⟩
  · exact ⟨.pick 1, rfl, rfl, by simpa [productive, Sys.pmc] using h⟩
  · exact ⟨.mtake 1, rfl, rfl, by simpa [productive, Sys.pmc] using h⟩
  · exact ⟨.coll 1, rfl, rfl, by simpa [productive, Sys.pmc] using h⟩

theorem net_enabled (I : WInv w) (h : w.sys.net ≠ []) : Enabled w.sys := by
  cases hn : w.sys.net with
  | nil => exact absurd hn h
  | cons m rest =>
    by_cases hroom : (w.sys.pmc (dstOf m)).remIn.length < 1
    · exact ⟨.dnet 0, rfl, rfl, by simp [productive, hn, hroom]⟩
    · have hne : (w.sys.pmc (dstOf m)).remIn ≠ [] := by
        intro e; rw [e] at hroom; simp at hroom
      unfold Sys.pmc at hne
      split at hne
      · exact pmc_enabled0 I (Or.inr (Or.inr (Or.inl hne)))
      · exact pmc_enabled1 I (Or.inr (Or.inr (Or.inl hne)))

theorem mr_enabled0 (I : WInv w) (h : w.sys.mr0 ≠ []) : Enabled w.sys := by
  by_cases hroom : w.sys.p0.memIn.length < 1
  · exact ⟨.mrsp 0 0, rfl, rfl, by simp [productive, Sys.mr, Sys.pmc, h, hroom]⟩
  · have hne : w.sys.p0.memIn ≠ [] := by intro e; rw [e] at hroom; simp at hroom
    exact pmc_enabled0 I (Or.inr (Or.inr (Or.inr (Or.inr (Or.inr (Or.inr (Or.inl hne)))))))

theorem mr_enabled1 (I : WInv w) (h : w.sys.mr1 ≠ []) : Enabled w.sys := by
  by_cases hroom : w.sys.p1.memIn.length < 1
  · exact ⟨.mrsp 1 0, rfl, rfl, by simp [productive, Sys.mr, Sys.pmc, h, hroom]⟩
  · have hne : w.sys.p1.memIn ≠ [] := by intro e; rw [e] at hroom; simp at hroom
    exact pmc_enabled1 I (Or.inr (Or.inr (Or.inr (Or.inr (Or.inr (Or.inr (Or.inl hne)))))))

theorem mq_enabled0 (h : w.sys.mq0 ≠ []) : Enabled w.sys :=
  ⟨.mdo 0 0, rfl, rfl, by simp [productive, Sys.mq, h]⟩

theorem mq_enabled1 (h : w.sys.mq1 ≠ []) : Enabled w.sys :=
  ⟨.mdo 1 0, rfl, rfl, by simp [productive, Sys.mq, h]⟩

/-- an incomplete started request of controller 0 / 1 keeps some productive move enabled -/
theorem enabled_of_incomplete0 (I : WInv w) (hlt : w.sys.p0.completed.length < w.sys.p0.started.length) :
    Enabled w.sys := by
  cases I.ph0 with
  | idle _ _ _ _ e => simp only [key] at e; rw [e] at hlt; simp at hlt
  | done S r _ _ _ _ g5 =>
    simp only [key] at g5
    exact pmc_enabled0 I (by unfold Busy; simp [g5])
  | moving S r g1 g2 =>
    simp only [key] at g1 g2
    obtain ⟨ℓ, _, _, _, b, hm⟩ := I.d0.mv r g2 g1
    have hne : toks w.sys.v0 ≠ [] := by
      intro e
      have := hm.ln; have := hm.lt
      simp_all
    rcases toks_busy _ hne with h | h | h | h | h | h | h
    · exact pmc_enabled0 I h
    · exact pmc_enabled1 I h
    · exact net_enabled I h
    · exact mq_enabled1 h
    · exact mq_enabled0 h
    · exact mr_enabled1 I h
    · exact mr_enabled0 I h

theorem enabled_of_incomplete1 (I : WInv w) (hlt : w.sys.p1.completed.length < w.sys.p1.started.length) :
    Enabled w.sys := by
  cases I.ph1 with
  | idle _ _ _ _ e => simp only [key] at e; rw [e] at hlt; simp at hlt
  | done S r _ _ _ _ g5 =>
    simp only [key] at g5
    exact pmc_enabled1 I (by unfold Busy; simp [g5])
  | moving S r g1 g2 =>
    simp only [key] at g1 g2
    obtain ⟨ℓ, _, _, _, b, hm⟩ := I.d1.mv r g2 g1
    have hne : toks w.sys.v1 ≠ [] := by
      intro e
      have := hm.ln; have := hm.lt
      simp_all
    rcases toks_busy _ hne with h | h | h | h | h | h | h
    · exact pmc_enabled1 I h
    · exact pmc_enabled0 I h
    · exact net_enabled I h
    · exact mq_enabled0 h
    · exact mq_enabled1 h
    · exact mr_enabled0 I h
    · exact mr_enabled1 I h

end C19
