import MgpuProofs.C18Ctl
/-! C18: a monovariant of one RDMA-engine tick (`mu`), for the liveness proof of a system of engines.

* `tick_mu_le`  : a tick never increases `mu`;
* `tick_mu_eq`  : a tick that keeps `mu` returns the state literally unchanged;
* `tick_fixed_stuck` : a tick that returns the state unchanged had nothing enabled (`Stuck`);
* `mu_take…`, `mu_req…`, `mu_rsp…`, `mu_ctl` : the exact effect of the environment moves on `mu`. -/
namespace C18

/-- weighted content of one channel + 1 while not faulted -/
def chW (p q r s : Nat) (c : Chan) : Nat :=
  p * c.reqIn.length + q * c.reqOut.length + r * c.rspIn.length + s * c.rspOut.length +
  (if c.fault.isNone then 1 else 0)

/-- the engine's share of the progress measure -/
def mu (s : St) : Nat :=
  chW 13 12 4 3 s.io + chW 10 9 7 6 s.oi + 4 * s.ctIn.length + (if s.draining then 2 else 0) +
  s.ctOut.length + (if s.cfault.isNone then 1 else 0)

/-- nothing the engine could do in a tick -/
structure Stuck (c : Cfg) (s : St) : Prop where
  ctl : s.ctIn = []
  drain : s.draining = true → ¬ (s.io.tx = [] ∧ s.oi.tx = [] ∧ s.ctOut.length < c.cap)
  l1 : s.pause = false → s.io.reqIn = [] ∨ ¬ s.io.reqOut.length < c.cap
  l2 : s.oi.rspIn = [] ∨ ¬ s.oi.rspOut.length < c.cap
  inq : s.oi.reqIn = [] ∨ ¬ s.oi.reqOut.length < c.cap
  inr : s.io.rspIn = [] ∨ ¬ s.io.rspOut.length < c.cap

theorem faulted_false {s : St} (h : faulted s = false) :
    s.io.fault = none ∧ s.oi.fault = none ∧ s.cfault = none := by
  unfold faulted at h
  cases h1 : s.io.fault <;> cases h2 : s.oi.fault <;> cases h3 : s.cfault <;>
    simp [h1, h2, h3] at h ⊢

/-! ### Channel level -/

theorem fwdStep_chW (p q r s : Nat) (hpq : q < p) (route : Nat → Option Nat) (cap : Nat) (c : Chan)
    (hf : c.fault = none) :
    chW p q r s (fwdStep route cap c).1 ≤ chW p q r s c ∧
    (chW p q r s (fwdStep route cap c).1 = chW p q r s c → (fwdStep route cap c).1 = c) ∧
    (c.reqIn ≠ [] → c.reqOut.length < cap →
      chW p q r s (fwdStep route cap c).1 < chW p q r s c) := by
  unfold fwdStep
  split
  · next h => exact ⟨Nat.le_refl _, fun _ => rfl, fun hne => absurd h hne⟩
  · next x rest hin =>
    split
    · simp only [chW, hf, hin, Option.isNone_none, Option.isNone_some, if_true, Bool.false_eq_true,
        if_false]
      refine ⟨by omega, fun h => by omega, fun _ _ => by omega⟩
    · split
      · simp only [chW, hf, hin, Option.isNone_none, Option.isNone_some, if_true,
          Bool.false_eq_true, if_false]
        refine ⟨by omega, fun h => by omega, fun _ _ => by omega⟩
      · split
        · simp only [chW, hf, hin, Option.isNone_none, if_true, List.length_cons,
            List.length_append, List.length_nil, Nat.mul_add, Nat.mul_one, Nat.zero_add]
          refine ⟨by omega, fun h => by omega, fun _ _ => by omega⟩
        · next hroom => exact ⟨Nat.le_refl _, fun _ => rfl, fun _ h => absurd h hroom⟩

theorem rspStep_chW (p q r s : Nat) (hrs : s < r) (cap : Nat) (c : Chan) (hf : c.fault = none) :
    chW p q r s (rspStep cap c).1 ≤ chW p q r s c ∧
    (chW p q r s (rspStep cap c).1 = chW p q r s c → (rspStep cap c).1 = c) ∧
    (c.rspIn ≠ [] → c.rspOut.length < cap →
      chW p q r s (rspStep cap c).1 < chW p q r s c) := by
  unfold rspStep
  split
  · next h => exact ⟨Nat.le_refl _, fun _ => rfl, fun hne => absurd h hne⟩
  · next x rest hin =>
    split
    · simp only [chW, hf, hin, Option.isNone_none, Option.isNone_some, if_true, Bool.false_eq_true,
        if_false]
      refine ⟨by omega, fun h => by omega, fun _ _ => by omega⟩
    · split
      · simp only [chW, hf, hin, Option.isNone_none, Option.isNone_some, if_true,
          Bool.false_eq_true, if_false]
        refine ⟨by omega, fun h => by omega, fun _ _ => by omega⟩
      · split
        · simp only [chW, hf, hin, Option.isNone_none, if_true, List.length_cons,
            List.length_append, List.length_nil, Nat.mul_add, Nat.mul_one, Nat.zero_add]
          refine ⟨by omega, fun h => by omega, fun _ _ => by omega⟩
        · next hroom => exact ⟨Nat.le_refl _, fun _ => rfl, fun _ h => absurd h hroom⟩

/-- the `processFromL1` loop: never increases the weight; keeps it only when it returns the channel
    unchanged; with fuel and an unfaulted channel it is at most the weight after one `fwdStep` -/
theorem l1Loop_chW (p q r s : Nat) (hpq : q < p) (route : Nat → Option Nat) (cap : Nat) :
    ∀ (n : Nat) (c : Chan) (b : Bool),
      chW p q r s (l1Loop route cap n c b).1 ≤ chW p q r s c ∧
      (chW p q r s (l1Loop route cap n c b).1 = chW p q r s c → (l1Loop route cap n c b).1 = c) ∧
      (0 < n → c.fault = none →
        chW p q r s (l1Loop route cap n c b).1 ≤ chW p q r s (fwdStep route cap c).1) := by
  intro n
  induction n with
  | zero => intro c b; exact ⟨Nat.le_refl _, fun _ => rfl, fun h => absurd h (Nat.lt_irrefl 0)⟩
  | succ n ih =>
    intro c b
    unfold l1Loop
    split
    · next hs =>
      refine ⟨Nat.le_refl _, fun _ => rfl, fun _ hn => ?_⟩
      rw [hn] at hs; cases hs
    · next hs =>
      have hf : c.fault = none := by
        cases hc : c.fault with
        | none => rfl
        | some x => rw [hc] at hs; exact absurd rfl hs
      have h1 := fwdStep_chW p q r s hpq route cap c hf
      simp only
      split
      · have h2 := ih (fwdStep route cap c).1 true
        refine ⟨Nat.le_trans h2.1 h1.1, fun he => ?_, fun _ _ => h2.1⟩
        have e1 := h1.2.1 (by omega)
        have e2 := h2.2.1 (by omega)
        exact e2.trans e1
      · exact ⟨h1.1, h1.2.1, fun _ _ => Nat.le_refl _⟩

/-! ### State level -/

theorem mu_io (s : St) (x : Chan) :
    mu { s with io := x } + chW 13 12 4 3 s.io = mu s + chW 13 12 4 3 x := by
  simp only [mu]; omega

theorem mu_oi (s : St) (x : Chan) :
    mu { s with oi := x } + chW 10 9 7 6 s.oi = mu s + chW 10 9 7 6 x := by
  simp only [mu]; omega

/-- a step that never increases `mu` and keeps it only when it returns the state unchanged -/
def MuGood (f : St → St × Bool) : Prop :=
  ∀ s, mu (f s).1 ≤ mu s ∧ (mu (f s).1 = mu s → (f s).1 = s)

theorem muGood_guard {f : St → St × Bool}
    (h : ∀ s, faulted s = false → mu (f s).1 ≤ mu s ∧ (mu (f s).1 = mu s → (f s).1 = s)) :
    MuGood (guard f) := by
  intro s
  unfold guard
  by_cases hfa : faulted s = true
  · rw [if_pos hfa]; exact ⟨Nat.le_refl _, fun _ => rfl⟩
  · rw [if_neg hfa]; exact h s (Bool.eq_false_iff.mpr hfa)

theorem guard_of_ok (f : St → St × Bool) (s : St) (h : faulted s = false) : guard f s = f s := by
  unfold guard; simp only [h, Bool.false_eq_true, if_false]

theorem muGood_seq {f g : St → St × Bool} (hf : MuGood f) (hg : MuGood g) :
    MuGood (fun s => g (f s).1) := by
  intro s
  have h1 := hf s
  have h2 := hg (f s).1
  show mu (g (f s).1).1 ≤ mu s ∧ (mu (g (f s).1).1 = mu s → (g (f s).1).1 = s)
  refine ⟨Nat.le_trans h2.1 h1.1, fun he => ?_⟩
  have e1 := h1.2 (by omega)
  have e2 := h2.2 (by omega)
  exact e2.trans e1

/-- if a sequence keeps `mu`, each part, run on the initial state, returns it unchanged -/
theorem muSeq_fixed {f g : St → St × Bool} (hf : MuGood f) (hg : MuGood g) (s : St)
    (h : mu (g (f s).1).1 = mu s) : (f s).1 = s ∧ (g s).1 = s := by
  have h1 := hf s
  have h2 := hg (f s).1
  have e1 : (f s).1 = s := h1.2 (by omega)
  rw [e1] at h
  exact ⟨e1, (hg s).2 h⟩

theorem muGood_iter {f : St → St × Bool} (h : MuGood f) : ∀ n, MuGood (iter f n) := by
  intro n
  induction n with
  | zero => intro s; exact ⟨Nat.le_refl _, fun _ => rfl⟩
  | succ n ih => intro s; exact muGood_seq h ih s

theorem muIter_fixed {f : St → St × Bool} (h : MuGood f) (n : Nat) (hn : 0 < n) (s : St)
    (he : mu (iter f n s).1 = mu s) : (f s).1 = s := by
  cases n with
  | zero => exact absurd hn (Nat.lt_irrefl 0)
  | succ n => exact (muSeq_fixed h (muGood_iter h n) s he).1

/-! ### The primitive steps -/

theorem ctrlStep_mu (cap : Nat) (s : St) :
    mu (ctrlStep cap s).1 ≤ mu s ∧ (mu (ctrlStep cap s).1 = mu s → (ctrlStep cap s).1 = s) ∧
    (s.ctIn ≠ [] → mu (ctrlStep cap s).1 < mu s) := by
  unfold ctrlStep
  split
  · next h => exact ⟨Nat.le_refl _, fun _ => rfl, fun hne => absurd h hne⟩
  · next src rest hin =>
    simp only [mu, hin, List.length_cons, if_true]
    cases s.draining <;> simp only [if_true, Bool.false_eq_true, if_false] <;>
      refine ⟨by omega, fun h => by omega, fun _ => by omega⟩
  · next src rest hin =>
    split
    · simp only [mu, hin, List.length_cons, Option.isNone_some, Bool.false_eq_true, if_false]
      cases s.cfault.isNone <;> simp only [if_true, Bool.false_eq_true, if_false] <;>
        refine ⟨by omega, fun h => by omega, fun _ => by omega⟩
    · split
      · simp only [mu, hin, List.length_cons, List.length_append, List.length_nil]
        refine ⟨by omega, fun h => by omega, fun _ => by omega⟩
      · simp only [mu, hin, List.length_cons]
        refine ⟨by omega, fun h => by omega, fun _ => by omega⟩
  · next rest hin =>
    simp only [mu, hin, List.length_cons, Option.isNone_some, Bool.false_eq_true, if_false]
    cases s.cfault.isNone <;> simp only [if_true, Bool.false_eq_true, if_false] <;>
      refine ⟨by omega, fun h => by omega, fun _ => by omega⟩

theorem muGood_ctrlStep (cap : Nat) : MuGood (ctrlStep cap) :=
  fun s => ⟨(ctrlStep_mu cap s).1, (ctrlStep_mu cap s).2.1⟩

/-- `drainRDMA` as the tick calls it: only while draining, behind the panic guard -/
def drainPart (cap : Nat) (s : St) : St × Bool :=
  if s.draining then guard (drainStep cap) s else (s, false)

theorem drainPart_mu (cap : Nat) (s : St) :
    mu (drainPart cap s).1 ≤ mu s ∧ (mu (drainPart cap s).1 = mu s → (drainPart cap s).1 = s) ∧
    (faulted s = false → s.draining = true → s.io.tx = [] → s.oi.tx = [] → s.ctOut.length < cap →
      mu (drainPart cap s).1 < mu s) := by
  unfold drainPart
  by_cases hd : s.draining = true
  · rw [if_pos hd]
    unfold guard
    by_cases hfa : faulted s = true
    · rw [if_pos hfa]
      exact ⟨Nat.le_refl _, fun _ => rfl, fun h => by rw [hfa] at h; cases h⟩
    · rw [if_neg hfa]
      obtain ⟨_, _, hcf⟩ := faulted_false (Bool.eq_false_iff.mpr hfa)
      unfold drainStep
      split
      · next hemp =>
        split
        · simp only [mu, hd, hcf, Option.isNone_none, Option.isNone_some, if_true,
            Bool.false_eq_true, if_false]
          refine ⟨by omega, fun h => by omega, fun _ _ _ _ _ => by omega⟩
        · split
          · simp only [mu, hd, if_true, Bool.false_eq_true, if_false, List.length_append,
              List.length_cons, List.length_nil]
            refine ⟨by omega, fun h => by omega, fun _ _ _ _ _ => by omega⟩
          · next hroom => exact ⟨Nat.le_refl _, fun _ => rfl, fun _ _ _ _ h => absurd h hroom⟩
      · next hemp =>
        refine ⟨Nat.le_refl _, fun _ => rfl, fun _ _ h1 h2 _ => ?_⟩
        rw [h1, h2] at hemp
        exact absurd rfl hemp
  · rw [if_neg hd]
    exact ⟨Nat.le_refl _, fun _ => rfl, fun _ h => absurd h hd⟩

theorem muGood_drainPart (cap : Nat) : MuGood (drainPart cap) :=
  fun s => ⟨(drainPart_mu cap s).1, (drainPart_mu cap s).2.1⟩

theorem fromL1_mu (c : Cfg) (s : St) (hfa : faulted s = false) :
    mu (fromL1 c s).1 ≤ mu s ∧ (mu (fromL1 c s).1 = mu s → (fromL1 c s).1 = s) ∧
    (s.pause = false → s.io.reqIn ≠ [] → s.io.reqOut.length < c.cap →
      mu (fromL1 c s).1 < mu s) := by
  obtain ⟨hio, _, _⟩ := faulted_false hfa
  unfold fromL1
  by_cases hp : s.pause = true
  · rw [if_pos hp]
    exact ⟨Nat.le_refl _, fun _ => rfl, fun h => by rw [hp] at h; cases h⟩
  · rw [if_neg hp]
    simp only
    have h := l1Loop_chW 13 12 4 3 (by omega) (routeOut c) c.cap s.io.reqIn.length s.io false
    have hm := mu_io s (l1Loop (routeOut c) c.cap s.io.reqIn.length s.io false).1
    refine ⟨by omega, fun he => ?_, fun _ hne hroom => ?_⟩
    · have e := h.2.1 (by omega)
      rw [e]
    · have hpos : 0 < s.io.reqIn.length := by
        cases hq : s.io.reqIn with
        | nil => exact absurd hq hne
        | cons a l => simp only [List.length_cons]; omega
      have h3 := h.2.2 hpos hio
      have h4 := (fwdStep_chW 13 12 4 3 (by omega) (routeOut c) c.cap s.io hio).2.2 hne hroom
      omega

theorem onOI_rsp_mu (cap : Nat) (s : St) (hfa : faulted s = false) :
    mu (onOI (rspStep cap) s).1 ≤ mu s ∧
    (mu (onOI (rspStep cap) s).1 = mu s → (onOI (rspStep cap) s).1 = s) ∧
    (s.oi.rspIn ≠ [] → s.oi.rspOut.length < cap → mu (onOI (rspStep cap) s).1 < mu s) := by
  obtain ⟨_, hoi, _⟩ := faulted_false hfa
  unfold onOI
  simp only
  have h := rspStep_chW 10 9 7 6 (by omega) cap s.oi hoi
  have hm := mu_oi s (rspStep cap s.oi).1
  refine ⟨by omega, fun he => ?_, fun hne hroom => ?_⟩
  · have e := h.2.1 (by omega)
    rw [e]
  · have := h.2.2 hne hroom
    omega

theorem onOI_fwd_mu (route : Nat → Option Nat) (cap : Nat) (s : St) (hfa : faulted s = false) :
    mu (onOI (fwdStep route cap) s).1 ≤ mu s ∧
    (mu (onOI (fwdStep route cap) s).1 = mu s → (onOI (fwdStep route cap) s).1 = s) ∧
    (s.oi.reqIn ≠ [] → s.oi.reqOut.length < cap → mu (onOI (fwdStep route cap) s).1 < mu s) := by
  obtain ⟨_, hoi, _⟩ := faulted_false hfa
  unfold onOI
  simp only
  have h := fwdStep_chW 10 9 7 6 (by omega) route cap s.oi hoi
  have hm := mu_oi s (fwdStep route cap s.oi).1
  refine ⟨by omega, fun he => ?_, fun hne hroom => ?_⟩
  · have e := h.2.1 (by omega)
    rw [e]
  · have := h.2.2 hne hroom
    omega

theorem onIO_rsp_mu (cap : Nat) (s : St) (hfa : faulted s = false) :
    mu (onIO (rspStep cap) s).1 ≤ mu s ∧
    (mu (onIO (rspStep cap) s).1 = mu s → (onIO (rspStep cap) s).1 = s) ∧
    (s.io.rspIn ≠ [] → s.io.rspOut.length < cap → mu (onIO (rspStep cap) s).1 < mu s) := by
  obtain ⟨hio, _, _⟩ := faulted_false hfa
  unfold onIO
  simp only
  have h := rspStep_chW 13 12 4 3 (by omega) cap s.io hio
  have hm := mu_io s (rspStep cap s.io).1
  refine ⟨by omega, fun he => ?_, fun hne hroom => ?_⟩
  · have e := h.2.1 (by omega)
    rw [e]
  · have := h.2.2 hne hroom
    omega

theorem muGood_fromL1 (c : Cfg) : MuGood (guard (fromL1 c)) :=
  muGood_guard fun s h => ⟨(fromL1_mu c s h).1, (fromL1_mu c s h).2.1⟩

theorem muGood_onOI_rsp (cap : Nat) : MuGood (guard (onOI (rspStep cap))) :=
  muGood_guard fun s h => ⟨(onOI_rsp_mu cap s h).1, (onOI_rsp_mu cap s h).2.1⟩

theorem muGood_onOI_fwd (route : Nat → Option Nat) (cap : Nat) :
    MuGood (guard (onOI (fwdStep route cap))) :=
  muGood_guard fun s h => ⟨(onOI_fwd_mu route cap s h).1, (onOI_fwd_mu route cap s h).2.1⟩

theorem muGood_onIO_rsp (cap : Nat) : MuGood (guard (onIO (rspStep cap))) :=
  muGood_guard fun s h => ⟨(onIO_rsp_mu cap s h).1, (onIO_rsp_mu cap s h).2.1⟩

/-! ### The tick -/

/-- the six parts of a tick, in order -/
def tickPart (c : Cfg) : Nat → St → St × Bool
  | 0 => ctrlStep c.cap
  | 1 => drainPart c.cap
  | 2 => iter (guard (fromL1 c)) c.wReqOut
  | 3 => iter (guard (onOI (rspStep c.cap))) c.wRspOut
  | 4 => iter (guard (onOI (fwdStep (routeIn c) c.cap))) c.wReqIn
  | _ => iter (guard (onIO (rspStep c.cap))) c.wRspIn

theorem muGood_part (c : Cfg) : ∀ k, MuGood (tickPart c k)
  | 0 => muGood_ctrlStep _
  | 1 => muGood_drainPart _
  | 2 => muGood_iter (muGood_fromL1 c) _
  | 3 => muGood_iter (muGood_onOI_rsp _) _
  | 4 => muGood_iter (muGood_onOI_fwd _ _) _
  | _ + 5 => muGood_iter (muGood_onIO_rsp _) _

/-- the first `k + 1` parts of a tick -/
def tickUpto (c : Cfg) : Nat → St → St × Bool
  | 0 => tickPart c 0
  | k + 1 => fun s => tickPart c (k + 1) (tickUpto c k s).1

theorem muGood_upto (c : Cfg) : ∀ k, MuGood (tickUpto c k)
  | 0 => muGood_part c 0
  | k + 1 => muGood_seq (muGood_upto c k) (muGood_part c (k + 1))

theorem tick_eq_upto (c : Cfg) (s : St) : (tick c s).1 = (tickUpto c 5 s).1 := rfl

theorem tickUpto_fixed (c : Cfg) (s : St) : ∀ k, mu (tickUpto c k s).1 = mu s →
    ∀ j, j ≤ k → (tickPart c j s).1 = s
  | 0, h, j, hj => by
    have : j = 0 := by omega
    subst this
    exact (muGood_part c 0 s).2 h
  | k + 1, h, j, hj => by
    have hs := muSeq_fixed (muGood_upto c k) (muGood_part c (k + 1)) s h
    by_cases hjk : j = k + 1
    · subst hjk; exact hs.2
    · exact tickUpto_fixed c s k (by rw [hs.1]) j (by omega)

theorem tick_mu_le (c : Cfg) (s : St) : mu (tick c s).1 ≤ mu s := by
  rw [tick_eq_upto]; exact (muGood_upto c 5 s).1

theorem tick_mu_eq (c : Cfg) (s : St) (h : mu (tick c s).1 = mu s) : (tick c s).1 = s := by
  rw [tick_eq_upto] at h ⊢; exact (muGood_upto c 5 s).2 h

/-- any change strictly decreases `mu` -/
theorem tick_mu_lt (c : Cfg) (s : St) (h : (tick c s).1 ≠ s) : mu (tick c s).1 < mu s := by
  have h1 := tick_mu_le c s
  have h2 := tick_mu_eq c s
  by_cases he : mu (tick c s).1 = mu s
  · exact absurd (h2 he) h
  · omega

set_option linter.unusedVariables false in
theorem tick_fixed_stuck (c : Cfg) (s : St) (hcap : 0 < c.cap)
    (hw : 0 < c.wReqOut ∧ 0 < c.wRspOut ∧ 0 < c.wReqIn ∧ 0 < c.wRspIn)
    (hf : faulted s = false) (h : (tick c s).1 = s) : Stuck c s := by
  have hmu : mu (tickUpto c 5 s).1 = mu s := by rw [← tick_eq_upto, h]
  have hp := tickUpto_fixed c s 5 hmu
  have h0 : (ctrlStep c.cap s).1 = s := hp 0 (by omega)
  have h1 : (drainPart c.cap s).1 = s := hp 1 (by omega)
  have h2 : (iter (guard (fromL1 c)) c.wReqOut s).1 = s := hp 2 (by omega)
  have h3 : (iter (guard (onOI (rspStep c.cap))) c.wRspOut s).1 = s := hp 3 (by omega)
  have h4 : (iter (guard (onOI (fwdStep (routeIn c) c.cap))) c.wReqIn s).1 = s := hp 4 (by omega)
  have h5 : (iter (guard (onIO (rspStep c.cap))) c.wRspIn s).1 = s := hp 5 (by omega)
  have g2 := muIter_fixed (muGood_fromL1 c) _ hw.1 s (by rw [h2])
  have g3 := muIter_fixed (muGood_onOI_rsp c.cap) _ hw.2.1 s (by rw [h3])
  have g4 := muIter_fixed (muGood_onOI_fwd (routeIn c) c.cap) _ hw.2.2.1 s (by rw [h4])
  have g5 := muIter_fixed (muGood_onIO_rsp c.cap) _ hw.2.2.2 s (by rw [h5])
  rw [guard_of_ok _ _ hf] at g2 g3 g4 g5
  constructor
  · by_cases he : s.ctIn = []
    · exact he
    · have := (ctrlStep_mu c.cap s).2.2 he
      rw [h0] at this; omega
  · intro hd ⟨e1, e2, e3⟩
    have := (drainPart_mu c.cap s).2.2 hf hd e1 e2 e3
    rw [h1] at this; omega
  · intro hpz
    by_cases he : s.io.reqIn = []
    · exact Or.inl he
    · refine Or.inr fun hroom => ?_
      have := (fromL1_mu c s hf).2.2 hpz he hroom
      rw [g2] at this; omega
  · by_cases he : s.oi.rspIn = []
    · exact Or.inl he
    · refine Or.inr fun hroom => ?_
      have := (onOI_rsp_mu c.cap s hf).2.2 he hroom
      rw [g3] at this; omega
  · by_cases he : s.oi.reqIn = []
    · exact Or.inl he
    · refine Or.inr fun hroom => ?_
      have := (onOI_fwd_mu (routeIn c) c.cap s hf).2.2 he hroom
      rw [g4] at this; omega
  · by_cases he : s.io.rspIn = []
    · exact Or.inl he
    · refine Or.inr fun hroom => ?_
      have := (onIO_rsp_mu c.cap s hf).2.2 he hroom
      rw [g5] at this; omega

/-! ### Effect of the environment moves on `mu` -/

theorem mu_takeFwdI (c : Cfg) (s : St) (h : s.io.reqOut ≠ []) :
    mu (step c s .takeFwdI) + 12 = mu s := by
  cases hq : s.io.reqOut with
  | nil => exact absurd hq h
  | cons a l => simp only [step, mu, chW, hq, List.tail_cons, List.length_cons]; omega

theorem mu_takeFwdO (c : Cfg) (s : St) (h : s.oi.reqOut ≠ []) :
    mu (step c s .takeFwdO) + 9 = mu s := by
  cases hq : s.oi.reqOut with
  | nil => exact absurd hq h
  | cons a l => simp only [step, mu, chW, hq, List.tail_cons, List.length_cons]; omega

theorem mu_takeAnsI (c : Cfg) (s : St) (h : s.io.rspOut ≠ []) :
    mu (step c s .takeAnsI) + 3 = mu s := by
  cases hq : s.io.rspOut with
  | nil => exact absurd hq h
  | cons a l => simp only [step, mu, chW, hq, List.tail_cons, List.length_cons]; omega

theorem mu_takeAnsO (c : Cfg) (s : St) (h : s.oi.rspOut ≠ []) :
    mu (step c s .takeAnsO) + 6 = mu s := by
  cases hq : s.oi.rspOut with
  | nil => exact absurd hq h
  | cons a l => simp only [step, mu, chW, hq, List.tail_cons, List.length_cons]; omega

theorem mu_takeCtl (c : Cfg) (s : St) (h : s.ctOut ≠ []) :
    mu (step c s .takeCtl) + 1 = mu s := by
  cases hq : s.ctOut with
  | nil => exact absurd hq h
  | cons a l => simp only [step, mu, hq, List.tail_cons, List.length_cons]; omega

theorem mu_reqI (c : Cfg) (s : St) (src : Nat) (pl : Payload) (h : s.io.reqIn.length < c.cap) :
    mu (step c s (.reqI src pl)) = mu s + 13 := by
  simp only [step, deliverReq, h, if_true, mu, chW, List.length_append, List.length_cons,
    List.length_nil]
  omega

theorem mu_reqO (c : Cfg) (s : St) (src : Nat) (pl : Payload) (h : s.oi.reqIn.length < c.cap) :
    mu (step c s (.reqO src pl)) = mu s + 10 := by
  simp only [step, deliverReq, h, if_true, mu, chW, List.length_append, List.length_cons,
    List.length_nil]
  omega

theorem mu_rspI (c : Cfg) (s : St) (r : Rsp) (h : s.io.rspIn.length < c.cap) :
    mu (step c s (.rspI r)) = mu s + 4 := by
  simp only [step, deliverRsp, h, if_true, mu, chW, List.length_append, List.length_cons,
    List.length_nil]
  omega

theorem mu_rspO (c : Cfg) (s : St) (r : Rsp) (h : s.oi.rspIn.length < c.cap) :
    mu (step c s (.rspO r)) = mu s + 7 := by
  simp only [step, deliverRsp, h, if_true, mu, chW, List.length_append, List.length_cons,
    List.length_nil]
  omega

theorem mu_ctl (c : Cfg) (s : St) (k : Ctl) (h : s.ctIn.length < c.cap) :
    mu (step c s (.ctl k)) = mu s + 4 := by
  simp only [step, h, if_true, mu, List.length_append, List.length_cons, List.length_nil]
  omega

/-- a refused delivery (full port) leaves `mu` unchanged -/
theorem mu_full (c : Cfg) (s : St) :
    (∀ src pl, ¬ s.io.reqIn.length < c.cap → mu (step c s (.reqI src pl)) = mu s) ∧
    (∀ src pl, ¬ s.oi.reqIn.length < c.cap → mu (step c s (.reqO src pl)) = mu s) ∧
    (∀ r, ¬ s.io.rspIn.length < c.cap → mu (step c s (.rspI r)) = mu s) ∧
    (∀ r, ¬ s.oi.rspIn.length < c.cap → mu (step c s (.rspO r)) = mu s) ∧
    (∀ k, ¬ s.ctIn.length < c.cap → mu (step c s (.ctl k)) = mu s) := by
  refine ⟨fun _ _ h => ?_, fun _ _ h => ?_, fun _ h => ?_, fun _ h => ?_, fun _ h => ?_⟩ <;>
    simp only [step, deliverReq, deliverRsp, h, if_false, mu, chW]

end C18
