import MgpuProofs.C01Track5
import MgpuProofs.C01Insts2
/-! # C01 — tracker lifts of the instruction classes of `C01Insts2.lean` (tracker `T5`) -/
set_option linter.unusedSimpArgs false
set_option linter.unusedVariables false
namespace C01
namespace Emu
open C03V

section lifts
variable (P : Program) (hP : P.cdna3 = false) (base k : Nat)
include hP

/-- S_AND_B32 sD, sA, 0xffff -/
theorem lift5_sand_lit16 (D A : Nat) (hD : D < 9) (hA : A < 9)
    (hd : DecS ((P.code.drop k).take 8) 0 12 8 ⟨0, 12, D, A, 255, 0, 0xffff⟩)
    (st : St) (t : T5) (h : Tracks5 st t) (hpc : t.pc = base + k) :
    ∃ st', step P base st = .ok (st', .next) ∧ Tracks5 st' ((t.setS D (t.s A % 65536)).setPc (base + k + 8)) := by
  obtain ⟨V, hV, e1, e2, e3, e4, e5, e6⟩ := h
  obtain ⟨st', hs, hv⟩ := step_sand_lit16 P hP base k D A (by omega) (by omega) hd st V hV (e1.trans hpc)
  refine ⟨st', hs, _, hv, rfl, by simp only [T5.setPc_pc, T5.setPc_exec, T5.setPc_vcc, T5.setPc_mem, T5.setPc_s, T5.setPc_v, T5.setExec_pc, T5.setExec_exec, T5.setExec_vcc, T5.setExec_mem, T5.setExec_s, T5.setExec_v, T5.setVcc_pc, T5.setVcc_exec, T5.setVcc_vcc, T5.setVcc_mem, T5.setVcc_s, T5.setVcc_v, T5.setMem_pc, T5.setMem_exec, T5.setMem_vcc, T5.setMem_mem, T5.setMem_s, T5.setMem_v, T5.setS_pc, T5.setV_pc, T5.setS_exec, T5.setV_exec, T5.setS_vcc, T5.setV_vcc, T5.setS_mem, T5.setV_mem, T5.setS_v, T5.setV_s]; exact e2, by simp only [T5.setPc_pc, T5.setPc_exec, T5.setPc_vcc, T5.setPc_mem, T5.setPc_s, T5.setPc_v, T5.setExec_pc, T5.setExec_exec, T5.setExec_vcc, T5.setExec_mem, T5.setExec_s, T5.setExec_v, T5.setVcc_pc, T5.setVcc_exec, T5.setVcc_vcc, T5.setVcc_mem, T5.setVcc_s, T5.setVcc_v, T5.setMem_pc, T5.setMem_exec, T5.setMem_vcc, T5.setMem_mem, T5.setMem_s, T5.setMem_v, T5.setS_pc, T5.setV_pc, T5.setS_exec, T5.setV_exec, T5.setS_vcc, T5.setV_vcc, T5.setS_mem, T5.setV_mem, T5.setS_v, T5.setV_s]; exact e3, ?_,
    (fun r l hr hl => by simp only [T5.setPc_pc, T5.setPc_exec, T5.setPc_vcc, T5.setPc_mem, T5.setPc_s, T5.setPc_v, T5.setExec_pc, T5.setExec_exec, T5.setExec_vcc, T5.setExec_mem, T5.setExec_s, T5.setExec_v, T5.setVcc_pc, T5.setVcc_exec, T5.setVcc_vcc, T5.setVcc_mem, T5.setVcc_s, T5.setVcc_v, T5.setMem_pc, T5.setMem_exec, T5.setMem_vcc, T5.setMem_mem, T5.setMem_s, T5.setMem_v, T5.setS_pc, T5.setV_pc, T5.setS_exec, T5.setV_exec, T5.setS_vcc, T5.setV_vcc, T5.setS_mem, T5.setV_mem, T5.setS_v, T5.setV_s]; exact e5 r l hr hl), (fun a => by simp only [T5.setPc_pc, T5.setPc_exec, T5.setPc_vcc, T5.setPc_mem, T5.setPc_s, T5.setPc_v, T5.setExec_pc, T5.setExec_exec, T5.setExec_vcc, T5.setExec_mem, T5.setExec_s, T5.setExec_v, T5.setVcc_pc, T5.setVcc_exec, T5.setVcc_vcc, T5.setVcc_mem, T5.setVcc_s, T5.setVcc_v, T5.setMem_pc, T5.setMem_exec, T5.setMem_vcc, T5.setMem_mem, T5.setMem_s, T5.setMem_v, T5.setS_pc, T5.setV_pc, T5.setS_exec, T5.setV_exec, T5.setS_vcc, T5.setV_vcc, T5.setS_mem, T5.setV_mem, T5.setS_v, T5.setV_s]; exact e6 a)⟩
  intro i hi
  show (if i = D then V.rs A % 65536 else V.rs i) = ((t.setS D _).setPc _).s i
  rw [T5.setPc_s, T5.s_setS t D _ i hD hi, e4 A hA, e4 i hi]

/-- S_CBRANCH_EXECZ 19 -/
theorem lift5_execz19 (hd : DecS ((P.code.drop k).take 8) 4 8 4 ⟨4, 8, 0, 0, 0, 19, 0⟩)
    (st : St) (t : T5) (h : Tracks5 st t) (hpc : t.pc = base + k)
    (hexec : t.exec < 18446744073709551616) (hb : base + k + 80 < 18446744073709551616) :
    ∃ st', step P base st = .ok (st', .next) ∧
      Tracks5 st' (t.setPc (if t.exec = 0 then base + k + 80 else base + k + 4)) := by
  obtain ⟨V, hV, e1, e2, e3, e4, e5, e6⟩ := h
  obtain ⟨st', hs, hv⟩ := step_execz19 P hP base k hd st V hV (e1.trans hpc) (by rw [e2]; exact hexec) hb
  exact ⟨st', hs, _, hv, by show (if V.exec = 0 then _ else _) = _; rw [e2]; rfl, e2, e3, e4, e5, e6⟩

/-- S_CBRANCH_EXECZ 25 -/
theorem lift5_execz25 (hd : DecS ((P.code.drop k).take 8) 4 8 4 ⟨4, 8, 0, 0, 0, 25, 0⟩)
    (st : St) (t : T5) (h : Tracks5 st t) (hpc : t.pc = base + k)
    (hexec : t.exec < 18446744073709551616) (hb : base + k + 104 < 18446744073709551616) :
    ∃ st', step P base st = .ok (st', .next) ∧
      Tracks5 st' (t.setPc (if t.exec = 0 then base + k + 104 else base + k + 4)) := by
  obtain ⟨V, hV, e1, e2, e3, e4, e5, e6⟩ := h
  obtain ⟨st', hs, hv⟩ := step_execz25 P hP base k hd st V hV (e1.trans hpc) (by rw [e2]; exact hexec) hb
  exact ⟨st', hs, _, hv, by show (if V.exec = 0 then _ else _) = _; rw [e2]; rfl, e2, e3, e4, e5, e6⟩

/-- a 4-byte VOP2 float instruction `vD = g(src0, vR)`; `val0` is what the first source reads -/
theorem lift5_vbinf32 (op R D : Nat) (hR : R < 5) (hD : D < 5)
    (hd : DecV ((P.code.drop k).take 8) 6 op 4) (name : String) (e : VEnc)
    (hs : Simple e) (hk : e.op.kind = .plain) (hsd : e.sdst = 106) (hwd : e.op.wd = 32) (hty : e.op.ty = .f32)
    (hw0 : e.op.w0 = 32) (hw1 : e.op.w1 = 32) (hn : e.op.nsrc = 2) (habs : e.abs = 0) (hneg : e.neg = 0)
    (hs1 : e.src1 = 256 + R) (hvd : e.vdst = D)
    (g : Nat → Nat → Nat) (hf : ∀ x : LaneIn, (e.op.f x).d = g x.a x.b)
    (hex : ∀ st, exec false st (((P.code.drop k).take 8).take 4) = some (name, execVALU st e))
    (st : St) (t : T5) (h : Tracks5 st t) (hpc : t.pc = base + k) (val0 : Nat → Nat)
    (hval0 : ∀ (st' : St) (V : View), Sees st' V → (∀ i, i < 9 → V.rs i = t.s i) →
      (∀ r l, r < 5 → l < 64 → V.rv r l = t.v r l) → ∀ l, l < 64 → lo32 (st'.src e.src0 l 32 e.lit false) = val0 l) :
    ∃ st', step P base st = .ok (st', .next) ∧
      Tracks5 st' ((t.setV D (fun l => if t.exec.testBit l = true then g (val0 l) (t.v R l % 2 ^ 32) % 2 ^ 32 else t.v D l)).setPc
        (base + k + 4)) := by
  obtain ⟨V, hV, e1, e2, e3, e4, e5, e6⟩ := h
  obtain ⟨st', hs', hv⟩ := step_vbinf32 P hP base k op R D (by omega) hd name e hs hk hsd hwd hty hw0 hw1 hn habs hneg hs1 hvd
    g hf hex st V hV (e1.trans hpc) val0 (hval0 _ _ (hV.setPc (base + k + 4)) e4 e5)
  refine ⟨st', hs', _, hv, rfl, by simp only [T5.setPc_pc, T5.setPc_exec, T5.setPc_vcc, T5.setPc_mem, T5.setPc_s, T5.setPc_v, T5.setExec_pc, T5.setExec_exec, T5.setExec_vcc, T5.setExec_mem, T5.setExec_s, T5.setExec_v, T5.setVcc_pc, T5.setVcc_exec, T5.setVcc_vcc, T5.setVcc_mem, T5.setVcc_s, T5.setVcc_v, T5.setMem_pc, T5.setMem_exec, T5.setMem_vcc, T5.setMem_mem, T5.setMem_s, T5.setMem_v, T5.setS_pc, T5.setV_pc, T5.setS_exec, T5.setV_exec, T5.setS_vcc, T5.setV_vcc, T5.setS_mem, T5.setV_mem, T5.setS_v, T5.setV_s]; exact e2, by simp only [T5.setPc_pc, T5.setPc_exec, T5.setPc_vcc, T5.setPc_mem, T5.setPc_s, T5.setPc_v, T5.setExec_pc, T5.setExec_exec, T5.setExec_vcc, T5.setExec_mem, T5.setExec_s, T5.setExec_v, T5.setVcc_pc, T5.setVcc_exec, T5.setVcc_vcc, T5.setVcc_mem, T5.setVcc_s, T5.setVcc_v, T5.setMem_pc, T5.setMem_exec, T5.setMem_vcc, T5.setMem_mem, T5.setMem_s, T5.setMem_v, T5.setS_pc, T5.setV_pc, T5.setS_exec, T5.setV_exec, T5.setS_vcc, T5.setV_vcc, T5.setS_mem, T5.setV_mem, T5.setS_v, T5.setV_s]; exact e3,
    (fun i hi => by simp only [T5.setPc_pc, T5.setPc_exec, T5.setPc_vcc, T5.setPc_mem, T5.setPc_s, T5.setPc_v, T5.setExec_pc, T5.setExec_exec, T5.setExec_vcc, T5.setExec_mem, T5.setExec_s, T5.setExec_v, T5.setVcc_pc, T5.setVcc_exec, T5.setVcc_vcc, T5.setVcc_mem, T5.setVcc_s, T5.setVcc_v, T5.setMem_pc, T5.setMem_exec, T5.setMem_vcc, T5.setMem_mem, T5.setMem_s, T5.setMem_v, T5.setS_pc, T5.setV_pc, T5.setS_exec, T5.setV_exec, T5.setS_vcc, T5.setV_vcc, T5.setS_mem, T5.setV_mem, T5.setS_v, T5.setV_s]; exact e4 i hi), ?_, (fun a => by simp only [T5.setPc_pc, T5.setPc_exec, T5.setPc_vcc, T5.setPc_mem, T5.setPc_s, T5.setPc_v, T5.setExec_pc, T5.setExec_exec, T5.setExec_vcc, T5.setExec_mem, T5.setExec_s, T5.setExec_v, T5.setVcc_pc, T5.setVcc_exec, T5.setVcc_vcc, T5.setVcc_mem, T5.setVcc_s, T5.setVcc_v, T5.setMem_pc, T5.setMem_exec, T5.setMem_vcc, T5.setMem_mem, T5.setMem_s, T5.setMem_v, T5.setS_pc, T5.setV_pc, T5.setS_exec, T5.setV_exec, T5.setS_vcc, T5.setV_vcc, T5.setS_mem, T5.setV_mem, T5.setS_v, T5.setV_s]; exact e6 a)⟩
  intro r l hr hl
  show (if V.exec.testBit l = true ∧ r = D then _ else V.rv r l) = ((t.setV D _).setPc _).v r l
  rw [T5.setPc_v, T5.v_setV t D _ r hD hr, e2, e5 R l hR hl, e5 r l hr hl]
  by_cases hrd : r = D
  · subst hrd
    by_cases hx : t.exec.testBit l = true <;> simp [hx]
  · simp [hrd]

end lifts
end Emu
end C01
